#!/usr/bin/env python3
"""py2coq: Python `ast` -> Gallina (shallow embedding over PyLib.PyVal.val).

Fail-closed: a function using anything outside the accepted subset is not
emitted (with a located reason in the report), and neither is any function
that calls it.  Semantics live in coq/lib/PyVal.v; this file only chooses which
library function a syntax node maps to.
"""
import ast, sys, os, json, hashlib
from decimal import Decimal

class Unsupported(Exception):
    pass

class Deferred(Exception):
    pass

def fail(node, msg):
    ln = getattr(node, "lineno", "?")
    raise Unsupported("line %s: %s" % (ln, msg))

# ----------------------------------------------------------------------------
# class registry: field layouts are discovered from `self.X = ...` in __init__
# ----------------------------------------------------------------------------
CLASS_TAG = {"Angle": "cAngle", "Epoch": "cEpoch", "Interpolation": "cInterpolation",
             "CurveFitting": "cCurveFitting", "Ellipsoid": "cEllipsoid",
             "Earth": "cEarth", "Minor": "cMinor"}

DATE_FIELDS = {"year": 0, "month": 1, "day": 2, "hour": 3, "minute": 4,
               "second": 5, "microsecond": 6}

BINOPS = {ast.Add: "add", ast.Sub: "sub", ast.Mult: "mul", ast.Div: "truediv",
          ast.Mod: "mod", ast.Pow: "pow", ast.FloorDiv: "floordiv"}
CMPOPS = {ast.Lt: "lt", ast.LtE: "le", ast.Gt: "gt", ast.GtE: "ge",
          ast.Eq: "eq", ast.NotEq: "ne"}
REFLECT_CMP = {"lt": "gt", "gt": "lt", "le": "ge", "ge": "le", "eq": "eq", "ne": "ne"}
UNOPS = {"neg", "pos", "abs", "float", "int", "round", "call"}

LIBM1 = {"sin": "Lsin", "cos": "Lcos", "tan": "Ltan", "asin": "Lasin",
         "acos": "Lacos", "atan": "Latan", "exp": "Lexp", "log": "Llog",
         "log10": "Llog10"}

EXC = {"TypeError", "ValueError", "ZeroDivisionError", "OverflowError",
       "AttributeError", "IndexError", "KeyError", "RuntimeError"}

# function values that may appear in correspondence case expressions (see vlib/basis.py and
# B64.b64_basis_call): name -> VFun id
EXTERN_FUN = {"bf_zero": 1, "bf_one": 2, "bf_x": 3, "bf_x2": 4, "bf_x3": 5, "bf_sin": 6, "bf_cos": 7,
              "bf_sin2": 8, "bf_cos2": 9, "bf_exp": 10, "bf_sqrt": 11}

def coq_str(s):
    if any(ord(c) > 127 for c in s):
        raise Unsupported("non-ascii string literal")
    return '(VStr "%s"%%string)' % s.replace('"', '""')

def float_lit(text, value):
    """decimal mantissa/exponent from the literal's source text + hex of the double"""
    try:
        d = Decimal(text.replace("_", ""))
    except Exception:
        d = Decimal(repr(value))
    sign, digits, exp = d.as_tuple()
    m = int("".join(map(str, digits))) if digits else 0
    if sign:
        m = -m
    hx = float(value).hex()
    if value < 0 or (value == 0 and str(value).startswith("-")):
        hx = "(" + hx + ")"
    zm = str(m) if m >= 0 else "(%d)" % m
    ze = str(exp) if exp >= 0 else "(%d)" % exp
    return "(VFloat (f_lit fo %s %s %s%%float))" % (zm, ze, hx)

def zlit(n):
    return "(VInt %d)" % n if n >= 0 else "(VInt (%d))" % n


class FuncInfo:
    def __init__(self, module, cls, node):
        self.module, self.cls, self.node = module, cls, node
        self.name = node.name
        self.static = any(isinstance(d, ast.Name) and d.id == "staticmethod"
                          for d in node.decorator_list)
        a = node.args
        self.params = [x.arg for x in a.args]
        self.defaults = [None] * (len(a.args) - len(a.defaults)) + list(a.defaults)
        self.vararg = a.vararg.arg if a.vararg else None
        self.kwarg = a.kwarg.arg if a.kwarg else None
        self.is_method = cls is not None and not self.static
        self.mutates = False       # assigns to self attributes (directly or via calls)
        self.coq = (cls + "_" + self.name) if cls else ("f_" + self.name)
        self.emitted = False
        self.error = None
        self.deps = set()

    @property
    def key(self):
        return (self.cls + "." + self.name) if self.cls else self.name

    def user_params(self):
        return self.params[1:] if self.is_method else self.params


class Module:
    def segment(self, node):
        """source text of a single-line node (fast path of ast.get_source_segment)"""
        try:
            if node.lineno == node.end_lineno:
                line = self.lines[node.lineno - 1]
                if line.isascii():
                    return line[node.col_offset:node.end_col_offset]
        except Exception:
            pass
        return ast.get_source_segment(self.src, node)

    def __init__(self, name, path, src=None):
        self.name, self.path = name, path
        self.src = open(path).read() if src is None else src
        self.tree = ast.parse(self.src)
        self.lines = self.src.splitlines()
        self.funcs = {}       # key -> FuncInfo
        self.classes = {}     # class name -> {"fields": [..], "methods": {...}}
        self.globals = {}     # name -> ast expr
        self.imports = {}     # local name -> (module, name)
        self.order = []       # definition order of top-level items
        for n in self.tree.body:
            if isinstance(n, ast.FunctionDef):
                fi = FuncInfo(name, None, n)
                self.funcs[fi.key] = fi
                self.order.append(("func", fi.key))
            elif isinstance(n, ast.ClassDef):
                c = {"fields": [], "methods": {}}
                self.classes[n.name] = c
                for m in n.body:
                    if isinstance(m, ast.FunctionDef):
                        fi = FuncInfo(name, n.name, m)
                        self.funcs[fi.key] = fi
                        c["methods"][m.name] = fi
                        self.order.append(("func", fi.key))
                init = c["methods"].get("__init__")
                meths = ([init] if init else []) + [m2 for m2 in c["methods"].values() if m2 is not init]
                for meth in meths:
                    for s in ast.walk(meth.node):
                        ts = s.targets if isinstance(s, ast.Assign) else \
                            [s.target] if isinstance(s, ast.AugAssign) else []
                        for t in ts:
                            if (isinstance(t, ast.Attribute) and isinstance(t.value, ast.Name)
                                    and t.value.id == "self" and t.attr not in c["fields"]):
                                c["fields"].append(t.attr)
            elif isinstance(n, ast.Assign) and len(n.targets) == 1 and isinstance(n.targets[0], ast.Name):
                self.globals[n.targets[0].id] = n.value
                self.order.append(("global", n.targets[0].id))
            elif isinstance(n, ast.ImportFrom):
                for al in n.names:
                    self.imports[al.asname or al.name] = (n.module, al.name)
            elif isinstance(n, ast.Import):
                for al in n.names:
                    self.imports[al.asname or al.name] = (al.name, None)


# ----------------------------------------------------------------------------
# per-function translator
# ----------------------------------------------------------------------------
MUT_BUILTIN = {"append"}

def target_names(t, out):
    if isinstance(t, ast.Name):
        out.add(t.id)
    elif isinstance(t, (ast.Tuple, ast.List)):
        for e in t.elts:
            target_names(e, out)
    elif isinstance(t, ast.Subscript):
        base = t.value
        while isinstance(base, ast.Subscript):
            base = base.value
        if isinstance(base, ast.Name):
            out.add(base.id)
        elif isinstance(base, ast.Attribute) and isinstance(base.value, ast.Name):
            out.add(base.value.id)
    elif isinstance(t, ast.Attribute):
        if isinstance(t.value, ast.Name):
            out.add(t.value.id)

class FT:
    def __init__(self, tr, mod, fi):
        self.tr, self.mod, self.fi = tr, mod, fi
        self.uid = 0
        self.hard, self.soft = set(), set()
        self.pre = []
        self.lazy = 0
        self.nested = {}     # nested def name -> (node, coq name)

    def fresh(self, base):
        self.uid += 1
        return "%s%d" % (base, self.uid)

    def v(self, name):
        return name + "_"

    # ---------------------------------------------------------------- analysis
    def assigned(self, stmts):
        out = set()
        for s in stmts:
            for n in ast.walk(s):
                if isinstance(n, ast.Assign):
                    for t in n.targets:
                        target_names(t, out)
                elif isinstance(n, ast.AugAssign):
                    target_names(n.target, out)
                elif isinstance(n, ast.For):
                    target_names(n.target, out)
                elif isinstance(n, ast.Call) and isinstance(n.func, ast.Attribute):
                    m = n.func.attr
                    if m in MUT_BUILTIN or self.tr.is_mutating_name(m):
                        r = n.func.value
                        if isinstance(r, ast.Name) and r.id in self.locals:
                            out.add(r.id)
                        elif (isinstance(r, ast.Attribute) and isinstance(r.value, ast.Name)
                              and r.value.id == "self"):
                            out.add("self")
                elif isinstance(n, ast.FunctionDef):
                    pass
        return out & self.locals

    def collect_locals(self):
        fi = self.fi
        loc = set(fi.params)
        if fi.vararg: loc.add(fi.vararg)
        if fi.kwarg: loc.add(fi.kwarg)
        for n in ast.walk(fi.node):
            if isinstance(n, ast.Assign):
                for t in n.targets:
                    if isinstance(t, (ast.Name, ast.Tuple, ast.List)):
                        target_names(t, loc)
            elif isinstance(n, ast.AugAssign) and isinstance(n.target, ast.Name):
                loc.add(n.target.id)
            elif isinstance(n, ast.For):
                target_names(n.target, loc)
            elif isinstance(n, (ast.ListComp, ast.GeneratorExp)):
                for g in n.generators:
                    target_names(g.target, loc)
            elif isinstance(n, (ast.Global, ast.Nonlocal, ast.Yield, ast.YieldFrom, ast.With,
                                ast.ClassDef, ast.Await, ast.AsyncFunctionDef, ast.Delete)):
                fail(n, "unsupported construct %s" % type(n).__name__)
        return loc

    # ------------------------------------------------------------- expressions
    def expr(self, n):
        m = getattr(self, "e_" + type(n).__name__, None)
        if m is None:
            fail(n, "unsupported expression %s" % type(n).__name__)
        return m(n)

    def e_Constant(self, n):
        v = n.value
        if v is None: return "VNone"
        if v is True: return "(VBool true)"
        if v is False: return "(VBool false)"
        if isinstance(v, int): return zlit(v)
        if isinstance(v, float):
            txt = self.mod.segment(n) or repr(v)
            return float_lit(txt, v)
        if isinstance(v, str): return coq_str(v)
        fail(n, "constant %r" % (v,))

    def e_Name(self, n):
        x = n.id
        if x in self.locals or x in getattr(self, "outer", ()):
            return self.v(x)
        if x in self.nested:
            fail(n, "nested function used as a value")
        g = self.tr.resolve_global(self.mod, x)
        if g is not None:
            how = self.tr.ensure_hard(self, ("global", g[1], g[0]))
            if how != "done": fail(n, "global in a recursive cycle")
            return self.tr.global_coq(g)
        if x in EXTERN_FUN:
            # a Python function value from the fixed menu vlib/basis.py (basis functions for
            # CurveFitting.general_fitting); interpreted by f_call of the FloatOps instance
            return "(VFun %d%%positive [])" % EXTERN_FUN[x]
        if x == "pi" and self.mod.imports.get("pi", (None,))[0] == "math":
            return "(VFloat (f_pi fo))"
        fail(n, "unknown name %s" % x)

    def op(self, kind):
        """kind like 'add','lt','neg','iadd' -> versioned wrapper name"""
        return self.tr.op_wrapper(self, kind)

    def e_BinOp(self, n):
        k = BINOPS.get(type(n.op))
        if not k: fail(n, "binop")
        return "(%s %s %s)" % (self.op(k), self.expr(n.left), self.expr(n.right))

    def e_UnaryOp(self, n):
        if isinstance(n.op, ast.USub):
            if isinstance(n.operand, ast.Constant) and isinstance(n.operand.value, (int, float)) \
                    and not isinstance(n.operand.value, bool):
                v = n.operand.value
                if isinstance(v, int): return zlit(-v)
                txt = self.mod.segment(n.operand) or repr(v)
                return float_lit("-" + txt, -v)
            return "(%s %s)" % (self.op("neg"), self.expr(n.operand))
        if isinstance(n.op, ast.UAdd):
            return "(%s %s)" % (self.op("pos"), self.expr(n.operand))
        if isinstance(n.op, ast.Not):
            return "(py_not fo %s)" % self.expr(n.operand)
        fail(n, "unary op")

    def lazy_expr(self, n):
        self.lazy += 1
        try:
            return self.expr(n)
        finally:
            self.lazy -= 1

    def e_BoolOp(self, n):
        f = "py_and" if isinstance(n.op, ast.And) else "py_or"
        vals = n.values
        out = self.lazy_expr(vals[-1]) if len(vals) > 1 else self.expr(vals[-1])
        for i in range(len(vals) - 2, -1, -1):
            e = self.expr(vals[i]) if i == 0 else self.lazy_expr(vals[i])
            out = "(%s fo %s (fun _ => %s))" % (f, e, out)
        return out

    def cmp1(self, op, a, b, node):
        if isinstance(op, (ast.In, ast.NotIn)):
            r = "(py_contains fo %s %s)" % (b, a)
            return r if isinstance(op, ast.In) else "(bind %s (py_not fo))" % r
        if isinstance(op, (ast.Is, ast.IsNot)):
            r = "(py_is %s %s)" % (a, b)
            return r if isinstance(op, ast.Is) else "(bind %s (py_not fo))" % r
        k = CMPOPS.get(type(op))
        if not k: fail(node, "compare op")
        return "(%s %s %s)" % (self.op(k), a, b)

    def type_test(self, n):
        """type(x) in (list, tuple) / type(x) == float / type(x) is int: exact-type tests
        (bool is not int, datetime is not date)"""
        l = n.left
        if not (len(n.ops) == 1 and isinstance(l, ast.Call) and isinstance(l.func, ast.Name) and l.func.id == "type"
                and "type" not in self.locals and len(l.args) == 1 and not l.keywords):
            return None
        op, rhs = n.ops[0], n.comparators[0]
        if isinstance(op, (ast.In, ast.NotIn)) and isinstance(rhs, (ast.Tuple, ast.List)): tys = rhs.elts
        elif isinstance(op, (ast.Eq, ast.NotEq, ast.Is, ast.IsNot)): tys = [rhs]
        else: return None
        tags = [t for e in tys for t in self.tytags(e)]
        v = self.fresh("ty")
        test = "(isinstance %s [%s])" % (v, "; ".join(tags))
        excl = []
        if "TInt" in tags and "TBool" not in tags: excl.append("TBool")
        if "(TCls cDate)" in tags and "(TCls cDateTime)" not in tags: excl.append("(TCls cDateTime)")
        if excl:
            test = "(py_and fo %s (fun _ => py_not fo (isinstance %s [%s])))" % (test, v, "; ".join(excl))
        if isinstance(op, (ast.NotIn, ast.NotEq, ast.IsNot)):
            test = "(bind %s (py_not fo))" % test
        return "(bind %s (fun %s => %s))" % (self.expr(l.args[0]), v, test)

    def e_Compare(self, n):
        tt = self.type_test(n)
        if tt is not None: return tt
        if len(n.ops) == 1:
            return self.cmp1(n.ops[0], self.expr(n.left), self.expr(n.comparators[0]), n)
        # a < b < c : bind the middle operands once
        left = self.expr(n.left)
        parts, prev, binds = [], left, []
        for i, (op, c) in enumerate(zip(n.ops, n.comparators)):
            ce = self.lazy_expr(c) if i > 0 else self.expr(c)
            if i < len(n.ops) - 1:
                t = self.fresh("c")
                binds.append((t, ce))
                ce = t
            parts.append((op, prev, ce))
            prev = ce
        out = self.cmp1(parts[-1][0], parts[-1][1], parts[-1][2], n)
        for i in range(len(parts) - 2, -1, -1):
            op, a, b = parts[i]
            t, ce = binds[i]
            out = "(bind %s (fun %s => py_and fo %s (fun _ => %s)))" % (ce, t, self.cmp1(op, a, t, n), out)
        return out

    def e_IfExp(self, n):
        return "(ifv fo %s (fun _ => %s) (fun _ => %s))" % (
            self.expr(n.test), self.lazy_expr(n.body), self.lazy_expr(n.orelse))

    def e_Tuple(self, n):
        if any(isinstance(e, ast.Starred) for e in n.elts): fail(n, "starred")
        return "(mk_tuple [%s])" % "; ".join(self.expr(e) for e in n.elts)

    def e_List(self, n):
        if any(isinstance(e, ast.Starred) for e in n.elts): fail(n, "starred")
        return "(mk_list [%s])" % "; ".join(self.expr(e) for e in n.elts)

    def e_Dict(self, n):
        if any(k is None for k in n.keys): fail(n, "dict unpacking")
        return "(mk_dict [%s])" % "; ".join(
            "(%s, %s)" % (self.expr(k), self.expr(v)) for k, v in zip(n.keys, n.values))

    def e_Subscript(self, n):
        s = n.slice
        if isinstance(s, ast.Slice):
            if s.step is not None: fail(n, "slice step")
            lo = self.expr(s.lower) if s.lower else "VNone"
            hi = self.expr(s.upper) if s.upper else "VNone"
            return "(py_slice %s %s %s)" % (self.expr(n.value), lo, hi)
        return "(py_getitem fo %s %s)" % (self.expr(n.value), self.expr(s))

    def e_Attribute(self, n):
        # module constants
        if isinstance(n.value, ast.Name) and n.value.id not in self.locals:
            mod = self.mod.imports.get(n.value.id)
            if mod and mod[0] == "math" and mod[1] is None and n.attr == "pi":
                return "(VFloat (f_pi fo))"
        # x.tm_yday after timetuple()
        if n.attr == "tm_yday" and isinstance(n.value, ast.Call) and \
                isinstance(n.value.func, ast.Attribute) and n.value.func.attr == "timetuple":
            return "(date_yday %s)" % self.expr(n.value.func.value)
        if n.attr == "__class__":
            fail(n, "__class__")
        recv = self.expr(n.value)
        cands = self.tr.field_candidates(n.attr)
        if isinstance(n.value, ast.Name) and n.value.id == "self" and self.fi.cls:
            c = self.fi.cls
            fs = self.tr.class_fields(c)
            if n.attr in fs:
                return "(get_field %s %d%%nat %s)" % (CLASS_TAG[c], fs.index(n.attr), recv)
        if n.attr in DATE_FIELDS:
            i = DATE_FIELDS[n.attr]
            cs = ["(cDateTime, %d%%nat)" % i] + (["(cDate, %d%%nat)" % i] if i < 3 else [])
            cands = cands + cs
        if not cands:
            fail(n, "unknown attribute %s" % n.attr)
        return "(get_field_any [%s] %s)" % ("; ".join(cands), recv)

    def e_ListComp(self, n):
        if len(n.generators) != 1: fail(n, "nested comprehension")
        g = n.generators[0]
        if g.is_async: fail(n, "async")
        it = self.expr(g.iter)
        x = self.fresh("it")
        self.lazy += 1
        try:
            body = self.expr(n.elt)
            conds = [self.expr(c) for c in g.ifs]
        finally:
            self.lazy -= 1
        pat = self.unpack_target(g.target, x, body if not conds else None)
        if conds:
            fail(n, "comprehension filter")
        return "(py_listcomp (fun %s => %s) %s)" % (x, pat, it)

    def unpack_target(self, t, src, body):
        """let-bind target t from value `src`, then `body` (Coq text)"""
        if isinstance(t, ast.Name):
            return "let %s := %s in %s" % (self.v(t.id), src, body)
        if isinstance(t, (ast.Tuple, ast.List)):
            u = self.fresh("u")
            out = body
            for i in range(len(t.elts) - 1, -1, -1):
                out = self.unpack_target(t.elts[i], "(item %s %d%%nat)" % (u, i), out)
            return "bind (unpack %d%%nat %s) (fun %s => %s)" % (len(t.elts), src, u, out)
        fail(t, "unpack target")

    def e_Lambda(self, n):
        fail(n, "lambda")

    def e_JoinedStr(self, n):
        fail(n, "f-string")

    # ------------------------------------------------------------------- calls
    def bind_call(self, fi, n):
        params = fi.user_params()
        defaults = fi.defaults[len(fi.params) - len(params):]
        pos = list(n.args)
        kws = {k.arg: k.value for k in n.keywords if k.arg is not None}
        dstar = [k.value for k in n.keywords if k.arg is None]
        starred = [a for a in pos if isinstance(a, ast.Starred)]
        out = []
        if starred:
            if params or len(pos) != 1 or not fi.vararg:
                fail(n, "starred call into regular parameters")
            out.append("(py_tuple %s)" % self.expr(pos[0].value))
        else:
            vals = {}
            for i, a in enumerate(pos[:len(params)]):
                vals[params[i]] = self.expr(a)
            extra = pos[len(params):]
            for p, d in zip(params, defaults):
                if p in vals:
                    if p in kws: fail(n, "duplicate argument %s" % p)
                    continue
                if p in kws:
                    vals[p] = self.expr(kws.pop(p))
                elif d is not None:
                    vals[p] = self.tr.default_expr(fi, d)
                else:
                    fail(n, "missing argument %s in call to %s" % (p, fi.key))
            out = [vals[p] for p in params]
            if fi.vararg:
                out.append("(mk_tuple [%s])" % "; ".join(self.expr(a) for a in extra))
            elif extra:
                fail(n, "too many positional arguments for %s" % fi.key)
        if fi.kwarg:
            if dstar and kws: fail(n, "mixed ** and keywords")
            if len(dstar) > 1: fail(n, "several **")
            if dstar:
                out.append(self.expr(dstar[0]))
            else:
                out.append("(mk_dict [%s])" % "; ".join(
                    "(kw \"%s\" %s)" % (k, self.expr(v)) for k, v in kws.items()))
        elif kws or dstar:
            fail(n, "unexpected keyword arguments %s for %s" % (list(kws), fi.key))
        return out

    def call_fi(self, fi, n, recv=None):
        """direct call of a known function; recv = Coq text of the receiver for methods"""
        how = self.tr.ensure_hard(self, ("func", fi.key, fi.module))
        args = self.bind_call(fi, n)
        if fi.is_method:
            args = [recv] + args
        head = fi.coq if how == "done" else "%s_rec rfuel'" % fi.coq
        if not args:
            return "(%s tt)" % head
        return "(%s %s)" % (head, " ".join(args))

    def construct(self, cname, n):
        init = self.tr.find_method(cname, "__init__")
        if init is None: fail(n, "class %s has no __init__" % cname)
        how = self.tr.ensure_hard(self, ("func", init.key, init.module))
        args = self.bind_call(init, n)
        blank = "(VObj %s [%s])" % (CLASS_TAG[cname], "; ".join(["VNone"] * len(self.tr.class_fields(cname))))
        head = init.coq if how == "done" else "%s_rec rfuel'" % init.coq
        return "(%s %s)" % (head, " ".join([blank] + args))

    def tytags(self, t):
        names = {"int": "TInt", "float": "TFloat", "str": "TStr", "tuple": "TTuple",
                 "list": "TList", "dict": "TDict", "bool": "TBool"}
        if isinstance(t, ast.Tuple):
            return [x for e in t.elts for x in self.tytags(e)]
        if isinstance(t, ast.Name):
            if t.id in names: return [names[t.id]]
            if self.tr.resolve_class(self.mod, t.id): return ["(TCls %s)" % CLASS_TAG[t.id]]
        if isinstance(t, ast.Attribute) and isinstance(t.value, ast.Name) and t.value.id == "datetime":
            if t.attr == "datetime": return ["(TCls cDateTime)"]
            if t.attr == "date": return ["(TCls cDate)"]
        fail(t, "isinstance type")

    def e_Call(self, n):
        f = n.func
        if isinstance(f, ast.Name): return self.call_name(n, f.id)
        if isinstance(f, ast.Attribute): return self.call_attr(n, f)
        args = self.plain_args(n, 0, 9)
        return "(bind %s (fun f_ => guard [%s] (fun _ => %s f_ [%s])))" % (
            self.expr(f), "; ".join(args), self.op("call"), "; ".join(args))

    def plain_args(self, n, lo, hi=None):
        if n.keywords or any(isinstance(a, ast.Starred) for a in n.args):
            fail(n, "keywords/star in builtin call")
        hi = lo if hi is None else hi
        if not (lo <= len(n.args) <= hi): fail(n, "arity of builtin call")
        return [self.expr(a) for a in n.args]

    def call_name(self, n, name):
        if name in self.nested:
            coqname, npar = self.nested[name]
            args = self.plain_args(n, npar)
            return "(%s %s)" % (coqname, " ".join(args) if args else "tt")
        if name in self.locals:
            # calling a local value: function parameters (basis functions)
            args = self.plain_args(n, 0, 9)
            return "(%s %s [%s])" % (self.op("call"), self.v(name), "; ".join(args))
        imp = self.mod.imports.get(name)
        if imp and imp[0] == "math":
            return self.math_call(n, imp[1])
        if name in self.mod.funcs and self.mod.funcs[name].cls is None:
            return self.call_fi(self.mod.funcs[name], n)
        if self.tr.resolve_class(self.mod, name):
            return self.construct(name, n)
        fi = self.tr.resolve_function(self.mod, name)
        if fi: return self.call_fi(fi, n)
        # builtins
        if name == "isinstance":
            if len(n.args) != 2: fail(n, "isinstance arity")
            return "(isinstance %s [%s])" % (self.expr(n.args[0]), "; ".join(self.tytags(n.args[1])))
        simple1 = {"len": "py_len", "list": "py_list", "tuple": "py_tuple", "sorted": "py_sorted fo",
                   "bool": "py_bool fo"}
        if name in simple1:
            return "(%s %s)" % (simple1[name], self.plain_args(n, 1)[0])
        if name in ("abs", "int", "float"):
            return "(%s %s)" % (self.op(name), self.plain_args(n, 1)[0])
        if name == "round":
            a = self.plain_args(n, 1, 2)
            return "(%s %s %s)" % (self.op("round"), a[0], a[1] if len(a) > 1 else "VNone")
        if name == "range":
            a = self.plain_args(n, 1, 3)
            if len(a) == 3:
                return "(py_range3 %s %s %s)" % (a[0], a[1], a[2])
            return "(py_range %s %s)" % (("(VInt 0)", a[0]) if len(a) == 1 else (a[0], a[1]))
        if name in ("min", "max"):
            a = self.plain_args(n, 1, 9)
            if len(a) == 1: return "(py_%s_seq fo %s)" % (name, a[0])
            return "(py_%s_seq fo (mk_list [%s]))" % (name, "; ".join(a))
        if name == "enumerate":
            return "(py_enumerate %s)" % self.plain_args(n, 1)[0]
        if name == "zip":
            a = self.plain_args(n, 2)
            return "(py_zip %s %s)" % (a[0], a[1])
        if name == "sum":
            return "(py_sum fo %s)" % self.plain_args(n, 1)[0]
        fail(n, "unknown callee %s" % name)

    def math_call(self, n, name):
        if name in LIBM1:
            return "(m1 fo %s %s)" % (LIBM1[name], self.plain_args(n, 1)[0])
        if name == "atan2":
            a = self.plain_args(n, 2); return "(m2 fo Latan2 %s %s)" % (a[0], a[1])
        one = {"sqrt": "math_sqrt", "radians": "math_radians", "degrees": "math_degrees",
               "floor": "math_floor", "fabs": "math_fabs", "fsum": "math_fsum"}
        if name in one:
            return "(%s fo %s)" % (one[name], self.plain_args(n, 1)[0])
        if name == "copysign":
            a = self.plain_args(n, 2); return "(math_copysign fo %s %s)" % (a[0], a[1])
        if name == "pow":
            a = self.plain_args(n, 2); return "(math_pow fo %s %s)" % (a[0], a[1])
        fail(n, "math.%s" % name)

    def mutating_result(self, n, recv_node, call_text):
        """call_text evaluates to VTuple [recv'; result]; rebind the receiver"""
        r = self.fresh("r")
        if isinstance(recv_node, ast.Name) and recv_node.id in self.locals:
            if self.lazy: fail(n, "mutating call in a lazily evaluated position")
            x = self.v(recv_node.id)
            self.pre.append(("bind %s (fun %s => let %s := item %s 0%%nat in " % (call_text, r, x, r), ")"))
            return "(item %s 1%%nat)" % r
        if isinstance(recv_node, (ast.Attribute, ast.Subscript)):
            fail(n, "mutating call on a stored object")
        return "(bind %s (fun %s => item %s 1%%nat))" % (call_text, r, r)

    def call_attr(self, n, f):
        m, rv = f.attr, f.value
        # module-qualified calls
        if isinstance(rv, ast.Name) and rv.id not in self.locals:
            imp = self.mod.imports.get(rv.id)
            if imp and imp[1] is None:
                if imp[0] == "math": return self.math_call(n, m)
                if imp[0] == "calendar" and m == "isleap":
                    return "(cal_isleap %s)" % self.plain_args(n, 1)[0]
                if imp[0] == "datetime" and m == "date":
                    a = self.plain_args(n, 3)
                    return "(date_new %s %s %s)" % tuple(a)
                if imp[0] == "datetime" and m == "datetime":
                    a = self.plain_args(n, 3, 7)
                    a = a + ["(VInt 0)"] * (7 - len(a))
                    return "(datetime_new [%s])" % "; ".join(a)
                fail(n, "call %s.%s" % (rv.id, m))
            if self.tr.resolve_class(self.mod, rv.id) or self.tr.resolve_namespace_class(self.mod, rv.id):
                fi = self.tr.find_method(rv.id, m)
                if fi is None: fail(n, "no method %s.%s" % (rv.id, m))
                if fi.is_method: fail(n, "unbound method call %s.%s" % (rv.id, m))
                return self.call_fi(fi, n)
        if isinstance(rv, ast.Attribute) and isinstance(rv.value, ast.Name) and rv.value.id == "datetime" \
                and rv.value.id not in self.locals:
            if rv.attr == "date" and m == "fromordinal":
                return "(date_fromordinal %s)" % self.plain_args(n, 1)[0]
            fail(n, "datetime.%s.%s" % (rv.attr, m))
        if isinstance(rv, ast.Name) and rv.id in getattr(self, "ns_vars", {}):
            fi = self.tr.find_method(self.ns_vars[rv.id], m)
            if fi is None or fi.is_method: fail(n, "method %s of a namespace instance" % m)
            return self.call_fi(fi, n)
        # self.method(...)
        if isinstance(rv, ast.Name) and rv.id == "self" and self.fi.cls:
            fi = self.tr.find_method(self.fi.cls, m)
            if fi is not None:
                if not fi.is_method:
                    return self.call_fi(fi, n)
                txt = self.call_fi(fi, n, recv="self_")
                if fi.mutates:
                    return self.mutating_result(n, rv, txt)
                return txt
        # builtin container / string methods
        if m == "append":
            a = self.plain_args(n, 1)[0]
            if isinstance(rv, ast.Name) and rv.id in self.locals:
                if self.lazy: fail(n, "append in lazy position")
                x = self.v(rv.id)
                self.pre.append(("bind (py_append %s %s) (fun %s => " % (x, a, x), ")"))
                return "VNone"
            if isinstance(rv, ast.Attribute) and isinstance(rv.value, ast.Name) and rv.value.id == "self" \
                    and self.fi.cls and rv.attr in self.tr.class_fields(self.fi.cls):
                if self.lazy: fail(n, "append in lazy position")
                c = self.fi.cls; i = self.tr.class_fields(c).index(rv.attr)
                self.pre.append(("bind (set_field %s %d%%nat self_ (py_append (get_field %s %d%%nat self_) %s)) (fun self_ => "
                                 % (CLASS_TAG[c], i, CLASS_TAG[c], i, a), ")"))
                return "VNone"
            fail(n, "append on a non-local")
        if m == "format":
            if n.keywords or any(isinstance(x, ast.Starred) for x in n.args): fail(n, "format with keywords")
            return "(py_format fo %s [%s])" % (self.expr(rv), "; ".join(self.expr(x) for x in n.args))
        if m == "replace" and not self.tr.method_candidates(self.mod, m):
            a2 = self.plain_args(n, 2)
            return "(py_str_replace %s %s %s)" % (self.expr(rv), a2[0], a2[1])
        builtin = {"strip": ("str_meth str_strip", 0), "capitalize": ("str_meth str_capitalize", 0),
                   "keys": ("dict_keys", 0), "index": ("list_index fo", 1),
                   "toordinal": ("date_toordinal", 0), "upper": ("str_meth (smap upper_c)", 0),
                   "lower": ("str_meth (smap lower_c)", 0)}
        cands = self.tr.method_candidates(self.mod, m)
        recv = self.expr(rv)
        if not cands:
            if m in builtin:
                fn, ar = builtin[m]
                a = self.plain_args(n, ar)
                return "(%s %s)" % (fn, " ".join([recv] + a))
            fail(n, "unknown method %s" % m)
        r = self.fresh("o")
        mut = any(fi.mutates for fi in cands)
        chain = "(VErr AttributeError)"
        if m in builtin:
            fn, ar = builtin[m]
            chain = "(%s %s)" % (fn, " ".join([r] + self.plain_args(n, ar)))
            if mut: chain = "(ret_self %s %s)" % (r, chain)
        for fi in reversed(cands):
            if not fi.is_method: continue
            self.soft.add(("func", fi.key))
            if self.tr.available(self, fi):
                args = self.bind_call(fi, n)
                call = "(%s %s)" % (fi.coq, " ".join([r] + args))
                if mut and not fi.mutates:
                    call = "(ret_self %s %s)" % (r, call)
            else:
                call = "(VErr Unsupported)"
            chain = "(if is_obj %s %s then %s else %s)" % (CLASS_TAG[fi.cls], r, call, chain)
        txt = "(bind %s (fun %s => %s))" % (recv, r, chain)
        if mut:
            return self.mutating_result(n, rv, txt)
        return txt

    # -------------------------------------------------------------- statements
    def ret(self, e):
        fi = self.fi
        if fi.name == "__init__" and fi.cls:
            return "(bind %s (fun _ => self_))" % e if e != "VNone" else "self_"
        if fi.is_method and fi.mutates:
            return "(ret_self self_ %s)" % e
        return e

    def with_pre(self, build):
        saved, self.pre = self.pre, []
        try:
            text = build()
            pres = self.pre
        finally:
            self.pre = saved
        for prefix, close in reversed(pres):
            text = prefix + text + close
        return text

    def falls_through(self, stmts):
        if not stmts: return True
        s = stmts[-1]
        if isinstance(s, (ast.Return, ast.Raise, ast.Break, ast.Continue)): return False
        if isinstance(s, ast.If):
            return self.falls_through(s.body) or self.falls_through(s.orelse)
        return True

    def stmts(self, ss, k):
        """Coq text running statements ss and then continuing with text k"""
        if not ss:
            return k
        s, rest = ss[0], ss[1:]
        if isinstance(s, (ast.Return, ast.Raise, ast.Break, ast.Continue)):
            rest_k = None      # unreachable
        m = getattr(self, "s_" + type(s).__name__, None)
        if m is None:
            fail(s, "unsupported statement %s" % type(s).__name__)
        return m(s, lambda: self.stmts(rest, k))

    def s_Pass(self, s, K): return K()

    def s_FunctionDef(self, s, K):
        """nested helper function: a local Coq function; it may read (not write) the
        enclosing function's variables, which must not be re-assigned after the def"""
        if self.loops: fail(s, "nested def inside a loop")
        fi = FuncInfo(self.mod.name, None, s)
        if fi.vararg or fi.kwarg or any(d is not None for d in fi.defaults) or s.decorator_list:
            fail(s, "nested def with defaults/varargs/decorators")
        sub = FT(self.tr, self.mod, fi)
        sub.needed = self.needed
        sub.hard, sub.soft = self.hard, self.soft
        sub.nested = dict(self.nested)
        sub.outer = set(self.locals) | set(getattr(self, "outer", ()))
        sub.locals = sub.collect_locals()
        sub.loops = []
        free = {n.id for n in ast.walk(s) if isinstance(n, ast.Name)} - sub.locals
        captured = free & sub.outer
        self.captured_after = getattr(self, "captured_after", [])
        self.captured_after.append((s, captured))
        for n in ast.walk(s):
            if isinstance(n, ast.Call) and isinstance(n.func, ast.Attribute) and \
                    (n.func.attr in MUT_BUILTIN or self.tr.is_mutating_name(n.func.attr)):
                r = n.func.value
                if isinstance(r, ast.Name) and r.id in captured:
                    fail(n, "nested def mutates a captured variable")
        body = sub.stmts(list(s.body), "VNone")
        for x in reversed(sorted(sub.locals - set(fi.params))):
            body = "let %s : val := VErr UnboundLocalError in %s" % (sub.v(x), body)
        cps = [sub.v(p) for p in fi.params]
        if cps:
            sig = "(%s : val)" % " ".join(cps)
            body = "guard [%s] (fun _ => %s)" % ("; ".join(cps), body)
        else:
            sig = "(_ : unit)"
        cname = "nf_%s" % s.name
        self.nested[s.name] = (cname, len(fi.params))
        return "let %s := fun %s => %s in %s" % (cname, sig, body, K())

    def s_Expr(self, s, K):
        v = s.value
        if isinstance(v, ast.Constant): return K()
        if isinstance(v, ast.Call) and isinstance(v.func, ast.Name) and v.func.id == "print":
            return K()
        return self.with_pre(lambda: "bind %s (fun _ => %s)" % (self.expr(v), K()))

    def s_Return(self, s, K):
        return self.with_pre(lambda: self.ret(self.expr(s.value) if s.value else "VNone"))

    def s_Raise(self, s, K):
        e = s.exc
        if isinstance(e, ast.Call): e = e.func
        if isinstance(e, ast.Name) and e.id in EXC:
            return "(VErr %s)" % e.id
        fail(s, "raise of unknown exception")

    def store(self, t, val):
        """returns (coq var to rebind, new value text) for a store into target t"""
        if isinstance(t, ast.Name):
            return self.v(t.id), val
        if isinstance(t, ast.Attribute):
            base = t.value
            cname = None
            if isinstance(base, ast.Name) and base.id == "self" and self.fi.cls and \
                    t.attr in self.tr.class_fields(self.fi.cls):
                cname = self.fi.cls
            else:
                cs = self.tr.classes_with_field(t.attr)
                if len(cs) == 1: cname = cs[0]
            if cname is None: fail(t, "store to unknown attribute %s" % t.attr)
            i = self.tr.class_fields(cname).index(t.attr)
            return self.store(base, "(set_field %s %d%%nat %s %s)" % (CLASS_TAG[cname], i, self.expr(base), val))
        if isinstance(t, ast.Subscript):
            if isinstance(t.slice, ast.Slice): fail(t, "slice store")
            return self.store(t.value, "(py_setitem fo %s %s %s)" % (self.expr(t.value), self.expr(t.slice), val))
        fail(t, "store target")

    def assign_to(self, t, val, K):
        if isinstance(t, (ast.Tuple, ast.List)):
            u = self.fresh("t")
            return "bind %s (fun %s => %s)" % (val, u, self.unpack_target(t, u, K()))
        var, newval = self.store(t, val)
        if not (var.endswith("_") and var[:-1] in self.locals):
            fail(t, "store into a non-local")
        return "bind %s (fun %s => %s)" % (newval, var, K())

    def s_Assign(self, s, K):
        v0 = s.value
        if (len(s.targets) == 1 and isinstance(s.targets[0], ast.Name) and isinstance(v0, ast.Call)
                and isinstance(v0.func, ast.Name) and not v0.args and not v0.keywords
                and v0.func.id not in CLASS_TAG and v0.func.id not in self.locals
                and self.tr.resolve_namespace_class(self.mod, v0.func.id)
                and self.tr.trivial_init(v0.func.id)):
            # instance of a class that only holds static methods: remember the class
            if self.loops: fail(s, "namespace instance inside a loop")
            self.ns_vars = getattr(self, "ns_vars", {})
            self.ns_vars[s.targets[0].id] = v0.func.id
            return "let %s : val := VNone in %s" % (self.v(s.targets[0].id), K())
        def build():
            val = self.expr(s.value)
            if len(s.targets) == 1:
                return self.assign_to(s.targets[0], val, K)
            u = self.fresh("a")
            def chain(i):
                if i == len(s.targets): return K()
                return self.assign_to(s.targets[i], u, lambda: chain(i + 1))
            return "bind %s (fun %s => %s)" % (val, u, chain(0))
        return self.with_pre(build)

    def s_AugAssign(self, s, K):
        k = BINOPS.get(type(s.op))
        if not k: fail(s, "augmented op")
        def build():
            t = s.target
            if isinstance(t, ast.Name):
                val = "(%s %s %s)" % (self.op("i" + k), self.v(t.id), self.expr(s.value))
            else:
                val = "(%s %s %s)" % (self.op(k), self.expr(t), self.expr(s.value))
            return self.assign_to(t, val, K)
        return self.with_pre(build)

    def join(self, vars_, K):
        """returns (binder text or '', call text) for a join continuation"""
        kn = self.fresh("k")
        if vars_:
            params = " ".join(self.v(x) for x in vars_)
            return ("let %s := fun (%s : val) => %s in " % (kn, params, K()), "%s %s" % (kn, params))
        return ("let %s := fun (_ : unit) => %s in " % (kn, K()), "%s tt" % kn)

    def s_If(self, s, K):
        ft = self.falls_through(s.body) or self.falls_through(s.orelse)
        def build():
            c = self.expr(s.test)
            if ft:
                vs = sorted(self.assigned(s.body + s.orelse))
                binder, call = self.join(vs, K)
            else:
                binder, call = "", "(VErr RuntimeError)"
            a = self.stmts(s.body, call)
            b = self.stmts(s.orelse, call)
            return "%sifv fo %s (fun _ => %s) (fun _ => %s)" % (binder, c, a, b)
        return self.with_pre(build)

    def s_While(self, s, K):
        if s.orelse: fail(s, "while-else")
        vs = sorted(self.assigned(s.body))
        binder, after = self.join(vs, K)
        lp = self.fresh("loop")
        params = " ".join(self.v(x) for x in vs)
        ptxt = ("(%s : val)" % params) if vs else ""
        self.loops.append((after, "%s fuel' %s" % (lp, params)))
        try:
            cond = self.with_pre(lambda: "ifv fo %s (fun _ => %s) (fun _ => %s)" % (
                self.expr(s.test), self.stmts(s.body, "%s fuel' %s" % (lp, params)), after))
        finally:
            self.loops.pop()
        return ("%s(fix %s (fuel : nat) %s {struct fuel} : val := match fuel with 0%%nat => VErr OutOfFuel "
                "| S fuel' => %s end) loop_fuel %s" % (binder, lp, ptxt, cond, params))

    def s_For(self, s, K):
        if s.orelse: fail(s, "for-else")
        vs = sorted(self.assigned(s.body) | self.assigned([ast.Assign(targets=[s.target], value=ast.Constant(value=None))]))
        tn = set(); target_names(s.target, tn)
        vs = sorted(set(vs) | (tn & self.locals))
        binder, after = self.join(vs, K)
        lp = self.fresh("loop"); x = self.fresh("x"); l = self.fresh("l")
        params = " ".join(self.v(v) for v in vs)
        ptxt = ("(%s : val)" % params) if vs else ""
        def build():
            it = self.expr(s.iter)
            self.loops.append((after, "%s %s' %s" % (lp, l, params)))
            try:
                body = self.unpack_target(s.target, x, self.stmts(s.body, "%s %s' %s" % (lp, l, params)))
            finally:
                self.loops.pop()
            return ("%sbind (py_iter %s) (fun %s0 => (fix %s (%s : list val) %s {struct %s} : val := "
                    "match %s with [] => %s | %s :: %s' => %s end) (seq_of %s0) %s)"
                    % (binder, it, l, lp, l, ptxt, l, l, after, x, l, body, l, params))
        return self.with_pre(build)

    def s_Break(self, s, K):
        if not self.loops: fail(s, "break outside loop")
        return self.loops[-1][0]

    def s_Continue(self, s, K):
        if not self.loops: fail(s, "continue outside loop")
        return self.loops[-1][1]

    def s_Try(self, s, K):
        if s.finalbody or s.orelse or len(s.handlers) != 1: fail(s, "try form")
        h = s.handlers[0]
        if not (isinstance(h.type, ast.Name) and h.type.id in EXC) or h.name: fail(s, "except form")
        for n in ast.walk(ast.Module(body=s.body, type_ignores=[])):
            if isinstance(n, (ast.Return, ast.Break, ast.Continue)): fail(s, "control flow inside try")
        vs = sorted(self.assigned(s.body + h.body))
        binder, after = self.join(vs, K)
        r = self.fresh("tr")
        pack = "VTuple [%s]" % "; ".join(self.v(x) for x in vs)
        body = self.stmts(s.body, pack)
        unp = after
        for i in range(len(vs) - 1, -1, -1):
            unp = "let %s := item %s %d%%nat in %s" % (self.v(vs[i]), r, i, unp)
        handler = self.stmts(h.body, after)
        return ("%smatch %s with VErr %s => %s | VErr e => VErr e | %s => %s end"
                % (binder, body, h.type.id, handler, r, unp))

    # ---------------------------------------------------------------- function
    def translate(self):
        fi = self.fi
        self.locals = self.collect_locals()
        self.loops = []
        params = list(fi.params)
        if fi.vararg: params.append(fi.vararg)
        if fi.kwarg: params.append(fi.kwarg)
        body = list(fi.node.body)
        others = sorted(self.locals - set(params))
        text = self.stmts(body, self.ret("VNone"))
        for dn, cap in getattr(self, "captured_after", []):
            for n in ast.walk(fi.node):
                names = set()
                if isinstance(n, ast.Assign):
                    for t in n.targets: target_names(t, names)
                elif isinstance(n, (ast.AugAssign, ast.For)):
                    target_names(n.target, names)
                if names & cap and n.lineno > dn.end_lineno:
                    fail(n, "variable captured by a nested def is re-assigned after it")
        for x in reversed(others):
            text = "let %s : val := VErr UnboundLocalError in %s" % (self.v(x), text)
        cparams = [self.v(p) for p in params]
        if cparams:
            sig = "(%s : val)" % " ".join(cparams)
            text = "guard [%s] (fun _ => %s)" % ("; ".join(cparams), text)
        else:
            sig = "(_ : unit)"
        return sig, text


# ----------------------------------------------------------------------------
# whole-program driver
# ----------------------------------------------------------------------------
BIN_DUNDER = {  # kind -> (left dunder, reflected dunder, numeric base)
    "add": ("__add__", "__radd__", "num_add fo"), "sub": ("__sub__", "__rsub__", "num_sub fo"),
    "mul": ("__mul__", "__rmul__", "num_mul fo"), "truediv": ("__truediv__", "__rtruediv__", "num_truediv fo"),
    "mod": ("__mod__", "__rmod__", "num_mod fo"), "pow": ("__pow__", "__rpow__", "num_pow fo"),
    "floordiv": ("__floordiv__", "__rfloordiv__", "num_floordiv fo"),
    "lt": ("__lt__", "__gt__", "num_lt fo"), "gt": ("__gt__", "__lt__", "num_gt fo"),
    "le": ("__le__", "__ge__", "num_le fo"), "ge": ("__ge__", "__le__", "num_ge fo"),
    "eq": ("__eq__", "__eq__", "base_eq fo"), "ne": ("__ne__", "__ne__", "base_ne fo"),
}
UN_DUNDER = {"neg": ("__neg__", "num_neg fo"), "pos": ("__pos__", "num_pos"),
             "abs": ("__abs__", "num_abs fo"), "float": ("__float__", "num_float fo"),
             "int": ("__int__", "num_int fo")}
OVERRIDES = {"Epoch.utc2local": "(VErr Unsupported)"}
SKIP = {"main", "__str__", "__repr__", "__hash__"}

class Translator:
    def __init__(self, repo, module_names, extra=()):
        self.repo = repo
        self.modules = []
        for name in module_names:
            self.modules.append(Module(name, os.path.join(repo, "pymeeus", name + ".py")))
        for name, src in extra:
            self.modules.append(Module(name, "<%s>" % name, src))
        self.mod_index = {m.name: i for i, m in enumerate(self.modules)}
        self.state = {}       # item -> 'busy' | 'done' | 'failed'
        self.out = {m.name: [] for m in self.modules}     # emitted text chunks per module
        self.emitted_names = {m.name: [] for m in self.modules}
        self.wrappers = {}    # (module, kind, avail frozenset) -> name
        self.wcount = 0
        self.report = {}
        self.stack = []
        self.group_of = {}
        self.compute_mutates()

    # ------------------------------------------------------------- resolution
    def all_funcs(self):
        for m in self.modules:
            for fi in m.funcs.values():
                yield fi

    def class_module(self, cname):
        for m in self.modules:
            if cname in m.classes: return m
        return None

    def class_fields(self, cname):
        m = self.class_module(cname)
        return m.classes[cname]["fields"] if m else []

    def classes_with_field(self, attr):
        return [c for m in self.modules for c, d in m.classes.items() if attr in d["fields"] and c in CLASS_TAG]

    def field_candidates(self, attr):
        return ["(%s, %d%%nat)" % (CLASS_TAG[c], self.class_fields(c).index(attr))
                for c in self.classes_with_field(attr)]

    def find_method(self, cname, m):
        mod = self.class_module(cname)
        return mod.classes[cname]["methods"].get(m) if mod else None

    def resolve_class(self, mod, name):
        if name not in CLASS_TAG: return False
        if name in mod.classes: return True
        imp = mod.imports.get(name)
        return bool(imp and self.class_module(name))

    def resolve_namespace_class(self, mod, name):
        """a class used as a namespace of static methods (Sun, Moon, Venus, ...)"""
        if name in mod.classes: return True
        imp = mod.imports.get(name)
        if imp and imp[0] and imp[0].startswith("pymeeus.") and imp[1] == name:
            mn = imp[0].split(".", 1)[1]
            return mn in self.mod_index and name in self.modules[self.mod_index[mn]].classes
        return False

    def trivial_init(self, cname):
        fi = self.find_method(cname, "__init__")
        if fi is None: return True
        return len(fi.params) == 1 and all(
            isinstance(st, (ast.Pass,)) or (isinstance(st, ast.Expr) and isinstance(st.value, ast.Constant))
            for st in fi.node.body)

    def resolve_function(self, mod, name):
        imp = mod.imports.get(name)
        if imp and imp[0] and imp[0].startswith("pymeeus."):
            mn = imp[0].split(".", 1)[1]
            if mn in self.mod_index:
                return self.modules[self.mod_index[mn]].funcs.get(imp[1])
        return None

    def resolve_global(self, mod, name):
        if name in mod.globals: return (mod.name, name)
        imp = mod.imports.get(name)
        if imp and imp[0] and imp[0].startswith("pymeeus."):
            mn = imp[0].split(".", 1)[1]
            if mn in self.mod_index and imp[1] in self.modules[self.mod_index[mn]].globals:
                return (mn, imp[1])
        return None

    def global_coq(self, g):
        return "g_" + g[1]

    def method_candidates(self, mod, m):
        out = []
        for mm in self.modules[: self.mod_index[mod.name] + 1]:
            for cname, c in mm.classes.items():
                if cname in CLASS_TAG and m in c["methods"]:
                    out.append(c["methods"][m])
        return out

    def is_mutating_name(self, m):
        return m in self.mut_names

    def compute_mutates(self):
        def direct(fi):
            for n in ast.walk(fi.node):
                ts = []
                if isinstance(n, ast.Assign): ts = n.targets
                elif isinstance(n, ast.AugAssign): ts = [n.target]
                for t in ts:
                    while isinstance(t, ast.Subscript): t = t.value
                    if isinstance(t, ast.Attribute) and isinstance(t.value, ast.Name) and t.value.id == "self":
                        return True
                if isinstance(n, ast.Call) and isinstance(n.func, ast.Attribute) and n.func.attr == "append":
                    r = n.func.value
                    if isinstance(r, ast.Attribute) and isinstance(r.value, ast.Name) and r.value.id == "self":
                        return True
            return False
        for fi in self.all_funcs():
            fi.mutates = fi.is_method and fi.name != "__init__" and direct(fi)
        changed = True
        while changed:
            changed = False
            for fi in self.all_funcs():
                if not fi.is_method or fi.mutates or fi.name == "__init__": continue
                for n in ast.walk(fi.node):
                    if isinstance(n, ast.Call) and isinstance(n.func, ast.Attribute) and \
                            isinstance(n.func.value, ast.Name) and n.func.value.id == "self":
                        callee = self.find_method(fi.cls, n.func.attr)
                        if callee and callee.mutates:
                            fi.mutates = True; changed = True; break
        self.mut_names = {fi.name for fi in self.all_funcs() if fi.mutates}

    def default_expr(self, fi, d):
        mod = self.modules[self.mod_index[fi.module]]
        ft = FT(self, mod, fi); ft.locals = set(); ft.loops = []
        return ft.expr(d)

    # --------------------------------------------------------------- emission
    # states: None (not tried) | 'busy' (on the stack) | 'pending' (finished, waiting for
    # its recursion group) | 'done' | 'failed'
    def available(self, ft, fi):
        """soft dependency: try to have fi emitted before the function being translated"""
        item = ("func", fi.key, fi.module)
        st = self.state.get(item)
        if st == "done": return True
        if st == "failed": return False
        if st in ("busy", "pending"):
            return False             # genuine cycle through the function being translated
        try:
            ok = self.emit(item, soft=True)
        except Deferred:
            ok = False
        if not ok and self.state.get(item) != "failed":
            ft.degraded = True
        return ok

    def ensure_hard(self, ft, item):
        """returns 'done' or 'scc' (callee is in the caller's recursion group)"""
        if self.mod_index[item[2]] > self.mod_index[ft.mod.name]:
            raise Unsupported("dependency on later module %s" % (item,))
        st = self.state.get(item)
        if st is None:
            self.emit(item, soft=False)
            st = self.state.get(item)
        if st == "done": return "done"
        if st == "failed":
            raise Unsupported("callee %s not translated" % item[1])
        if st == "busy":
            idx = [i for i, (it, _) in enumerate(self.stack) if it == item][0]
            if any(sb for _, sb in self.stack[idx + 1:]):
                raise Deferred()
            if item[0] == "global": raise Unsupported("cycle through a global")
            self.merge_group([it for it, _ in self.stack[idx:]])
            return "scc"
        if st == "pending":
            # callee finished inside a group whose root is still busy: join it
            g = self.group_of[item]
            ridx = min(i for i, (it, _) in enumerate(self.stack) if self.group_of.get(it) is g)
            if any(sb for _, sb in self.stack[ridx + 1:]):
                raise Deferred()
            self.merge_group([it for it, _ in self.stack[ridx:]] + [item])
            return "scc"
        raise Unsupported("callee %s in state %s" % (item[1], st))

    def merge_group(self, items):
        g = None
        for it in items:
            if it in self.group_of:
                g = self.group_of[it]; break
        if g is None:
            g = {"members": [], "texts": {}}
        for it in items:
            og = self.group_of.get(it)
            if og is not None and og is not g:
                for m2 in og["members"]:
                    if m2 not in g["members"]: g["members"].append(m2)
                    self.group_of[m2] = g
                g["texts"].update(og["texts"])
            if it not in g["members"]: g["members"].append(it)
            self.group_of[it] = g

    def emit(self, item, soft=False):
        kind, key, mname = item
        mod = self.modules[self.mod_index[mname]]
        self.state[item] = "busy"
        self.stack.append((item, soft))
        rkey = key if kind == "func" else "global:" + key
        try:
            if kind == "global":
                fi = FuncInfo(mname, None, ast.parse("def _g(): pass").body[0])
                ft = FT(self, mod, fi); ft.locals = set(); ft.loops = []
                ft.needed = []
                body = ft.expr(mod.globals[key])
                name, sig = "g_" + key, None
            else:
                fi = mod.funcs[key]
                if fi.name in SKIP: raise Unsupported("skipped by policy (%s)" % fi.name)
                ft = FT(self, mod, fi)
                ft.needed = []
                name = fi.coq
                if key in OVERRIDES:
                    sig, body = "(_ : unit)", OVERRIDES[key]
                else:
                    sig, body = ft.translate()
        except Unsupported as e:
            self.stack.pop()
            self.dissolve(item)
            self.state[item] = "failed"
            self.report[rkey] = "FAILED: " + str(e)
            return False
        except Deferred:
            self.stack.pop()
            self.dissolve(item)
            self.state[item] = None
            if soft: return False
            raise
        except RecursionError:
            self.stack.pop()
            self.dissolve(item)
            self.state[item] = "failed"
            self.report[rkey] = "FAILED: recursion limit"
            return False
        self.stack.pop()
        if soft and getattr(ft, "degraded", False) and self.group_of.get(item) is None:
            # translated while some operator implementation was not yet available (emission
            # order): do not keep this version; it is emitted again later, when complete
            self.state[item] = None
            return False
        g = self.group_of.get(item)
        if g is None:
            self.commit_wrappers(mname, ft)
            if sig is None:
                self.out[mname].append("Definition %s : val :=\n  let _ := fo in %s.\n" % (name, body))
            else:
                self.out[mname].append("Definition %s %s : val :=\n  let _ := fo in %s.\n" % (name, sig, body))
            self.finish(item, name)
            return True
        g["texts"][item] = (name, sig, body, ft)
        still_busy = [it for it, _ in self.stack if self.group_of.get(it) is g]
        if still_busy:
            self.state[item] = "pending"
            return True
        # this was the root: emit the whole group as one mutual fixpoint on fuel
        parts = []
        for it in g["members"]:
            nm, sg, bd, ft2 = g["texts"][it]
            self.commit_wrappers(mname, ft2)
            parts.append("%s_rec (rfuel : nat) %s {struct rfuel} : val :=\n  match rfuel with 0%%nat => VErr OutOfFuel "
                         "| S rfuel' => let _ := fo in %s end" % (nm, sg, bd))
        self.out[mname].append("Fixpoint " + "\nwith ".join(parts) + ".\n")
        for it in g["members"]:
            nm = g["texts"][it][0]
            self.out[mname].append("Definition %s := %s_rec rec_fuel.\n" % (nm, nm))
            self.finish(it, nm, extra=[nm + "_rec"])
            del self.group_of[it]
        return True

    def finish(self, item, name, extra=()):
        kind, key, mname = item
        if kind == "func":
            self.modules[self.mod_index[mname]].funcs[key].emitted = True
        self.emitted_names[mname].extend(list(extra) + [name])
        self.state[item] = "done"
        self.report[key if kind == "func" else "global:" + key] = "ok"

    def dissolve(self, item):
        g = self.group_of.get(item)
        if g is None: return
        for it in g["members"]:
            self.group_of.pop(it, None)
            if self.state.get(it) == "pending":
                self.state[it] = None

    def commit_wrappers(self, mname, ft):
        for keyt, name, text in ft.needed:
            if keyt not in self.wrappers:
                self.wrappers[keyt] = name
                self.out[mname].append(text)
            elif self.wrappers[keyt] != name:
                self.out[mname].append("Definition %s := %s.\n" % (name, self.wrappers[keyt]))

    # ------------------------------------------------------ operator wrappers
    def dunder_impls(self, ft, dunder):
        """[(class, FuncInfo or None-if-unavailable)] for classes defining dunder, modules <= current"""
        out = []
        for fi in self.method_candidates(ft.mod, dunder):
            ft.soft.add(("func", fi.key))
            out.append((fi.cls, fi if self.available(ft, fi) else None, fi))
        return out

    def wlookup(self, ft, keyt):
        for k2, name, _ in ft.needed:
            if k2 == keyt: return name
        return self.wrappers.get(keyt)

    def op_wrapper(self, ft, kind):
        mname = ft.mod.name
        def tag(impls):
            return tuple(sorted((c, fi is not None) for c, fi, _ in impls))
        def chain(impls, obj, mk, other):
            t = other
            for c, fi, raw in reversed(impls):
                call = mk(fi) if fi is not None else "VErr Unsupported"
                t = "if Pos.eqb c_ %s then %s else %s" % (CLASS_TAG[c], call, t)
            return t
        if kind in BIN_DUNDER or (kind[0] == "i" and kind[1:] in BIN_DUNDER):
            inplace = kind[0] == "i" and kind[1:] in BIN_DUNDER
            base_kind = kind[1:] if inplace else kind
            L, R, base = BIN_DUNDER[base_kind]
            li, ri = self.dunder_impls(ft, L), self.dunder_impls(ft, R)
            ii = self.dunder_impls(ft, "__i%s__" % base_kind) if inplace else []
            keyt = (mname, kind, tag(li), tag(ri), tag(ii))
            hit = self.wlookup(ft, keyt)
            if hit: return hit
            if inplace:
                plain = self.op_wrapper(ft, base_kind)
                self.wcount += 1
                name = "py_%s_%d" % (kind, self.wcount)
                body = ("match a with VObj c_ _ => %s | _ => %s a b end"
                        % (chain(ii, "a", lambda fi: "%s a b" % fi.coq, "%s a b" % plain), plain))
            else:
                self.wcount += 1
                name = "py_%s_%d" % (kind, self.wcount)
                noobj = "VErr Unsupported" if base_kind in ("eq", "ne") else "VErr TypeError"
                refl_b = ("match b with VErr e => VErr e | VObj c_ _ => %s | _ => %s end"
                          % (chain(ri, "b", lambda fi: "%s b a" % fi.coq, noobj), "%s"))
                body = ("match a with VErr e => VErr e | VObj c_ _ => %s | _ => %s end"
                        % (chain(li, "a", lambda fi: "%s a b" % fi.coq, "(" + refl_b % noobj + ")"),
                           refl_b % ("%s a b" % base)))
            ft.needed.append((keyt, name, "Definition %s (a b : val) : val :=\n  %s.\n" % (name, body)))
            return name
        if kind in UN_DUNDER:
            D, base = UN_DUNDER[kind]
            impls = self.dunder_impls(ft, D)
            keyt = (mname, kind, tag(impls))
            hit = self.wlookup(ft, keyt)
            if hit: return hit
            self.wcount += 1
            name = "py_%s_%d" % (kind, self.wcount)
            body = ("match a with VErr e => VErr e | VObj c_ _ => %s | _ => %s a end"
                    % (chain(impls, "a", lambda fi: "%s a" % fi.coq, "VErr TypeError"), base))
            ft.needed.append((keyt, name, "Definition %s (a : val) : val :=\n  %s.\n" % (name, body)))
            return name
        if kind == "call":
            impls = self.dunder_impls(ft, "__call__")
            keyt = (mname, kind, tag(impls))
            hit = self.wlookup(ft, keyt)
            if hit: return hit
            self.wcount += 1
            name = "py_call_%d" % self.wcount
            def mk(fi):
                n = len(fi.user_params())
                vs = ["x%d" % i for i in range(n)]
                return "match args with [%s] => %s end" % (
                    "; ".join(vs), " ".join([fi.coq, "a"] + vs) + " | _ => VErr TypeError")
            body = ("match a with VErr e => VErr e | VObj c_ _ => %s | _ => py_apply a args end"
                    % chain(impls, "a", mk, "VErr TypeError"))
            ft.needed.append((keyt, name, "Definition %s (a : val) (args : list val) : val :=\n  %s.\n" % (name, body)))
            return name
        if kind == "round":
            impls = self.dunder_impls(ft, "__round__")
            keyt = (mname, kind, tag(impls))
            hit = self.wlookup(ft, keyt)
            if hit: return hit
            self.wcount += 1
            name = "py_round_%d" % self.wcount
            body = ("match a with VErr e => VErr e | VObj c_ _ => %s | _ => num_round2 fo a n end"
                    % chain(impls, "a", lambda fi: "%s a (match n with VNone => VInt 0 | _ => n end)" % fi.coq,
                            "VErr TypeError"))
            ft.needed.append((keyt, name, "Definition %s (a n : val) : val :=\n  %s.\n" % (name, body)))
            return name
        raise Unsupported("operator kind %s" % kind)

    # ------------------------------------------------------------------ output
    def run(self, wanted=None):
        for m in self.modules:
            for kind, key in m.order:
                if wanted is not None and kind == "func" and key not in wanted.get(m.name, ()) \
                        and "*" not in wanted.get(m.name, ()):
                    continue
                if wanted is not None and kind == "global" and "*" not in wanted.get(m.name, ()) \
                        and ("global:" + key) not in wanted.get(m.name, ()):
                    continue
                it = (kind, key, m.name)
                if self.state.get(it) is None:
                    try:
                        self.emit(it, soft=False)
                    except Deferred:
                        pass

    def write(self, outdir, only=None):
        os.makedirs(outdir, exist_ok=True)
        prev = []
        for m in self.modules:
            if only is not None and m.name not in only:
                prev.append(m.name)
                continue
            lines = ["(* generated by py2coq from pymeeus/%s.py — do not edit *)" % m.name,
                     "From Coq Require Import ZArith List String PrimFloat.",
                     "From PyLib Require Import PyVal PyBuiltins."]
            for p in prev:
                lines.append("From Gen Require M_%s." % p)
            lines += ["Import ListNotations.", "Open Scope Z_scope.", "",
                      "Section Gen.", "Context {F : Type} (fo : FloatOps F).",
                      "Local Notation val := (PyVal.val F).",
                      "Local Notation py_apply := (f_call fo).", ""]
            own = set(self.emitted_names[m.name])
            seen = set()
            for p in reversed(prev):       # the latest definition of a name wins, as in Python
                for nm in self.emitted_names[p]:
                    if nm in own or nm in seen: continue
                    seen.add(nm)
                    lines.append("Local Notation %s := (M_%s.%s fo)." % (nm, p, nm))
            lines.append("")
            lines += self.out[m.name]
            lines += ["End Gen.", ""]
            with open(os.path.join(outdir, "M_%s.v" % m.name), "w") as f:
                f.write("\n".join(lines))
            prev.append(m.name)
        if only is None:
            with open(os.path.join(outdir, "REPORT.json"), "w") as f:
                json.dump(self.report, f, indent=1, sort_keys=True)


def main():
    import argparse
    ap = argparse.ArgumentParser()
    ap.add_argument("--repo", default="/repo")
    ap.add_argument("--out", required=True)
    ap.add_argument("--modules", default="base,Angle,Epoch")
    a = ap.parse_args()
    sys.setrecursionlimit(20000)
    tr = Translator(a.repo, a.modules.split(","))
    tr.run()
    tr.write(a.out)
    bad = {k: v for k, v in tr.report.items() if v != "ok"}
    print("translated %d, failed %d" % (len(tr.report) - len(bad), len(bad)))
    for k, v in sorted(bad.items()):
        print("  ", k, v)

if __name__ == "__main__":
    main()
