(* C16 shard 0: years -4712 .. -4043 and sidereal samples k = 0 .. 2445, by kernel computation *)
From Coq Require Import ZArith NArith.
From PyLib Require Import Range.
From Proofs.C16 Require Import C16_defs.
Lemma shard : all_range (-4712) 670%N chk_year = true.
Proof. vm_cast_no_check (@eq_refl bool true). Qed.
Lemma sid : all_range 0 2446%N chk_sid = true.
Proof. vm_cast_no_check (@eq_refl bool true). Qed.
