(* C16 shard 10: years 1988 .. 2657 and sidereal samples k = 24460 .. 26905, by kernel computation *)
From Coq Require Import ZArith NArith.
From PyLib Require Import Range.
From Proofs.C16 Require Import C16_defs.
Lemma shard : all_range (1988) 670%N chk_year = true.
Proof. vm_cast_no_check (@eq_refl bool true). Qed.
Lemma sid : all_range 24460 2446%N chk_sid = true.
Proof. vm_cast_no_check (@eq_refl bool true). Qed.
