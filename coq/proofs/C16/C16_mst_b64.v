(* C16_mst_b64: Epoch.mean_sidereal_time in the binary64 instance, every finite JDE in [0, 2^23]. *)
From Coq Require Import ZArith Reals Lra Lia Bool List String.
From Coq Require Import Uint63 Floats.
From Flocq Require Import Core BinarySingleNaN PrimFloat.
From PyLib Require Import PyVal PyBuiltins B64 B64Verified B64Mono Whnf PyEval B64Eval.
From Gen Require Import M_base M_Angle M_Epoch.
Import ListNotations.
Open Scope R_scope.

From Ltac2 Require Ltac2.
Ltac2 Set Whnf.is_blocked as old := fun c =>
  Ltac2.Bool.or (old c) (Ltac2.Constr.equal c '@fmod_py).

Definition tolb : PrimFloat.float := 0x1.b7cdfd9d7bdbbp-34%float.

Lemma floor_as_float_bnd j : fin j -> 0 <= RV j <= 8388608 -> bnd (b64_of_Z (b64_floor j)) 23.
Proof.
  intros Fj Hj. rewrite b64_floor_correct by exact Fj.
  assert (0 <= Zfloor (RV j) <= 8388608)%Z as Hn.
  { split; [apply Zfloor_lub; simpl; lra|]. apply le_IZR. pose proof (Zfloor_lb (RV j)). lra. }
  destruct (b64_of_Z_exact (Zfloor (RV j)) ltac:(lia)) as [E F].
  split; [exact F|]. rewrite E, <- abs_IZR. change (bpow radix2 23) with (IZR 8388608). apply IZR_le. lia.
Qed.

Lemma half_int_fmt n (sg : bool) : (Z.abs n <= 2251799813685248)%Z ->
  fmt (IZR n + (if sg then / 2 else - / 2)).
Proof.
  intro Hn. change fexp64 with (FLT_exp (3 - emax - prec) prec).
  apply generic_format_FLT. exists (Float radix2 (2 * n + (if sg then 1 else -1)) (-1)).
  - cbv [F2R Fnum Fexp]. change (bpow radix2 (-1)) with (/ 2).
    destruct sg; rewrite plus_IZR, mult_IZR; simpl (IZR 2); simpl (IZR 1); simpl (IZR (-1)); field.
  - cbv [Fnum]. change (radix2 ^ prec)%Z with 9007199254740992%Z. destruct sg; lia.
  - simpl. vm_compute. discriminate.
Qed.

Lemma half_int_add n : (Z.abs n <= 2251799813685248)%Z ->
  RV (b64_of_Z n + 0.5) = IZR n + / 2 /\ fin (b64_of_Z n + 0.5).
Proof.
  intro Hn. destruct (b64_of_Z_exact n ltac:(lia)) as [E F].
  destruct (add_R (b64_of_Z n) 0.5 F fin_half) as [A B].
  - rewrite E, RV_half, round_generic by (try apply valid_rnd_N; apply (half_int_fmt n true Hn)).
    apply small_lt_emax. apply Rabs_le. apply IZR_le in Hn. rewrite abs_IZR in Hn. apply Rabs_le_inv in Hn. lra.
  - rewrite E, RV_half, round_generic in A by (try apply valid_rnd_N; apply (half_int_fmt n true Hn)). split; assumption.
Qed.
Lemma half_int_sub n : (Z.abs n <= 2251799813685248)%Z ->
  RV (b64_of_Z n - 0.5) = IZR n - / 2 /\ fin (b64_of_Z n - 0.5).
Proof.
  intro Hn. destruct (b64_of_Z_exact n ltac:(lia)) as [E F].
  destruct (sub_R (b64_of_Z n) 0.5 F fin_half) as [A B].
  - rewrite E, RV_half. unfold Rminus. rewrite round_generic by (try apply valid_rnd_N; apply (half_int_fmt n false Hn)).
    apply small_lt_emax. apply Rabs_le. apply IZR_le in Hn. rewrite abs_IZR in Hn. apply Rabs_le_inv in Hn. lra.
  - rewrite E, RV_half in A. unfold Rminus in A. rewrite round_generic in A by (try apply valid_rnd_N; apply (half_int_fmt n false Hn)).
    split; [exact A | exact B].
Qed.

(* mean_sidereal_time, every finite JDE j with 0 <= j <= 2^23 (year 18254): no exception; the result is
   r = x % 1 (Python's float %, B64Eval.pymod) of a finite float x >= 0 (x = theta0 + (j - jd0) 1.00273790935
   or theta0; jd0 is the preceding 0h, so every summand is non-negative), hence a finite float with
   0 <= r < 1: the value 1.0, which float % 1 returns for tiny negative arguments, cannot occur *)
Theorem mst_b64 j : fin j -> 0 <= RV j <= 8388608 ->
  exists x r, Epoch_mean_sidereal_time B0 (VObj cEpoch [VFloat j]) = VFloat r /\ r = pymod x 1 /\
              fin x /\ 0 <= RV x /\ fin r /\ 0 <= RV r < 1 /\ RV r = RV x - IZR (Zfloor (RV x)).
Proof.
  intros Fj Hj.
  pose proof (eqb_self_fin j Fj) as N1. pose proof (abs_not_inf j Fj) as N2.
  assert (bnd j 23) as Bj.
  { split; [exact Fj|]. rewrite Rabs_pos_eq by lra. change (bpow radix2 23) with 8388608. lra. }
  pose proof (floor_as_float_bnd j Fj Hj) as Bf.
  assert (forall x k, bnn x k -> forall r, r = pymod x 1 ->
            fin x /\ 0 <= RV x /\ fin r /\ 0 <= RV r < 1 /\ RV r = RV x - IZR (Zfloor (RV x))) as Fin.
  { intros x k [Fx [Hx0 _]] r ->. destruct (pymod_1_range x Fx) as (F & R & P & _). destruct (P Hx0) as [E L].
    split; [exact Fx|]. split; [exact Hx0|]. split; [exact F|]. split; [lra | exact E]. }
  (* the fractional part of j and the preceding 0h *)
  set (n := Zfloor (RV j)).
  assert (0 <= n <= 8388608)%Z as Hn.
  { unfold n. split; [apply Zfloor_lub; simpl; lra|]. apply le_IZR. pose proof (Zfloor_lb (RV j)). lra. }
  assert (b64_floor j = n) as Hfl by (apply b64_floor_correct; exact Fj).
  pose proof (Zfloor_lb (RV j)) as Hlb. pose proof (Zfloor_ub (RV j)) as Hub. fold n in Hlb, Hub.
  destruct (pymod_1_range j Fj) as (Fp & _ & Pp & _). destruct (Pp ltac:(lra)) as [Ep _]. fold n in Ep.
  assert ((0.5 <=? pymod j (b64_of_Z 1))%float = Rle_bool (/ 2) (RV j - IZR n)) as C1'
    by (change (b64_of_Z 1) with 1%float; rewrite (leb_R 0.5 _ fin_half Fp), RV_half, Ep; reflexivity).
  destruct (Rle_bool_spec (/ 2) (RV j - IZR n)) as [Hhi | Hlo]; rename C1' into C1.
  - set (jd0 := (b64_of_Z (b64_floor j) + 0.5)%float).
    assert (RV jd0 = IZR n + / 2 /\ fin jd0) as [Ejd Fjd] by (unfold jd0; rewrite Hfl; apply half_int_add; lia).
    assert (bnn (j - jd0) 1) as Bd.
    { destruct (sub_R j jd0 Fj Fjd) as [A B].
      - apply small_lt_emax. eapply Rle_trans; [apply (RN_abs_le_bpow _ 1); [lia|] | change (bpow radix2 1) with 2; lra].
        rewrite Ejd. change (bpow radix2 1) with 2. apply Rabs_le. lra.
      - split; [exact B|]. rewrite A, Ejd. split.
        + rewrite <- RN_0. apply RN_le. lra.
        + apply Rle_trans with (RN 2); [apply RN_le; lra | rewrite (RN_int 2) by lia; change (bpow radix2 1) with 2; lra]. }
    destruct (abs (j - jd0) <? tolb)%float eqn:C2; unfold jd0, tolb in C2.
    + eexists. eexists. split; [unfold Epoch_mean_sidereal_time; b64run; reflexivity|]. split; [reflexivity|].
      eapply Fin; [bnn_tac | reflexivity].
    + eexists. eexists. split; [unfold Epoch_mean_sidereal_time; b64run; reflexivity|]. split; [reflexivity|].
      eapply Fin; [bnn_tac | reflexivity].
  - set (jd0 := (b64_of_Z (b64_floor j) - 0.5)%float).
    assert (RV jd0 = IZR n - / 2 /\ fin jd0) as [Ejd Fjd] by (unfold jd0; rewrite Hfl; apply half_int_sub; lia).
    assert (bnn (j - jd0) 1) as Bd.
    { destruct (sub_R j jd0 Fj Fjd) as [A B].
      - apply small_lt_emax. eapply Rle_trans; [apply (RN_abs_le_bpow _ 1); [lia|] | change (bpow radix2 1) with 2; lra].
        rewrite Ejd. change (bpow radix2 1) with 2. apply Rabs_le. lra.
      - split; [exact B|]. rewrite A, Ejd. split.
        + rewrite <- RN_0. apply RN_le. lra.
        + apply Rle_trans with (RN 2); [apply RN_le; lra | rewrite (RN_int 2) by lia; change (bpow radix2 1) with 2; lra]. }
    destruct (abs (j - jd0) <? tolb)%float eqn:C2; unfold jd0, tolb in C2.
    + eexists. eexists. split; [unfold Epoch_mean_sidereal_time; b64run; reflexivity|]. split; [reflexivity|].
      eapply Fin; [bnn_tac | reflexivity].
    + eexists. eexists. split; [unfold Epoch_mean_sidereal_time; b64run; reflexivity|]. split; [reflexivity|].
      eapply Fin; [bnn_tac | reflexivity].
Qed.
