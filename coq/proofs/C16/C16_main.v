(* C16: lifting the sharded computations to the quantified statements *)
From Coq Require Import ZArith NArith List Bool String Lia PrimFloat QArith Qround Qabs Qfield.
From PyLib Require Import PyVal PyBuiltins B64 B64Facts Range.
From Spec Require Import CalSpec.
From Gen Require Import M_base M_Angle M_Epoch.
From Proofs.C16 Require Import C16_defs.
From Proofs.C16 Require C16_shard_00.
From Proofs.C16 Require C16_shard_01.
From Proofs.C16 Require C16_shard_02.
From Proofs.C16 Require C16_shard_03.
From Proofs.C16 Require C16_shard_04.
From Proofs.C16 Require C16_shard_05.
From Proofs.C16 Require C16_shard_06.
From Proofs.C16 Require C16_shard_07.
From Proofs.C16 Require C16_shard_08.
From Proofs.C16 Require C16_shard_09.
From Proofs.C16 Require C16_shard_10.
From Proofs.C16 Require C16_shard_11.
From Proofs.C16 Require C16_shard_12.
From Proofs.C16 Require C16_shard_13.
From Proofs.C16 Require C16_shard_14.
From Proofs.C16 Require C16_shard_15.
Import ListNotations.
Open Scope Z_scope.

Lemma all_years : forall y, -4712 <= y <= 6000 -> chk_year y = true.
Proof.
  intros y Hy.
  destruct (Z_lt_ge_dec y (-4042)) as [H0|H0]; [apply (all_range_spec _ _ _ C16_shard_00.shard); lia|].
  destruct (Z_lt_ge_dec y (-3372)) as [H1|H1]; [apply (all_range_spec _ _ _ C16_shard_01.shard); lia|].
  destruct (Z_lt_ge_dec y (-2702)) as [H2|H2]; [apply (all_range_spec _ _ _ C16_shard_02.shard); lia|].
  destruct (Z_lt_ge_dec y (-2032)) as [H3|H3]; [apply (all_range_spec _ _ _ C16_shard_03.shard); lia|].
  destruct (Z_lt_ge_dec y (-1362)) as [H4|H4]; [apply (all_range_spec _ _ _ C16_shard_04.shard); lia|].
  destruct (Z_lt_ge_dec y (-692)) as [H5|H5]; [apply (all_range_spec _ _ _ C16_shard_05.shard); lia|].
  destruct (Z_lt_ge_dec y (-22)) as [H6|H6]; [apply (all_range_spec _ _ _ C16_shard_06.shard); lia|].
  destruct (Z_lt_ge_dec y (648)) as [H7|H7]; [apply (all_range_spec _ _ _ C16_shard_07.shard); lia|].
  destruct (Z_lt_ge_dec y (1318)) as [H8|H8]; [apply (all_range_spec _ _ _ C16_shard_08.shard); lia|].
  destruct (Z_lt_ge_dec y (1988)) as [H9|H9]; [apply (all_range_spec _ _ _ C16_shard_09.shard); lia|].
  destruct (Z_lt_ge_dec y (2658)) as [H10|H10]; [apply (all_range_spec _ _ _ C16_shard_10.shard); lia|].
  destruct (Z_lt_ge_dec y (3328)) as [H11|H11]; [apply (all_range_spec _ _ _ C16_shard_11.shard); lia|].
  destruct (Z_lt_ge_dec y (3998)) as [H12|H12]; [apply (all_range_spec _ _ _ C16_shard_12.shard); lia|].
  destruct (Z_lt_ge_dec y (4668)) as [H13|H13]; [apply (all_range_spec _ _ _ C16_shard_13.shard); lia|].
  destruct (Z_lt_ge_dec y (5338)) as [H14|H14]; [apply (all_range_spec _ _ _ C16_shard_14.shard); lia|].
  apply (all_range_spec _ _ _ C16_shard_15.shard); lia.
Qed.

Lemma all_sid : forall k, 0 <= k <= 39128 -> chk_sid k = true.
Proof.
  intros k Hk.
  destruct (Z_lt_ge_dec k (2446)) as [H0|H0]; [apply (all_range_spec _ _ _ C16_shard_00.sid); lia|].
  destruct (Z_lt_ge_dec k (4892)) as [H1|H1]; [apply (all_range_spec _ _ _ C16_shard_01.sid); lia|].
  destruct (Z_lt_ge_dec k (7338)) as [H2|H2]; [apply (all_range_spec _ _ _ C16_shard_02.sid); lia|].
  destruct (Z_lt_ge_dec k (9784)) as [H3|H3]; [apply (all_range_spec _ _ _ C16_shard_03.sid); lia|].
  destruct (Z_lt_ge_dec k (12230)) as [H4|H4]; [apply (all_range_spec _ _ _ C16_shard_04.sid); lia|].
  destruct (Z_lt_ge_dec k (14676)) as [H5|H5]; [apply (all_range_spec _ _ _ C16_shard_05.sid); lia|].
  destruct (Z_lt_ge_dec k (17122)) as [H6|H6]; [apply (all_range_spec _ _ _ C16_shard_06.sid); lia|].
  destruct (Z_lt_ge_dec k (19568)) as [H7|H7]; [apply (all_range_spec _ _ _ C16_shard_07.sid); lia|].
  destruct (Z_lt_ge_dec k (22014)) as [H8|H8]; [apply (all_range_spec _ _ _ C16_shard_08.sid); lia|].
  destruct (Z_lt_ge_dec k (24460)) as [H9|H9]; [apply (all_range_spec _ _ _ C16_shard_09.sid); lia|].
  destruct (Z_lt_ge_dec k (26906)) as [H10|H10]; [apply (all_range_spec _ _ _ C16_shard_10.sid); lia|].
  destruct (Z_lt_ge_dec k (29352)) as [H11|H11]; [apply (all_range_spec _ _ _ C16_shard_11.sid); lia|].
  destruct (Z_lt_ge_dec k (31798)) as [H12|H12]; [apply (all_range_spec _ _ _ C16_shard_12.sid); lia|].
  destruct (Z_lt_ge_dec k (34244)) as [H13|H13]; [apply (all_range_spec _ _ _ C16_shard_13.sid); lia|].
  destruct (Z_lt_ge_dec k (36690)) as [H14|H14]; [apply (all_range_spec _ _ _ C16_shard_14.sid); lia|].
  apply (all_range_spec _ _ _ C16_shard_15.sid); lia.
Qed.

(* ---- symbolic composition lemmas: doy(), leap(), year() are get_date followed by the
        static functions (proved on the generated text, for any Epoch object) ---- *)
Lemma leap_sym j y m d :
  Epoch_get_date B0 (ep j) (VDict []) = VTuple [VInt y; VInt m; VFloat d] ->
  Epoch_leap B0 (ep j) = Epoch_is_leap B0 (VInt y).
Proof.
  intro H. unfold Epoch_leap, ep.
  change (guard [VObj cEpoch [VFloat j]] ?f) with (f tt). cbv beta.
  change (mk_dict []) with (@VDict float []). fold (ep j). rewrite H.
  reflexivity.
Qed.

Lemma doy_sym j y m d :
  Epoch_get_date B0 (ep j) (VDict []) = VTuple [VInt y; VInt m; VFloat d] ->
  Epoch_doy B0 (ep j) = Epoch_get_doy B0 (VInt y) (VInt m) (VFloat d).
Proof.
  intro H. unfold Epoch_doy, ep.
  change (guard [VObj cEpoch [VFloat j]] ?f) with (f tt). cbv beta.
  change (mk_dict []) with (@VDict float []). fold (ep j). rewrite H.
  reflexivity.
Qed.

Lemma year_sym j y m d dy l :
  Epoch_get_date B0 (ep j) (VDict []) = VTuple [VInt y; VInt m; VFloat d] ->
  Epoch_get_doy B0 (VInt y) (VInt m) (VFloat d) = VFloat dy ->
  Epoch_is_leap B0 (VInt y) = VBool l ->
  Epoch_year B0 (ep j) = VFloat (b64_of_Z y + (dy - 1) / (if l then 366 else 365))%float.
Proof.
  intros H H1 H2. pose proof (leap_sym j y m d H) as H3. rewrite H2 in H3.
  unfold Epoch_year, ep.
  change (guard [VObj cEpoch [VFloat j]] ?f) with (f tt). cbv beta.
  change (mk_dict []) with (@VDict float []). fold (ep j). rewrite H.
  change (bind (VTuple ?l) ?f) with (f (VTuple l)). cbv beta.
  change (unpack 3 (VTuple ?l)) with (VTuple l).
  change (bind (VTuple ?l) ?f) with (f (VTuple l)). cbv beta.
  change (item (VTuple [VInt y; VInt m; VFloat d]) 0) with (@VInt float y).
  change (item (VTuple [VInt y; VInt m; VFloat d]) 1) with (@VInt float m).
  change (item (VTuple [VInt y; VInt m; VFloat d]) 2) with (@VFloat float d).
  rewrite H1, H3. destruct l; reflexivity.
Qed.

(* ---- unpacking the per-year check ---- *)
Lemma year_parts y : -4712 <= y <= 6000 ->
  chk_leap y = true /\ chk_yfrac y = true /\ forall m, 1 <= m <= 12 -> chk_month y m = true.
Proof.
  intros Hy. pose proof (all_years y Hy) as H. unfold chk_year in H.
  apply andb_true_iff in H. destruct H as [H H3].
  apply andb_true_iff in H. destruct H as [H1 H2].
  split; [exact H1|split; [exact H2|]].
  intros m Hm. apply (forallb_zrange _ 1 12 H3). simpl; lia.
Qed.

Lemma valid_bounds y m d : valid y m d = true -> -4712 <= y /\ 1 <= m <= 12 /\ 1 <= d <= mlen y m.
Proof. intro H. apply valid_iff in H. lia. Qed.

Record month_ok (y m : Z) : Prop := {
  mo_neg : chk_refused y m (-1) = true;
  mo_zero : chk_refused y m 0 = true;
  mo_high : forall d, mlen y m < d <= 33 -> chk_refused y m d = true;
  mo_gap : y = 1582 -> m = 10 -> forall d, 5 <= d <= 14 -> chk_refused y m d = true;
  mo_first : chk_ends y m 1 = true;
  mo_last : chk_ends y m (mlen y m) = true;
  mo_date : forall d, valid y m d = true ->
            chk_date y m d = true /\ (sampled_year y = true -> chk_within y m d = true) }.

Lemma month_parts y m : -4712 <= y <= 6000 -> 1 <= m <= 12 -> month_ok y m.
Proof.
  intros Hy Hm. destruct (year_parts y Hy) as (_ & _ & H). specialize (H m Hm).
  pose proof (mlen_bounds y m Hm) as Hl.
  unfold chk_month in H.
  apply andb_true_iff in H. destruct H as [H H7].
  apply andb_true_iff in H. destruct H as [H H6].
  apply andb_true_iff in H. destruct H as [H H5].
  apply andb_true_iff in H. destruct H as [H H4].
  apply andb_true_iff in H. destruct H as [H H3].
  apply andb_true_iff in H. destruct H as [H1 H2].
  constructor; try assumption.
  - intros d Hd. apply (forallb_zrange _ _ _ H3). rewrite Z2Nat.id; lia.
  - intros -> -> d Hd. change (forallb (chk_refused 1582 10) (zrange 5 10) = true) in H4.
    apply (forallb_zrange _ 5 10 H4). simpl; lia.
  - intros d Hv. destruct (valid_bounds _ _ _ Hv) as (_ & _ & Hd).
    pose proof (forallb_zrange _ 1 _ H7 d) as Hx. cbv beta in Hx. rewrite Hv in Hx.
    specialize (Hx ltac:(rewrite Z2Nat.id; lia)).
    apply andb_true_iff in Hx. destruct Hx as [Ha Hb]. split; [exact Ha|].
    intro Hs. rewrite Hs in Hb. exact Hb.
Qed.

Record date_ok (y m d : Z) : Prop := {
  do_dow : dow (epoch_at (jdn y m d)) = VInt (weekday y m d);
  do_doy : get_doy (VInt y) (VInt m) (fl d) = fl (doy y m d);
  do_inv : doy2date (VInt y) (fl (doy y m d)) = date_tuple y m d;
  do_mjd : Epoch_mjd B0 (epoch_at (jdn y m d)) = fl (jdn y m d - 2400001) }.

Lemma date_parts y m d : -4712 <= y <= 6000 -> valid y m d = true -> date_ok y m d.
Proof.
  intros Hy Hv. destruct (valid_bounds _ _ _ Hv) as (_ & Hm & _).
  destruct (mo_date _ _ (month_parts y m Hy Hm) d Hv) as [H _]. unfold chk_date in H.
  apply andb_true_iff in H. destruct H as [H H4].
  apply andb_true_iff in H. destruct H as [H H3].
  apply andb_true_iff in H. destruct H as [H1 H2].
  constructor; unfold weekday, doy; apply val_eqb_eq; assumption.
Qed.

Record ends_ok (y m d : Z) : Prop := {
  eo_epoch : mkEpoch [VInt y; VInt m; VInt d] = epoch_at (jdn y m d);
  eo_date : Epoch_get_date B0 (epoch_at (jdn y m d)) (VDict []) = date_tuple y m d;
  eo_doy : get_doy (VInt y) (VInt m) (VInt d) = fl (doy y m d);
  eo_inv : doy2date (VInt y) (VInt (doy y m d)) = date_tuple y m d }.

Lemma ends_parts y m d : -4712 <= y <= 6000 -> 1 <= m <= 12 -> d = 1 \/ d = mlen y m -> ends_ok y m d.
Proof.
  intros Hy Hm Hd. pose proof (month_parts y m Hy Hm) as M.
  assert (chk_ends y m d = true) as H by (destruct Hd as [-> | ->]; [apply (mo_first _ _ M)|apply (mo_last _ _ M)]).
  unfold chk_ends in H.
  apply andb_true_iff in H. destruct H as [H H4].
  apply andb_true_iff in H. destruct H as [H H3].
  apply andb_true_iff in H. destruct H as [H1 H2].
  constructor; unfold doy; apply val_eqb_eq; assumption.
Qed.

Lemma ends_valid y m d : -4712 <= y -> 1 <= m <= 12 -> d = 1 \/ d = mlen y m -> valid y m d = true.
Proof.
  intros Hy Hm Hd. pose proof (mlen_bounds y m Hm) as Hl. apply valid_iff.
  repeat split; lia.
Qed.

Lemma is_leap_int y : -4712 <= y <= 6000 -> is_leap (VInt y) = VBool (leap y).
Proof.
  intros Hy. destruct (year_parts y Hy) as (H & _). unfold chk_leap in H.
  apply andb_true_iff in H. apply val_eqb_eq. apply H.
Qed.
Lemma is_leap_float y : -4712 <= y <= 6000 -> is_leap (fl y) = VBool (leap y).
Proof.
  intros Hy. destruct (year_parts y Hy) as (H & _). unfold chk_leap in H.
  apply andb_true_iff in H. apply val_eqb_eq. apply H.
Qed.

(* ---- statements ---- *)
Theorem epoch_ends : forall y m d, -4712 <= y <= 6000 -> 1 <= m <= 12 -> d = 1 \/ d = mlen y m ->
  mkEpoch [VInt y; VInt m; VInt d] = epoch_at (jdn y m d) /\
  Epoch_get_date B0 (epoch_at (jdn y m d)) (VDict []) = date_tuple y m d.
Proof. intros y m d Hy Hm Hd. destruct (ends_parts y m d Hy Hm Hd). split; assumption. Qed.

Theorem dow_date : forall y m d, -4712 <= y <= 6000 -> valid y m d = true ->
  dow (epoch_at (jdn y m d)) = VInt ((jdn y m d + 1) mod 7).
Proof. intros y m d Hy Hv. apply (do_dow _ _ _ (date_parts y m d Hy Hv)). Qed.

Theorem dow_within_day : forall y m d j, -4712 <= y <= 6000 -> y mod 20 = 2 -> valid y m d = true ->
  In j (day_instants (jdn y m d)) -> dow (ep j) = VInt ((jdn y m d + 1) mod 7).
Proof.
  intros y m d j Hy Hs Hv Hj. destruct (valid_bounds _ _ _ Hv) as (_ & Hm & _).
  destruct (mo_date _ _ (month_parts y m Hy Hm) d Hv) as [_ H].
  assert (sampled_year y = true) as Hs' by (unfold sampled_year; apply Z.eqb_eq; exact Hs).
  specialize (H Hs'). unfold chk_within in H. rewrite forallb_forall in H.
  apply val_eqb_eq. apply (H j Hj).
Qed.

Lemma next_cases y m d y' m' d' : next y m d = (y', m', d') ->
  y' = y \/ (y' = y + 1 /\ m' = 1 /\ d' = 1).
Proof.
  unfold next. intro H.
  destruct ((y =? 1582) && (m =? 10) && (d =? 4)) eqn:E1; [inversion H; lia|].
  destruct (d <? mlen y m); [inversion H; lia|].
  destruct (m <? 12); inversion H; lia.
Qed.

Theorem dow_next : forall y m d y' m' d', -4712 <= y <= 6000 -> y' <= 6000 ->
  valid y m d = true -> next y m d = (y', m', d') ->
  exists w, dow (epoch_at (jdn y m d)) = VInt w /\
            dow (epoch_at (jdn y m d + 1)) = VInt ((w + 1) mod 7) /\
            jdn y' m' d' = jdn y m d + 1.
Proof.
  intros y m d y' m' d' Hy Hy' Hv Hn.
  pose proof (next_valid y m d Hv) as Hv'. pose proof (weekday_next y m d Hv) as Hw.
  pose proof (jdn_next y m d Hv) as Hj.
  rewrite Hn in Hv', Hw, Hj.
  assert (-4712 <= y') as Hlo by (destruct (valid_bounds _ _ _ Hv'); lia).
  exists (weekday y m d). split; [apply dow_date; assumption|]. split; [|exact Hj].
  rewrite <- Hw, <- Hj. apply dow_date; [lia|assumption].
Qed.

Theorem doy_static : forall y m d, -4712 <= y <= 6000 -> valid y m d = true ->
  get_doy (VInt y) (VInt m) (fl d) = fl (jdn y m d - jdn y 1 1 + 1).
Proof. intros y m d Hy Hv. apply (do_doy _ _ _ (date_parts y m d Hy Hv)). Qed.

(* the methods, for ANY Epoch object whose get_date returns the civil date *)
Theorem doy_method : forall y m d j, -4712 <= y <= 6000 -> valid y m d = true ->
  Epoch_get_date B0 (ep j) (VDict []) = date_tuple y m d ->
  Epoch_doy B0 (ep j) = fl (jdn y m d - jdn y 1 1 + 1).
Proof.
  intros y m d j Hy Hv Hg. rewrite (doy_sym j y m (b64_of_Z d) Hg). apply doy_static; assumption.
Qed.

Theorem leap_method : forall y m d j, -4712 <= y <= 6000 ->
  Epoch_get_date B0 (ep j) (VDict []) = VTuple [VInt y; VInt m; VFloat d] ->
  Epoch_leap B0 (ep j) = VBool (leap y).
Proof.
  intros y m d j Hy Hg. rewrite (leap_sym j y m d Hg). apply is_leap_int; assumption.
Qed.

Theorem year_method : forall y m d j, -4712 <= y <= 6000 -> valid y m d = true ->
  Epoch_get_date B0 (ep j) (VDict []) = date_tuple y m d ->
  Epoch_year B0 (ep j) = VFloat (yfrac y (doy y m d)).
Proof.
  intros y m d j Hy Hv Hg.
  pose proof (doy_static y m d Hy Hv) as H4.
  rewrite (year_sym j y m (b64_of_Z d) (b64_of_Z (doy y m d)) (leap y) Hg H4 (is_leap_int y Hy)).
  reflexivity.
Qed.

Theorem doy_int_args : forall y m d, -4712 <= y <= 6000 -> 1 <= m <= 12 -> d = 1 \/ d = mlen y m ->
  get_doy (VInt y) (VInt m) (VInt d) = fl (jdn y m d - jdn y 1 1 + 1) /\
  doy2date (VInt y) (VInt (jdn y m d - jdn y 1 1 + 1)) = date_tuple y m d.
Proof. intros y m d Hy Hm Hd. destruct (ends_parts y m d Hy Hm Hd). split; assumption. Qed.

(* unconditional instances on the first and last day of every month *)
Theorem methods_month_ends : forall y m d, -4712 <= y <= 6000 -> 1 <= m <= 12 -> d = 1 \/ d = mlen y m ->
  Epoch_doy B0 (mkEpoch [VInt y; VInt m; VInt d]) = fl (jdn y m d - jdn y 1 1 + 1) /\
  Epoch_leap B0 (mkEpoch [VInt y; VInt m; VInt d]) = VBool (leap y) /\
  Epoch_year B0 (mkEpoch [VInt y; VInt m; VInt d]) = VFloat (yfrac y (doy y m d)).
Proof.
  intros y m d Hy Hm Hd. destruct (ends_parts y m d Hy Hm Hd) as [H1 H2 _ _].
  pose proof (ends_valid y m d ltac:(lia) Hm Hd) as Hv.
  rewrite H1. unfold epoch_at in *. split; [|split].
  - apply doy_method; assumption.
  - apply (leap_method y m (b64_of_Z d)); assumption.
  - apply year_method; assumption.
Qed.

Theorem doy_dec31 : forall y, -4712 <= y <= 6000 ->
  get_doy (VInt y) (VInt 12) (fl 31) = fl (if y =? 1582 then 355 else if leap y then 366 else 365).
Proof.
  intros y Hy.
  assert (valid y 12 31 = true) as Hv by (apply valid_iff; change (mlen y 12) with 31; lia).
  rewrite (doy_static y 12 31 Hy Hv). fold (doy y 12 31).
  rewrite CalSpec.doy_dec31 by lia. rewrite year_len_spec by lia. reflexivity.
Qed.

Theorem doy_inverse : forall y m d, -4712 <= y <= 6000 -> valid y m d = true ->
  doy2date (VInt y) (get_doy (VInt y) (VInt m) (fl d)) = VTuple [VInt y; VInt m; fl d].
Proof.
  intros y m d Hy Hv. rewrite doy_static by assumption.
  apply (do_inv _ _ _ (date_parts y m d Hy Hv)).
Qed.

Theorem doy_refused : forall y m d, -4712 <= y <= 6000 -> 1 <= m <= 12 ->
  (-1 <= d <= 0 \/ mlen y m < d <= 33 \/ (y = 1582 /\ m = 10 /\ 5 <= d <= 14)) ->
  get_doy (VInt y) (VInt m) (VInt d) = VErr ValueError.
Proof.
  intros y m d Hy Hm Hd. pose proof (month_parts y m Hy Hm) as M.
  assert (chk_refused y m d = true) as Hr.
  { destruct Hd as [Hd|[Hd|(-> & -> & Hd)]].
    - assert (d = -1 \/ d = 0) as [->| ->] by lia; [apply (mo_neg _ _ M)|apply (mo_zero _ _ M)].
    - apply (mo_high _ _ M); assumption.
    - apply (mo_gap _ _ M); auto. }
  unfold chk_refused in Hr.
  destruct (get_doy (VInt y) (VInt m) (VInt d)) as [| | | | | | | | | |e]; try discriminate Hr.
  destruct e; try discriminate Hr. reflexivity.
Qed.

Theorem leap_rule : forall y, -4712 <= y <= 6000 ->
  is_leap (VInt y) = VBool (leap y) /\ is_leap (fl y) = VBool (leap y).
Proof. intros y Hy. split; [apply is_leap_int|apply is_leap_float]; assumption. Qed.

Lemma doy_range y m d : valid y m d = true -> 1 <= doy y m d <= year_len y.
Proof.
  intro Hv. pose proof (jdn_year_bounds y m d Hv) as H. unfold jan1 in H.
  unfold doy, year_len. lia.
Qed.

Lemma yfrac_parts y k : -4712 <= y <= 6000 -> 1 <= k <= year_len y ->
  b64_floor (yfrac y k) = y /\
  (if k <? year_len y then (yfrac y k <? yfrac y (k + 1))%float
   else (yfrac y k <? yfrac (y + 1) 1)%float) = true.
Proof.
  intros Hy Hk. destruct (year_parts y Hy) as (_ & H & _). unfold chk_yfrac in H.
  pose proof (forallb_zrange _ 1 _ H k) as Hx. cbv beta in Hx.
  specialize (Hx ltac:(rewrite Z2Nat.id; lia)).
  apply andb_true_iff in Hx. destruct Hx as [Ha Hb]. split; [apply Z.eqb_eq; exact Ha|exact Hb].
Qed.

Theorem year_floor : forall y m d, -4712 <= y <= 6000 -> valid y m d = true ->
  b64_floor (yfrac y (doy y m d)) = y.
Proof.
  intros y m d Hy Hv. apply yfrac_parts; [assumption|apply doy_range; assumption].
Qed.

Theorem year_increasing : forall y m d y' m' d', -4712 <= y <= 6000 ->
  valid y m d = true -> next y m d = (y', m', d') ->
  (yfrac y (doy y m d) <? yfrac y' (doy y' m' d'))%float = true.
Proof.
  intros y m d y' m' d' Hy Hv Hn.
  pose proof (next_valid y m d Hv) as Hv'. pose proof (jdn_next y m d Hv) as Hj.
  rewrite Hn in Hv', Hj.
  pose proof (doy_range y m d Hv) as Hr. pose proof (doy_range y' m' d' Hv') as Hr'.
  destruct (yfrac_parts y (doy y m d) Hy Hr) as [_ Hlt].
  destruct (next_cases _ _ _ _ _ _ Hn) as [->|(-> & -> & ->)].
  - assert (doy y m' d' = doy y m d + 1) as E by (unfold doy in *; lia).
    rewrite E in *. destruct (doy y m d <? year_len y) eqn:El; [exact Hlt|].
    apply Z.ltb_ge in El. lia.
  - assert (doy y m d = year_len y) as E by (unfold doy, year_len in *; lia).
    rewrite doy_jan1. destruct (doy y m d <? year_len y) eqn:El; [apply Z.ltb_lt in El; lia|exact Hlt].
Qed.

Theorem mjd_date : forall y m d, -4712 <= y <= 6000 -> valid y m d = true ->
  Epoch_mjd B0 (epoch_at (jdn y m d)) = fl (jdn y m d - 2400001).
Proof. intros y m d Hy Hv. apply (do_mjd _ _ _ (date_parts y m d Hy Hv)). Qed.

(* ---- sidereal time ---- *)
Lemma iau82_fast_ok n i : (iau82_fast n i == iau82 n (Qmake i 1024))%Q.
Proof.
  unfold iau82_fast, iau82, iau82_num.
  rewrite !Qmake_Qdiv.
  unfold c0, c1, c2, K16, E16. unfold Z.sub.
  repeat (rewrite ?inject_Z_plus, ?inject_Z_mult, ?inject_Z_opp).
  field.
Qed.

Lemma circ_err_compat a b b' : (b == b')%Q -> (circ_err a b == circ_err a b')%Q.
Proof.
  intro H. unfold circ_err. cbv zeta.
  assert (a - b == a - b')%Q as Hd by (rewrite H; reflexivity).
  assert (Qfloor (a - b + (1 # 2)) = Qfloor (a - b' + (1 # 2))) as Hf
    by (apply Qfloor_comp; rewrite Hd; reflexivity).
  rewrite Hf. apply Qabs_wd. rewrite Hd. reflexivity.
Qed.

Definition sid_ok (n i : Z) : Prop :=
  exists x, mst (sid_jde n i) = VFloat x /\
    (Q_of_float (sid_jde n i) == inject_Z n - Qmake 1 2 + Qmake i 1024)%Q /\
    (0 <=? x)%float = true /\ (x <? 1)%float = true /\
    (circ_err (Q_of_float x) (iau82 n (Qmake i 1024)) <= sid_tol)%Q.

Lemma sid_at n i : chk_sid_at n i = true -> sid_ok n i.
Proof.
  unfold chk_sid_at, sid_ok. destruct (mst (sid_jde n i)); try discriminate.
  intro H. eexists; split; [reflexivity|].
  apply andb_true_iff in H. destruct H as [H H4].
  apply andb_true_iff in H. destruct H as [H H3].
  apply andb_true_iff in H. destruct H as [H1 H2].
  split; [apply Qeq_bool_iff; exact H1|]. split; [exact H2|]. split; [exact H3|].
  apply Qle_bool_iff in H4. rewrite <- (circ_err_compat _ _ _ (iau82_fast_ok n i)). exact H4.
Qed.

Theorem sidereal : forall k, 0 <= k <= 39128 ->
  sid_ok (100 * k) 0 /\ sid_ok (100 * k) 512 /\ sid_ok (100 * k) (k mod 1024).
Proof.
  intros k Hk. pose proof (all_sid k Hk) as H. unfold chk_sid in H.
  apply andb_true_iff in H. destruct H as [H H3].
  apply andb_true_iff in H. destruct H as [H1 H2].
  repeat split; apply sid_at; assumption.
Qed.

(* examples: the hypotheses are satisfiable; anchors from the documentation *)
Example dow_2018_02_15 : dow (mkEpoch [VInt 2018; VInt 2; VInt 15]) = VInt 4 /\ jdn 2018 2 15 = 2458165.
Proof. split; vm_compute; reflexivity. Qed.
Example dow_names : Epoch_dow B0 (mkEpoch [VInt 2018; VInt 7; VFloat 15.5%float]) (VBool true) = VStr "Sunday".
Proof. vm_compute. reflexivity. Qed.
Example reform_step : next 1582 10 4 = (1582, 10, 15) /\ valid 1582 10 4 = true.
Proof. split; reflexivity. Qed.
