(* C16 thorough shard 15: years 5338 .. 6000 and sidereal samples k = 458550 .. 489109, by kernel computation *)
From Coq Require Import ZArith NArith.
From PyLib Require Import Range.
From Proofs.C16 Require Import C16_tdefs.
Lemma within : all_range (5338) 663%N chk_within_year = true.
Proof. vm_cast_no_check (@eq_refl bool true). Qed.
Lemma sid : all_range 458550 30560%N chk_sid_t = true.
Proof. vm_cast_no_check (@eq_refl bool true). Qed.
