(* C16 shard 11: years 2658 .. 3327 and sidereal samples k = 26906 .. 29351, by kernel computation *)
From Coq Require Import ZArith NArith.
From PyLib Require Import Range.
From Proofs.C16 Require Import C16_defs.
Lemma shard : all_range (2658) 670%N chk_year = true.
Proof. vm_cast_no_check (@eq_refl bool true). Qed.
Lemma sid : all_range 26906 2446%N chk_sid = true.
Proof. vm_cast_no_check (@eq_refl bool true). Qed.
