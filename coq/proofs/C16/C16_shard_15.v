(* C16 shard 15: years 5338 .. 6000 and sidereal samples k = 36690 .. 39128, by kernel computation *)
From Coq Require Import ZArith NArith.
From PyLib Require Import Range.
From Proofs.C16 Require Import C16_defs.
Lemma shard : all_range (5338) 663%N chk_year = true.
Proof. vm_cast_no_check (@eq_refl bool true). Qed.
Lemma sid : all_range 36690 2439%N chk_sid = true.
Proof. vm_cast_no_check (@eq_refl bool true). Qed.
