(* C16: size of the equation of the equinoxes.  apparent - mean sidereal time = dpsi cos(eps) / 15
   (C16_ideal.apparent_sidereal_ideal and its Angle form), so the property's "less than 1.2 s" is a statement about
   the nutation in longitude dpsi and the true obliquity eps.  Those two functions live in
   pymeeus.Coordinates, outside this property's model (base, Angle, Epoch); what the C08 check proves
   about them on the regenerated code (ideal instance, |T| <= 20 centuries) is:
     nutation_longitude(e) = Angle(dpsi / 3600 deg),
        |dpsi - (-171996 - 174.2 T) sin(Omega) / 10^4| <= 2.25''     (C08_nutation_longitude_main_term,
                                                                       C08_nutation_remainders)
        hence |dpsi| <= 17.1996 + 0.01742 |T| + 2.25 arc seconds;
     true_obliquity(e) = Angle(eps0 + laskar(T/100)/3600 + deps/3600 deg), |deps| <= 11''
                                                                      (C08_true_obliquity_closed).
   Here: for EVERY dpsi, deps within these bounds and every T in [-10.5, 8.5] centuries (years 950
   to 2850) |dpsi cos(eps) / 15| < 1.2 s (interval arithmetic on Laskar's obliquity polynomial), and
   therefore apparent_sidereal_time(eps, dpsi) - mean_sidereal_time is below 1.2 s.  The range is what
   the worst-case amplitude bound allows: at T = -11 or T = 9 the same bound gives 1.2001 s / 1.2003 s
   (the true maximum over years -2000..4000 is 1.2042 s: known finding). *)
From Coq Require Import Reals ZArith List Bool Lra Lia.
From Interval Require Import Tactic.
From PyLib Require Import PyVal PyBuiltins Ideal.
From Gen Require Import M_base M_Angle M_Epoch.
From Proofs.C16 Require Import C16_ideal.
Import ListNotations.
Open Scope R_scope.

(* mean obliquity as the code computes it (same definitions as coq/proofs/C08/C08_obliquity.v) *)
Definition laskar (u : R) : R :=
  u * (-4680.93 + u * (-1.55 + u * (1999.25 + u * (-51.38 + u * (-249.67
    + u * (-39.05 + u * (7.12 + u * (27.87 + u * (5.79 + u * 2.45))))))))).
Definition eps0 : R := 23 + 26 / 60 + 21.448 / 3600.
Definition uj (j : R) : R := (j - 2451545) / 3652500.
(* true obliquity, degrees: mean obliquity + deps arc seconds *)
Definition eps_true (T deps : R) : R := eps0 + laskar (T / 100) / 3600 + deps / 3600.
(* amplitude bound of the nutation in longitude, arc seconds *)
Definition dpsi_max (T : R) : R := 17.1996 + 0.01742 * Rabs T + 2.25.

Lemma eqeq_pos T e : 0 <= T <= 8.5 -> -11 <= e <= 11 ->
  0 < cos (eps_true T e * (PI / 180)) /\
  (17.1996 + 0.01742 * T + 2.25) * cos (eps_true T e * (PI / 180)) / 15 < 1.2.
Proof.
  intros HT He. unfold eps_true, eps0, laskar. split.
  - interval.
  - interval with (i_bisect T, i_depth 12).
Qed.
Lemma eqeq_neg T e : -10.5 <= T <= 0 -> -11 <= e <= 11 ->
  0 < cos (eps_true T e * (PI / 180)) /\
  (17.1996 + 0.01742 * - T + 2.25) * cos (eps_true T e * (PI / 180)) / 15 < 1.2.
Proof.
  intros HT He. unfold eps_true, eps0, laskar. split.
  - interval.
  - interval with (i_bisect T, i_depth 12).
Qed.

(* |dpsi cos(eps) / 15| < 1.2 seconds of time *)
Theorem eqeq_real T dpsi deps : -10.5 <= T <= 8.5 ->
  Rabs dpsi <= dpsi_max T -> Rabs deps <= 11 ->
  Rabs (dpsi * cos (eps_true T deps * (PI / 180)) / 15) < 1.2.
Proof.
  intros HT Hd He.
  assert (-11 <= deps <= 11) as He' by (unfold Rabs in He; destruct (Rcase_abs deps); lra).
  assert (0 < cos (eps_true T deps * (PI / 180)) /\
          dpsi_max T * cos (eps_true T deps * (PI / 180)) / 15 < 1.2) as [Hc Hb].
  { unfold dpsi_max. destruct (Rle_dec 0 T) as [P|N].
    - rewrite Rabs_right by lra. apply eqeq_pos; lra.
    - rewrite Rabs_left by lra. apply eqeq_neg; lra. }
  set (c := cos (eps_true T deps * (PI / 180))) in *.
  unfold Rdiv. rewrite !Rabs_mult, (Rabs_right c), (Rabs_right (/ 15)) by lra.
  pose proof (Rabs_pos dpsi). nra.
Qed.

(* on the generated method: with the nutation in longitude and true obliquity given as the Angle
   objects the C08 theorems describe, apparent - mean sidereal time is below 1.2 s *)
Theorem equation_of_equinoxes_small j s dpsi deps te tp :
  let T := (j - 2451545) / 36525 in
  -10.5 <= T <= 8.5 ->
  Epoch_mean_sidereal_time Rops (VObj cEpoch [VFloat j]) = VFloat s ->
  Rabs dpsi <= 17.1996 + 0.01742 * Rabs T + 2.25 -> Rabs deps <= 11 ->
  exists a,
    Epoch_apparent_sidereal_time Rops (VObj cEpoch [VFloat j])
      (VObj cAngle [VFloat (eps0 + laskar (uj j) / 3600 + deps / 3600); VFloat te])
      (VObj cAngle [VFloat (dpsi / 3600); VFloat tp]) = VFloat a /\
    Rabs ((a - s) * 86400) < 1.2.
Proof.
  intros T HT Hs Hd He.
  exists (s + dpsi / 3600 * 3600 * cos ((eps0 + laskar (uj j) / 3600 + deps / 3600) * (PI / 180)) / 15 / 86400).
  split; [exact (apparent_sidereal_ideal_angles j s _ te _ tp Hs)|].
  assert (uj j = T / 100) as -> by (unfold uj, T; field).
  pose proof (eqeq_real T dpsi deps HT Hd He) as H. unfold eps_true in H.
  match goal with |- Rabs ?x < _ =>
    replace x with (dpsi * cos ((eps0 + laskar (T / 100) / 3600 + deps / 3600) * (PI / 180)) / 15) by field end.
  exact H.
Qed.

(* ---- statements (this file is self-contained so that C16.v is not touched) ---- *)
Theorem C16_equation_of_equinoxes_bound : forall T dpsi deps : R, -10.5 <= T <= 8.5 ->
  Rabs dpsi <= 17.1996 + 0.01742 * Rabs T + 2.25 -> Rabs deps <= 11 ->
  Rabs (dpsi * cos ((eps0 + laskar (T / 100) / 3600 + deps / 3600) * (PI / 180)) / 15) < 1.2.
Proof. exact eqeq_real. Qed.

Theorem C16_equation_of_equinoxes : forall j s dpsi deps te tp : R,
  let T := (j - 2451545) / 36525 in
  -10.5 <= T <= 8.5 ->
  Epoch_mean_sidereal_time Rops (VObj cEpoch [VFloat j]) = VFloat s ->
  Rabs dpsi <= 17.1996 + 0.01742 * Rabs T + 2.25 -> Rabs deps <= 11 ->
  exists a,
    Epoch_apparent_sidereal_time Rops (VObj cEpoch [VFloat j])
      (VObj cAngle [VFloat (eps0 + laskar (uj j) / 3600 + deps / 3600); VFloat te])
      (VObj cAngle [VFloat (dpsi / 3600); VFloat tp]) = VFloat a /\
    Rabs ((a - s) * 86400) < 1.2.
Proof. exact equation_of_equinoxes_small. Qed.

Redirect "C16_equation_of_equinoxes_bound.assumptions" Print Assumptions C16_equation_of_equinoxes_bound.
Redirect "C16_equation_of_equinoxes.assumptions" Print Assumptions C16_equation_of_equinoxes.
