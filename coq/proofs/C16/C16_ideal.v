(* C16: mean / apparent sidereal time in the ideal (real-number) instance, for every real JDE >= 0,
   against the independently transcribed IAU 1982 expression Spec.Sidereal.gmst_iau1982. *)
From Coq Require Import Reals ZArith List Bool Lra Lia String.
From PyLib Require Import PyVal PyBuiltins Ideal IdealFacts Whnf PyEval.
From Spec Require Import Sidereal.
From Gen Require Import M_base M_Angle M_Epoch.
From Proofs.C16 Require Import C16_tac.
Import ListNotations.
Open Scope R_scope.

(* Python's float % with a positive divisor is used through IdealFacts.fmod_py_posdiv *)
Ltac2 Set Whnf.is_blocked as old := fun c =>
  Ltac2.Bool.or (old c) (Ltac2.Constr.equal c '@fmod_py).
Ltac pyA_hook s tac ::=
  lazymatch s with
  | fmod_py Rops ?x ?y => rewrite (fmod_py_posdiv x y) by (expose_R; tac)
  end.

Definition epR (j : R) : val R := VObj cEpoch [VFloat j].

(* the pieces of the computation, written with plain rationals *)
Definition tolR : R := 1 / 10000000000.
Definition Tc (jd0 : R) : R := (jd0 - 2451545) / 36525.
Definition Sc (t : R) : R := t * (8640184812866 / 1000000 + t * (93104 / 1000000 - 62 / 10000000 * t)).
Definition th0 : R := 6 / 24 + 41 / 1440 + 5054841 / 100000 / 86400.
Definition frac1 (x : R) : R := x - IZR (Rfloor x).
(* theta0 + (s % 86400)/86400 + extra *)
Definition Xc (jd0 extra : R) : R :=
  th0 + (Sc (Tc jd0) - 86400 * IZR (Rfloor (Sc (Tc jd0) / 86400))) / 86400 + extra.

Lemma frac1_bounds x : 0 <= frac1 x < 1.
Proof. unfold frac1. pose proof (Rfloor_spec x). lra. Qed.

(* closes  VFloat (X - 1 * IZR (Rfloor (X / 1))) = VFloat (frac1 Y)  given the inner % already aligned *)
Ltac close_frac jd0v extrav :=
  Rlit_norm;
  match goal with
  | |- VFloat (?X - 1 * IZR (Rfloor (?X / 1))) = _ =>
      assert (X = Xc jd0v extrav) as EX;
      [ unfold Xc, th0;
        match goal with
        | |- context [Rfloor (?n / (864000 / 10))] =>
            replace (n / (864000 / 10)) with (Sc (Tc jd0v) / 86400) by (unfold Sc, Tc; field)
        end;
        unfold Sc, Tc, sidereal_rate; field
      | rewrite EX; unfold frac1; replace (Xc jd0v extrav / 1) with (Xc jd0v extrav) by field;
        f_equal; ring ]
  end.

(* day fraction >= 1/2 (the JDE is in the first half of the civil day), at least TOL after 0h *)
Lemma mst_first_half_late j : 0 <= j ->
  1 / 2 <= j - IZR (Rfloor j) -> tolR <= j - IZR (Rfloor j) - 1 / 2 ->
  Epoch_mean_sidereal_time Rops (epR j) =
  VFloat (frac1 (Xc (IZR (Rfloor j) + 1 / 2) ((j - (IZR (Rfloor j) + 1 / 2)) * sidereal_rate))).
Proof.
  intros Hj Hh Hd. unfold epR, tolR in *.
  pose proof (Rfloor_spec j) as Fj.
  assert (IZR (Rfloor (j / 1)) = IZR (Rfloor j)) as E1 by (replace (j / 1) with j by field; reflexivity).
  pyrunA.
  close_frac (IZR (Rfloor j) + 1 / 2) ((j - (IZR (Rfloor j) + 1 / 2)) * sidereal_rate).
Qed.

(* ... less than TOL after 0h: the code returns theta0 % 1 (the instant is treated as 0h) *)
Lemma mst_first_half_at0 j : 0 <= j ->
  1 / 2 <= j - IZR (Rfloor j) -> j - IZR (Rfloor j) - 1 / 2 < tolR ->
  Epoch_mean_sidereal_time Rops (epR j) = VFloat (frac1 (Xc (IZR (Rfloor j) + 1 / 2) 0)).
Proof.
  intros Hj Hh Hd. unfold epR, tolR in *.
  pose proof (Rfloor_spec j) as Fj.
  assert (IZR (Rfloor (j / 1)) = IZR (Rfloor j)) as E1 by (replace (j / 1) with j by field; reflexivity).
  pyrunA.
  close_frac (IZR (Rfloor j) + 1 / 2) 0.
Qed.

(* day fraction < 1/2 (second half of the civil day): 0h was at floor j - 1/2 *)
Lemma mst_second_half j : 0 <= j -> j - IZR (Rfloor j) < 1 / 2 ->
  Epoch_mean_sidereal_time Rops (epR j) =
  VFloat (frac1 (Xc (IZR (Rfloor j) - 1 / 2) ((j - (IZR (Rfloor j) - 1 / 2)) * sidereal_rate))).
Proof.
  intros Hj Hh. unfold epR.
  pose proof (Rfloor_spec j) as Fj.
  assert (IZR (Rfloor (j / 1)) = IZR (Rfloor j)) as E1 by (replace (j / 1) with j by field; reflexivity).
  pyrunA.
  close_frac (IZR (Rfloor j) - 1 / 2) ((j - (IZR (Rfloor j) - 1 / 2)) * sidereal_rate).
Qed.

(* the spec's 0h instant in the two halves of the day *)
Lemma jd_0h_first j : 1 / 2 <= j - IZR (Rfloor j) -> jd_0h j = IZR (Rfloor j) + 1 / 2.
Proof.
  intro H. unfold jd_0h. pose proof (Rfloor_spec j).
  replace (sfl (j - 1 / 2)) with (Rfloor j); [reflexivity|].
  symmetry. apply Rfloor_unique. lra.
Qed.
Lemma jd_0h_second j : j - IZR (Rfloor j) < 1 / 2 -> jd_0h j = IZR (Rfloor j) - 1 / 2.
Proof.
  intro H. unfold jd_0h. pose proof (Rfloor_spec j).
  replace (sfl (j - 1 / 2)) with (Rfloor j - 1)%Z; [rewrite minus_IZR; lra|].
  symmetry. apply Rfloor_unique. rewrite minus_IZR. lra.
Qed.

(* frac1 (Xc jd0 (rate * d)) is congruent mod 1 to the IAU 1982 expression at jd0 + d *)
Lemma Xc_cong jd0 d :
  cong1 (frac1 (Xc jd0 (d * sidereal_rate))) (gmst0_sec ((jd0 - 2451545) / 36525) / 86400 + sidereal_rate * d).
Proof.
  exists (- Rfloor (Sc (Tc jd0) / 86400) - Rfloor (Xc jd0 (d * sidereal_rate)))%Z.
  rewrite minus_IZR, opp_IZR. unfold frac1.
  set (F := IZR (Rfloor (Xc jd0 (d * sidereal_rate)))).
  unfold Xc. set (Q := IZR (Rfloor (Sc (Tc jd0) / 86400))).
  unfold th0, Sc, Tc, gmst0_sec, sidereal_rate. field.
Qed.

(* Mean sidereal time for EVERY real JDE j >= 0 *)
Theorem mean_sidereal_ideal j : 0 <= j ->
  exists s, Epoch_mean_sidereal_time Rops (epR j) = VFloat s /\ 0 <= s < 1 /\
    ((j = jd_0h j \/ tolR <= j - jd_0h j) -> cong1 s (gmst_iau1982 j)) /\
    (j - jd_0h j < tolR -> cong1 s (gmst_iau1982 (jd_0h j))).
Proof.
  intros Hj. pose proof (Rfloor_spec j) as Fj.
  assert (jd_0h (jd_0h j) = jd_0h j) as Idem.
  { unfold jd_0h at 1 3. f_equal. f_equal. unfold jd_0h.
    replace (IZR (sfl (j - 1 / 2)) + 1 / 2 - 1 / 2) with (IZR (sfl (j - 1 / 2))) by lra.
    apply (Rfloor_IZR (sfl (j - 1 / 2))). }
  destruct (Rle_dec (1 / 2) (j - IZR (Rfloor j))) as [Hh|Hh].
  - pose proof (jd_0h_first j Hh) as E0.
    destruct (Rle_dec tolR (j - IZR (Rfloor j) - 1 / 2)) as [Hd|Hd].
    + eexists. split; [apply mst_first_half_late; assumption|]. split; [apply frac1_bounds|]. split.
      * intros _. unfold gmst_iau1982. cbv zeta. rewrite E0. apply Xc_cong.
      * intro C. rewrite E0 in C. unfold tolR in *. lra.
    + assert (j - IZR (Rfloor j) - 1 / 2 < tolR) as Hd' by lra.
      eexists. split; [apply mst_first_half_at0; assumption|]. split; [apply frac1_bounds|].
      assert (cong1 (frac1 (Xc (IZR (Rfloor j) + 1 / 2) 0)) (gmst_iau1982 (jd_0h j))) as C0.
      { unfold gmst_iau1982. cbv zeta. rewrite Idem, E0.
        replace (Xc (IZR (Rfloor j) + 1 / 2) 0) with (Xc (IZR (Rfloor j) + 1 / 2) (0 * sidereal_rate))
          by (f_equal; ring).
        replace (IZR (Rfloor j) + 1 / 2 - (IZR (Rfloor j) + 1 / 2)) with 0 by ring. apply Xc_cong. }
      split.
      * intros [Eq|Ge]; [|rewrite E0 in Ge; unfold tolR in *; lra].
        rewrite Eq at 2. exact C0.
      * intros _. exact C0.
  - assert (j - IZR (Rfloor j) < 1 / 2) as Hh' by lra.
    pose proof (jd_0h_second j Hh') as E0.
    eexists. split; [apply mst_second_half; assumption|]. split; [apply frac1_bounds|]. split.
    + intros _. unfold gmst_iau1982. cbv zeta. rewrite E0. apply Xc_cong.
    + intro C. rewrite E0 in C. unfold tolR in C. lra.
Qed.

(* within one civil day the IAU 1982 expression advances at exactly 1.00273790935 turns per day
   (Spec.Sidereal.gmst_rate), so by the theorem above the returned value does too, modulo 1 *)

(* ---- apparent sidereal time: mean + (dpsi * 3600 * cos eps) / 15 / 86400, mean abstracted ---- *)
Ltac2 Set Whnf.is_blocked as old := fun c =>
  Ltac2.Bool.or (old c) (Ltac2.Constr.equal c '@Epoch_mean_sidereal_time).

Theorem apparent_sidereal_ideal j s eps dpsi :
  Epoch_mean_sidereal_time Rops (epR j) = VFloat s ->
  Epoch_apparent_sidereal_time Rops (epR j) (VFloat eps) (VFloat dpsi) =
  VFloat (s + dpsi * 3600 * cos (eps * (PI / 180)) / 15 / 86400).
Proof.
  intros H. unfold epR in *. pyrunA. Rlit_norm. f_equal. field.
Qed.

(* the arguments may also be Angle objects (their value is used) *)
Theorem apparent_sidereal_ideal_angles j s eps te dpsi tp :
  Epoch_mean_sidereal_time Rops (epR j) = VFloat s ->
  Epoch_apparent_sidereal_time Rops (epR j) (VObj cAngle [VFloat eps; VFloat te]) (VObj cAngle [VFloat dpsi; VFloat tp]) =
  VFloat (s + dpsi * 3600 * cos (eps * (PI / 180)) / 15 / 86400).
Proof.
  intros H. unfold epR in *. pyrunA. Rlit_norm. f_equal. field.
Qed.
