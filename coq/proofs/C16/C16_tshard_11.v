(* C16 thorough shard 11: years 2658 .. 3327 and sidereal samples k = 336270 .. 366839, by kernel computation *)
From Coq Require Import ZArith NArith.
From PyLib Require Import Range.
From Proofs.C16 Require Import C16_tdefs.
Lemma within : all_range (2658) 670%N chk_within_year = true.
Proof. vm_cast_no_check (@eq_refl bool true). Qed.
Lemma sid : all_range 336270 30570%N chk_sid_t = true.
Proof. vm_cast_no_check (@eq_refl bool true). Qed.
