(* C16 shard 8: years 648 .. 1317 and sidereal samples k = 19568 .. 22013, by kernel computation *)
From Coq Require Import ZArith NArith.
From PyLib Require Import Range.
From Proofs.C16 Require Import C16_defs.
Lemma shard : all_range (648) 670%N chk_year = true.
Proof. vm_cast_no_check (@eq_refl bool true). Qed.
Lemma sid : all_range 19568 2446%N chk_sid = true.
Proof. vm_cast_no_check (@eq_refl bool true). Qed.
