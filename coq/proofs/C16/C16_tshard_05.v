(* C16 thorough shard 5: years -1362 .. -693 and sidereal samples k = 152850 .. 183419, by kernel computation *)
From Coq Require Import ZArith NArith.
From PyLib Require Import Range.
From Proofs.C16 Require Import C16_tdefs.
Lemma within : all_range (-1362) 670%N chk_within_year = true.
Proof. vm_cast_no_check (@eq_refl bool true). Qed.
Lemma sid : all_range 152850 30570%N chk_sid_t = true.
Proof. vm_cast_no_check (@eq_refl bool true). Qed.
