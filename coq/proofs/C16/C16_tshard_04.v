(* C16 thorough shard 4: years -2032 .. -1363 and sidereal samples k = 122280 .. 152849, by kernel computation *)
From Coq Require Import ZArith NArith.
From PyLib Require Import Range.
From Proofs.C16 Require Import C16_tdefs.
Lemma within : all_range (-2032) 670%N chk_within_year = true.
Proof. vm_cast_no_check (@eq_refl bool true). Qed.
Lemma sid : all_range 122280 30570%N chk_sid_t = true.
Proof. vm_cast_no_check (@eq_refl bool true). Qed.
