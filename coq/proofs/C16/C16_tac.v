(* C16 (copy of proofs/C03/C03_tac.v): pyrun variant that also evaluates the arguments of a blocked (abstracted) callee
   before looking for the hypothesis giving its value.  Same construction as
   PyEval.pyrun_using (only ordinary proofs are built). *)
From Coq Require Import Reals ZArith List Bool Lra Lia String.
From PyLib Require Import PyVal PyBuiltins Ideal Whnf PyEval.
Import ListNotations.
Open Scope R_scope.

(* client hook: rewrite a stuck call [s] of an abstracted callee with a characterisation lemma
   (rebound with ::= in the files that abstract a callee) *)
Ltac pyA_hook s tac := fail.

Ltac pyrunA_using tac :=
  whnf_lhs;
  lazymatch goal with
  | |- ?l = _ =>
    tryif is_canon l then expose_R else
    first [
      lazymatch l with
      | bind ?e ?k =>
          tryif is_canon e then
            lazymatch e with
            | VErr _ => rewrite (bind_err _ k)
            | _ => rewrite (bind_ok e k) by reflexivity; cbv beta
            end
          else
            let H := fresh "Hev" in
            eassert (H : e = _) by (pyrunA_using tac; py_canon_refl);
            rewrite H; clear H
      | VTuple ?xs => first_noncanon xs ltac:(fun x =>
            let H := fresh "Hev" in
            eassert (H : x = _) by (pyrunA_using tac; py_canon_refl); rewrite H; clear H)
      | VList ?xs => first_noncanon xs ltac:(fun x =>
            let H := fresh "Hev" in
            eassert (H : x = _) by (pyrunA_using tac; py_canon_refl); rewrite H; clear H)
      | VObj _ ?xs => first_noncanon xs ltac:(fun x =>
            let H := fresh "Hev" in
            eassert (H : x = _) by (pyrunA_using tac; py_canon_refl); rewrite H; clear H)
      | _ =>
          pose_stuck;
          lazymatch goal with
          | py_stuck := ?s |- _ =>
              clear py_stuck;
              lazymatch s with
              | bind ?e ?k =>
                  let H := fresh "Hev" in
                  eassert (H : bind e k = _) by (pyrunA_using tac; py_canon_refl);
                  rewrite H; clear H
              | Rltb _ _ => py_decide_at s tac
              | Rleb _ _ => py_decide_at s tac
              | Reqb _ _ => py_decide_at s tac
              | _ =>
                  first [ match goal with H : s = _ |- _ => rewrite H end
                        | pyA_hook s tac
                        | pyA_eval_arg s tac
                        | idtac "pyrunA: stuck on" s; fail 1 ]
              end
          end
      end;
      pyrunA_using tac
    | idtac ]
  end
(* s = f a1 .. an, a blocked call: evaluate its first argument of type val that is not canonical *)
with pyA_eval_arg s tac :=
  lazymatch s with
  | ?g ?a =>
      first [ pyA_eval_arg g tac
            | lazymatch type of a with
              | val _ =>
                  tryif is_canon a then fail else
                  (let H := fresh "Harg" in
                   eassert (H : a = _) by (pyrunA_using tac; py_canon_refl);
                   rewrite H; clear H)
              end ]
  end.

Ltac pyrunA := pyrunA_using pylra.
