(* C16 shard 3: years -2702 .. -2033 and sidereal samples k = 7338 .. 9783, by kernel computation *)
From Coq Require Import ZArith NArith.
From PyLib Require Import Range.
From Proofs.C16 Require Import C16_defs.
Lemma shard : all_range (-2702) 670%N chk_year = true.
Proof. vm_cast_no_check (@eq_refl bool true). Qed.
Lemma sid : all_range 7338 2446%N chk_sid = true.
Proof. vm_cast_no_check (@eq_refl bool true). Qed.
