(* C16 shard 1: years -4042 .. -3373 and sidereal samples k = 2446 .. 4891, by kernel computation *)
From Coq Require Import ZArith NArith.
From PyLib Require Import Range.
From Proofs.C16 Require Import C16_defs.
Lemma shard : all_range (-4042) 670%N chk_year = true.
Proof. vm_cast_no_check (@eq_refl bool true). Qed.
Lemma sid : all_range 2446 2446%N chk_sid = true.
Proof. vm_cast_no_check (@eq_refl bool true). Qed.
