(* C16: executable checks relating the GENERATED model of Epoch.dow / get_doy / doy2date /
   is_leap / mjd / mean_sidereal_time (binary64 instance, no libm involved) to the
   independent day count Spec.CalSpec.jdn and to an exact rational transcription of the
   IAU 1982 sidereal-time expression. *)
From Coq Require Import ZArith NArith List Bool String PrimFloat QArith Qround Qabs.
From PyLib Require Import PyVal PyBuiltins B64 B64Facts Range.
From Spec Require Import CalSpec.
From Gen Require Import M_base M_Angle M_Epoch.
Import ListNotations.
Open Scope Z_scope.

Definition fval := val float.
Definition mkEpoch (args : list fval) : fval :=
  Epoch___init__ B0 (VObj cEpoch [VNone]) (VTuple args) (VDict []).
Definition ep (j : float) : fval := VObj cEpoch [VFloat j].
(* JDE at 0h of the civil day whose Julian Day Number (at noon) is n *)
Definition jde_of (n : Z) : float := (b64_of_Z n - 0.5)%float.
Definition epoch_at (n : Z) : fval := ep (jde_of n).
Definition date_tuple (y m d : Z) : fval := VTuple [VInt y; VInt m; VFloat (b64_of_Z d)].
Definition fl (z : Z) : fval := VFloat (b64_of_Z z).

Definition dow (e : fval) : fval := Epoch_dow B0 e (VBool false).
Definition get_doy (y m d : fval) : fval := Epoch_get_doy B0 y m d.
Definition doy2date (y k : fval) : fval := Epoch_doy2date B0 y k.
Definition is_leap (y : fval) : fval := Epoch_is_leap B0 y.

(* ---- one civil date (the Epoch object is taken at 0h of the day: JDE = jdn - 0.5) ---- *)
Definition chk_date (y m d : Z) : bool :=
  let n := jdn y m d in
  let k := n - jdn y 1 1 + 1 in
  val_eqb (dow (epoch_at n)) (VInt ((n + 1) mod 7)) &&
  val_eqb (get_doy (VInt y) (VInt m) (fl d)) (fl k) &&
  val_eqb (doy2date (VInt y) (fl k)) (date_tuple y m d) &&
  val_eqb (Epoch_mjd B0 (epoch_at n)) (fl (n - 2400001)).

(* first and last day of a month: Epoch(y, m, d) is that object and get_date reads the date back
   (on every date: C01_construct / C01_roundtrip); integer arguments as a caller would write them *)
Definition chk_ends (y m d : Z) : bool :=
  let n := jdn y m d in
  let k := n - jdn y 1 1 + 1 in
  val_eqb (mkEpoch [VInt y; VInt m; VInt d]) (epoch_at n) &&
  val_eqb (Epoch_get_date B0 (epoch_at n) (VDict [])) (date_tuple y m d) &&
  val_eqb (get_doy (VInt y) (VInt m) (VInt d)) (fl k) &&
  val_eqb (doy2date (VInt y) (VInt k)) (date_tuple y m d).

(* the weekday does not change during the civil day: noon, late evening, last binary64 instant *)
Definition day_instants (n : Z) : list float :=
  [(jde_of n + 0.5)%float; (jde_of n + 0x1.ffffde7210be9p-1)%float; next_down (jde_of (n + 1))].
Definition chk_within (y m d : Z) : bool :=
  let n := jdn y m d in
  forallb (fun j => val_eqb (dow (ep j)) (VInt ((n + 1) mod 7))) (day_instants n).
Definition sampled_year (y : Z) : bool := y mod 20 =? 2.

Definition chk_refused (y m d : Z) : bool :=
  match get_doy (VInt y) (VInt m) (VInt d) with VErr ValueError => true | _ => false end.

Definition chk_month (y m : Z) : bool :=
  let n := mlen y m in
  chk_refused y m (-1) && chk_refused y m 0 &&
  forallb (chk_refused y m) (zrange (n + 1) (Z.to_nat (33 - n))) &&
  (if (y =? 1582) && (m =? 10) then forallb (chk_refused y m) (zrange 5 10) else true) &&
  chk_ends y m 1 && chk_ends y m n &&
  forallb (fun d => if valid y m d then chk_date y m d && (if sampled_year y then chk_within y m d else true)
                    else true) (zrange 1 (Z.to_nat n)).

(* ---- fractional year: the value the model is shown to return, and its order properties ---- *)
Definition ylen_f (y : Z) : float := if leap y then 366%float else 365%float.
Definition yfrac (y k : Z) : float := (b64_of_Z y + (b64_of_Z k - 1) / ylen_f y)%float.
Definition chk_yfrac (y : Z) : bool :=
  let len := year_len y in
  forallb (fun k => (b64_floor (yfrac y k) =? y) &&
                    (if k <? len then (yfrac y k <? yfrac y (k + 1))%float
                     else (yfrac y k <? yfrac (y + 1) 1)%float))
          (zrange 1 (Z.to_nat len)).

Definition chk_leap (y : Z) : bool :=
  val_eqb (is_leap (VInt y)) (VBool (leap y)) && val_eqb (is_leap (fl y)) (VBool (leap y)).

Definition chk_year (y : Z) : bool :=
  chk_leap y && chk_yfrac y && forallb (chk_month y) (zrange 1 12).

(* ---- sidereal time ---- *)
(* exact value of a finite binary64 number *)
Definition Q_of_float (x : float) : Q :=
  match b64_parts x with
  | Some (m, e) => if 0 <=? e then inject_Z (m * 2 ^ e) else Qmake m (Z.to_pos (2 ^ (- e)))
  | None => 0%Q
  end.

(* IAU 1982 (Aoki et al.): GMST at 0h UT of the day with Julian Day Number n, in seconds,
     24110.54841 + 8640184.812866 T + 0.093104 T^2 - 6.2e-6 T^3,  T = (n - 0.5 - 2451545)/36525,
   plus 1.00273790935 sidereal days per day for the fraction f of the day elapsed; in days. *)
Definition iau82 (n : Z) (f : Q) : Q :=
  let T : Q := Qmake (2 * n - 4903091) 73050 in
  ((Qmake 2411054841 100000 + Qmake 8640184812866 1000000 * T + Qmake 93104 1000000 * T * T
    - Qmake 62 10000000 * T * T * T) / inject_Z 86400
   + Qmake 100273790935 100000000000 * f)%Q.

(* the same number over one fixed denominator (small terms for the kernel; shown equal to
   iau82 n (i/1024) in C16_main.iau82_fast_ok) *)
Definition D1 : Z := 73050.
Definition c0 : Z := Eval vm_compute in 241105484100 * D1 ^ 3.
Definition c1 : Z := Eval vm_compute in 86401848128660 * D1 ^ 2.
Definition c2 : Z := Eval vm_compute in 931040 * D1.
Definition Dn : Z := Eval vm_compute in 86400 * 10 ^ 7 * D1 ^ 3.
Definition E16 : positive := Eval vm_compute in Z.to_pos (16 * Dn).
Definition K16 : Z := Eval vm_compute in (16 * Dn) / (10 ^ 11 * 1024).
Definition iau82_num (n i : Z) : Z :=
  let u := 2 * n - 4903091 in
  16 * (c0 + u * (c1 + u * (c2 - 62 * u))) + 100273790935 * i * K16.
Definition iau82_fast (n i : Z) : Q := Qmake (iau82_num n i) E16.

(* distance on the circle of turns *)
Definition circ_err (a b : Q) : Q :=
  let d := (a - b)%Q in Qabs (d - inject_Z (Qfloor (d + Qmake 1 2)))%Q.
Definition sid_tol : Q := Qmake 1 10000000.     (* the property's 1e-7 day *)

Definition mst (j : float) : fval := Epoch_mean_sidereal_time B0 (ep j).
Definition fval_float (v : fval) : float := match v with VFloat x => x | _ => nan end.

(* at JDE = n - 0.5 + i/1024 (exactly representable; checked) *)
Definition sid_jde (n i : Z) : float := (jde_of n + b64_of_Z i / 1024)%float.
Definition chk_sid_at (n i : Z) : bool :=
  let j := sid_jde n i in
  match mst j with
  | VFloat x =>
      Qeq_bool (Q_of_float j) (inject_Z n - Qmake 1 2 + Qmake i 1024)%Q &&
      (0 <=? x)%float && (x <? 1)%float &&
      Qle_bool (circ_err (Q_of_float x) (iau82_fast n i)) sid_tol
  | _ => false
  end.
(* every 100th day 0h, 12h and at a fraction that runs through all multiples of 1/1024 *)
Definition chk_sid (k : Z) : bool :=
  chk_sid_at (100 * k) 0 && chk_sid_at (100 * k) 512 && chk_sid_at (100 * k) (k mod 1024).
