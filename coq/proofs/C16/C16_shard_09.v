(* C16 shard 9: years 1318 .. 1987 and sidereal samples k = 22014 .. 24459, by kernel computation *)
From Coq Require Import ZArith NArith.
From PyLib Require Import Range.
From Proofs.C16 Require Import C16_defs.
Lemma shard : all_range (1318) 670%N chk_year = true.
Proof. vm_cast_no_check (@eq_refl bool true). Qed.
Lemma sid : all_range 22014 2446%N chk_sid = true.
Proof. vm_cast_no_check (@eq_refl bool true). Qed.
