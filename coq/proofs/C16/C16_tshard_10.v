(* C16 thorough shard 10: years 1988 .. 2657 and sidereal samples k = 305700 .. 336269, by kernel computation *)
From Coq Require Import ZArith NArith.
From PyLib Require Import Range.
From Proofs.C16 Require Import C16_tdefs.
Lemma within : all_range (1988) 670%N chk_within_year = true.
Proof. vm_cast_no_check (@eq_refl bool true). Qed.
Lemma sid : all_range 305700 30570%N chk_sid_t = true.
Proof. vm_cast_no_check (@eq_refl bool true). Qed.
