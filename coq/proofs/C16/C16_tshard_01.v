(* C16 thorough shard 1: years -4042 .. -3373 and sidereal samples k = 30570 .. 61139, by kernel computation *)
From Coq Require Import ZArith NArith.
From PyLib Require Import Range.
From Proofs.C16 Require Import C16_tdefs.
Lemma within : all_range (-4042) 670%N chk_within_year = true.
Proof. vm_cast_no_check (@eq_refl bool true). Qed.
Lemma sid : all_range 30570 30570%N chk_sid_t = true.
Proof. vm_cast_no_check (@eq_refl bool true). Qed.
