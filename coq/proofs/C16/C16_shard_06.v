(* C16 shard 6: years -692 .. -23 and sidereal samples k = 14676 .. 17121, by kernel computation *)
From Coq Require Import ZArith NArith.
From PyLib Require Import Range.
From Proofs.C16 Require Import C16_defs.
Lemma shard : all_range (-692) 670%N chk_year = true.
Proof. vm_cast_no_check (@eq_refl bool true). Qed.
Lemma sid : all_range 14676 2446%N chk_sid = true.
Proof. vm_cast_no_check (@eq_refl bool true). Qed.
