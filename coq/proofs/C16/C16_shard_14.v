(* C16 shard 14: years 4668 .. 5337 and sidereal samples k = 34244 .. 36689, by kernel computation *)
From Coq Require Import ZArith NArith.
From PyLib Require Import Range.
From Proofs.C16 Require Import C16_defs.
Lemma shard : all_range (4668) 670%N chk_year = true.
Proof. vm_cast_no_check (@eq_refl bool true). Qed.
Lemma sid : all_range 34244 2446%N chk_sid = true.
Proof. vm_cast_no_check (@eq_refl bool true). Qed.
