(* C16, thorough tier only: Epoch(y,m,d) / get_date and the within-day weekday check on EVERY civil date, and the
   sidereal-time check on every 8th day (offset 4, so disjoint from the quick samples). *)
From Coq Require Import ZArith NArith List Bool PrimFloat.
From PyLib Require Import PyVal PyBuiltins B64 B64Facts Range.
From Spec Require Import CalSpec.
From Gen Require Import M_base M_Angle M_Epoch.
From Proofs.C16 Require Import C16_defs.
Import ListNotations.
Open Scope Z_scope.

Definition chk_full (y m d : Z) : bool :=
  let n := jdn y m d in
  val_eqb (mkEpoch [VInt y; VInt m; VInt d]) (epoch_at n) &&
  val_eqb (Epoch_get_date B0 (epoch_at n) (VDict [])) (date_tuple y m d) &&
  chk_within y m d.
Definition chk_within_year (y : Z) : bool :=
  forallb (fun m => forallb (fun d => if valid y m d then chk_full y m d else true) (zrange 1 31)) (zrange 1 12).
Definition chk_sid_t (k : Z) : bool :=
  chk_sid_at (8 * k + 4) 0 && chk_sid_at (8 * k + 4) ((37 * k) mod 1024).
