(* C16, thorough tier only: lifting of the thorough shards.  Not part of the theorem list of
   the evidence (which is the same in both tiers); compiled, so a failure breaks the check. *)
From Coq Require Import ZArith NArith List Bool String Lia PrimFloat QArith.
From PyLib Require Import PyVal PyBuiltins B64 B64Facts Range.
From Spec Require Import CalSpec.
From Gen Require Import M_base M_Angle M_Epoch.
From Proofs.C16 Require Import C16_defs C16_tdefs C16_main.
From Proofs.C16 Require C16_tshard_00.
From Proofs.C16 Require C16_tshard_01.
From Proofs.C16 Require C16_tshard_02.
From Proofs.C16 Require C16_tshard_03.
From Proofs.C16 Require C16_tshard_04.
From Proofs.C16 Require C16_tshard_05.
From Proofs.C16 Require C16_tshard_06.
From Proofs.C16 Require C16_tshard_07.
From Proofs.C16 Require C16_tshard_08.
From Proofs.C16 Require C16_tshard_09.
From Proofs.C16 Require C16_tshard_10.
From Proofs.C16 Require C16_tshard_11.
From Proofs.C16 Require C16_tshard_12.
From Proofs.C16 Require C16_tshard_13.
From Proofs.C16 Require C16_tshard_14.
From Proofs.C16 Require C16_tshard_15.
Import ListNotations.
Open Scope Z_scope.

Lemma all_within : forall y, -4712 <= y <= 6000 -> chk_within_year y = true.
Proof.
  intros y Hy.
  destruct (Z_lt_ge_dec y (-4042)) as [H0|H0]; [apply (all_range_spec _ _ _ C16_tshard_00.within); lia|].
  destruct (Z_lt_ge_dec y (-3372)) as [H1|H1]; [apply (all_range_spec _ _ _ C16_tshard_01.within); lia|].
  destruct (Z_lt_ge_dec y (-2702)) as [H2|H2]; [apply (all_range_spec _ _ _ C16_tshard_02.within); lia|].
  destruct (Z_lt_ge_dec y (-2032)) as [H3|H3]; [apply (all_range_spec _ _ _ C16_tshard_03.within); lia|].
  destruct (Z_lt_ge_dec y (-1362)) as [H4|H4]; [apply (all_range_spec _ _ _ C16_tshard_04.within); lia|].
  destruct (Z_lt_ge_dec y (-692)) as [H5|H5]; [apply (all_range_spec _ _ _ C16_tshard_05.within); lia|].
  destruct (Z_lt_ge_dec y (-22)) as [H6|H6]; [apply (all_range_spec _ _ _ C16_tshard_06.within); lia|].
  destruct (Z_lt_ge_dec y (648)) as [H7|H7]; [apply (all_range_spec _ _ _ C16_tshard_07.within); lia|].
  destruct (Z_lt_ge_dec y (1318)) as [H8|H8]; [apply (all_range_spec _ _ _ C16_tshard_08.within); lia|].
  destruct (Z_lt_ge_dec y (1988)) as [H9|H9]; [apply (all_range_spec _ _ _ C16_tshard_09.within); lia|].
  destruct (Z_lt_ge_dec y (2658)) as [H10|H10]; [apply (all_range_spec _ _ _ C16_tshard_10.within); lia|].
  destruct (Z_lt_ge_dec y (3328)) as [H11|H11]; [apply (all_range_spec _ _ _ C16_tshard_11.within); lia|].
  destruct (Z_lt_ge_dec y (3998)) as [H12|H12]; [apply (all_range_spec _ _ _ C16_tshard_12.within); lia|].
  destruct (Z_lt_ge_dec y (4668)) as [H13|H13]; [apply (all_range_spec _ _ _ C16_tshard_13.within); lia|].
  destruct (Z_lt_ge_dec y (5338)) as [H14|H14]; [apply (all_range_spec _ _ _ C16_tshard_14.within); lia|].
  apply (all_range_spec _ _ _ C16_tshard_15.within); lia.
Qed.

Lemma all_sid_t : forall k, 0 <= k <= 489109 -> chk_sid_t k = true.
Proof.
  intros k Hk.
  destruct (Z_lt_ge_dec k (30570)) as [H0|H0]; [apply (all_range_spec _ _ _ C16_tshard_00.sid); lia|].
  destruct (Z_lt_ge_dec k (61140)) as [H1|H1]; [apply (all_range_spec _ _ _ C16_tshard_01.sid); lia|].
  destruct (Z_lt_ge_dec k (91710)) as [H2|H2]; [apply (all_range_spec _ _ _ C16_tshard_02.sid); lia|].
  destruct (Z_lt_ge_dec k (122280)) as [H3|H3]; [apply (all_range_spec _ _ _ C16_tshard_03.sid); lia|].
  destruct (Z_lt_ge_dec k (152850)) as [H4|H4]; [apply (all_range_spec _ _ _ C16_tshard_04.sid); lia|].
  destruct (Z_lt_ge_dec k (183420)) as [H5|H5]; [apply (all_range_spec _ _ _ C16_tshard_05.sid); lia|].
  destruct (Z_lt_ge_dec k (213990)) as [H6|H6]; [apply (all_range_spec _ _ _ C16_tshard_06.sid); lia|].
  destruct (Z_lt_ge_dec k (244560)) as [H7|H7]; [apply (all_range_spec _ _ _ C16_tshard_07.sid); lia|].
  destruct (Z_lt_ge_dec k (275130)) as [H8|H8]; [apply (all_range_spec _ _ _ C16_tshard_08.sid); lia|].
  destruct (Z_lt_ge_dec k (305700)) as [H9|H9]; [apply (all_range_spec _ _ _ C16_tshard_09.sid); lia|].
  destruct (Z_lt_ge_dec k (336270)) as [H10|H10]; [apply (all_range_spec _ _ _ C16_tshard_10.sid); lia|].
  destruct (Z_lt_ge_dec k (366840)) as [H11|H11]; [apply (all_range_spec _ _ _ C16_tshard_11.sid); lia|].
  destruct (Z_lt_ge_dec k (397410)) as [H12|H12]; [apply (all_range_spec _ _ _ C16_tshard_12.sid); lia|].
  destruct (Z_lt_ge_dec k (427980)) as [H13|H13]; [apply (all_range_spec _ _ _ C16_tshard_13.sid); lia|].
  destruct (Z_lt_ge_dec k (458550)) as [H14|H14]; [apply (all_range_spec _ _ _ C16_tshard_14.sid); lia|].
  apply (all_range_spec _ _ _ C16_tshard_15.sid); lia.
Qed.

Lemma full_date y m d : -4712 <= y <= 6000 -> valid y m d = true -> chk_full y m d = true.
Proof.
  intros Hy Hv. pose proof (all_within y Hy) as H. unfold chk_within_year in H.
  destruct (valid_bounds _ _ _ Hv) as (_ & Hm & Hd). pose proof (mlen_bounds y m Hm) as Hl.
  pose proof (forallb_zrange _ 1 12 H m ltac:(simpl; lia)) as H1. cbv beta in H1.
  pose proof (forallb_zrange _ 1 31 H1 d ltac:(simpl; lia)) as H2. cbv beta in H2.
  rewrite Hv in H2. exact H2.
Qed.

(* the weekday is the same at noon, at 0.999999 d and at the last binary64 instant of EVERY civil day *)
Theorem T16_dow_within_day_all : forall y m d j, -4712 <= y <= 6000 -> valid y m d = true ->
  In j (day_instants (jdn y m d)) ->
  Epoch_dow B0 (VObj cEpoch [VFloat j]) (VBool false) = VInt ((jdn y m d + 1) mod 7).
Proof.
  intros y m d j Hy Hv Hj. pose proof (full_date y m d Hy Hv) as H. unfold chk_full in H.
  apply andb_true_iff in H. destruct H as [_ H2].
  unfold chk_within in H2. rewrite forallb_forall in H2.
  apply val_eqb_eq. apply (H2 j Hj).
Qed.

(* Epoch(y, m, d): weekday, day of year, leap status, fractional year, MJD on EVERY civil date, unconditionally *)
Theorem T16_all_dates : forall y m d, -4712 <= y <= 6000 -> valid y m d = true ->
  let e := mkEpoch [VInt y; VInt m; VInt d] in
  e = epoch_at (jdn y m d) /\
  Epoch_dow B0 e (VBool false) = VInt ((jdn y m d + 1) mod 7) /\
  Epoch_doy B0 e = fl (jdn y m d - jdn y 1 1 + 1) /\
  Epoch_leap B0 e = VBool (leap y) /\
  Epoch_year B0 e = VFloat (yfrac y (doy y m d)) /\
  Epoch_mjd B0 e = fl (jdn y m d - 2400001).
Proof.
  intros y m d Hy Hv. pose proof (full_date y m d Hy Hv) as H. unfold chk_full in H.
  apply andb_true_iff in H. destruct H as [H _].
  apply andb_true_iff in H. destruct H as [H1 H2].
  apply val_eqb_eq in H1. apply val_eqb_eq in H2.
  cbv zeta. rewrite H1. unfold epoch_at in *.
  split; [reflexivity|]. split; [exact (dow_date y m d Hy Hv)|].
  split; [exact (doy_method y m d _ Hy Hv H2)|].
  split; [exact (leap_method y m (b64_of_Z d) _ Hy H2)|].
  split; [exact (year_method y m d _ Hy Hv H2)|exact (mjd_date y m d Hy Hv)].
Qed.

(* mean sidereal time in [0,1) and within 1e-7 d of IAU 1982 on every 8th day at 0h and one more fraction *)
Theorem T16_sidereal_dense : forall k, 0 <= k <= 489109 ->
  sid_ok (8 * k + 4) 0 /\ sid_ok (8 * k + 4) ((37 * k) mod 1024).
Proof.
  intros k Hk. pose proof (all_sid_t k Hk) as H. unfold chk_sid_t in H.
  apply andb_true_iff in H. destruct H as [H1 H2]. split; apply sid_at; assumption.
Qed.
