(* C16 shard 2: years -3372 .. -2703 and sidereal samples k = 4892 .. 7337, by kernel computation *)
From Coq Require Import ZArith NArith.
From PyLib Require Import Range.
From Proofs.C16 Require Import C16_defs.
Lemma shard : all_range (-3372) 670%N chk_year = true.
Proof. vm_cast_no_check (@eq_refl bool true). Qed.
Lemma sid : all_range 4892 2446%N chk_sid = true.
Proof. vm_cast_no_check (@eq_refl bool true). Qed.
