(* C16 shard 5: years -1362 .. -693 and sidereal samples k = 12230 .. 14675, by kernel computation *)
From Coq Require Import ZArith NArith.
From PyLib Require Import Range.
From Proofs.C16 Require Import C16_defs.
Lemma shard : all_range (-1362) 670%N chk_year = true.
Proof. vm_cast_no_check (@eq_refl bool true). Qed.
Lemma sid : all_range 12230 2446%N chk_sid = true.
Proof. vm_cast_no_check (@eq_refl bool true). Qed.
