(* C16 shard 12: years 3328 .. 3997 and sidereal samples k = 29352 .. 31797, by kernel computation *)
From Coq Require Import ZArith NArith.
From PyLib Require Import Range.
From Proofs.C16 Require Import C16_defs.
Lemma shard : all_range (3328) 670%N chk_year = true.
Proof. vm_cast_no_check (@eq_refl bool true). Qed.
Lemma sid : all_range 29352 2446%N chk_sid = true.
Proof. vm_cast_no_check (@eq_refl bool true). Qed.
