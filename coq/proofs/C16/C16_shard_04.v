(* C16 shard 4: years -2032 .. -1363 and sidereal samples k = 9784 .. 12229, by kernel computation *)
From Coq Require Import ZArith NArith.
From PyLib Require Import Range.
From Proofs.C16 Require Import C16_defs.
Lemma shard : all_range (-2032) 670%N chk_year = true.
Proof. vm_cast_no_check (@eq_refl bool true). Qed.
Lemma sid : all_range 9784 2446%N chk_sid = true.
Proof. vm_cast_no_check (@eq_refl bool true). Qed.
