(* Property C16 -- Weekday, day of year, fractional year and sidereal time follow the JDE.
   This file holds only the statements; all proofs are in C16_main.v.  The model (the
   generated Epoch.dow / get_doy / doy / doy2date / year / leap / is_leap / mjd /
   mean_sidereal_time, binary64 instance B0, no libm involved) is regenerated from /repo on
   every run.  jdn, valid, next, leap, doy, year_len, weekday: Spec.CalSpec (independent day
   count, Julian through 4 Oct 1582, Gregorian from 15 Oct 1582).
   fl z = VFloat (b64_of_Z z);  ep j = the Epoch object with JDE j;
   epoch_at n = ep (n - 0.5), 0h of the civil day with Julian Day Number n. *)
From Coq Require Import ZArith List String PrimFloat QArith.
From PyLib Require Import PyVal PyBuiltins B64 B64Facts.
From Spec Require Import CalSpec.
From Gen Require Import M_base M_Angle M_Epoch.
From Proofs.C16 Require Import C16_defs C16_main.
Import ListNotations.
Open Scope Z_scope.

(* Epoch(y, m, d) is the object at 0h of the day with day count jdn y m d, and get_date reads the
   date back: shown here on the first and last day of every month (on EVERY date: C01_construct,
   C01_roundtrip) *)
Theorem C16_epoch : forall y m d, -4712 <= y <= 6000 -> 1 <= m <= 12 -> d = 1 \/ d = mlen y m ->
  mkEpoch [VInt y; VInt m; VInt d] = VObj cEpoch [VFloat (b64_of_Z (jdn y m d) - 0.5)%float] /\
  Epoch_get_date B0 (VObj cEpoch [VFloat (b64_of_Z (jdn y m d) - 0.5)%float]) (VDict [])
  = VTuple [VInt y; VInt m; VFloat (b64_of_Z d)].
Proof. exact epoch_ends. Qed.

(* weekday = (day count + 1) mod 7 = floor(JDE + 1.5) mod 7, 0 = Sunday, on every civil date *)
Theorem C16_dow : forall y m d, -4712 <= y <= 6000 -> valid y m d = true ->
  Epoch_dow B0 (VObj cEpoch [VFloat (b64_of_Z (jdn y m d) - 0.5)%float]) (VBool false)
  = VInt ((jdn y m d + 1) mod 7).
Proof. exact dow_date. Qed.

(* ... constant over the civil day: at noon, at 0.999999 d and at the last binary64 instant
   before the next midnight (every date of every 20th year, 1582 included) *)
Theorem C16_dow_within_day : forall y m d j, -4712 <= y <= 6000 -> y mod 20 = 2 -> valid y m d = true ->
  In j [(b64_of_Z (jdn y m d) - 0.5 + 0.5)%float;
        (b64_of_Z (jdn y m d) - 0.5 + 0x1.ffffde7210be9p-1)%float;
        next_down (b64_of_Z (jdn y m d + 1) - 0.5)%float] ->
  Epoch_dow B0 (VObj cEpoch [VFloat j]) (VBool false) = VInt ((jdn y m d + 1) mod 7).
Proof. exact dow_within_day. Qed.

(* ... advancing by one from each civil date to the next, which is one day count later
   (4 Oct 1582 -> 15 Oct 1582 included) *)
Theorem C16_dow_next : forall y m d y' m' d', -4712 <= y <= 6000 -> y' <= 6000 ->
  valid y m d = true -> next y m d = (y', m', d') ->
  exists w, Epoch_dow B0 (epoch_at (jdn y m d)) (VBool false) = VInt w /\
            Epoch_dow B0 (epoch_at (jdn y m d + 1)) (VBool false) = VInt ((w + 1) mod 7) /\
            jdn y' m' d' = jdn y m d + 1.
Proof. exact dow_next. Qed.

(* ... and it is the proleptic Gregorian weekday from 15 Oct 1582 on; the spec weekday steps by
   one for ALL years (no upper bound) *)
Theorem C16_dow_gregorian :
  (forall y m d, -4712 <= y <= 6000 -> valid y m d = true -> before_reform y m d = false ->
     Epoch_dow B0 (epoch_at (jdn y m d)) (VBool false) = VInt ((jdn_g y m d + 1) mod 7)) /\
  (forall y m d, valid y m d = true ->
     let '(y', m', d') := next y m d in weekday y' m' d' = (weekday y m d + 1) mod 7).
Proof.
  split; [|exact weekday_next].
  intros y m d Hy Hv Hb. rewrite <- (weekday_gregorian y m d Hv Hb).
  exact (dow_date y m d Hy Hv).
Qed.

(* day of year = day count - day count of 1 January + 1, in both calendars (static function) *)
Theorem C16_get_doy : forall y m d, -4712 <= y <= 6000 -> valid y m d = true ->
  Epoch_get_doy B0 (VInt y) (VInt m) (VFloat (b64_of_Z d)) = VFloat (b64_of_Z (jdn y m d - jdn y 1 1 + 1)).
Proof. exact doy_static. Qed.

(* ... with int arguments on the first and last day of every month, both directions *)
Theorem C16_doy_int_args : forall y m d, -4712 <= y <= 6000 -> 1 <= m <= 12 -> d = 1 \/ d = mlen y m ->
  Epoch_get_doy B0 (VInt y) (VInt m) (VInt d) = VFloat (b64_of_Z (jdn y m d - jdn y 1 1 + 1)) /\
  Epoch_doy2date B0 (VInt y) (VInt (jdn y m d - jdn y 1 1 + 1)) = VTuple [VInt y; VInt m; VFloat (b64_of_Z d)].
Proof. exact doy_int_args. Qed.

(* 31 December is day 365 or 366 by the leap rule in force (355 in 1582) *)
Theorem C16_doy_dec31 : forall y, -4712 <= y <= 6000 ->
  Epoch_get_doy B0 (VInt y) (VInt 12) (VFloat 31%float)
  = VFloat (b64_of_Z (if y =? 1582 then 355 else if leap y then 366 else 365)).
Proof. exact doy_dec31. Qed.

(* day of year -> date inverts date -> day of year *)
Theorem C16_doy2date : forall y m d, -4712 <= y <= 6000 -> valid y m d = true ->
  Epoch_doy2date B0 (VInt y) (Epoch_get_doy B0 (VInt y) (VInt m) (VFloat (b64_of_Z d)))
  = VTuple [VInt y; VInt m; VFloat (b64_of_Z d)].
Proof. exact doy_inverse. Qed.

(* days that do not exist have no day of year *)
Theorem C16_doy_refused : forall y m d, -4712 <= y <= 6000 -> 1 <= m <= 12 ->
  (-1 <= d <= 0 \/ mlen y m < d <= 33 \/ (y = 1582 /\ m = 10 /\ 5 <= d <= 14)) ->
  Epoch_get_doy B0 (VInt y) (VInt m) (VInt d) = VErr ValueError.
Proof. exact doy_refused. Qed.

(* leap status: static function on int and float years *)
Theorem C16_leap : forall y, -4712 <= y <= 6000 ->
  Epoch_is_leap B0 (VInt y) = VBool (leap y) /\ Epoch_is_leap B0 (VFloat (b64_of_Z y)) = VBool (leap y).
Proof. exact leap_rule. Qed.

(* the methods doy(), leap(), year() of ANY Epoch object (any JDE j) whose get_date returns the
   civil date (y, m, d) -- by C01_roundtrip that is every Epoch(y, m, d): symbolic composition on the
   generated text + the static theorems.  year() = y + (doy - 1) / (365 | 366) in binary64 *)
Theorem C16_methods : forall y m d j, -4712 <= y <= 6000 -> valid y m d = true ->
  Epoch_get_date B0 (VObj cEpoch [VFloat j]) (VDict []) = VTuple [VInt y; VInt m; VFloat (b64_of_Z d)] ->
  Epoch_doy B0 (VObj cEpoch [VFloat j]) = VFloat (b64_of_Z (jdn y m d - jdn y 1 1 + 1)) /\
  Epoch_leap B0 (VObj cEpoch [VFloat j]) = VBool (leap y) /\
  Epoch_year B0 (VObj cEpoch [VFloat j])
  = VFloat (b64_of_Z y + (b64_of_Z (jdn y m d - jdn y 1 1 + 1) - 1) / (if leap y then 366 else 365))%float.
Proof.
  intros y m d j Hy Hv Hg. split; [|split].
  - exact (doy_method y m d j Hy Hv Hg).
  - exact (leap_method y m (b64_of_Z d) j Hy Hg).
  - exact (year_method y m d j Hy Hv Hg).
Qed.

(* ... unconditionally on the first and last day of every month *)
Theorem C16_methods_month_ends : forall y m d, -4712 <= y <= 6000 -> 1 <= m <= 12 -> d = 1 \/ d = mlen y m ->
  Epoch_doy B0 (mkEpoch [VInt y; VInt m; VInt d]) = VFloat (b64_of_Z (jdn y m d - jdn y 1 1 + 1)) /\
  Epoch_leap B0 (mkEpoch [VInt y; VInt m; VInt d]) = VBool (leap y) /\
  Epoch_year B0 (mkEpoch [VInt y; VInt m; VInt d])
  = VFloat (b64_of_Z y + (b64_of_Z (jdn y m d - jdn y 1 1 + 1) - 1) / (if leap y then 366 else 365))%float.
Proof. exact methods_month_ends. Qed.

(* that fractional-year value has integer part = calendar year on every civil date, and is strictly
   increasing from each civil date to the next (binary64 comparison; year boundary and 1582 included) *)
Theorem C16_year_order : forall y m d, -4712 <= y <= 6000 -> valid y m d = true ->
  b64_floor (yfrac y (jdn y m d - jdn y 1 1 + 1)) = y /\
  forall y' m' d', next y m d = (y', m', d') ->
    (yfrac y (jdn y m d - jdn y 1 1 + 1) <? yfrac y' (jdn y' m' d' - jdn y' 1 1 + 1))%float = true.
Proof.
  intros y m d Hy Hv. split; [exact (year_floor y m d Hy Hv)|].
  intros y' m' d' Hn. exact (year_increasing y m d y' m' d' Hy Hv Hn).
Qed.

(* MJD = JDE - 2400000.5: at 0h of a civil day exactly day count - 2400001 *)
Theorem C16_mjd : forall y m d, -4712 <= y <= 6000 -> valid y m d = true ->
  Epoch_mjd B0 (VObj cEpoch [VFloat (b64_of_Z (jdn y m d) - 0.5)%float]) = VFloat (b64_of_Z (jdn y m d - 2400001)).
Proof. exact mjd_date. Qed.

(* mean sidereal time, at JDE = n - 0.5 + i/1024 for every 100th day number n = 100 k of the range
   and i = 0, 512 and k mod 1024: the JDE is that number exactly, the result x is a float in
   [0, 1), and its exact value is within 1e-7 day (on the circle) of the exact rational value
   of the IAU 1982 expression iau82 (C16_defs: GMST(0h) polynomial + 1.00273790935 * fraction) *)
Theorem C16_sidereal : forall k, 0 <= k <= 39128 ->
  forall i, i = 0 \/ i = 512 \/ i = k mod 1024 ->
  exists x, Epoch_mean_sidereal_time B0 (VObj cEpoch [VFloat (b64_of_Z (100 * k) - 0.5 + b64_of_Z i / 1024)%float]) = VFloat x /\
    (Q_of_float (b64_of_Z (100 * k) - 0.5 + b64_of_Z i / 1024)%float == inject_Z (100 * k) - Qmake 1 2 + Qmake i 1024)%Q /\
    (0 <=? x)%float = true /\ (x <? 1)%float = true /\
    (circ_err (Q_of_float x) (iau82 (100 * k) (Qmake i 1024)) <= Qmake 1 10000000)%Q.
Proof.
  intros k Hk i Hi. destruct (sidereal k Hk) as (H1 & H2 & H3).
  destruct Hi as [->|[->| ->]]; assumption.
Qed.

Redirect "C16_epoch.assumptions" Print Assumptions C16_epoch.
Redirect "C16_dow.assumptions" Print Assumptions C16_dow.
Redirect "C16_dow_within_day.assumptions" Print Assumptions C16_dow_within_day.
Redirect "C16_dow_next.assumptions" Print Assumptions C16_dow_next.
Redirect "C16_dow_gregorian.assumptions" Print Assumptions C16_dow_gregorian.
Redirect "C16_get_doy.assumptions" Print Assumptions C16_get_doy.
Redirect "C16_doy_int_args.assumptions" Print Assumptions C16_doy_int_args.
Redirect "C16_doy_dec31.assumptions" Print Assumptions C16_doy_dec31.
Redirect "C16_doy2date.assumptions" Print Assumptions C16_doy2date.
Redirect "C16_doy_refused.assumptions" Print Assumptions C16_doy_refused.
Redirect "C16_leap.assumptions" Print Assumptions C16_leap.
Redirect "C16_methods.assumptions" Print Assumptions C16_methods.
Redirect "C16_methods_month_ends.assumptions" Print Assumptions C16_methods_month_ends.
Redirect "C16_year_order.assumptions" Print Assumptions C16_year_order.
Redirect "C16_mjd.assumptions" Print Assumptions C16_mjd.
Redirect "C16_sidereal.assumptions" Print Assumptions C16_sidereal.

(* ---------------------------------------------------------------------------------------------
   Ideal (real-number) instance Rops of the same generated text: sidereal time for EVERY real
   JDE j >= 0 against the independently transcribed IAU 1982 expression Spec.Sidereal.gmst_iau1982
   (proofs: C16_ideal.v).  Says nothing about binary64 rounding (that is C16_sidereal above). *)
From Coq Require Reals.
From PyLib Require Ideal.
From Spec Require Sidereal.
From Proofs.C16 Require C16_ideal.
Module IdealStatements.
Import Reals Ideal Sidereal C16_ideal.
Local Open Scope R_scope.

(* mean_sidereal_time returns a float s in [0, 1) congruent modulo 1 to the IAU 1982 expression
   (24110.54841 + 8640184.812866 T0 + 0.093104 T0^2 - 6.2e-6 T0^3)/86400 + 1.00273790935 (j - j0),
   j0 = jd_0h j the preceding 0h UT instant, T0 = (j0 - 2451545)/36525.  Exception stated exactly:
   strictly less than TOL = 1e-10 day after 0h the code returns the 0h value (off by < 1.003e-10). *)
Theorem C16_sidereal_ideal : forall j : R, 0 <= j ->
  exists s, Epoch_mean_sidereal_time Rops (VObj cEpoch [VFloat j]) = VFloat s /\ 0 <= s < 1 /\
    ((j = jd_0h j \/ 1 / 10000000000 <= j - jd_0h j) -> cong1 s (gmst_iau1982 j)) /\
    (j - jd_0h j < 1 / 10000000000 -> cong1 s (gmst_iau1982 (jd_0h j))).
Proof. exact mean_sidereal_ideal. Qed.

(* within a civil day the expression advances by exactly 1.00273790935 turns per day *)
Theorem C16_sidereal_rate : forall j h : R, jd_0h (j + h) = jd_0h j ->
  gmst_iau1982 (j + h) - gmst_iau1982 j = 100273790935 / 100000000000 * h.
Proof. exact gmst_rate. Qed.

(* apparent = mean + equation of the equinoxes  dpsi(deg) * 3600 * cos(eps) / 15 s, in days;
   nutation in longitude dpsi and true obliquity eps are arbitrary (floats or Angles) *)
Theorem C16_apparent_ideal : forall j s eps dpsi te tp : R,
  Epoch_mean_sidereal_time Rops (VObj cEpoch [VFloat j]) = VFloat s ->
  Epoch_apparent_sidereal_time Rops (VObj cEpoch [VFloat j]) (VFloat eps) (VFloat dpsi) =
    VFloat (s + dpsi * 3600 * cos (eps * (PI / 180)) / 15 / 86400) /\
  Epoch_apparent_sidereal_time Rops (VObj cEpoch [VFloat j])
    (VObj cAngle [VFloat eps; VFloat te]) (VObj cAngle [VFloat dpsi; VFloat tp]) =
    VFloat (s + dpsi * 3600 * cos (eps * (PI / 180)) / 15 / 86400).
Proof.
  intros j s eps dpsi te tp H.
  exact (conj (apparent_sidereal_ideal j s eps dpsi H) (apparent_sidereal_ideal_angles j s eps te dpsi tp H)).
Qed.
End IdealStatements.

Redirect "C16_sidereal_ideal.assumptions" Print Assumptions IdealStatements.C16_sidereal_ideal.
Redirect "C16_sidereal_rate.assumptions" Print Assumptions IdealStatements.C16_sidereal_rate.
Redirect "C16_apparent_ideal.assumptions" Print Assumptions IdealStatements.C16_apparent_ideal.

(* binary64 instance, EVERY finite JDE j in [0, 2^51) (not only the civil instants of the kernel
   computations above): Epoch(j).dow() = floor(j + 1.5) mod 7.  RV j is the real value of the float j
   (PyLib.B64Verified, Flocq's semantics of binary64).  Hence the weekday is constant over the whole
   civil day [n - 0.5, n + 0.5) for ALL its binary64 instants, and advances by one from day to day. *)
Module B64AllFloats.
From Coq Require Import Reals.
From PyLib Require B64Verified.
From Proofs.C16 Require C16_b64.
Theorem C16_dow_b64 : forall j : float, B64Verified.fin j ->
  (0 <= B64Verified.RV j < 2251799813685248)%R ->
  Epoch_dow B0 (VObj cEpoch [VFloat j]) (VBool false)
  = VInt (Raux.Zfloor (B64Verified.RV j + 3 / 2)%R mod 7).
Proof. exact C16_b64.dow_b64. Qed.

(* mean_sidereal_time, binary64, EVERY finite JDE j with 0 <= j <= 2^23 (year 18254): it returns a float r
   (no exception), r = x % 1 (Python's float %, B64Eval.pymod) of a finite float x >= 0 -- every summand
   of x is non-negative because jd0 is the PRECEDING 0h -- so r is the exact fractional part of x and
   0 <= r < 1: the value 1.0, which float % 1 yields for tiny negative arguments, cannot occur *)
From PyLib Require B64Eval.
From Proofs.C16 Require C16_mst_b64.
Theorem C16_sidereal_b64 : forall j : float, B64Verified.fin j ->
  (0 <= B64Verified.RV j <= 8388608)%R ->
  exists x r, Epoch_mean_sidereal_time B0 (VObj cEpoch [VFloat j]) = VFloat r /\ r = B64Eval.pymod x 1 /\
              B64Verified.fin x /\ (0 <= B64Verified.RV x)%R /\ B64Verified.fin r /\
              (0 <= B64Verified.RV r < 1)%R /\
              (B64Verified.RV r = B64Verified.RV x - IZR (Raux.Zfloor (B64Verified.RV x)))%R.
Proof. exact C16_mst_b64.mst_b64. Qed.
End B64AllFloats.
Redirect "C16_dow_b64.assumptions" Print Assumptions B64AllFloats.C16_dow_b64.
Redirect "C16_sidereal_b64.assumptions" Print Assumptions B64AllFloats.C16_sidereal_b64.
