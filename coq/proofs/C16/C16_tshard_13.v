(* C16 thorough shard 13: years 3998 .. 4667 and sidereal samples k = 397410 .. 427979, by kernel computation *)
From Coq Require Import ZArith NArith.
From PyLib Require Import Range.
From Proofs.C16 Require Import C16_tdefs.
Lemma within : all_range (3998) 670%N chk_within_year = true.
Proof. vm_cast_no_check (@eq_refl bool true). Qed.
Lemma sid : all_range 397410 30570%N chk_sid_t = true.
Proof. vm_cast_no_check (@eq_refl bool true). Qed.
