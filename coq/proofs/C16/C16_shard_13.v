(* C16 shard 13: years 3998 .. 4667 and sidereal samples k = 31798 .. 34243, by kernel computation *)
From Coq Require Import ZArith NArith.
From PyLib Require Import Range.
From Proofs.C16 Require Import C16_defs.
Lemma shard : all_range (3998) 670%N chk_year = true.
Proof. vm_cast_no_check (@eq_refl bool true). Qed.
Lemma sid : all_range 31798 2446%N chk_sid = true.
Proof. vm_cast_no_check (@eq_refl bool true). Qed.
