(* C16 thorough shard 2: years -3372 .. -2703 and sidereal samples k = 61140 .. 91709, by kernel computation *)
From Coq Require Import ZArith NArith.
From PyLib Require Import Range.
From Proofs.C16 Require Import C16_tdefs.
Lemma within : all_range (-3372) 670%N chk_within_year = true.
Proof. vm_cast_no_check (@eq_refl bool true). Qed.
Lemma sid : all_range 61140 30570%N chk_sid_t = true.
Proof. vm_cast_no_check (@eq_refl bool true). Qed.
