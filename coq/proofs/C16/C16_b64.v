(* C16_b64: Epoch.dow in the binary64 instance, EVERY finite JDE in [0, 2^51). *)
From Coq Require Import ZArith Reals Lra Lia Bool List String.
From Coq Require Import Uint63 Floats.
From Flocq Require Import Core BinarySingleNaN PrimFloat.
From PyLib Require Import PyVal PyBuiltins B64 B64Verified Whnf PyEval B64Eval.
From Gen Require Import M_base M_Angle M_Epoch.
Import ListNotations.
Open Scope R_scope.

From Ltac2 Require Ltac2.
Ltac2 Set Whnf.is_blocked as old := fun c =>
  Ltac2.Bool.or (old c) (Ltac2.Constr.equal c '@fmod_py).

Definition epob (j : PrimFloat.float) : val PrimFloat.float := VObj cEpoch [VFloat j].

Lemma RV_two : RV 2%float = 2.
Proof. rewrite RV_SF. vm_compute Prim2SF. unfold SF2R, F2R. simpl. lra. Qed.
Lemma fin_two : fin 2%float.
Proof. apply fin_prim. reflexivity. Qed.
Lemma RV_seven : RV 7%float = 7.
Proof. rewrite RV_SF. vm_compute Prim2SF. unfold SF2R, F2R. simpl. lra. Qed.
Lemma fin_seven : fin 7%float.
Proof. apply fin_prim. reflexivity. Qed.

(* Epoch.dow(), every finite JDE j with 0 <= j < 2^51 (year 6000 is JDE 3.9e6): the weekday number is
   floor(j + 1.5) mod 7, 0 = Sunday -- the subtraction j - 0.5, the sum with 2.0 and the float % 7
   are all exact in binary64 *)
Theorem dow_b64 j : fin j -> 0 <= RV j < 2251799813685248 ->
  Epoch_dow B0 (epob j) (VBool false) = VInt (Zfloor (RV j + 3 / 2) mod 7).
Proof.
  intros Fj Hj.
  destruct (floor_sub_half j Fj ltac:(lra)) as (Fy & Hfl & Hyb).
  set (y := (j - 0.5)%float) in *.
  set (n := Zfloor (RV j - / 2)) in *.
  assert (-1 <= n < 2251799813685248)%Z as Hn.
  { unfold n. split.
    - apply Zfloor_lub. simpl. lra.
    - apply lt_IZR. pose proof (Zfloor_lb (RV j - / 2)). lra. }
  assert (b64_floor y = n) as Hfy by (rewrite b64_floor_correct by exact Fy; exact Hfl).
  destruct (b64_of_Z_exact n ltac:(lia)) as [Hnv Fn].
  destruct (int_add (b64_of_Z n) 2 n 2 Fn fin_two Hnv RV_two ltac:(lia)) as [Hjd Fjd].
  set (jd := (b64_of_Z n + 2)%float) in *.
  assert (0 <= RV jd) as Hjd0 by (rewrite Hjd; apply IZR_le; lia).
  destruct (fmod_py_pos jd 7 Fjd fin_seven Hjd0 ltac:(rewrite RV_seven; lra)) as (f & Hf & Ff & Hfv & Hfr).
  rewrite RV_seven, Hjd in Hfv. change 7 with (IZR 7) in Hfv. rewrite Zfloor_div in Hfv by lia.
  assert (RV f = IZR ((n + 2) mod 7)) as Hfi.
  { rewrite Hfv, Z.mod_eq by lia. rewrite minus_IZR, mult_IZR. ring. }
  assert (b64_floor f = ((n + 2) mod 7)%Z) as Hff by (rewrite b64_floor_correct by exact Ff; rewrite Hfi; apply Zfloor_IZR).
  assert (fmod_py B0 (b64_of_Z (b64_floor y) + 2)%float (b64_of_Z 7) = VFloat f) as Hf' by (rewrite Hfy; exact Hf).
  pose proof (eqb_self_fin y Fy) as N1. pose proof (abs_not_inf y Fy) as N2.
  pose proof (eqb_self_fin f Ff) as N3. pose proof (abs_not_inf f Ff) as N4.
  unfold Epoch_dow, epob. b64run.
  cbn [f_floor f_sub f_lit B0 B64ops B64opsC]. fold y.
  rewrite Hff. f_equal. f_equal.
  symmetry. apply Zfloor_imp. fold n in Hfl.
  pose proof (Zfloor_lb (RV j - / 2)) as L. pose proof (Zfloor_ub (RV j - / 2)) as U. fold n in L, U.
  rewrite !plus_IZR. simpl (IZR 2). simpl (IZR 1). lra.
Qed.
