(* C20: vocabulary of the generated exception-class / result-shape lemmas.
   The model is the binary64 instance B0 (no libm table: a type check comes before any libm call,
   and shape lemmas are only stated for libm-free samples). *)
From Coq Require Import ZArith NArith List Bool String PrimFloat.
From PyLib Require Import PyVal PyBuiltins B64.
Import ListNotations.
Open Scope Z_scope.

Definition fval := val float.

(* the ill-typed values of the property text: None, any str, any list / tuple (where a scalar or an
   object is expected), complex, any object of another class *)
Inductive ikind := KNone | KStr | KList | KTuple | KComplex | KAngle | KEpoch.

Inductive ill :=
| INone
| IStr (s : string)
| IList (l : list fval)
| ITuple (l : list fval)
| IComplex
| IAngle (fs : list fval)
| IEpoch (fs : list fval).

Definition kind_of (i : ill) : ikind :=
  match i with
  | INone => KNone | IStr _ => KStr | IList _ => KList | ITuple _ => KTuple
  | IComplex => KComplex | IAngle _ => KAngle | IEpoch _ => KEpoch
  end.

Definition ill_val (i : ill) : fval :=
  match i with
  | INone => VNone
  | IStr s => VStr s
  | IList l => VList l
  | ITuple l => VTuple l
  | IComplex => VObj cComplex []
  | IAngle fs => VObj cAngle fs
  | IEpoch fs => VObj cEpoch fs
  end.

Definition ikind_eqb (a b : ikind) : bool :=
  match a, b with
  | KNone, KNone | KStr, KStr | KList, KList | KTuple, KTuple
  | KComplex, KComplex | KAngle, KAngle | KEpoch, KEpoch => true
  | _, _ => false
  end.

Definition kind_in (i : ill) (ks : list ikind) : bool := existsb (ikind_eqb (kind_of i)) ks.

(* "rejected with TypeError or ValueError": never another exception class, never a value *)
Definition rejects (v : fval) : bool :=
  match v with VErr TypeError | VErr ValueError => true | _ => false end.

(* one parameter position of one public function: the call as a function of that argument (the other
   arguments are a documented well-typed sample) and the constructors it must reject *)
Record probe := mkProbe { p_name : string; p_kinds : list ikind; p_call : fval -> fval }.

Definition probe_ok (p : probe) : Prop :=
  forall i, kind_in i (p_kinds p) = true -> rejects (p_call p (ill_val i)) = true.

Ltac prove_probe :=
  intros i H; destruct i; vm_compute in H; try discriminate H; vm_compute; reflexivity.

Lemma probes_forall (ps : list probe) :
  Forall probe_ok ps ->
  forall p i, In p ps -> kind_in i (p_kinds p) = true -> rejects (p_call p (ill_val i)) = true.
Proof. intros H p i Hin. rewrite Forall_forall in H. exact (H p Hin i). Qed.

(* ---- result shapes *)
Inductive shp :=
| SFloat            (* a finite float *)
| SInt | SBool | SStr | SNone
| SObj (c : cls)    (* an object of that class whose float fields are finite *)
| STuple (l : list shp)
| SList             (* a list *)
| SAny.

Definition finite_field (v : fval) : bool :=
  match v with VFloat f => is_finite f | VErr _ => false | _ => true end.

Fixpoint has_shape (s : shp) (v : fval) {struct s} : bool :=
  match s, v with
  | SFloat, VFloat f => is_finite f
  | SInt, VInt _ => true
  | SBool, VBool _ => true
  | SStr, VStr _ => true
  | SNone, VNone => true
  | SObj c, VObj c' fs => Pos.eqb c c' && forallb finite_field fs
  | STuple ss, VTuple vs =>
      (fix go (ss : list shp) (vs : list fval) {struct ss} : bool :=
         match ss, vs with
         | [], [] => true
         | s' :: ss', v' :: vs' => has_shape s' v' && go ss' vs'
         | _, _ => false
         end) ss vs
  | SList, VList _ => true
  | SAny, VErr _ => false
  | SAny, _ => true
  | _, _ => false
  end.

Definition shape_case := (string * shp * fval)%type.
Definition shape_ok (c : shape_case) : bool := has_shape (snd (fst c)) (snd c).

(* outcome tag, used by the generator's discovery runs *)
Definition tag_of (v : fval) : string :=
  match v with
  | VErr TypeError => "TypeError" | VErr ValueError => "ValueError"
  | VErr ZeroDivisionError => "ZeroDivisionError" | VErr OverflowError => "OverflowError"
  | VErr AttributeError => "AttributeError" | VErr IndexError => "IndexError"
  | VErr KeyError => "KeyError" | VErr UnboundLocalError => "UnboundLocalError"
  | VErr RuntimeError => "RuntimeError" | VErr OutOfFuel => "OutOfFuel" | VErr Unsupported => "Unsupported"
  | _ => "value"
  end%string.
