(* Property C14 — seasons, equation of time and sunrise/sunset agree with the solar position.
   Statements only; proofs are in C14_eot.v, C14_season*.v, C14_poly.v, C14_rise.v.  The model
   (Sun_equation_of_time, Sun_get_equinox_solstice: real-arithmetic instance of the text
   regenerated from /repo) is read with the VSOP Sun position, obliquity, nutation, the
   ecliptical->equatorial conversion and the Angle/Epoch constructors as abstract callees whose
   values are the hypotheses of each theorem. *)
From Coq Require Import Reals ZArith List Bool String.
From PyLib Require Import PyVal PyBuiltins Ideal.
From Gen Require Import M_base M_Angle M_Epoch M_Interpolation M_Coordinates M_Earth M_Sun.
From Proofs.C14 Require Import C14_tac C14_angle C14_angle2 C14_jde C14_eot C14_season C14_season_all C14_poly C14_rise C14_riseset C14_trts.
Import ListNotations.
Open Scope R_scope.

(* the module constant JDE2000 *)
Theorem C14_jde2000 : g_JDE2000 Rops = epo 2451545.
Proof. exact JDE2000_val. Qed.

(* equation of time: E = 4 * red360 (L0 - 0.0057183 - alpha + dpsi cos eps) minutes, returned as
   (trunc E, (|E| mod 1) * 60) *)
Theorem C14_eot_closed_form : forall jde lon lat r eps alpha dec dpsi l0,
  -360 < l0 < 360 -> -360 < alpha < 360 ->
  Angle___init__ Rops (VObj cAngle [VNone; VNone]) (VTuple [VFloat (L0poly ((jde - 2451545) / 365250))]) (VDict []) = ang l0 ->
  Sun_apparent_geocentric_position Rops (epo jde) (VBool true) = VTuple [ang lon; ang lat; VFloat r] ->
  f_true_obliquity Rops (VTuple [epo jde]) (VDict []) = ang eps ->
  f_ecliptical2equatorial Rops (ang lon) (ang lat) (ang eps) = VTuple [ang alpha; ang dec] ->
  f_nutation_longitude Rops (VTuple [epo jde]) (VDict []) = ang dpsi ->
  let E := red360 (eot_arg l0 alpha dpsi eps) * 4 in
  Sun_equation_of_time Rops (epo jde) = VTuple [VInt (Rtrunc E); VFloat (Rfmod (Rabs E) 1 * 60)].
Proof. exact eot_closed_form_J2000. Qed.

Theorem C14_eot_reduced : forall x, exists k : Z, red360 x = x - 360 * IZR k.
Proof. exact red360_congr. Qed.

Theorem C14_eot_bound : forall x, Rabs (red360 x * 4) <= 720.
Proof. exact eot_minutes_bound. Qed.

Theorem C14_eot_seconds : forall E, 0 <= Rfmod (Rabs E) 1 * 60 < 60.
Proof. exact eot_seconds_range. Qed.

Theorem C14_eot_recompose : forall E, IZR (Z.abs (Rtrunc E)) + Rfmod (Rabs E) 1 * 60 / 60 = Rabs E.
Proof. exact eot_recompose. Qed.

(* seasons: the iteration starts at Epoch(jde0 k y), jde0 the Meeus polynomial of the season and
   year range: a failure of the Sun position there is the result of the call *)
Theorem C14_season_first_query : forall (D : R -> Prop) k y x,
  (0 <= k <= 3)%Z -> (-1000 <= y <= 3000)%Z -> CtorExact D -> D (jde0 k y) ->
  Sun_apparent_geocentric_position Rops (epo (jde0 k y)) (VBool true) = VErr x ->
  Sun_get_equinox_solstice Rops (VInt y) (VStr (season_name k)) = VErr x.
Proof. exact season_first_query. Qed.

(* the call is a loop started at (corr = 1.0, Epoch(jde0)); with no fuel it is OutOfFuel, and
   when |corr| <= 2.5e-6 the loop returns Epoch(epoch - corr) *)
Theorem C14_season_exit_step : forall (D : R -> Prop) k y,
  (0 <= k <= 3)%Z -> (-1000 <= y <= 3000)%Z -> CtorExact D -> D (jde0 k y) ->
  exists F : nat -> val R -> val R -> val R -> val R -> val R -> val R -> val R, Sun_get_equinox_solstice Rops (VInt y) (VStr (season_name k))
      = F loop_fuel (VErr UnboundLocalError) (VFloat 1) (epo (jde0 k y))
          (VErr UnboundLocalError) (VErr UnboundLocalError) (VErr UnboundLocalError) /\
    (forall a c e la lo r, F 0%nat a (VFloat c) (epo e) la lo r = VErr OutOfFuel) /\
    forall n a c e la lo r, Rabs c <= 25 / 10000000 -> D (e - c) ->
       F (S n) a (VFloat c) (epo e) la lo r = epo (e - c).
Proof. exact season_exit_step. Qed.

(* the loop invariant, by induction on the fuel of the generated loop.  D: any set of instants on
   which the Epoch constructor is exact and the Sun position is (lam, bet, rad), closed under the
   correction step e -> e + 58 sin(k*90 - lam+(e)) and containing jde0.  Whenever the model returns
   anything but OutOfFuel it returns an Epoch t in D with |58 sin(k*90 - lam+(t))| <= 2.5e-6,
   lam+ = the longitude brought to [0, 360). *)
Theorem C14_season_loop_invariant : forall (D : R -> Prop) k y lam bet rad,
  (0 <= k <= 3)%Z -> (-1000 <= y <= 3000)%Z -> SunModel D lam bet rad -> StepClosed D k lam ->
  D (jde0 k y) ->
  SeasonGood D k lam (Sun_get_equinox_solstice Rops (VInt y) (VStr (season_name k))).
Proof. exact season_loop_invariant. Qed.

Theorem C14_season_year_range : forall y,
  ((y < -1000)%Z -> Sun_get_equinox_solstice Rops (VInt y) (VStr "spring") = VErr ValueError) /\
  ((3000 < y)%Z -> Sun_get_equinox_solstice Rops (VInt y) (VStr "winter") = VErr ValueError).
Proof. intro y. split; [apply season_range_lo | apply season_range_hi]. Qed.

Theorem C14_season_type : forall y s, Sun_get_equinox_solstice Rops (VFloat y) (VStr s) = VErr TypeError.
Proof. exact season_type_float. Qed.

(* mean instants: ordered and 88..95 days apart, same season 365.2..365.3 days apart
   (including 999 -> 1000 across the two tables), tables agree to 0.01 d at year 1000 *)
Theorem C14_season_order : forall y, (-1000 <= y <= 3000)%Z ->
  88 <= jde0 1 y - jde0 0 y <= 95 /\ 88 <= jde0 2 y - jde0 1 y <= 95 /\ 88 <= jde0 3 y - jde0 2 y <= 95.
Proof. exact season_order. Qed.

Theorem C14_season_year_length : forall k y, (0 <= k <= 3)%Z -> (-1000 <= y < 3000)%Z ->
  3652/10 <= jde0 k (y + 1) - jde0 k y <= 3653/10.
Proof. exact season_year_length. Qed.

Theorem C14_season_joint : forall k, (0 <= k <= 3)%Z -> Rabs (jdeB k (-1) - jdeA k 1) <= 1/100.
Proof. exact joint_continuity. Qed.

(* sunrise equation *)
Theorem C14_sunrise_identity : forall h0 phi delta w0,
  cos phi * cos delta <> 0 -> cos w0 = cos_w0 h0 phi delta ->
  sin_alt phi delta w0 = sin h0 /\ sin_alt phi delta (- w0) = sin h0.
Proof. exact sunrise_identity. Qed.

(* Epoch.rise_set, generated text: closed form.  With (y, mo, d) = get_date, j0 = Epoch(y, mo, d),
   ls = leap_seconds(y, mo), m and lam the two float % 360 values, the call returns the Epochs
   jt -+ w/360 where w = degrees(acos c) and c = rs_cosom h phi sd is the sunrise-equation quotient
   with h0 = -0.83 - 2.076 sqrt(h)/60 degrees and sd = sin(lam) sin(23.44 deg). *)
Theorem C14_rise_set_closed_form : forall j phi lo h y mo d j0 ls m lam,
  -360 < phi < 360 -> - (6655 / 100) <= phi <= 6655 / 100 -> 0 <= h ->
  Epoch_get_date Rops (epo j) (VDict []) = VTuple [VInt y; VInt mo; VFloat d] ->
  Epoch___init__ Rops (VObj cEpoch [VNone]) (VTuple [VInt y; VInt mo; VFloat d]) (VDict []) = epo j0 ->
  Epoch_leap_seconds Rops (VInt y) (VInt mo) = VFloat ls ->
  let js := rs_jstar j0 ls lo in
  fmod_py Rops (rs_Marg js) 360 = VFloat m ->
  let mr := m * (PI / 180) in
  fmod_py Rops (rs_Larg m mr) 360 = VFloat lam ->
  let lr := lam * (PI / 180) in
  let sd := rs_sind lr in
  let c := rs_cosom h phi sd in
  let jt := rs_jtran js mr lr in
  let om := acos c * (180 / PI) in
  -1 <= sd <= 1 -> 0 < cos (phi * (PI / 180)) * cos (asin sd) -> -1 <= c <= 1 ->
  Epoch___init__ Rops (VObj cEpoch [VNone]) (VTuple [VFloat (jt - om / (3600/10))]) (VDict []) = epo (jt - om / (3600/10)) ->
  Epoch___init__ Rops (VObj cEpoch [VNone]) (VTuple [VFloat (jt + om / (3600/10))]) (VDict []) = epo (jt + om / (3600/10)) ->
  Epoch_rise_set Rops (epo j) (ang phi) (ang lo) (VFloat h)
  = VTuple [epo (jt - om / (3600/10)); epo (jt + om / (3600/10))].
Proof. exact rise_set_closed_form. Qed.

(* at hour angle +-w0 the altitude formula gives the standard altitude, for the code's own declination *)
Theorem C14_rise_set_altitude : forall h phi sd,
  -1 <= sd <= 1 -> cos (phi * (PI / 180)) * cos (asin sd) <> 0 -> -1 <= rs_cosom h phi sd <= 1 ->
  let w0 := acos (rs_cosom h phi sd) in
  sin_alt (phi * (PI / 180)) (asin sd) w0 = sin (rs_h0 h * (PI / 180)) /\
  sin_alt (phi * (PI / 180)) (asin sd) (- w0) = sin (rs_h0 h * (PI / 180)).
Proof. exact rise_set_altitude. Qed.

Theorem C14_rise_set_order : forall c jt, -1 <= c < 1 ->
  let om := acos c * (180 / PI) in jt - om / (3600/10) < jt < jt + om / (3600/10).
Proof. exact rise_set_order. Qed.

(* beyond the limit Angle(66, 33, 0) = 66.55 degrees *)
Theorem C14_rise_set_polar : forall j phi lo h, -360 < phi < 360 -> (6655 / 100 < phi \/ phi < - (6655 / 100)) ->
  Epoch_rise_set Rops (epo j) (ang phi) (ang lo) (VFloat h) = VErr ValueError.
Proof. exact rise_set_polar. Qed.

(* times_rise_transit_set: three None when |cos H0| > 1 ... *)
Theorem C14_trts_none : forall lon phi a1 d1 a2 d2 a3 d3 h0 dt th0,
  cos (phi * (PI / 180)) * cos (d2 * (PI / 180)) <> 0 ->
  1 < Rabs (trts_cosH0 h0 phi d2) ->
  f_times_rise_transit_set Rops (ang lon) (ang phi) (ang a1) (ang d1) (ang a2) (ang d2) (ang a3) (ang d3)
    (ang h0) (VFloat dt) (ang th0) = VTuple [VNone; VNone; VNone].
Proof. exact trts_none. Qed.

(* ... and when |cos H0| <= 1 the guard is passed: the next statement, Angle(acos(cos H0), radians=True),
   is reached (a failure x of it is the result of the call) *)
Theorem C14_trts_passes_guard : forall lon phi a1 d1 a2 d2 a3 d3 h0 dt th0 x,
  cos (phi * (PI / 180)) * cos (d2 * (PI / 180)) <> 0 ->
  Rabs (trts_cosH0 h0 phi d2) <= 1 ->
  Angle___init__ Rops (VObj cAngle [VNone; VNone]) (VTuple [VFloat (acos (trts_cosH0 h0 phi d2))])
     (VDict [kw "radians" (VBool true)]) = VErr x ->
  f_times_rise_transit_set Rops (ang lon) (ang phi) (ang a1) (ang d1) (ang a2) (ang d2) (ang a3) (ang d3)
    (ang h0) (VFloat dt) (ang th0) = VErr x.
Proof. exact trts_passes_guard. Qed.

(* no hour angle reaches h0 when |cos H0| > 1 *)
Theorem C14_never_crosses : forall h0 phi delta H,
  0 < cos phi * cos delta -> 1 < Rabs (cos_w0 h0 phi delta) -> sin_alt phi delta H <> sin h0.
Proof. exact never_crosses. Qed.

Redirect "C14_jde2000.assumptions" Print Assumptions C14_jde2000.
Redirect "C14_eot_closed_form.assumptions" Print Assumptions C14_eot_closed_form.
Redirect "C14_eot_reduced.assumptions" Print Assumptions C14_eot_reduced.
Redirect "C14_eot_bound.assumptions" Print Assumptions C14_eot_bound.
Redirect "C14_eot_seconds.assumptions" Print Assumptions C14_eot_seconds.
Redirect "C14_eot_recompose.assumptions" Print Assumptions C14_eot_recompose.
Redirect "C14_season_first_query.assumptions" Print Assumptions C14_season_first_query.
Redirect "C14_season_loop_invariant.assumptions" Print Assumptions C14_season_loop_invariant.
Redirect "C14_season_year_range.assumptions" Print Assumptions C14_season_year_range.
Redirect "C14_season_type.assumptions" Print Assumptions C14_season_type.
Redirect "C14_season_exit_step.assumptions" Print Assumptions C14_season_exit_step.
Redirect "C14_season_order.assumptions" Print Assumptions C14_season_order.
Redirect "C14_season_year_length.assumptions" Print Assumptions C14_season_year_length.
Redirect "C14_season_joint.assumptions" Print Assumptions C14_season_joint.
Redirect "C14_sunrise_identity.assumptions" Print Assumptions C14_sunrise_identity.
Redirect "C14_rise_set_closed_form.assumptions" Print Assumptions C14_rise_set_closed_form.
Redirect "C14_rise_set_altitude.assumptions" Print Assumptions C14_rise_set_altitude.
Redirect "C14_rise_set_order.assumptions" Print Assumptions C14_rise_set_order.
Redirect "C14_rise_set_polar.assumptions" Print Assumptions C14_rise_set_polar.
Redirect "C14_trts_none.assumptions" Print Assumptions C14_trts_none.
Redirect "C14_trts_passes_guard.assumptions" Print Assumptions C14_trts_passes_guard.
Redirect "C14_never_crosses.assumptions" Print Assumptions C14_never_crosses.
