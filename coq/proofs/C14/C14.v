(* Property C14 — seasons, equation of time and sunrise/sunset agree with the solar position.
   Statements only; proofs are in C14_eot.v, C14_season*.v, C14_poly.v, C14_rise.v.  The model
   (Sun_equation_of_time, Sun_get_equinox_solstice: real-arithmetic instance of the text
   regenerated from /repo) is read with the VSOP Sun position, obliquity, nutation, the
   ecliptical->equatorial conversion and the Angle/Epoch constructors as abstract callees whose
   values are the hypotheses of each theorem. *)
From Coq Require Import Reals ZArith List Bool String.
From PyLib Require Import PyVal PyBuiltins Ideal.
From Gen Require Import M_base M_Angle M_Epoch M_Interpolation M_Coordinates M_Earth M_Sun.
From Proofs.C14 Require C14_witness.
From Proofs.C14 Require Import C14_tac C14_angle C14_angle2 C14_jde C14_eot C14_season C14_season_all C14_poly C14_rise C14_riseset C14_trts C14_trig C14_sunapp.
Import ListNotations.
Open Scope R_scope.

(* the module constant JDE2000 *)
Theorem C14_jde2000 : g_JDE2000 Rops = epo 2451545.
Proof. exact JDE2000_val. Qed.

(* equation of time: E = 4 * red360 (L0 - 0.0057183 - alpha + dpsi cos eps) minutes, returned as
   (trunc E, (|E| mod 1) * 60) *)
Theorem C14_eot_closed_form : forall jde lon lat r eps alpha dec dpsi l0,
  -360 < l0 < 360 -> -360 < alpha < 360 ->
  Angle___init__ Rops (VObj cAngle [VNone; VNone]) (VTuple [VFloat (L0poly ((jde - 2451545) / 365250))]) (VDict []) = ang l0 ->
  Sun_apparent_geocentric_position Rops (epo jde) (VBool true) = VTuple [ang lon; ang lat; VFloat r] ->
  f_true_obliquity Rops (VTuple [epo jde]) (VDict []) = ang eps ->
  f_ecliptical2equatorial Rops (ang lon) (ang lat) (ang eps) = VTuple [ang alpha; ang dec] ->
  f_nutation_longitude Rops (VTuple [epo jde]) (VDict []) = ang dpsi ->
  let E := red360 (eot_arg l0 alpha dpsi eps) * 4 in
  Sun_equation_of_time Rops (epo jde) = VTuple [VInt (Rtrunc E); VFloat (Rfmod (Rabs E) 1 * 60)].
Proof. exact eot_closed_form_J2000. Qed.

(* red360 x = x - 360 * Rround (x / 360) (by definition) is THE representative of x modulo 360
   inside (-180, 180): if x - 360 k lies strictly inside, the code's reduction returns exactly it *)
Theorem C14_eot_reduced : forall x (k : Z), Rabs (x - 360 * IZR k) < 180 -> red360 x = x - 360 * IZR k.
Proof. exact red360_unique. Qed.

(* structural bound only (the property's 25 / 17.5 min are searched, not proved) *)
Theorem C14_eot_bound : forall x, Rabs (red360 x * 4) <= 720.
Proof. exact eot_minutes_bound. Qed.

Theorem C14_eot_seconds : forall E, 0 <= Rfmod (Rabs E) 1 * 60 < 60.
Proof. exact eot_seconds_range. Qed.

Theorem C14_eot_recompose : forall E, IZR (Z.abs (Rtrunc E)) + Rfmod (Rabs E) 1 * 60 / 60 = Rabs E.
Proof. exact eot_recompose. Qed.

(* seasons: structure of the generated function.  For every season k and year y the call is a
   loop function F (the generated `while` with fuel) started with corr = 1.0 at Epoch(jde0 k y),
   jde0 the Meeus polynomial of the season and year table; F is pinned down on every state it can
   reach: no fuel -> OutOfFuel; |corr| <= 2.5e-6 -> Epoch(epoch - corr); otherwise, with the Sun at
   longitude l, one more round with corr = 58 sin(k*90 - l+) and epoch advanced by corr (the last
   conjunct relates F (S n) to F n, so F is not an arbitrary function).  CtorExact D: the Epoch
   constructor is exact on the set D of instants (attained e.g. at dyadic JDEs, C14_callee_shapes). *)
Theorem C14_season_structure : forall (D : R -> Prop) k y,
  (0 <= k <= 3)%Z -> (-1000 <= y <= 3000)%Z -> CtorExact D -> D (jde0 k y) -> SeasonStructure D k y.
Proof. exact season_structure_all. Qed.

(* the loop invariant, by induction on the fuel of the generated loop.  D: any set of instants on
   which the Epoch constructor is exact and the Sun position is (lam, bet, rad), closed under the
   correction step e -> e + 58 sin(k*90 - lam+(e)) and containing jde0.  PARTIAL CORRECTNESS: termination
   is not proved (the OutOfFuel disjunct), the premises SunModel / StepClosed are not shown attainable
   (that needs the VSOP series), and sin = 0 also at the antipode (excluded only by the search).
   Whenever the model returns
   anything but OutOfFuel it returns an Epoch t in D with |58 sin(k*90 - lam+(t))| <= 2.5e-6,
   lam+ = the longitude brought to [0, 360). *)
Theorem C14_season_loop_invariant : forall (D : R -> Prop) k y lam bet rad,
  (0 <= k <= 3)%Z -> (-1000 <= y <= 3000)%Z -> SunModel D lam bet rad -> StepClosed D k lam ->
  D (jde0 k y) ->
  SeasonGood D k lam (Sun_get_equinox_solstice Rops (VInt y) (VStr (season_name k))).
Proof. exact season_loop_invariant. Qed.

(* THE SEASON CLAUSE, with the Sun-position premise discharged by property C08's theorem
   C08_app.sun_apparent_unconditional (imported; years -2000..6000).  For every season and every int
   year -1000..3000: unless the generated loop runs out of its fuel (termination is NOT proved), the
   call returns an Epoch t, and what Sun.apparent_geocentric_position itself returns at t is a triple
   whose longitude lon in [0,360) is within 2.5e-6 degree (the property asks 1e-5) of k*90 degrees
   plus a multiple of 180 degrees: the target longitude or its antipode (the antipode is excluded
   only by the search).  Remaining premise: the Epoch constructor is exact (Epoch(float j) has JDE j)
   on the instants within 290058 days of the mean instant, the most 5000 rounds of 58 days can drift. *)
Theorem C14_season_longitude : forall k y,
  (0 <= k <= 3)%Z -> (-1000 <= y <= 3000)%Z -> CtorExact (Dreg (jde0 k y)) ->
  let v := Sun_get_equinox_solstice Rops (VInt y) (VStr (season_name k)) in
  v = VErr OutOfFuel \/
  exists t lon lat r (m : Z),
    v = epo t /\
    Sun_apparent_geocentric_position Rops (epo t) (VBool true) = VTuple [ang lon; ang lat; VFloat r] /\
    0 <= lon < 360 /\
    Rabs (lon - (IZR k * 90 + 180 * IZR m)) < 25 / 10000000.
Proof. exact season_longitude. Qed.

(* the two cases spelled out: within 2.5e-6 degree of the target longitude k*90 or of its antipode
   k*90 + 180, modulo whole turns *)
Theorem C14_season_target_or_antipode : forall k y,
  (0 <= k <= 3)%Z -> (-1000 <= y <= 3000)%Z -> CtorExact (Dreg (jde0 k y)) ->
  let v := Sun_get_equinox_solstice Rops (VInt y) (VStr (season_name k)) in
  v = VErr OutOfFuel \/
  exists t lon lat r (n : Z),
    v = epo t /\
    Sun_apparent_geocentric_position Rops (epo t) (VBool true) = VTuple [ang lon; ang lat; VFloat r] /\
    0 <= lon < 360 /\
    (Rabs (lon - (IZR k * 90 + 360 * IZR n)) < 25 / 10000000 \/
     Rabs (lon - (IZR k * 90 + 180 + 360 * IZR n)) < 25 / 10000000).
Proof. exact season_target_or_antipode. Qed.

(* the same in the loop's own terms: result within the reachable region, |58 sin(k*90 - lon)| <= 2.5e-6 *)
Theorem C14_season_result : forall k y,
  (0 <= k <= 3)%Z -> (-1000 <= y <= 3000)%Z -> CtorExact (Dreg (jde0 k y)) ->
  SeasonResult k y (Sun_get_equinox_solstice Rops (VInt y) (VStr (season_name k))).
Proof. exact season_result. Qed.

Theorem C14_season_year_range : forall k y, (0 <= k <= 3)%Z -> (y < -1000 \/ 3000 < y)%Z ->
  Sun_get_equinox_solstice Rops (VInt y) (VStr (season_name k)) = VErr ValueError.
Proof. exact season_year_range. Qed.

Theorem C14_season_type : forall y s, Sun_get_equinox_solstice Rops (VFloat y) (VStr s) = VErr TypeError.
Proof. exact season_type_float. Qed.

(* [about the mean instants jde0 the iteration starts from (tied to the code by C14_season_structure),
   NOT about the returned instants, whose distance from jde0 is only searched]
   mean instants: ordered and 88..95 days apart, same season 365.2..365.3 days apart
   (including 999 -> 1000 across the two tables), tables agree to 0.01 d at year 1000 *)
Theorem C14_season_order : forall y, (-1000 <= y <= 3000)%Z ->
  88 <= jde0 1 y - jde0 0 y <= 95 /\ 88 <= jde0 2 y - jde0 1 y <= 95 /\ 88 <= jde0 3 y - jde0 2 y <= 95.
Proof. exact season_order. Qed.

Theorem C14_season_year_length : forall k y, (0 <= k <= 3)%Z -> (-1000 <= y < 3000)%Z ->
  3652/10 <= jde0 k (y + 1) - jde0 k y <= 3653/10.
Proof. exact season_year_length. Qed.

Theorem C14_season_joint : forall k, (0 <= k <= 3)%Z -> Rabs (jdeB k (-1) - jdeA k 1) <= 1/100.
Proof. exact joint_continuity. Qed.

(* sunrise equation: pure trigonometry [spec]; tied to the generated rise_set by
   C14_rise_set_closed_form + C14_rise_set_altitude and to times_rise_transit_set by C14_trts_none *)
Theorem C14_sunrise_identity : forall h0 phi delta w0,
  cos phi * cos delta <> 0 -> cos w0 = cos_w0 h0 phi delta ->
  sin_alt phi delta w0 = sin h0 /\ sin_alt phi delta (- w0) = sin h0.
Proof. exact sunrise_identity. Qed.

(* Epoch.rise_set, generated text: closed form.  With (y, mo, d) = get_date, j0 = Epoch(y, mo, d),
   ls = leap_seconds(y, mo) (an int), the two float % 360 evaluated (pymod), the call returns the two
   Epochs constructed from the floats jt -+ w/360 where w = degrees(acos c) and c = rs_cosom h phi sd is
   the sunrise-equation quotient with h0 = -0.83 - 2.076 sqrt(h)/60 degrees, sd = sin(lam) sin(23.44 deg).
   The callee hypotheses have the shapes the model returns (C14_callee_shapes). *)
Theorem C14_rise_set_closed_form : forall j phi lo h y mo d j0 ls,
  -360 < phi < 360 -> - (6655 / 100) <= phi <= 6655 / 100 -> 0 <= h ->
  Epoch_get_date Rops (epo j) (VDict []) = VTuple [VInt y; VInt mo; VFloat d] ->
  Epoch___init__ Rops (VObj cEpoch [VNone]) (VTuple [VInt y; VInt mo; VFloat d]) (VDict []) = epo j0 ->
  Epoch_leap_seconds Rops (VInt y) (VInt mo) = VInt ls ->
  let js := rs_jstar j0 ls lo in
  let m := pymod (rs_Marg js) 360 in
  let mr := m * (PI / 180) in
  let lam := pymod (rs_Larg m mr) 360 in
  let lr := lam * (PI / 180) in
  let sd := rs_sind lr in
  let c := rs_cosom h phi sd in
  let jt := rs_jtran js mr lr in
  let om := acos c * (180 / PI) in
  0 < cos (phi * (PI / 180)) * cos (asin sd) -> -1 <= c <= 1 ->
  forall r1 r2,
  Epoch___init__ Rops (VObj cEpoch [VNone]) (VTuple [VFloat (jt - om / (3600/10))]) (VDict []) = epo r1 ->
  Epoch___init__ Rops (VObj cEpoch [VNone]) (VTuple [VFloat (jt + om / (3600/10))]) (VDict []) = epo r2 ->
  Epoch_rise_set Rops (epo j) (ang phi) (ang lo) (VFloat h) = VTuple [epo r1; epo r2].
Proof. exact rise_set_closed_form. Qed.

(* shapes of the abstracted callees, attained by the model (binary64 instance of the same text) *)
Theorem C14_callee_shapes : C14_witness.callee_shapes.
Proof. exact C14_witness.callee_shapes_hold. Qed.

(* at hour angle +-w0 the altitude formula gives the standard altitude, for the code's own declination *)
Theorem C14_rise_set_altitude : forall h phi sd,
  -1 <= sd <= 1 -> cos (phi * (PI / 180)) * cos (asin sd) <> 0 -> -1 <= rs_cosom h phi sd <= 1 ->
  let w0 := acos (rs_cosom h phi sd) in
  sin_alt (phi * (PI / 180)) (asin sd) w0 = sin (rs_h0 h * (PI / 180)) /\
  sin_alt (phi * (PI / 180)) (asin sd) (- w0) = sin (rs_h0 h * (PI / 180)).
Proof. exact rise_set_altitude. Qed.

Theorem C14_rise_set_order : forall c jt, -1 <= c < 1 ->
  let om := acos c * (180 / PI) in jt - om / (3600/10) < jt < jt + om / (3600/10).
Proof. exact rise_set_order. Qed.

(* beyond the limit Angle(66, 33, 0) = 66.55 degrees *)
Theorem C14_rise_set_polar : forall j phi lo h, -360 < phi < 360 -> (6655 / 100 < phi \/ phi < - (6655 / 100)) ->
  Epoch_rise_set Rops (epo j) (ang phi) (ang lo) (VFloat h) = VErr ValueError.
Proof. exact rise_set_polar. Qed.

(* times_rise_transit_set: three None when |cos H0| > 1 (the converse is only searched) *)
Theorem C14_trts_none : forall lon phi a1 d1 a2 d2 a3 d3 h0 dt th0,
  cos (phi * (PI / 180)) * cos (d2 * (PI / 180)) <> 0 ->
  1 < Rabs (trts_cosH0 h0 phi d2) ->
  f_times_rise_transit_set Rops (ang lon) (ang phi) (ang a1) (ang d1) (ang a2) (ang d2) (ang a3) (ang d3)
    (ang h0) (VFloat dt) (ang th0) = VTuple [VNone; VNone; VNone].
Proof. exact trts_none. Qed.

(* no hour angle reaches h0 when |cos H0| > 1 *)
Theorem C14_never_crosses : forall h0 phi delta H,
  0 < cos phi * cos delta -> 1 < Rabs (cos_w0 h0 phi delta) -> sin_alt phi delta H <> sin h0.
Proof. exact never_crosses. Qed.

Redirect "C14_jde2000.assumptions" Print Assumptions C14_jde2000.
Redirect "C14_eot_closed_form.assumptions" Print Assumptions C14_eot_closed_form.
Redirect "C14_eot_reduced.assumptions" Print Assumptions C14_eot_reduced.
Redirect "C14_eot_bound.assumptions" Print Assumptions C14_eot_bound.
Redirect "C14_eot_seconds.assumptions" Print Assumptions C14_eot_seconds.
Redirect "C14_eot_recompose.assumptions" Print Assumptions C14_eot_recompose.
Redirect "C14_season_loop_invariant.assumptions" Print Assumptions C14_season_loop_invariant.
Redirect "C14_season_year_range.assumptions" Print Assumptions C14_season_year_range.
Redirect "C14_season_type.assumptions" Print Assumptions C14_season_type.
Redirect "C14_season_order.assumptions" Print Assumptions C14_season_order.
Redirect "C14_season_year_length.assumptions" Print Assumptions C14_season_year_length.
Redirect "C14_season_joint.assumptions" Print Assumptions C14_season_joint.
Redirect "C14_sunrise_identity.assumptions" Print Assumptions C14_sunrise_identity.
Redirect "C14_rise_set_closed_form.assumptions" Print Assumptions C14_rise_set_closed_form.
Redirect "C14_rise_set_altitude.assumptions" Print Assumptions C14_rise_set_altitude.
Redirect "C14_rise_set_order.assumptions" Print Assumptions C14_rise_set_order.
Redirect "C14_rise_set_polar.assumptions" Print Assumptions C14_rise_set_polar.
Redirect "C14_trts_none.assumptions" Print Assumptions C14_trts_none.
Redirect "C14_never_crosses.assumptions" Print Assumptions C14_never_crosses.
Redirect "C14_season_structure.assumptions" Print Assumptions C14_season_structure.
Redirect "C14_callee_shapes.assumptions" Print Assumptions C14_callee_shapes.
Redirect "C14_season_longitude.assumptions" Print Assumptions C14_season_longitude.
Redirect "C14_season_result.assumptions" Print Assumptions C14_season_result.
Redirect "C14_season_target_or_antipode.assumptions" Print Assumptions C14_season_target_or_antipode.
