(* Property C14 — seasons, equation of time and sunrise/sunset agree with the solar position.
   Statements only; proofs are in C14_eot.v, C14_season*.v, C14_poly.v, C14_rise.v.  The model
   (Sun_equation_of_time, Sun_get_equinox_solstice: real-arithmetic instance of the text
   regenerated from /repo) is read with the VSOP Sun position, obliquity, nutation, the
   ecliptical->equatorial conversion and the Angle/Epoch constructors as abstract callees whose
   values are the hypotheses of each theorem. *)
From Coq Require Import Reals ZArith List Bool String.
From PyLib Require Import PyVal PyBuiltins Ideal.
From Gen Require Import M_base M_Angle M_Epoch M_Interpolation M_Coordinates M_Earth M_Sun.
From Proofs.C14 Require Import C14_tac C14_angle C14_angle2 C14_jde C14_eot C14_season C14_season_all C14_poly C14_rise.
Import ListNotations.
Open Scope R_scope.

(* the module constant JDE2000 *)
Theorem C14_jde2000 : g_JDE2000 Rops = epo 2451545.
Proof. exact JDE2000_val. Qed.

(* equation of time: E = 4 * red360 (L0 - 0.0057183 - alpha + dpsi cos eps) minutes, returned as
   (trunc E, (|E| mod 1) * 60) *)
Theorem C14_eot_closed_form : forall jde lon lat r eps alpha dec dpsi l0,
  -360 < l0 < 360 -> -360 < alpha < 360 ->
  Angle___init__ Rops (VObj cAngle [VNone; VNone]) (VTuple [VFloat (L0poly ((jde - 2451545) / 365250))]) (VDict []) = ang l0 ->
  Sun_apparent_geocentric_position Rops (epo jde) (VBool true) = VTuple [ang lon; ang lat; VFloat r] ->
  f_true_obliquity Rops (VTuple [epo jde]) (VDict []) = ang eps ->
  f_ecliptical2equatorial Rops (ang lon) (ang lat) (ang eps) = VTuple [ang alpha; ang dec] ->
  f_nutation_longitude Rops (VTuple [epo jde]) (VDict []) = ang dpsi ->
  let E := red360 (eot_arg l0 alpha dpsi eps) * 4 in
  Sun_equation_of_time Rops (epo jde) = VTuple [VInt (Rtrunc E); VFloat (Rfmod (Rabs E) 1 * 60)].
Proof. exact eot_closed_form_J2000. Qed.

Theorem C14_eot_reduced : forall x, exists k : Z, red360 x = x - 360 * IZR k.
Proof. exact red360_congr. Qed.

Theorem C14_eot_bound : forall x, Rabs (red360 x * 4) <= 720.
Proof. exact eot_minutes_bound. Qed.

Theorem C14_eot_seconds : forall E, 0 <= Rfmod (Rabs E) 1 * 60 < 60.
Proof. exact eot_seconds_range. Qed.

Theorem C14_eot_recompose : forall E, IZR (Z.abs (Rtrunc E)) + Rfmod (Rabs E) 1 * 60 / 60 = Rabs E.
Proof. exact eot_recompose. Qed.

(* seasons: the iteration starts at Epoch(jde0 k y), jde0 the Meeus polynomial of the season and
   year range: a failure of the Sun position there is the result of the call *)
Theorem C14_season_first_query : forall (D : R -> Prop) k y x,
  (0 <= k <= 3)%Z -> (-1000 <= y <= 3000)%Z -> CtorExact D -> D (jde0 k y) ->
  Sun_apparent_geocentric_position Rops (epo (jde0 k y)) (VBool true) = VErr x ->
  Sun_get_equinox_solstice Rops (VInt y) (VStr (season_name k)) = VErr x.
Proof. exact season_first_query. Qed.

(* the call is a loop started at (corr = 1.0, Epoch(jde0)); with no fuel it is OutOfFuel, and
   when |corr| <= 2.5e-6 the loop returns Epoch(epoch - corr) *)
Theorem C14_season_exit_step : forall (D : R -> Prop) k y,
  (0 <= k <= 3)%Z -> (-1000 <= y <= 3000)%Z -> CtorExact D -> D (jde0 k y) ->
  exists F : nat -> val R -> val R -> val R -> val R -> val R -> val R -> val R, Sun_get_equinox_solstice Rops (VInt y) (VStr (season_name k))
      = F loop_fuel (VErr UnboundLocalError) (VFloat 1) (epo (jde0 k y))
          (VErr UnboundLocalError) (VErr UnboundLocalError) (VErr UnboundLocalError) /\
    (forall a c e la lo r, F 0%nat a (VFloat c) (epo e) la lo r = VErr OutOfFuel) /\
    forall n a c e la lo r, Rabs c <= 25 / 10000000 -> D (e - c) ->
       F (S n) a (VFloat c) (epo e) la lo r = epo (e - c).
Proof. exact season_exit_step. Qed.

(* the loop invariant, by induction on the fuel of the generated loop.  D: any set of instants on
   which the Epoch constructor is exact and the Sun position is (lam, bet, rad), closed under the
   correction step e -> e + 58 sin(k*90 - lam+(e)) and containing jde0.  Whenever the model returns
   anything but OutOfFuel it returns an Epoch t in D with |58 sin(k*90 - lam+(t))| <= 2.5e-6,
   lam+ = the longitude brought to [0, 360). *)
Theorem C14_season_loop_invariant : forall (D : R -> Prop) k y lam bet rad,
  (0 <= k <= 3)%Z -> (-1000 <= y <= 3000)%Z -> SunModel D lam bet rad -> StepClosed D k lam ->
  D (jde0 k y) ->
  SeasonGood D k lam (Sun_get_equinox_solstice Rops (VInt y) (VStr (season_name k))).
Proof. exact season_loop_invariant. Qed.

Theorem C14_season_year_range : forall y,
  ((y < -1000)%Z -> Sun_get_equinox_solstice Rops (VInt y) (VStr "spring") = VErr ValueError) /\
  ((3000 < y)%Z -> Sun_get_equinox_solstice Rops (VInt y) (VStr "winter") = VErr ValueError).
Proof. intro y. split; [apply season_range_lo | apply season_range_hi]. Qed.

Theorem C14_season_type : forall y s, Sun_get_equinox_solstice Rops (VFloat y) (VStr s) = VErr TypeError.
Proof. exact season_type_float. Qed.

(* mean instants: ordered and 88..95 days apart, same season 365.2..365.3 days apart
   (including 999 -> 1000 across the two tables), tables agree to 0.01 d at year 1000 *)
Theorem C14_season_order : forall y, (-1000 <= y <= 3000)%Z ->
  88 <= jde0 1 y - jde0 0 y <= 95 /\ 88 <= jde0 2 y - jde0 1 y <= 95 /\ 88 <= jde0 3 y - jde0 2 y <= 95.
Proof. exact season_order. Qed.

Theorem C14_season_year_length : forall k y, (0 <= k <= 3)%Z -> (-1000 <= y < 3000)%Z ->
  3652/10 <= jde0 k (y + 1) - jde0 k y <= 3653/10.
Proof. exact season_year_length. Qed.

Theorem C14_season_joint : forall k, (0 <= k <= 3)%Z -> Rabs (jdeB k (-1) - jdeA k 1) <= 1/100.
Proof. exact joint_continuity. Qed.

(* sunrise equation *)
Theorem C14_sunrise_identity : forall h0 phi delta w0,
  cos phi * cos delta <> 0 -> cos w0 = cos_w0 h0 phi delta ->
  sin_alt phi delta w0 = sin h0 /\ sin_alt phi delta (- w0) = sin h0.
Proof. exact sunrise_identity. Qed.

Redirect "C14_jde2000.assumptions" Print Assumptions C14_jde2000.
Redirect "C14_eot_closed_form.assumptions" Print Assumptions C14_eot_closed_form.
Redirect "C14_eot_reduced.assumptions" Print Assumptions C14_eot_reduced.
Redirect "C14_eot_bound.assumptions" Print Assumptions C14_eot_bound.
Redirect "C14_eot_seconds.assumptions" Print Assumptions C14_eot_seconds.
Redirect "C14_eot_recompose.assumptions" Print Assumptions C14_eot_recompose.
Redirect "C14_season_first_query.assumptions" Print Assumptions C14_season_first_query.
Redirect "C14_season_loop_invariant.assumptions" Print Assumptions C14_season_loop_invariant.
Redirect "C14_season_year_range.assumptions" Print Assumptions C14_season_year_range.
Redirect "C14_season_type.assumptions" Print Assumptions C14_season_type.
Redirect "C14_season_exit_step.assumptions" Print Assumptions C14_season_exit_step.
Redirect "C14_season_order.assumptions" Print Assumptions C14_season_order.
Redirect "C14_season_year_length.assumptions" Print Assumptions C14_season_year_length.
Redirect "C14_season_joint.assumptions" Print Assumptions C14_season_joint.
Redirect "C14_sunrise_identity.assumptions" Print Assumptions C14_sunrise_identity.
