(* C14_riseset: the generated Epoch.rise_set (ideal instance) with get_date, the Epoch constructor,
   leap_seconds and the two float % 360 reductions abstracted: closed form of cos w0 and of the two
   returned instants; ValueError beyond the limit Angle(66, 33, 0). *)
From Coq Require Import Reals ZArith List Bool Lra Lia String.
From PyLib Require Import PyVal PyBuiltins Ideal Whnf PyEval.
From Gen Require Import M_base M_Angle M_Epoch.
From Proofs.C14 Require Import C14_tac C14_angle C14_angle2 C14_rise.
Import ListNotations.
Open Scope R_scope.

Ltac2 Set Whnf.is_blocked as old := fun c =>
  Ltac2.Bool.or (old c)
   (Ltac2.List.exist (Ltac2.Constr.equal c)
     ['@Epoch_get_date; '@Epoch___init__; '@Epoch_leap_seconds; '@fmod_py; '@Angle___init__]).

Ltac rise_hook s :=
  lazymatch s with
  | Angle___init__ Rops _ (VTuple [VInt 66; VInt 33; VInt 0]) _ =>
      let Hp := fresh "Hp" in pose proof angle_limit as Hp; unfold ang, tol0 in Hp; rewrite Hp; clear Hp
  | Angle___init__ Rops _ (VTuple [VFloat ?a]) _ =>
      let Hp := fresh "Hp" in
      pose proof (angle_new_small a ltac:(expose_R; zsimp; Rlit_norm; lra)) as Hp; unfold ang, tol0 in Hp; rewrite Hp; clear Hp
  end.
Ltac py_stuck_hook s ::= rise_hook s.

Lemma rise_set_polar j phi lo h : -360 < phi < 360 -> (6655 / 100 < phi \/ phi < - (6655 / 100)) ->
  Epoch_rise_set Rops (epo j) (ang phi) (ang lo) (VFloat h) = VErr ValueError.
Proof.
  intros Hphi [H|H]; unfold epo, ang, tol0; pyrun2; reflexivity.
Qed.

(* the quantities of the sunrise equation as the code computes them (decimal literals as written) *)
Definition rs_jstar (j0 : R) (ls : Z) (lo : R) : R :=
  j0 - 24515450/10 + (100/10 + 32184/1000 + IZR ls) / (864000/10) - lo / (3600/10).
Definition rs_Marg (js : R) : R := 3575291/10000 + 98560028/100000000 * js.
Definition rs_C (mr : R) : R :=
  19148/10000 * sin mr + 2/100 * sin (20/10 * mr) + 3/10000 * sin (30/10 * mr).
Definition rs_Larg (m mr : R) : R := m + rs_C mr + 1800/10 + 1029372/10000.
Definition rs_jtran (js mr lr : R) : R :=
  24515455/10 + js + 53/10000 * sin mr - 69/10000 * sin (20/10 * lr).
Definition rs_sind (lr : R) : R := sin lr * sin (2344/100 * (PI / 180)).
(* standard altitude in degrees: -0.83 - 2.076 sqrt(height) / 60 *)
Definition rs_h0 (h : R) : R := -83/100 - 2076/1000 * sqrt h / (600/10).
Definition rs_cosom (h phi sd : R) : R :=
  (sin (rs_h0 h * (PI / 180)) - sin (phi * (PI / 180)) * sd) / (cos (phi * (PI / 180)) * cos (asin sd)).

Ltac rs_unfold := repeat (progress unfold rs_jstar, rs_Marg, rs_C, rs_Larg, rs_jtran, rs_sind, rs_h0, rs_cosom in *).
Ltac rs_eq := rs_unfold; expose_R; Rlit_norm; first [ reflexivity | lra | field ].

Ltac rise_hook2 s :=
  lazymatch s with
  | fmod_py Rops ?a ?b =>
      change b with 360;
      match goal with
      | Em : pymod ?a' 360 = _ |- _ =>
          replace a with a' by rs_eq; rewrite (fmod_py_pos a' 360) by lra; rewrite Em
      end
  | Epoch___init__ Rops _ (VTuple [VFloat ?p]) _ =>
      match goal with
      | Hc : Epoch___init__ Rops _ (VTuple [VFloat ?q]) _ = _ |- _ =>
          replace p with q by rs_eq; rewrite Hc
      end
  | _ => rise_hook s
  end.

Lemma rise_set_closed_form j phi lo h y mo d j0 ls :
  -360 < phi < 360 -> - (6655 / 100) <= phi <= 6655 / 100 -> 0 <= h ->
  Epoch_get_date Rops (epo j) (VDict []) = VTuple [VInt y; VInt mo; VFloat d] ->
  Epoch___init__ Rops (VObj cEpoch [VNone]) (VTuple [VInt y; VInt mo; VFloat d]) (VDict []) = epo j0 ->
  Epoch_leap_seconds Rops (VInt y) (VInt mo) = VInt ls ->
  let js := rs_jstar j0 ls lo in
  let m := pymod (rs_Marg js) 360 in
  let mr := m * (PI / 180) in
  let lam := pymod (rs_Larg m mr) 360 in
  let lr := lam * (PI / 180) in
  let sd := rs_sind lr in
  let c := rs_cosom h phi sd in
  let jt := rs_jtran js mr lr in
  let om := acos c * (180 / PI) in
  0 < cos (phi * (PI / 180)) * cos (asin sd) -> -1 <= c <= 1 ->
  forall r1 r2,
  Epoch___init__ Rops (VObj cEpoch [VNone]) (VTuple [VFloat (jt - om / (3600/10))]) (VDict []) = epo r1 ->
  Epoch___init__ Rops (VObj cEpoch [VNone]) (VTuple [VFloat (jt + om / (3600/10))]) (VDict []) = epo r2 ->
  Epoch_rise_set Rops (epo j) (ang phi) (ang lo) (VFloat h) = VTuple [epo r1; epo r2].
Proof.
  intros Hphi Hlim Hh Hdate Hctor Hleap js m mr lam lr sd c jt om Hpos Hc r1 r2 Hr Hs.
  assert (Hsd : -1 <= sd <= 1).
  { unfold sd, rs_sind. pose proof (SIN_bound lr) as [A1 A2].
    pose proof (SIN_bound (2344/100 * (PI / 180))) as [B1 B2].
    set (u := sin lr) in *. set (v := sin (2344/100 * (PI / 180))) in *. split; nra. }
  set (Mv := m) in *. set (Lv := lam) in *.
  assert (Em : pymod (rs_Marg js) 360 = Mv) by reflexivity.
  assert (El : pymod (rs_Larg Mv (Mv * (PI / 180))) 360 = Lv) by reflexivity.
  clearbody Mv Lv.
  subst js mr lr sd c jt om. rs_unfold. unfold epo, ang, tol0 in *.
  Ltac py_stuck_hook s ::= rise_hook2 s.
  pyrun2. reflexivity.
Qed.

(* bridge to the sunrise identity (C14_rise): at hour angle +-w0, w0 = acos (cos w0 as computed by
   the code), the altitude formula of equatorial2horizontal gives exactly the standard altitude
   h0 = -0.83 - 2.076 sqrt(height)/60 degrees, for the algorithm's own declination asin(sd). *)
Lemma rise_set_altitude h phi sd :
  -1 <= sd <= 1 -> cos (phi * (PI / 180)) * cos (asin sd) <> 0 -> -1 <= rs_cosom h phi sd <= 1 ->
  let w0 := acos (rs_cosom h phi sd) in
  sin_alt (phi * (PI / 180)) (asin sd) w0 = sin (rs_h0 h * (PI / 180)) /\
  sin_alt (phi * (PI / 180)) (asin sd) (- w0) = sin (rs_h0 h * (PI / 180)).
Proof.
  intros Hsd Hnz Hc w0.
  apply sunrise_identity; [assumption|].
  unfold w0. rewrite cos_acos by assumption. unfold rs_cosom, cos_w0.
  rewrite sin_asin by assumption. reflexivity.
Qed.

(* rise < transit < set: the returned instants are jt -+ w/360 with w = acos(c) in degrees, 0 < w when c < 1 *)
Lemma rise_set_order c jt : -1 <= c < 1 ->
  let om := acos c * (180 / PI) in jt - om / (3600/10) < jt < jt + om / (3600/10).
Proof.
  intros Hc om. assert (0 < acos c).
  { destruct (acos_bound c) as [H0 _]. destruct H0 as [H0|H0]; [assumption|].
    exfalso. assert (cos (acos c) = c) by (apply cos_acos; lra). rewrite <- H0, cos_0 in H. lra. }
  assert (0 < om). { unfold om. apply Rmult_lt_0_compat; [assumption|]. apply Rdiv_lt_0_compat; [lra | apply PI_RGT_0]. }
  split; lra.
Qed.
