(* C14_sunapp: the season iteration with the Sun-position premise DISCHARGED by property C08's
   theorem C08_app.sun_apparent_unconditional (Sun.apparent_geocentric_position returns a triple
   (Angle lon in [0,360), Angle lat, float r) for every JDE within 40 centuries of J2000).
   Remaining premise: the Epoch constructor is exact on the instants within 290058 days of the
   mean instant (58 days x 5000 rounds of fuel is the most the loop can drift). *)
From Coq Require Import Reals ZArith List Bool Lra Lia String.
From Interval Require Import Tactic.
From PyLib Require Import PyVal PyBuiltins Ideal Whnf PyEval.
From Gen Require Import M_base M_Angle M_Epoch M_Interpolation M_Coordinates M_Earth M_Sun.
From Proofs.C08 Require C08_base C08_sun C08_nut_main C08_app.
From Proofs.C14 Require Import C14_tac C14_angle C14_angle2 C14_season C14_season_all C14_trig.
Import ListNotations.
Open Scope R_scope.

(* the Sun's apparent longitude / latitude / radius as the model returns them (0 where the model
   does not return the triple shape or an out-of-range longitude) *)
Definition clamp360 (l : R) : R := if Rlt_dec (-360) l then if Rlt_dec l 360 then l else 0 else 0.
Definition lamS (e : R) : R :=
  match Sun_apparent_geocentric_position Rops (epo e) (VBool true) with
  | VTuple [VObj _ [VFloat l; _]; _; _] => clamp360 l
  | _ => 0
  end.
Definition betS (e : R) : R :=
  match Sun_apparent_geocentric_position Rops (epo e) (VBool true) with
  | VTuple [_; VObj _ [VFloat b; _]; _] => b
  | _ => 0
  end.
Definition radS (e : R) : R :=
  match Sun_apparent_geocentric_position Rops (epo e) (VBool true) with
  | VTuple [_; _; VFloat r] => r
  | _ => 0
  end.

Lemma clamp360_bounds l : -360 < clamp360 l < 360.
Proof. unfold clamp360. destruct (Rlt_dec (-360) l); [destruct (Rlt_dec l 360)|]; lra. Qed.

Lemma lamS_bounds e : -360 < lamS e < 360.
Proof.
  unfold lamS.
  repeat (match goal with |- context [match ?v with _ => _ end] => destruct v end);
    try lra; apply clamp360_bounds.
Qed.

(* years -2000 .. 6000 *)
Definition in_c08_range (e : R) : Prop := Rabs (C08_nut_main.Tc e) <= 40.

Lemma sun_model_c08 e : in_c08_range e ->
  Sun_apparent_geocentric_position Rops (epo e) (VBool true)
    = VTuple [ang (lamS e); ang (betS e); VFloat (radS e)] /\ 0 <= lamS e < 360.
Proof.
  intros He. destruct (C08_app.sun_apparent_unconditional e He) as (L & B & R & _ & Hs & HL & _).
  pose proof (C08_sun.reflect_lon_range L ltac:(lra)) as Hr.
  unfold lamS, betS, radS, epo. rewrite Hs.
  cbv beta iota delta [C08_base.ang]. unfold clamp360.
  destruct (Rlt_dec (-360) (C08_sun.reflect_lon L)); [|lra].
  destruct (Rlt_dec (C08_sun.reflect_lon L) 360); [|lra].
  split; [reflexivity | lra].
Qed.

(* ---- the region the loop can reach lies inside the range of the C08 theorem ---- *)
Definition Dreg (j0 e : R) : Prop := Rabs (e - j0) <= 290058.

Lemma jde0_bounds k y : (0 <= k <= 3)%Z -> (-1000 <= y <= 3000)%Z -> 1355000 <= jde0 k y <= 2820000.
Proof.
  intros Hk Hy. unfold jde0. destruct (y <? 1000)%Z eqn:E.
  - apply Z.ltb_lt in E. assert (-1000 <= IZR y <= 1000) as Hb by (split; apply IZR_le; lia).
    assert (-1 <= IZR y / 1000 <= 1) as HY by lra. set (Y := IZR y / 1000) in *. clearbody Y.
    assert (k = 0 \/ k = 1 \/ k = 2 \/ k = 3)%Z as [-> | [-> | [-> | ->]]] by lia;
      unfold jdeA; split; interval.
  - apply Z.ltb_ge in E. assert (1000 <= IZR y <= 3000) as Hb by (split; apply IZR_le; lia).
    assert (-1 <= (IZR y - 2000) / 1000 <= 1) as HY by lra. set (Y := (IZR y - 2000) / 1000) in *. clearbody Y.
    assert (k = 0 \/ k = 1 \/ k = 2 \/ k = 3)%Z as [-> | [-> | [-> | ->]]] by lia;
      unfold jdeB; split; interval.
Qed.

Lemma region_in_range k y e : (0 <= k <= 3)%Z -> (-1000 <= y <= 3000)%Z ->
  Dreg (jde0 k y) e -> in_c08_range e.
Proof.
  intros Hk Hy He. pose proof (jde0_bounds k y Hk Hy) as Hj. unfold Dreg in He.
  assert (1064942 <= e <= 3110058) as Hb by (unfold Rabs in He; destruct (Rcase_abs _); lra).
  unfold in_c08_range, C08_nut_main.Tc. Rlit_norm. interval.
Qed.

(* ---- the season loop with the Sun position discharged ---- *)
Definition SeasonResult (k y : Z) (v : val R) : Prop :=
  v = VErr OutOfFuel \/
  exists t, v = epo t /\ Dreg (jde0 k y) t /\ Rabs (season_corr k lamS t) <= 25 / 10000000.

Theorem season_result k y :
  (0 <= k <= 3)%Z -> (-1000 <= y <= 3000)%Z -> CtorExact (Dreg (jde0 k y)) ->
  SeasonResult k y (Sun_get_equinox_solstice Rops (VInt y) (VStr (season_name k))).
Proof.
  intros Hk Hy Hctor. set (j0 := jde0 k y).
  assert (HD0 : Dreg j0 j0) by (unfold Dreg; replace (j0 - j0) with 0 by ring; rewrite Rabs_R0; lra).
  destruct (season_structure_all (Dreg j0) k y Hk Hy Hctor HD0) as (F & Hcall & H0 & Hexit & Hstep).
  rewrite Hcall. clear Hcall. fold j0.
  assert (Hloop : forall n a c e la lo r,
            Rabs (e - j0) + 58 * INR n <= 290000 -> Rabs c <= 58 ->
            (25 / 10000000 < Rabs c \/ Rabs (season_corr k lamS (e - c)) <= 25 / 10000000) ->
            SeasonResult k y (F n a (VFloat c) (epo e) la lo r)).
  { induction n as [|n IH]; intros a c e la lo r Hreg Hc Hinv.
    - left. apply H0.
    - rewrite S_INR in Hreg. pose proof (pos_INR n) as Hn.
      destruct (Rlt_dec (25 / 10000000) (Rabs c)) as [Hbig|Hsmall].
      + assert (HDe : Dreg j0 e) by (unfold Dreg; lra).
        destruct (sun_model_c08 e (region_in_range k y e Hk Hy HDe)) as [Hs Hl].
        set (c' := 58 * sin ((IZR k * 90 - pos360 (lamS e)) * (PI / 180))).
        assert (Hc' : Rabs c' <= 58).
        { unfold c'. rewrite Rabs_mult, (Rabs_right 58) by lra.
          pose proof (SIN_bound ((IZR k * 90 - pos360 (lamS e)) * (PI / 180))) as [S1 S2].
          assert (Rabs (sin ((IZR k * 90 - pos360 (lamS e)) * (PI / 180))) <= 1)
            by (unfold Rabs; destruct (Rcase_abs _); lra). lra. }
        assert (Htri : Rabs (e + c' - j0) <= Rabs (e - j0) + Rabs c').
        { replace (e + c' - j0) with ((e - j0) + c') by ring. apply Rabs_triang. }
        assert (HDn : Dreg j0 (e + c')) by (unfold Dreg; lra).
        destruct (Hstep n a c e la lo r (lamS e) (betS e) (radS e) Hbig (lamS_bounds e) Hs HDn)
          as (a' & la' & lo' & r' & Heq).
        rewrite Heq. fold c'. apply IH; [lra | exact Hc' |].
        destruct (Rlt_dec (25 / 10000000) (Rabs c')) as [Hb'|Hs']; [left; exact Hb'|right].
        replace (e + c' - c') with e by ring. unfold season_corr, season_arg. fold c'. lra.
      + destruct Hinv as [Hx|HQ]; [lra|].
        assert (HDec : Dreg j0 (e - c)).
        { unfold Dreg. replace (e - c - j0) with ((e - j0) + - c) by ring.
          eapply Rle_trans; [apply Rabs_triang|]. rewrite Rabs_Ropp. lra. }
        rewrite (Hexit n a c e la lo r ltac:(lra) HDec).
        right. exists (e - c). repeat split; assumption. }
  apply Hloop.
  - replace (j0 - j0) with 0 by ring. rewrite Rabs_R0.
    rewrite INR_IZR_INZ. change (Z.of_nat loop_fuel) with 5000%Z. lra.
  - rewrite Rabs_right; lra.
  - left. rewrite Rabs_right; lra.
Qed.

(* ---- in degrees: at the returned instant the Sun's apparent longitude (the first component of
        what Sun.apparent_geocentric_position returns there) is within 2.5e-6 degree of k*90 degrees
        or of its antipode ---- *)
Theorem season_longitude k y :
  (0 <= k <= 3)%Z -> (-1000 <= y <= 3000)%Z -> CtorExact (Dreg (jde0 k y)) ->
  let v := Sun_get_equinox_solstice Rops (VInt y) (VStr (season_name k)) in
  v = VErr OutOfFuel \/
  exists t lon lat r (m : Z),
    v = epo t /\
    Sun_apparent_geocentric_position Rops (epo t) (VBool true) = VTuple [ang lon; ang lat; VFloat r] /\
    0 <= lon < 360 /\
    Rabs (lon - (IZR k * 90 + 180 * IZR m)) < 25 / 10000000.
Proof.
  intros Hk Hy Hctor v. destruct (season_result k y Hk Hy Hctor) as [Hv|(t & Hv & HD & HQ)].
  - left. exact Hv.
  - right. destruct (sun_model_c08 t (region_in_range k y t Hk Hy HD)) as [Hs Hl].
    unfold season_corr, season_arg in HQ.
    assert (pos360 (lamS t) = lamS t) as Hp by (unfold pos360; destruct (Rlt_dec (lamS t) 0); lra).
    rewrite Hp in HQ. destruct (corr_small_degrees _ HQ) as [m Hm].
    exists t, (lamS t), (betS t), (radS t), (- m)%Z. repeat split; try assumption; try lra.
    rewrite opp_IZR. rewrite <- Rabs_Ropp.
    replace (- (lamS t - (IZR k * 90 + 180 * - IZR m))) with (IZR k * 90 - lamS t - 180 * IZR m) by ring.
    exact Hm.
Qed.

(* the two cases spelled out: target longitude or antipode, modulo whole turns *)
Theorem season_target_or_antipode k y :
  (0 <= k <= 3)%Z -> (-1000 <= y <= 3000)%Z -> CtorExact (Dreg (jde0 k y)) ->
  let v := Sun_get_equinox_solstice Rops (VInt y) (VStr (season_name k)) in
  v = VErr OutOfFuel \/
  exists t lon lat r (n : Z),
    v = epo t /\
    Sun_apparent_geocentric_position Rops (epo t) (VBool true) = VTuple [ang lon; ang lat; VFloat r] /\
    0 <= lon < 360 /\
    (Rabs (lon - (IZR k * 90 + 360 * IZR n)) < 25 / 10000000 \/
     Rabs (lon - (IZR k * 90 + 180 + 360 * IZR n)) < 25 / 10000000).
Proof.
  intros Hk Hy Hctor v.
  destruct (season_longitude k y Hk Hy Hctor) as [Hv|(t & lon & lat & r & m & Hv & Hs & Hl & Hm)];
    [left; exact Hv|right].
  exists t, lon, lat, r, (m / 2)%Z. repeat split; try assumption; try lra.
  pose proof (Z.div_mod m 2 ltac:(lia)) as Hd. pose proof (Z.mod_pos_bound m 2 ltac:(lia)) as Hb.
  assert (m mod 2 = 0 \/ m mod 2 = 1)%Z as [E|E] by lia; rewrite E in Hd.
  - left. replace (IZR m) with (2 * IZR (m / 2)) in Hm
      by (rewrite Hd at 2; rewrite plus_IZR, mult_IZR; simpl; ring).
    replace (IZR k * 90 + 360 * IZR (m / 2)) with (IZR k * 90 + 180 * (2 * IZR (m / 2))) by ring. exact Hm.
  - right. replace (IZR m) with (2 * IZR (m / 2) + 1) in Hm
      by (rewrite Hd at 2; rewrite plus_IZR, mult_IZR; simpl; ring).
    replace (IZR k * 90 + 180 + 360 * IZR (m / 2)) with (IZR k * 90 + 180 * (2 * IZR (m / 2) + 1)) by ring. exact Hm.
Qed.
