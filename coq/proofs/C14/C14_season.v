(* C14_season: Sun.get_equinox_solstice in the ideal instance.  The VSOP Sun position and the
   Epoch constructor (a date round trip) are abstracted: their values are hypotheses. *)
From Coq Require Import Reals ZArith List Bool Lra Lia String.
From PyLib Require Import PyVal PyBuiltins Ideal Whnf PyEval.
From Gen Require Import M_base M_Angle M_Epoch M_Interpolation M_Coordinates M_Earth M_Sun.
From Proofs.C14 Require Import C14_tac C14_angle C14_angle2.
Import ListNotations.
Open Scope R_scope.

Ltac2 Set Whnf.is_blocked as old := fun c =>
  Ltac2.Bool.or (old c)
   (Ltac2.List.exist (Ltac2.Constr.equal c)
     ['@Sun_apparent_geocentric_position; '@Epoch___init__; '@Angle___init__; '@Angle___rsub__;
      '@Angle_to_positive; 'loop_fuel; 'Z.geb; 'Z.ltb; 'Z.leb; 'Z.gtb]).


(* mean instants (Meeus tables 27.A / 27.B as written in the code); Y = year/1000 resp. (year-2000)/1000 *)
Definition jdeA (k : Z) (Y : R) : R :=
  match k with
  | 0%Z => 172113929189/100000 + Y * (3652421374/10000 + Y * (6134/100000 + Y * (111/100000 - Y * (71/100000))))
  | 1%Z => 172123325401/100000 + Y * (36524172562/100000 + Y * (-5323/100000 + Y * (907/100000 + Y * (25/100000))))
  | 2%Z => 172132570455/100000 + Y * (36524249558/100000 + Y * (-11677/100000 + Y * (-297/100000 + Y * (74/100000))))
  | _ => 172141439987/100000 + Y * (36524288257/100000 + Y * (-769/100000 + Y * (-933/100000 - Y * (6/100000))))
  end.
Definition jdeB (k : Z) (Y : R) : R :=
  match k with
  | 0%Z => 245162380984/100000 + Y * (36524237404/100000 + Y * (5169/100000 + Y * (-411/100000 - Y * (57/100000))))
  | 1%Z => 245171656767/100000 + Y * (36524162603/100000 + Y * (325/100000 + Y * (888/100000 - Y * (3/10000))))
  | 2%Z => 245181021715/100000 + Y * (36524201767/100000 + Y * (-11575/100000 + Y * (337/100000 + Y * (78/100000))))
  | _ => 245190005952/100000 + Y * (36524274049/100000 + Y * (-6223/100000 + Y * (-823/100000 + Y * (32/100000))))
  end.
(* the mean instant for an integer year, as the code selects it *)
Definition jde0 (k y : Z) : R :=
  if (y <? 1000)%Z then jdeA k (IZR y / 1000) else jdeB k ((IZR y - 2000) / 1000).

Definition season_name (k : Z) : string :=
  match k with 0%Z => "spring" | 1%Z => "summer" | 2%Z => "autumn" | _ => "winter" end.

Definition season_arg (k : Z) (lam : R -> R) (t : R) : R := IZR k * 90 - pos360 (lam t).
Definition season_corr (k : Z) (lam : R -> R) (t : R) : R := 58 * sin (season_arg k lam t * (PI / 180)).

(* what is assumed about the abstracted callees on a set D of instants *)
Definition SunModel (D : R -> Prop) (lam bet rad : R -> R) : Prop :=
  (forall j, D j -> Epoch___init__ Rops (VObj cEpoch [VNone]) (VTuple [VFloat j]) (VDict []) = epo j) /\
  (forall e, D e -> Sun_apparent_geocentric_position Rops (epo e) (VBool true)
                    = VTuple [ang (lam e); ang (bet e); VFloat (rad e)]) /\
  (forall e, -360 < lam e < 360).
(* D is closed under the correction step of season k *)
Definition StepClosed (D : R -> Prop) (k : Z) (lam : R -> R) : Prop :=
  forall e, D e -> D (e + season_corr k lam e).

Definition SeasonGood (D : R -> Prop) (k : Z) (lam : R -> R) (v : val R) : Prop :=
  v = VErr OutOfFuel \/
  exists t, D t /\ v = epo t /\ Rabs (season_corr k lam t) <= 25 / 10000000.

Definition LoopInv (D : R -> Prop) (k : Z) (lam : R -> R) (c e : R) : Prop :=
  D e /\ (25 / 10000000 < Rabs c \/ (D (e - c) /\ Rabs (season_corr k lam (e - c)) <= 25 / 10000000)).


(* equality of two real expressions that differ by literal normalisation and by a
   ring-equal argument of sin *)
Ltac sin_arg_eq :=
  try match goal with
  | |- context [sin ?X] =>
      match goal with
      | |- context [sin ?Y] =>
          tryif constr_eq X Y then fail else (replace X with Y by (first [field | lra]))
      end
  end.
Ltac real_eq :=
  unfold jdeA, jdeB, season_corr, season_arg; expose_R; zsimp; Rlit_norm;
  first [ reflexivity | field | lra | (sin_arg_eq; first [reflexivity | lra | field]) ].

Ltac closed_bool s :=
  let v := eval lazy in s in
  lazymatch v with
  | true => change s with true
  | false => change s with false
  end.

Ltac season_hook s :=
    lazymatch s with
    | Z.ltb _ _ => closed_bool s
    | Z.leb _ _ => closed_bool s
    | Z.geb _ _ => closed_bool s
    | Z.gtb _ _ => closed_bool s
    | Epoch___init__ Rops _ (VTuple [VFloat ?p]) _ =>
        match goal with
        | Hc : forall j, ?D j -> Epoch___init__ Rops _ (VTuple [VFloat j]) _ = _, HD : ?D ?q |- _ =>
            replace p with q by real_eq; rewrite (Hc q HD)
        end
    | Angle_to_positive Rops (VObj cAngle [VFloat ?a; _]) =>
        let Hp := fresh "Hp" in
        pose proof (to_positive_val a ltac:(assumption)) as Hp; unfold ang, tol0 in Hp;
        rewrite Hp; clear Hp
    | Angle___rsub__ Rops (VObj cAngle [VFloat ?p; _]) (VFloat ?x) =>
        lazymatch p with
        | pos360 ?l =>
            let Hr := fresh "Hr" in let Hp := fresh "Hp" in
            pose proof (pos360_range l ltac:(assumption)) as Hr;
            pose proof (angle_rsub p x ltac:(expose_R; zsimp; Rlit_norm; lra)) as Hp; unfold ang, tol0 in Hp;
            rewrite Hp; clear Hp Hr
        end
    | Angle___init__ Rops _ (VTuple [VObj cAngle [VFloat ?a; _]]) _ =>
        match a with
        | context [pos360 ?l] =>
            let Hr := fresh "Hr" in let Hp := fresh "Hp" in
            pose proof (pos360_range l ltac:(assumption)) as Hr;
            pose proof (angle_copy a ltac:(expose_R; zsimp; Rlit_norm; lra)) as Hp; unfold ang, tol0 in Hp;
            rewrite Hp; clear Hp Hr
        end
    end.


(* Structure of the call for season k: it equals a loop function F started at Epoch(jde0) with
   corr = 1.0; F is characterised on fuel 0, on the exit branch and on an iteration. *)
Definition SeasonStructure (D : R -> Prop) (k y : Z) : Prop :=
  exists F : nat -> val R -> val R -> val R -> val R -> val R -> val R -> val R,
    Sun_get_equinox_solstice Rops (VInt y) (VStr (season_name k))
      = F loop_fuel (VErr UnboundLocalError) (VFloat 1) (epo (jde0 k y))
          (VErr UnboundLocalError) (VErr UnboundLocalError) (VErr UnboundLocalError) /\
    (forall a c e la lo r, F 0%nat a (VFloat c) (epo e) la lo r = VErr OutOfFuel) /\
    (forall n a c e la lo r, Rabs c <= 25 / 10000000 -> D (e - c) ->
       F (S n) a (VFloat c) (epo e) la lo r = epo (e - c)) /\
    (* one more iteration: Sun at longitude l, correction 58 sin(k*90 - l), epoch advanced by it *)
    (forall n a c e la lo r l b rr, 25 / 10000000 < Rabs c -> -360 < l < 360 ->
       Sun_apparent_geocentric_position Rops (epo e) (VBool true) = VTuple [ang l; ang b; VFloat rr] ->
       D (e + 58 * sin ((IZR k * 90 - pos360 l) * (PI / 180))) ->
       exists a' la' lo' r',
       F (S n) a (VFloat c) (epo e) la lo r
       = F n a' (VFloat (58 * sin ((IZR k * 90 - pos360 l) * (PI / 180))))
             (epo (e + 58 * sin ((IZR k * 90 - pos360 l) * (PI / 180)))) la' lo' r').

Ltac season_pre :=
  let Hy := fresh "Hy" in let Hctor := fresh "Hctor" in let HD0 := fresh "HD0" in
  intros Hy Hctor HD0;
  match type of Hy with
  | (?lo <= ?y < ?hi)%Z =>
      unfold jde0 in *;
      replace (y <? 1000)%Z with true in * by (symmetry; lia);
      assert ((y >=? -1000)%Z = true) by lia;
      assert ((y <? 1000)%Z = true) by lia
  | (?lo <= ?y <= ?hi)%Z =>
      unfold jde0 in *;
      replace (y <? 1000)%Z with false in * by (symmetry; lia);
      assert ((y >=? -1000)%Z = true) by lia;
      assert ((y <? 1000)%Z = false) by lia;
      assert ((y >=? 1000)%Z = true) by lia;
      assert ((y <=? 3000)%Z = true) by lia
  end.

Ltac season_structure :=
  season_pre; unfold season_name;
  match goal with |- exists F, ?call = _ /\ _ =>
    let Hc := fresh "Hc" in
    eassert (Hc : call = _) by (pyrun2; reflexivity);
    match type of Hc with _ = ?f loop_fuel _ _ _ _ _ _ =>
      exists f; split;
      [ rewrite Hc; clear Hc; repeat f_equal; expose_R; Rlit_norm; lra
      | clear Hc; split; [ intros; reflexivity | split ] ]
    end
  end;
  [ intros n a c e la lo r Hc HDe; unfold epo in *; pyrun2; reflexivity
  | intros n a c e la lo r l b rr Hc Hl Hs HDn; do 4 eexists; unfold epo, ang, tol0 in *; pyrun2;
    match goal with
    | |- _ _ _ (VFloat ?c1) _ _ _ _ = _ _ _ (VFloat ?c2) _ _ _ _ => replace c1 with c2 by real_eq
    end;
    match goal with
    | |- _ _ _ _ (VObj cEpoch [VFloat ?e1]) _ _ _ = _ _ _ _ (VObj cEpoch [VFloat ?e2]) _ _ _ => replace e1 with e2 by real_eq
    end;
    reflexivity ].

Definition CtorExact (D : R -> Prop) : Prop :=
  forall j, D j -> Epoch___init__ Rops (VObj cEpoch [VNone]) (VTuple [VFloat j]) (VDict []) = epo j.

