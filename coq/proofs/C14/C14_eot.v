(* C14_eot: closed form of the generated Sun.equation_of_time (ideal instance), with the
   VSOP Sun position, obliquity, nutation, the ecliptical->equatorial conversion and the
   Angle reduction of the mean longitude abstracted (their values are hypotheses). *)
From Coq Require Import Reals ZArith List Bool Lra Lia String.
From PyLib Require Import PyVal PyBuiltins Ideal Whnf PyEval.
From Gen Require Import M_base M_Angle M_Epoch M_Interpolation M_Coordinates M_Earth M_Sun.
From Proofs.C14 Require Import C14_tac C14_angle C14_jde.
Import ListNotations.
Open Scope R_scope.

Ltac2 Set Whnf.is_blocked as old := fun c =>
  Ltac2.Bool.or (old c)
   (Ltac2.List.exist (Ltac2.Constr.equal c)
     ['@Angle___init__; '@Sun_apparent_geocentric_position; '@f_true_obliquity;
      '@f_nutation_longitude; '@f_ecliptical2equatorial; '@fmod_py; '@g_JDE2000;
      '@Angle_to_positive]).

(* mean longitude polynomial of the code, T in Julian millennia *)
Definition L0poly (T : R) : R :=
  2804664567/10000000 + T * (3600076982779/10000000 + T * (3032028/100000000
    + T * (1/49931 + T * (-1/15300 - T * 1 / 2000000)))).

(* reduction to [-180, 180] as written in the code *)
Definition red360 (x : R) : R := x - 360 * IZR (Rround (x / 360)).

Definition eot_arg (l0 alpha dpsi eps : R) : R :=
  pos360 l0 - 57183/10000000 - pos360 alpha + dpsi * cos (eps * (PI / 180)).

Lemma eot_closed_form jde J lon lat r eps alpha dec dpsi l0 :
  -360 < l0 < 360 -> -360 < alpha < 360 ->
  g_JDE2000 Rops = epo J ->
  Angle___init__ Rops (VObj cAngle [VNone; VNone]) (VTuple [VFloat (L0poly ((jde - J) / 365250))]) (VDict []) = ang l0 ->
  Sun_apparent_geocentric_position Rops (epo jde) (VBool true) = VTuple [ang lon; ang lat; VFloat r] ->
  f_true_obliquity Rops (VTuple [epo jde]) (VDict []) = ang eps ->
  f_ecliptical2equatorial Rops (ang lon) (ang lat) (ang eps) = VTuple [ang alpha; ang dec] ->
  f_nutation_longitude Rops (VTuple [epo jde]) (VDict []) = ang dpsi ->
  let E := red360 (eot_arg l0 alpha dpsi eps) * 4 in
  Sun_equation_of_time Rops (epo jde) = VTuple [VInt (Rtrunc E); VFloat (Rfmod (Rabs E) 1 * 60)].
Proof.
  intros Hl0 Hal HJ Hred Hsun Heps Hconv Hdpsi E.
  pose proof (to_positive_val l0 Hl0) as Hp1.
  pose proof (to_positive_val alpha Hal) as Hp2.
  unfold epo, ang, tol0 in *.
  Ltac py_stuck_hook s ::=
    lazymatch s with
    | fmod_py Rops ?a ?b => change b with 1; rewrite (fmod_py_1 a) by apply Rabs_pos
    | Angle___init__ Rops _ (VTuple [VFloat ?p]) _ =>
        match goal with Hred : Angle___init__ Rops _ (VTuple [VFloat (L0poly ?T)]) _ = _ |- _ =>
          replace p with (L0poly T) by (unfold L0poly; Rlit_norm; field); rewrite Hred
        end
    end.
  pyrun2.
  subst E. unfold red360, eot_arg. Rlit_norm.
  repeat f_equal; try lra; try (unfold Rdiv; ring).
Qed.

(* with the value of the module constant JDE2000 (C14_jde.JDE2000_val) *)
Lemma eot_closed_form_J2000 jde lon lat r eps alpha dec dpsi l0 :
  -360 < l0 < 360 -> -360 < alpha < 360 ->
  Angle___init__ Rops (VObj cAngle [VNone; VNone]) (VTuple [VFloat (L0poly ((jde - 2451545) / 365250))]) (VDict []) = ang l0 ->
  Sun_apparent_geocentric_position Rops (epo jde) (VBool true) = VTuple [ang lon; ang lat; VFloat r] ->
  f_true_obliquity Rops (VTuple [epo jde]) (VDict []) = ang eps ->
  f_ecliptical2equatorial Rops (ang lon) (ang lat) (ang eps) = VTuple [ang alpha; ang dec] ->
  f_nutation_longitude Rops (VTuple [epo jde]) (VDict []) = ang dpsi ->
  let E := red360 (eot_arg l0 alpha dpsi eps) * 4 in
  Sun_equation_of_time Rops (epo jde) = VTuple [VInt (Rtrunc E); VFloat (Rfmod (Rabs E) 1 * 60)].
Proof.
  intros H1 H2 H3 H4 H5 H6 H7. apply (eot_closed_form jde 2451545 lon lat r eps alpha dec dpsi l0); try assumption.
  exact JDE2000_val.
Qed.

(* structural consequences of the closed form *)
Lemma red360_bound x : Rabs (red360 x) <= 180.
Proof.
  unfold red360. pose proof (Rround_half (x / 360)) as H.
  replace (x - 360 * IZR (Rround (x / 360))) with (360 * (x / 360 - IZR (Rround (x / 360)))) by field.
  rewrite Rabs_mult. rewrite (Rabs_right 360) by lra. lra.
Qed.

(* red360 x is x minus the explicit multiple 360 * Rround (x / 360), and it is THE representative of
   x modulo 360 in (-180, 180): whenever x - 360 k lies strictly inside, red360 x is that number *)
Lemma red360_unique x (k : Z) : Rabs (x - 360 * IZR k) < 180 -> red360 x = x - 360 * IZR k.
Proof.
  intros H. unfold red360. pose proof (Rround_half (x / 360)) as Hr.
  assert (Rabs (x / 360 - IZR k) < 1 / 2) as Hk.
  { replace (x / 360 - IZR k) with ((x - 360 * IZR k) / 360) by field.
    unfold Rdiv. rewrite Rabs_mult, (Rabs_right (/ 360)) by lra. lra. }
  assert (Rround (x / 360) = k) as ->; [|reflexivity].
  assert (Rabs (IZR (Rround (x / 360)) - IZR k) < 1) as Hd.
  { replace (IZR (Rround (x / 360)) - IZR k) with ((x / 360 - IZR k) - (x / 360 - IZR (Rround (x / 360)))) by ring.
    eapply Rle_lt_trans; [apply Rabs_triang|]. rewrite Rabs_Ropp. lra. }
  rewrite <- minus_IZR in Hd. apply Rabs_def2 in Hd. destruct Hd as [H1 H2].
  apply lt_IZR in H1. assert (IZR (-1) < IZR (Rround (x / 360) - k)) as H3 by (simpl; lra).
  apply lt_IZR in H3. lia.
Qed.

Lemma eot_minutes_bound x : Rabs (red360 x * 4) <= 720.
Proof.
  rewrite Rabs_mult. rewrite (Rabs_right 4) by lra. pose proof (red360_bound x). lra.
Qed.

Lemma eot_seconds_range E : 0 <= Rfmod (Rabs E) 1 * 60 < 60.
Proof. pose proof (Rfmod_1_bounds' (Rabs E) (Rabs_pos E)). lra. Qed.

(* (m, s) recomposes |E| when |E| >= 1 or E >= 0: |m| + s/60 = |E| *)
Lemma eot_recompose E : IZR (Z.abs (Rtrunc E)) + Rfmod (Rabs E) 1 * 60 / 60 = Rabs E.
Proof.
  unfold Rfmod. replace (Rabs E / 1) with (Rabs E) by field.
  rewrite (Rtrunc_nonneg' (Rabs E)) by apply Rabs_pos.
  assert (Z.abs (Rtrunc E) = Rfloor (Rabs E)) as ->.
  { unfold Rtrunc. destruct (Rlt_dec E 0).
    - rewrite Rabs_left by lra. rewrite Z.abs_opp. apply Z.abs_eq.
      pose proof (Rfloor_spec (- E)) as [_ H2].
      assert (0 < IZR (Rfloor (- E)) + 1) by lra. rewrite <- plus_IZR in H. apply lt_IZR in H. lia.
    - rewrite Rabs_right by lra. apply Z.abs_eq.
      pose proof (Rfloor_spec E) as [_ H2].
      assert (0 < IZR (Rfloor E) + 1) by lra. rewrite <- plus_IZR in H. apply lt_IZR in H. lia. }
  field.
Qed.
