(* C14_season_all: the season theorems for every season and year; argument errors *)
From Coq Require Import Reals ZArith List Bool Lra Lia String.
From PyLib Require Import PyVal PyBuiltins Ideal Whnf PyEval.
From Gen Require Import M_base M_Angle M_Epoch M_Interpolation M_Coordinates M_Earth M_Sun.
From Proofs.C14 Require Import C14_tac C14_angle C14_angle2 C14_season.
From Proofs.C14 Require Import C14_sA0 C14_sA1 C14_sA2 C14_sA3 C14_sB0 C14_sB1 C14_sB2 C14_sB3.
Import ListNotations.
Open Scope R_scope.

Ltac2 Set Whnf.is_blocked as old := fun c =>
  Ltac2.Bool.or (old c)
   (Ltac2.List.exist (Ltac2.Constr.equal c)
     ['@Sun_apparent_geocentric_position; '@Epoch___init__; '@Angle___init__; '@Angle___rsub__;
      '@Angle_to_positive; 'loop_fuel; 'Z.geb; 'Z.ltb; 'Z.leb; 'Z.gtb]).


Theorem season_structure_all (D : R -> Prop) k y :
  (0 <= k <= 3)%Z -> (-1000 <= y <= 3000)%Z -> CtorExact D -> D (jde0 k y) -> SeasonStructure D k y.
Proof.
  intros Hk Hy Hc HD.
  assert (k = 0 \/ k = 1 \/ k = 2 \/ k = 3)%Z as [-> | [-> | [-> | ->]]] by lia;
  destruct (Z_lt_dec y 1000).
  - apply (season_structure_A0 D y); [lia | exact Hc | exact HD].
  - apply (season_structure_B0 D y); [lia | exact Hc | exact HD].
  - apply (season_structure_A1 D y); [lia | exact Hc | exact HD].
  - apply (season_structure_B1 D y); [lia | exact Hc | exact HD].
  - apply (season_structure_A2 D y); [lia | exact Hc | exact HD].
  - apply (season_structure_B2 D y); [lia | exact Hc | exact HD].
  - apply (season_structure_A3 D y); [lia | exact Hc | exact HD].
  - apply (season_structure_B3 D y); [lia | exact Hc | exact HD].
Qed.

(* ---- the loop invariant, by induction on the fuel of the generated loop ---- *)
Theorem season_loop_invariant (D : R -> Prop) k y lam bet rad :
  (0 <= k <= 3)%Z -> (-1000 <= y <= 3000)%Z -> SunModel D lam bet rad -> StepClosed D k lam ->
  D (jde0 k y) ->
  SeasonGood D k lam (Sun_get_equinox_solstice Rops (VInt y) (VStr (season_name k))).
Proof.
  intros Hk Hy (Hctor & Hsun & Hlam) Hclosed HD0.
  destruct (season_structure_all D k y Hk Hy Hctor HD0) as (F & Hcall & H0 & Hexit & Hstep).
  rewrite Hcall. clear Hcall.
  assert (Hloop : forall n a c e la lo r, LoopInv D k lam c e ->
             SeasonGood D k lam (F n a (VFloat c) (epo e) la lo r)).
  { induction n as [|n IH]; intros a c e la lo r (HDe & Hinv).
    - left. apply H0.
    - destruct (Rlt_dec (25 / 10000000) (Rabs c)) as [Hbig|Hsmall].
      + pose proof (Hclosed e HDe) as HDn. unfold season_corr, season_arg in HDn.
        destruct (Hstep n a c e la lo r (lam e) (bet e) (rad e) Hbig (Hlam e) (Hsun e HDe) HDn)
          as (a' & la' & lo' & r' & Heq).
        rewrite Heq. apply IH. split; [exact HDn|].
        set (c' := 58 * sin ((IZR k * 90 - pos360 (lam e)) * (PI / 180))) in *.
        destruct (Rlt_dec (25 / 10000000) (Rabs c')) as [Hb'|Hs']; [left; exact Hb'|right].
        replace (e + c' - c') with e by ring. split; [exact HDe|].
        unfold season_corr, season_arg. fold c'. lra.
      + destruct Hinv as [Hc|(HDec & HQ)]; [lra|].
        rewrite (Hexit n a c e la lo r ltac:(lra) HDec).
        right. exists (e - c). repeat split; assumption. }
  apply Hloop. split; [exact HD0|]. left. rewrite Rabs_right; lra.
Qed.

Lemma season_type_float y s : Sun_get_equinox_solstice Rops (VFloat y) (VStr s) = VErr TypeError.
Proof. pyrun2. reflexivity. Qed.

Lemma season_year_range k y : (0 <= k <= 3)%Z -> (y < -1000 \/ 3000 < y)%Z ->
  Sun_get_equinox_solstice Rops (VInt y) (VStr (season_name k)) = VErr ValueError.
Proof.
  intros Hk Hy.
  assert (k = 0 \/ k = 1 \/ k = 2 \/ k = 3)%Z as [-> | [-> | [-> | ->]]] by lia; unfold season_name;
  (destruct Hy as [Hy | Hy];
   [ assert ((y >=? -1000)%Z = false) by lia; assert ((y >=? 1000)%Z = false) by lia
   | assert ((y >=? -1000)%Z = true) by lia; assert ((y <? 1000)%Z = false) by lia;
     assert ((y >=? 1000)%Z = true) by lia; assert ((y <=? 3000)%Z = false) by lia ];
   pyrun2; reflexivity).
Qed.
