(* C14_witness: the callee hypotheses of C14_rise_set_closed_form have the shape the model really
   returns.  Evaluated in the executable binary64 instance of the same generated text (the shape
   -- VInt / VFloat / Epoch object -- does not depend on the float carrier): for the instant
   JDE 2451545 (2000-01-01 12h) get_date gives (2000, 1, 1.5), Epoch(2000, 1, 1.5) an Epoch,
   leap_seconds(2000, 1) the int 22, and Epoch(float) an Epoch with the same JDE.  In the ideal
   instance Epoch(2000, 1, 1.5) = Epoch 2451545 is C14_jde.JDE2000_val. *)
From Coq Require Import ZArith List String PrimFloat.
From PyLib Require Import PyVal PyBuiltins B64 B64Facts.
From Gen Require Import M_base M_Angle M_Epoch.
Import ListNotations.
Open Scope Z_scope.

Example w_get_date :
  Epoch_get_date B0 (VObj cEpoch [VFloat 2451545%float]) (VDict [])
  = VTuple [VInt 2000; VInt 1; VFloat 1.5%float].
Proof. vm_compute. reflexivity. Qed.

Example w_epoch_ymd :
  Epoch___init__ B0 (VObj cEpoch [VNone]) (VTuple [VInt 2000; VInt 1; VFloat 1.5%float]) (VDict [])
  = VObj cEpoch [VFloat 2451545%float].
Proof. vm_compute. reflexivity. Qed.

Example w_leap_seconds : Epoch_leap_seconds B0 (VInt 2000) (VInt 1) = VInt 22.
Proof. vm_compute. reflexivity. Qed.

Example w_leap_seconds_early : Epoch_leap_seconds B0 (VInt 1900) (VInt 1) = VInt 0.
Proof. vm_compute. reflexivity. Qed.

Example w_epoch_float :
  Epoch___init__ B0 (VObj cEpoch [VNone]) (VTuple [VFloat 2451545.25%float]) (VDict [])
  = VObj cEpoch [VFloat 2451545.25%float].
Proof. vm_compute. reflexivity. Qed.

Definition callee_shapes : Prop :=
  Epoch_get_date B0 (VObj cEpoch [VFloat 2451545%float]) (VDict [])
    = VTuple [VInt 2000; VInt 1; VFloat 1.5%float] /\
  Epoch___init__ B0 (VObj cEpoch [VNone]) (VTuple [VInt 2000; VInt 1; VFloat 1.5%float]) (VDict [])
    = VObj cEpoch [VFloat 2451545%float] /\
  Epoch_leap_seconds B0 (VInt 2000) (VInt 1) = VInt 22 /\
  Epoch_leap_seconds B0 (VInt 1900) (VInt 1) = VInt 0 /\
  Epoch___init__ B0 (VObj cEpoch [VNone]) (VTuple [VFloat 2451545.25%float]) (VDict [])
    = VObj cEpoch [VFloat 2451545.25%float].
Lemma callee_shapes_hold : callee_shapes.
Proof.
  exact (conj w_get_date (conj w_epoch_ymd (conj w_leap_seconds (conj w_leap_seconds_early w_epoch_float)))).
Qed.
