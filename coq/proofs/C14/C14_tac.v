(* C14_tac: shared definitions and a call-by-value variant of pyrun.
   PyEval.pyrun evaluates operator arguments by name: a nested arithmetic
   expression a + t*(b + t*(c + ...)) makes the weak-head normaliser duplicate the
   inner operand at every generated dispatch wrapper (exponential in the nesting
   depth).  [pyrun2] first evaluates, innermost first, every application
   [f Rops x y] / [f Rops x] whose arguments are already canonical values. *)
From Coq Require Import Reals ZArith List Bool Lra Lia String.
From PyLib Require Import PyVal PyBuiltins Ideal Whnf PyEval.
Import ListNotations.
Open Scope R_scope.

Definition tol0 : R := Rlit 1 (-10).
Definition ang (d : R) : val R := VObj cAngle [VFloat d; VFloat tol0].
Definition epo (j : R) : val R := VObj cEpoch [VFloat j].

Ltac is_valR t :=
  let T := type of t in
  lazymatch T with
  | PyVal.val R => idtac
  end.

Ltac inner_eval_in run whole e :=
  match e with
  | context [?f Rops ?x ?y] =>
      is_canon x; is_canon y;
      let t := constr:(f Rops x y) in
      is_valR t;
      tryif constr_eq t whole then fail else idtac;
      let H := fresh "Hin" in
      eassert (H : t = _) by (run; py_canon_refl);
      rewrite H; clear H
  | context [?f Rops ?x] =>
      is_canon x;
      let t := constr:(f Rops x) in
      is_valR t;
      tryif constr_eq t whole then fail else idtac;
      let H := fresh "Hin" in
      eassert (H : t = _) by (run; py_canon_refl);
      rewrite H; clear H
  end.

Ltac inner_eval_rep run :=
  repeat (lazymatch goal with
          | |- bind ?e ?k = _ => inner_eval_in run (bind e k) e
          | |- ?l = _ => inner_eval_in run l l
          end).

(* evaluate one non-canonical value argument of the (blocked) call [s] *)
Ltac eval_one_arg run s :=
  match s with
  | ?g ?a =>
      is_valR a; tryif is_canon a then fail else idtac;
      let H := fresh "Harg" in
      eassert (H : a = _) by (run; py_canon_refl);
      rewrite H; clear H
  | ?g ?a => eval_one_arg run g
  end.

(* user hook for stuck (blocked) calls: redefine with [Ltac py_stuck_hook s ::= ...] *)
Ltac py_stuck_hook s := fail.

Ltac pyrun2_loop tac inner :=
  lazymatch goal with
  | |- bind _ _ = _ => inner_eval_rep ltac:(pyrun2_loop tac true)
  | |- _ =>
      lazymatch inner with
      | true => inner_eval_rep ltac:(pyrun2_loop tac true)
      | false => idtac
      end
  end;
  whnf_lhs;
  lazymatch goal with
  | |- ?l = _ =>
    tryif is_canon l then expose_R else
    first [
      lazymatch l with
      | bind ?e ?k =>
          tryif is_canon e then
            lazymatch e with
            | VErr _ => rewrite (bind_err _ k)
            | _ => rewrite (bind_ok e k) by reflexivity; cbv beta
            end
          else
            let H := fresh "Hev" in
            eassert (H : e = _) by (pyrun2_loop tac true; py_canon_refl);
            rewrite H; clear H
      | VTuple ?xs => first_noncanon xs ltac:(fun x =>
            let H := fresh "Hev" in
            eassert (H : x = _) by (pyrun2_loop tac true; py_canon_refl); rewrite H; clear H)
      | VList ?xs => first_noncanon xs ltac:(fun x =>
            let H := fresh "Hev" in
            eassert (H : x = _) by (pyrun2_loop tac true; py_canon_refl); rewrite H; clear H)
      | VObj _ ?xs => first_noncanon xs ltac:(fun x =>
            let H := fresh "Hev" in
            eassert (H : x = _) by (pyrun2_loop tac true; py_canon_refl); rewrite H; clear H)
      | _ =>
          pose_stuck;
          lazymatch goal with
          | py_stuck := ?s |- _ =>
              clear py_stuck; py_trace s;
              lazymatch s with
              | bind ?e ?k =>
                  let H := fresh "Hev" in
                  eassert (H : bind e k = _) by (pyrun2_loop tac true; py_canon_refl);
                  rewrite H; clear H
              | Rltb _ _ => py_decide_at s tac
              | Rleb _ _ => py_decide_at s tac
              | Reqb _ _ => py_decide_at s tac
              | _ =>
                  first [ match goal with H : s = _ |- _ => rewrite H end
                        | py_stuck_hook s
                        | eval_one_arg ltac:(pyrun2_loop tac true) s
                        | idtac "pyrun: stuck on" s; fail 1 ]
              end
          end
      end;
      pyrun2_loop tac false
    | idtac ]
  end.
Ltac pyrun2_using tac := pyrun2_loop tac true.
Ltac pyrun2 := pyrun2_using pylra.

(* ---- small real-number facts (floor / trunc / fmod / round) ---- *)
Lemma Rround_half x : Rabs (x - IZR (Rround x)) <= 1/2.
Proof.
  unfold Rround. pose proof (Rfloor_spec x) as [H1 H2].
  destruct (Rlt_dec (x - IZR (Rfloor x)) (1/2)).
  - rewrite Rabs_right; lra.
  - destruct (Rlt_dec (1/2) (x - IZR (Rfloor x))).
    + rewrite plus_IZR. rewrite Rabs_left; simpl; lra.
    + destruct (Z.even (Rfloor x)).
      * rewrite Rabs_right; lra.
      * rewrite plus_IZR. rewrite Rabs_left1; simpl; lra.
Qed.

Lemma Rtrunc_nonneg' x : 0 <= x -> Rtrunc x = Rfloor x.
Proof. intro H. unfold Rtrunc. destruct (Rlt_dec x 0); [lra | reflexivity]. Qed.

Lemma Rfmod_1_bounds' a : 0 <= a -> 0 <= Rfmod a 1 < 1.
Proof.
  intro Ha. unfold Rfmod. replace (a / 1) with a by field.
  rewrite Rtrunc_nonneg' by assumption. pose proof (Rfloor_spec a). lra.
Qed.

Lemma fmod_py_1 a : 0 <= a -> fmod_py Rops a 1 = VFloat (Rfmod a 1).
Proof.
  intros Ha. pose proof (Rfmod_1_bounds' a Ha) as Hb.
  unfold fmod_py.
  cbn [f_eqb f_fmod f_signbit f_ltb f_neg f_add Rops RopsC f0 f_of_Z].
  rewrite (proj2 (Reqb_false 1 0)) by lra.
  destruct (Req_EM_T (Rfmod a 1) 0) as [E|E].
  - rewrite (proj2 (Reqb_true _ _) E). rewrite (proj2 (Rltb_false 1 0)) by lra.
    rewrite E. reflexivity.
  - rewrite (proj2 (Reqb_false _ _) E). rewrite (proj2 (Rltb_false 1 0)) by lra.
    rewrite (proj2 (Rltb_false (Rfmod a 1) 0)) by lra. reflexivity.
Qed.

(* Angle.to_positive on the stored value *)
Definition pos360 (a : R) : R := if Rlt_dec a 0 then 360 + a else a.
Lemma pos360_range a : -360 < a < 360 -> 0 <= pos360 a < 360.
Proof. intro H. unfold pos360. destruct (Rlt_dec a 0); lra. Qed.

(* closed integer arithmetic under IZR (e.g. IZR (0 + 1)) *)
Ltac zsimp :=
  repeat match goal with
  | |- context [IZR ?z] =>
      lazymatch z with
      | Z0 => fail | Zpos _ => fail | Zneg _ => fail
      | context [Rfloor _] => fail
      | _ => let z' := eval vm_compute in z in progress change (IZR z) with (IZR z')
      end
  end.
Ltac zlra := first [ pylra | zsimp; pylra ].

(* Python's float % for a positive divisor, as a real function: C fmod brought to the sign of the divisor *)
Definition pymod (a y : R) : R :=
  let r := Rfmod a y in
  if Req_EM_T r 0 then 0 else if Rlt_dec r 0 then r + y else r.
Lemma fmod_py_pos a y : 0 < y -> fmod_py Rops a y = VFloat (pymod a y).
Proof.
  intros Hy. unfold fmod_py, pymod.
  cbn [f_eqb f_fmod f_signbit f_ltb f_neg f_add Rops RopsC f0 f_of_Z].
  rewrite (proj2 (Reqb_false y 0)) by lra.
  destruct (Req_EM_T (Rfmod a y) 0) as [E|E].
  - rewrite (proj2 (Reqb_true _ _) E). rewrite (proj2 (Rltb_false y 0)) by lra. reflexivity.
  - rewrite (proj2 (Reqb_false _ _) E). rewrite (proj2 (Rltb_false y 0)) by lra.
    destruct (Rlt_dec (Rfmod a y) 0) as [L|L].
    + rewrite (proj2 (Rltb_true _ _) L). reflexivity.
    + rewrite (proj2 (Rltb_false (Rfmod a y) 0)) by lra. reflexivity.
Qed.
