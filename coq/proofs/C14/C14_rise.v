(* C14_rise: the sunrise equation.  With cos w0 = (sin h0 - sin phi sin delta) / (cos phi cos delta)
   (the quotient Epoch.rise_set and times_rise_transit_set compute) the altitude formula of
   equatorial2horizontal, sin h = sin phi sin delta + cos phi cos delta cos H, gives sin h = sin h0
   at hour angle H = +w0 and H = -w0; the guard |cos w0| > 1 is exactly "no hour angle reaches h0". *)
From Coq Require Import Reals Lra.
Open Scope R_scope.

Definition cos_w0 (h0 phi delta : R) : R :=
  (sin h0 - sin phi * sin delta) / (cos phi * cos delta).
Definition sin_alt (phi delta H : R) : R :=
  sin phi * sin delta + cos phi * cos delta * cos H.

Lemma sunrise_identity h0 phi delta w0 :
  cos phi * cos delta <> 0 -> cos w0 = cos_w0 h0 phi delta ->
  sin_alt phi delta w0 = sin h0 /\ sin_alt phi delta (- w0) = sin h0.
Proof.
  intros Hnz Hw. unfold sin_alt. rewrite cos_neg, Hw. unfold cos_w0. assert (cos phi <> 0 /\ cos delta <> 0) as [Hp Hd] by (split; intro E; apply Hnz; rewrite E; ring).
  split; field; split; assumption.
Qed.

(* no hour angle gives the altitude h0 when |cos w0| > 1 (three None / ValueError case) *)
Lemma never_crosses h0 phi delta H :
  0 < cos phi * cos delta -> 1 < Rabs (cos_w0 h0 phi delta) -> sin_alt phi delta H <> sin h0.
Proof.
  intros Hpos Hbig Heq. unfold sin_alt in Heq.
  assert (cos H = cos_w0 h0 phi delta) as E.
  { unfold cos_w0. set (p := cos phi * cos delta) in *.
    replace (sin h0 - sin phi * sin delta) with (p * cos H) by lra. field. lra. }
  pose proof (COS_bound H) as [B1 B2]. rewrite E in B1, B2.
  unfold Rabs in Hbig. destruct (Rcase_abs _); lra.
Qed.

(* and when |cos w0| <= 1, w0 = acos (cos w0) lies in [0, PI]: rise (transit - w0) <= transit <= set *)
Lemma w0_range c : -1 <= c <= 1 -> 0 <= acos c <= PI.
Proof. intros H. apply acos_bound. Qed.
Lemma rise_transit_set jt w : 0 < w -> jt - w / 360 < jt < jt + w / 360.
Proof. intros. split; lra. Qed.
