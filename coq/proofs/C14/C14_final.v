(* C14_final (thorough tier): the season theorems with NO callee premise left.  The Sun position is
   property C08's theorem (C14_sunapp), the exactness of the Epoch constructor on every instant the
   loop can reach is property C02's theorem C02_ctor_ideal.Epoch_ctor_exact_ideal (all reals from
   JDE -0.5 to 5399999.5).  What remains unproved: termination (the OutOfFuel disjunct) and the
   exclusion of the antipodal longitude. *)
From Coq Require Import Reals ZArith List Bool Lra Lia String.
From PyLib Require Import PyVal PyBuiltins Ideal.
From Gen Require Import M_base M_Angle M_Epoch M_Interpolation M_Coordinates M_Earth M_Sun.
From Proofs.C02 Require C02_ctor_ideal.
From Proofs.C14 Require Import C14_tac C14_angle C14_angle2 C14_season C14_season_all C14_trig C14_sunapp.
Import ListNotations.
Open Scope R_scope.

Lemma ctor_exact_region k y : (0 <= k <= 3)%Z -> (-1000 <= y <= 3000)%Z -> CtorExact (Dreg (jde0 k y)).
Proof.
  intros Hk Hy j HD. pose proof (jde0_bounds k y Hk Hy) as Hj. unfold Dreg in HD.
  assert (1064942 <= j <= 3110058) as Hb by (unfold Rabs in HD; destruct (Rcase_abs _); lra).
  unfold epo. apply C02_ctor_ideal.Epoch_ctor_exact_ideal. unfold C02_ctor_ideal.jde_in_range. lra.
Qed.

Theorem C14_season_longitude_unconditional : forall k y,
  (0 <= k <= 3)%Z -> (-1000 <= y <= 3000)%Z ->
  let v := Sun_get_equinox_solstice Rops (VInt y) (VStr (season_name k)) in
  v = VErr OutOfFuel \/
  exists t lon lat r (m : Z),
    v = epo t /\
    Sun_apparent_geocentric_position Rops (epo t) (VBool true) = VTuple [ang lon; ang lat; VFloat r] /\
    0 <= lon < 360 /\
    Rabs (lon - (IZR k * 90 + 180 * IZR m)) < 25 / 10000000.
Proof. intros k y Hk Hy. exact (season_longitude k y Hk Hy (ctor_exact_region k y Hk Hy)). Qed.

Theorem C14_season_target_or_antipode_unconditional : forall k y,
  (0 <= k <= 3)%Z -> (-1000 <= y <= 3000)%Z ->
  let v := Sun_get_equinox_solstice Rops (VInt y) (VStr (season_name k)) in
  v = VErr OutOfFuel \/
  exists t lon lat r (n : Z),
    v = epo t /\
    Sun_apparent_geocentric_position Rops (epo t) (VBool true) = VTuple [ang lon; ang lat; VFloat r] /\
    0 <= lon < 360 /\
    (Rabs (lon - (IZR k * 90 + 360 * IZR n)) < 25 / 10000000 \/
     Rabs (lon - (IZR k * 90 + 180 + 360 * IZR n)) < 25 / 10000000).
Proof. intros k y Hk Hy. exact (season_target_or_antipode k y Hk Hy (ctor_exact_region k y Hk Hy)). Qed.

Theorem C14_season_result_unconditional : forall k y,
  (0 <= k <= 3)%Z -> (-1000 <= y <= 3000)%Z ->
  SeasonResult k y (Sun_get_equinox_solstice Rops (VInt y) (VStr (season_name k))).
Proof. intros k y Hk Hy. exact (season_result k y Hk Hy (ctor_exact_region k y Hk Hy)). Qed.

Redirect "C14_season_longitude_unconditional.assumptions" Print Assumptions C14_season_longitude_unconditional.
Redirect "C14_season_target_or_antipode_unconditional.assumptions" Print Assumptions C14_season_target_or_antipode_unconditional.
Redirect "C14_season_result_unconditional.assumptions" Print Assumptions C14_season_result_unconditional.
