(* C14_trig: a small sine is near a multiple of PI.  If |sin x| <= s < sin d with 0 < d <= PI/2
   then x is within d of m*PI for some integer m. *)
From Coq Require Import Reals ZArith Lra Lia.
From PyLib Require Import PyVal Ideal.
From Proofs.C14 Require Import C14_tac.
Open Scope R_scope.

Lemma abs_sin_shift_nat x (n : nat) : Rabs (sin (x + INR n * PI)) = Rabs (sin x).
Proof.
  induction n as [|n IH].
  - simpl. f_equal. f_equal. lra.
  - rewrite S_INR. replace (x + (INR n + 1) * PI) with ((x + INR n * PI) + PI) by ring.
    rewrite neg_sin, Rabs_Ropp. exact IH.
Qed.

Lemma abs_sin_shift x (m : Z) : Rabs (sin (x - IZR m * PI)) = Rabs (sin x).
Proof.
  destruct (Z_le_dec 0 m) as [H|H].
  - (* x = (x - m PI) + m PI *)
    rewrite <- (abs_sin_shift_nat (x - IZR m * PI) (Z.to_nat m)).
    rewrite INR_IZR_INZ, Z2Nat.id by assumption. f_equal. f_equal. ring.
  - assert (0 <= - m)%Z as H' by lia.
    rewrite <- (abs_sin_shift_nat x (Z.to_nat (- m))).
    rewrite INR_IZR_INZ, Z2Nat.id by assumption. rewrite opp_IZR. f_equal. f_equal. ring.
Qed.

Lemma small_sin_near_multiple x s d :
  0 < d <= PI / 2 -> s < sin d -> Rabs (sin x) <= s ->
  exists m : Z, Rabs (x - IZR m * PI) < d.
Proof.
  intros [Hd0 Hd1] Hs Hx. pose proof PI_RGT_0 as Hpi.
  set (m := Rround (x / PI)). exists m.
  pose proof (Rround_half (x / PI)) as Hr. fold m in Hr.
  set (u := x - IZR m * PI).
  assert (Hu : Rabs u <= PI / 2).
  { replace u with ((x / PI - IZR m) * PI) by (unfold u; field; lra).
    rewrite Rabs_mult, (Rabs_right PI) by lra.
    apply Rle_trans with (1 / 2 * PI); [apply Rmult_le_compat_r; lra | lra]. }
  assert (Hsu : Rabs (sin u) <= s) by (unfold u; rewrite abs_sin_shift; exact Hx).
  assert (Hu1 : - (PI / 2) <= u) by (unfold Rabs in Hu; destruct (Rcase_abs u); lra).
  assert (Hu2 : u <= PI / 2) by (unfold Rabs in Hu; destruct (Rcase_abs u); lra).
  apply Rnot_le_lt. intro Hc.
  assert (d <= u \/ u <= - d) as [Hbig|Hbig].
  { unfold Rabs in Hc. destruct (Rcase_abs u); [right|left]; lra. }
  - assert (sin d <= sin u) by (apply sin_incr_1; lra).
    assert (sin u <= Rabs (sin u)) by apply RRle_abs. lra.
  - assert (sin u <= sin (- d)) by (apply sin_incr_1; lra).
    rewrite sin_neg in H.
    assert (- sin u <= Rabs (sin u)) by (rewrite <- Rabs_Ropp; apply RRle_abs). lra.
Qed.

(* degrees: |58 sin (a deg)| <= 2.5e-6  ->  a within 2.5e-6 degree of a multiple of 180 *)
From Interval Require Import Tactic.
Lemma corr_small_degrees a :
  Rabs (58 * sin (a * (PI / 180))) <= 25 / 10000000 ->
  exists m : Z, Rabs (a - 180 * IZR m) < 25 / 10000000.
Proof.
  intros H. pose proof PI_RGT_0 as Hpi.
  rewrite Rabs_mult, (Rabs_right 58) in H by lra.
  destruct (small_sin_near_multiple (a * (PI / 180)) (25 / 10000000 / 58) (25 / 10000000 * (PI / 180)))
    as [m Hm].
  - split; [apply Rmult_lt_0_compat; lra|]. interval.
  - interval.
  - lra.
  - exists m. replace (a * (PI / 180) - IZR m * PI) with ((a - 180 * IZR m) * (PI / 180)) in Hm by field.
    rewrite Rabs_mult, (Rabs_right (PI / 180)) in Hm by lra.
    apply Rmult_lt_reg_r with (PI / 180); lra.
Qed.
