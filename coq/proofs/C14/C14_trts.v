(* C14_trts: the guard of the generated Coordinates.times_rise_transit_set (ideal instance):
   it returns (None, None, None) when |cos H0| > 1 (the converse is not proved), cos H0 the sunrise-equation quotient
   at the declination of the middle day. *)
From Coq Require Import Reals ZArith List Bool Lra Lia String.
From PyLib Require Import PyVal PyBuiltins Ideal Whnf PyEval.
From Gen Require Import M_base M_Angle M_Epoch M_Interpolation M_Coordinates.
From Proofs.C14 Require Import C14_tac C14_angle C14_rise.
Import ListNotations.
Open Scope R_scope.

Ltac2 Set Whnf.is_blocked as old := fun c =>
  Ltac2.Bool.or (old c) (Ltac2.Constr.equal c '@Angle___init__).

Definition trts_cosH0 (h0 phi d2 : R) : R :=
  cos_w0 (h0 * (PI / 180)) (phi * (PI / 180)) (d2 * (PI / 180)).

Lemma trts_none lon phi a1 d1 a2 d2 a3 d3 h0 dt th0 :
  cos (phi * (PI / 180)) * cos (d2 * (PI / 180)) <> 0 ->
  1 < Rabs (trts_cosH0 h0 phi d2) ->
  f_times_rise_transit_set Rops (ang lon) (ang phi) (ang a1) (ang d1) (ang a2) (ang d2) (ang a3) (ang d3)
    (ang h0) (VFloat dt) (ang th0) = VTuple [VNone; VNone; VNone].
Proof.
  intros Hnz Hbig. unfold trts_cosH0, cos_w0 in Hbig. unfold ang, tol0.
  pyrun2_using ltac:(first [assumption | pylra]). reflexivity.
Qed.

