(* C14_angle: characterisation of the small Angle/Epoch methods used by the C14 functions
   (ideal instance), proved once by evaluation of the generated text. *)
From Coq Require Import Reals ZArith List Bool Lra Lia String.
From PyLib Require Import PyVal PyBuiltins Ideal Whnf PyEval.
From Gen Require Import M_base M_Angle M_Epoch.
From Proofs.C14 Require Import C14_tac.
Import ListNotations.
Open Scope R_scope.

Lemma to_positive_val a : -360 < a < 360 ->
  Angle_to_positive Rops (ang a) = VTuple [ang (pos360 a); ang (pos360 a)].
Proof.
  intros Ha. unfold pos360, ang, tol0. destruct (Rlt_dec a 0).
  - pyrun2. Rlit_norm.
    assert (3600 / 10 - Rabs a = 360 + a) as -> by (rewrite Rabs_left by lra; lra).
    reflexivity.
  - pyrun2. reflexivity.
Qed.

Lemma angle_rad_val a : Angle_rad Rops (ang a) = VFloat (a * (PI / 180)).
Proof. unfold ang, tol0. pyrun2. reflexivity. Qed.

Lemma angle_call_val a : Angle___call__ Rops (ang a) = VFloat a.
Proof. unfold ang, tol0. pyrun2. reflexivity. Qed.


Lemma reduce_small a : -360 < a < 360 -> Angle_reduce_deg Rops (VFloat a) = VFloat a.
Proof. intros Ha. pyrun2. reflexivity. Qed.
