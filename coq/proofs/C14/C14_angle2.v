(* C14_angle2: Angle arithmetic used by the season iteration (ideal instance), proved by
   evaluation of the generated text with Angle.reduce_deg replaced by its small-angle lemma. *)
From Coq Require Import Reals ZArith List Bool Lra Lia String.
From PyLib Require Import PyVal PyBuiltins Ideal Whnf PyEval.
From Gen Require Import M_base M_Angle M_Epoch.
From Proofs.C14 Require Import C14_tac C14_angle.
Import ListNotations.
Open Scope R_scope.

Ltac2 Set Whnf.is_blocked as old := fun c =>
  Ltac2.Bool.or (old c) (Ltac2.Constr.equal c '@Angle_reduce_deg).

Ltac reduce_hook s :=
  lazymatch s with
  | Angle_reduce_deg Rops (VFloat ?a) =>
      rewrite (reduce_small a) by (expose_R; zsimp; Rlit_norm; lra)
  end.

Ltac py_stuck_hook s ::= reduce_hook s.

Lemma angle_new_small a : -360 < a < 360 ->
  Angle___init__ Rops (VObj cAngle [VNone; VNone]) (VTuple [VFloat a]) (VDict []) = ang a.
Proof. intros Ha. unfold ang, tol0. pyrun2. reflexivity. Qed.

Lemma angle_copy a : -360 < a < 360 ->
  Angle___init__ Rops (VObj cAngle [VNone; VNone]) (VTuple [ang a]) (VDict []) = ang a.
Proof. intros Ha. unfold ang, tol0. pyrun2. reflexivity. Qed.

Lemma angle_rsub p x : -360 < p - x < 360 ->
  Angle___rsub__ Rops (ang p) (VFloat x) = ang (x - p).
Proof.
  intros Ha. unfold ang, tol0. pyrun2.
  replace (- (p + - x)) with (x - p) by ring. reflexivity.
Qed.

(* the polar-circle limit of Epoch.rise_set: Angle(66, 33, 0) = 66.55 degrees *)
Lemma angle_limit :
  Angle___init__ Rops (VObj cAngle [VNone; VNone]) (VTuple [VInt 66; VInt 33; VInt 0]) (VDict []) = ang (6655 / 100).
Proof.
  unfold ang, tol0. pyrun2_using zlra. zsimp. Rlit_norm.
  do 3 f_equal. lra.
Qed.
