(* C14_sA3: structure of get_equinox_solstice for season 3, year table A *)
From Coq Require Import Reals ZArith List Bool Lra Lia String.
From PyLib Require Import PyVal PyBuiltins Ideal Whnf PyEval.
From Gen Require Import M_base M_Angle M_Epoch M_Interpolation M_Coordinates M_Earth M_Sun.
From Proofs.C14 Require Import C14_tac C14_angle C14_angle2 C14_season.
Import ListNotations.
Open Scope R_scope.

Ltac2 Set Whnf.is_blocked as old := fun c =>
  Ltac2.Bool.or (old c)
   (Ltac2.List.exist (Ltac2.Constr.equal c)
     ['@Sun_apparent_geocentric_position; '@Epoch___init__; '@Angle___init__; '@Angle___rsub__;
      '@Angle_to_positive; 'loop_fuel; 'Z.geb; 'Z.ltb; 'Z.leb; 'Z.gtb]).


Ltac py_stuck_hook s ::= season_hook s.

Lemma season_structure_A3 (D : R -> Prop) y : (-1000 <= y < 1000)%Z -> CtorExact D -> D (jde0 3 y) -> SeasonStructure D 3 y.
Proof. unfold SeasonStructure, CtorExact. season_structure. Qed.
