(* C14_poly: ordering and spacing of the mean instants (the polynomials that
   C14_season.season_structure_all shows the generated code to evaluate), by interval arithmetic. *)
From Coq Require Import Reals ZArith Lra Lia.
From Interval Require Import Tactic.
From PyLib Require Import PyVal Ideal.
From Gen Require Import M_base M_Angle M_Epoch M_Interpolation M_Coordinates M_Earth M_Sun.
From Proofs.C14 Require Import C14_tac C14_angle C14_season.
Open Scope R_scope.

Lemma orderA Y : -1 <= Y <= 1 ->
  88 <= jdeA 1 Y - jdeA 0 Y <= 95 /\ 88 <= jdeA 2 Y - jdeA 1 Y <= 95 /\ 88 <= jdeA 3 Y - jdeA 2 Y <= 95.
Proof. intros H. unfold jdeA. repeat split; interval with (i_taylor Y, i_degree 5, i_prec 80). Qed.

Lemma orderB Y : -1 <= Y <= 1 ->
  88 <= jdeB 1 Y - jdeB 0 Y <= 95 /\ 88 <= jdeB 2 Y - jdeB 1 Y <= 95 /\ 88 <= jdeB 3 Y - jdeB 2 Y <= 95.
Proof. intros H. unfold jdeB. repeat split; interval with (i_taylor Y, i_degree 5, i_prec 80). Qed.

(* winter of one year to spring of the next (Y + 1/1000) *)
Lemma winter_springA Y : -1 <= Y <= 1 -> 88 <= jdeA 0 (Y + 1/1000) - jdeA 3 Y <= 95.
Proof. intros H. unfold jdeA. split; interval with (i_taylor Y, i_degree 5, i_prec 80). Qed.
Lemma winter_springB Y : -1 <= Y <= 1 -> 88 <= jdeB 0 (Y + 1/1000) - jdeB 3 Y <= 95.
Proof. intros H. unfold jdeB. split; interval with (i_taylor Y, i_degree 5, i_prec 80). Qed.

(* same season in consecutive years *)
Lemma year_lengthA k Y : (0 <= k <= 3)%Z -> -1 <= Y <= 1 ->
  3652/10 <= jdeA k (Y + 1/1000) - jdeA k Y <= 3653/10.
Proof.
  intros Hk H. assert (k = 0 \/ k = 1 \/ k = 2 \/ k = 3)%Z as [-> | [-> | [-> | ->]]] by lia;
  unfold jdeA; split; interval with (i_taylor Y, i_degree 5, i_prec 80).
Qed.
Lemma year_lengthB k Y : (0 <= k <= 3)%Z -> -1 <= Y <= 1 ->
  3652/10 <= jdeB k (Y + 1/1000) - jdeB k Y <= 3653/10.
Proof.
  intros Hk H. assert (k = 0 \/ k = 1 \/ k = 2 \/ k = 3)%Z as [-> | [-> | [-> | ->]]] by lia;
  unfold jdeB; split; interval with (i_taylor Y, i_degree 5, i_prec 80).
Qed.

(* the joint: year 999 (table A) to year 1000 (table B), and both tables at year 1000 *)
Lemma joint_year_length k : (0 <= k <= 3)%Z ->
  3652/10 <= jdeB k (-1) - jdeA k (999/1000) <= 3653/10.
Proof.
  intros Hk. assert (k = 0 \/ k = 1 \/ k = 2 \/ k = 3)%Z as [-> | [-> | [-> | ->]]] by lia;
  unfold jdeA, jdeB; lra.
Qed.
Lemma joint_continuity k : (0 <= k <= 3)%Z -> Rabs (jdeB k (-1) - jdeA k 1) <= 1/100.
Proof.
  intros Hk. assert (k = 0 \/ k = 1 \/ k = 2 \/ k = 3)%Z as [-> | [-> | [-> | ->]]] by lia;
  unfold jdeA, jdeB; apply Rabs_le; lra.
Qed.

(* for integer years, through jde0 as the code selects it *)
Theorem season_order y : (-1000 <= y <= 3000)%Z ->
  88 <= jde0 1 y - jde0 0 y <= 95 /\ 88 <= jde0 2 y - jde0 1 y <= 95 /\ 88 <= jde0 3 y - jde0 2 y <= 95.
Proof.
  intros Hy. unfold jde0. destruct (y <? 1000)%Z eqn:E.
  - apply orderA. apply Z.ltb_lt in E.
    assert (-1000 <= IZR y <= 1000) by (split; apply IZR_le; lia). lra.
  - apply orderB. apply Z.ltb_ge in E.
    assert (1000 <= IZR y <= 3000) by (split; apply IZR_le; lia). lra.
Qed.

Theorem season_year_length k y : (0 <= k <= 3)%Z -> (-1000 <= y < 3000)%Z ->
  3652/10 <= jde0 k (y + 1) - jde0 k y <= 3653/10.
Proof.
  intros Hk Hy. unfold jde0. rewrite plus_IZR.
  destruct (y <? 1000)%Z eqn:E; destruct (y + 1 <? 1000)%Z eqn:E1.
  - apply Z.ltb_lt in E.
    assert (-1000 <= IZR y <= 1000) by (split; apply IZR_le; lia).
    replace ((IZR y + 1) / 1000) with (IZR y / 1000 + 1/1000) by field.
    apply year_lengthA; [assumption | lra].
  - apply Z.ltb_lt in E. apply Z.ltb_ge in E1. assert (y = 999)%Z as -> by lia.
    replace ((999 + 1 - 2000) / 1000) with (-1) by field.
    apply joint_year_length. assumption.
  - apply Z.ltb_ge in E. apply Z.ltb_lt in E1. lia.
  - apply Z.ltb_ge in E.
    assert (1000 <= IZR y <= 3000) by (split; apply IZR_le; lia).
    replace ((IZR y + 1 - 2000) / 1000) with ((IZR y - 2000) / 1000 + 1/1000) by field.
    apply year_lengthB; [assumption | lra].
Qed.
