(* C18_dist_f: Earth.distance of the generated model on four float arguments (ideal instance):
   (0,0) when s = 0, ZeroDivisionError when c = 0, Andoyer's formula of C18_spec otherwise. *)
From Coq Require Import Reals ZArith List Bool Lra Lia String.
From PyLib Require Import PyVal PyBuiltins Ideal Whnf PyEval.
From Gen Require Import M_base M_Angle M_Epoch M_Interpolation M_Coordinates M_Earth.
From Proofs.C18 Require Import C18_tac C18_spec C18_defs.
Import ListNotations.
Open Scope R_scope.

Section Dist.
Context (a f w : R).

Lemma dist_float_zero l1 p1 l2 p2 :
  hav_s (rad l1) (rad p1) (rad l2) (rad p2) = 0 ->
  Earth_distance Rops (earth a f w) (VFloat l1) (VFloat p1) (VFloat l2) (VFloat p2) = zero_pair.
Proof. intro H. dist_zero H. Qed.

Lemma dist_float_antipodal l1 p1 l2 p2 :
  hav_c (rad l1) (rad p1) (rad l2) (rad p2) = 0 ->
  Earth_distance Rops (earth a f w) (VFloat l1) (VFloat p1) (VFloat l2) (VFloat p2)
  = VErr ZeroDivisionError.
Proof. intro H. dist_anti H l1 p1 l2 p2. Qed.

Lemma dist_float_main l1 p1 l2 p2 :
  0 < hav_s (rad l1) (rad p1) (rad l2) (rad p2) ->
  0 < hav_c (rad l1) (rad p1) (rad l2) (rad p2) ->
  Earth_distance Rops (earth a f w) (VFloat l1) (VFloat p1) (VFloat l2) (VFloat p2)
  = dist_pair a f (rad l1) (rad p1) (rad l2) (rad p2).
Proof. intros HS HC. dist_main HS HC l1 p1 l2 p2. Qed.

End Dist.
