(* C18_pecl: closed form of Earth.parallax_ecliptical in the generated model (ideal instance). *)
From Coq Require Import Reals ZArith List Bool Lra Lia String.
From PyLib Require Import PyVal PyBuiltins Ideal Whnf PyEval.
From Gen Require Import M_base M_Angle M_Epoch M_Interpolation M_Coordinates M_Earth.
From Proofs.C18 Require Import C18_tac C18_spec C18_defs C18_bridge C18_par.
Import ListNotations.
Open Scope R_scope.

(* ---- Angle helpers, evaluated with the plain evaluator *)
From Ltac2 Require Ltac2.
Ltac2 Set Whnf.is_blocked := fun c =>
  Ltac2.List.exist (Ltac2.Constr.equal c)
    ['@bind; 'Rltb; 'Rleb; 'Reqb; 'Rfloor; 'Rtrunc; 'Rround; 'is_int; 'Rfmod; 'Rround_nd;
     'Rlit; 'atan2; 'Rpow; 'pow10; 'Rabs; 'sqrt; 'sin; 'cos; 'tan; 'asin; 'acos; 'atan;
     'exp; 'ln; 'Rpower; 'powerRZ; 'IZR; 'PI; '@fpow].
Ltac py_user_stuck s ::= fail.

Notation angv x t := (VObj cAngle [VFloat x; VFloat t]).

Lemma angle_of_deg x : Rabs x < 360 ->
  Angle___init__ Rops blank (mk_tuple [VFloat x]) (mk_dict []) = angv x tol0.
Proof. intro H. pyrunx. reflexivity. Qed.

Definition pos360 (x : R) : R := if Rlt_dec x 0 then 360 - Rabs x else x.

Lemma angle_to_positive x t : -360 < x < 360 ->
  Angle_to_positive Rops (angv x t) = VTuple [angv (pos360 x) t; angv (pos360 x) t].
Proof.
  intro H. unfold pos360. destruct (Rlt_dec x 0) as [Hn|Hn].
  - assert (Rabs x = - x) by (apply Rabs_left; lra). pyrunx. Rlit_norm.
    replace (3600 / 10 - Rabs x) with (360 - Rabs x) by lra. reflexivity.
  - pyrunx. reflexivity.
Qed.

Lemma angle_gt_float x t y : Angle___gt__ Rops (angv x t) (VFloat y) = VBool (Rltb y x).
Proof. pyrunx. reflexivity. Qed.
Lemma angle_lt_float x t y : Angle___lt__ Rops (angv x t) (VFloat y) = VBool (Rltb x y).
Proof. pyrunx. reflexivity. Qed.

Lemma angle_sub_float x t y : Rabs (x + - y) < 360 ->
  Angle___sub__ Rops (angv x t) (VFloat y) = angv (x + - y) tol0.
Proof. intro H. pyrunx. reflexivity. Qed.
Lemma angle_add_float x t y : Rabs (x + y) < 360 ->
  Angle___add__ Rops (angv x t) (VFloat y) = angv (x + y) tol0.
Proof. intro H. pyrunx. reflexivity. Qed.

(* ---- the main function with the characterised calls blocked *)
Ltac2 Set Whnf.is_blocked := fun c =>
  Ltac2.List.exist (Ltac2.Constr.equal c)
    ['@bind; 'Rltb; 'Rleb; 'Reqb; 'Rfloor; 'Rtrunc; 'Rround; 'is_int; 'Rfmod; 'Rround_nd;
     'Rlit; 'atan2; 'Rpow; 'pow10; 'Rabs; 'sqrt; 'sin; 'cos; 'tan; 'asin; 'acos; 'atan;
     'exp; 'ln; 'Rpower; 'powerRZ; 'IZR; 'PI; '@fpow;
     '@Angle___init__; '@Earth___init__; '@Earth_rho_sinphi; '@Earth_rho_cosphi;
     '@Angle_to_positive; '@Angle___gt__; '@Angle___lt__; '@Angle___sub__; '@Angle___add__].

Lemma atan2_deg_range y x : -360 < deg (atan2 y x) < 360.
Proof. generalize (atan2_deg_bound y x). unfold Rabs. destruct (Rcase_abs _); lra. Qed.
Ltac pecl_side := first [ assumption | apply atan2_deg_bound | apply atan2_deg_range | pylra ].
Ltac py_user_stuck s ::=
  lazymatch s with
  | @Earth___init__ _ _ _ _ => rewrite earth_default
  | @Earth_rho_sinphi _ _ _ _ _ =>
      erewrite (rho_sinphi_ok a_wgs f_wgs w_wgs) by (first [exact a_wgs_nz | constructor])
  | @Earth_rho_cosphi _ _ _ _ _ =>
      erewrite (rho_cosphi_ok a_wgs f_wgs w_wgs) by (first [exact a_wgs_nz | constructor])
  | @Angle___init__ _ _ _ _ _ =>
      expose_R; first [ rewrite angle_pi0 | rewrite angle_of_rad by pecl_side ]
  | @Angle_to_positive _ _ _ => rewrite angle_to_positive by pecl_side
  | @Angle___gt__ _ _ _ _ => rewrite angle_gt_float
  | @Angle___lt__ _ _ _ _ => rewrite angle_lt_float
  | @Angle___sub__ _ _ _ _ => expose_R; rewrite angle_sub_float by pecl_side
  | @Angle___add__ _ _ _ _ => expose_R; rewrite angle_add_float by pecl_side
  end.

(* ---- model-shaped real expressions (observer: WGS84, latitude obs, height h) *)
Section Ecl.
Context (lon lat semi obs eps sid dist h : R).
Definition ecl_rc : R := rho_cos a_wgs f_wgs h (rad obs).
Definition ecl_rs : R := rho_sin a_wgs f_wgs h (rad obs).
Definition ecl_k : R := sin (pi0_deg * (PI / 180)) / dist.
Definition ecl_n : R :=
  cos (lon * (PI / 180)) * cos (lat * (PI / 180)) - ecl_rc * ecl_k * cos (sid * (PI / 180)).
Definition ecl_Y : R :=
  sin (lon * (PI / 180)) * cos (lat * (PI / 180))
  - ecl_k * (ecl_rs * sin (eps * (PI / 180)) + ecl_rc * cos (eps * (PI / 180)) * sin (sid * (PI / 180))).
Definition ecl_Z : R :=
  sin (lat * (PI / 180))
  - ecl_k * (ecl_rs * cos (eps * (PI / 180)) - ecl_rc * sin (eps * (PI / 180)) * sin (sid * (PI / 180))).
(* topocentric longitude in [0, 360) *)
Definition ecl_lon : R := pos360 (deg (atan2 ecl_Y ecl_n)).
(* the code's latitude before folding *)
Definition ecl_b0 : R := deg (atan2 (cos (ecl_lon * (PI / 180)) * ecl_Z) ecl_n).
Definition ecl_semi_arg (b : R) : R :=
  cos (ecl_lon * (PI / 180)) * cos (b * (PI / 180)) * sin (semi * (PI / 180)) / ecl_n.
End Ecl.

Lemma asin_deg_bound x : Rabs (deg (asin x)) < 360.
Proof.
  assert (HP := PI_RGT_0). generalize (asin_bound x). intro H. unfold deg.
  assert (E : 360 = 2 * PI * (180 / PI)) by (field; lra). rewrite E.
  rewrite Rabs_mult, (Rabs_right (180 / PI)).
  - apply Rmult_lt_compat_r; [apply Rdiv_lt_0_compat; lra|].
    unfold Rabs. destruct (Rcase_abs _); lra.
  - apply Rle_ge. left. apply Rdiv_lt_0_compat; lra.
Qed.
Ltac pecl_side ::= first [ assumption | apply atan2_deg_bound | apply atan2_deg_range | apply asin_deg_bound | pylra ].

Ltac ecl_unfold H := unfold ecl_semi_arg, ecl_b0, ecl_lon, ecl_Z, ecl_Y, ecl_n, ecl_k, ecl_rs, ecl_rc in H.

Definition c180 : R := Rlit 1800 (-1).
Lemma c180_eq : c180 = 180.
Proof. unfold c180. Rlit_norm. lra. Qed.
