(* C18_gc: Andoyer's distance (the formula of C18_spec, which the generated Earth.distance is
   proved to compute) against the great circle.  With s = hav_s, c = hav_c (s + c = 1),
   omega = atan(sqrt(s/c)) is half the central angle sigma between the two points on the
   sphere (sin^2(sigma/2) = s is the haversine formula), and
       a sigma (1 - 2 f) <= andoyer <= a sigma (1 + f)
   for every pair of points that is neither coincident nor antipodal.  Hence the distance is
   within 0.6 % of the great circle on the sphere of mean radius (2a + b)/3 when f <= 0.00359
   (both built-in ellipsoids). *)
From Coq Require Import Reals Lra Lia.
From Proofs.C18 Require Import C18_spec.
Open Scope R_scope.

Section Core.
Context (S C : R) (HS : 0 < S) (HC : 0 < C) (Hsum : S + C = 1).
Let t := sqrt (S / C).
Let om := atan t.

Lemma gc_SC_pos : 0 < S / C.
Proof. apply Rdiv_lt_0_compat; assumption. Qed.
Lemma gc_t_pos : 0 < t.
Proof. apply sqrt_lt_R0, gc_SC_pos. Qed.
Lemma gc_t_sq : t * t = S / C.
Proof. unfold t. apply sqrt_sqrt. left. apply gc_SC_pos. Qed.
Lemma gc_sqrt_1t2 : sqrt (1 + t²) = / sqrt C.
Proof.
  unfold Rsqr. rewrite gc_t_sq.
  replace (1 + S / C) with ((S + C) / C) by (field; lra). rewrite Hsum.
  rewrite sqrt_div_alt by exact HC. rewrite sqrt_1. unfold Rdiv. ring.
Qed.
Lemma gc_sqrtC_pos : 0 < sqrt C.
Proof. apply sqrt_lt_R0, HC. Qed.
Lemma gc_cos_om : cos om = sqrt C.
Proof.
  unfold om. rewrite cos_atan, gc_sqrt_1t2. generalize gc_sqrtC_pos. intro. field. lra.
Qed.
Lemma gc_sin_om : sin om = sqrt S.
Proof.
  unfold om. rewrite sin_atan, gc_sqrt_1t2. unfold t.
  rewrite sqrt_div_alt by exact HC. generalize gc_sqrtC_pos. intro. field. lra.
Qed.
Lemma gc_sin2_om : sin om * sin om = S.
Proof. rewrite gc_sin_om. apply sqrt_sqrt. lra. Qed.
Lemma gc_om_range : 0 < om < PI / 2.
Proof.
  unfold om. split.
  - rewrite <- atan_0. apply atan_increasing, gc_t_pos.
  - apply atan_bound.
Qed.
Lemma gc_sqrtSC : sqrt (S * C) = sin om * cos om.
Proof. rewrite gc_sin_om, gc_cos_om. apply sqrt_mult_alt. lra. Qed.

(* r = sin(2 omega) / (2 omega) lies in (0, 1) *)
Lemma gc_r_range : 0 < sqrt (S * C) / om < 1.
Proof.
  destruct gc_om_range as [H0 H1]. rewrite gc_sqrtSC.
  assert (Hs : 0 < sin om) by (rewrite gc_sin_om; apply sqrt_lt_R0, HS).
  assert (Hc : 0 < cos om) by (rewrite gc_cos_om; apply gc_sqrtC_pos).
  assert (Hc1 : cos om <= 1) by apply COS_bound.
  assert (Hlt : sin om < om) by (apply sin_lt_x, H0).
  split.
  - apply Rdiv_lt_0_compat; [apply Rmult_lt_0_compat|]; assumption.
  - apply Rmult_lt_reg_r with om; [exact H0|].
    unfold Rdiv. rewrite Rmult_assoc, Rinv_l by lra. nra.
Qed.

(* Andoyer's bracket lies in [-2, 1] when 0 <= X <= C, 0 <= Y <= S *)
Lemma gc_bracket r X Y : 0 < r < 1 -> 0 <= X <= C -> 0 <= Y <= S ->
  -2 <= (3 * r - 1) / (2 * C) * X - (3 * r + 1) / (2 * S) * Y <= 1.
Proof.
  intros Hr HX HY.
  set (p := X / C). set (s := Y / S).
  assert (Hp : 0 <= p <= 1).
  { unfold p. split; [apply Rmult_le_pos; [lra | left; apply Rinv_0_lt_compat, HC]|].
    apply Rmult_le_reg_r with C; [exact HC|]. unfold Rdiv. rewrite Rmult_assoc, Rinv_l by lra. lra. }
  assert (Hs : 0 <= s <= 1).
  { unfold s. split; [apply Rmult_le_pos; [lra | left; apply Rinv_0_lt_compat, HS]|].
    apply Rmult_le_reg_r with S; [exact HS|]. unfold Rdiv. rewrite Rmult_assoc, Rinv_l by lra. lra. }
  replace ((3 * r - 1) / (2 * C) * X - (3 * r + 1) / (2 * S) * Y)
    with ((3 * r - 1) / 2 * p - (3 * r + 1) / 2 * s) by (unfold p, s; field; lra).
  destruct (Rle_dec r (1 / 3)); split; nra.
Qed.

Lemma gc_core_bounds a fe s2f c2f s2g c2g : 0 < a -> 0 <= fe ->
  0 <= s2f * c2g <= C -> 0 <= c2f * s2g <= S ->
  2 * om * a * (1 - 2 * fe) <= andoyer_core a fe S C s2f c2f s2g c2g <= 2 * om * a * (1 + fe).
Proof.
  intros Ha Hfe HX HY. unfold andoyer_core. cbv zeta. fold t. fold om.
  set (r := sqrt (S * C) / om).
  assert (Hr : 0 < r < 1) by apply gc_r_range.
  assert (HB := gc_bracket r (s2f * c2g) (c2f * s2g) Hr HX HY).
  set (Br := (3 * r - 1) / (2 * C) * s2f * c2g - (3 * r + 1) / (2 * S) * c2f * s2g).
  assert (EB : Br = (3 * r - 1) / (2 * C) * (s2f * c2g) - (3 * r + 1) / (2 * S) * (c2f * s2g))
    by (unfold Br; ring).
  rewrite <- EB in HB.
  destruct gc_om_range as [H0 _].
  assert (Hd : 0 < 2 * om * a) by (apply Rmult_lt_0_compat; lra).
  split; apply Rmult_le_compat_l; try lra; nra.
Qed.
End Core.

(* sin^2 F cos^2 G <= c and cos^2 F sin^2 G <= s *)
Lemma sq_le_1_sin x : 0 <= sin x * sin x <= 1.
Proof. generalize (sq_sc x) (Rle_0_sqr (sin x)) (Rle_0_sqr (cos x)). unfold Rsqr. lra. Qed.
Lemma sq_le_1_cos x : 0 <= cos x * cos x <= 1.
Proof. generalize (sq_sc x) (Rle_0_sqr (sin x)) (Rle_0_sqr (cos x)). unfold Rsqr. lra. Qed.

Lemma mix_ge_prod x y t : 0 <= x <= 1 -> 0 <= y <= 1 -> 0 <= t <= 1 -> x * y <= x * t + y * (1 - t).
Proof.
  intros Hx Hy Ht.
  assert (E : x * t + y * (1 - t) - x * y = x * t * (1 - y) + y * (1 - t) * (1 - x)) by ring.
  assert (0 <= x * t * (1 - y)) by (apply Rmult_le_pos; [apply Rmult_le_pos|]; lra).
  assert (0 <= y * (1 - t) * (1 - x)) by (apply Rmult_le_pos; [apply Rmult_le_pos|]; lra).
  lra.
Qed.

Lemma XY_bounds l1 p1 l2 p2 :
  0 <= sin ((p1 + p2) / 2) * sin ((p1 + p2) / 2) * (cos ((p1 - p2) / 2) * cos ((p1 - p2) / 2))
    <= hav_c l1 p1 l2 p2 /\
  0 <= cos ((p1 + p2) / 2) * cos ((p1 + p2) / 2) * (sin ((p1 - p2) / 2) * sin ((p1 - p2) / 2))
    <= hav_s l1 p1 l2 p2.
Proof.
  unfold hav_s, hav_c.
  set (F := (p1 + p2) / 2). set (G := (p1 - p2) / 2). set (L := (l1 - l2) / 2).
  generalize (sq_le_1_sin F) (sq_le_1_cos F) (sq_le_1_sin G) (sq_le_1_cos G) (sq_le_1_cos L) (sq_sc L).
  intros HsF HcF HsG HcG HcL HL.
  replace (sin L * sin L) with (1 - cos L * cos L) by lra.
  split; split.
  - apply Rmult_le_pos; lra.
  - generalize (mix_ge_prod (cos G * cos G) (sin F * sin F) (cos L * cos L) HcG HsF HcL). lra.
  - apply Rmult_le_pos; lra.
  - generalize (mix_ge_prod (sin G * sin G) (cos F * cos F) (cos L * cos L) HsG HcF HcL). lra.
Qed.

(* half the central angle *)
Definition half_arc (l1 p1 l2 p2 : R) : R := atan (sqrt (hav_s l1 p1 l2 p2 / hav_c l1 p1 l2 p2)).

(* s is the haversine of the central angle: the standard great-circle formula *)
Lemma prod_cos F G : cos (F + G) * cos (F - G) = cos F * cos F - sin G * sin G.
Proof.
  rewrite cos_plus, cos_minus. generalize (sq_sc F) (sq_sc G). intros HF HG.
  assert (E : (cos F * cos G - sin F * sin G) * (cos F * cos G + sin F * sin G)
              = cos F * cos F * (cos G * cos G) - sin F * sin F * (sin G * sin G)) by ring.
  rewrite E. replace (cos G * cos G) with (1 - sin G * sin G) by lra.
  replace (sin F * sin F) with (1 - cos F * cos F) by lra. ring.
Qed.

Lemma hav_s_haversine l1 p1 l2 p2 :
  hav_s l1 p1 l2 p2
  = sin ((p1 - p2) / 2) * sin ((p1 - p2) / 2)
    + cos p1 * cos p2 * (sin ((l1 - l2) / 2) * sin ((l1 - l2) / 2)).
Proof.
  unfold hav_s.
  replace (cos p1 * cos p2) with (cos ((p1 + p2) / 2 + (p1 - p2) / 2) * cos ((p1 + p2) / 2 - (p1 - p2) / 2))
    by (f_equal; f_equal; lra).
  rewrite prod_cos.
  generalize (sq_sc ((l1 - l2) / 2)). intro HL.
  replace (cos ((l1 - l2) / 2) * cos ((l1 - l2) / 2)) with (1 - sin ((l1 - l2) / 2) * sin ((l1 - l2) / 2)) by lra.
  ring.
Qed.

Lemma half_arc_spec l1 p1 l2 p2 : 0 < hav_s l1 p1 l2 p2 -> 0 < hav_c l1 p1 l2 p2 ->
  0 < half_arc l1 p1 l2 p2 < PI / 2 /\
  sin (half_arc l1 p1 l2 p2) * sin (half_arc l1 p1 l2 p2) = hav_s l1 p1 l2 p2.
Proof.
  intros HS HC. unfold half_arc. split.
  - apply (gc_om_range _ _ HS HC).
  - apply (gc_sin2_om _ _ HS HC (hav_sum l1 p1 l2 p2)).
Qed.

(* Andoyer's distance between a sigma (1 - 2f) and a sigma (1 + f), sigma = 2 half_arc *)
Theorem andoyer_great_circle a fe l1 p1 l2 p2 : 0 < a -> 0 <= fe ->
  0 < hav_s l1 p1 l2 p2 -> 0 < hav_c l1 p1 l2 p2 ->
  a * (2 * half_arc l1 p1 l2 p2) * (1 - 2 * fe) <= andoyer a fe l1 p1 l2 p2
  <= a * (2 * half_arc l1 p1 l2 p2) * (1 + fe).
Proof.
  intros Ha Hfe HS HC. unfold andoyer, half_arc.
  destruct (XY_bounds l1 p1 l2 p2) as [HX HY].
  generalize (gc_core_bounds _ _ HS HC (hav_sum l1 p1 l2 p2) a fe _ _ _ _ Ha Hfe HX HY).
  intros [H1 H2]. split; [eapply Rle_trans; [|exact H1] | eapply Rle_trans; [exact H2|]]; right; ring.
Qed.

(* within 0.6 % of the great circle on the sphere of mean radius (2a + b)/3 for f <= 0.00359 *)
Theorem andoyer_mean_sphere a fe l1 p1 l2 p2 : 0 < a -> 0 <= fe <= 359 / 100000 ->
  0 < hav_s l1 p1 l2 p2 -> 0 < hav_c l1 p1 l2 p2 ->
  let gc := (2 * a + semi_minor a fe) / 3 * (2 * half_arc l1 p1 l2 p2) in
  Rabs (andoyer a fe l1 p1 l2 p2 - gc) <= 6 / 1000 * gc.
Proof.
  intros Ha Hfe HS HC gc.
  destruct (andoyer_great_circle a fe l1 p1 l2 p2 Ha (proj1 Hfe) HS HC) as [H1 H2].
  destruct (half_arc_spec l1 p1 l2 p2 HS HC) as [[Ho _] _].
  set (sg := 2 * half_arc l1 p1 l2 p2) in *.
  assert (Hsg : 0 < a * sg) by (apply Rmult_lt_0_compat; unfold sg; lra).
  assert (Eg : gc = a * sg * (1 - fe / 3)) by (unfold gc, semi_minor; field).
  rewrite Eg. apply Rabs_le. split; nra.
Qed.
