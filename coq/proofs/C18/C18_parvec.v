(* C18_parvec: the observer's geocentric distance rho = sqrt(rho_cos^2 + rho_sin^2) is at most
   1 + |h|/a (equatorial radii), for every latitude, 0 <= f <= 1. *)
From Coq Require Import Reals Lra Lia.
From Proofs.C18 Require Import C18_spec.
Open Scope R_scope.

Lemma rho_sq_bound a f h phi : 0 <= f <= 1 ->
  rho_cos a f h phi * rho_cos a f h phi + rho_sin a f h phi * rho_sin a f h phi
  <= (1 + Rabs (h / a)) * (1 + Rabs (h / a)).
Proof.
  intro Hf. unfold rho_cos, rho_sin. set (u := ulat f phi). set (e := h / a). set (g := 1 - f).
  assert (Hg : 0 <= g <= 1) by (unfold g; lra).
  generalize (sq_sc u) (sq_sc phi). intros Hu Hp.
  assert (Hsu : 0 <= sin u * sin u) by apply Rle_0_sqr.
  assert (Hgg : g * g <= 1) by nra.
  (* first part <= 1 *)
  assert (P1 : cos u * cos u + g * sin u * (g * sin u) <= 1).
  { replace (g * sin u * (g * sin u)) with (g * g * (sin u * sin u)) by ring.
    assert (g * g * (sin u * sin u) <= 1 * (sin u * sin u)) by (apply Rmult_le_compat_r; lra). lra. }
  (* cross term: |X| <= 1 by Cauchy-Schwarz *)
  set (X := cos u * cos phi + g * sin u * sin phi).
  assert (PX : X * X <= 1).
  { assert (Q : X * X = (cos u * cos u + g * sin u * (g * sin u)) * (sin phi * sin phi + cos phi * cos phi)
                       - (cos u * sin phi - g * sin u * cos phi) * (cos u * sin phi - g * sin u * cos phi))
      by (unfold X; ring).
    rewrite Q, Hp. generalize (Rle_0_sqr (cos u * sin phi - g * sin u * cos phi)). unfold Rsqr. lra. }
  assert (PXa : Rabs X <= 1).
  { replace 1 with (Rabs 1) by (apply Rabs_right; lra). apply Rsqr_le_abs_0. unfold Rsqr. lra. }
  assert (Ecross : 2 * e * X <= 2 * Rabs e).
  { assert (e * X <= Rabs (e * X)) by apply Rle_abs. rewrite Rabs_mult in H.
    assert (Rabs e * Rabs X <= Rabs e * 1) by (apply Rmult_le_compat_l; [apply Rabs_pos | exact PXa]). lra. }
  assert (Ee : e * e = Rabs e * Rabs e) by (unfold Rabs; destruct (Rcase_abs e); ring).
  replace ((cos u + e * cos phi) * (cos u + e * cos phi) + (g * sin u + e * sin phi) * (g * sin u + e * sin phi))
    with (cos u * cos u + g * sin u * (g * sin u) + 2 * e * X + e * e * (sin phi * sin phi + cos phi * cos phi))
    by (unfold X; ring).
  rewrite Hp, Ee. nra.
Qed.

Lemma rho_bound a f h phi : 0 <= f <= 1 ->
  sqrt (rho_cos a f h phi * rho_cos a f h phi + rho_sin a f h phi * rho_sin a f h phi) <= 1 + Rabs (h / a).
Proof.
  intro Hf. assert (0 <= Rabs (h / a)) by apply Rabs_pos.
  rewrite <- (sqrt_square (1 + Rabs (h / a))) by lra.
  apply sqrt_le_1_alt, rho_sq_bound, Hf.
Qed.
