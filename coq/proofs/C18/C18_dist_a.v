(* C18_dist_a: the same as C18_dist_f for four Angle arguments. *)
From Coq Require Import Reals ZArith List Bool Lra Lia String.
From PyLib Require Import PyVal PyBuiltins Ideal Whnf PyEval.
From Gen Require Import M_base M_Angle M_Epoch M_Interpolation M_Coordinates M_Earth.
From Proofs.C18 Require Import C18_tac C18_spec C18_defs.
Import ListNotations.
Open Scope R_scope.

Section Dist.
Context (a f w : R).

Lemma dist_angle_zero l1 t1 p1 t2 l2 t3 p2 t4 :
  hav_s (rad l1) (rad p1) (rad l2) (rad p2) = 0 ->
  Earth_distance Rops (earth a f w) (ang l1 t1) (ang p1 t2) (ang l2 t3) (ang p2 t4) = zero_pair.
Proof. intro H. dist_zero H. Qed.

Lemma dist_angle_antipodal l1 t1 p1 t2 l2 t3 p2 t4 :
  hav_c (rad l1) (rad p1) (rad l2) (rad p2) = 0 ->
  Earth_distance Rops (earth a f w) (ang l1 t1) (ang p1 t2) (ang l2 t3) (ang p2 t4)
  = VErr ZeroDivisionError.
Proof. intro H. dist_anti H l1 p1 l2 p2. Qed.

Lemma dist_angle_main l1 t1 p1 t2 l2 t3 p2 t4 :
  0 < hav_s (rad l1) (rad p1) (rad l2) (rad p2) ->
  0 < hav_c (rad l1) (rad p1) (rad l2) (rad p2) ->
  Earth_distance Rops (earth a f w) (ang l1 t1) (ang p1 t2) (ang l2 t3) (ang p2 t4)
  = dist_pair a f (rad l1) (rad p1) (rad l2) (rad p2).
Proof. intros HS HC. dist_main HS HC l1 p1 l2 p2. Qed.

End Dist.
