(* C18_pecl_all: closed form of Earth.parallax_ecliptical (ideal instance) for all three
   branches of the latitude folding. *)
From Coq Require Import Reals ZArith List Bool Lra Lia String.
From PyLib Require Import PyVal PyBuiltins Ideal.
From Gen Require Import M_base M_Angle M_Epoch M_Interpolation M_Coordinates M_Earth.
From Proofs.C18 Require Import C18_spec C18_defs C18_par C18_pecl C18_pecl_mid C18_pecl_hi C18_pecl_lo.
Import ListNotations.
Open Scope R_scope.

(* the latitude the code returns: atan2(cos lon' Z, n) folded into [-90, 90] *)
Definition ecl_lat (lon lat obs eps sid dist h : R) : R :=
  let b0 := ecl_b0 lon lat obs eps sid dist h in
  if Rlt_dec 90 b0 then b0 - 180 else if Rlt_dec b0 (-90) then b0 + 180 else b0.

Theorem parallax_ecliptical_closed lon t1 lat t2 semi t3 obs t4 eps t5 sid t6 dist h :
  dist <> 0 -> ecl_n lon lat obs sid dist h <> 0 ->
  -1 <= ecl_semi_arg lon lat semi obs eps sid dist h (ecl_lat lon lat obs eps sid dist h) <= 1 ->
  Earth_parallax_ecliptical Rops (ang lon t1) (ang lat t2) (ang semi t3) (ang obs t4) (ang eps t5) (ang sid t6) (VFloat dist) (VFloat h)
  = VTuple [ang (ecl_lon lon lat obs eps sid dist h) tol0;
            ang (ecl_lat lon lat obs eps sid dist h) tol0;
            ang (deg (asin (ecl_semi_arg lon lat semi obs eps sid dist h (ecl_lat lon lat obs eps sid dist h)))) tol0].
Proof.
  intros Hd Hn. unfold ecl_lat. cbv zeta.
  destruct (Rlt_dec 90 _) as [H1|H1].
  - replace (ecl_b0 lon lat obs eps sid dist h - 180) with (ecl_b0 lon lat obs eps sid dist h + - c180)
      by (rewrite c180_eq; ring).
    intro Ha. apply pecl_hi; assumption.
  - destruct (Rlt_dec _ (-90)) as [H2|H2].
    + replace (ecl_b0 lon lat obs eps sid dist h + 180) with (ecl_b0 lon lat obs eps sid dist h + c180)
        by (rewrite c180_eq; ring).
      intro Ha. apply pecl_lo; assumption.
    + intro Ha. apply pecl_mid; try assumption. lra.
Qed.
