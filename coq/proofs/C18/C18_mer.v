(* C18_mer: the meridian radius of curvature against its first-order expansion in f:
     | rm(phi) / a - (1 - 2 f + 3 f sin^2 phi) | <= 2 f^2     for 0 <= f <= 0.01, every phi. *)
From Coq Require Import Reals Lra Lia.
From Interval Require Import Tactic.
From Proofs.C18 Require Import C18_spec.
Open Scope R_scope.

(* 1 + 3/2 x + 15/8 x^2 <= 1 / y^3 <= 1 + 3/2 x + 2 x^2, x = 1 - y^2, for 0.98 <= y <= 1:
   the differences factor as (1-y)^3 r(y) and (1-y)^2 r2(y) *)
Lemma inv_cube_lower y : 0 < y <= 1 ->
  1 + 3 / 2 * (1 - y * y) + 15 / 8 * ((1 - y * y) * (1 - y * y)) <= / (y * y * y).
Proof.
  intros [H0 H1].
  assert (Hy3 : 0 < y * y * y) by (apply Rmult_lt_0_compat; [apply Rmult_lt_0_compat|]; lra).
  apply Rmult_le_reg_r with (y * y * y); [exact Hy3|]. rewrite Rinv_l by lra.
  assert (E : 1 - (1 + 3 / 2 * (1 - y * y) + 15 / 8 * ((1 - y * y) * (1 - y * y))) * (y * y * y)
              = (1 - y) * (1 - y) * (1 - y) * (1 + 3 * y + 6 * (y * y) + 45 / 8 * (y * y * y) + 15 / 8 * (y * y * y * y))) by field.
  assert (0 <= (1 - y) * (1 - y) * (1 - y)) by (apply Rmult_le_pos; [apply Rmult_le_pos|]; lra).
  assert (0 <= 1 + 3 * y + 6 * (y * y) + 45 / 8 * (y * y * y) + 15 / 8 * (y * y * y * y)).
  { assert (0 <= y * y) by nra. assert (0 <= y * y * y) by lra. assert (0 <= y * y * y * y) by nra. lra. }
  assert (0 <= (1 - y) * (1 - y) * (1 - y) * (1 + 3 * y + 6 * (y * y) + 45 / 8 * (y * y * y) + 15 / 8 * (y * y * y * y)))
    by (apply Rmult_le_pos; assumption).
  lra.
Qed.

Lemma inv_cube_upper y : 98 / 100 <= y <= 1 ->
  / (y * y * y) <= 1 + 3 / 2 * (1 - y * y) + 2 * ((1 - y * y) * (1 - y * y)).
Proof.
  intros [H0 H1].
  assert (Hy3 : 0 < y * y * y) by (apply Rmult_lt_0_compat; [apply Rmult_lt_0_compat|]; lra).
  apply Rmult_le_reg_r with (y * y * y); [exact Hy3|]. rewrite Rinv_l by lra.
  assert (E : (1 + 3 / 2 * (1 - y * y) + 2 * ((1 - y * y) * (1 - y * y))) * (y * y * y) - 1
              = (1 - y) * (1 - y) * (-1 - 2 * y - 3 * (y * y) + 1 / 2 * (y * y * y) + 4 * (y * y * y * y) + 2 * (y * y * y * y * y))) by field.
  assert (0 <= (1 - y) * (1 - y)) by (apply Rmult_le_pos; lra).
  assert (0 <= -1 - 2 * y - 3 * (y * y) + 1 / 2 * (y * y * y) + 4 * (y * y * y * y) + 2 * (y * y * y * y * y)) by (interval with (i_bisect y)).
  assert (0 <= (1 - y) * (1 - y) * (-1 - 2 * y - 3 * (y * y) + 1 / 2 * (y * y * y) + 4 * (y * y * y * y) + 2 * (y * y * y * y * y)))
    by (apply Rmult_le_pos; assumption).
  lra.
Qed.

(* the polynomial parts, scaled by f^2 (E = f e, e = 2 - f) *)
Lemma poly_up f s : 0 <= f <= 1 / 100 -> 0 <= s <= 1 ->
  1 - 3 / 2 * s * (1 + (2 - f) * (2 - f)) + 2 * (1 - f * (2 - f)) * ((2 - f) * (2 - f)) * (s * s) <= 2.
Proof.
  intros Hf Hs. set (e2 := (2 - f) * (2 - f)).
  assert (He : 0 <= e2 <= 4) by (unfold e2; nra).
  assert (Hc : 0 <= 1 - f * (2 - f) <= 1) by nra.
  assert (Hss : 0 <= s * s <= s) by nra.
  assert (H1 : 2 * (1 - f * (2 - f)) * e2 * (s * s) <= 2 * e2 * s).
  { assert ((1 - f * (2 - f)) * e2 <= 1 * e2) by (apply Rmult_le_compat_r; lra).
    assert (0 <= (1 - f * (2 - f)) * e2) by (apply Rmult_le_pos; lra).
    assert ((1 - f * (2 - f)) * e2 * (s * s) <= (1 - f * (2 - f)) * e2 * s) by (apply Rmult_le_compat_l; lra).
    assert ((1 - f * (2 - f)) * e2 * s <= e2 * s) by (apply Rmult_le_compat_r; lra).
    lra. }
  assert (H2 : e2 * s <= 4 * s) by (apply Rmult_le_compat_r; lra).
  assert (0 <= e2 * s) by (apply Rmult_le_pos; lra).
  lra.
Qed.

Lemma poly_lo f s : 0 <= f <= 1 / 100 -> 0 <= s <= 1 ->
  - 2 <= 1 - 3 / 2 * s * (1 + (2 - f) * (2 - f)) + 15 / 8 * (1 - f * (2 - f)) * ((2 - f) * (2 - f)) * (s * s).
Proof.
  intros Hf Hs.
  set (A := 15 / 8 * (1 - f * (2 - f)) * ((2 - f) * (2 - f))).
  set (B := 3 / 2 * (1 + (2 - f) * (2 - f))).
  assert (Hc : 98 / 100 <= 1 - f * (2 - f) <= 1) by nra.
  assert (He : 396 / 100 <= (2 - f) * (2 - f) <= 4) by nra.
  assert (HA : 7 <= A).
  { unfold A. assert (98 / 100 * (396 / 100) <= (1 - f * (2 - f)) * ((2 - f) * (2 - f))) by (apply Rmult_le_compat; lra).
    replace (15 / 8 * (1 - f * (2 - f)) * ((2 - f) * (2 - f))) with (15 / 8 * ((1 - f * (2 - f)) * ((2 - f) * (2 - f)))) by ring. lra. }
  assert (HB : 0 <= B <= 15 / 2) by (unfold B; lra).
  replace (3 / 2 * s * (1 + (2 - f) * (2 - f))) with (B * s) by (unfold B; field).
  clearbody A B.
  assert (Sq : 0 <= (2 * A * s - B) * (2 * A * s - B)) by apply Rle_0_sqr.
  assert (Id : 4 * A * (3 - B * s + A * (s * s)) = (2 * A * s - B) * (2 * A * s - B) + (12 * A - B * B)) by ring.
  assert (HBB : B * B <= 15 / 2 * (15 / 2)) by (apply Rmult_le_compat; lra).
  assert (Hpos : 0 <= 4 * A * (3 - B * s + A * (s * s))) by (rewrite Id; lra).
  assert (0 <= 3 - B * s + A * (s * s)).
  { destruct (Rle_dec 0 (3 - B * s + A * (s * s))) as [|Hn]; [assumption|].
    assert (0 < 4 * A * (- (3 - B * s + A * (s * s)))) by (apply Rmult_lt_0_compat; lra). lra. }
  set (Q := 3 - B * s + A * (s * s)) in *.
  replace (1 - B * s + A * (s * s)) with (Q - 2) by (unfold Q; ring). lra.
Qed.

Lemma rm_lin_pointwise f s : 0 <= f <= 1 / 100 -> 0 <= s <= 1 ->
  Rabs ((1 - ecc2 f) / ((1 - ecc2 f * s) * sqrt (1 - ecc2 f * s)) - (1 - 2 * f + 3 * f * s)) <= 2 * (f * f).
Proof.
  intros Hf Hs. unfold ecc2. set (E := 2 * f - f * f). set (w := 1 - E * s). set (y := sqrt w).
  assert (HE : 0 <= E <= 2 / 100) by (unfold E; nra).
  assert (HEe : E = f * (2 - f)) by (unfold E; ring).
  assert (Hw : 98 / 100 <= w <= 1) by (unfold w; nra).
  assert (Hyy : y * y = w) by (unfold y; apply sqrt_sqrt; lra).
  assert (Hy : 98 / 100 <= y <= 1).
  { split.
    - unfold y. apply Rsqr_incr_0_var; [|apply sqrt_pos]. unfold Rsqr. rewrite sqrt_sqrt by lra. lra.
    - unfold y. rewrite <- sqrt_1. apply sqrt_le_1_alt. lra. }
  assert (Hx : 1 - y * y = E * s) by (rewrite Hyy; unfold w; ring).
  assert (Hy0 : 0 < y <= 1) by lra.
  assert (Hlo := inv_cube_lower y Hy0).
  assert (Hup := inv_cube_upper y Hy).
  rewrite Hx in Hlo, Hup.
  set (I := / (y * y * y)) in *.
  replace ((1 - E) / (w * y)) with ((1 - E) * I) by (unfold I, Rdiv; rewrite <- Hyy; reflexivity).
  assert (H1E : 0 <= 1 - E) by lra.
  assert (Pu := poly_up f s Hf Hs). assert (Pl := poly_lo f s Hf Hs).
  assert (Hff : 0 <= f * f) by nra.
  (* upper *)
  assert (U : (1 - E) * I - (1 - 2 * f + 3 * f * s)
              <= f * f * (1 - 3 / 2 * s * (1 + (2 - f) * (2 - f)) + 2 * (1 - f * (2 - f)) * ((2 - f) * (2 - f)) * (s * s))).
  { assert ((1 - E) * I <= (1 - E) * (1 + 3 / 2 * (E * s) + 2 * (E * s * (E * s)))) by (apply Rmult_le_compat_l; assumption).
    assert (Q : (1 - E) * (1 + 3 / 2 * (E * s) + 2 * (E * s * (E * s))) - (1 - 2 * f + 3 * f * s)
                = f * f * (1 - 3 / 2 * s * (1 + (2 - f) * (2 - f)) + 2 * (1 - f * (2 - f)) * ((2 - f) * (2 - f)) * (s * s)))
      by (rewrite HEe; field).
    lra. }
  assert (L : f * f * (1 - 3 / 2 * s * (1 + (2 - f) * (2 - f)) + 15 / 8 * (1 - f * (2 - f)) * ((2 - f) * (2 - f)) * (s * s))
              <= (1 - E) * I - (1 - 2 * f + 3 * f * s)).
  { assert ((1 - E) * (1 + 3 / 2 * (E * s) + 15 / 8 * (E * s * (E * s))) <= (1 - E) * I) by (apply Rmult_le_compat_l; assumption).
    assert (Q : (1 - E) * (1 + 3 / 2 * (E * s) + 15 / 8 * (E * s * (E * s))) - (1 - 2 * f + 3 * f * s)
                = f * f * (1 - 3 / 2 * s * (1 + (2 - f) * (2 - f)) + 15 / 8 * (1 - f * (2 - f)) * ((2 - f) * (2 - f)) * (s * s)))
      by (rewrite HEe; field).
    lra. }
  assert (U2 : f * f * (1 - 3 / 2 * s * (1 + (2 - f) * (2 - f)) + 2 * (1 - f * (2 - f)) * ((2 - f) * (2 - f)) * (s * s)) <= f * f * 2)
    by (apply Rmult_le_compat_l; assumption).
  assert (L2 : f * f * (- 2) <= f * f * (1 - 3 / 2 * s * (1 + (2 - f) * (2 - f)) + 15 / 8 * (1 - f * (2 - f)) * ((2 - f) * (2 - f)) * (s * s)))
    by (apply Rmult_le_compat_l; assumption).
  set (PU := 1 - 3 / 2 * s * (1 + (2 - f) * (2 - f)) + 2 * (1 - f * (2 - f)) * ((2 - f) * (2 - f)) * (s * s)) in *.
  set (PL := 1 - 3 / 2 * s * (1 + (2 - f) * (2 - f)) + 15 / 8 * (1 - f * (2 - f)) * ((2 - f) * (2 - f)) * (s * s)) in *.
  set (G := (1 - E) * I - (1 - 2 * f + 3 * f * s)) in *.
  clearbody PU PL G.
  apply Rabs_le. split.
  - apply Rle_trans with (f * f * PL); [|exact L]. apply Rle_trans with (f * f * (-2)); [right; ring | exact L2].
  - apply Rle_trans with (f * f * PU); [exact U|]. apply Rle_trans with (f * f * 2); [exact U2 | right; ring].
Qed.

(* in terms of the latitude *)
Definition mer_lin (a f phi : R) : R := a * (1 - 2 * f + 3 * f * (sin phi * sin phi)).

Lemma mer_radius_lin a f phi : 0 < a -> 0 <= f <= 1 / 100 ->
  Rabs (mer_radius a f phi - mer_lin a f phi) <= 2 * (f * f) * a.
Proof.
  intros Ha Hf. unfold mer_radius, mer_lin, wfac.
  assert (Hs : 0 <= sin phi * sin phi <= 1).
  { generalize (sq_sc phi) (Rle_0_sqr (sin phi)) (Rle_0_sqr (cos phi)). unfold Rsqr. lra. }
  assert (B := rm_lin_pointwise f (sin phi * sin phi) Hf Hs).
  replace (ecc2 f * sin phi * sin phi) with (ecc2 f * (sin phi * sin phi)) by ring.
  set (s := sin phi * sin phi) in *. set (W := (1 - ecc2 f * s) * sqrt (1 - ecc2 f * s)) in *.
  replace (a * (1 - ecc2 f) / W - a * (1 - 2 * f + 3 * f * s))
    with (a * ((1 - ecc2 f) / W - (1 - 2 * f + 3 * f * s))) by (unfold Rdiv; ring).
  rewrite Rabs_mult, (Rabs_right a) by lra.
  replace (2 * (f * f) * a) with (a * (2 * (f * f))) by ring.
  apply Rmult_le_compat_l; lra.
Qed.
