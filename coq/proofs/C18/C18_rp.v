(* C18_rp: Earth.rp of the generated model = par_radius (ideal instance) *)
From Coq Require Import Reals ZArith List Bool Lra Lia String.
From PyLib Require Import PyVal PyBuiltins Ideal Whnf PyEval.
From Gen Require Import M_base M_Angle M_Epoch M_Interpolation M_Coordinates M_Earth.
From Proofs.C18 Require Import C18_tac C18_spec C18_defs.
Import ListNotations.
Open Scope R_scope.

Lemma rp_shape a f phi : 0 <= f < 1 ->
  a * cos phi / sqrt (m_w f phi) = par_radius a f phi.
Proof. intro Hf. unfold par_radius. rewrite m_w_eq by lra. reflexivity. Qed.

Lemma rp_ok a f w : 0 <= f < 1 -> forall v d, degval v d ->
  Earth_rp Rops (earth a f w) v = VFloat (par_radius a f (rad d)).
Proof.
  intros Hf v d Hv. destruct Hv.
  - prep f (d * (PI / 180)) Hf. pyrunx. rewrite <- rp_shape by exact Hf. reflexivity.
  - prep f (IZR z * (PI / 180)) Hf. pyrunx. rewrite <- rp_shape by exact Hf. reflexivity.
  - prep f (d * (PI / 180)) Hf. pyrunx. rewrite <- rp_shape by exact Hf. reflexivity.
Qed.
