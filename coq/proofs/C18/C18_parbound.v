(* C18_parbound: a limit-free bound for the topocentric declination of C18_par:
   |sin(dec') - sin(dec)| <= 2 q / (1 - q),  q = rho |k|,  k = sin(8.794'')/distance,
   rho = sqrt(rho_cos^2 + rho_sin^2): the correction vanishes as the distance grows. *)
From Coq Require Import Reals Lra Lia.
From PyLib Require Import Ideal.
Open Scope R_scope.

Lemma sq_sc' x : sin x * sin x + cos x * cos x = 1.
Proof. generalize (sin2_cos2 x). unfold Rsqr. lra. Qed.

Lemma sqrt_sq_abs x : sqrt (x * x) = Rabs x.
Proof. apply sqrt_Rsqr_abs. Qed.

(* sin (atan2 y x) = y / sqrt (x^2 + y^2) for x >= 0, (x, y) <> (0, 0) *)
Lemma sin_atan2_right y x : 0 <= x -> 0 < x * x + y * y ->
  sin (atan2 y x) = y / sqrt (x * x + y * y).
Proof.
  intros Hx Hn. unfold atan2.
  destruct (Rlt_dec 0 x) as [Hp|Hp].
  - rewrite sin_atan.
    assert (E : 1 + (y / x)² = (x * x + y * y) / (x * x)) by (unfold Rsqr; field; lra).
    rewrite E. rewrite sqrt_div_alt by nra. rewrite sqrt_square by lra.
    assert (0 < sqrt (x * x + y * y)) by (apply sqrt_lt_R0, Hn).
    field. split; lra.
  - assert (x = 0) by lra. subst x.
    destruct (Rlt_dec 0 0) as [F|_]; [lra|].
    replace (0 * 0 + y * y) with (y * y) in * by ring. rewrite sqrt_sq_abs.
    destruct (Rlt_dec 0 y) as [Hy|Hy].
    + rewrite sin_PI2, Rabs_right by lra. field. lra.
    + destruct (Rlt_dec y 0) as [Hy'|Hy']; [|nra].
      rewrite sin_neg, sin_PI2, Rabs_left by lra. field. lra.
Qed.

Section Bound.
Context (d H rc rs k : R).
Let A := cos d - rc * k * cos H.
Let B := - rc * k * sin H.
Let wz := sin d - rs * k.
Let rho := sqrt (rc * rc + rs * rs).
Let q := rho * Rabs k.
Let N2 := (A * A + B * B) + wz * wz.

Lemma rho_sq : rho * rho = rc * rc + rs * rs.
Proof. unfold rho. apply sqrt_sqrt. nra. Qed.
Lemma rho_nonneg : 0 <= rho.
Proof. unfold rho. apply sqrt_pos. Qed.
Lemma q_nonneg : 0 <= q.
Proof. unfold q. apply Rmult_le_pos; [apply rho_nonneg | apply Rabs_pos]. Qed.
Lemma q_sq : q * q = (rc * rc + rs * rs) * (k * k).
Proof.
  unfold q. replace (rho * Rabs k * (rho * Rabs k)) with (rho * rho * (Rabs k * Rabs k)) by ring.
  rewrite rho_sq. replace (Rabs k * Rabs k) with (k * k); [reflexivity|].
  unfold Rabs. destruct (Rcase_abs k); ring.
Qed.

Lemma N2_eq : N2 = 1 - 2 * k * (rc * (cos d * cos H) + rs * sin d) + q * q.
Proof.
  unfold N2, A, B, wz. rewrite q_sq.
  generalize (sq_sc' d) (sq_sc' H). intros Hd HH.
  match goal with |- ?l = ?r =>
    assert (E : l - r = (sin d * sin d + cos d * cos d - 1)
                        + rc * rc * (k * k) * (sin H * sin H + cos H * cos H - 1)) by ring end.
  rewrite Hd, HH in E. lra.
Qed.

(* Cauchy-Schwarz: |k (rc x + rs y)| <= q for x^2 + y^2 <= 1 *)
Lemma dot_bound : Rabs (k * (rc * (cos d * cos H) + rs * sin d)) <= q.
Proof.
  set (x := cos d * cos H). set (y := sin d).
  assert (Hxy : x * x + y * y <= 1).
  { unfold x, y. generalize (sq_sc' d) (sq_sc' H). intros.
    assert (G0 : 0 <= cos d * cos d) by apply Rle_0_sqr.
    assert (G1 : cos H * cos H <= 1) by (generalize (Rle_0_sqr (sin H)); unfold Rsqr; lra).
    assert (G2 : cos d * cos d * (cos H * cos H) <= cos d * cos d * 1) by (apply Rmult_le_compat_l; assumption).
    replace (cos d * cos H * (cos d * cos H)) with (cos d * cos d * (cos H * cos H)) by ring. lra. }
  assert (Hcs : (rc * x + rs * y) * (rc * x + rs * y) <= rc * rc + rs * rs).
  { assert (Q1 : 0 <= (rc * y - rs * x) * (rc * y - rs * x)) by apply Rle_0_sqr.
    assert (Q2 : 0 <= rc * rc + rs * rs) by (generalize (Rle_0_sqr rc) (Rle_0_sqr rs); unfold Rsqr; lra).
    assert (Q3 : (rc * rc + rs * rs) * (x * x + y * y) <= (rc * rc + rs * rs) * 1)
      by (apply Rmult_le_compat_l; assumption).
    assert (Q4 : (rc * x + rs * y) * (rc * x + rs * y)
                 = (rc * rc + rs * rs) * (x * x + y * y) - (rc * y - rs * x) * (rc * y - rs * x)) by ring.
    lra. }
  assert (Hsq : (k * (rc * x + rs * y)) * (k * (rc * x + rs * y)) <= q * q).
  { rewrite q_sq. assert (Q5 : 0 <= k * k) by apply Rle_0_sqr.
    assert (Q6 : k * k * ((rc * x + rs * y) * (rc * x + rs * y)) <= k * k * (rc * rc + rs * rs))
      by (apply Rmult_le_compat_l; assumption).
    replace (k * (rc * x + rs * y) * (k * (rc * x + rs * y)))
      with (k * k * ((rc * x + rs * y) * (rc * x + rs * y))) by ring. lra. }
  apply Rsqr_le_abs_0 in Hsq. rewrite (Rabs_right q) in Hsq; [exact Hsq|].
  apply Rle_ge, q_nonneg.
Qed.

Lemma N2_bounds : (1 - q) * (1 - q) <= N2 <= (1 + q) * (1 + q).
Proof.
  rewrite N2_eq. generalize dot_bound. intro Hb. 
  unfold Rabs in Hb. destruct (Rcase_abs _) in Hb; split; nra.
Qed.

Lemma rs_bound : Rabs (rs * k) <= q.
Proof.
  unfold q. rewrite Rabs_mult. apply Rmult_le_compat_r; [apply Rabs_pos|].
  unfold rho. rewrite <- sqrt_sq_abs. apply sqrt_le_1_alt. nra.
Qed.

(* the bound: sin of the topocentric declination atan2(wz, sqrt(A^2+B^2)) *)
Lemma topo_dec_sin_bound : q < 1 ->
  Rabs (sin (atan2 wz (sqrt (A * A + B * B))) - sin d) <= 2 * q / (1 - q).
Proof.
  intro Hq. assert (Hq0 := q_nonneg). destruct N2_bounds as [Hlo Hhi].
  assert (HN2 : 0 < N2) by nra.
  assert (Hab : 0 <= A * A + B * B) by nra.
  rewrite sin_atan2_right; [| apply sqrt_pos | rewrite sqrt_sqrt by exact Hab; exact HN2].
  rewrite sqrt_sqrt by exact Hab. fold N2.
  set (N := sqrt N2).
  assert (HNN : N * N = N2) by (apply sqrt_sqrt; lra).
  assert (HN0 : 0 <= N) by apply sqrt_pos.
  assert (HNlo : 1 - q <= N) by nra.
  assert (HNhi : N <= 1 + q) by nra.
  assert (HNpos : 0 < N) by lra.
  replace (wz / N - sin d) with ((sin d * (1 - N) - rs * k) / N) by (unfold wz; field; lra).
  unfold Rdiv. rewrite Rabs_mult. rewrite (Rabs_right (/ N)) by (apply Rle_ge; left; apply Rinv_0_lt_compat; lra).
  assert (Hnum : Rabs (sin d * (1 - N) - rs * k) <= 2 * q).
  { eapply Rle_trans; [apply Rabs_triang|]. rewrite Rabs_Ropp.
    assert (Rabs (sin d * (1 - N)) <= q).
    { rewrite Rabs_mult. assert (Rabs (sin d) <= 1) by (apply Rabs_le; generalize (SIN_bound d); lra).
      assert (Rabs (1 - N) <= q) by (apply Rabs_le; lra).
      assert (0 <= Rabs (sin d)) by apply Rabs_pos. assert (0 <= Rabs (1 - N)) by apply Rabs_pos. nra. }
    generalize rs_bound. lra. }
  assert (Hinv : / N <= / (1 - q)) by (apply Rinv_le_contravar; lra).
  assert (0 < / N) by (apply Rinv_0_lt_compat; lra).
  assert (0 <= Rabs (sin d * (1 - N) - rs * k)) by apply Rabs_pos.
  assert (0 < / (1 - q)) by (apply Rinv_0_lt_compat; lra).
  nra.
Qed.
End Bound.
