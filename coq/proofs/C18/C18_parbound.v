(* C18_parbound: a limit-free bound for the topocentric declination of C18_par:
   |sin(dec') - sin(dec)| <= 2 q / (1 - q),  q = rho |k|,  k = sin(8.794'')/distance,
   rho = sqrt(rho_cos^2 + rho_sin^2): the correction vanishes as the distance grows. *)
From Coq Require Import Reals Lra Lia.
From PyLib Require Import Ideal.
Open Scope R_scope.

Lemma sq_sc' x : sin x * sin x + cos x * cos x = 1.
Proof. generalize (sin2_cos2 x). unfold Rsqr. lra. Qed.

Lemma sqrt_sq_abs x : sqrt (x * x) = Rabs x.
Proof. apply sqrt_Rsqr_abs. Qed.

Lemma sin_atan_cos' t : sin (atan t) = t * cos (atan t).
Proof.
  rewrite sin_atan, cos_atan.
  assert (0 < sqrt (1 + t²)) by (apply sqrt_lt_R0; generalize (Rle_0_sqr t); lra).
  field. lra.
Qed.

(* sin (atan2 y x) = y / sqrt (x^2 + y^2) for x >= 0, (x, y) <> (0, 0) *)
Lemma sin_atan2_right y x : 0 <= x -> 0 < x * x + y * y ->
  sin (atan2 y x) = y / sqrt (x * x + y * y).
Proof.
  intros Hx Hn. unfold atan2.
  destruct (Rlt_dec 0 x) as [Hp|Hp].
  - rewrite sin_atan.
    assert (E : 1 + (y / x)² = (x * x + y * y) / (x * x)) by (unfold Rsqr; field; lra).
    rewrite E. rewrite sqrt_div_alt by nra. rewrite sqrt_square by lra.
    assert (0 < sqrt (x * x + y * y)) by (apply sqrt_lt_R0, Hn).
    field. split; lra.
  - assert (x = 0) by lra. subst x.
    destruct (Rlt_dec 0 0) as [F|_]; [lra|].
    replace (0 * 0 + y * y) with (y * y) in * by ring. rewrite sqrt_sq_abs.
    destruct (Rlt_dec 0 y) as [Hy|Hy].
    + rewrite sin_PI2, Rabs_right by lra. field. lra.
    + destruct (Rlt_dec y 0) as [Hy'|Hy']; [|nra].
      rewrite sin_neg, sin_PI2, Rabs_left by lra. field. lra.
Qed.

(* cos / sin of atan2 in every quadrant *)
Lemma hyp_pos y x : 0 < x * x + y * y -> 0 < sqrt (x * x + y * y).
Proof. apply sqrt_lt_R0. Qed.

Lemma atan_quot_cos y x : x <> 0 -> cos (atan (y / x)) = Rabs x / sqrt (x * x + y * y).
Proof.
  intro Hx. rewrite cos_atan.
  assert (Hn : 0 < x * x + y * y) by (assert (0 < x * x) by nra; generalize (Rle_0_sqr y); unfold Rsqr; lra).
  assert (E : 1 + (y / x)² = (x * x + y * y) / (x * x)) by (unfold Rsqr; field; exact Hx).
  rewrite E. rewrite sqrt_div_alt by nra. rewrite sqrt_sq_abs.
  assert (0 < sqrt (x * x + y * y)) by (apply hyp_pos, Hn).
  assert (0 < Rabs x) by (apply Rabs_pos_lt, Hx).
  field. split; lra.
Qed.
Lemma atan_quot_sin y x : x <> 0 -> sin (atan (y / x)) = y / x * (Rabs x / sqrt (x * x + y * y)).
Proof. intro Hx. rewrite sin_atan_cos', atan_quot_cos by exact Hx. reflexivity. Qed.

Lemma cos_atan2 y x : 0 < x * x + y * y -> cos (atan2 y x) = x / sqrt (x * x + y * y).
Proof.
  intro Hn. assert (Hr := hyp_pos y x Hn). unfold atan2.
  destruct (Rlt_dec 0 x) as [Hp|Hp].
  { rewrite atan_quot_cos by lra. rewrite Rabs_right by lra. reflexivity. }
  destruct (Rlt_dec x 0) as [Hm|Hm].
  { destruct (Rle_dec 0 y).
    - rewrite neg_cos, atan_quot_cos by lra. rewrite Rabs_left by lra. field. lra.
    - replace (atan (y / x) - PI) with (atan (y / x) + PI - 2 * PI) by ring.
      rewrite cos_minus, cos_2PI, sin_2PI, neg_cos, atan_quot_cos by lra.
      rewrite Rabs_left by lra. field. lra. }
  assert (x = 0) by lra. subst x.
  destruct (Rlt_dec 0 y); [rewrite cos_PI2; field; lra|].
  destruct (Rlt_dec y 0); [rewrite cos_neg, cos_PI2; field; lra | nra].
Qed.

Lemma sin_atan2 y x : 0 < x * x + y * y -> sin (atan2 y x) = y / sqrt (x * x + y * y).
Proof.
  intro Hn. assert (Hr := hyp_pos y x Hn). unfold atan2.
  destruct (Rlt_dec 0 x) as [Hp|Hp].
  { rewrite atan_quot_sin by lra. rewrite Rabs_right by lra. field. split; lra. }
  destruct (Rlt_dec x 0) as [Hm|Hm].
  { destruct (Rle_dec 0 y).
    - rewrite neg_sin, atan_quot_sin by lra. rewrite Rabs_left by lra. field. split; lra.
    - replace (atan (y / x) - PI) with (atan (y / x) + PI - 2 * PI) by ring.
      rewrite sin_minus, cos_2PI, sin_2PI, neg_sin, atan_quot_sin by lra.
      rewrite Rabs_left by lra. field. split; lra. }
  assert (x = 0) by lra. subst x.
  replace (0 * 0 + y * y) with (y * y) in * by ring. rewrite sqrt_sq_abs.
  destruct (Rlt_dec 0 y); [rewrite sin_PI2, Rabs_right by lra; field; lra|].
  destruct (Rlt_dec y 0); [rewrite sin_neg, sin_PI2, Rabs_left by lra; field; lra | nra].
Qed.

Section Bound.
Context (d H rc rs k : R).
Let A := cos d - rc * k * cos H.
Let B := - rc * k * sin H.
Let wz := sin d - rs * k.
Let rho := sqrt (rc * rc + rs * rs).
Let q := rho * Rabs k.
Let N2 := (A * A + B * B) + wz * wz.

Lemma rho_sq : rho * rho = rc * rc + rs * rs.
Proof. unfold rho. apply sqrt_sqrt. nra. Qed.
Lemma rho_nonneg : 0 <= rho.
Proof. unfold rho. apply sqrt_pos. Qed.
Lemma q_nonneg : 0 <= q.
Proof. unfold q. apply Rmult_le_pos; [apply rho_nonneg | apply Rabs_pos]. Qed.
Lemma q_sq : q * q = (rc * rc + rs * rs) * (k * k).
Proof.
  unfold q. replace (rho * Rabs k * (rho * Rabs k)) with (rho * rho * (Rabs k * Rabs k)) by ring.
  rewrite rho_sq. replace (Rabs k * Rabs k) with (k * k); [reflexivity|].
  unfold Rabs. destruct (Rcase_abs k); ring.
Qed.

Lemma N2_eq : N2 = 1 - 2 * k * (rc * (cos d * cos H) + rs * sin d) + q * q.
Proof.
  unfold N2, A, B, wz. rewrite q_sq.
  generalize (sq_sc' d) (sq_sc' H). intros Hd HH.
  match goal with |- ?l = ?r =>
    assert (E : l - r = (sin d * sin d + cos d * cos d - 1)
                        + rc * rc * (k * k) * (sin H * sin H + cos H * cos H - 1)) by ring end.
  rewrite Hd, HH in E. lra.
Qed.

(* Cauchy-Schwarz: |k (rc x + rs y)| <= q for x^2 + y^2 <= 1 *)
Lemma dot_bound : Rabs (k * (rc * (cos d * cos H) + rs * sin d)) <= q.
Proof.
  set (x := cos d * cos H). set (y := sin d).
  assert (Hxy : x * x + y * y <= 1).
  { unfold x, y. generalize (sq_sc' d) (sq_sc' H). intros.
    assert (G0 : 0 <= cos d * cos d) by apply Rle_0_sqr.
    assert (G1 : cos H * cos H <= 1) by (generalize (Rle_0_sqr (sin H)); unfold Rsqr; lra).
    assert (G2 : cos d * cos d * (cos H * cos H) <= cos d * cos d * 1) by (apply Rmult_le_compat_l; assumption).
    replace (cos d * cos H * (cos d * cos H)) with (cos d * cos d * (cos H * cos H)) by ring. lra. }
  assert (Hcs : (rc * x + rs * y) * (rc * x + rs * y) <= rc * rc + rs * rs).
  { assert (Q1 : 0 <= (rc * y - rs * x) * (rc * y - rs * x)) by apply Rle_0_sqr.
    assert (Q2 : 0 <= rc * rc + rs * rs) by (generalize (Rle_0_sqr rc) (Rle_0_sqr rs); unfold Rsqr; lra).
    assert (Q3 : (rc * rc + rs * rs) * (x * x + y * y) <= (rc * rc + rs * rs) * 1)
      by (apply Rmult_le_compat_l; assumption).
    assert (Q4 : (rc * x + rs * y) * (rc * x + rs * y)
                 = (rc * rc + rs * rs) * (x * x + y * y) - (rc * y - rs * x) * (rc * y - rs * x)) by ring.
    lra. }
  assert (Hsq : (k * (rc * x + rs * y)) * (k * (rc * x + rs * y)) <= q * q).
  { rewrite q_sq. assert (Q5 : 0 <= k * k) by apply Rle_0_sqr.
    assert (Q6 : k * k * ((rc * x + rs * y) * (rc * x + rs * y)) <= k * k * (rc * rc + rs * rs))
      by (apply Rmult_le_compat_l; assumption).
    replace (k * (rc * x + rs * y) * (k * (rc * x + rs * y)))
      with (k * k * ((rc * x + rs * y) * (rc * x + rs * y))) by ring. lra. }
  apply Rsqr_le_abs_0 in Hsq. rewrite (Rabs_right q) in Hsq; [exact Hsq|].
  apply Rle_ge, q_nonneg.
Qed.

Lemma N2_bounds : (1 - q) * (1 - q) <= N2 <= (1 + q) * (1 + q).
Proof.
  rewrite N2_eq. generalize dot_bound. intro Hb. 
  unfold Rabs in Hb. destruct (Rcase_abs _) in Hb; split; nra.
Qed.

Lemma rs_bound : Rabs (rs * k) <= q.
Proof.
  unfold q. rewrite Rabs_mult. apply Rmult_le_compat_r; [apply Rabs_pos|].
  unfold rho. rewrite <- sqrt_sq_abs. apply sqrt_le_1_alt. nra.
Qed.

(* the bound: sin of the topocentric declination atan2(wz, sqrt(A^2+B^2)) *)
Lemma topo_dec_sin_bound : q < 1 ->
  Rabs (sin (atan2 wz (sqrt (A * A + B * B))) - sin d) <= 2 * q / (1 - q).
Proof.
  intro Hq. assert (Hq0 := q_nonneg). destruct N2_bounds as [Hlo Hhi].
  assert (HN2 : 0 < N2) by nra.
  assert (Hab : 0 <= A * A + B * B) by nra.
  rewrite sin_atan2_right; [| apply sqrt_pos | rewrite sqrt_sqrt by exact Hab; exact HN2].
  rewrite sqrt_sqrt by exact Hab. fold N2.
  set (N := sqrt N2).
  assert (HNN : N * N = N2) by (apply sqrt_sqrt; lra).
  assert (HN0 : 0 <= N) by apply sqrt_pos.
  assert (HNlo : 1 - q <= N) by nra.
  assert (HNhi : N <= 1 + q) by nra.
  assert (HNpos : 0 < N) by lra.
  replace (wz / N - sin d) with ((sin d * (1 - N) - rs * k) / N) by (unfold wz; field; lra).
  unfold Rdiv. rewrite Rabs_mult. rewrite (Rabs_right (/ N)) by (apply Rle_ge; left; apply Rinv_0_lt_compat; lra).
  assert (Hnum : Rabs (sin d * (1 - N) - rs * k) <= 2 * q).
  { eapply Rle_trans; [apply Rabs_triang|]. rewrite Rabs_Ropp.
    assert (Rabs (sin d * (1 - N)) <= q).
    { rewrite Rabs_mult. assert (Rabs (sin d) <= 1) by (apply Rabs_le; generalize (SIN_bound d); lra).
      assert (Rabs (1 - N) <= q) by (apply Rabs_le; lra).
      assert (0 <= Rabs (sin d)) by apply Rabs_pos. assert (0 <= Rabs (1 - N)) by apply Rabs_pos. nra. }
    generalize rs_bound. lra. }
  assert (Hinv : / N <= / (1 - q)) by (apply Rinv_le_contravar; lra).
  assert (0 < / N) by (apply Rinv_0_lt_compat; lra).
  assert (0 <= Rabs (sin d * (1 - N) - rs * k)) by apply Rabs_pos.
  assert (0 < / (1 - q)) by (apply Rinv_0_lt_compat; lra).
  nra.
Qed.

(* ---- the displacement as an angle between directions.  Frame: x towards the geocentric right
   ascension of the body, z north.  u = (cos d, 0, sin d) geocentric direction, o = (rc cos H,
   rc sin H, rs) observer, w = u - k o = (A, B, wz) topocentric vector;  the code returns the
   direction v of right ascension offset da = atan2(B, A) and declination dd = atan2(wz, hypot(A,B)). *)
Let da := atan2 B A.
Let dd := atan2 wz (sqrt (A * A + B * B)).
Let vx := cos dd * cos da.
Let vy := cos dd * sin da.
Let vz := sin dd.

Lemma N2_pos : q < 1 -> 0 < N2.
Proof. intro Hq. assert (Hq0 := q_nonneg). destruct N2_bounds as [Hlo _]. nra. Qed.

Lemma v_is_w_normalised : q < 1 ->
  vx = A / sqrt N2 /\ vy = B / sqrt N2 /\ vz = wz / sqrt N2.
Proof.
  intro Hq. assert (HN2 := N2_pos Hq).
  assert (Hab : 0 <= A * A + B * B) by (generalize (Rle_0_sqr A) (Rle_0_sqr B); unfold Rsqr; lra).
  assert (Hnn : sqrt (A * A + B * B) * sqrt (A * A + B * B) + wz * wz = N2)
    by (rewrite sqrt_sqrt by exact Hab; reflexivity).
  assert (HN : 0 < sqrt N2) by (apply sqrt_lt_R0, HN2).
  assert (Ecd : cos dd = sqrt (A * A + B * B) / sqrt N2).
  { unfold dd. rewrite cos_atan2 by (rewrite Hnn; exact HN2). rewrite Hnn. reflexivity. }
  assert (Esd : sin dd = wz / sqrt N2).
  { unfold dd. rewrite sin_atan2 by (rewrite Hnn; exact HN2). rewrite Hnn. reflexivity. }
  unfold vx, vy, vz. rewrite Ecd, Esd.
  destruct (Req_dec (A * A + B * B) 0) as [Hz|Hz].
  - assert (A = 0) by nra. assert (B = 0) by nra.
    rewrite Hz, sqrt_0. rewrite H0, H1. repeat split; unfold Rdiv; ring.
  - assert (Hp : 0 < A * A + B * B) by lra.
    assert (Hr := hyp_pos B A Hp).
    unfold da. rewrite cos_atan2, sin_atan2 by exact Hp.
    repeat split; field; split; lra.
Qed.

(* |u x v|^2 <= q^2 and u.v > 0: the angle theta between the geocentric and the topocentric
   direction satisfies sin theta <= q = rho |k| and is acute, i.e. theta <= asin(rho sin(pi0)/distance) *)
Theorem displacement_bound : q < 1 ->
  (0 * vz - sin d * vy) * (0 * vz - sin d * vy)
  + (sin d * vx - cos d * vz) * (sin d * vx - cos d * vz)
  + (cos d * vy - 0 * vx) * (cos d * vy - 0 * vx) <= q * q
  /\ 0 < cos d * vx + 0 * vy + sin d * vz.
Proof.
  intro Hq. assert (HN2 := N2_pos Hq). assert (Hq0 := q_nonneg).
  destruct (v_is_w_normalised Hq) as (Ex & Ey & Ez). rewrite Ex, Ey, Ez.
  assert (HN : 0 < sqrt N2) by (apply sqrt_lt_R0, HN2).
  assert (HNN : sqrt N2 * sqrt N2 = N2) by (apply sqrt_sqrt; lra).
  set (ox := rc * cos H). set (oy := rc * sin H). set (oz := rs).
  (* u = w + k o *)
  assert (Ux : cos d = A + k * ox) by (unfold A, ox; ring).
  assert (Uy : 0 = B + k * oy) by (unfold B, oy; ring).
  assert (Uz : sin d = wz + k * oz) by (unfold wz, oz; ring).
  (* cross product: u x w = k (o x w) *)
  set (cx := oy * wz - oz * B). set (cy := oz * A - ox * wz). set (cz := ox * B - oy * A).
  assert (Lag : cx * cx + cy * cy + cz * cz + (ox * A + oy * B + oz * wz) * (ox * A + oy * B + oz * wz)
                = (ox * ox + oy * oy + oz * oz) * N2) by (unfold cx, cy, cz, N2; ring).
  assert (Eo : ox * ox + oy * oy + oz * oz = rc * rc + rs * rs).
  { unfold ox, oy, oz. generalize (sq_sc' H). intro. 
    replace (rc * cos H * (rc * cos H) + rc * sin H * (rc * sin H)) with (rc * rc * (sin H * sin H + cos H * cos H)) by ring.
    rewrite H0. ring. }
  assert (Hc2 : cx * cx + cy * cy + cz * cz <= (rc * rc + rs * rs) * N2).
  { rewrite <- Eo, <- Lag. generalize (Rle_0_sqr (ox * A + oy * B + oz * wz)). unfold Rsqr. lra. }
  split.
  - assert (Ecross :
      (0 * (wz / sqrt N2) - sin d * (B / sqrt N2)) * (0 * (wz / sqrt N2) - sin d * (B / sqrt N2))
      + (sin d * (A / sqrt N2) - cos d * (wz / sqrt N2)) * (sin d * (A / sqrt N2) - cos d * (wz / sqrt N2))
      + (cos d * (B / sqrt N2) - 0 * (A / sqrt N2)) * (cos d * (B / sqrt N2) - 0 * (A / sqrt N2))
      = k * k * (cx * cx + cy * cy + cz * cz) / N2).
    {       assert (EB : B = - (k * oy)) by lra.
      assert (T1 : 0 * wz - sin d * B = k * cx) by (rewrite Uz; unfold cx; rewrite EB; ring).
      assert (T2 : sin d * A - cos d * wz = k * cy) by (rewrite Uz, Ux; unfold cy; ring).
      assert (T3 : cos d * B - 0 * A = k * cz) by (rewrite Ux; unfold cz; rewrite EB; ring).
      replace (0 * (wz / sqrt N2) - sin d * (B / sqrt N2)) with ((0 * wz - sin d * B) / sqrt N2) by (field; lra).
      replace (sin d * (A / sqrt N2) - cos d * (wz / sqrt N2)) with ((sin d * A - cos d * wz) / sqrt N2) by (field; lra).
      replace (cos d * (B / sqrt N2) - 0 * (A / sqrt N2)) with ((cos d * B - 0 * A) / sqrt N2) by (field; lra).
      rewrite T1, T2, T3.
      transitivity (k * k * (cx * cx + cy * cy + cz * cz) / (sqrt N2 * sqrt N2)); [field; lra | rewrite HNN; reflexivity]. }
    rewrite Ecross. rewrite q_sq.
    apply Rmult_le_reg_r with N2; [exact HN2|].
    unfold Rdiv. rewrite Rmult_assoc, Rinv_l, Rmult_1_r by lra.
    assert (0 <= k * k) by (generalize (Rle_0_sqr k); unfold Rsqr; lra).
    replace ((rc * rc + rs * rs) * (k * k) * N2) with (k * k * ((rc * rc + rs * rs) * N2)) by ring.
    apply Rmult_le_compat_l; assumption.
  - replace (cos d * (A / sqrt N2) + 0 * (B / sqrt N2) + sin d * (wz / sqrt N2))
      with ((cos d * A + sin d * wz) / sqrt N2) by (field; lra).
    apply Rdiv_lt_0_compat; [|exact HN].
    assert (Edot : cos d * A + sin d * wz = 1 - k * (rc * (cos d * cos H) + rs * sin d)).
    { unfold A, wz. generalize (sq_sc' d). intro Hd.
      replace (cos d * (cos d - rc * k * cos H) + sin d * (sin d - rs * k))
        with (sin d * sin d + cos d * cos d - k * (rc * (cos d * cos H) + rs * sin d)) by ring.
      rewrite Hd. reflexivity. }
    rewrite Edot. generalize dot_bound. intro Hb.
    unfold Rabs in Hb. destruct (Rcase_abs _) in Hb; lra.
Qed.

(* the correction in right ascension in the form the code computes it *)
Lemma dalpha_tan : 0 < A -> tan da = B / A.
Proof.
  intro HA. unfold da, atan2. destruct (Rlt_dec 0 A); [|lra]. apply tan_atan.
Qed.
End Bound.
