(* C18_main: the clauses of property C18 about the generated model (ideal instance),
   obtained from the bridging lemmas (model = spec function) and the identities of C18_spec. *)
From Coq Require Import Reals ZArith List Bool Lra Lia String.
From PyLib Require Import PyVal PyBuiltins Ideal Whnf PyEval.
From Gen Require Import M_base M_Angle M_Epoch M_Interpolation M_Coordinates M_Earth.
From Proofs.C18 Require Import C18_tac C18_spec C18_defs C18_bridge C18_rp C18_lv C18_rm C18_dist.
Import ListNotations.
Open Scope R_scope.

Definition good_ellipsoid (a f : R) : Prop := 0 < a /\ 0 <= f < 1.

Lemma builtin_ellipsoids E : E = g_IAU76 Rops \/ E = g_WGS84 Rops ->
  exists a f w, E = ell a f w /\ good_ellipsoid a f.
Proof.
  intros [-> | ->]; [rewrite IAU76_val | rewrite WGS84_val];
    eexists; eexists; eexists; (split; [reflexivity|]); unfold good_ellipsoid; lra.
Qed.

Section Main.
Context (a f w : R) (Hg : good_ellipsoid a f).
Let Ha : a <> 0. Proof. destruct Hg; lra. Qed.
Let Hf : 0 <= f < 1. Proof. destruct Hg; assumption. Qed.

(* atan facts used for the parametric latitude u = atan((1-f) tan phi) *)
Lemma sin_atan_cos t : sin (atan t) = t * cos (atan t).
Proof.
  rewrite sin_atan, cos_atan.
  assert (0 < sqrt (1 + t²)) by (apply sqrt_lt_R0; generalize (Rle_0_sqr t); lra).
  field. lra.
Qed.
Lemma cos_atan_pos t : 0 < cos (atan t).
Proof.
  rewrite cos_atan.
  assert (0 < sqrt (1 + t²)) by (apply sqrt_lt_R0; generalize (Rle_0_sqr t); lra).
  apply Rdiv_lt_0_compat; lra.
Qed.

(* where tan phi is defined (cos phi <> 0; at phi = +-90 deg exactly the real-number instance
   evaluates Coq's junk value tan(pi/2) = 1 * /0, so the poles are EXCLUDED here), the sea-level point
   (x, y) = (rho cos phi', rho sin phi') is on the meridian ellipse, on the side x > 0, in the
   geocentric direction tan phi' = (b/a)^2 tan phi: these three facts determine the point *)
Lemma on_ellipse_model v d hv : degval v d -> numval hv 0 -> cos (rad d) <> 0 ->
  exists x y b,
    Earth_rho_cosphi Rops (earth a f w) v hv = VFloat x /\
    Earth_rho_sinphi Rops (earth a f w) v hv = VFloat y /\
    Ellipsoid_b Rops (ell a f w) = VFloat b /\
    x * x + (y * (a / b)) * (y * (a / b)) = 1 /\
    0 < x /\
    y * cos (rad d) = (1 - f) * (1 - f) * x * sin (rad d).
Proof.
  intros Hv Hh Hc. eexists; eexists; eexists.
  split; [apply (rho_cosphi_ok a f w v d hv 0 Ha Hv Hh)|].
  split; [apply (rho_sinphi_ok a f w v d hv 0 Ha Hv Hh)|].
  split; [apply b_ok|]. split; [apply on_ellipse; lra|].
  unfold rho_cos, rho_sin, ulat.
  replace (0 / a) with 0 by (field; exact Ha). rewrite !Rmult_0_l, !Rplus_0_r.
  split; [apply cos_atan_pos|].
  rewrite sin_atan_cos. unfold tan. field. exact Hc.
Qed.

(* height: the sea-level values x0, y0 are those of the previous theorem (poles excluded for the
   same reason); height h adds exactly h/a (cos phi, sin phi) *)
Lemma height_model v d hv h h0 : degval v d -> numval hv h -> numval h0 0 -> cos (rad d) <> 0 ->
  exists x0 y0,
    Earth_rho_cosphi Rops (earth a f w) v h0 = VFloat x0 /\
    Earth_rho_sinphi Rops (earth a f w) v h0 = VFloat y0 /\
    Earth_rho_cosphi Rops (earth a f w) v hv = VFloat (x0 + h / a * cos (rad d)) /\
    Earth_rho_sinphi Rops (earth a f w) v hv = VFloat (y0 + h / a * sin (rad d)).
Proof.
  intros Hv Hh H0 _. eexists; eexists.
  split; [apply (rho_cosphi_ok a f w v d h0 0 Ha Hv H0)|].
  split; [apply (rho_sinphi_ok a f w v d h0 0 Ha Hv H0)|].
  rewrite <- height_term_cos, <- height_term_sin.
  split; [apply (rho_cosphi_ok a f w v d hv h Ha Hv Hh) | apply (rho_sinphi_ok a f w v d hv h Ha Hv Hh)].
Qed.

Lemma cos_rad_pos d : -90 < d < 90 -> 0 < cos (rad d).
Proof.
  intro H. assert (HP := PI_RGT_0). apply cos_gt_0; unfold rad; nra.
Qed.

Lemma parallel_radius_model v d h0 : degval v d -> numval h0 0 -> -90 < d < 90 ->
  exists x r,
    Earth_rho_cosphi Rops (earth a f w) v h0 = VFloat x /\
    Earth_rp Rops (earth a f w) v = VFloat r /\ r = a * x.
Proof.
  intros Hv H0 Hd. eexists; eexists.
  split; [apply (rho_cosphi_ok a f w v d h0 0 Ha Hv H0)|].
  split; [apply (rp_ok a f w Hf v d Hv)|].
  apply par_radius_rho_cos; [exact Hf | apply cos_rad_pos, Hd | exact Ha].
Qed.

Lemma linear_velocity_model v d : degval v d ->
  exists r, Earth_rp Rops (earth a f w) v = VFloat r /\
            Earth_linear_velocity Rops (earth a f w) v = VFloat (w * r).
Proof.
  intro Hv. eexists. split; [apply (rp_ok a f w Hf v d Hv)|].
  apply (linear_velocity_ok a f w Hf v d Hv).
Qed.

Lemma rad_0 : rad 0 = 0. Proof. unfold rad. ring. Qed.
Lemma rad_90 : rad 90 = PI / 2. Proof. unfold rad. field. Qed.
Lemma rad_m90 : rad (-90) = - (PI / 2). Proof. unfold rad. field. Qed.

Lemma rm_equator_model v : degval v 0 ->
  exists b, Ellipsoid_b Rops (ell a f w) = VFloat b /\
            Earth_rm Rops (earth a f w) v = VFloat (b * b / a).
Proof.
  intro Hv. eexists. split; [apply b_ok|].
  rewrite (rm_ok a f w Hf v 0 Hv). rewrite rad_0. rewrite mer_radius_equator by exact Ha. reflexivity.
Qed.

Lemma rm_pole_model v d : degval v d -> d = 90 \/ d = -90 ->
  exists b, Ellipsoid_b Rops (ell a f w) = VFloat b /\
            Earth_rm Rops (earth a f w) v = VFloat (a * a / b).
Proof.
  intros Hv Hd. eexists. split; [apply b_ok|].
  rewrite (rm_ok a f w Hf v d Hv). rewrite (mer_radius_pole a f (rad d) Hf Ha); [reflexivity|].
  destruct Hd as [-> | ->]; [left; apply rad_90 | right; apply rad_m90].
Qed.

Lemma rm_monotone_model v1 d1 v2 d2 : degval v1 d1 -> degval v2 d2 ->
  Rabs d1 <= Rabs d2 -> Rabs d2 <= 90 ->
  exists r1 r2, Earth_rm Rops (earth a f w) v1 = VFloat r1 /\
                Earth_rm Rops (earth a f w) v2 = VFloat r2 /\ r1 <= r2.
Proof.
  intros H1 H2 Hle H90. eexists; eexists.
  split; [apply (rm_ok a f w Hf v1 d1 H1)|]. split; [apply (rm_ok a f w Hf v2 d2 H2)|].
  assert (HP := PI_RGT_0).
  assert (E : forall x, Rabs (rad x) = Rabs x * (PI / 180)).
  { intro x. unfold rad. rewrite Rabs_mult. rewrite (Rabs_right (PI / 180)) by lra. reflexivity. }
  apply mer_radius_mono_abs; [destruct Hg; assumption | exact Hf | |]; rewrite !E.
  - apply Rmult_le_compat_r; lra.
  - replace (PI / 2) with (90 * (PI / 180)) by field. apply Rmult_le_compat_r; lra.
Qed.

(* distance *)
Lemma distance_symmetric_float l1 p1 l2 p2 :
  Earth_distance Rops (earth a f w) (VFloat l2) (VFloat p2) (VFloat l1) (VFloat p1)
  = Earth_distance Rops (earth a f w) (VFloat l1) (VFloat p1) (VFloat l2) (VFloat p2).
Proof. rewrite !dist_float_all. apply dist_spec_sym. Qed.

Lemma distance_symmetric_angle l1 t1 p1 t2 l2 t3 p2 t4 :
  Earth_distance Rops (earth a f w) (ang l2 t3) (ang p2 t4) (ang l1 t1) (ang p1 t2)
  = Earth_distance Rops (earth a f w) (ang l1 t1) (ang p1 t2) (ang l2 t3) (ang p2 t4).
Proof. rewrite !dist_angle_all. apply dist_spec_sym. Qed.

Lemma distance_coincident_float l p :
  Earth_distance Rops (earth a f w) (VFloat l) (VFloat p) (VFloat l) (VFloat p)
  = VTuple [VFloat 0; VFloat 0].
Proof. rewrite dist_float_all. apply dist_spec_same. Qed.

Lemma distance_coincident_angle l t1 p t2 t3 t4 :
  Earth_distance Rops (earth a f w) (ang l t1) (ang p t2) (ang l t3) (ang p t4)
  = VTuple [VFloat 0; VFloat 0].
Proof. rewrite dist_angle_all. apply dist_spec_same. Qed.

Lemma rad_abs x : Rabs (rad x) = Rabs x * (PI / 180).
Proof.
  assert (HP := PI_RGT_0). unfold rad. rewrite Rabs_mult. rewrite (Rabs_right (PI / 180)) by lra. reflexivity.
Qed.

Lemma distance_equator_float l1 l2 : 0 < Rabs (l1 - l2) < 180 ->
  Earth_distance Rops (earth a f w) (VFloat l1) (VFloat 0) (VFloat l2) (VFloat 0)
  = VTuple [VFloat (a * (Rabs (l1 - l2) * (PI / 180)));
            VFloat (Rround_nd (a * (Rabs (l1 - l2) * (PI / 180)) * f * f) 0)].
Proof.
  intro H. rewrite dist_float_all. rewrite (dist_spec_equator a f l1 l2 H). rewrite rad_abs. reflexivity.
Qed.

Lemma distance_equator_angle l1 t1 t2 l2 t3 t4 : 0 < Rabs (l1 - l2) < 180 ->
  Earth_distance Rops (earth a f w) (ang l1 t1) (ang 0 t2) (ang l2 t3) (ang 0 t4)
  = VTuple [VFloat (a * (Rabs (l1 - l2) * (PI / 180)));
            VFloat (Rround_nd (a * (Rabs (l1 - l2) * (PI / 180)) * f * f) 0)].
Proof.
  intro H. rewrite dist_angle_all. rewrite (dist_spec_equator a f l1 l2 H). rewrite rad_abs. reflexivity.
Qed.
End Main.
