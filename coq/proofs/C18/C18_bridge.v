(* C18_bridge: Ellipsoid.b/e, the built-in ellipsoids, Earth(...) and Earth.rho_sinphi /
   rho_cosphi of the generated model (ideal instance) compute the real functions of C18_spec.
   Every lemma re-evaluates the generated text, so a change of a formula in Earth.py breaks it. *)
From Coq Require Import Reals ZArith List Bool Lra Lia String.
From PyLib Require Import PyVal PyBuiltins Ideal Whnf PyEval.
From Gen Require Import M_base M_Angle M_Epoch M_Interpolation M_Coordinates M_Earth.
From Proofs.C18 Require Import C18_tac C18_spec C18_defs.
Import ListNotations.
Open Scope R_scope.

Lemma b_ok a f w : Ellipsoid_b Rops (ell a f w) = VFloat (semi_minor a f).
Proof. pyrunx. Rlit_norm. unfold semi_minor. f_equal. lra. Qed.

Lemma e_ok a f w : 0 <= f <= 1 -> Ellipsoid_e Rops (ell a f w) = VFloat (ecc f).
Proof.
  intro H. assert (0 <= ecc2 f) by (apply ecc2_nonneg, H). unfold ecc2 in *.
  pyrunx. rewrite <- m_e_eq. reflexivity.
Qed.

Lemma earth_new a f w : Earth___init__ Rops (VObj cEarth [VNone]) (ell a f w) = earth a f w.
Proof. pyrunx. reflexivity. Qed.

(* e.set(E) replaces the ellipsoid and nothing else: the object is the one Earth(E) builds *)
Lemma earth_set a0 f0 w0 a f w :
  Earth_set Rops (earth a0 f0 w0) (ell a f w) = VTuple [earth a f w; VNone].
Proof. pyrunx. reflexivity. Qed.
Lemma earth_set_not_ellipsoid a0 f0 w0 x :
  Earth_set Rops (earth a0 f0 w0) (VFloat x) = VErr TypeError.
Proof. pyrunx. reflexivity. Qed.

Lemma ell_eq a a' f f' w w' : a = a' -> f = f' -> w = w' -> ell a f w = ell a' f' w'.
Proof. intros -> -> ->. reflexivity. Qed.

Lemma IAU76_val : g_IAU76 Rops = ell 6378140 (1 / 298.257) (7.292114992e-5).
Proof. pyrunx. Rlit_norm. apply ell_eq; lra. Qed.
Lemma WGS84_val : g_WGS84 Rops = ell 6378137 (1 / 298.257223563) (7292115e-11).
Proof. pyrunx. Rlit_norm. apply ell_eq; lra. Qed.

Lemma rho_sinphi_ok a f w v d hv h : a <> 0 -> degval v d -> numval hv h ->
  Earth_rho_sinphi Rops (earth a f w) v hv = VFloat (rho_sin a f h (rad d)).
Proof.
  intros Ha Hv Hh. 
  assert (E : a * (Rlit 10 (-1) - f) / a = 1 - f) by (Rlit_norm; field; exact Ha).
  destruct Hv; destruct Hh.
  - pyrunx; rewrite !E; reflexivity.
  - pyrunx; rewrite !E; reflexivity.
  - pyrunx; rewrite !E; reflexivity.
  - pyrunx; rewrite !E; reflexivity.
  - pyrunx; rewrite !E; reflexivity.
  - pyrunx; rewrite !E; reflexivity.
Qed.

Lemma rho_cosphi_ok a f w v d hv h : a <> 0 -> degval v d -> numval hv h ->
  Earth_rho_cosphi Rops (earth a f w) v hv = VFloat (rho_cos a f h (rad d)).
Proof.
  intros Ha Hv Hh. 
  assert (E : a * (Rlit 10 (-1) - f) / a = 1 - f) by (Rlit_norm; field; exact Ha).
  destruct Hv; destruct Hh.
  - pyrunx; rewrite !E; reflexivity.
  - pyrunx; rewrite !E; reflexivity.
  - pyrunx; rewrite !E; reflexivity.
  - pyrunx; rewrite !E; reflexivity.
  - pyrunx; rewrite !E; reflexivity.
  - pyrunx; rewrite !E; reflexivity.
Qed.

