(* C18_bridge: the generated model of pymeeus.Earth (ideal instance) computes the
   real functions of C18_spec.  Every lemma here re-evaluates the generated text,
   so a change of a formula in Earth.py breaks the corresponding lemma. *)
From Coq Require Import Reals ZArith List Bool Lra Lia String.
From PyLib Require Import PyVal PyBuiltins Ideal Whnf PyEval.
From Gen Require Import M_base M_Angle M_Epoch M_Interpolation M_Coordinates M_Earth.
From Proofs.C18 Require Import C18_tac C18_spec.
Import ListNotations.
Open Scope R_scope.

Definition ell (a f w : R) : val R := VObj cEllipsoid [VFloat a; VFloat f; VFloat w].
Definition earth (a f w : R) : val R := VObj cEarth [ell a f w].
Definition rad (d : R) : R := d * (PI / 180).

(* a latitude/longitude argument: float degrees, int degrees or an Angle object *)
Inductive degval : val R -> R -> Prop :=
| deg_float d : degval (VFloat d) d
| deg_int z : degval (VInt z) (IZR z)
| deg_angle d t : degval (VObj cAngle [VFloat d; VFloat t]) d.

(* heights: int or float metres *)
Inductive numval : val R -> R -> Prop :=
| num_float h : numval (VFloat h) h
| num_int z : numval (VInt z) (IZR z).

Lemma b_ok a f w : Ellipsoid_b Rops (ell a f w) = VFloat (semi_minor a f).
Proof. pyrunx. Rlit_norm. unfold semi_minor. f_equal. lra. Qed.

(* model-shaped expressions (literals as the translator writes them) *)
Definition m_e (f : R) : R := sqrt (Rlit 20 (-1) * f - f * f).
Definition m_w (f phi : R) : R := Rlit 10 (-1) - m_e f * m_e f * sin phi * sin phi.
Lemma m_e_eq f : m_e f = ecc f.
Proof. unfold m_e, ecc, ecc2. Rlit_norm. f_equal. lra. Qed.
Lemma m_w_eq f phi : 0 <= f <= 1 -> m_w f phi = wfac f phi.
Proof.
  intro H. unfold m_w. rewrite m_e_eq. unfold wfac. rewrite <- (ecc_sq f H). Rlit_norm. field.
Qed.

Lemma e_ok a f w : 0 <= f <= 1 -> Ellipsoid_e Rops (ell a f w) = VFloat (ecc f).
Proof.
  intro H. assert (0 <= ecc2 f) by (apply ecc2_nonneg, H). unfold ecc2 in *.
  pyrunx. rewrite <- m_e_eq. reflexivity.
Qed.

Lemma earth_new a f w : Earth___init__ Rops (VObj cEarth [VNone]) (ell a f w) = earth a f w.
Proof. pyrunx. reflexivity. Qed.

Lemma ell_eq a a' f f' w w' : a = a' -> f = f' -> w = w' -> ell a f w = ell a' f' w'.
Proof. intros -> -> ->. reflexivity. Qed.

Lemma IAU76_val : g_IAU76 Rops = ell 6378140 (1 / 298.257) (7.292114992e-5).
Proof. pyrunx. Rlit_norm. apply ell_eq; lra. Qed.
Lemma WGS84_val : g_WGS84 Rops = ell 6378137 (1 / 298.257223563) (7292115e-11).
Proof. pyrunx. Rlit_norm. apply ell_eq; lra. Qed.

Lemma rho_sinphi_ok a f w v d hv h : a <> 0 -> degval v d -> numval hv h ->
  Earth_rho_sinphi Rops (earth a f w) v hv = VFloat (rho_sin a f h (rad d)).
Proof.
  intros Ha Hv Hh. 
  assert (E : a * (Rlit 10 (-1) - f) / a = 1 - f) by (Rlit_norm; field; exact Ha).
  destruct Hv; destruct Hh.
  - pyrunx; rewrite !E; reflexivity.
  - pyrunx; rewrite !E; reflexivity.
  - pyrunx; rewrite !E; reflexivity.
  - pyrunx; rewrite !E; reflexivity.
  - pyrunx; rewrite !E; reflexivity.
  - pyrunx; rewrite !E; reflexivity.
Qed.

Lemma rho_cosphi_ok a f w v d hv h : a <> 0 -> degval v d -> numval hv h ->
  Earth_rho_cosphi Rops (earth a f w) v hv = VFloat (rho_cos a f h (rad d)).
Proof.
  intros Ha Hv Hh. 
  assert (E : a * (Rlit 10 (-1) - f) / a = 1 - f) by (Rlit_norm; field; exact Ha).
  destruct Hv; destruct Hh.
  - pyrunx; rewrite !E; reflexivity.
  - pyrunx; rewrite !E; reflexivity.
  - pyrunx; rewrite !E; reflexivity.
  - pyrunx; rewrite !E; reflexivity.
  - pyrunx; rewrite !E; reflexivity.
  - pyrunx; rewrite !E; reflexivity.
Qed.

Lemma m_facts f phi : 0 <= f < 1 ->
  0 <= Rlit 20 (-1) * f - f * f /\ 0 < m_w f phi /\ 0 < sqrt (m_w f phi)
  /\ 0 < Rpower (m_w f phi) (Rlit 15 (-1)).
Proof.
  intro Hf.
  assert (H1 : 0 <= ecc2 f) by (apply ecc2_nonneg; lra).
  assert (H2 : 0 < m_w f phi) by (rewrite m_w_eq by lra; apply wfac_pos, Hf).
  split; [unfold ecc2 in H1; Rlit_norm; lra|]. split; [exact H2 |].
  split; [apply sqrt_lt_R0, H2 | apply exp_pos].
Qed.

Ltac prep f phi Hf :=
  destruct (m_facts f phi Hf) as (H1 & H2 & H3 & H4); unfold m_w, m_e in H2, H3, H4.
