(* C18_peclm: the longitude / latitude that Earth.parallax_ecliptical returns (C18_pecl_all) are
   the spherical coordinates of the topocentric vector w = u - k o in the ecliptical frame, and the
   displacement bound of C18_vec applies to them. *)
From Coq Require Import Reals ZArith List Bool Lra Lia String.
From PyLib Require Import PyVal PyBuiltins Ideal.
From Gen Require Import M_base M_Angle M_Epoch M_Interpolation M_Coordinates M_Earth.
From Proofs.C18 Require Import C18_spec C18_defs C18_par C18_pecl C18_pecl_all C18_parbound C18_parvec C18_parm C18_vec.
Import ListNotations.
Open Scope R_scope.

Lemma deg_rad_inv x : deg x * (PI / 180) = x.
Proof. assert (HP := PI_RGT_0). unfold deg. field. lra. Qed.

Lemma pos360_trig x : cos (pos360 (deg x) * (PI / 180)) = cos x /\ sin (pos360 (deg x) * (PI / 180)) = sin x.
Proof.
  assert (HP := PI_RGT_0). unfold pos360. destruct (Rlt_dec (deg x) 0) as [Hn|Hn].
  - rewrite Rabs_left by exact Hn.
    replace ((360 - - deg x) * (PI / 180)) with (x + 2 * PI) by (rewrite <- (deg_rad_inv x) at 1; field).
    rewrite cos_plus, sin_plus, cos_2PI, sin_2PI. split; ring.
  - rewrite deg_rad_inv. split; reflexivity.
Qed.

Lemma deg_atan_range t : -90 < deg (atan t) < 90.
Proof.
  assert (HP := PI_RGT_0). generalize (atan_bound t). intro H. unfold deg.
  assert (E : PI / 2 * (180 / PI) = 90) by (field; lra).
  assert (H0 : 0 < 180 / PI) by (apply Rdiv_lt_0_compat; lra).
  assert (A : atan t * (180 / PI) < PI / 2 * (180 / PI)) by (apply Rmult_lt_compat_r; lra).
  assert (B : - (PI / 2) * (180 / PI) < atan t * (180 / PI)) by (apply Rmult_lt_compat_r; lra).
  lra.
Qed.

Lemma deg_plus x y : deg (x + y) = deg x + deg y.
Proof. unfold deg. ring. Qed.
Lemma deg_PI : deg PI = 180.
Proof. assert (HP := PI_RGT_0). unfold deg. field. lra. Qed.

Section EclGeo.
Context (lon lat obs eps sid dist h : R).
Let n := ecl_n lon lat obs sid dist h.
Let Y := ecl_Y lon lat obs eps sid dist h.
Let Z := ecl_Z lat obs eps sid dist h.
Let hyp := sqrt (n * n + Y * Y).
Context (Hn : n <> 0).

Lemma ecl_hyp_pos : 0 < hyp.
Proof. unfold hyp. apply hyp_pos. assert (0 < n * n) by nra. generalize (Rle_0_sqr Y). unfold Rsqr. lra. Qed.
Lemma ecl_nn_pos : 0 < n * n + Y * Y.
Proof. assert (0 < n * n) by nra. generalize (Rle_0_sqr Y). unfold Rsqr. lra. Qed.

(* longitude: cos, sin of the returned longitude are those of atan2(Y, n) *)
Lemma ecl_lon_trig :
  cos (ecl_lon lon lat obs eps sid dist h * (PI / 180)) = cos (atan2 Y n) /\
  sin (ecl_lon lon lat obs eps sid dist h * (PI / 180)) = sin (atan2 Y n).
Proof. unfold ecl_lon. apply pos360_trig. Qed.

(* latitude: the folded value is atan2(Z, hypot(n, Y)) *)
Lemma ecl_lat_eq : ecl_lat lon lat obs eps sid dist h = deg (atan2 Z hyp).
Proof.
  assert (Hh := ecl_hyp_pos).
  assert (E2 : atan2 Z hyp = atan (Z / hyp)) by (unfold atan2; destruct (Rlt_dec 0 hyp); [reflexivity|lra]).
  rewrite E2. unfold ecl_lat. cbv zeta. unfold ecl_b0. fold n. fold Z.
  destruct ecl_lon_trig as [Ec _]. rewrite Ec. fold Y.
  rewrite (cos_atan2 Y n ecl_nn_pos). fold hyp.
  assert (Eq : n / hyp * Z / n = Z / hyp) by (field; split; lra).
  assert (R := deg_atan_range (Z / hyp)).
  assert (EA : atan2 (n / hyp * Z) n = atan (Z / hyp)
               \/ atan2 (n / hyp * Z) n = atan (Z / hyp) + PI
               \/ atan2 (n / hyp * Z) n = atan (Z / hyp) + - PI).
  { unfold atan2. destruct (Rlt_dec 0 n) as [Hp|Hp]; [left; rewrite Eq; reflexivity|].
    destruct (Rlt_dec n 0) as [Hm|Hm]; [|lra]. rewrite Eq.
    destruct (Rle_dec 0 (n / hyp * Z)).
    + right. left. reflexivity.
    + right. right. ring. }
  destruct EA as [-> | [-> | ->]].
  - destruct (Rlt_dec 90 _); [lra|]. destruct (Rlt_dec _ (-90)); [lra|]. reflexivity.
  - rewrite deg_plus, deg_PI. destruct (Rlt_dec 90 _); [ring|lra].
  - assert (EP : deg (- PI) = -180) by (assert (HP := PI_RGT_0); unfold deg; field; lra).
    rewrite deg_plus, EP.
    destruct (Rlt_dec 90 _); [lra|]. destruct (Rlt_dec _ (-90)); [ring|lra].
Qed.

(* semidiameter: the code's asin argument cos lon' cos lat' sin s / n is sin s / |w| *)
Lemma ecl_semi_eq semi :
  ecl_semi_arg lon lat semi obs eps sid dist h (ecl_lat lon lat obs eps sid dist h)
  = sin (semi * (PI / 180)) / sqrt (n * n + Y * Y + Z * Z).
Proof.
  assert (Hh := ecl_hyp_pos). assert (Hnn := ecl_nn_pos).
  unfold ecl_semi_arg. destruct ecl_lon_trig as [Lc _]. rewrite Lc. fold n. fold Y.
  rewrite ecl_lat_eq, deg_rad_inv.
  rewrite (cos_atan2 Y n Hnn). fold hyp.
  assert (Hhh : hyp * hyp = n * n + Y * Y) by (unfold hyp; apply sqrt_sqrt; lra).
  assert (HN : 0 < hyp * hyp + Z * Z) by (generalize (Rle_0_sqr Z); unfold Rsqr; nra).
  rewrite (cos_atan2 Z hyp HN). rewrite Hhh.
  assert (0 < sqrt (n * n + Y * Y + Z * Z)) by (apply sqrt_lt_R0; lra).
  field. repeat split; lra.
Qed.
End EclGeo.

(* the displacement: u = (cos l cos b, sin l cos b, sin b) geocentric direction (ecliptical
   longitude l, latitude b), v the direction of the returned longitude and latitude.
   For n <> 0 and distance > C = (1 + |h|/a) sin(8.794''):  |u x v|^2 <= q^2, q = rho sin(8.794'')/distance
   <= C/distance < 1, and u.v > 0. *)
Theorem ecliptical_displacement lon lat obs eps sid dist h :
  ecl_n lon lat obs sid dist h <> 0 -> par_C h < Rabs dist ->
  let rc := ecl_rc obs h in let rs := ecl_rs obs h in
  let q := sqrt (rc * rc + rs * rs) * Rabs (ecl_k dist) in
  let l' := ecl_lon lon lat obs eps sid dist h * (PI / 180) in
  let b' := ecl_lat lon lat obs eps sid dist h * (PI / 180) in
  let vx := cos b' * cos l' in let vy := cos b' * sin l' in let vz := sin b' in
  let ux := cos (rad lon) * cos (rad lat) in let uy := sin (rad lon) * cos (rad lat) in let uz := sin (rad lat) in
  (uy * vz - uz * vy) * (uy * vz - uz * vy) + (uz * vx - ux * vz) * (uz * vx - ux * vz)
  + (ux * vy - uy * vx) * (ux * vy - uy * vx) <= q * q
  /\ q <= par_C h / Rabs dist /\ par_C h / Rabs dist < 1
  /\ 0 < ux * vx + uy * vy + uz * vz.
Proof.
  intros Hn HC rc rs q l' b' vx vy vz ux uy uz.
  assert (HCpos : 0 < par_C h).
  { unfold par_C. apply Rmult_lt_0_compat; [generalize (Rabs_pos (h / a_wgs)); lra | apply sin_pi0_pos]. }
  assert (Hd : dist <> 0) by (intro E; rewrite E, Rabs_R0 in HC; lra).
  assert (Hq : q <= par_C h / Rabs dist) by (apply (par_q_le obs h dist Hd)).
  assert (H1 : par_C h / Rabs dist < 1).
  { apply Rmult_lt_reg_r with (Rabs dist); [lra|]. unfold Rdiv. rewrite Rmult_assoc, Rinv_l by lra. lra. }
  set (k := ecl_k dist) in *.
  set (ox := rc * cos (rad sid)).
  set (oy := rs * sin (rad eps) + rc * cos (rad eps) * sin (rad sid)).
  set (oz := rs * cos (rad eps) - rc * sin (rad eps) * sin (rad sid)).
  assert (Hu : ux * ux + uy * uy + uz * uz = 1).
  { unfold ux, uy, uz. generalize (sq_sc' (rad lon)) (sq_sc' (rad lat)). intros A1 A2.
    replace (cos (rad lon) * cos (rad lat) * (cos (rad lon) * cos (rad lat)) + sin (rad lon) * cos (rad lat) * (sin (rad lon) * cos (rad lat)))
      with ((sin (rad lon) * sin (rad lon) + cos (rad lon) * cos (rad lon)) * (cos (rad lat) * cos (rad lat))) by ring.
    rewrite A1. lra. }
  assert (Eo : ox * ox + oy * oy + oz * oz = rc * rc + rs * rs).
  { unfold ox, oy, oz. generalize (sq_sc' (rad sid)) (sq_sc' (rad eps)). intros A1 A2.
    replace (rc * cos (rad sid) * (rc * cos (rad sid))
             + (rs * sin (rad eps) + rc * cos (rad eps) * sin (rad sid)) * (rs * sin (rad eps) + rc * cos (rad eps) * sin (rad sid))
             + (rs * cos (rad eps) - rc * sin (rad eps) * sin (rad sid)) * (rs * cos (rad eps) - rc * sin (rad eps) * sin (rad sid)))
      with (rc * rc * (cos (rad sid) * cos (rad sid))
            + (rs * rs + rc * rc * (sin (rad sid) * sin (rad sid))) * (sin (rad eps) * sin (rad eps) + cos (rad eps) * cos (rad eps))) by ring.
    rewrite A2. replace (cos (rad sid) * cos (rad sid)) with (1 - sin (rad sid) * sin (rad sid)) by lra. ring. }
  assert (Hq1 : sqrt (ox * ox + oy * oy + oz * oz) * Rabs k < 1) by (rewrite Eo; fold q; lra).
  pose proof (vec_displacement ux uy uz ox oy oz k Hu Hq1) as V. cbv zeta in V.
  assert (En : ux - k * ox = ecl_n lon lat obs sid dist h) by (unfold ux, ox, ecl_n, rad; fold rc; fold k; ring).
  assert (EY : uy - k * oy = ecl_Y lon lat obs eps sid dist h) by (unfold uy, oy, ecl_Y, rad; fold rc; fold rs; fold k; ring).
  assert (EZ : uz - k * oz = ecl_Z lat obs eps sid dist h) by (unfold uz, oz, ecl_Z, rad; fold rc; fold rs; fold k; ring).
  rewrite En, EY, EZ, Eo in V.
  destruct (ecl_lon_trig lon lat obs eps sid dist h) as [Lc Ls].
  assert (Elat : b' = atan2 (ecl_Z lat obs eps sid dist h)
                   (sqrt (ecl_n lon lat obs sid dist h * ecl_n lon lat obs sid dist h
                          + ecl_Y lon lat obs eps sid dist h * ecl_Y lon lat obs eps sid dist h))).
  { unfold b'. rewrite (ecl_lat_eq lon lat obs eps sid dist h Hn). apply deg_rad_inv. }
  unfold vx, vy, vz. unfold l'. rewrite Lc, Ls, Elat.
  destruct V as [V1 V2]. fold q in V1.
  split; [exact V1|]. split; [exact Hq|]. split; [exact H1 | exact V2].
Qed.

(* |w| between 1 - q and 1 + q (squared), q = rho sin(8.794'')/distance: the topocentric distance in
   units of the geocentric one *)
Theorem ecliptical_norm_bounds lon lat obs eps sid dist h :
  let rc := ecl_rc obs h in let rs := ecl_rs obs h in
  let q := sqrt (rc * rc + rs * rs) * Rabs (ecl_k dist) in
  let N2 := ecl_n lon lat obs sid dist h * ecl_n lon lat obs sid dist h
            + ecl_Y lon lat obs eps sid dist h * ecl_Y lon lat obs eps sid dist h
            + ecl_Z lat obs eps sid dist h * ecl_Z lat obs eps sid dist h in
  (1 - q) * (1 - q) <= N2 <= (1 + q) * (1 + q).
Proof.
  intros rc rs q N2.
  set (k := ecl_k dist) in *.
  set (ux := cos (rad lon) * cos (rad lat)). set (uy := sin (rad lon) * cos (rad lat)). set (uz := sin (rad lat)).
  set (ox := rc * cos (rad sid)).
  set (oy := rs * sin (rad eps) + rc * cos (rad eps) * sin (rad sid)).
  set (oz := rs * cos (rad eps) - rc * sin (rad eps) * sin (rad sid)).
  assert (Hu : ux * ux + uy * uy + uz * uz = 1).
  { unfold ux, uy, uz. generalize (sq_sc' (rad lon)) (sq_sc' (rad lat)). intros A1 A2.
    replace (cos (rad lon) * cos (rad lat) * (cos (rad lon) * cos (rad lat)) + sin (rad lon) * cos (rad lat) * (sin (rad lon) * cos (rad lat)))
      with ((sin (rad lon) * sin (rad lon) + cos (rad lon) * cos (rad lon)) * (cos (rad lat) * cos (rad lat))) by ring.
    rewrite A1. lra. }
  assert (Eo : ox * ox + oy * oy + oz * oz = rc * rc + rs * rs).
  { unfold ox, oy, oz. generalize (sq_sc' (rad sid)) (sq_sc' (rad eps)). intros A1 A2.
    replace (rc * cos (rad sid) * (rc * cos (rad sid))
             + (rs * sin (rad eps) + rc * cos (rad eps) * sin (rad sid)) * (rs * sin (rad eps) + rc * cos (rad eps) * sin (rad sid))
             + (rs * cos (rad eps) - rc * sin (rad eps) * sin (rad sid)) * (rs * cos (rad eps) - rc * sin (rad eps) * sin (rad sid)))
      with (rc * rc * (cos (rad sid) * cos (rad sid))
            + (rs * rs + rc * rc * (sin (rad sid) * sin (rad sid))) * (sin (rad eps) * sin (rad eps) + cos (rad eps) * cos (rad eps))) by ring.
    rewrite A2. replace (cos (rad sid) * cos (rad sid)) with (1 - sin (rad sid) * sin (rad sid)) by lra. ring. }
  pose proof (vN2_bounds ux uy uz ox oy oz k Hu) as V. cbv zeta in V.
  assert (En : ux - k * ox = ecl_n lon lat obs sid dist h) by (unfold ux, ox, ecl_n, rad; fold rc; fold k; ring).
  assert (EY : uy - k * oy = ecl_Y lon lat obs eps sid dist h) by (unfold uy, oy, ecl_Y, rad; fold rc; fold rs; fold k; ring).
  assert (EZ : uz - k * oz = ecl_Z lat obs eps sid dist h) by (unfold uz, oz, ecl_Z, rad; fold rc; fold rs; fold k; ring).
  rewrite En, EY, EZ, Eo in V. exact V.
Qed.
