(* C18_merint: along a meridian Andoyer's distance (the formula the generated Earth.distance
   computes) is EXACTLY the integral of the first-order expansion of the meridian radius of
   curvature, a (1 - 2f + 3f sin^2 phi), and therefore differs from the true meridian arc
   RInt rm by at most 2 f^2 a |delta phi| (f <= 0.01). *)
From Coq Require Import Reals Lra Lia.
From Coquelicot Require Import Coquelicot.
From Proofs.C18 Require Import C18_spec C18_mer.
Open Scope R_scope.

(* ---- Andoyer along a meridian in closed form *)
Lemma andoyer_meridian a fe l p1 p2 : 0 < Rabs (p1 - p2) < PI ->
  andoyer a fe l p1 l p2
  = a * ((1 - fe / 2) * Rabs (p1 - p2) - 3 * fe / 2 * sin (Rabs (p1 - p2)) * cos (p1 + p2)).
Proof.
  intro H. unfold andoyer, hav_s, hav_c.
  replace ((l - l) / 2) with 0 by lra. rewrite sin_0, cos_0.
  set (G := (p1 - p2) / 2). set (F := (p1 + p2) / 2).
  assert (HG : 0 < Rabs G < PI / 2).
  { unfold G. unfold Rabs in *. destruct (Rcase_abs (p1 - p2)); destruct (Rcase_abs ((p1 - p2) / 2)); lra. }
  assert (Hc : 0 < cos G) by (apply cos_gt_0; unfold Rabs in HG; destruct (Rcase_abs G); lra).
  assert (Hs : sin G <> 0).
  { unfold Rabs in HG. destruct (Rcase_abs G) as [Hn|Hn].
    - assert (sin G < 0) by (apply sin_lt_0_var; lra). lra.
    - assert (0 < sin G) by (apply sin_gt_0; lra). lra. }
  replace (sin G * sin G * (1 * 1) + cos F * cos F * (0 * 0)) with (sin G * sin G) by ring.
  replace (cos G * cos G * (1 * 1) + sin F * sin F * (0 * 0)) with (cos G * cos G) by ring.
  unfold andoyer_core. cbv zeta.
  rewrite (atan_sqrt_tan2 G HG).
  assert (Esq : sqrt (sin G * sin G * (cos G * cos G)) = sin (Rabs G) * cos (Rabs G)).
  { replace (sin G * sin G * (cos G * cos G)) with (Rsqr (sin G * cos G)) by (unfold Rsqr; ring).
    rewrite sqrt_Rsqr_abs. unfold Rabs at 2 3. destruct (Rcase_abs G) as [Hn|Hn].
    - rewrite sin_neg, cos_neg. replace (- sin G * cos G) with (- (sin G * cos G)) by ring. apply Rabs_left.
      assert (sin G < 0) by (unfold Rabs in HG; destruct (Rcase_abs G); [apply sin_lt_0_var; lra | lra]). nra.
    - apply Rabs_right. assert (0 < sin G) by (unfold Rabs in HG; destruct (Rcase_abs G); [lra | apply sin_gt_0; lra]). nra. }
  rewrite Esq.
  assert (EG : Rabs (p1 - p2) = 2 * Rabs G).
  { unfold G. unfold Rabs. destruct (Rcase_abs (p1 - p2)); destruct (Rcase_abs ((p1 - p2) / 2)); lra. }
  rewrite EG. rewrite sin_2a.
  replace (p1 + p2) with (2 * F) by (unfold F; lra). rewrite cos_2a.
  assert (HsG : sin G * sin G <> 0) by (apply Rmult_integral_contrapositive_currified; assumption).
  assert (E2 : sin (Rabs G) * sin (Rabs G) = sin G * sin G)
    by (unfold Rabs; destruct (Rcase_abs G); [rewrite sin_neg; ring | reflexivity]).
  set (sg := sin (Rabs G)) in *. set (cg := cos (Rabs G)) in *. set (g := Rabs G) in *.
  generalize (sq_sc F). intro HF. replace (cos F * cos F) with (1 - sin F * sin F) by lra.
  assert (Hg0 : g <> 0) by lra.
  clearbody sg cg g.
  set (sG := sin G) in *. set (cG := cos G) in *. set (sF := sin F) in *. clearbody sG cG sF.
  field. repeat split; try assumption; lra.
Qed.

(* the primitive of the first-order meridian radius *)
Definition mer_prim (a f phi : R) : R := a * ((1 - f / 2) * phi - 3 * f / 4 * sin (2 * phi)).

Lemma andoyer_meridian_prim a fe l p1 p2 : p1 < p2 < p1 + PI ->
  andoyer a fe l p1 l p2 = mer_prim a fe p2 - mer_prim a fe p1.
Proof.
  intro H. rewrite andoyer_meridian by (rewrite Rabs_left; lra).
  rewrite Rabs_left by lra. unfold mer_prim.
  replace (- (p1 - p2)) with (p2 - p1) by ring.
  assert (E : sin (2 * p2) - sin (2 * p1) = 2 * cos (p1 + p2) * sin (p2 - p1)).
  { rewrite form4. f_equal; [f_equal|]; f_equal; lra. }
  transitivity (a * ((1 - fe / 2) * (p2 - p1) - 3 * fe / 4 * (sin (2 * p2) - sin (2 * p1)))); [rewrite E; set (S := sin (p2 - p1)); set (C := cos (p1 + p2)); clearbody S C; field | unfold mer_prim; set (s2 := sin (2 * p2)); set (s1 := sin (2 * p1)); clearbody s1 s2; field].
Qed.

(* derivative and integral *)
Lemma mer_prim_derive a f x : is_derive (mer_prim a f) x (mer_lin a f x).
Proof.
  unfold mer_prim, mer_lin. auto_derive. exact I.
  rewrite cos_2a. generalize (sq_sc x). intro Hx.
  replace (cos x * cos x) with (1 - sin x * sin x) by lra. field.
Qed.

Lemma mer_lin_continuous a f x : continuous (mer_lin a f) x.
Proof. apply (@ex_derive_continuous R_AbsRing R_NormedModule). unfold mer_lin. auto_derive. exact I. Qed.

Lemma mer_lin_RInt a f p1 p2 : is_RInt (mer_lin a f) p1 p2 (mer_prim a f p2 - mer_prim a f p1).
Proof.
  apply (is_RInt_derive (mer_prim a f) (mer_lin a f)).
  - intros x _. apply mer_prim_derive.
  - intros x _. apply mer_lin_continuous.
Qed.

Lemma mer_radius_continuous a f x : 0 <= f < 1 -> continuous (mer_radius a f) x.
Proof.
  intro Hf. apply (@ex_derive_continuous R_AbsRing R_NormedModule). unfold mer_radius, wfac. auto_derive.
  assert (Hw := wfac_pos f x Hf). unfold wfac in Hw.
  assert (0 < sqrt (1 - ecc2 f * sin x * sin x)) by (apply sqrt_lt_R0, Hw).
  repeat split; try exact I; try lra. apply Rgt_not_eq. apply Rmult_lt_0_compat; assumption.
Qed.

Theorem meridian_arc a f l p1 p2 : 0 < a -> 0 <= f <= 1 / 100 -> p1 < p2 < p1 + PI ->
  ex_RInt (mer_radius a f) p1 p2 /\
  Rabs (RInt (mer_radius a f) p1 p2 - andoyer a f l p1 l p2) <= 2 * (f * f) * a * (p2 - p1).
Proof.
  intros Ha Hf Hp.
  assert (Hf1 : 0 <= f < 1) by lra.
  assert (Ex1 : ex_RInt (mer_radius a f) p1 p2).
  { apply (@ex_RInt_continuous R_CompleteNormedModule). intros z _. apply mer_radius_continuous, Hf1. }
  split; [exact Ex1|].
  assert (Ex2 : ex_RInt (mer_lin a f) p1 p2) by (eexists; apply mer_lin_RInt).
  rewrite andoyer_meridian_prim by exact Hp.
  rewrite <- (is_RInt_unique _ _ _ _ (mer_lin_RInt a f p1 p2)).
  change (RInt (mer_radius a f) p1 p2 - RInt (mer_lin a f) p1 p2)
    with (minus (RInt (mer_radius a f) p1 p2) (RInt (mer_lin a f) p1 p2)).
  rewrite <- (RInt_minus _ _ _ _ Ex1 Ex2).
  replace (2 * (f * f) * a * (p2 - p1)) with ((p2 - p1) * (2 * (f * f) * a)) by ring.
  apply abs_RInt_le_const; [lra | apply ex_RInt_minus; assumption|].
  intros t _. apply (mer_radius_lin a f t Ha Hf).
Qed.

(* the meridian arc is at least (b^2/a) delta phi; hence the relative form of the bound *)
Lemma mer_radius_lower a f x : 0 < a -> 0 <= f < 1 -> a * (1 - ecc2 f) <= mer_radius a f x.
Proof.
  intros Ha Hf. unfold mer_radius.
  assert (Hw := wfac_pos f x Hf). assert (Hw1 := wfac_le_1 f x ltac:(lra)).
  assert (Hs : 0 < sqrt (wfac f x)) by (apply sqrt_lt_R0, Hw).
  assert (Hs1 : sqrt (wfac f x) <= 1) by (rewrite <- sqrt_1; apply sqrt_le_1_alt, Hw1).
  assert (Hd : 0 < wfac f x * sqrt (wfac f x) <= 1) by nra.
  assert (H0 : 0 <= a * (1 - ecc2 f)) by (rewrite one_minus_ecc2; apply Rmult_le_pos; [lra | apply Rle_0_sqr]).
  set (W := wfac f x * sqrt (wfac f x)) in *.
  apply Rmult_le_reg_r with W; [lra|].
  replace (a * (1 - ecc2 f) / W * W) with (a * (1 - ecc2 f)) by (field; lra).
  set (c := a * (1 - ecc2 f)) in *. nra.
Qed.

Theorem meridian_arc_relative a f l p1 p2 : 0 < a -> 0 <= f <= 7 / 1000 -> p1 < p2 < p1 + PI ->
  Rabs (RInt (mer_radius a f) p1 p2 - andoyer a f l p1 l p2) <= 1 / 10000 * RInt (mer_radius a f) p1 p2.
Proof.
  intros Ha Hf Hp.
  destruct (meridian_arc a f l p1 p2 Ha ltac:(lra) Hp) as [Ex B].
  assert (Hf1 : 0 <= f < 1) by lra.
  assert (L : a * (1 - ecc2 f) * (p2 - p1) <= RInt (mer_radius a f) p1 p2).
  { assert (Ec : RInt (fun _ : R => a * (1 - ecc2 f)) p1 p2 = (p2 - p1) * (a * (1 - ecc2 f)))
      by (rewrite RInt_const; reflexivity).
    rewrite (Rmult_comm _ (p2 - p1)). rewrite <- Ec.
    apply RInt_le; [lra | apply ex_RInt_const | exact Ex |].
    intros x _. apply mer_radius_lower; assumption. }
  eapply Rle_trans; [exact B|].
  apply Rle_trans with (1 / 10000 * (a * (1 - ecc2 f) * (p2 - p1))); [|apply Rmult_le_compat_l; lra].
  rewrite one_minus_ecc2.
  assert (0 < a * (p2 - p1)) by (apply Rmult_lt_0_compat; lra).
  assert (2 * (f * f) <= 1 / 10000 * ((1 - f) * (1 - f))) by nra.
  replace (2 * (f * f) * a * (p2 - p1)) with (2 * (f * f) * (a * (p2 - p1))) by ring.
  replace (1 / 10000 * (a * ((1 - f) * (1 - f)) * (p2 - p1))) with (1 / 10000 * ((1 - f) * (1 - f)) * (a * (p2 - p1))) by ring.
  apply Rmult_le_compat_r; lra.
Qed.
