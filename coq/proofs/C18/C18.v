(* Property C18 — Earth ellipsoid quantities and surface distance satisfy their identities.
   Statements only; proofs are in C18_main.v (from C18_spec.v: real analysis on hand-written
   functions, and C18_bridge/_radii/_dist.v: the model regenerated from /repo computes
   exactly those functions).  IDEAL (real-number) instance of the generated model: the
   theorems say what the code computes when rounding is ignored.

   Vocabulary: [ell a f w] is an Ellipsoid object, [earth a f w] an Earth object built on it,
   [degval v d]: v is the Python argument (float, int or Angle) for d degrees,
   [numval hv h]: hv is a float or int height of h metres, [ang d t] an Angle of d degrees,
   [good_ellipsoid a f] := 0 < a /\ 0 <= f < 1. *)
From Coq Require Import Reals ZArith List String.
From PyLib Require Import PyVal PyBuiltins Ideal.
From Gen Require Import M_base M_Angle M_Epoch M_Interpolation M_Coordinates M_Earth.
From Proofs.C18 Require Import C18_spec C18_defs C18_bridge C18_dist C18_main C18_par C18_parbound C18_gc C18_gcm C18_parvec C18_parm C18_mer C18_merint C18_merm.
From Coquelicot Require Import Coquelicot.
Import ListNotations.
Open Scope R_scope.

(* both built-in ellipsoids are good ellipsoids; Earth(ellipsoid) is the Earth object on it *)
Theorem C18_builtin : forall E, E = g_IAU76 Rops \/ E = g_WGS84 Rops ->
  exists a f w, E = ell a f w /\ good_ellipsoid a f.
Proof. exact builtin_ellipsoids. Qed.
Theorem C18_earth_object : forall a f w,
  Earth___init__ Rops (VObj cEarth [VNone]) (ell a f w) = earth a f w.
Proof. exact earth_new. Qed.

(* e.set(E) on any Earth object gives exactly the object Earth(E): no state besides the
   ellipsoid (a method that assigns to self returns the pair (new self, result)) *)
Theorem C18_set_ellipsoid : forall a0 f0 w0 a f w,
  Earth_set Rops (earth a0 f0 w0) (ell a f w)
  = VTuple [Earth___init__ Rops (VObj cEarth [VNone]) (ell a f w); VNone]
  /\ Earth___init__ Rops (VObj cEarth [VNone]) (ell a f w) = earth a f w.
Proof. intros. rewrite earth_new. split; [apply earth_set | reflexivity]. Qed.

(* at sea level the observer lies on the meridian ellipse (rho cos phi')^2 + (rho sin phi' a/b)^2 = 1,
   on the side x > 0 and in the geocentric direction tan phi' = (b/a)^2 tan phi (these three facts
   determine the point).  POLES EXCLUDED: the code computes atan(b/a tan phi); at phi = +-90 deg exactly
   the real-number instance would evaluate Coq's junk value tan(pi/2) = 1 * /0 (Ideal.v has no domain
   check for tan), so the hypothesis cos phi <> 0 is required.  In binary64 tan(radians(90)) is finite
   (1.6e16) and the poles are covered by the oracle and the bit-exact correspondence. *)
Theorem C18_on_ellipse : forall a f w, good_ellipsoid a f -> forall v d hv,
  degval v d -> numval hv 0 -> cos (rad d) <> 0 ->
  exists x y b,
    Earth_rho_cosphi Rops (earth a f w) v hv = VFloat x /\
    Earth_rho_sinphi Rops (earth a f w) v hv = VFloat y /\
    Ellipsoid_b Rops (ell a f w) = VFloat b /\
    x * x + (y * (a / b)) * (y * (a / b)) = 1 /\
    0 < x /\
    y * cos (rad d) = (1 - f) * (1 - f) * x * sin (rad d).
Proof. exact on_ellipse_model. Qed.

(* height h adds h/a (cos phi, sin phi) to the sea-level values of C18_on_ellipse (poles excluded as there) *)
Theorem C18_height : forall a f w, good_ellipsoid a f -> forall v d hv h h0,
  degval v d -> numval hv h -> numval h0 0 -> cos (rad d) <> 0 ->
  exists x0 y0,
    Earth_rho_cosphi Rops (earth a f w) v h0 = VFloat x0 /\
    Earth_rho_sinphi Rops (earth a f w) v h0 = VFloat y0 /\
    Earth_rho_cosphi Rops (earth a f w) v hv = VFloat (x0 + h / a * cos (rad d)) /\
    Earth_rho_sinphi Rops (earth a f w) v hv = VFloat (y0 + h / a * sin (rad d)).
Proof. exact height_model. Qed.

(* the parallel radius rp equals a rho cos phi' (two different formulas), |phi| < 90 *)
Theorem C18_parallel_radius : forall a f w, good_ellipsoid a f -> forall v d h0,
  degval v d -> numval h0 0 -> -90 < d < 90 ->
  exists x r,
    Earth_rho_cosphi Rops (earth a f w) v h0 = VFloat x /\
    Earth_rp Rops (earth a f w) v = VFloat r /\ r = a * x.
Proof. exact parallel_radius_model. Qed.

(* linear speed = angular velocity times parallel radius *)
Theorem C18_linear_velocity : forall a f w, good_ellipsoid a f -> forall v d, degval v d ->
  exists r, Earth_rp Rops (earth a f w) v = VFloat r /\
            Earth_linear_velocity Rops (earth a f w) v = VFloat (w * r).
Proof. exact linear_velocity_model. Qed.

(* meridian radius of curvature: b^2/a at the equator, a^2/b at the poles, monotone in |phi| *)
Theorem C18_rm_equator : forall a f w, good_ellipsoid a f -> forall v, degval v 0 ->
  exists b, Ellipsoid_b Rops (ell a f w) = VFloat b /\
            Earth_rm Rops (earth a f w) v = VFloat (b * b / a).
Proof. exact rm_equator_model. Qed.
Theorem C18_rm_pole : forall a f w, good_ellipsoid a f -> forall v d, degval v d ->
  d = 90 \/ d = -90 ->
  exists b, Ellipsoid_b Rops (ell a f w) = VFloat b /\
            Earth_rm Rops (earth a f w) v = VFloat (a * a / b).
Proof. exact rm_pole_model. Qed.
Theorem C18_rm_monotone : forall a f w, good_ellipsoid a f -> forall v1 d1 v2 d2,
  degval v1 d1 -> degval v2 d2 -> Rabs d1 <= Rabs d2 -> Rabs d2 <= 90 ->
  exists r1 r2, Earth_rm Rops (earth a f w) v1 = VFloat r1 /\
                Earth_rm Rops (earth a f w) v2 = VFloat r2 /\ r1 <= r2.
Proof. exact rm_monotone_model. Qed.

(* Earth.distance: symmetric for ALL point pairs (float or Angle arguments; exactly antipodal
   pairs, where c = 0, raise ZeroDivisionError in both orders in this instance) *)
Theorem C18_distance_symmetric : forall a f w l1 p1 l2 p2,
  Earth_distance Rops (earth a f w) (VFloat l2) (VFloat p2) (VFloat l1) (VFloat p1)
  = Earth_distance Rops (earth a f w) (VFloat l1) (VFloat p1) (VFloat l2) (VFloat p2).
Proof. exact distance_symmetric_float. Qed.
Theorem C18_distance_symmetric_angle : forall a f w l1 t1 p1 t2 l2 t3 p2 t4,
  Earth_distance Rops (earth a f w) (ang l2 t3) (ang p2 t4) (ang l1 t1) (ang p1 t2)
  = Earth_distance Rops (earth a f w) (ang l1 t1) (ang p1 t2) (ang l2 t3) (ang p2 t4).
Proof. exact distance_symmetric_angle. Qed.

(* coincident points: (0.0, 0.0) *)
Theorem C18_distance_coincident : forall a f w l p,
  Earth_distance Rops (earth a f w) (VFloat l) (VFloat p) (VFloat l) (VFloat p)
  = VTuple [VFloat 0; VFloat 0]
  /\ forall t1 t2 t3 t4,
  Earth_distance Rops (earth a f w) (ang l t1) (ang p t2) (ang l t3) (ang p t4)
  = VTuple [VFloat 0; VFloat 0].
Proof.
  intros. split; [apply distance_coincident_float | intros; apply distance_coincident_angle].
Qed.

(* along the equator the distance is a |delta lambda| (radians), 0 < |delta lambda| < 180 deg; the
   second component is the code's error estimate round(dist f^2, 0) *)
Theorem C18_distance_equator : forall a f w l1 l2, 0 < Rabs (l1 - l2) < 180 ->
  Earth_distance Rops (earth a f w) (VFloat l1) (VFloat 0) (VFloat l2) (VFloat 0)
  = VTuple [VFloat (a * (Rabs (l1 - l2) * (PI / 180)));
            VFloat (Rround_nd (a * (Rabs (l1 - l2) * (PI / 180)) * f * f) 0)]
  /\ forall t1 t2 t3 t4,
  Earth_distance Rops (earth a f w) (ang l1 t1) (ang 0 t2) (ang l2 t3) (ang 0 t4)
  = VTuple [VFloat (a * (Rabs (l1 - l2) * (PI / 180)));
            VFloat (Rround_nd (a * (Rabs (l1 - l2) * (PI / 180)) * f * f) 0)].
Proof.
  intros. split; [apply distance_equator_float; assumption
                 | intros; apply distance_equator_angle; assumption].
Qed.

(* CLOSED FORM (pins the code): [dist_spec]/[andoyer] of C18_spec.v transcribe Earth.distance (incl. the
   error estimate round(dist f^2, 0)); this theorem is no property by itself — it ties the code to the
   formula from which symmetry / coincident / equator above are derived, and breaks when the code changes *)
Theorem C18_distance_value : forall a f w l1 p1 l2 p2,
  Earth_distance Rops (earth a f w) (VFloat l1) (VFloat p1) (VFloat l2) (VFloat p2)
  = dist_spec a f l1 p1 l2 p2.
Proof. exact dist_float_all. Qed.

(* CLOSED FORM (pins the code; a transcription of the repaired code, no property by itself; observer
   latitude +-90 deg exactly excluded: rho_sin/rho_cos go through tan, see C18_on_ellipse)
   of Earth.parallax_correction (after the repairs 2d034b9): with k = sin(8.794'')/distance,
   (rho_cos, rho_sin) of the WGS84 observer, A = cos d - rho_cos k cos H, B = - rho_cos k sin H:
   delta_alpha = atan2(B, A), topocentric declination = atan2(sin d - rho_sin k, sqrt(A^2 + B^2)), both
   returned as Angles in degrees; the right ascension is the model's Angle.__add__ of the input and
   delta_alpha ([mk_tuple] is the model's tuple constructor) *)
Theorem C18_parallax_correction_closed_form : forall ra t1 dec t2 lat t3 dist H t4 h, dist <> 0 ->
  cos (rad lat) <> 0 ->
  Earth_parallax_correction Rops (ang ra t1) (ang dec t2) (ang lat t3) (VFloat dist) (ang H t4) (VFloat h)
  = mk_tuple
      [Angle___add__ Rops (ang ra t1)
         (ang (deg (topo_dalpha dec H (rho_cos a_wgs f_wgs h (rad lat)) (par_k dist))) tol0);
       ang (deg (topo_dec dec H (rho_cos a_wgs f_wgs h (rad lat)) (rho_sin a_wgs f_wgs h (rad lat)) (par_k dist))) tol0].
Proof. intros. apply parallax_correction_closed. assumption. Qed.

(* the topocentric declination of that closed form obeys a limit-free bound that vanishes as the
   distance grows: with q = rho |k| < 1 (rho = sqrt(rho_cos^2 + rho_sin^2), k = sin(8.794'')/distance),
   |sin dec' - sin dec| <= 2 q / (1 - q), for every hour angle and every declination of the body (no tan is
   involved in dec; rc, rs are arbitrary reals).  Note: 2q/(1-q) is about TWICE the horizontal parallax
   asin(q): this shows the correction vanishes like 1/distance, it is weaker than the property's bound
   (which stays searched only).  [topo_dec] is the expression of the closed form above. *)
Theorem C18_parallax_declination_bound : forall dec H rc rs k,
  sqrt (rc * rc + rs * rs) * Rabs k < 1 ->
  Rabs (sin (topo_dec dec H rc rs k) - sin (rad dec))
  <= 2 * (sqrt (rc * rc + rs * rs) * Rabs k) / (1 - sqrt (rc * rc + rs * rs) * Rabs k).
Proof. intros dec H rc rs k Hq. exact (topo_dec_sin_bound (rad dec) (rad H) rc rs k Hq). Qed.

Redirect "C18_parallax_declination_bound.assumptions" Print Assumptions C18_parallax_declination_bound.
(* ---- great circle.  [central_angle l1 p1 l2 p2] = 2 atan(sqrt(s/c)) is the angle at the centre of the
   sphere between the two points (degrees in, radians out): it satisfies the haversine formula.
   [proper_pair]: neither coincident (s = 0) nor antipodal (c = 0). *)
Theorem C18_central_angle : forall l1 p1 l2 p2, proper_pair l1 p1 l2 p2 ->
  0 < central_angle l1 p1 l2 p2 < PI /\
  sin (central_angle l1 p1 l2 p2 / 2) * sin (central_angle l1 p1 l2 p2 / 2)
  = sin ((rad p1 - rad p2) / 2) * sin ((rad p1 - rad p2) / 2)
    + cos (rad p1) * cos (rad p2) * (sin ((rad l1 - rad l2) / 2) * sin ((rad l1 - rad l2) / 2)).
Proof. exact central_angle_spec. Qed.

(* Earth.distance D of the generated model lies between a sigma (1 - 2f) and a sigma (1 + f), sigma the
   central angle, for EVERY proper pair and every ellipsoid a > 0, f >= 0; for f <= 0.00359 (both built-in
   ellipsoids) it is within 0.6 % of the great circle on the sphere of mean radius (2a + b)/3.
   (With the equatorial radius a as sphere radius the deviation reaches 2f = 0.67 % along a meridian
   near the equator, so the clause can only hold for the mean radius.) *)
Theorem C18_distance_great_circle : forall a f w, 0 < a -> 0 <= f -> forall l1 p1 l2 p2,
  proper_pair l1 p1 l2 p2 ->
  exists D,
    Earth_distance Rops (earth a f w) (VFloat l1) (VFloat p1) (VFloat l2) (VFloat p2)
    = VTuple [VFloat D; VFloat (Rround_nd (D * f * f) 0)] /\
    a * central_angle l1 p1 l2 p2 * (1 - 2 * f) <= D <= a * central_angle l1 p1 l2 p2 * (1 + f) /\
    (f <= 359 / 100000 ->
     Rabs (D - (2 * a + semi_minor a f) / 3 * central_angle l1 p1 l2 p2)
     <= 6 / 1000 * ((2 * a + semi_minor a f) / 3 * central_angle l1 p1 l2 p2)).
Proof. exact great_circle_float. Qed.
Theorem C18_distance_great_circle_angle : forall a f w, 0 < a -> 0 <= f -> forall l1 t1 p1 t2 l2 t3 p2 t4,
  proper_pair l1 p1 l2 p2 ->
  exists D,
    Earth_distance Rops (earth a f w) (ang l1 t1) (ang p1 t2) (ang l2 t3) (ang p2 t4)
    = VTuple [VFloat D; VFloat (Rround_nd (D * f * f) 0)] /\
    a * central_angle l1 p1 l2 p2 * (1 - 2 * f) <= D <= a * central_angle l1 p1 l2 p2 * (1 + f) /\
    (f <= 359 / 100000 ->
     Rabs (D - (2 * a + semi_minor a f) / 3 * central_angle l1 p1 l2 p2)
     <= 6 / 1000 * ((2 * a + semi_minor a f) / 3 * central_angle l1 p1 l2 p2)).
Proof. exact great_circle_angle. Qed.
Theorem C18_builtin_flattening : 1 / 298.257 <= 359 / 100000 /\ 1 / 298.257223563 <= 359 / 100000.
Proof. exact builtin_flattening. Qed.

(* ---- parallax: the displacement of Earth.parallax_correction.  Measure: the angle theta between
   u = (cos dec, 0, sin dec), the geocentric direction (x axis towards the body's right ascension), and
   v, the direction with right-ascension offset topo_dalpha and declination topo_dec, i.e. exactly the two
   expressions of C18_parallax_correction_closed_form (WGS84 observer at latitude lat, height h).
   Hypothesis: distance > C = (1 + |h|/a) sin(8.794'') (about 4.3e-5 AU).  Then
     sin^2 theta = |u x v|^2 <= q^2,  q = rho sin(8.794'')/distance <= C/distance < 1,  cos theta = u.v > 0,
   i.e. theta <= asin(rho sin(8.794'')/distance): never more than the horizontal parallax of an observer at
   geocentric distance rho (rho <= 1 + |h|/a; rho = 1 at sea level on the equator), and <= asin(C/distance),
   which tends to 0 as the distance grows.  Every declination and hour angle, poles of the body included. *)
Theorem C18_parallax_displacement_bound : forall dec H lat h dist, par_C h < Rabs dist ->
  let rc := rho_cos a_wgs f_wgs h (rad lat) in
  let rs := rho_sin a_wgs f_wgs h (rad lat) in
  let k := par_k dist in
  let q := sqrt (rc * rc + rs * rs) * Rabs k in
  let da := topo_dalpha dec H rc k in
  let dd := topo_dec dec H rc rs k in
  let vx := cos dd * cos da in let vy := cos dd * sin da in let vz := sin dd in
  let ux := cos (rad dec) in let uz := sin (rad dec) in
  (0 * vz - uz * vy) * (0 * vz - uz * vy) + (uz * vx - ux * vz) * (uz * vx - ux * vz)
    + (ux * vy - 0 * vx) * (ux * vy - 0 * vx) <= q * q
  /\ q <= par_C h / Rabs dist /\ par_C h / Rabs dist < 1
  /\ 0 < ux * vx + 0 * vy + uz * vz.
Proof. exact parallax_displacement. Qed.

(* the hypothesis distance > C holds on the whole range of the property (|h| <= 9000 m, distance >= 1e-3 AU) *)
Theorem C18_parallax_range : forall h dist, Rabs h <= 9000 -> 1 / 1000 <= dist -> par_C h < Rabs dist.
Proof. exact parallax_range. Qed.

(* the observer's geocentric distance: rho <= 1 + |h|/a for every latitude, 0 <= f <= 1 *)
Theorem C18_rho_bound : forall a f h phi, 0 <= f <= 1 ->
  sqrt (rho_cos a f h phi * rho_cos a f h phi + rho_sin a f h phi * rho_sin a f h phi) <= 1 + Rabs (h / a).
Proof. exact rho_bound. Qed.

(* the correction in right ascension in the form the code computes it (Meeus 40.2), A > 0 *)
Theorem C18_parallax_dalpha_tan : forall dec H rc k, 0 < par_A dec H rc k ->
  tan (topo_dalpha dec H rc k) = - rc * k * sin (rad H) / (cos (rad dec) - rc * k * cos (rad H)).
Proof. exact parallax_dalpha_tan. Qed.

(* ---- along a meridian.  [mer_radius a f] is the function that Earth.rm computes (C18_rm_*: bridging
   lemma rm_ok), [RInt] Coquelicot's Riemann integral, so RInt (mer_radius a f) phi1 phi2 is the true
   length of the meridian arc.  Andoyer's formula as coded is EXACTLY the integral of the first-order
   expansion a (1 - 2f + 3f sin^2 phi) of the meridian radius (primitive mer_prim), and
   |rm - a (1 - 2f + 3f sin^2)| <= 2 f^2 a for f <= 0.01; hence for latitudes p1 < p2 < p1 + 180 deg on one
   meridian: |arc - D| <= 2 f^2 a (phi2 - phi1), and |arc - D| <= 1e-4 arc for f <= 0.007 (both built-in
   ellipsoids: 2 f^2/(1-f)^2 = 2.3e-5). *)
Theorem C18_andoyer_meridian_first_order : forall a f l p1 p2, p1 < p2 < p1 + PI ->
  andoyer a f l p1 l p2 = mer_prim a f p2 - mer_prim a f p1
  /\ is_RInt (mer_lin a f) p1 p2 (mer_prim a f p2 - mer_prim a f p1)
  /\ (0 < a -> 0 <= f <= 1 / 100 -> forall phi, Rabs (mer_radius a f phi - mer_lin a f phi) <= 2 * (f * f) * a).
Proof.
  intros a f l p1 p2 H. split; [apply andoyer_meridian_prim, H|]. split; [apply mer_lin_RInt|].
  intros Ha Hf phi. apply mer_radius_lin; assumption.
Qed.

Theorem C18_distance_meridian_arc : forall a f w, 0 < a -> 0 <= f <= 1 / 100 -> forall l p1 p2,
  p1 < p2 < p1 + 180 ->
  exists D,
    Earth_distance Rops (earth a f w) (VFloat l) (VFloat p1) (VFloat l) (VFloat p2)
    = VTuple [VFloat D; VFloat (Rround_nd (D * f * f) 0)] /\
    ex_RInt (mer_radius a f) (rad p1) (rad p2) /\
    Rabs (RInt (mer_radius a f) (rad p1) (rad p2) - D) <= 2 * (f * f) * a * (rad p2 - rad p1) /\
    (f <= 7 / 1000 ->
     Rabs (RInt (mer_radius a f) (rad p1) (rad p2) - D) <= 1 / 10000 * RInt (mer_radius a f) (rad p1) (rad p2)).
Proof. exact meridian_float. Qed.
Theorem C18_distance_meridian_arc_angle : forall a f w, 0 < a -> 0 <= f <= 1 / 100 -> forall l t1 p1 t2 t3 p2 t4,
  p1 < p2 < p1 + 180 ->
  exists D,
    Earth_distance Rops (earth a f w) (ang l t1) (ang p1 t2) (ang l t3) (ang p2 t4)
    = VTuple [VFloat D; VFloat (Rround_nd (D * f * f) 0)] /\
    ex_RInt (mer_radius a f) (rad p1) (rad p2) /\
    Rabs (RInt (mer_radius a f) (rad p1) (rad p2) - D) <= 2 * (f * f) * a * (rad p2 - rad p1) /\
    (f <= 7 / 1000 ->
     Rabs (RInt (mer_radius a f) (rad p1) (rad p2) - D) <= 1 / 10000 * RInt (mer_radius a f) (rad p1) (rad p2)).
Proof. exact meridian_angle. Qed.

Redirect "C18_andoyer_meridian_first_order.assumptions" Print Assumptions C18_andoyer_meridian_first_order.
Redirect "C18_distance_meridian_arc.assumptions" Print Assumptions C18_distance_meridian_arc.
Redirect "C18_distance_meridian_arc_angle.assumptions" Print Assumptions C18_distance_meridian_arc_angle.
Redirect "C18_central_angle.assumptions" Print Assumptions C18_central_angle.
Redirect "C18_distance_great_circle.assumptions" Print Assumptions C18_distance_great_circle.
Redirect "C18_distance_great_circle_angle.assumptions" Print Assumptions C18_distance_great_circle_angle.
Redirect "C18_builtin_flattening.assumptions" Print Assumptions C18_builtin_flattening.
Redirect "C18_parallax_displacement_bound.assumptions" Print Assumptions C18_parallax_displacement_bound.
Redirect "C18_parallax_range.assumptions" Print Assumptions C18_parallax_range.
Redirect "C18_rho_bound.assumptions" Print Assumptions C18_rho_bound.
Redirect "C18_parallax_dalpha_tan.assumptions" Print Assumptions C18_parallax_dalpha_tan.
Redirect "C18_parallax_correction_closed_form.assumptions" Print Assumptions C18_parallax_correction_closed_form.
Redirect "C18_builtin.assumptions" Print Assumptions C18_builtin.
Redirect "C18_earth_object.assumptions" Print Assumptions C18_earth_object.
Redirect "C18_set_ellipsoid.assumptions" Print Assumptions C18_set_ellipsoid.
Redirect "C18_on_ellipse.assumptions" Print Assumptions C18_on_ellipse.
Redirect "C18_height.assumptions" Print Assumptions C18_height.
Redirect "C18_parallel_radius.assumptions" Print Assumptions C18_parallel_radius.
Redirect "C18_linear_velocity.assumptions" Print Assumptions C18_linear_velocity.
Redirect "C18_rm_equator.assumptions" Print Assumptions C18_rm_equator.
Redirect "C18_rm_pole.assumptions" Print Assumptions C18_rm_pole.
Redirect "C18_rm_monotone.assumptions" Print Assumptions C18_rm_monotone.
Redirect "C18_distance_symmetric.assumptions" Print Assumptions C18_distance_symmetric.
Redirect "C18_distance_symmetric_angle.assumptions" Print Assumptions C18_distance_symmetric_angle.
Redirect "C18_distance_coincident.assumptions" Print Assumptions C18_distance_coincident.
Redirect "C18_distance_equator.assumptions" Print Assumptions C18_distance_equator.
Redirect "C18_distance_value.assumptions" Print Assumptions C18_distance_value.
