(* C18_vec: the parallax displacement for arbitrary directions.  u a unit vector (geocentric
   direction), o the observer (equatorial radii), k = sin(pi0)/distance, w = u - k o the
   topocentric vector, v the unit vector of longitude atan2(wy, wx) and latitude
   atan2(wz, hypot(wx, wy)).  Then v = w/|w|, |u x v| <= q = |o| |k| and u.v > 0 when q < 1. *)
From Coq Require Import Reals Lra Lia.
From PyLib Require Import Ideal.
From Proofs.C18 Require Import C18_parbound.
Open Scope R_scope.

Section Vec.
Context (ux uy uz ox oy oz k : R) (Hu : ux * ux + uy * uy + uz * uz = 1).
Let wx := ux - k * ox.
Let wy := uy - k * oy.
Let wz := uz - k * oz.
Let rho2 := ox * ox + oy * oy + oz * oz.
Let q := sqrt rho2 * Rabs k.
Let N2 := wx * wx + wy * wy + wz * wz.
Let l := atan2 wy wx.
Let b := atan2 wz (sqrt (wx * wx + wy * wy)).
Let vx := cos b * cos l.
Let vy := cos b * sin l.
Let vz := sin b.

Lemma vrho2_nonneg : 0 <= rho2.
Proof. unfold rho2. generalize (Rle_0_sqr ox) (Rle_0_sqr oy) (Rle_0_sqr oz). unfold Rsqr. lra. Qed.
Lemma vq_nonneg : 0 <= q.
Proof. unfold q. apply Rmult_le_pos; [apply sqrt_pos | apply Rabs_pos]. Qed.
Lemma vq_sq : q * q = rho2 * (k * k).
Proof.
  unfold q. replace (sqrt rho2 * Rabs k * (sqrt rho2 * Rabs k)) with (sqrt rho2 * sqrt rho2 * (Rabs k * Rabs k)) by ring.
  rewrite sqrt_sqrt by apply vrho2_nonneg. replace (Rabs k * Rabs k) with (k * k); [reflexivity|].
  unfold Rabs. destruct (Rcase_abs k); ring.
Qed.

Lemma vdot_bound : Rabs (k * (ox * ux + oy * uy + oz * uz)) <= q.
Proof.
  assert (Hcs : (ox * ux + oy * uy + oz * uz) * (ox * ux + oy * uy + oz * uz) <= rho2).
  { assert (Q : (ox * ux + oy * uy + oz * uz) * (ox * ux + oy * uy + oz * uz)
                = rho2 * (ux * ux + uy * uy + uz * uz)
                  - ((ox * uy - oy * ux) * (ox * uy - oy * ux) + (oy * uz - oz * uy) * (oy * uz - oz * uy)
                     + (oz * ux - ox * uz) * (oz * ux - ox * uz))) by (unfold rho2; ring).
    rewrite Q, Hu.
    generalize (Rle_0_sqr (ox * uy - oy * ux)) (Rle_0_sqr (oy * uz - oz * uy)) (Rle_0_sqr (oz * ux - ox * uz)).
    unfold Rsqr. lra. }
  assert (Hsq : (k * (ox * ux + oy * uy + oz * uz)) * (k * (ox * ux + oy * uy + oz * uz)) <= q * q).
  { rewrite vq_sq. assert (Q5 : 0 <= k * k) by apply Rle_0_sqr.
    assert (Q6 : k * k * ((ox * ux + oy * uy + oz * uz) * (ox * ux + oy * uy + oz * uz)) <= k * k * rho2)
      by (apply Rmult_le_compat_l; assumption).
    replace (k * (ox * ux + oy * uy + oz * uz) * (k * (ox * ux + oy * uy + oz * uz)))
      with (k * k * ((ox * ux + oy * uy + oz * uz) * (ox * ux + oy * uy + oz * uz))) by ring. lra. }
  apply Rsqr_le_abs_0 in Hsq. rewrite (Rabs_right q) in Hsq; [exact Hsq|].
  apply Rle_ge, vq_nonneg.
Qed.

Lemma vN2_eq : N2 = 1 - 2 * (k * (ox * ux + oy * uy + oz * uz)) + q * q.
Proof.
  rewrite vq_sq. unfold N2, wx, wy, wz, rho2. rewrite <- Hu. ring.
Qed.

Lemma vN2_pos : q < 1 -> 0 < N2.
Proof.
  intro Hq. assert (Hq0 := vq_nonneg). rewrite vN2_eq. generalize vdot_bound. intro Hb.
  unfold Rabs in Hb. destruct (Rcase_abs _) in Hb; nra.
Qed.

Lemma vN2_bounds : (1 - q) * (1 - q) <= N2 <= (1 + q) * (1 + q).
Proof.
  rewrite vN2_eq. generalize vdot_bound. intro Hb.
  unfold Rabs in Hb. destruct (Rcase_abs _) in Hb; split; nra.
Qed.

Lemma v_normalised : q < 1 -> vx = wx / sqrt N2 /\ vy = wy / sqrt N2 /\ vz = wz / sqrt N2.
Proof.
  intro Hq. assert (HN2 := vN2_pos Hq).
  assert (Hab : 0 <= wx * wx + wy * wy) by (generalize (Rle_0_sqr wx) (Rle_0_sqr wy); unfold Rsqr; lra).
  assert (Hnn : sqrt (wx * wx + wy * wy) * sqrt (wx * wx + wy * wy) + wz * wz = N2)
    by (rewrite sqrt_sqrt by exact Hab; reflexivity).
  assert (HN : 0 < sqrt N2) by (apply sqrt_lt_R0, HN2).
  assert (Ecd : cos b = sqrt (wx * wx + wy * wy) / sqrt N2).
  { unfold b. rewrite cos_atan2 by (rewrite Hnn; exact HN2). rewrite Hnn. reflexivity. }
  assert (Esd : sin b = wz / sqrt N2).
  { unfold b. rewrite sin_atan2 by (rewrite Hnn; exact HN2). rewrite Hnn. reflexivity. }
  unfold vx, vy, vz. rewrite Ecd, Esd.
  destruct (Req_dec (wx * wx + wy * wy) 0) as [Hz|Hz].
  - assert (E1 : wx = 0) by nra. assert (E2 : wy = 0) by nra.
    rewrite Hz, sqrt_0. rewrite E1, E2. repeat split; unfold Rdiv; ring.
  - assert (Hp : 0 < wx * wx + wy * wy) by lra.
    assert (Hr := hyp_pos wy wx Hp).
    unfold l. rewrite cos_atan2, sin_atan2 by exact Hp.
    repeat split; field; split; lra.
Qed.

Theorem vec_displacement : q < 1 ->
  (uy * vz - uz * vy) * (uy * vz - uz * vy) + (uz * vx - ux * vz) * (uz * vx - ux * vz)
  + (ux * vy - uy * vx) * (ux * vy - uy * vx) <= q * q
  /\ 0 < ux * vx + uy * vy + uz * vz.
Proof.
  intro Hq. assert (HN2 := vN2_pos Hq). assert (Hq0 := vq_nonneg).
  destruct (v_normalised Hq) as (Ex & Ey & Ez). rewrite Ex, Ey, Ez.
  assert (HN : 0 < sqrt N2) by (apply sqrt_lt_R0, HN2).
  assert (HNN : sqrt N2 * sqrt N2 = N2) by (apply sqrt_sqrt; lra).
  set (cx := oy * wz - oz * wy). set (cy := oz * wx - ox * wz). set (cz := ox * wy - oy * wx).
  assert (Lag : cx * cx + cy * cy + cz * cz + (ox * wx + oy * wy + oz * wz) * (ox * wx + oy * wy + oz * wz)
                = rho2 * N2) by (unfold cx, cy, cz, N2, rho2; ring).
  assert (Hc2 : cx * cx + cy * cy + cz * cz <= rho2 * N2).
  { rewrite <- Lag. generalize (Rle_0_sqr (ox * wx + oy * wy + oz * wz)). unfold Rsqr. lra. }
  split.
  - assert (T1 : uy * wz - uz * wy = k * cx) by (unfold cx, wy, wz; ring).
    assert (T2 : uz * wx - ux * wz = k * cy) by (unfold cy, wx, wz; ring).
    assert (T3 : ux * wy - uy * wx = k * cz) by (unfold cz, wx, wy; ring).
    replace (uy * (wz / sqrt N2) - uz * (wy / sqrt N2)) with ((uy * wz - uz * wy) / sqrt N2) by (field; lra).
    replace (uz * (wx / sqrt N2) - ux * (wz / sqrt N2)) with ((uz * wx - ux * wz) / sqrt N2) by (field; lra).
    replace (ux * (wy / sqrt N2) - uy * (wx / sqrt N2)) with ((ux * wy - uy * wx) / sqrt N2) by (field; lra).
    rewrite T1, T2, T3.
    assert (Ecross : k * cx / sqrt N2 * (k * cx / sqrt N2) + k * cy / sqrt N2 * (k * cy / sqrt N2)
                     + k * cz / sqrt N2 * (k * cz / sqrt N2) = k * k * (cx * cx + cy * cy + cz * cz) / N2).
    { transitivity (k * k * (cx * cx + cy * cy + cz * cz) / (sqrt N2 * sqrt N2)); [field; lra | rewrite HNN; reflexivity]. }
    rewrite Ecross, vq_sq.
    apply Rmult_le_reg_r with N2; [exact HN2|].
    unfold Rdiv. rewrite Rmult_assoc, Rinv_l, Rmult_1_r by lra.
    assert (0 <= k * k) by (generalize (Rle_0_sqr k); unfold Rsqr; lra).
    replace (rho2 * (k * k) * N2) with (k * k * (rho2 * N2)) by ring.
    apply Rmult_le_compat_l; assumption.
  - replace (ux * (wx / sqrt N2) + uy * (wy / sqrt N2) + uz * (wz / sqrt N2))
      with ((ux * wx + uy * wy + uz * wz) / sqrt N2) by (field; lra).
    apply Rdiv_lt_0_compat; [|exact HN].
    assert (Edot : ux * wx + uy * wy + uz * wz = 1 - k * (ox * ux + oy * uy + oz * uz))
      by (unfold wx, wy, wz; rewrite <- Hu; ring).
    rewrite Edot. generalize vdot_bound. intro Hb.
    unfold Rabs in Hb. destruct (Rcase_abs _) in Hb; lra.
Qed.
End Vec.
