(* C18_lv: Earth.linear_velocity of the generated model = omega * rp (ideal instance).
   The nested call self.rp(latitude) is not re-evaluated: Earth_rp is blocked in the
   evaluator and rewritten with C18_rp.rp_ok. *)
From Coq Require Import Reals ZArith List Bool Lra Lia String.
From PyLib Require Import PyVal PyBuiltins Ideal Whnf PyEval.
From Gen Require Import M_base M_Angle M_Epoch M_Interpolation M_Coordinates M_Earth.
From Proofs.C18 Require Import C18_tac C18_spec C18_defs C18_rp.
Import ListNotations.
Open Scope R_scope.

From Ltac2 Require Ltac2.
Ltac2 Set Whnf.is_blocked := fun c =>
  Ltac2.List.exist (Ltac2.Constr.equal c)
    ['@bind; 'Rltb; 'Rleb; 'Reqb; 'Rfloor; 'Rtrunc; 'Rround; 'is_int; 'Rfmod; 'Rround_nd;
     'Rlit; 'atan2; 'Rpow; 'pow10; 'Rabs; 'sqrt; 'sin; 'cos; 'tan; 'asin; 'acos; 'atan;
     'exp; 'ln; 'Rpower; 'powerRZ; 'IZR; 'PI; '@fpow; '@Earth_rp].

Ltac py_user_stuck s ::=
  lazymatch s with
  | @Earth_rp _ _ _ _ => erewrite rp_ok by (first [assumption | constructor])
  end.

Lemma linear_velocity_ok a f w : 0 <= f < 1 -> forall v d, degval v d ->
  Earth_linear_velocity Rops (earth a f w) v = VFloat (lin_speed a f w (rad d)).
Proof.
  intros Hf v d Hv. destruct Hv.
  - pyrunx. reflexivity.
  - pyrunx. reflexivity.
  - pyrunx. reflexivity.
Qed.
