(* C18_pecl_mid: Earth.parallax_ecliptical, topocentric latitude not folded *)
From Coq Require Import Reals ZArith List Bool Lra Lia String.
From PyLib Require Import PyVal PyBuiltins Ideal Whnf PyEval.
From Gen Require Import M_base M_Angle M_Epoch M_Interpolation M_Coordinates M_Earth.
From Proofs.C18 Require Import C18_tac C18_spec C18_defs C18_bridge C18_par C18_pecl.
Import ListNotations.
Open Scope R_scope.

(* latitude already within [-90, 90]: no folding *)
Lemma pecl_mid lon t1 lat t2 semi t3 obs t4 eps t5 sid t6 dist h : dist <> 0 ->
  ecl_n lon lat obs sid dist h <> 0 ->
  -90 <= ecl_b0 lon lat obs eps sid dist h <= 90 ->
  -1 <= ecl_semi_arg lon lat semi obs eps sid dist h (ecl_b0 lon lat obs eps sid dist h) <= 1 ->
  Earth_parallax_ecliptical Rops (ang lon t1) (ang lat t2) (ang semi t3) (ang obs t4) (ang eps t5) (ang sid t6) (VFloat dist) (VFloat h)
  = VTuple [angv (ecl_lon lon lat obs eps sid dist h) tol0;
            angv (ecl_b0 lon lat obs eps sid dist h) tol0;
            angv (deg (asin (ecl_semi_arg lon lat semi obs eps sid dist h (ecl_b0 lon lat obs eps sid dist h)))) tol0].
Proof.
  intros Hd Hn Hb Ha. destruct Ha as [Ha1 Ha2]. destruct Hb as [Hb1 Hb2].
  ecl_unfold Hn. ecl_unfold Hb1. ecl_unfold Hb2. ecl_unfold Ha1. ecl_unfold Ha2.
  pyrunx_using pypar. reflexivity.
Qed.
