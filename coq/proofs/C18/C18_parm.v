(* C18_parm: the displacement bound of C18_parbound for the expressions that the generated
   Earth.parallax_correction computes (C18_par: topo_dalpha, topo_dec, WGS84 observer). *)
From Coq Require Import Reals ZArith List Bool Lra Lia String.
From PyLib Require Import PyVal PyBuiltins Ideal.
From Gen Require Import M_base M_Angle M_Epoch M_Interpolation M_Coordinates M_Earth.
From Proofs.C18 Require Import C18_spec C18_defs C18_par C18_parbound C18_parvec.
Import ListNotations.
Open Scope R_scope.

(* C = (1 + |h|/a) sin(8.794''): the displacement is at most C / distance *)
Definition par_C (h : R) : R := (1 + Rabs (h / a_wgs)) * sin (rad pi0_deg).

Lemma sin_pi0_pos : 0 < sin (rad pi0_deg).
Proof.
  assert (HP := PI_RGT_0). assert (HP4 := PI_4).
  apply sin_gt_0; unfold rad, pi0_deg.
  - apply Rmult_lt_0_compat; lra.
  - assert (8.794 / 3600 * (PI / 180) <= 1 * (PI / 180)) by (apply Rmult_le_compat_r; lra). lra.
Qed.

Lemma f_wgs_range : 0 <= f_wgs <= 1.
Proof. unfold f_wgs. lra. Qed.

Lemma par_q_le lat h dist : dist <> 0 ->
  sqrt (rho_cos a_wgs f_wgs h (rad lat) * rho_cos a_wgs f_wgs h (rad lat)
        + rho_sin a_wgs f_wgs h (rad lat) * rho_sin a_wgs f_wgs h (rad lat)) * Rabs (par_k dist)
  <= par_C h / Rabs dist.
Proof.
  intro Hd. unfold par_k, par_C.
  assert (Hs := sin_pi0_pos). assert (Hr := rho_bound a_wgs f_wgs h (rad lat) f_wgs_range).
  assert (Had : 0 < Rabs dist) by (apply Rabs_pos_lt, Hd).
  unfold Rdiv at 1. rewrite Rabs_mult, Rabs_inv. rewrite (Rabs_right (sin (rad pi0_deg))) by lra.
  assert (0 < / Rabs dist) by (apply Rinv_0_lt_compat, Had).
  set (rho := sqrt _) in *.
  assert (0 <= rho) by (unfold rho; apply sqrt_pos).
  unfold Rdiv. rewrite <- Rmult_assoc. apply Rmult_le_compat_r; [lra|].
  apply Rmult_le_compat_r; lra.
Qed.

(* u = (cos d, 0, sin d) the geocentric direction (x towards the body's right ascension),
   v the direction returned by the code: right ascension offset topo_dalpha, declination topo_dec.
   For distance > C: sin^2(angle(u, v)) = |u x v|^2 <= (rho k)^2 <= (C / distance)^2 and u.v > 0 *)
Theorem parallax_displacement dec H lat h dist : par_C h < Rabs dist ->
  let rc := rho_cos a_wgs f_wgs h (rad lat) in
  let rs := rho_sin a_wgs f_wgs h (rad lat) in
  let k := par_k dist in
  let q := sqrt (rc * rc + rs * rs) * Rabs k in
  let da := topo_dalpha dec H rc k in
  let dd := topo_dec dec H rc rs k in
  let vx := cos dd * cos da in let vy := cos dd * sin da in let vz := sin dd in
  let ux := cos (rad dec) in let uz := sin (rad dec) in
  (0 * vz - uz * vy) * (0 * vz - uz * vy) + (uz * vx - ux * vz) * (uz * vx - ux * vz)
    + (ux * vy - 0 * vx) * (ux * vy - 0 * vx) <= q * q
  /\ q <= par_C h / Rabs dist /\ par_C h / Rabs dist < 1
  /\ 0 < ux * vx + 0 * vy + uz * vz.
Proof.
  intros HC rc rs k q da dd vx vy vz ux uz.
  assert (HCpos : 0 < par_C h).
  { unfold par_C. apply Rmult_lt_0_compat; [generalize (Rabs_pos (h / a_wgs)); lra | apply sin_pi0_pos]. }
  assert (Hd : dist <> 0) by (intro E; rewrite E, Rabs_R0 in HC; lra).
  assert (Hq : q <= par_C h / Rabs dist) by (apply par_q_le, Hd).
  assert (H1 : par_C h / Rabs dist < 1).
  { apply Rmult_lt_reg_r with (Rabs dist); [lra|]. unfold Rdiv. rewrite Rmult_assoc, Rinv_l by lra. lra. }
  assert (Hq1 : q < 1) by lra.
  destruct (displacement_bound (rad dec) (rad H) rc rs k Hq1) as [B1 B2].
  split; [exact B1|]. split; [exact Hq|]. split; [exact H1 | exact B2].
Qed.

(* the right-ascension correction in the form of the code: tan(delta alpha) = B / A when A > 0 *)
Lemma parallax_dalpha_tan dec H rc k : 0 < par_A dec H rc k ->
  tan (topo_dalpha dec H rc k)
  = - rc * k * sin (rad H) / (cos (rad dec) - rc * k * cos (rad H)).
Proof. intro HA. exact (dalpha_tan (rad dec) (rad H) rc k HA). Qed.

(* the hypothesis distance > C covers the whole range of the property: heights up to 9000 m in absolute
   value and distances from 1e-3 AU: C <= 4.3e-5 *)
From Interval Require Import Tactic.
Lemma par_C_small h : Rabs h <= 9000 -> par_C h <= 43 / 1000000.
Proof.
  intro Hh. unfold par_C.
  assert (Hs : 0 < sin (rad pi0_deg) <= 4264 / 100000000).
  { split; [apply sin_pi0_pos|]. unfold rad, pi0_deg. interval. }
  assert (Hr : 0 <= Rabs (h / a_wgs) <= 9000 / 6378137).
  { split; [apply Rabs_pos|]. unfold Rdiv. rewrite Rabs_mult. unfold a_wgs.
    rewrite (Rabs_right (/ 6378137)) by (apply Rle_ge; left; apply Rinv_0_lt_compat; lra).
    apply Rmult_le_compat_r; [left; apply Rinv_0_lt_compat; lra | exact Hh]. }
  assert ((1 + Rabs (h / a_wgs)) * sin (rad pi0_deg) <= (1 + 9000 / 6378137) * (4264 / 100000000))
    by (apply Rmult_le_compat; lra).
  lra.
Qed.

Lemma parallax_range h dist : Rabs h <= 9000 -> 1 / 1000 <= dist -> par_C h < Rabs dist.
Proof.
  intros Hh Hd. assert (H := par_C_small h Hh). rewrite Rabs_right by lra. lra.
Qed.
