(* C18_rm: Earth.rm of the generated model = mer_radius (ideal instance) *)
From Coq Require Import Reals ZArith List Bool Lra Lia String.
From PyLib Require Import PyVal PyBuiltins Ideal Whnf PyEval.
From Gen Require Import M_base M_Angle M_Epoch M_Interpolation M_Coordinates M_Earth.
From Proofs.C18 Require Import C18_tac C18_spec C18_defs.
Import ListNotations.
Open Scope R_scope.

Lemma rm_shape a f phi : 0 <= f < 1 ->
  a * (Rlit 10 (-1) - m_e f * m_e f) / Rpower (m_w f phi) (Rlit 15 (-1)) = mer_radius a f phi.
Proof.
  intro Hf. unfold mer_radius. rewrite m_w_eq by lra. rewrite m_e_eq, ecc_sq by lra.
  replace (Rlit 15 (-1)) with (15 / 10) by (Rlit_norm; lra).
  rewrite Rpower_15 by (apply wfac_pos, Hf). Rlit_norm. f_equal. lra.
Qed.

Lemma rm_ok a f w : 0 <= f < 1 -> forall v d, degval v d ->
  Earth_rm Rops (earth a f w) v = VFloat (mer_radius a f (rad d)).
Proof.
  intros Hf v d Hv. destruct Hv.
  - prep f (d * (PI / 180)) Hf. pyrunx. rewrite <- rm_shape by exact Hf. reflexivity.
  - prep f (IZR z * (PI / 180)) Hf. pyrunx. rewrite <- rm_shape by exact Hf. reflexivity.
  - prep f (d * (PI / 180)) Hf. pyrunx. rewrite <- rm_shape by exact Hf. reflexivity.
Qed.
