(* C18_dist: Earth.distance of the generated model (ideal instance) is Andoyer's formula of
   C18_spec, (0,0) when s = 0, and ZeroDivisionError when c = 0. *)
From Coq Require Import Reals ZArith List Bool Lra Lia String.
From PyLib Require Import PyVal PyBuiltins Ideal Whnf PyEval.
From Gen Require Import M_base M_Angle M_Epoch M_Interpolation M_Coordinates M_Earth.
From Proofs.C18 Require Import C18_tac C18_spec C18_bridge.
Import ListNotations.
Open Scope R_scope.

(* model-shaped s and c (literal 2.0 as the translator writes it) *)
Definition two : R := Rlit 20 (-1).
Definition m_S (l1 p1 l2 p2 : R) : R :=
  sin ((p1 - p2) / two) * sin ((p1 - p2) / two) * (cos ((l1 - l2) / two) * cos ((l1 - l2) / two))
  + cos ((p1 + p2) / two) * cos ((p1 + p2) / two) * (sin ((l1 - l2) / two) * sin ((l1 - l2) / two)).
Definition m_C (l1 p1 l2 p2 : R) : R :=
  cos ((p1 - p2) / two) * cos ((p1 - p2) / two) * (cos ((l1 - l2) / two) * cos ((l1 - l2) / two))
  + sin ((p1 + p2) / two) * sin ((p1 + p2) / two) * (sin ((l1 - l2) / two) * sin ((l1 - l2) / two)).
Lemma two_eq : two = 2.
Proof. unfold two. Rlit_norm. lra. Qed.
Lemma m_S_eq l1 p1 l2 p2 : m_S l1 p1 l2 p2 = hav_s l1 p1 l2 p2.
Proof. unfold m_S, hav_s. rewrite two_eq. reflexivity. Qed.
Lemma m_C_eq l1 p1 l2 p2 : m_C l1 p1 l2 p2 = hav_c l1 p1 l2 p2.
Proof. unfold m_C, hav_c. rewrite two_eq. reflexivity. Qed.

Definition zero_pair : val R := VTuple [VFloat 0; VFloat 0].
Definition dist_pair (a fe l1 p1 l2 p2 : R) : val R :=
  VTuple [VFloat (andoyer a fe l1 p1 l2 p2);
          VFloat (Rround_nd (andoyer a fe l1 p1 l2 p2 * fe * fe) 0)].

Definition hidden (P : Prop) : Prop := P.

Lemma core_facts S C : 0 < S -> 0 < C ->
  S <> Rlit 0 (-1) /\ C <> 0 /\ 0 <= S / C /\ atan (sqrt (S / C)) <> 0 /\ 0 <= S * C
  /\ Rlit 20 (-1) * C <> 0 /\ Rlit 20 (-1) * S <> 0.
Proof.
  intros HS HC.
  assert (Q : 0 < S / C) by (apply Rdiv_lt_0_compat; assumption).
  assert (G4 : atan (sqrt (S / C)) <> 0).
  { assert (0 < sqrt (S / C)) by (apply sqrt_lt_R0, Q).
    assert (atan 0 < atan (sqrt (S / C))) by (apply atan_increasing; assumption).
    rewrite atan_0 in *. lra. }
  assert (0 <= S * C) by (apply Rmult_le_pos; lra).
  repeat split; try assumption; Rlit_norm; lra.
Qed.

Lemma lit1 : Rlit 10 (-1) = 1. Proof. Rlit_norm. lra. Qed.
Lemma lit2 : Rlit 20 (-1) = 2. Proof. Rlit_norm. lra. Qed.
Lemma lit3 : Rlit 30 (-1) = 3. Proof. Rlit_norm. lra. Qed.
Lemma lit0 : Rlit 0 (-1) = 0. Proof. Rlit_norm. lra. Qed.

(* the three cases of Earth.distance; the same script serves float and Angle arguments *)
Ltac dist_zero H :=
  rewrite <- m_S_eq in H; unfold m_S, two, rad in H; rewrite <- lit0 in H at 1;
  pyrunx; unfold zero_pair; rewrite !lit0; reflexivity.

Ltac dist_anti H l1 p1 l2 p2 :=
  let HS := fresh "HS" in
  assert (HS : hav_s (rad l1) (rad p1) (rad l2) (rad p2) <> Rlit 0 (-1))
    by (generalize (hav_sum (rad l1) (rad p1) (rad l2) (rad p2)); rewrite lit0; lra);
  rewrite <- m_C_eq in H; rewrite <- m_S_eq in HS; unfold m_S, m_C, two, rad in H, HS;
  pyrunx; reflexivity.

Ltac dist_main HS HC l1 p1 l2 p2 :=
  rewrite <- m_S_eq in HS; rewrite <- m_C_eq in HC;
  unfold dist_pair, andoyer; rewrite <- m_S_eq, <- m_C_eq;
  let HH := fresh "HH" in
  assert (HH : hidden (0 < m_S (rad l1) (rad p1) (rad l2) (rad p2)
                       /\ 0 < m_C (rad l1) (rad p1) (rad l2) (rad p2))) by (split; assumption);
  clear HS HC; unfold m_S, m_C, two, rad;
  pyrunx;   (* stops at [s == 0.0] with s and c substituted *)
  unfold hidden in HH; destruct HH as [HS HC]; unfold m_S, m_C, two, rad in HS, HC;
  let S := fresh "S" in let C := fresh "C" in let ES := fresh "ES" in let EC := fresh "EC" in
  (let t := eval unfold m_S, two, rad in (m_S (rad l1) (rad p1) (rad l2) (rad p2)) in
   remember t as S eqn:ES);
  (let t := eval unfold m_C, two, rad in (m_C (rad l1) (rad p1) (rad l2) (rad p2)) in
   remember t as C eqn:EC);
  destruct (core_facts S C HS HC) as (G1 & G2 & G3 & G4 & G5 & G6 & G7);
  clear ES EC HS HC;
  pyrunx;
  rewrite !lit1, !lit2, !lit3; reflexivity.

Section Dist.
Context (a f w : R).

Lemma dist_float_zero l1 p1 l2 p2 :
  hav_s (rad l1) (rad p1) (rad l2) (rad p2) = 0 ->
  Earth_distance Rops (earth a f w) (VFloat l1) (VFloat p1) (VFloat l2) (VFloat p2) = zero_pair.
Proof. intro H. dist_zero H. Qed.

Lemma dist_float_antipodal l1 p1 l2 p2 :
  hav_c (rad l1) (rad p1) (rad l2) (rad p2) = 0 ->
  Earth_distance Rops (earth a f w) (VFloat l1) (VFloat p1) (VFloat l2) (VFloat p2)
  = VErr ZeroDivisionError.
Proof. intro H. dist_anti H l1 p1 l2 p2. Qed.

Lemma dist_float_main l1 p1 l2 p2 :
  0 < hav_s (rad l1) (rad p1) (rad l2) (rad p2) ->
  0 < hav_c (rad l1) (rad p1) (rad l2) (rad p2) ->
  Earth_distance Rops (earth a f w) (VFloat l1) (VFloat p1) (VFloat l2) (VFloat p2)
  = dist_pair a f (rad l1) (rad p1) (rad l2) (rad p2).
Proof. intros HS HC. dist_main HS HC l1 p1 l2 p2. Qed.

Definition ang (d t : R) : val R := VObj cAngle [VFloat d; VFloat t].

Lemma dist_angle_zero l1 t1 p1 t2 l2 t3 p2 t4 :
  hav_s (rad l1) (rad p1) (rad l2) (rad p2) = 0 ->
  Earth_distance Rops (earth a f w) (ang l1 t1) (ang p1 t2) (ang l2 t3) (ang p2 t4) = zero_pair.
Proof. intro H. dist_zero H. Qed.

Lemma dist_angle_antipodal l1 t1 p1 t2 l2 t3 p2 t4 :
  hav_c (rad l1) (rad p1) (rad l2) (rad p2) = 0 ->
  Earth_distance Rops (earth a f w) (ang l1 t1) (ang p1 t2) (ang l2 t3) (ang p2 t4)
  = VErr ZeroDivisionError.
Proof. intro H. dist_anti H l1 p1 l2 p2. Qed.

Lemma dist_angle_main l1 t1 p1 t2 l2 t3 p2 t4 :
  0 < hav_s (rad l1) (rad p1) (rad l2) (rad p2) ->
  0 < hav_c (rad l1) (rad p1) (rad l2) (rad p2) ->
  Earth_distance Rops (earth a f w) (ang l1 t1) (ang p1 t2) (ang l2 t3) (ang p2 t4)
  = dist_pair a f (rad l1) (rad p1) (rad l2) (rad p2).
Proof. intros HS HC. dist_main HS HC l1 p1 l2 p2. Qed.

(* the value of Earth.distance for all arguments *)
Definition dist_spec (l1 p1 l2 p2 : R) : val R :=
  if Req_EM_T (hav_s (rad l1) (rad p1) (rad l2) (rad p2)) 0 then zero_pair
  else if Req_EM_T (hav_c (rad l1) (rad p1) (rad l2) (rad p2)) 0 then VErr ZeroDivisionError
  else dist_pair a f (rad l1) (rad p1) (rad l2) (rad p2).

Lemma dist_float_all l1 p1 l2 p2 :
  Earth_distance Rops (earth a f w) (VFloat l1) (VFloat p1) (VFloat l2) (VFloat p2)
  = dist_spec l1 p1 l2 p2.
Proof.
  unfold dist_spec.
  destruct (Req_EM_T _ 0) as [H|H]; [apply dist_float_zero, H|].
  destruct (Req_EM_T _ 0) as [H'|H']; [apply dist_float_antipodal, H'|].
  apply dist_float_main.
  - generalize (hav_s_nonneg (rad l1) (rad p1) (rad l2) (rad p2)). lra.
  - generalize (hav_c_nonneg (rad l1) (rad p1) (rad l2) (rad p2)). lra.
Qed.

Lemma dist_angle_all l1 t1 p1 t2 l2 t3 p2 t4 :
  Earth_distance Rops (earth a f w) (ang l1 t1) (ang p1 t2) (ang l2 t3) (ang p2 t4)
  = dist_spec l1 p1 l2 p2.
Proof.
  unfold dist_spec.
  destruct (Req_EM_T _ 0) as [H|H]; [apply dist_angle_zero, H|].
  destruct (Req_EM_T _ 0) as [H'|H']; [apply dist_angle_antipodal, H'|].
  apply dist_angle_main.
  - generalize (hav_s_nonneg (rad l1) (rad p1) (rad l2) (rad p2)). lra.
  - generalize (hav_c_nonneg (rad l1) (rad p1) (rad l2) (rad p2)). lra.
Qed.

Lemma dist_spec_sym l1 p1 l2 p2 : dist_spec l2 p2 l1 p1 = dist_spec l1 p1 l2 p2.
Proof.
  unfold dist_spec, dist_pair.
  rewrite (hav_s_sym (rad l1)), (hav_c_sym (rad l1)), (andoyer_sym a f (rad l1)). reflexivity.
Qed.

Lemma dist_spec_same l p : dist_spec l p l p = zero_pair.
Proof.
  unfold dist_spec. rewrite hav_s_same. destruct (Req_EM_T 0 0); [reflexivity|lra].
Qed.

Lemma rad_diff x y : rad x - rad y = rad (x - y).
Proof. unfold rad. ring. Qed.

Lemma dist_spec_equator l1 l2 : 0 < Rabs (l1 - l2) < 180 ->
  dist_spec l1 0 l2 0
  = VTuple [VFloat (a * Rabs (rad (l1 - l2)));
            VFloat (Rround_nd (a * Rabs (rad (l1 - l2)) * f * f) 0)].
Proof.
  intro H.
  assert (HP := PI_RGT_0).
  assert (Hr : 0 < Rabs (rad l1 - rad l2) < PI).
  { rewrite rad_diff. unfold rad. rewrite Rabs_mult. rewrite (Rabs_right (PI / 180)) by lra.
    split; [apply Rmult_lt_0_compat; lra|].
    replace PI with (180 * (PI / 180)) at 2 by field.
    apply Rmult_lt_compat_r; lra. }
  assert (E0 : rad 0 = 0) by (unfold rad; ring).
  assert (Hl : 0 < Rabs ((rad l1 - rad l2) / 2) < PI / 2).
  { unfold Rabs in *. destruct (Rcase_abs (rad l1 - rad l2)); destruct (Rcase_abs ((rad l1 - rad l2) / 2)); lra. }
  assert (Hc : 0 < cos ((rad l1 - rad l2) / 2)).
  { apply cos_gt_0; unfold Rabs in Hl; destruct (Rcase_abs ((rad l1 - rad l2) / 2)); lra. }
  assert (Hs : sin ((rad l1 - rad l2) / 2) <> 0).
  { unfold Rabs in Hl. destruct (Rcase_abs ((rad l1 - rad l2) / 2)) as [Hn|Hn].
    - assert (sin ((rad l1 - rad l2) / 2) < 0) by (apply sin_lt_0_var; lra). lra.
    - assert (0 < sin ((rad l1 - rad l2) / 2)) by (apply sin_gt_0; lra). lra. }
  unfold dist_spec, dist_pair. rewrite E0.
  assert (ES : hav_s (rad l1) 0 (rad l2) 0 = sin ((rad l1 - rad l2) / 2) * sin ((rad l1 - rad l2) / 2)).
  { unfold hav_s. replace ((0 - 0) / 2) with 0 by lra. replace ((0 + 0) / 2) with 0 by lra.
    rewrite sin_0, cos_0. ring. }
  assert (EC : hav_c (rad l1) 0 (rad l2) 0 = cos ((rad l1 - rad l2) / 2) * cos ((rad l1 - rad l2) / 2)).
  { unfold hav_c. replace ((0 - 0) / 2) with 0 by lra. replace ((0 + 0) / 2) with 0 by lra.
    rewrite sin_0, cos_0. ring. }
  destruct (Req_EM_T _ 0) as [H0|H0].
  { rewrite ES in H0. apply Rmult_integral in H0. tauto. }
  destruct (Req_EM_T _ 0) as [H1|H1].
  { rewrite EC in H1. apply Rmult_integral in H1. lra. }
  rewrite (andoyer_equator a f (rad l1) (rad l2) Hr). rewrite rad_diff. reflexivity.
Qed.
End Dist.
