(* C18_dist: the value of Earth.distance for all inputs and its symmetry / coincident /
   equator properties, from C18_dist_f, C18_dist_a and C18_spec. *)
From Coq Require Import Reals ZArith List Bool Lra Lia String.
From PyLib Require Import PyVal PyBuiltins Ideal Whnf PyEval.
From Gen Require Import M_base M_Angle M_Epoch M_Interpolation M_Coordinates M_Earth.
From Proofs.C18 Require Import C18_tac C18_spec C18_defs C18_dist_f C18_dist_a.
Import ListNotations.
Open Scope R_scope.

Section Dist.
Context (a f w : R).

(* the value of Earth.distance for all arguments *)
Definition dist_spec (l1 p1 l2 p2 : R) : val R :=
  if Req_EM_T (hav_s (rad l1) (rad p1) (rad l2) (rad p2)) 0 then zero_pair
  else if Req_EM_T (hav_c (rad l1) (rad p1) (rad l2) (rad p2)) 0 then VErr ZeroDivisionError
  else dist_pair a f (rad l1) (rad p1) (rad l2) (rad p2).

Lemma dist_float_all l1 p1 l2 p2 :
  Earth_distance Rops (earth a f w) (VFloat l1) (VFloat p1) (VFloat l2) (VFloat p2)
  = dist_spec l1 p1 l2 p2.
Proof.
  unfold dist_spec.
  destruct (Req_EM_T _ 0) as [H|H]; [apply dist_float_zero, H|].
  destruct (Req_EM_T _ 0) as [H'|H']; [apply dist_float_antipodal, H'|].
  apply dist_float_main.
  - generalize (hav_s_nonneg (rad l1) (rad p1) (rad l2) (rad p2)). lra.
  - generalize (hav_c_nonneg (rad l1) (rad p1) (rad l2) (rad p2)). lra.
Qed.

Lemma dist_angle_all l1 t1 p1 t2 l2 t3 p2 t4 :
  Earth_distance Rops (earth a f w) (ang l1 t1) (ang p1 t2) (ang l2 t3) (ang p2 t4)
  = dist_spec l1 p1 l2 p2.
Proof.
  unfold dist_spec.
  destruct (Req_EM_T _ 0) as [H|H]; [apply dist_angle_zero, H|].
  destruct (Req_EM_T _ 0) as [H'|H']; [apply dist_angle_antipodal, H'|].
  apply dist_angle_main.
  - generalize (hav_s_nonneg (rad l1) (rad p1) (rad l2) (rad p2)). lra.
  - generalize (hav_c_nonneg (rad l1) (rad p1) (rad l2) (rad p2)). lra.
Qed.

Lemma dist_spec_sym l1 p1 l2 p2 : dist_spec l2 p2 l1 p1 = dist_spec l1 p1 l2 p2.
Proof.
  unfold dist_spec, dist_pair.
  rewrite (hav_s_sym (rad l1)), (hav_c_sym (rad l1)), (andoyer_sym a f (rad l1)). reflexivity.
Qed.

Lemma dist_spec_same l p : dist_spec l p l p = zero_pair.
Proof.
  unfold dist_spec. rewrite hav_s_same. destruct (Req_EM_T 0 0); [reflexivity|lra].
Qed.

Lemma rad_diff x y : rad x - rad y = rad (x - y).
Proof. unfold rad. ring. Qed.

Lemma dist_spec_equator l1 l2 : 0 < Rabs (l1 - l2) < 180 ->
  dist_spec l1 0 l2 0
  = VTuple [VFloat (a * Rabs (rad (l1 - l2)));
            VFloat (Rround_nd (a * Rabs (rad (l1 - l2)) * f * f) 0)].
Proof.
  intro H.
  assert (HP := PI_RGT_0).
  assert (Hr : 0 < Rabs (rad l1 - rad l2) < PI).
  { rewrite rad_diff. unfold rad. rewrite Rabs_mult. rewrite (Rabs_right (PI / 180)) by lra.
    split; [apply Rmult_lt_0_compat; lra|].
    replace PI with (180 * (PI / 180)) at 2 by field.
    apply Rmult_lt_compat_r; lra. }
  assert (E0 : rad 0 = 0) by (unfold rad; ring).
  assert (Hl : 0 < Rabs ((rad l1 - rad l2) / 2) < PI / 2).
  { unfold Rabs in *. destruct (Rcase_abs (rad l1 - rad l2)); destruct (Rcase_abs ((rad l1 - rad l2) / 2)); lra. }
  assert (Hc : 0 < cos ((rad l1 - rad l2) / 2)).
  { apply cos_gt_0; unfold Rabs in Hl; destruct (Rcase_abs ((rad l1 - rad l2) / 2)); lra. }
  assert (Hs : sin ((rad l1 - rad l2) / 2) <> 0).
  { unfold Rabs in Hl. destruct (Rcase_abs ((rad l1 - rad l2) / 2)) as [Hn|Hn].
    - assert (sin ((rad l1 - rad l2) / 2) < 0) by (apply sin_lt_0_var; lra). lra.
    - assert (0 < sin ((rad l1 - rad l2) / 2)) by (apply sin_gt_0; lra). lra. }
  unfold dist_spec, dist_pair. rewrite E0.
  assert (ES : hav_s (rad l1) 0 (rad l2) 0 = sin ((rad l1 - rad l2) / 2) * sin ((rad l1 - rad l2) / 2)).
  { unfold hav_s. replace ((0 - 0) / 2) with 0 by lra. replace ((0 + 0) / 2) with 0 by lra.
    rewrite sin_0, cos_0. ring. }
  assert (EC : hav_c (rad l1) 0 (rad l2) 0 = cos ((rad l1 - rad l2) / 2) * cos ((rad l1 - rad l2) / 2)).
  { unfold hav_c. replace ((0 - 0) / 2) with 0 by lra. replace ((0 + 0) / 2) with 0 by lra.
    rewrite sin_0, cos_0. ring. }
  destruct (Req_EM_T _ 0) as [H0|H0].
  { rewrite ES in H0. apply Rmult_integral in H0. tauto. }
  destruct (Req_EM_T _ 0) as [H1|H1].
  { rewrite EC in H1. apply Rmult_integral in H1. lra. }
  rewrite (andoyer_equator a f (rad l1) (rad l2) Hr). rewrite rad_diff. reflexivity.
Qed.
End Dist.
