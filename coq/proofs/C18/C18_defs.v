(* C18_defs: vocabulary shared by the bridging files: Python objects of the model,
   model-shaped real expressions (literals as the translator writes them) and the proof
   scripts for the three cases of Earth.distance. *)
From Coq Require Import Reals ZArith List Bool Lra Lia String.
From PyLib Require Import PyVal PyBuiltins Ideal Whnf PyEval.
From Gen Require Import M_base M_Angle M_Epoch M_Interpolation M_Coordinates M_Earth.
From Proofs.C18 Require Import C18_tac C18_spec.
Import ListNotations.
Open Scope R_scope.

Definition ell (a f w : R) : val R := VObj cEllipsoid [VFloat a; VFloat f; VFloat w].
Definition earth (a f w : R) : val R := VObj cEarth [ell a f w].
Definition rad (d : R) : R := d * (PI / 180).

(* a latitude/longitude argument: float degrees, int degrees or an Angle object *)
Inductive degval : val R -> R -> Prop :=
| deg_float d : degval (VFloat d) d
| deg_int z : degval (VInt z) (IZR z)
| deg_angle d t : degval (VObj cAngle [VFloat d; VFloat t]) d.

(* heights: int or float metres *)
Inductive numval : val R -> R -> Prop :=
| num_float h : numval (VFloat h) h
| num_int z : numval (VInt z) (IZR z).

Definition ang (d t : R) : val R := VObj cAngle [VFloat d; VFloat t].

(* model-shaped expressions (literals as the translator writes them) *)
Definition m_e (f : R) : R := sqrt (Rlit 20 (-1) * f - f * f).
Definition m_w (f phi : R) : R := Rlit 10 (-1) - m_e f * m_e f * sin phi * sin phi.
Lemma m_e_eq f : m_e f = ecc f.
Proof. unfold m_e, ecc, ecc2. Rlit_norm. f_equal. lra. Qed.
Lemma m_w_eq f phi : 0 <= f <= 1 -> m_w f phi = wfac f phi.
Proof.
  intro H. unfold m_w. rewrite m_e_eq. unfold wfac. rewrite <- (ecc_sq f H). Rlit_norm. field.
Qed.

Lemma m_facts f phi : 0 <= f < 1 ->
  0 <= Rlit 20 (-1) * f - f * f /\ 0 < m_w f phi /\ 0 < sqrt (m_w f phi)
  /\ 0 < Rpower (m_w f phi) (Rlit 15 (-1)).
Proof.
  intro Hf.
  assert (H1 : 0 <= ecc2 f) by (apply ecc2_nonneg; lra).
  assert (H2 : 0 < m_w f phi) by (rewrite m_w_eq by lra; apply wfac_pos, Hf).
  split; [unfold ecc2 in H1; Rlit_norm; lra|]. split; [exact H2 |].
  split; [apply sqrt_lt_R0, H2 | apply exp_pos].
Qed.

Ltac prep f phi Hf :=
  destruct (m_facts f phi Hf) as (H1 & H2 & H3 & H4); unfold m_w, m_e in H2, H3, H4.

(* model-shaped s and c (literal 2.0 as the translator writes it) *)
Definition two : R := Rlit 20 (-1).
Definition m_S (l1 p1 l2 p2 : R) : R :=
  sin ((p1 - p2) / two) * sin ((p1 - p2) / two) * (cos ((l1 - l2) / two) * cos ((l1 - l2) / two))
  + cos ((p1 + p2) / two) * cos ((p1 + p2) / two) * (sin ((l1 - l2) / two) * sin ((l1 - l2) / two)).
Definition m_C (l1 p1 l2 p2 : R) : R :=
  cos ((p1 - p2) / two) * cos ((p1 - p2) / two) * (cos ((l1 - l2) / two) * cos ((l1 - l2) / two))
  + sin ((p1 + p2) / two) * sin ((p1 + p2) / two) * (sin ((l1 - l2) / two) * sin ((l1 - l2) / two)).
Lemma two_eq : two = 2.
Proof. unfold two. Rlit_norm. lra. Qed.
Lemma m_S_eq l1 p1 l2 p2 : m_S l1 p1 l2 p2 = hav_s l1 p1 l2 p2.
Proof. unfold m_S, hav_s. rewrite two_eq. reflexivity. Qed.
Lemma m_C_eq l1 p1 l2 p2 : m_C l1 p1 l2 p2 = hav_c l1 p1 l2 p2.
Proof. unfold m_C, hav_c. rewrite two_eq. reflexivity. Qed.

Definition zero_pair : val R := VTuple [VFloat 0; VFloat 0].
Definition dist_pair (a fe l1 p1 l2 p2 : R) : val R :=
  VTuple [VFloat (andoyer a fe l1 p1 l2 p2);
          VFloat (Rround_nd (andoyer a fe l1 p1 l2 p2 * fe * fe) 0)].

Definition hidden (P : Prop) : Prop := P.

Lemma core_facts S C : 0 < S -> 0 < C ->
  S <> Rlit 0 (-1) /\ C <> 0 /\ 0 <= S / C /\ atan (sqrt (S / C)) <> 0 /\ 0 <= S * C
  /\ Rlit 20 (-1) * C <> 0 /\ Rlit 20 (-1) * S <> 0.
Proof.
  intros HS HC.
  assert (Q : 0 < S / C) by (apply Rdiv_lt_0_compat; assumption).
  assert (G4 : atan (sqrt (S / C)) <> 0).
  { assert (0 < sqrt (S / C)) by (apply sqrt_lt_R0, Q).
    assert (atan 0 < atan (sqrt (S / C))) by (apply atan_increasing; assumption).
    rewrite atan_0 in *. lra. }
  assert (0 <= S * C) by (apply Rmult_le_pos; lra).
  repeat split; try assumption; Rlit_norm; lra.
Qed.

Lemma lit1 : Rlit 10 (-1) = 1. Proof. Rlit_norm. lra. Qed.
Lemma lit2 : Rlit 20 (-1) = 2. Proof. Rlit_norm. lra. Qed.
Lemma lit3 : Rlit 30 (-1) = 3. Proof. Rlit_norm. lra. Qed.
Lemma lit0 : Rlit 0 (-1) = 0. Proof. Rlit_norm. lra. Qed.

(* the three cases of Earth.distance; the same script serves float and Angle arguments *)
Ltac dist_zero H :=
  rewrite <- m_S_eq in H; unfold m_S, two, rad in H; rewrite <- lit0 in H at 1;
  pyrunx; unfold zero_pair; rewrite !lit0; reflexivity.

Ltac dist_anti H l1 p1 l2 p2 :=
  let HS := fresh "HS" in
  assert (HS : hav_s (rad l1) (rad p1) (rad l2) (rad p2) <> Rlit 0 (-1))
    by (generalize (hav_sum (rad l1) (rad p1) (rad l2) (rad p2)); rewrite lit0; lra);
  rewrite <- m_C_eq in H; rewrite <- m_S_eq in HS; unfold m_S, m_C, two, rad in H, HS;
  pyrunx; reflexivity.

Ltac dist_main HS HC l1 p1 l2 p2 :=
  rewrite <- m_S_eq in HS; rewrite <- m_C_eq in HC;
  unfold dist_pair, andoyer; rewrite <- m_S_eq, <- m_C_eq;
  let HH := fresh "HH" in
  assert (HH : hidden (0 < m_S (rad l1) (rad p1) (rad l2) (rad p2)
                       /\ 0 < m_C (rad l1) (rad p1) (rad l2) (rad p2))) by (split; assumption);
  clear HS HC; unfold m_S, m_C, two, rad;
  pyrunx;   (* stops at [s == 0.0] with s and c substituted *)
  unfold hidden in HH; destruct HH as [HS HC]; unfold m_S, m_C, two, rad in HS, HC;
  let S := fresh "S" in let C := fresh "C" in let ES := fresh "ES" in let EC := fresh "EC" in
  (let t := eval unfold m_S, two, rad in (m_S (rad l1) (rad p1) (rad l2) (rad p2)) in
   remember t as S eqn:ES);
  (let t := eval unfold m_C, two, rad in (m_C (rad l1) (rad p1) (rad l2) (rad p2)) in
   remember t as C eqn:EC);
  destruct (core_facts S C HS HC) as (G1 & G2 & G3 & G4 & G5 & G6 & G7);
  clear ES EC HS HC;
  pyrunx;
  rewrite !lit1, !lit2, !lit3; reflexivity.

