(* C18_spec: the figure of the Earth as plain real functions (radians), written
   independently of the code, and the identities of property C18 proved about them.
   C18_bridge.v shows that the generated model computes exactly these functions. *)
From Coq Require Import Reals Lra Lia.
Open Scope R_scope.

(* ellipsoid: a equatorial radius, f flattening *)
Definition semi_minor (a f : R) : R := a * (1 - f).
Definition ecc2 (f : R) : R := 2 * f - f * f.          (* e^2 *)
Definition ecc (f : R) : R := sqrt (ecc2 f).

Lemma ecc2_nonneg f : 0 <= f <= 1 -> 0 <= ecc2 f.
Proof. unfold ecc2. nra. Qed.
Lemma ecc_sq f : 0 <= f <= 1 -> ecc f * ecc f = ecc2 f.
Proof. intro H. unfold ecc. apply sqrt_sqrt. apply ecc2_nonneg, H. Qed.
Lemma one_minus_ecc2 f : 1 - ecc2 f = (1 - f) * (1 - f).
Proof. unfold ecc2. ring. Qed.

(* parametric (reduced) latitude u: tan u = (b/a) tan phi *)
Definition ulat (f phi : R) : R := atan ((1 - f) * tan phi).
(* rho sin phi', rho cos phi' at height h (metres) *)
Definition rho_sin (a f h phi : R) : R := (1 - f) * sin (ulat f phi) + h / a * sin phi.
Definition rho_cos (a f h phi : R) : R := cos (ulat f phi) + h / a * cos phi.

(* the point at sea level lies on the meridian ellipse x^2 + (y a/b)^2 = 1 *)
Lemma on_ellipse a f phi : a <> 0 -> f <> 1 ->
  rho_cos a f 0 phi * rho_cos a f 0 phi
  + (rho_sin a f 0 phi * (a / semi_minor a f)) * (rho_sin a f 0 phi * (a / semi_minor a f)) = 1.
Proof.
  intros Ha Hf. unfold rho_cos, rho_sin, semi_minor.
  set (u := ulat f phi).
  replace (cos u + 0 / a * cos phi) with (cos u) by (field; exact Ha).
  replace (((1 - f) * sin u + 0 / a * sin phi) * (a / (a * (1 - f)))) with (sin u)
    by (field; split; [lra | exact Ha]).
  generalize (sin2_cos2 u). unfold Rsqr. lra.
Qed.

(* height adds h/a (cos phi, sin phi) *)
Lemma height_term_cos a f h phi : rho_cos a f h phi = rho_cos a f 0 phi + h / a * cos phi.
Proof. unfold rho_cos. unfold Rdiv. ring. Qed.
Lemma height_term_sin a f h phi : rho_sin a f h phi = rho_sin a f 0 phi + h / a * sin phi.
Proof. unfold rho_sin. unfold Rdiv. ring. Qed.

(* w = 1 - e^2 sin^2 phi *)
Definition wfac (f phi : R) : R := 1 - ecc2 f * sin phi * sin phi.
Lemma wfac_alt f phi : wfac f phi = cos phi * cos phi + (1 - f) * (1 - f) * (sin phi * sin phi).
Proof.
  unfold wfac, ecc2. generalize (sin2_cos2 phi). unfold Rsqr. intro H.
  replace (cos phi * cos phi) with (1 - sin phi * sin phi) by lra. ring.
Qed.
Lemma wfac_lower f phi : 0 <= f <= 1 -> (1 - f) * (1 - f) <= wfac f phi.
Proof.
  intro H. unfold wfac. rewrite <- one_minus_ecc2.
  assert (0 <= ecc2 f) by (apply ecc2_nonneg, H).
  assert (sin phi * sin phi <= 1).
  { generalize (sin2_cos2 phi). unfold Rsqr. nra. }
  nra.
Qed.
Lemma wfac_pos f phi : 0 <= f < 1 -> 0 < wfac f phi.
Proof.
  intro H. apply Rlt_le_trans with ((1 - f) * (1 - f)); [nra|]. apply wfac_lower. lra.
Qed.
Lemma wfac_le_1 f phi : 0 <= f <= 1 -> wfac f phi <= 1.
Proof. intro H. unfold wfac. assert (0 <= ecc2 f) by (apply ecc2_nonneg, H). nra. Qed.

(* radius of the parallel, radius of curvature of the meridian, linear speed *)
Definition par_radius (a f phi : R) : R := a * cos phi / sqrt (wfac f phi).
Definition mer_radius (a f phi : R) : R := a * (1 - ecc2 f) / (wfac f phi * sqrt (wfac f phi)).
Definition lin_speed (a f omega phi : R) : R := omega * par_radius a f phi.

(* two formulas for the parallel radius agree: a cos phi / sqrt w = a rho cos phi' *)
Lemma par_radius_rho_cos a f phi : 0 <= f < 1 -> 0 < cos phi -> a <> 0 ->
  par_radius a f phi = a * rho_cos a f 0 phi.
Proof.
  intros Hf Hc Ha. unfold par_radius, rho_cos, ulat.
  replace (0 / a * cos phi) with 0 by (field; exact Ha). rewrite Rplus_0_r.
  rewrite cos_atan. unfold tan.
  assert (Hw : 0 < wfac f phi) by (apply wfac_pos, Hf).
  assert (E : 1 + ((1 - f) * (sin phi / cos phi))² = wfac f phi / (cos phi * cos phi)).
  { rewrite wfac_alt. unfold Rsqr. field. lra. }
  rewrite E. rewrite sqrt_div_alt by nra.
  rewrite sqrt_square by lra.
  assert (0 < sqrt (wfac f phi)) by (apply sqrt_lt_R0, Hw).
  field. split; lra.
Qed.

Lemma mer_radius_equator a f : a <> 0 ->
  mer_radius a f 0 = semi_minor a f * semi_minor a f / a.
Proof.
  intro Ha. unfold mer_radius, wfac, semi_minor. rewrite sin_0.
  replace (1 - ecc2 f * 0 * 0) with 1 by ring. rewrite sqrt_1. rewrite one_minus_ecc2.
  field. exact Ha.
Qed.

Lemma sin_sq_pole phi : phi = PI / 2 \/ phi = - (PI / 2) -> sin phi * sin phi = 1.
Proof.
  intros [-> | ->]; [| rewrite sin_neg]; rewrite sin_PI2; ring.
Qed.

Lemma mer_radius_pole a f phi : 0 <= f < 1 -> a <> 0 -> phi = PI / 2 \/ phi = - (PI / 2) ->
  mer_radius a f phi = a * a / semi_minor a f.
Proof.
  intros Hf Ha Hp. unfold mer_radius, wfac, semi_minor.
  rewrite Rmult_assoc. rewrite (sin_sq_pole phi Hp). rewrite Rmult_1_r.
  rewrite one_minus_ecc2. rewrite sqrt_square by lra. field. split; lra.
Qed.

Lemma mer_radius_even a f phi : mer_radius a f (- phi) = mer_radius a f phi.
Proof.
  unfold mer_radius, wfac. rewrite sin_neg.
  replace (ecc2 f * - sin phi * - sin phi) with (ecc2 f * sin phi * sin phi) by ring. reflexivity.
Qed.

Lemma sin_sq_mono x y : 0 <= x -> x <= y -> y <= PI / 2 -> sin x * sin x <= sin y * sin y.
Proof.
  intros H0 Hxy Hy.
  assert (PI2 := PI2_RGT_0).
  assert (0 <= sin x) by (apply sin_ge_0; lra).
  assert (sin x <= sin y).
  { destruct (Req_dec x y) as [->|Hn]; [lra|]. left. apply sin_increasing_1; lra. }
  apply Rmult_le_compat; assumption.
Qed.

(* the meridian radius of curvature grows from the equator to the pole *)
Lemma mer_radius_mono a f x y : 0 < a -> 0 <= f < 1 -> 0 <= x -> x <= y -> y <= PI / 2 ->
  mer_radius a f x <= mer_radius a f y.
Proof.
  intros Ha Hf H0 Hxy Hy. unfold mer_radius.
  assert (Hs := sin_sq_mono x y H0 Hxy Hy).
  assert (Hwx := wfac_pos f x Hf). assert (Hwy := wfac_pos f y Hf).
  assert (Hle : wfac f y <= wfac f x).
  { unfold wfac. assert (0 <= ecc2 f) by (apply ecc2_nonneg; lra). nra. }
  assert (Hsq : sqrt (wfac f y) <= sqrt (wfac f x)) by (apply sqrt_le_1_alt, Hle).
  assert (0 < sqrt (wfac f y)) by (apply sqrt_lt_R0, Hwy).
  assert (0 < sqrt (wfac f x)) by (apply sqrt_lt_R0, Hwx).
  assert (Hd : wfac f y * sqrt (wfac f y) <= wfac f x * sqrt (wfac f x)) by nra.
  assert (0 < wfac f y * sqrt (wfac f y)) by nra.
  assert (0 <= a * (1 - ecc2 f)) by (rewrite one_minus_ecc2; apply Rmult_le_pos; [lra | apply Rle_0_sqr]).
  unfold Rdiv. apply Rmult_le_compat_l; [assumption|].
  apply Rinv_le_contravar; assumption.
Qed.

Lemma mer_radius_mono_abs a f x y : 0 < a -> 0 <= f < 1 -> Rabs x <= Rabs y -> Rabs y <= PI / 2 ->
  mer_radius a f x <= mer_radius a f y.
Proof.
  intros Ha Hf Hxy Hy.
  assert (Ex : mer_radius a f x = mer_radius a f (Rabs x)).
  { unfold Rabs. destruct (Rcase_abs x); [rewrite mer_radius_even|]; reflexivity. }
  assert (Ey : mer_radius a f y = mer_radius a f (Rabs y)).
  { unfold Rabs. destruct (Rcase_abs y); [rewrite mer_radius_even|]; reflexivity. }
  rewrite Ex, Ey. apply mer_radius_mono; try assumption. apply Rabs_pos.
Qed.

(* ---------------------------------------------------------------- Andoyer *)
(* s = sin^2(sigma/2), c = cos^2(sigma/2) of the spherical arc sigma between the points *)
Definition hav_s (l1 p1 l2 p2 : R) : R :=
  sin ((p1 - p2) / 2) * sin ((p1 - p2) / 2) * (cos ((l1 - l2) / 2) * cos ((l1 - l2) / 2))
  + cos ((p1 + p2) / 2) * cos ((p1 + p2) / 2) * (sin ((l1 - l2) / 2) * sin ((l1 - l2) / 2)).
Definition hav_c (l1 p1 l2 p2 : R) : R :=
  cos ((p1 - p2) / 2) * cos ((p1 - p2) / 2) * (cos ((l1 - l2) / 2) * cos ((l1 - l2) / 2))
  + sin ((p1 + p2) / 2) * sin ((p1 + p2) / 2) * (sin ((l1 - l2) / 2) * sin ((l1 - l2) / 2)).

(* Andoyer's distance from s, c and the squared sines/cosines of F and G *)
Definition andoyer_core (a fe S C sin2f cos2f sin2g cos2g : R) : R :=
  let om := atan (sqrt (S / C)) in
  let r := sqrt (S * C) / om in
  let d := 2 * om * a in
  let h1 := (3 * r - 1) / (2 * C) in
  let h2 := (3 * r + 1) / (2 * S) in
  d * (1 + fe * (h1 * sin2f * cos2g - h2 * cos2f * sin2g)).
Definition andoyer (a fe l1 p1 l2 p2 : R) : R :=
  andoyer_core a fe (hav_s l1 p1 l2 p2) (hav_c l1 p1 l2 p2)
    (sin ((p1 + p2) / 2) * sin ((p1 + p2) / 2)) (cos ((p1 + p2) / 2) * cos ((p1 + p2) / 2))
    (sin ((p1 - p2) / 2) * sin ((p1 - p2) / 2)) (cos ((p1 - p2) / 2) * cos ((p1 - p2) / 2)).

Lemma sq_sin_neg x : sin (- x) * sin (- x) = sin x * sin x.
Proof. rewrite sin_neg. ring. Qed.
Lemma sq_cos_neg x : cos (- x) * cos (- x) = cos x * cos x.
Proof. rewrite cos_neg. ring. Qed.
Lemma half_swap x y : (y - x) / 2 = - ((x - y) / 2).
Proof. lra. Qed.
Lemma half_comm x y : (y + x) / 2 = (x + y) / 2.
Proof. lra. Qed.

Lemma hav_s_sym l1 p1 l2 p2 : hav_s l2 p2 l1 p1 = hav_s l1 p1 l2 p2.
Proof.
  unfold hav_s. rewrite (half_swap p1 p2), (half_swap l1 l2), (half_comm p1 p2).
  rewrite !sq_sin_neg, !sq_cos_neg. reflexivity.
Qed.
Lemma hav_c_sym l1 p1 l2 p2 : hav_c l2 p2 l1 p1 = hav_c l1 p1 l2 p2.
Proof.
  unfold hav_c. rewrite (half_swap p1 p2), (half_swap l1 l2), (half_comm p1 p2).
  rewrite !sq_sin_neg, !sq_cos_neg. reflexivity.
Qed.
Lemma andoyer_sym a fe l1 p1 l2 p2 : andoyer a fe l2 p2 l1 p1 = andoyer a fe l1 p1 l2 p2.
Proof.
  unfold andoyer. rewrite hav_s_sym, hav_c_sym.
  rewrite (half_swap p1 p2), (half_comm p1 p2). rewrite !sq_sin_neg, !sq_cos_neg. reflexivity.
Qed.

Lemma sq_sc x : sin x * sin x + cos x * cos x = 1.
Proof. generalize (sin2_cos2 x). unfold Rsqr. lra. Qed.

Lemma hav_sum l1 p1 l2 p2 : hav_s l1 p1 l2 p2 + hav_c l1 p1 l2 p2 = 1.
Proof.
  unfold hav_s, hav_c.
  generalize (sq_sc ((p1 - p2) / 2)) (sq_sc ((p1 + p2) / 2)) (sq_sc ((l1 - l2) / 2)).
  intros. nra.
Qed.
Lemma hav_s_nonneg l1 p1 l2 p2 : 0 <= hav_s l1 p1 l2 p2.
Proof.
  unfold hav_s.
  apply Rplus_le_le_0_compat; apply Rmult_le_pos; apply Rle_0_sqr.
Qed.
Lemma hav_c_nonneg l1 p1 l2 p2 : 0 <= hav_c l1 p1 l2 p2.
Proof.
  unfold hav_c.
  apply Rplus_le_le_0_compat; apply Rmult_le_pos; apply Rle_0_sqr.
Qed.

(* coincident points *)
Lemma hav_s_same l p : hav_s l p l p = 0.
Proof.
  unfold hav_s. replace ((p - p) / 2) with 0 by lra. replace ((l - l) / 2) with 0 by lra.
  rewrite sin_0. ring.
Qed.

(* along the equator: s = sin^2 lam, c = cos^2 lam, the f-term vanishes, distance = a |l1 - l2| *)
Lemma atan_sqrt_tan2 x : 0 < Rabs x < PI / 2 ->
  atan (sqrt (sin x * sin x / (cos x * cos x))) = Rabs x.
Proof.
  intros [H0 H1].
  assert (Hc : 0 < cos x).
  { apply cos_gt_0; unfold Rabs in *; destruct (Rcase_abs x); lra. }
  replace (sin x * sin x / (cos x * cos x)) with (Rsqr (tan x)) by (unfold tan, Rsqr; field; lra).
  rewrite sqrt_Rsqr_abs.
  assert (E : Rabs (tan x) = tan (Rabs x)).
  { unfold Rabs at 2. destruct (Rcase_abs x) as [Hx|Hx].
    - rewrite tan_neg. apply Rabs_left. 
      rewrite <- (Ropp_involutive x), tan_neg.
      assert (0 < tan (- x)) by (apply tan_gt_0; unfold Rabs in *; destruct (Rcase_abs x); lra).
      lra.
    - apply Rabs_right. destruct (Req_dec x 0) as [->|Hn]; [rewrite tan_0; lra|].
      left. apply tan_gt_0; unfold Rabs in *; destruct (Rcase_abs x); lra. }
  rewrite E. apply atan_tan. lra.
Qed.

Lemma andoyer_equator a fe l1 l2 : 0 < Rabs (l1 - l2) < PI ->
  andoyer a fe l1 0 l2 0 = a * Rabs (l1 - l2).
Proof.
  intro H. unfold andoyer, hav_s, hav_c.
  replace ((0 - 0) / 2) with 0 by lra. replace ((0 + 0) / 2) with 0 by lra.
  rewrite sin_0, cos_0. set (lam := (l1 - l2) / 2).
  replace (0 * 0 * (cos lam * cos lam) + 1 * 1 * (sin lam * sin lam)) with (sin lam * sin lam) by ring.
  replace (1 * 1 * (cos lam * cos lam) + 0 * 0 * (sin lam * sin lam)) with (cos lam * cos lam) by ring.
  unfold andoyer_core. cbv zeta.
  assert (Hl : 0 < Rabs lam < PI / 2).
  { unfold lam. unfold Rabs in *. destruct (Rcase_abs (l1 - l2)); destruct (Rcase_abs ((l1 - l2) / 2)); lra. }
  rewrite (atan_sqrt_tan2 lam Hl).
  replace (Rabs (l1 - l2)) with (2 * Rabs lam).
  2:{ unfold lam. unfold Rabs. destruct (Rcase_abs (l1 - l2)); destruct (Rcase_abs ((l1 - l2) / 2)); lra. }
  ring.
Qed.
