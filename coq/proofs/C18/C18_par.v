(* C18_par: closed form of Earth.parallax_correction in the generated model (ideal instance):
   the topocentric declination is atan2(w_z, |w_xy|) of the vector w = u - k o (u the
   geocentric direction, o the observer in equatorial radii, k = sin(8.794'')/distance), the
   correction in right ascension is atan2(B, A).  The final [right_ascension + delta_a] is
   left as the model's Angle.__add__ (it reduces the sum to (-360, 360)). *)
From Coq Require Import Reals ZArith List Bool Lra Lia String.
From PyLib Require Import PyVal PyBuiltins Ideal Whnf PyEval.
From Gen Require Import M_base M_Angle M_Epoch M_Interpolation M_Coordinates M_Earth.
From Proofs.C18 Require Import C18_tac C18_spec C18_defs C18_bridge.
Import ListNotations.
Open Scope R_scope.

Notation blank := (VObj cAngle [VNone; VNone]).
Definition tol0 : R := Rlit 1 (-10).
Definition deg (x : R) : R := x * (180 / PI).

Ltac zcomp :=
  repeat match goal with
  | |- context [zf Rops ?z] => let z' := eval vm_compute in z in change (zf Rops z) with (IZR z')
  | |- context [IZR ?z] => lazymatch z with Z0 => fail | Zpos _ => fail | Zneg _ => fail | _ =>
        let z' := eval vm_compute in z in change (IZR z) with (IZR z') end
  end.
Ltac pyz := first [ assumption | pylra | (zcomp; pylra) ].

(* the solar parallax constant Angle(0, 0, 8.794) *)
Definition pi0_deg : R := 8.794 / 3600.
Lemma angle_pi0 :
  Angle___init__ Rops blank (mk_tuple [VInt 0; VInt 0; VFloat (Rlit 8794 (-3))]) (mk_dict [])
  = ang pi0_deg tol0.
Proof.
  pyrunx_using pyz. unfold ang, tol0, pi0_deg.
  change (Z.abs 0 mod 360)%Z with 0%Z. change (Z.abs 0) with 0%Z.
  rewrite Rabs_right by (Rlit_norm; lra).
  match goal with |- VObj _ [VFloat ?x; _] = VObj _ [VFloat ?y; _] =>
    assert (E : x = y) by (Rlit_norm; lra); rewrite E end.
  reflexivity.
Qed.

(* Angle(x, radians=True) for |x| <= pi *)
Lemma angle_of_rad x : Rabs (deg x) < 360 ->
  Angle___init__ Rops blank (mk_tuple [VFloat x]) (mk_dict [kw "radians" (VBool true)])
  = ang (deg x) tol0.
Proof. unfold deg. intro H. pyrunx. reflexivity. Qed.

Lemma atan2_bound y x : - PI < atan2 y x <= PI.
Proof.
  assert (HP := PI_RGT_0). unfold atan2.
  destruct (Rlt_dec 0 x) as [Hx|Hx].
  { generalize (atan_bound (y / x)). lra. }
  destruct (Rlt_dec x 0) as [Hx'|Hx'].
  { assert (x <> 0) by lra. destruct (Rle_dec 0 y) as [Hy|Hy].
    - assert (y / x <= 0).
      { unfold Rdiv. replace 0 with (y * 0) by ring. 
        assert (/ x < 0) by (apply Rinv_lt_0_compat; lra). nra. }
      assert (atan (y / x) <= 0).
      { destruct (Req_dec (y / x) 0) as [->|Hn]; [rewrite atan_0; lra|].
        left. rewrite <- atan_0. apply atan_increasing. lra. }
      generalize (atan_bound (y / x)). lra.
    - assert (0 < y / x).
      { unfold Rdiv. assert (/ x < 0) by (apply Rinv_lt_0_compat; lra). nra. }
      assert (0 < atan (y / x)) by (rewrite <- atan_0; apply atan_increasing; lra).
      generalize (atan_bound (y / x)). lra. }
  destruct (Rlt_dec 0 y); [lra|]. destruct (Rlt_dec y 0); lra.
Qed.

Lemma atan2_deg_bound y x : Rabs (deg (atan2 y x)) < 360.
Proof.
  assert (HP := PI_RGT_0). generalize (atan2_bound y x). intro H. unfold deg.
  assert (E : 360 = 2 * PI * (180 / PI)) by (field; lra). rewrite E.
  rewrite Rabs_mult, (Rabs_right (180 / PI)).
  - apply Rmult_lt_compat_r; [apply Rdiv_lt_0_compat; lra|].
    unfold Rabs. destruct (Rcase_abs _); lra.
  - apply Rle_ge. left. apply Rdiv_lt_0_compat; lra.
Qed.

(* ---- the evaluator with the already characterised calls blocked *)
From Ltac2 Require Ltac2.
Ltac2 Set Whnf.is_blocked := fun c =>
  Ltac2.List.exist (Ltac2.Constr.equal c)
    ['@bind; 'Rltb; 'Rleb; 'Reqb; 'Rfloor; 'Rtrunc; 'Rround; 'is_int; 'Rfmod; 'Rround_nd;
     'Rlit; 'atan2; 'Rpow; 'pow10; 'Rabs; 'sqrt; 'sin; 'cos; 'tan; 'asin; 'acos; 'atan;
     'exp; 'ln; 'Rpower; 'powerRZ; 'IZR; 'PI; '@fpow;
     '@Angle___init__; '@Earth___init__; '@Earth_rho_sinphi; '@Earth_rho_cosphi; '@Angle___add__].

Definition a_wgs : R := 6378137.
Definition f_wgs : R := 1 / 298.257223563.
Definition w_wgs : R := 7292115e-11.
Lemma a_wgs_nz : a_wgs <> 0. Proof. unfold a_wgs. lra. Qed.

Lemma earth_default : Earth___init__ Rops (VObj cEarth [VNone]) (g_WGS84 Rops) = earth a_wgs f_wgs w_wgs.
Proof. rewrite WGS84_val. apply earth_new. Qed.

Ltac py_user_stuck s ::=
  lazymatch s with
  | @Earth___init__ _ _ _ _ => rewrite earth_default
  | @Earth_rho_sinphi _ _ _ _ _ =>
      erewrite (rho_sinphi_ok a_wgs f_wgs w_wgs) by (first [exact a_wgs_nz | constructor])
  | @Earth_rho_cosphi _ _ _ _ _ =>
      erewrite (rho_cosphi_ok a_wgs f_wgs w_wgs) by (first [exact a_wgs_nz | constructor])
  | @Angle___init__ _ _ _ _ _ =>
      expose_R; first [ rewrite angle_pi0 | rewrite angle_of_rad by apply atan2_deg_bound ]
  end.

Lemma sq_sum_nonneg x y : 0 <= x * x + y * y.
Proof. nra. Qed.
Ltac pypar := first [ assumption | apply sq_sum_nonneg | pylra ].

(* spec vocabulary: k = sin(pi0)/distance; (A, B) the equatorial-plane components of the
   topocentric vector w = u - k o (divided by nothing: A^2 + B^2 = |w_xy|^2), w_z = sin d - k rho_sin *)
Definition par_k (dist : R) : R := sin (rad pi0_deg) / dist.
Definition par_A (dec H rc k : R) : R := cos (rad dec) - rc * k * cos (rad H).
Definition par_B (H rc k : R) : R := - rc * k * sin (rad H).
Definition par_wz (dec rs k : R) : R := sin (rad dec) - rs * k.
Definition topo_dalpha (dec H rc k : R) : R := atan2 (par_B H rc k) (par_A dec H rc k).
Definition topo_dec (dec H rc rs k : R) : R :=
  atan2 (par_wz dec rs k)
        (sqrt (par_A dec H rc k * par_A dec H rc k + par_B H rc k * par_B H rc k)).

Lemma parallax_correction_closed ra t1 dec t2 lat t3 dist H t4 h : dist <> 0 ->
  Earth_parallax_correction Rops (ang ra t1) (ang dec t2) (ang lat t3) (VFloat dist) (ang H t4) (VFloat h)
  = mk_tuple
      [Angle___add__ Rops (ang ra t1)
         (ang (deg (topo_dalpha dec H (rho_cos a_wgs f_wgs h (rad lat)) (par_k dist))) tol0);
       ang (deg (topo_dec dec H (rho_cos a_wgs f_wgs h (rad lat)) (rho_sin a_wgs f_wgs h (rad lat)) (par_k dist))) tol0].
Proof.
  intro Hd. pyrunx_using pypar. reflexivity.
Qed.
