(* C18_tac: pyrun with a hook for Python's float power.  [x ** 2] on a float goes
   through PyVal.fpow, which compares x with 0 — undecidable for a symbolic real.
   Here fpow is blocked in the weak-head normaliser and rewritten with lemmas that
   were proved once by case analysis. *)
From Coq Require Import Reals ZArith List Bool Lra Lia String.
From PyLib Require Import PyVal PyBuiltins Ideal Whnf PyEval.
Import ListNotations.
Open Scope R_scope.

Lemma fpow_sq (x : R) : fpow Rops x (zf Rops 2) = VFloat (x * x).
Proof.
  unfold fpow. expose_R. cbn [negb andb].
  rewrite (proj2 (Reqb_false (IZR 2) (IZR 0))) by lra.
  destruct (Req_dec x 0) as [H0|H0].
  - rewrite (proj2 (Reqb_true x (IZR 0))) by exact H0.
    rewrite (proj2 (Rltb_false (IZR 2) (IZR 0))) by lra.
    subst x. unfold Rpow. destruct (Rlt_dec 0 0) as [H|H]; [lra|].
    unfold is_int. rewrite Rfloor_IZR. rewrite (proj2 (Reqb_true 2 2)) by reflexivity.
    f_equal. simpl. lra.
  - rewrite (proj2 (Reqb_false x (IZR 0))) by exact H0.
    unfold f_is_integer. expose_R. rewrite Rfloor_IZR.
    rewrite (proj2 (Reqb_true (IZR 2) (IZR 2))) by reflexivity. cbn [negb andb].
    rewrite Bool.andb_false_r.
    f_equal. unfold Rpow. destruct (Rlt_dec 0 x) as [H|H].
    + replace 2 with (INR 2) by (simpl; lra). rewrite Rpower_pow by exact H. simpl. lra.
    + unfold is_int. rewrite Rfloor_IZR. rewrite (proj2 (Reqb_true 2 2)) by reflexivity.
      simpl. lra.
Qed.

Lemma fpow_pos (x y : R) : 0 < x -> y <> 0 -> fpow Rops x y = VFloat (Rpower x y).
Proof.
  intros Hx Hy. unfold fpow. expose_R. cbn [negb andb].
  rewrite (proj2 (Reqb_false y (IZR 0))) by exact Hy.
  rewrite (proj2 (Reqb_false x (IZR 0))) by lra.
  rewrite (proj2 (Rltb_false x (IZR 0))) by lra. cbn [negb andb].
  f_equal. unfold Rpow. destruct (Rlt_dec 0 x); [reflexivity|lra].
Qed.

(* x^(3/2) = x * sqrt x *)
Lemma Rpower_15 x : 0 < x -> Rpower x (15 / 10) = x * sqrt x.
Proof.
  intro H. replace (15 / 10) with (1 + / 2) by lra.
  rewrite Rpower_plus, Rpower_1 by exact H. rewrite Rpower_sqrt by exact H. reflexivity.
Qed.

From Ltac2 Require Ltac2.
Ltac2 Set Whnf.is_blocked := fun c =>
  Ltac2.List.exist (Ltac2.Constr.equal c)
    ['@bind; 'Rltb; 'Rleb; 'Reqb; 'Rfloor; 'Rtrunc; 'Rround; 'is_int; 'Rfmod; 'Rround_nd;
     'Rlit; 'atan2; 'Rpow; 'pow10; 'Rabs; 'sqrt; 'sin; 'cos; 'tan; 'asin; 'acos; 'atan;
     'exp; 'ln; 'Rpower; 'powerRZ; 'IZR; 'PI; '@fpow].

Ltac py_fpow s tac :=
  lazymatch s with
  | @fpow _ _ ?x ?y =>
      first [ rewrite (fpow_sq x)
            | rewrite (fpow_pos x y) by (expose_R; tac)
            | idtac "pyrunx: cannot resolve power" x y; fail 1 ]
  end.

(* hook for a client that blocks further constants (calls of already characterised
   methods) in Whnf.is_blocked: rewrite the stuck call [s] with its lemma *)
Ltac py_user_stuck s := fail.

Ltac pyrunx_using tac :=
  whnf_lhs;
  lazymatch goal with
  | |- ?l = _ =>
    tryif is_canon l then expose_R else
    first [
      lazymatch l with
      | bind ?e ?k =>
          tryif is_canon e then
            lazymatch e with
            | VErr _ => rewrite (bind_err _ k)
            | _ => rewrite (bind_ok e k) by reflexivity; cbv beta
            end
          else
            let H := fresh "Hev" in
            eassert (H : e = _) by (pyrunx_using tac; py_canon_refl);
            rewrite H; clear H
      | VTuple ?xs => first_noncanon xs ltac:(fun x =>
            let H := fresh "Hev" in
            eassert (H : x = _) by (pyrunx_using tac; py_canon_refl); rewrite H; clear H)
      | VList ?xs => first_noncanon xs ltac:(fun x =>
            let H := fresh "Hev" in
            eassert (H : x = _) by (pyrunx_using tac; py_canon_refl); rewrite H; clear H)
      | VObj _ ?xs => first_noncanon xs ltac:(fun x =>
            let H := fresh "Hev" in
            eassert (H : x = _) by (pyrunx_using tac; py_canon_refl); rewrite H; clear H)
      | _ =>
          pose_stuck;
          lazymatch goal with
          | py_stuck := ?s |- _ =>
              clear py_stuck;
              lazymatch s with
              | bind ?e ?k =>
                  let H := fresh "Hev" in
                  eassert (H : bind e k = _) by (pyrunx_using tac; py_canon_refl);
                  rewrite H; clear H
              | Rltb _ _ => py_decide_at s tac
              | Rleb _ _ => py_decide_at s tac
              | Reqb _ _ => py_decide_at s tac
              | @fpow _ _ _ _ => py_fpow s tac
              | _ => first [ py_user_stuck s | idtac "pyrunx: stuck on" s; fail 1 ]
              end
          end
      end;
      pyrunx_using tac
    | idtac ]
  end.

Ltac pyhyp := first [ assumption | pylra ].
Ltac pyrunx := pyrunx_using pyhyp.
