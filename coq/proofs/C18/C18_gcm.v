(* C18_gcm: the great-circle bounds of C18_gc carried to the generated Earth.distance
   (ideal instance) through the closed forms of C18_dist_f / C18_dist_a. *)
From Coq Require Import Reals ZArith List Bool Lra Lia String.
From PyLib Require Import PyVal PyBuiltins Ideal.
From Gen Require Import M_base M_Angle M_Epoch M_Interpolation M_Coordinates M_Earth.
From Proofs.C18 Require Import C18_spec C18_defs C18_dist_f C18_dist_a C18_gc.
Import ListNotations.
Open Scope R_scope.

(* the central angle (radians) between two points given in degrees *)
Definition central_angle (l1 p1 l2 p2 : R) : R := 2 * half_arc (rad l1) (rad p1) (rad l2) (rad p2).
(* neither coincident (s = 0) nor antipodal (c = 0) *)
Definition proper_pair (l1 p1 l2 p2 : R) : Prop :=
  0 < hav_s (rad l1) (rad p1) (rad l2) (rad p2) /\ 0 < hav_c (rad l1) (rad p1) (rad l2) (rad p2).

Lemma central_angle_spec l1 p1 l2 p2 : proper_pair l1 p1 l2 p2 ->
  0 < central_angle l1 p1 l2 p2 < PI /\
  sin (central_angle l1 p1 l2 p2 / 2) * sin (central_angle l1 p1 l2 p2 / 2)
  = sin ((rad p1 - rad p2) / 2) * sin ((rad p1 - rad p2) / 2)
    + cos (rad p1) * cos (rad p2) * (sin ((rad l1 - rad l2) / 2) * sin ((rad l1 - rad l2) / 2)).
Proof.
  intros [HS HC]. destruct (half_arc_spec _ _ _ _ HS HC) as [Hr Hs]. unfold central_angle.
  split; [lra|].
  replace (2 * half_arc (rad l1) (rad p1) (rad l2) (rad p2) / 2) with (half_arc (rad l1) (rad p1) (rad l2) (rad p2)) by lra.
  rewrite Hs. apply hav_s_haversine.
Qed.

Section GC.
Context (a f w : R) (Ha : 0 < a) (Hf : 0 <= f).

Lemma great_circle_float l1 p1 l2 p2 : proper_pair l1 p1 l2 p2 ->
  exists D,
    Earth_distance Rops (earth a f w) (VFloat l1) (VFloat p1) (VFloat l2) (VFloat p2)
    = VTuple [VFloat D; VFloat (Rround_nd (D * f * f) 0)] /\
    a * central_angle l1 p1 l2 p2 * (1 - 2 * f) <= D <= a * central_angle l1 p1 l2 p2 * (1 + f) /\
    (f <= 359 / 100000 ->
     Rabs (D - (2 * a + semi_minor a f) / 3 * central_angle l1 p1 l2 p2)
     <= 6 / 1000 * ((2 * a + semi_minor a f) / 3 * central_angle l1 p1 l2 p2)).
Proof.
  intros [HS HC]. eexists. split; [apply (dist_float_main a f w l1 p1 l2 p2 HS HC)|].
  split; [apply (andoyer_great_circle a f _ _ _ _ Ha Hf HS HC)|].
  intro Hf'. apply (andoyer_mean_sphere a f _ _ _ _ Ha (conj Hf Hf') HS HC).
Qed.

Lemma great_circle_angle l1 t1 p1 t2 l2 t3 p2 t4 : proper_pair l1 p1 l2 p2 ->
  exists D,
    Earth_distance Rops (earth a f w) (ang l1 t1) (ang p1 t2) (ang l2 t3) (ang p2 t4)
    = VTuple [VFloat D; VFloat (Rround_nd (D * f * f) 0)] /\
    a * central_angle l1 p1 l2 p2 * (1 - 2 * f) <= D <= a * central_angle l1 p1 l2 p2 * (1 + f) /\
    (f <= 359 / 100000 ->
     Rabs (D - (2 * a + semi_minor a f) / 3 * central_angle l1 p1 l2 p2)
     <= 6 / 1000 * ((2 * a + semi_minor a f) / 3 * central_angle l1 p1 l2 p2)).
Proof.
  intros [HS HC]. eexists. split; [apply (dist_angle_main a f w l1 t1 p1 t2 l2 t3 p2 t4 HS HC)|].
  split; [apply (andoyer_great_circle a f _ _ _ _ Ha Hf HS HC)|].
  intro Hf'. apply (andoyer_mean_sphere a f _ _ _ _ Ha (conj Hf Hf') HS HC).
Qed.
End GC.

(* the flattenings of the built-in ellipsoids are below 0.00359 *)
Lemma builtin_flattening : 1 / 298.257 <= 359 / 100000 /\ 1 / 298.257223563 <= 359 / 100000.
Proof. split; lra. Qed.

(* the hypotheses are satisfiable: a quarter of the equator is a proper pair, with central angle pi/2 *)
From Interval Require Import Tactic.
Example proper_pair_witness : proper_pair 0 0 90 0.
Proof. unfold proper_pair, hav_s, hav_c, rad. split; interval. Qed.
