(* Property C18, thorough-tier obligations (about 4 minutes of symbolic evaluation, compiled only
   with --tier thorough): Earth.parallax_ecliptical.  Statements only; proofs in C18_pecl*.v,
   C18_vec.v, C18_peclm.v.  IDEAL (real-number) instance of the regenerated model.

   Vocabulary (C18_pecl.v; observer = WGS84 ellipsoid at latitude obs, height h; k = sin(8.794'')/dist):
     ecl_n, ecl_Y, ecl_Z : the components of the topocentric vector w = u - k o in the ecliptical frame
       (u the geocentric direction of ecliptical longitude lon / latitude lat, o the observer rotated by
       the obliquity eps at sidereal time sid),
     ecl_lon = atan2(Y, n) in degrees brought to [0, 360) (Angle.to_positive),
     ecl_lat = the code's atan2(cos lon' Z, n) in degrees folded by -+180 into [-90, 90],
     ecl_semi_arg b = cos lon' cos b sin(semidiameter) / n. *)
From Coq Require Import Reals ZArith List String.
From PyLib Require Import PyVal PyBuiltins Ideal.
From Gen Require Import M_base M_Angle M_Epoch M_Interpolation M_Coordinates M_Earth.
From Proofs.C18 Require Import C18_spec C18_defs C18_par C18_parm C18_pecl C18_pecl_all C18_peclm.
Import ListNotations.
Open Scope R_scope.

(* CLOSED FORM (pins the code; transcription of the repaired code 5494b49, no property by itself).
   Hypotheses: Angle arguments, float distance <> 0 and height, n <> 0 (otherwise the code divides by 0),
   asin argument in [-1, 1] (otherwise the code raises ValueError).  Observer latitude +-90 deg exactly
   goes through the junk value of tan, as in C18_on_ellipse. *)
Theorem T18_parallax_ecliptical_closed_form :
  forall lon t1 lat t2 semi t3 obs t4 eps t5 sid t6 dist h,
  dist <> 0 -> ecl_n lon lat obs sid dist h <> 0 ->
  -1 <= ecl_semi_arg lon lat semi obs eps sid dist h (ecl_lat lon lat obs eps sid dist h) <= 1 ->
  Earth_parallax_ecliptical Rops (ang lon t1) (ang lat t2) (ang semi t3) (ang obs t4) (ang eps t5) (ang sid t6) (VFloat dist) (VFloat h)
  = VTuple [ang (ecl_lon lon lat obs eps sid dist h) tol0;
            ang (ecl_lat lon lat obs eps sid dist h) tol0;
            ang (deg (asin (ecl_semi_arg lon lat semi obs eps sid dist h (ecl_lat lon lat obs eps sid dist h)))) tol0].
Proof. exact parallax_ecliptical_closed. Qed.

(* the folded latitude of the code IS the latitude of the vector w: atan2(Z, hypot(n, Y)) (n <> 0) *)
Theorem T18_ecliptical_latitude : forall lon lat obs eps sid dist h,
  ecl_n lon lat obs sid dist h <> 0 ->
  ecl_lat lon lat obs eps sid dist h
  = deg (atan2 (ecl_Z lat obs eps sid dist h)
               (sqrt (ecl_n lon lat obs sid dist h * ecl_n lon lat obs sid dist h
                      + ecl_Y lon lat obs eps sid dist h * ecl_Y lon lat obs eps sid dist h))).
Proof. exact ecl_lat_eq. Qed.

(* displacement: angle theta between the geocentric direction u (lon, lat) and the returned direction v
   (ecl_lon, ecl_lat): for n <> 0 and distance > C = (1 + |h|/a) sin(8.794''):
   sin^2 theta = |u x v|^2 <= q^2, q = rho sin(8.794'')/distance <= C/distance < 1, cos theta = u.v > 0,
   i.e. theta <= asin(rho sin(pi)/distance): never more than the horizontal parallax of the observer at
   geocentric distance rho <= 1 + |h|/a, and -> 0 as the distance grows. *)
Theorem T18_parallax_ecliptical_displacement_bound : forall lon lat obs eps sid dist h,
  ecl_n lon lat obs sid dist h <> 0 -> par_C h < Rabs dist ->
  let rc := ecl_rc obs h in let rs := ecl_rs obs h in
  let q := sqrt (rc * rc + rs * rs) * Rabs (ecl_k dist) in
  let l' := ecl_lon lon lat obs eps sid dist h * (PI / 180) in
  let b' := ecl_lat lon lat obs eps sid dist h * (PI / 180) in
  let vx := cos b' * cos l' in let vy := cos b' * sin l' in let vz := sin b' in
  let ux := cos (rad lon) * cos (rad lat) in let uy := sin (rad lon) * cos (rad lat) in let uz := sin (rad lat) in
  (uy * vz - uz * vy) * (uy * vz - uz * vy) + (uz * vx - ux * vz) * (uz * vx - ux * vz)
  + (ux * vy - uy * vx) * (ux * vy - uy * vx) <= q * q
  /\ q <= par_C h / Rabs dist /\ par_C h / Rabs dist < 1
  /\ 0 < ux * vx + uy * vy + uz * vz.
Proof. exact ecliptical_displacement. Qed.

(* semidiameter: the asin argument of the code is sin(semidiameter) / |w|, |w| the topocentric distance in
   units of the geocentric one, and (1 - q)^2 <= |w|^2 <= (1 + q)^2: the topocentric semidiameter is the
   geocentric one scaled by geocentric/topocentric distance; in particular the asin hypothesis of the
   closed form holds whenever |sin(semidiameter)| <= 1 - q *)
Theorem T18_ecliptical_semidiameter : forall lon lat semi obs eps sid dist h,
  ecl_n lon lat obs sid dist h <> 0 ->
  ecl_semi_arg lon lat semi obs eps sid dist h (ecl_lat lon lat obs eps sid dist h)
  = sin (semi * (PI / 180))
    / sqrt (ecl_n lon lat obs sid dist h * ecl_n lon lat obs sid dist h
            + ecl_Y lon lat obs eps sid dist h * ecl_Y lon lat obs eps sid dist h
            + ecl_Z lat obs eps sid dist h * ecl_Z lat obs eps sid dist h).
Proof. intros. apply ecl_semi_eq. assumption. Qed.
Theorem T18_ecliptical_topocentric_distance : forall lon lat obs eps sid dist h,
  let rc := ecl_rc obs h in let rs := ecl_rs obs h in
  let q := sqrt (rc * rc + rs * rs) * Rabs (ecl_k dist) in
  let N2 := ecl_n lon lat obs sid dist h * ecl_n lon lat obs sid dist h
            + ecl_Y lon lat obs eps sid dist h * ecl_Y lon lat obs eps sid dist h
            + ecl_Z lat obs eps sid dist h * ecl_Z lat obs eps sid dist h in
  (1 - q) * (1 - q) <= N2 <= (1 + q) * (1 + q).
Proof. exact ecliptical_norm_bounds. Qed.

Redirect "T18_ecliptical_semidiameter.assumptions" Print Assumptions T18_ecliptical_semidiameter.
Redirect "T18_ecliptical_topocentric_distance.assumptions" Print Assumptions T18_ecliptical_topocentric_distance.
Redirect "T18_parallax_ecliptical_closed_form.assumptions" Print Assumptions T18_parallax_ecliptical_closed_form.
Redirect "T18_ecliptical_latitude.assumptions" Print Assumptions T18_ecliptical_latitude.
Redirect "T18_parallax_ecliptical_displacement_bound.assumptions" Print Assumptions T18_parallax_ecliptical_displacement_bound.
