(* C18_merm: the meridian-arc bound of C18_merint carried to the generated Earth.distance
   (ideal instance): two points on the same meridian, latitudes p1 < p2 < p1 + 180 degrees. *)
From Coq Require Import Reals ZArith List Bool Lra Lia String.
From PyLib Require Import PyVal PyBuiltins Ideal.
From Gen Require Import M_base M_Angle M_Epoch M_Interpolation M_Coordinates M_Earth.
From Coquelicot Require Import Coquelicot.
From Proofs.C18 Require Import C18_spec C18_defs C18_dist_f C18_dist_a C18_mer C18_merint.
Import ListNotations.
Open Scope R_scope.

Lemma rad_lt p1 p2 : p1 < p2 < p1 + 180 -> rad p1 < rad p2 < rad p1 + PI.
Proof.
  intro H. assert (HP := PI_RGT_0). unfold rad.
  assert (0 < PI / 180) by lra.
  split; [apply Rmult_lt_compat_r; lra|].
  replace (p1 * (PI / 180) + PI) with ((p1 + 180) * (PI / 180)) by field.
  apply Rmult_lt_compat_r; lra.
Qed.

Lemma meridian_pair_proper l p1 p2 : p1 < p2 < p1 + 180 ->
  0 < hav_s (rad l) (rad p1) (rad l) (rad p2) /\ 0 < hav_c (rad l) (rad p1) (rad l) (rad p2).
Proof.
  intro H. destruct (rad_lt p1 p2 H) as [H1 H2]. assert (HP := PI_RGT_0).
  unfold hav_s, hav_c. replace ((rad l - rad l) / 2) with 0 by lra. rewrite sin_0, cos_0.
  set (G := (rad p1 - rad p2) / 2).
  assert (HG : - (PI / 2) < G < 0) by (unfold G; lra).
  assert (sin G < 0) by (apply sin_lt_0_var; lra).
  assert (0 < cos G) by (apply cos_gt_0; lra).
  split; nra.
Qed.

Section Mer.
Context (a f w : R) (Ha : 0 < a) (Hf : 0 <= f <= 1 / 100).

Lemma meridian_float l p1 p2 : p1 < p2 < p1 + 180 ->
  exists D,
    Earth_distance Rops (earth a f w) (VFloat l) (VFloat p1) (VFloat l) (VFloat p2)
    = VTuple [VFloat D; VFloat (Rround_nd (D * f * f) 0)] /\
    ex_RInt (mer_radius a f) (rad p1) (rad p2) /\
    Rabs (RInt (mer_radius a f) (rad p1) (rad p2) - D) <= 2 * (f * f) * a * (rad p2 - rad p1) /\
    (f <= 7 / 1000 ->
     Rabs (RInt (mer_radius a f) (rad p1) (rad p2) - D) <= 1 / 10000 * RInt (mer_radius a f) (rad p1) (rad p2)).
Proof.
  intro H. destruct (meridian_pair_proper l p1 p2 H) as [HS HC].
  eexists. split; [apply (dist_float_main a f w l p1 l p2 HS HC)|].
  destruct (meridian_arc a f (rad l) (rad p1) (rad p2) Ha Hf (rad_lt p1 p2 H)) as [Ex B].
  split; [exact Ex|]. split; [exact B|].
  intro Hf'. apply meridian_arc_relative; [exact Ha | lra | apply rad_lt, H].
Qed.

Lemma meridian_angle l t1 p1 t2 t3 p2 t4 : p1 < p2 < p1 + 180 ->
  exists D,
    Earth_distance Rops (earth a f w) (ang l t1) (ang p1 t2) (ang l t3) (ang p2 t4)
    = VTuple [VFloat D; VFloat (Rround_nd (D * f * f) 0)] /\
    ex_RInt (mer_radius a f) (rad p1) (rad p2) /\
    Rabs (RInt (mer_radius a f) (rad p1) (rad p2) - D) <= 2 * (f * f) * a * (rad p2 - rad p1) /\
    (f <= 7 / 1000 ->
     Rabs (RInt (mer_radius a f) (rad p1) (rad p2) - D) <= 1 / 10000 * RInt (mer_radius a f) (rad p1) (rad p2)).
Proof.
  intro H. destruct (meridian_pair_proper l p1 p2 H) as [HS HC].
  eexists. split; [apply (dist_angle_main a f w l t1 p1 t2 l t3 p2 t4 HS HC)|].
  destruct (meridian_arc a f (rad l) (rad p1) (rad p2) Ha Hf (rad_lt p1 p2 H)) as [Ex B].
  split; [exact Ex|]. split; [exact B|].
  intro Hf'. apply meridian_arc_relative; [exact Ha | lra | apply rad_lt, H].
Qed.
End Mer.
