(* C11_nodes: passage_nodes_elliptic / passage_nodes_parabolic in the ideal instance:
   closed forms of the generated functions.  The final Epoch(t + offset) constructor is not
   entered (Epoch_of, see C11_tac.v). *)
From Coq Require Import Reals ZArith List String Lra Lia.
From PyLib Require Import PyVal PyBuiltins Ideal Whnf PyEval.
From Gen Require Import M_base M_Angle M_Epoch M_Coordinates.
From Proofs.C11 Require Import C11_tac.
Import ListNotations.
Open Scope R_scope.

Definition epo (j : R) : val R := VObj cEpoch [VFloat j].

Lemma Angle_sub_float w c : Rabs (w + - c) < Rlit 3600 (-1) ->
  Angle___sub__ Rops (ang w) (VFloat c) = ang (w + - c).
Proof.
  intro H. unfold Angle___sub__. pyrunv. angle_arg. rewrite Angle_new_deg by exact H.
  pyrunv. reflexivity.
Qed.

(* the true anomaly at the node as the code forms it: c - omega with c = 360.0 / 180.0 *)
Definition node_v (c w : R) : R := - (w + - c).
Definition node_c (asc : bool) : R := if asc then Rlit 3600 (-1) else Rlit 1800 (-1).
(* eccentric anomaly, mean motion, results *)
Definition node_ee (e vdeg : R) : R :=
  Rlit 20 (-1) * atan (sqrt ((Rlit 10 (-1) - e) / (Rlit 10 (-1) + e)) * tan (vdeg * (PI / 180) / Rlit 20 (-1))).
Definition node_n (a : R) : R := Rlit 9856076686 (-10) / (a * sqrt a).
Definition node_dt (e a vdeg : R) : R :=
  (node_ee e vdeg - e * sin (node_ee e vdeg)) * (180 / PI) / node_n a.
Definition node_r (e a vdeg : R) : R := a * (Rlit 10 (-1) - e * cos (node_ee e vdeg)).

(* evaluates c - Angle(w): Angle.__rsub__ = -(Angle(w) - c), two Angle constructions *)
Ltac rsub_angle w W1 W2 :=
  lazymatch goal with |- context [?f Rops (VFloat ?c) (ang w)] =>
    let H := fresh "H" in eassert (H : f Rops (VFloat c) (ang w) = _);
    [ repeat first [ rewrite Angle_sub_float by exact W1
                   | pyrunv; angle_arg; rewrite Angle_new_deg by first [exact W1 | exact W2] ];
      pyrunv; py_canon_refl
    | rewrite H; clear H ] end.
(* evaluates Epoch(t) + x *)
Ltac epoch_plus t HE :=
  lazymatch goal with |- context [?f Rops (epo t) (VFloat ?x)] =>
    let H := fresh "H" in eassert (H : f Rops (epo t) (VFloat x) = _);
    [ pyrunv; epoch_arg; rewrite HE; pyrunv; py_canon_refl | rewrite H; clear H ] end.

Lemma nodes_ell_run Ef w e a t asc : Epoch_of Ef -> 0 < w < 360 -> 0 <= e < 1 -> 0 < a ->
  f_passage_nodes_elliptic Rops (ang w) (VFloat e) (VFloat a) (epo t) (VBool asc) =
  VTuple [epo (Ef (t + node_dt e a (node_v (node_c asc) w))); VFloat (node_r e a (node_v (node_c asc) w))].
Proof.
  intros HE Hw He Ha.
  assert (0 <= (Rlit 10 (-1) - e) / (Rlit 10 (-1) + e)) as G2.
  { Rlit_norm. apply Rmult_le_pos; [lra|]. left. apply Rinv_0_lt_compat. lra. }
  assert (0 < sqrt a) as Hsa by (apply sqrt_lt_R0; lra).
  assert (a * sqrt a <> 0) as G3 by nra.
  assert (Rlit 9856076686 (-10) / (a * sqrt a) <> 0) as G4.
  { Rlit_norm. apply Rgt_not_eq. apply Rdiv_lt_0_compat; nra. }
  destruct asc.
  - assert (Rabs (w + - Rlit 3600 (-1)) < Rlit 3600 (-1)) as W1 by (Rlit_norm; apply Rabs_def1; lra).
    assert (Rabs (- (w + - Rlit 3600 (-1))) < Rlit 3600 (-1)) as W2 by (Rlit_norm; apply Rabs_def1; lra).
    pyrunv. rsub_angle w W1 W2.
    pyrunv_using ltac:(first [exact G2 | exact G3 | exact G4 | lra1]).
    epoch_plus t HE.
    pyrunv_using ltac:(first [exact G2 | exact G3 | exact G4 | lra1]). reflexivity.
  - assert (Rabs (w + - Rlit 1800 (-1)) < Rlit 3600 (-1)) as W1 by (Rlit_norm; apply Rabs_def1; lra).
    assert (Rabs (- (w + - Rlit 1800 (-1))) < Rlit 3600 (-1)) as W2 by (Rlit_norm; apply Rabs_def1; lra).
    pyrunv. rsub_angle w W1 W2.
    pyrunv_using ltac:(first [exact G2 | exact G3 | exact G4 | lra1]).
    epoch_plus t HE.
    pyrunv_using ltac:(first [exact G2 | exact G3 | exact G4 | lra1]). reflexivity.
Qed.

(* parabolic orbit *)
Definition node_s (vdeg : R) : R := tan (vdeg * (PI / 180) / Rlit 20 (-1)).
Definition pnode_dt (q vdeg : R) : R :=
  Rlit 27403895 (-6) * node_s vdeg * (node_s vdeg * node_s vdeg + Rlit 30 (-1)) * q * sqrt q.
Definition pnode_r (q vdeg : R) : R := q * (Rlit 10 (-1) + node_s vdeg * node_s vdeg).

Lemma nodes_par_run Ef w q t asc : Epoch_of Ef -> 0 < w < 360 -> 0 < q ->
  f_passage_nodes_parabolic Rops (ang w) (VFloat q) (epo t) (VBool asc) =
  VTuple [epo (Ef (t + pnode_dt q (node_v (node_c asc) w))); VFloat (pnode_r q (node_v (node_c asc) w))].
Proof.
  intros HE Hw Hq.
  destruct asc.
  - assert (Rabs (w + - Rlit 3600 (-1)) < Rlit 3600 (-1)) as W1 by (Rlit_norm; apply Rabs_def1; lra).
    assert (Rabs (- (w + - Rlit 3600 (-1))) < Rlit 3600 (-1)) as W2 by (Rlit_norm; apply Rabs_def1; lra).
    pyrunv. rsub_angle w W1 W2. pyrunv. epoch_plus t HE. pyrunv. reflexivity.
  - assert (Rabs (w + - Rlit 1800 (-1)) < Rlit 3600 (-1)) as W1 by (Rlit_norm; apply Rabs_def1; lra).
    assert (Rabs (- (w + - Rlit 1800 (-1))) < Rlit 3600 (-1)) as W2 by (Rlit_norm; apply Rabs_def1; lra).
    pyrunv. rsub_angle w W1 W2. pyrunv. epoch_plus t HE. pyrunv. reflexivity.
Qed.

(* ---------------------------------------------------------------- the conic *)
Lemma cos_2atan z : cos (2 * atan z) = (1 - z * z) / (1 + z * z).
Proof.
  rewrite cos_2a_cos, cos_atan. unfold Rsqr.
  assert (0 < 1 + z * z) as H by nra.
  assert (sqrt (1 + z * z) * sqrt (1 + z * z) = 1 + z * z) as Hs by (apply sqrt_sqrt; lra).
  assert (0 < sqrt (1 + z * z)) as Hp by (apply sqrt_lt_R0; lra).
  replace (2 * (1 / sqrt (1 + z * z)) * (1 / sqrt (1 + z * z)))
    with (2 / (sqrt (1 + z * z) * sqrt (1 + z * z))) by (field; lra).
  rewrite Hs. field. lra.
Qed.

Lemma cos_half_tan x : cos (x / 2) <> 0 ->
  cos x = (1 - tan (x / 2) * tan (x / 2)) / (1 + tan (x / 2) * tan (x / 2)).
Proof.
  intro HC. replace x with (2 * (x / 2)) at 1 by field. rewrite cos_2a_cos. unfold tan.
  pose proof (sin2_cos2 (x / 2)) as H. unfold Rsqr in H.
  set (S := sin (x / 2)) in *. set (C := cos (x / 2)) in *.
  assert (C * C + S * S <> 0) by lra.
  replace ((1 - S / C * (S / C)) / (1 + S / C * (S / C))) with ((C * C - S * S) / (C * C + S * S)) by (field; auto).
  replace (C * C + S * S) with 1 by lra. replace (S * S) with (1 - C * C) by lra. field.
Qed.

(* r = a (1 - e cos E) = a (1 - e^2) / (1 + e cos v) when tan(E/2) = sqrt((1-e)/(1+e)) tan(v/2) *)
Lemma node_r_conic e a vdeg : 0 <= e < 1 -> cos (vdeg * (PI / 180) / 2) <> 0 ->
  node_r e a vdeg = a * (1 - e * e) / (1 + e * cos (vdeg * (PI / 180))).
Proof.
  intros He HC. unfold node_r, node_ee. Rlit_norm.
  replace ((10 / 10 - e) / (10 / 10 + e)) with ((1 - e) / (1 + e)) by (field; lra).
  replace (vdeg * (PI / 180) / (20 / 10)) with (vdeg * (PI / 180) / 2) by field.
  replace (20 / 10 * atan (sqrt ((1 - e) / (1 + e)) * tan (vdeg * (PI / 180) / 2)))
    with (2 * atan (sqrt ((1 - e) / (1 + e)) * tan (vdeg * (PI / 180) / 2))) by field.
  rewrite cos_2atan, (cos_half_tan (vdeg * (PI / 180)) HC).
  set (T := tan (vdeg * (PI / 180) / 2)).
  assert (0 <= (1 - e) / (1 + e)) as Hq by (apply Rmult_le_pos; [lra | left; apply Rinv_0_lt_compat; lra]).
  assert (sqrt ((1 - e) / (1 + e)) * T * (sqrt ((1 - e) / (1 + e)) * T) = (1 - e) / (1 + e) * (T * T)) as Hz.
  { replace (sqrt ((1 - e) / (1 + e)) * T * (sqrt ((1 - e) / (1 + e)) * T))
      with (sqrt ((1 - e) / (1 + e)) * sqrt ((1 - e) / (1 + e)) * (T * T)) by ring.
    rewrite sqrt_sqrt by lra. reflexivity. }
  rewrite Hz.
  assert (0 <= T * T) by nra.
  assert (0 < 1 + (1 - e) / (1 + e) * (T * T)).
  { assert (0 <= (1 - e) / (1 + e) * (T * T)) by (apply Rmult_le_pos; lra). lra. }
  assert (0 < (1 + e) + (1 - e) * (T * T)) by nra.
  field. repeat split; try lra; try nra.
Qed.

Theorem nodes_elliptic Ef w e a t asc : Epoch_of Ef -> 0 < w < 360 -> w <> 180 -> 0 <= e < 1 -> 0 < a ->
  exists dt r,
    f_passage_nodes_elliptic Rops (ang w) (VFloat e) (VFloat a) (epo t) (VBool asc) =
      VTuple [epo (Ef (t + dt)); VFloat r] /\
    r = a * (1 - e * e) / (1 + (if asc then e else - e) * cos (w * (PI / 180))) /\
    (let vdeg := if asc then 360 - w else 180 - w in
     let EE := 2 * atan (sqrt ((1 - e) / (1 + e)) * tan (vdeg * (PI / 180) / 2)) in
     dt = (EE - e * sin EE) * (180 / PI) / (9856076686 / 10000000000 / (a * sqrt a))).
Proof.
  intros HE Hw Hw1 He Ha. pose proof PI_RGT_0 as Hpi.
  exists (node_dt e a (node_v (node_c asc) w)), (node_r e a (node_v (node_c asc) w)).
  split; [apply nodes_ell_run; assumption|].
  assert (forall x, 0 < x < PI -> x <> PI / 2 -> cos x <> 0) as Hcos.
  { intros x Hx Hx2 Hc. destruct (Rlt_dec x (PI / 2)).
    - pose proof (cos_gt_0 x). lra.
    - pose proof (cos_lt_0 x). lra. }
  split.
  - rewrite node_r_conic; [| assumption |].
    + f_equal. f_equal. destruct asc; unfold node_v, node_c; Rlit_norm.
      * replace (- (w + - (3600 / 10)) * (PI / 180)) with (2 * PI - w * (PI / 180)) by (field; lra).
        rewrite cos_minus, cos_2PI, sin_2PI. ring.
      * replace (- (w + - (1800 / 10)) * (PI / 180)) with (PI - w * (PI / 180)) by (field; lra).
        rewrite cos_minus, cos_PI, sin_PI. ring.
    + destruct asc; unfold node_v, node_c; Rlit_norm.
      * apply Hcos; [split; nra | intro H; apply Hw1; nra].
      * apply Rgt_not_eq. apply cos_gt_0; nra.
  - cbv zeta. unfold node_dt, node_n, node_ee, node_v, node_c. destruct asc; Rlit_norm.
    + replace (- (w + - (3600 / 10))) with (360 - w) by field.
      replace ((10 / 10 - e) / (10 / 10 + e)) with ((1 - e) / (1 + e)) by (field; lra).
      replace ((360 - w) * (PI / 180) / (20 / 10)) with ((360 - w) * (PI / 180) / 2) by field.
      replace (20 / 10) with 2 by field. reflexivity.
    + replace (- (w + - (1800 / 10))) with (180 - w) by field.
      replace ((10 / 10 - e) / (10 / 10 + e)) with ((1 - e) / (1 + e)) by (field; lra).
      replace ((180 - w) * (PI / 180) / (20 / 10)) with ((180 - w) * (PI / 180) / 2) by field.
      replace (20 / 10) with 2 by field. reflexivity.
Qed.

Theorem nodes_parabolic Ef w q t asc : Epoch_of Ef -> 0 < w < 360 -> w <> 180 -> 0 < q ->
  exists dt r,
    f_passage_nodes_parabolic Rops (ang w) (VFloat q) (epo t) (VBool asc) =
      VTuple [epo (Ef (t + dt)); VFloat r] /\
    r = 2 * q / (1 + (if asc then 1 else - 1) * cos (w * (PI / 180))) /\
    (let vdeg := if asc then 360 - w else 180 - w in
     let s := tan (vdeg * (PI / 180) / 2) in
     dt = 27403895 / 1000000 * s * (s * s + 3) * q * sqrt q).
Proof.
  intros HE Hw Hw1 Hq. pose proof PI_RGT_0 as Hpi.
  exists (pnode_dt q (node_v (node_c asc) w)), (pnode_r q (node_v (node_c asc) w)).
  split; [apply nodes_par_run; assumption|].
  assert (forall x, 0 < x < PI -> x <> PI / 2 -> cos x <> 0) as Hcos.
  { intros x Hx Hx2 Hc. destruct (Rlt_dec x (PI / 2)).
    - pose proof (cos_gt_0 x). lra.
    - pose proof (cos_lt_0 x). lra. }
  assert (cos (node_v (node_c asc) w * (PI / 180) / 2) <> 0) as HC.
  { destruct asc; unfold node_v, node_c; Rlit_norm.
    - apply Hcos; [split; nra | intro H; apply Hw1; nra].
    - apply Rgt_not_eq. apply cos_gt_0; nra. }
  assert (cos (node_v (node_c asc) w * (PI / 180)) = (if asc then 1 else - 1) * cos (w * (PI / 180))) as Hcv.
  { destruct asc; unfold node_v, node_c; Rlit_norm.
    - replace (- (w + - (3600 / 10)) * (PI / 180)) with (2 * PI - w * (PI / 180)) by (field; lra).
      rewrite cos_minus, cos_2PI, sin_2PI. ring.
    - replace (- (w + - (1800 / 10)) * (PI / 180)) with (PI - w * (PI / 180)) by (field; lra).
      rewrite cos_minus, cos_PI, sin_PI. ring. }
  split.
  - rewrite <- Hcv, (cos_half_tan _ HC). unfold pnode_r, node_s. Rlit_norm.
    replace (node_v (node_c asc) w * (PI / 180) / (20 / 10)) with (node_v (node_c asc) w * (PI / 180) / 2) by field.
    set (T := tan (node_v (node_c asc) w * (PI / 180) / 2)).
    assert (0 <= T * T) by nra. field. lra.
  - cbv zeta. unfold pnode_dt, node_s, node_v, node_c. destruct asc; Rlit_norm.
    + replace (- (w + - (3600 / 10))) with (360 - w) by field.
      replace ((360 - w) * (PI / 180) / (20 / 10)) with ((360 - w) * (PI / 180) / 2) by field.
      replace (30 / 10) with 3 by field. reflexivity.
    + replace (- (w + - (1800 / 10))) with (180 - w) by field.
      replace ((180 - w) * (PI / 180) / (20 / 10)) with ((180 - w) * (PI / 180) / 2) by field.
      replace (30 / 10) with 3 by field. reflexivity.
Qed.
