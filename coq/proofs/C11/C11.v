(* Property C11 — Kepler's equation is solved; two-body relations hold.
   Statements only; proofs in C11_kepler.v (via C11_keppaths.v, C11_loop.v, Spec.Kepler)
   and C11_twobody.v.  Everything is about the IDEAL (real-arithmetic) instance [Rops] of the
   model regenerated from /repo: it says what the code computes when rounding is ignored.
   [ang d] is the Angle object holding d degrees. *)
From Coq Require Import Reals ZArith List String.
From PyLib Require Import PyVal PyBuiltins Ideal.
From Spec Require Import Kepler.
From Gen Require Import M_base M_Angle M_Epoch M_Coordinates.
From Proofs.C11 Require Import C11_tac C11_loop C11_kepdefs C11_keppaths C11_kepler C11_twobody C11_nodes.
Import ListNotations.
Open Scope R_scope.

(* kepler_equation, EVERY eccentricity 0 <= e < 1 and EVERY real mean anomaly M (degrees, either
   sign, any number of turns): it returns Angles (E, v) -- so no exception and the loop fuel of the
   model is not exhausted -- such that, for the whole number of turns k with M - 360 k in (-180, 180]:
   E in (-180, 180) has the sign of M - 360 k (same half revolution), the Kepler residual
   E - e sin E - (M - 360 k) is below 5e-8 degree, tan(v/2) = sqrt((1+e)/(1-e)) tan(E/2),
   and v is in the same half revolution as E. *)
Theorem C11_kepler : forall e M, 0 <= e < 1 ->
  exists Ed vd, f_kepler_equation Rops (VFloat e) (ang M) = VTuple [ang Ed; ang vd] /\
  exists k : Z,
    -180 < Ed < 180 /\
    ((0 <= M - 360 * IZR k <= 180 /\ 0 < Ed) \/ (-180 < M - 360 * IZR k < 0 /\ Ed < 0)) /\
    Rabs (Ed - e * (180 / PI) * sin (Ed * (PI / 180)) - (M - 360 * IZR k)) <= 5 / 100000000 /\
    tan (vd * (PI / 180) / 2) = sqrt ((1 + e) / (1 - e)) * tan (Ed * (PI / 180) / 2) /\
    -180 < vd < 180 /\ (0 < Ed -> 0 < vd) /\ (Ed < 0 -> vd < 0).
Proof. exact kepler_ideal. Qed.

(* an eccentricity outside [0, 1) (parabolic / hyperbolic / negative) is refused with ValueError *)
Theorem C11_kepler_refuses : forall e M, e < 0 \/ 1 <= e ->
  f_kepler_equation Rops (VFloat e) (ang M) = VErr ValueError.
Proof. exact kepler_bad_ecc. Qed.

(* the specification side: the bisection keeps the bracket kg(E-2d) <= m <= kg(E+2d), its n-th
   estimate has residual <= (1+e) 2 d/2^n and is within 2 d/2^n of the unique root *)
Theorem C11_bisection_spec : forall e m n d e0 Es, 0 <= e < 1 -> 0 < d ->
  kg e (e0 - 2 * d) <= m <= kg e (e0 + 2 * d) -> kg e Es = m ->
  Rabs (kg e (bisect e m n d e0) - m) <= (1 + e) * (2 * (d / 2 ^ n)) /\
  Rabs (Es - bisect e m n d e0) <= 2 * (d / 2 ^ n).
Proof. exact bisection_spec. Qed.

(* the generated loop leaves after exactly 34 halvings of d = pi/4 (never by fuel) *)
Theorem C11_halvings : forall n, 2 * (d_0 / 2 ^ n) <= TOLr ->
  (n <> O -> TOLr < 4 * (d_0 / 2 ^ n)) -> n = 34%nat.
Proof. exact halvings_34. Qed.

(* vis-viva: the speed at r = a(1-e) / a(1+e) is the perihelion / aphelion speed up to the 4e-6
   relative disagreement of the two literals 42.1218/sqrt 2 and 29.7847; their product is the
   squared circular speed 29.7847^2 / a *)
Theorem C11_visviva : forall e a, 0 <= e < 1 -> 0 < a ->
  exists vp va v1 v2,
    f_velocity_perihelion Rops (VFloat e) (VFloat a) = VFloat vp /\
    f_velocity_aphelion Rops (VFloat e) (VFloat a) = VFloat va /\
    f_velocity Rops (VFloat (a * (1 - e))) (VFloat a) = VFloat v1 /\
    f_velocity Rops (VFloat (a * (1 + e))) (VFloat a) = VFloat v2 /\
    Rabs (v1 - vp) <= 4 / 1000000 * vp /\ Rabs (v2 - va) <= 4 / 1000000 * va /\
    vp * va = (297847 / 10000) * (297847 / 10000) / a /\ 0 < va <= vp.
Proof. exact visviva. Qed.

(* orbit length between the inscribed (2 pi b) and circumscribed (2 pi a) circles, both formulas *)
Theorem C11_length : forall e a, 0 <= e < 1 -> 0 < a ->
  exists L, f_length_orbit Rops (VFloat e) (VFloat a) = VFloat L /\
            2 * PI * (a * sqrt (1 - e * e)) <= L <= 2 * PI * a.
Proof. exact length_orbit_ok. Qed.

(* ... and the jump across the formula switch at e = 0.95 is below a/1000 *)
Theorem C11_length_switch : forall e a, 94999 / 100000 <= e < 95 / 100 -> 0 < a ->
  exists L1 L2, f_length_orbit Rops (VFloat e) (VFloat a) = VFloat L1 /\
                f_length_orbit Rops (VFloat (95 / 100)) (VFloat a) = VFloat L2 /\
                Rabs (L1 - L2) <= a / 1000.
Proof. exact length_orbit_switch. Qed.

(* k = (1 + cos i)/2, k in [0,1], i in [0,180] for triangle-feasible distances *)
Theorem C11_phase : forall r D R0, 0 < r -> 0 < D -> Rabs (r - D) <= R0 <= r + D ->
  exists i k, f_phase_angle Rops (VFloat r) (VFloat D) (VFloat R0) = ang i /\
              f_illuminated_fraction Rops (VFloat r) (VFloat D) (VFloat R0) = VFloat k /\
              k = (1 + cos (i * (PI / 180))) / 2 /\ 0 <= k <= 1 /\ 0 <= i <= 180.
Proof. exact phase_illum. Qed.

(* node passage, elliptic orbit (argument of perihelion w degrees, 0 < w < 360, w <> 180; [epo t] the
   Epoch of perihelion; Ef = what the final Epoch(...) constructor stores, not entered): the radius is the
   conic r = a(1-e^2)/(1 + e cos v) at true anomaly v = -w (ascending) / 180-w (descending), and the time
   offset is the mean anomaly E - e sin E of that true anomaly divided by n = 0.9856076686/(a sqrt a) *)
Theorem C11_nodes_elliptic : forall Ef w e a t asc,
  Epoch_of Ef -> 0 < w < 360 -> w <> 180 -> 0 <= e < 1 -> 0 < a ->
  exists dt r,
    f_passage_nodes_elliptic Rops (ang w) (VFloat e) (VFloat a) (epo t) (VBool asc) =
      VTuple [epo (Ef (t + dt)); VFloat r] /\
    r = a * (1 - e * e) / (1 + (if asc then e else - e) * cos (w * (PI / 180))) /\
    (let vdeg := if asc then 360 - w else 180 - w in
     let EE := 2 * atan (sqrt ((1 - e) / (1 + e)) * tan (vdeg * (PI / 180) / 2)) in
     dt = (EE - e * sin EE) * (180 / PI) / (9856076686 / 10000000000 / (a * sqrt a))).
Proof. exact nodes_elliptic. Qed.

(* node passage, parabolic orbit: r = q(1+s^2) = 2q/(1 + cos v), offset = Barker's equation *)
Theorem C11_nodes_parabolic : forall Ef w q t asc,
  Epoch_of Ef -> 0 < w < 360 -> w <> 180 -> 0 < q ->
  exists dt r,
    f_passage_nodes_parabolic Rops (ang w) (VFloat q) (epo t) (VBool asc) =
      VTuple [epo (Ef (t + dt)); VFloat r] /\
    r = 2 * q / (1 + (if asc then 1 else - 1) * cos (w * (PI / 180))) /\
    (let vdeg := if asc then 360 - w else 180 - w in
     let s := tan (vdeg * (PI / 180) / 2) in
     dt = 27403895 / 1000000 * s * (s * s + 3) * q * sqrt q).
Proof. exact nodes_parabolic. Qed.

Redirect "C11_kepler.assumptions" Print Assumptions C11_kepler.
Redirect "C11_kepler_refuses.assumptions" Print Assumptions C11_kepler_refuses.
Redirect "C11_bisection_spec.assumptions" Print Assumptions C11_bisection_spec.
Redirect "C11_halvings.assumptions" Print Assumptions C11_halvings.
Redirect "C11_visviva.assumptions" Print Assumptions C11_visviva.
Redirect "C11_length.assumptions" Print Assumptions C11_length.
Redirect "C11_length_switch.assumptions" Print Assumptions C11_length_switch.
Redirect "C11_phase.assumptions" Print Assumptions C11_phase.
Redirect "C11_nodes_elliptic.assumptions" Print Assumptions C11_nodes_elliptic.
Redirect "C11_nodes_parabolic.assumptions" Print Assumptions C11_nodes_parabolic.
