(* C11_twobody: velocity / velocity_perihelion / velocity_aphelion / length_orbit /
   phase_angle / illuminated_fraction in the ideal instance: closed forms of the
   generated functions (pyrunv) and the two-body relations C11 names. *)
From Coq Require Import Reals ZArith List String Lra Lia.
From Interval Require Import Tactic.
From Coquelicot Require Rcomplements.
From PyLib Require Import PyVal PyBuiltins Ideal Whnf PyEval.
From Gen Require Import M_base M_Angle M_Epoch M_Coordinates.
From Proofs.C11 Require Import C11_tac.
Import ListNotations.
Open Scope R_scope.

(* ------------------------------------------------------------------ speeds *)
Definition vel (r a : R) : R := Rlit 421218 (-4) * sqrt (Rlit 10 (-1) / r - Rlit 10 (-1) / (Rlit 20 (-1) * a)).
Definition vperi (e a : R) : R := Rlit 297847 (-4) * sqrt ((Rlit 10 (-1) + e) / (Rlit 10 (-1) - e)) / sqrt a.
Definition vaph (e a : R) : R := Rlit 297847 (-4) * sqrt ((Rlit 10 (-1) - e) / (Rlit 10 (-1) + e)) / sqrt a.

Lemma velocity_run r a : 0 < r -> 0 < a -> 0 <= 1 / r - 1 / (2 * a) ->
  f_velocity Rops (VFloat r) (VFloat a) = VFloat (vel r a).
Proof.
  intros Hr Ha H. pyrunv_using ltac:(first [ lra1 | close_by H ]). reflexivity.
Qed.

Lemma sqrt_nz a : 0 < a -> sqrt a <> 0.
Proof. intros H E. apply sqrt_eq_0 in E; lra. Qed.

Lemma vperi_run e a : 0 <= e < 1 -> 0 < a ->
  f_velocity_perihelion Rops (VFloat e) (VFloat a) = VFloat (vperi e a).
Proof.
  intros He Ha.
  assert (0 <= (Rlit 10 (-1) + e) / (Rlit 10 (-1) - e)) as G2.
  { Rlit_norm. apply Rmult_le_pos; [lra|]. left. apply Rinv_0_lt_compat. lra. }
  pose proof (sqrt_nz a Ha) as G3.
  pyrunv_using ltac:(first [exact G2 | exact G3 | lra1]). reflexivity.
Qed.

Lemma vaph_run e a : 0 <= e < 1 -> 0 < a ->
  f_velocity_aphelion Rops (VFloat e) (VFloat a) = VFloat (vaph e a).
Proof.
  intros He Ha.
  assert (0 <= (Rlit 10 (-1) - e) / (Rlit 10 (-1) + e)) as G2.
  { Rlit_norm. apply Rmult_le_pos; [lra|]. left. apply Rinv_0_lt_compat. lra. }
  pose proof (sqrt_nz a Ha) as G3.
  pyrunv_using ltac:(first [exact G2 | exact G3 | lra1]). reflexivity.
Qed.

(* vis-viva at r = a(1-e): sqrt(1/r - 1/(2a)) = sqrt((1+e)/(1-e)) / (sqrt 2 sqrt a) *)
Lemma visviva_arg_peri e a : 0 <= e < 1 -> 0 < a ->
  sqrt (1 / (a * (1 - e)) - 1 / (2 * a)) = sqrt ((1 + e) / (1 - e)) / (sqrt 2 * sqrt a).
Proof.
  intros He Ha.
  replace (1 / (a * (1 - e)) - 1 / (2 * a)) with ((1 + e) / (1 - e) / (2 * a)) by (field; lra).
  rewrite sqrt_div_alt by lra. rewrite sqrt_mult by lra. reflexivity.
Qed.
Lemma visviva_arg_aph e a : 0 <= e < 1 -> 0 < a ->
  sqrt (1 / (a * (1 + e)) - 1 / (2 * a)) = sqrt ((1 - e) / (1 + e)) / (sqrt 2 * sqrt a).
Proof.
  intros He Ha.
  replace (1 / (a * (1 + e)) - 1 / (2 * a)) with ((1 - e) / (1 + e) / (2 * a)) by (field; lra).
  rewrite sqrt_div_alt by lra. rewrite sqrt_mult by lra. reflexivity.
Qed.

(* the two literals: 42.1218 / sqrt 2 = 29.78461..., 29.7847: they agree to 4e-6 (relative) *)
Lemma literals_agree : Rabs (421218 / 10000 / sqrt 2 - 297847 / 10000) <= 4 / 1000000 * (297847 / 10000).
Proof. interval. Qed.

Theorem visviva e a : 0 <= e < 1 -> 0 < a ->
  exists vp va v1 v2,
    f_velocity_perihelion Rops (VFloat e) (VFloat a) = VFloat vp /\
    f_velocity_aphelion Rops (VFloat e) (VFloat a) = VFloat va /\
    f_velocity Rops (VFloat (a * (1 - e))) (VFloat a) = VFloat v1 /\
    f_velocity Rops (VFloat (a * (1 + e))) (VFloat a) = VFloat v2 /\
    Rabs (v1 - vp) <= 4 / 1000000 * vp /\ Rabs (v2 - va) <= 4 / 1000000 * va /\
    vp * va = (297847 / 10000) * (297847 / 10000) / a /\ 0 < va <= vp.
Proof.
  intros He Ha.
  assert (0 < sqrt a) as Hsa by (apply sqrt_lt_R0; lra).
  assert (0 < sqrt 2) as Hs2 by (apply sqrt_lt_R0; lra).
  assert (0 < (1 + e) / (1 - e)) as Hq1 by (apply Rdiv_lt_0_compat; lra).
  assert (0 < (1 - e) / (1 + e)) as Hq2 by (apply Rdiv_lt_0_compat; lra).
  assert (0 < sqrt ((1 + e) / (1 - e))) as Hp by (apply sqrt_lt_R0; lra).
  assert (0 < sqrt ((1 - e) / (1 + e))) as Hq by (apply sqrt_lt_R0; lra).
  exists (vperi e a), (vaph e a), (vel (a * (1 - e)) a), (vel (a * (1 + e)) a).
  split; [apply vperi_run; assumption|]. split; [apply vaph_run; assumption|].
  split. { apply velocity_run; try nra.
           replace (1 / (a * (1 - e)) - 1 / (2 * a)) with ((1 + e) / (1 - e) / (2 * a)) by (field; lra).
           left. apply Rdiv_lt_0_compat; lra. }
  split. { apply velocity_run; try nra.
           replace (1 / (a * (1 + e)) - 1 / (2 * a)) with ((1 - e) / (1 + e) / (2 * a)) by (field; lra).
           left. apply Rdiv_lt_0_compat; lra. }
  unfold vel, vperi, vaph. Rlit_norm.
  replace (10 / 10 / (a * (1 - e)) - 10 / 10 / (20 / 10 * a)) with (1 / (a * (1 - e)) - 1 / (2 * a)) by (field; lra).
  replace (10 / 10 / (a * (1 + e)) - 10 / 10 / (20 / 10 * a)) with (1 / (a * (1 + e)) - 1 / (2 * a)) by (field; lra).
  rewrite visviva_arg_peri, visviva_arg_aph by assumption.
  replace ((10 / 10 + e) / (10 / 10 - e)) with ((1 + e) / (1 - e)) by (field; lra).
  replace ((10 / 10 - e) / (10 / 10 + e)) with ((1 - e) / (1 + e)) by (field; lra).
  set (P := sqrt ((1 + e) / (1 - e))) in *. set (Q := sqrt ((1 - e) / (1 + e))) in *.
  pose proof literals_agree as HL.
  assert (0 < P / sqrt a) as HPa by (apply Rdiv_lt_0_compat; lra).
  assert (0 < Q / sqrt a) as HQa by (apply Rdiv_lt_0_compat; lra).
  split.
  { replace (421218 / 10000 * (P / (sqrt 2 * sqrt a)) - 297847 / 10000 * P / sqrt a)
      with ((421218 / 10000 / sqrt 2 - 297847 / 10000) * (P / sqrt a)) by (field; lra).
    rewrite Rabs_mult, (Rabs_right (P / sqrt a)) by lra.
    replace (4 / 1000000 * (297847 / 10000 * P / sqrt a))
      with (4 / 1000000 * (297847 / 10000) * (P / sqrt a)) by (field; lra).
    apply Rmult_le_compat_r; lra. }
  split.
  { replace (421218 / 10000 * (Q / (sqrt 2 * sqrt a)) - 297847 / 10000 * Q / sqrt a)
      with ((421218 / 10000 / sqrt 2 - 297847 / 10000) * (Q / sqrt a)) by (field; lra).
    rewrite Rabs_mult, (Rabs_right (Q / sqrt a)) by lra.
    replace (4 / 1000000 * (297847 / 10000 * Q / sqrt a))
      with (4 / 1000000 * (297847 / 10000) * (Q / sqrt a)) by (field; lra).
    apply Rmult_le_compat_r; lra. }
  assert (P * Q = 1) as HPQ.
  { unfold P, Q. rewrite <- sqrt_mult by lra.
    replace ((1 + e) / (1 - e) * ((1 - e) / (1 + e))) with 1 by (field; lra). apply sqrt_1. }
  assert (sqrt a * sqrt a = a) as Haa by (apply sqrt_sqrt; lra).
  split.
  { replace (297847 / 10000 * P / sqrt a * (297847 / 10000 * Q / sqrt a))
      with (297847 / 10000 * (297847 / 10000) * (P * Q) / (sqrt a * sqrt a)) by (field; lra).
    rewrite HPQ, Haa. field. lra. }
  assert (Q <= P) as HQP.
  { unfold P, Q. apply sqrt_le_1_alt.
    apply Rmult_le_reg_r with ((1 - e) * (1 + e)); [nra|].
    replace ((1 - e) / (1 + e) * ((1 - e) * (1 + e))) with ((1 - e) * (1 - e)) by (field; lra).
    replace ((1 + e) / (1 - e) * ((1 - e) * (1 + e))) with ((1 + e) * (1 + e)) by (field; lra).
    nra. }
  split.
  - replace (297847 / 10000 * Q / sqrt a) with (297847 / 10000 * (Q / sqrt a)) by (field; lra). nra.
  - replace (297847 / 10000 * Q / sqrt a) with (297847 / 10000 * (Q / sqrt a)) by (field; lra).
    replace (297847 / 10000 * P / sqrt a) with (297847 / 10000 * (P / sqrt a)) by (field; lra).
    apply Rmult_le_compat_l; [lra|]. apply Rmult_le_compat_r; [left; apply Rinv_0_lt_compat; lra | exact HQP].
Qed.

(* ------------------------------------------------------------ length_orbit *)
Definition semi_b (e a : R) : R := a * sqrt (Rlit 10 (-1) - e * e).
(* e < 0.95 *)
Definition len1 (e a : R) : R :=
  PI * (Rlit 210 (-1) * ((a + semi_b e a) / Rlit 20 (-1)) - Rlit 20 (-1) * sqrt (a * semi_b e a)
        - Rlit 30 (-1) * (Rlit 20 (-1) * a * semi_b e a / (a + semi_b e a))) / Rlit 80 (-1).
(* e >= 0.95 *)
Definition len2 (e a : R) : R :=
  PI * (Rlit 30 (-1) * (a + semi_b e a)
        - sqrt ((a + Rlit 30 (-1) * semi_b e a) * (Rlit 30 (-1) * a + semi_b e a))).

Lemma semi_b_facts e a : 0 <= e < 1 -> 0 < a ->
  0 <= Rlit 10 (-1) - e * e /\ 0 < semi_b e a <= a.
Proof.
  intros He Ha. assert (0 < 1 - e * e <= 1) as H by nra.
  assert (0 < sqrt (1 - e * e) <= 1) as Hs.
  { split. apply sqrt_lt_R0; lra.
    assert (sqrt (1 - e * e) <= sqrt 1) as H1 by (apply sqrt_le_1_alt; lra). rewrite sqrt_1 in H1. exact H1. }
  unfold semi_b. Rlit_norm. replace (10 / 10 - e * e) with (1 - e * e) by field.
  split; [lra|]. nra.
Qed.

Lemma length_run1 e a : 0 <= e < 95 / 100 -> 0 < a ->
  f_length_orbit Rops (VFloat e) (VFloat a) = VFloat (len1 e a).
Proof.
  intros He Ha. destruct (semi_b_facts e a ltac:(lra) Ha) as (G1 & Hb).
  assert (0 <= a * semi_b e a) as G2 by nra.
  assert (a + semi_b e a <> 0) as G3 by lra.
  pyrunv_using ltac:(first [exact G1 | exact G2 | exact G3 | lra1]). reflexivity.
Qed.

Lemma length_run2 e a : 95 / 100 <= e < 1 -> 0 < a ->
  f_length_orbit Rops (VFloat e) (VFloat a) = VFloat (len2 e a).
Proof.
  intros He Ha. destruct (semi_b_facts e a ltac:(lra) Ha) as (G1 & Hb).
  assert (0 <= (a + Rlit 30 (-1) * semi_b e a) * (Rlit 30 (-1) * a + semi_b e a)) as G2
    by (Rlit_norm; nra).
  pyrunv_using ltac:(first [exact G1 | exact G2 | lra1]). reflexivity.
Qed.

(* both formulas lie between the circumferences 2 PI b and 2 PI a, for any 0 < b <= a *)
Lemma len1_bounds a b : 0 < b <= a ->
  2 * PI * b <= PI * (210 / 10 * ((a + b) / (20 / 10)) - 20 / 10 * sqrt (a * b)
                      - 30 / 10 * (20 / 10 * a * b / (a + b))) / (80 / 10) <= 2 * PI * a.
Proof.
  intros Hb. pose proof PI_RGT_0 as Hpi.
  set (u := sqrt a). set (w := sqrt b).
  assert (0 < w) as Hw by (apply sqrt_lt_R0; lra).
  assert (w <= u) as Hwu by (apply sqrt_le_1_alt; lra).
  assert (u * u = a) as Hu by (unfold u; apply sqrt_sqrt; lra).
  assert (w * w = b) as Hw2 by (unfold w; apply sqrt_sqrt; lra).
  clearbody u w. subst a b.
  replace (u * u * (w * w)) with ((u * w) * (u * w)) by ring.
  rewrite sqrt_square by nra.
  set (S := u * u + w * w). assert (0 < S) as HS by (unfold S; nra).
  assert (210 / 10 * (S / (20 / 10)) - 20 / 10 * (u * w) - 30 / 10 * (20 / 10 * (u * u) * (w * w) / S)
          = 16 * (u * u) - (u - w) * (21 / 2 * (w * w * w) + 17 / 2 * (w * w * u) + 15 / 2 * (w * u * u) + 11 / 2 * (u * u * u)) / S) as E1
    by (unfold S; field; nra).
  assert (210 / 10 * (S / (20 / 10)) - 20 / 10 * (u * w) - 30 / 10 * (20 / 10 * (u * u) * (w * w) / S)
          = 16 * (w * w) + (u - w) * (11 / 2 * (w * w * w) + 15 / 2 * (w * w * u) + 17 / 2 * (w * u * u) + 21 / 2 * (u * u * u)) / S) as E2
    by (unfold S; field; nra).
  assert (0 <= (u - w) * (21 / 2 * (w * w * w) + 17 / 2 * (w * w * u) + 15 / 2 * (w * u * u) + 11 / 2 * (u * u * u)) / S) as P1.
  { apply Rmult_le_pos; [|left; apply Rinv_0_lt_compat; lra].
    apply Rmult_le_pos; [lra|]. assert (0 < u) by lra.
    assert (0 < u * u * u) by (repeat apply Rmult_lt_0_compat; lra).
    assert (0 < w * u * u) by (repeat apply Rmult_lt_0_compat; lra).
    assert (0 < w * w * u) by (repeat apply Rmult_lt_0_compat; lra).
    assert (0 < w * w * w) by (repeat apply Rmult_lt_0_compat; lra). lra. }
  assert (0 <= (u - w) * (11 / 2 * (w * w * w) + 15 / 2 * (w * w * u) + 17 / 2 * (w * u * u) + 21 / 2 * (u * u * u)) / S) as P2.
  { apply Rmult_le_pos; [|left; apply Rinv_0_lt_compat; lra].
    apply Rmult_le_pos; [lra|]. assert (0 < u) by lra.
    assert (0 < u * u * u) by (repeat apply Rmult_lt_0_compat; lra).
    assert (0 < w * u * u) by (repeat apply Rmult_lt_0_compat; lra).
    assert (0 < w * w * u) by (repeat apply Rmult_lt_0_compat; lra).
    assert (0 < w * w * w) by (repeat apply Rmult_lt_0_compat; lra). lra. }
  split.
  - rewrite E2. nra.
  - rewrite E1. nra.
Qed.

Lemma len2_bounds a b : 0 < b <= a ->
  2 * PI * b <= PI * (30 / 10 * (a + b) - sqrt ((a + 30 / 10 * b) * (30 / 10 * a + b))) <= 2 * PI * a.
Proof.
  intros Hb. pose proof PI_RGT_0 as Hpi.
  assert (a + 3 * b <= sqrt ((a + 30 / 10 * b) * (30 / 10 * a + b)) <= 3 * a + b) as Hs.
  { split.
    - rewrite <- (sqrt_square (a + 3 * b)) by lra. apply sqrt_le_1_alt. nra.
    - rewrite <- (sqrt_square (3 * a + b)) by lra. apply sqrt_le_1_alt. nra. }
  split; nra.
Qed.

(* the two formulas differ by less than a/1000 at the switch: any e in [0.94999, 0.95)
   (first formula) against e = 0.95 (second formula) *)
Lemma len_switch_unit e : 94999 / 100000 <= e <= 95 / 100 ->
  Rabs (PI * (210 / 10 * ((1 + sqrt (1 - e * e)) / (20 / 10)) - 20 / 10 * sqrt (sqrt (1 - e * e))
              - 30 / 10 * (20 / 10 * sqrt (1 - e * e) / (1 + sqrt (1 - e * e)))) / (80 / 10)
        - PI * (30 / 10 * (1 + sqrt (1 - 95 / 100 * (95 / 100)))
                - sqrt ((1 + 30 / 10 * sqrt (1 - 95 / 100 * (95 / 100))) * (30 / 10 + sqrt (1 - 95 / 100 * (95 / 100))))))
  <= 1 / 1000.
Proof. intros He. interval with (i_bisect e). Qed.

Theorem length_orbit_ok e a : 0 <= e < 1 -> 0 < a ->
  exists L, f_length_orbit Rops (VFloat e) (VFloat a) = VFloat L /\
            2 * PI * (a * sqrt (1 - e * e)) <= L <= 2 * PI * a.
Proof.
  intros He Ha. destruct (semi_b_facts e a He Ha) as (G1 & Hb).
  assert (semi_b e a = a * sqrt (1 - e * e)) as Hbe
    by (unfold semi_b; Rlit_norm; do 2 f_equal; field).
  destruct (Rlt_dec e (95 / 100)) as [H | H].
  - exists (len1 e a). split; [apply length_run1; lra|].
    rewrite <- Hbe. unfold len1. Rlit_norm. apply len1_bounds. exact Hb.
  - exists (len2 e a). split; [apply length_run2; lra|].
    rewrite <- Hbe. unfold len2. Rlit_norm. apply len2_bounds. exact Hb.
Qed.

Theorem length_orbit_switch e a : 94999 / 100000 <= e < 95 / 100 -> 0 < a ->
  exists L1 L2, f_length_orbit Rops (VFloat e) (VFloat a) = VFloat L1 /\
                f_length_orbit Rops (VFloat (95 / 100)) (VFloat a) = VFloat L2 /\
                Rabs (L1 - L2) <= a / 1000.
Proof.
  intros He Ha. exists (len1 e a), (len2 (95 / 100) a).
  split; [apply length_run1; lra|]. split; [apply length_run2; lra|].
  pose proof (len_switch_unit e ltac:(lra)) as HU.
  assert (0 < 1 - e * e) by nra.
  assert (0 < sqrt (1 - e * e)) as Hs by (apply sqrt_lt_R0; lra).
  assert (0 < sqrt (1 - 95 / 100 * (95 / 100))) as Hs2 by (apply sqrt_lt_R0; lra).
  unfold len1, len2, semi_b. Rlit_norm.
  replace (10 / 10 - e * e) with (1 - e * e) by field.
  replace (10 / 10 - 95 / 100 * (95 / 100)) with (1 - 95 / 100 * (95 / 100)) by field.
  set (s := sqrt (1 - e * e)) in *. set (s2 := sqrt (1 - 95 / 100 * (95 / 100))) in *.
  replace (a * (a * s)) with ((a * a) * s) by ring.
  rewrite sqrt_mult, sqrt_square by nra.
  replace ((a + 30 / 10 * (a * s2)) * (30 / 10 * a + a * s2))
    with ((a * a) * ((1 + 30 / 10 * s2) * (30 / 10 + s2))) by ring.
  rewrite sqrt_mult, sqrt_square by nra.
  match goal with |- Rabs ?x <= _ =>
    match type of HU with Rabs ?y <= _ => replace x with (a * y) by (field; repeat split; nra) end end.
  rewrite Rabs_mult, (Rabs_right a) by lra. nra.
Qed.

(* ------------------------------------------- phase angle, illuminated fraction *)
Definition cos_i (r D R0 : R) : R := (r * r + D * D - R0 * R0) / (Rlit 20 (-1) * r * D).
Definition illum (r D R0 : R) : R := ((r + D) * (r + D) - R0 * R0) / (Rlit 40 (-1) * r * D).

Lemma illum_run r D R0 : 0 < r -> 0 < D ->
  f_illuminated_fraction Rops (VFloat r) (VFloat D) (VFloat R0) = VFloat (illum r D R0).
Proof.
  intros Hr HD. assert (Rlit 40 (-1) * r * D <> 0) as G by (Rlit_norm; nra).
  pyrunv_using ltac:(first [exact G | lra1]). reflexivity.
Qed.

Lemma acos_deg_bound c : Rabs (acos c * (180 / PI)) < Rlit 3600 (-1).
Proof.
  pose proof (acos_bound c). pose proof PI_RGT_0. Rlit_norm.
  replace (acos c * (180 / PI)) with (180 * (acos c / PI)) by (field; lra).
  assert (0 <= acos c / PI <= 1).
  { split. apply Rmult_le_pos; [lra|]. left. apply Rinv_0_lt_compat. lra.
    apply Rmult_le_reg_r with PI; [lra|]. unfold Rdiv. rewrite Rmult_assoc, Rinv_l by lra. lra. }
  rewrite Rabs_right by lra. lra.
Qed.

Lemma phase_run r D R0 : 0 < r -> 0 < D -> -1 <= cos_i r D R0 <= 1 ->
  f_phase_angle Rops (VFloat r) (VFloat D) (VFloat R0) = ang (acos (cos_i r D R0) * (180 / PI)).
Proof.
  intros Hr HD Hc. assert (Rlit 20 (-1) * r * D <> 0) as G by (Rlit_norm; nra).
  destruct Hc as [G1 G2].
  pyrunv_using ltac:(first [exact G | exact G1 | exact G2 | lra1]).
  rewrite Angle_new_rad by apply acos_deg_bound.
  pyrunv. reflexivity.
Qed.

(* triangle-feasible distances: |r - D| <= R <= r + D *)
Theorem phase_illum r D R0 : 0 < r -> 0 < D -> Rabs (r - D) <= R0 <= r + D ->
  exists i k, f_phase_angle Rops (VFloat r) (VFloat D) (VFloat R0) = ang i /\
              f_illuminated_fraction Rops (VFloat r) (VFloat D) (VFloat R0) = VFloat k /\
              k = (1 + cos (i * (PI / 180))) / 2 /\ 0 <= k <= 1 /\ 0 <= i <= 180.
Proof.
  intros Hr HD HT. pose proof PI_RGT_0 as Hpi.
  assert (0 < r * D) as HrD by nra.
  assert ((r - D) * (r - D) <= R0 * R0 <= (r + D) * (r + D)) as HS.
  { assert (0 <= R0) by (pose proof (Rabs_pos (r - D)); lra).
    split; [| nra]. unfold Rabs in HT. destruct (Rcase_abs (r - D)); nra. }
  assert (-1 <= cos_i r D R0 <= 1) as Hc.
  { unfold cos_i. Rlit_norm. split.
    - apply Rcomplements.Rle_div_r; nra.
    - apply Rcomplements.Rle_div_l; nra. }
  exists (acos (cos_i r D R0) * (180 / PI)), (illum r D R0).
  split; [apply phase_run; assumption|]. split; [apply illum_run; assumption|].
  replace (acos (cos_i r D R0) * (180 / PI) * (PI / 180)) with (acos (cos_i r D R0)) by (field; lra).
  rewrite cos_acos by lra.
  assert (illum r D R0 = (1 + cos_i r D R0) / 2) as Hk
    by (unfold illum, cos_i; Rlit_norm; field; lra).
  split; [exact Hk|]. split; [rewrite Hk; lra|].
  pose proof (acos_bound (cos_i r D R0)) as Hb.
  assert (0 <= acos (cos_i r D R0) / PI <= 1).
  { split. apply Rmult_le_pos; [lra|]. left. apply Rinv_0_lt_compat. lra.
    apply Rmult_le_reg_r with PI; [lra|]. unfold Rdiv. rewrite Rmult_assoc, Rinv_l by lra. lra. }
  replace (acos (cos_i r D R0) * (180 / PI)) with (180 * (acos (cos_i r D R0) / PI)) by (field; lra).
  lra.
Qed.
