(* Property C03 — Angle: canonical range, congruence mod 360 and closed arithmetic.
   Statements only; proofs are in C03_reduce / C03_construct / C03_dms / C03_ops / C03_grid.
   The model (Angle_*, M_Angle) is regenerated from /repo on every run.

   *_ideal theorems: the generated text read over the REAL numbers (instance Rops): exact for
   every real / integer input, silent about binary64 rounding.
   C03_grid_b64: the binary64 instance, evaluated by the kernel on a FINITE explicit grid. *)
From Coq Require Import Reals ZArith List Bool String.
From PyLib Require Import PyVal PyBuiltins Ideal.
From Spec Require Import AngleSpec.
From Gen Require Import M_base M_Angle.
From Proofs.C03 Require Import C03_defs C03_reduce C03_construct C03_forms C03_dmsi C03_dms C03_dms_int C03_ops.
From Proofs.C03 Require C03_grid.
From PyLib Require B64 B64Verified.
From Proofs.C03 Require C03_ops_b64.
From Proofs.C03 Require C03_reduce_b64 C03_b64 C03_ra_b64.
Import ListNotations.
Open Scope R_scope.

(* reduce_deg is the symmetric reduction sign(x)(|x| - 360 floor(|x|/360)), for every real and every int *)
Theorem C03_reduce_deg_ideal :
  (forall x : R, Angle_reduce_deg Rops (VFloat x) = VFloat (red360 x)) /\
  (forall z : Z, Angle_reduce_deg Rops (VInt z) = VFloat (red360 (IZR z))).
Proof. exact (conj reduce_deg_float reduce_deg_int). Qed.

(* what the reduction means: strictly inside (-360,360), sign of the input (or 0), congruent
   mod 360, and it is the only such value *)
Theorem C03_reduction_spec : forall x : R,
  -360 < red360 x < 360 /\
  (0 <= x -> 0 <= red360 x) /\ (x <= 0 -> red360 x <= 0) /\
  cong360 x (red360 x) /\
  (forall v, -360 < v < 360 -> cong360 x v -> (0 <= x -> 0 <= v) -> (x <= 0 -> v <= 0) -> v = red360 x).
Proof.
  intro x. split; [apply red360_range|]. split; [apply red360_sign|]. split; [apply red360_sign|].
  split; [apply red360_cong|]. intros v. apply red360_unique.
Qed.

(* constructor on one number: degrees, radians, hours; 1-tuple / 1-list; copy; no argument *)
Theorem C03_construct_ideal :
  (forall x, mkA [VFloat x] = ang (red360 x)) /\
  (forall z, mkA [VInt z] = ang (red360 (IZR z))) /\
  (forall x, mkA_kw [VFloat x] "radians" = ang (red360 (x * (180 / PI)))) /\
  (forall z, mkA_kw [VInt z] "radians" = ang (red360 (IZR z * (180 / PI)))) /\
  (forall x, mkA_kw [VFloat x] "ra" = ang (red360 (red360 x * 15))) /\
  (forall z, mkA_kw [VInt z] "ra" = ang (red360 (red360 (IZR z) * 15))) /\
  (forall x, mkA [VTuple [VFloat x]] = ang (red360 x)) /\
  (forall x, mkA [VList [VFloat x]] = ang (red360 x)) /\
  (forall d t, mkA [angT d t] = angT d t) /\
  mkA [] = ang 0 /\
  (forall d t x, Angle_set_radians Rops (angT d t) (VFloat x) = VTuple [angT (red360 (x * (180 / PI))) t; VNone]).
Proof.
  exact (conj init_float (conj init_int (conj init_rad (conj init_rad_int (conj init_ra (conj init_ra_int
        (conj init_tuple1 (conj init_list1 (conj init_copy (conj init_empty set_radians_float)))))))))).
Qed.

(* binary operators on an Angle holding a (any tolerance ta) and an Angle holding b / a float y / an int z:
   the result is a NEW Angle with the default tolerance holding red360 of the real operation;
   reflected and in-place forms give the same value.  The operands are arguments of a pure
   function: they cannot change (value semantics of the model). *)
Theorem C03_operators_ideal : forall a ta b tb y z,
  (* + *)
  Angle___add__ Rops (angT a ta) (angT b tb) = ang (red360 (a + b)) /\
  Angle___add__ Rops (angT a ta) (VFloat y) = ang (red360 (a + y)) /\
  Angle___add__ Rops (angT a ta) (VInt z) = ang (red360 (a + IZR z)) /\
  Angle___radd__ Rops (angT a ta) (VFloat y) = ang (red360 (a + y)) /\
  Angle___radd__ Rops (angT a ta) (VInt z) = ang (red360 (a + IZR z)) /\
  Angle___iadd__ Rops (angT a ta) (angT b tb) = ang (red360 (a + b)) /\
  Angle___iadd__ Rops (angT a ta) (VFloat y) = ang (red360 (a + y)) /\
  Angle___iadd__ Rops (angT a ta) (VInt z) = ang (red360 (a + IZR z)) /\
  (* - : a + (-b); for an Angle b, -b is itself an Angle, hence the inner red360 (identity when |b| < 360) *)
  Angle___sub__ Rops (angT a ta) (angT b tb) = ang (red360 (a + red360 (- b))) /\
  Angle___sub__ Rops (angT a ta) (VFloat y) = ang (red360 (a + - y)) /\
  Angle___sub__ Rops (angT a ta) (VInt z) = ang (red360 (a + IZR (- z))) /\
  Angle___isub__ Rops (angT a ta) (angT b tb) = ang (red360 (a + red360 (- b))) /\
  Angle___isub__ Rops (angT a ta) (VFloat y) = ang (red360 (a + - y)) /\
  Angle___isub__ Rops (angT a ta) (VInt z) = ang (red360 (a + IZR (- z))) /\
  (* y - a = -(a - y) *)
  Angle___rsub__ Rops (angT a ta) (VFloat y) = ang (red360 (- red360 (a + - y))) /\
  Angle___rsub__ Rops (angT a ta) (VInt z) = ang (red360 (- red360 (a + IZR (- z)))) /\
  (* * *)
  Angle___mul__ Rops (angT a ta) (angT b tb) = ang (red360 (a * b)) /\
  Angle___mul__ Rops (angT a ta) (VFloat y) = ang (red360 (a * y)) /\
  Angle___mul__ Rops (angT a ta) (VInt z) = ang (red360 (a * IZR z)) /\
  Angle___rmul__ Rops (angT a ta) (VFloat y) = ang (red360 (a * y)) /\
  Angle___rmul__ Rops (angT a ta) (VInt z) = ang (red360 (a * IZR z)) /\
  Angle___imul__ Rops (angT a ta) (angT b tb) = ang (red360 (a * b)) /\
  Angle___imul__ Rops (angT a ta) (VFloat y) = ang (red360 (a * y)) /\
  Angle___imul__ Rops (angT a ta) (VInt z) = ang (red360 (a * IZR z)) /\
  (* / : non-zero divisor (an Angle divisor is zero when |b| < its tolerance) *)
  (tb <= Rabs b -> b <> 0 -> Angle___truediv__ Rops (angT a ta) (angT b tb) = ang (red360 (a / b))) /\
  (y <> 0 -> Angle___truediv__ Rops (angT a ta) (VFloat y) = ang (red360 (a / y))) /\
  (z <> 0%Z -> Angle___truediv__ Rops (angT a ta) (VInt z) = ang (red360 (a / IZR z))) /\
  (y <> 0 -> Angle___div__ Rops (angT a ta) (VFloat y) = ang (red360 (a / y))) /\
  (tb <= Rabs b -> b <> 0 -> Angle___itruediv__ Rops (angT a ta) (angT b tb) = ang (red360 (a / b))) /\
  (y <> 0 -> Angle___itruediv__ Rops (angT a ta) (VFloat y) = ang (red360 (a / y))) /\
  (ta <= Rabs a -> a <> 0 -> Angle___rtruediv__ Rops (angT a ta) (VFloat y) = ang (red360 (y / a))) /\
  (ta <= Rabs a -> a <> 0 -> Angle___rtruediv__ Rops (angT a ta) (VInt z) = ang (red360 (IZR z / a))) /\
  (* % : documented reading, sign of the left value times (|a| mod b), b > 0 *)
  (0 < b -> Angle___mod__ Rops (angT a ta) (angT b tb) = ang (red360 (sgn a * Rfmod (Rabs a) b))) /\
  (0 < y -> Angle___mod__ Rops (angT a ta) (VFloat y) = ang (red360 (sgn a * Rfmod (Rabs a) y))) /\
  (0 < b -> Angle___imod__ Rops (angT a ta) (angT b tb) = ang (red360 (sgn a * Rfmod (Rabs a) b))) /\
  (0 < y -> Angle___imod__ Rops (angT a ta) (VFloat y) = ang (red360 (sgn a * Rfmod (Rabs a) y))) /\
  (* number % Angle: the number is converted to an Angle (reduced) first *)
  (0 < a -> Angle___rmod__ Rops (angT a ta) (VFloat y) =
            ang (red360 (sgn (red360 y) * Rfmod (Rabs (red360 y)) a))) /\
  (0 < a -> Angle___rmod__ Rops (angT a ta) (VInt z) =
            ang (red360 (sgn (red360 (IZR z)) * Rfmod (Rabs (red360 (IZR z))) a))) /\
  (* ** : positive base, non-zero exponent: the real power; exponent 0 gives 1 *)
  (0 < a -> y <> 0 -> Angle___pow__ Rops (angT a ta) (VFloat y) = ang (red360 (Rpower a y))) /\
  (0 < a -> b <> 0 -> Angle___pow__ Rops (angT a ta) (angT b tb) = ang (red360 (Rpower a b))) /\
  Angle___pow__ Rops (angT a ta) (VFloat 0) = ang (red360 1) /\
  (0 < a -> y <> 0 -> Angle___ipow__ Rops (angT a ta) (VFloat y) = ang (red360 (Rpower a y))) /\
  (0 < y -> a <> 0 -> Angle___rpow__ Rops (angT a ta) (VFloat y) = ang (red360 (Rpower y a))).
Proof.
  intros a ta b tb y z.
  exact (conj (add_AA a ta b tb) (conj (add_AF a ta y) (conj (add_AI a ta z) (conj (radd_AF a ta y) (conj (radd_AI a ta z) (conj (iadd_AA a ta b tb) (conj (iadd_AF a ta y) (conj (iadd_AI a ta z) (conj (sub_AA a ta b tb) (conj (sub_AF a ta y) (conj (sub_AI a ta z) (conj (isub_AA a ta b tb) (conj (isub_AF a ta y) (conj (isub_AI a ta z) (conj (rsub_AF a ta y) (conj (rsub_AI a ta z) (conj (mul_AA a ta b tb) (conj (mul_AF a ta y) (conj (mul_AI a ta z) (conj (rmul_AF a ta y) (conj (rmul_AI a ta z) (conj (imul_AA a ta b tb) (conj (imul_AF a ta y) (conj (imul_AI a ta z) (conj (div_AA a ta b tb) (conj (div_AF a ta y) (conj (div_AI a ta z) (conj (div_old_AF a ta y) (conj (idiv_AA a ta b tb) (conj (idiv_AF a ta y) (conj (rdiv_AF a ta y) (conj (rdiv_AI a ta z) (conj (mod_AA a ta b tb) (conj (mod_AF a ta y) (conj (imod_AA a ta b tb) (conj (imod_AF a ta y) (conj (rmod_AF a ta y) (conj (rmod_AI a ta z) (conj (pow_AF a ta y) (conj (pow_AA a ta b tb) (conj (pow_AF_zero_exp a ta) (conj (ipow_AF a ta y) (rpow_AF a ta y))))))))))))))))))))))))))))))))))))))))))).
Qed.

(* division / modulo by zero *)
Theorem C03_division_by_zero_ideal : forall a ta b tb y z,
  (Rabs b < tb -> Angle___truediv__ Rops (angT a ta) (angT b tb) = VErr ZeroDivisionError) /\
  Angle___truediv__ Rops (angT a ta) (VFloat 0) = VErr ZeroDivisionError /\
  Angle___truediv__ Rops (angT a ta) (VInt 0) = VErr ZeroDivisionError /\
  (Rabs b < tb -> Angle___itruediv__ Rops (angT a ta) (angT b tb) = VErr ZeroDivisionError) /\
  Angle___itruediv__ Rops (angT a ta) (VFloat 0) = VErr ZeroDivisionError /\
  (Rabs a < ta -> Angle___rtruediv__ Rops (angT a ta) (VFloat y) = VErr ZeroDivisionError) /\
  (Rabs a < ta -> Angle___rtruediv__ Rops (angT a ta) (VInt z) = VErr ZeroDivisionError) /\
  Angle___mod__ Rops (angT a ta) (VFloat 0) = VErr ZeroDivisionError.
Proof.
  intros a ta b tb y z.
  exact (conj (div_AA_zero a ta b tb) (conj (div_AF_zero a ta) (conj (div_AI_zero a ta)
        (conj (idiv_AA_zero a ta b tb) (conj (idiv_AF_zero a ta) (conj (rdiv_AF_zero a ta y)
        (conj (rdiv_AI_zero a ta z) (mod_AF_zero a ta)))))))).
Qed.

(* unary operators and comparisons *)
Theorem C03_unary_compare_ideal : forall a ta b tb y n,
  Angle___neg__ Rops (angT a ta) = ang (red360 (- a)) /\
  Angle___abs__ Rops (angT a ta) = ang (red360 (Rabs a)) /\
  Angle___round__ Rops (angT a ta) (VInt n) = ang (red360 (Rround_nd a n)) /\
  Angle___lt__ Rops (angT a ta) (angT b tb) = VBool (Rltb a b) /\
  Angle___lt__ Rops (angT a ta) (VFloat y) = VBool (Rltb a y) /\
  Angle___gt__ Rops (angT a ta) (angT b tb) = VBool (Rltb b a) /\
  Angle___gt__ Rops (angT a ta) (VFloat y) = VBool (Rltb y a) /\
  Angle___ge__ Rops (angT a ta) (angT b tb) = VBool (negb (Rltb a b)) /\
  Angle___le__ Rops (angT a ta) (angT b tb) = VBool (negb (Rltb b a)) /\
  Angle___eq__ Rops (angT a ta) (angT b tb) = VBool (Rltb (Rabs (a - b)) ta) /\
  Angle___eq__ Rops (angT a ta) (VFloat y) = VBool (Rltb (Rabs (a - y)) ta) /\
  Angle___ne__ Rops (angT a ta) (angT b tb) = VBool (negb (Rltb (Rabs (a - b)) ta)).
Proof.
  intros a ta b tb y n.
  exact (conj (neg_A a ta) (conj (abs_A a ta) (conj (round_A a ta n) (conj (lt_AA a ta b tb)
        (conj (lt_AF a ta y) (conj (gt_AA a ta b tb) (conj (gt_AF a ta y) (conj (ge_AA a ta b tb)
        (conj (le_AA a ta b tb) (conj (eq_AA a ta b tb) (conj (eq_AF a ta y) (ne_AA a ta b tb)))))))))))).
Qed.

(* positive form (the method returns the updated object twice: new self and result), radians, hours *)
Theorem C03_views_ideal : forall v t,
  (-360 < v < 360 ->
     Angle_to_positive Rops (angT v t) = VTuple [angT (pos360 v) t; angT (pos360 v) t] /\
     0 <= pos360 v < 360 /\ cong360 (pos360 v) v) /\
  Angle_rad Rops (angT v t) = VFloat (v * (PI / 180)) /\
  Angle_get_ra Rops (angT v t) = VFloat (v / 15) /\
  Angle___call__ Rops (angT v t) = VFloat v /\
  Angle___float__ Rops (angT v t) = VFloat v.
Proof.
  intros v t. split.
  - intro Hv. split; [apply to_positive_ideal; assumption|]. split; [apply pos360_range; assumption | apply pos360_cong].
  - exact (conj (rad_ideal v t) (conj (get_ra_ideal v t) (conj (call_ideal v t) (float_ideal v t)))).
Qed.

(* sexagesimal input (pieces given as floats) *)
Theorem C03_sexagesimal_ideal :
  (* reduce_dms is the explicit branch function C03_dms.dms_spec of the absolute values, for ALL
     real pieces (fractional, overflowing), with sign -1 iff any piece is negative.
     NOTE: dms_spec TRANSCRIBES the branches of the code (same Rfmod / Rtrunc steps): this part pins
     the code and gives result shape + sign rule, it is NOT an independent specification of the
     value.  The independent value statements are part 3 below and C03_sexagesimal_canonical_ideal
     (canonical pieces only); for fractional / overflowing pieces none is proved. *)
  (forall d m s, Angle_reduce_dms Rops (VFloat d) (VFloat m) (VFloat s) = dms_tuple d m s) /\
  (* dms2deg = reduction of sign * (D + M/60 + c/3600) *)
  (forall d m s D M c sg,
     Angle_reduce_dms Rops (VFloat d) (VFloat m) (VFloat s) = VTuple [VInt D; VInt M; VFloat c; VFloat sg] ->
     Angle_dms2deg Rops (VFloat d) (VFloat m) (VFloat s) = VFloat (red360 (sg * (IZR D + IZR M / 60 + c / 3600)))) /\
  (* whole degrees, whole minutes < 60, seconds < 60: +-(|d| + |m|/60 + |s|/3600) reduced,
     negative iff a piece is negative (this includes (0, -m, s)) *)
  (forall d m s n k, Rabs d = IZR n -> Rabs m = IZR k -> (k < 60)%Z -> Rabs s < 60 ->
     Angle_dms2deg Rops (VFloat d) (VFloat m) (VFloat s) = VFloat (red360 (sign_of_pieces d m s * dms_abs d m s))) /\
  (* separate arguments = tuple = list; hours: times 15 and reduced again *)
  (forall d m s r, Angle_dms2deg Rops (VFloat d) (VFloat m) (VFloat s) = VFloat r ->
     mkA [VFloat d; VFloat m; VFloat s] = ang r /\
     mkA [VTuple [VFloat d; VFloat m; VFloat s]] = ang r /\
     mkA [VList [VFloat d; VFloat m; VFloat s]] = ang r /\
     mkA_kw [VFloat d; VFloat m; VFloat s] "ra" = ang (red360 (r * 15))) /\
  (forall d m r, Angle_dms2deg Rops (VFloat d) (VFloat m) (VFloat (Rlit 0 (-1))) = VFloat r ->
     mkA [VFloat d; VFloat m] = ang r /\
     mkA [VTuple [VFloat d; VFloat m]] = ang r /\
     mkA [VList [VFloat d; VFloat m]] = ang r).
Proof.
  exact (conj reduce_dms_ideal (conj dms2deg_from_tuple (conj dms2deg_canonical (conj forms3 forms2)))).
Qed.

(* End-to-end, against the independent formula only (no dms_spec, no abstract hypothesis): the
   constructor on CANONICAL sexagesimal pieces - whole degrees, whole minutes < 60, seconds < 60 -
   given as ints (Angle(12, 30, 15), Angle(0, -30, 0)), as ints with float seconds
   (Angle(12, 30, 15.5)) or as floats holding whole degrees / minutes: the Angle holds
   red360 (+-(|d| + |m|/60 + |s|/3600)), negative iff any piece is negative; tuple and list forms
   and the hours form (x 15, reduced again) likewise. *)
Theorem C03_sexagesimal_canonical_ideal :
  (forall d m s : Z, (Z.abs m < 60)%Z -> (Z.abs s < 60)%Z ->
     let v := red360 (neg3Z d m s * (IZR (Z.abs d) + IZR (Z.abs m) / 60 + IZR (Z.abs s) / 3600)) in
     Angle_dms2deg Rops (VInt d) (VInt m) (VInt s) = VFloat v /\
     mkA [VInt d; VInt m; VInt s] = ang v /\
     mkA [VTuple [VInt d; VInt m; VInt s]] = ang v /\
     mkA [VList [VInt d; VInt m; VInt s]] = ang v /\
     mkA_kw [VInt d; VInt m; VInt s] "ra" = ang (red360 (v * 15))) /\
  (forall (d m : Z) (s : R), (Z.abs m < 60)%Z -> Rabs s < 60 ->
     let v := red360 (neg3 d m s * (IZR (Z.abs d) + IZR (Z.abs m) / 60 + Rabs s / 3600)) in
     Angle_dms2deg Rops (VInt d) (VInt m) (VFloat s) = VFloat v /\
     mkA [VInt d; VInt m; VFloat s] = ang v /\
     mkA [VTuple [VInt d; VInt m; VFloat s]] = ang v /\
     mkA [VList [VInt d; VInt m; VFloat s]] = ang v /\
     mkA_kw [VInt d; VInt m; VFloat s] "ra" = ang (red360 (v * 15))) /\
  (forall (d m s : R) (n k : Z), Rabs d = IZR n -> Rabs m = IZR k -> (k < 60)%Z -> Rabs s < 60 ->
     let v := red360 (sign_of_pieces d m s * dms_abs d m s) in
     mkA [VFloat d; VFloat m; VFloat s] = ang v /\
     mkA [VTuple [VFloat d; VFloat m; VFloat s]] = ang v /\
     mkA [VList [VFloat d; VFloat m; VFloat s]] = ang v /\
     mkA_kw [VFloat d; VFloat m; VFloat s] "ra" = ang (red360 (v * 15))).
Proof.
  split; [|split].
  - intros d m s Hm Hs v. pose proof (dms2deg_int_int d m s Hm Hs) as H.
    split; [exact H | exact (forms3_III d m s _ H)].
  - intros d m s Hm Hs v. pose proof (dms2deg_int_float d m s Hm Hs) as H.
    split; [exact H | exact (forms3_IIF d m s _ H)].
  - intros d m s n k Hd Hmm Hk Hs v.
    exact (forms3 d m s _ (dms2deg_canonical d m s n k Hd Hmm Hk Hs)).
Qed.

(* further operator forms: % by a positive int; zero modulus in every form; <= >= != against a float *)
Theorem C03_operators_more_ideal : forall a ta tb y p,
  Angle___mod__ Rops (angT a ta) (VInt (Z.pos p)) = ang (red360 (sgn a * Rfmod (Rabs a) (IZR (Z.pos p)))) /\
  Angle___imod__ Rops (angT a ta) (VFloat 0) = VErr ZeroDivisionError /\
  Angle___mod__ Rops (angT a ta) (VInt 0) = VErr ZeroDivisionError /\
  Angle___mod__ Rops (angT a ta) (angT 0 tb) = VErr ZeroDivisionError /\
  Angle___rmod__ Rops (angT 0 ta) (VFloat y) = VErr ZeroDivisionError /\
  Angle___ge__ Rops (angT a ta) (VFloat y) = VBool (negb (Rltb a y)) /\
  Angle___le__ Rops (angT a ta) (VFloat y) = VBool (negb (Rltb y a)) /\
  Angle___ne__ Rops (angT a ta) (VFloat y) = VBool (negb (Rltb (Rabs (a - y)) ta)).
Proof.
  intros a ta tb y p.
  exact (conj (mod_AI a ta p) (conj (imod_AF_zero a ta) (conj (mod_AI_zero a ta) (conj (mod_AA_zero a ta tb)
        (conj (rmod_AF_zero ta y) (conj (ge_AF a ta y) (conj (le_AF a ta y) (ne_AF a ta y)))))))).
Qed.

(* binary64 instance on the explicit finite grid (see C03_grid.v for the checkers and the grid) *)
Theorem C03_grid_b64 :
  (forall k, (-40 <= k <= 40)%Z -> C03_grid.chk_k k = true) /\
  (forall x, In x C03_grid.misc_floats -> C03_grid.chk_float x = true) /\
  (forall z, In z C03_grid.misc_ints -> C03_grid.chk_int z = true) /\
  (forall v, In v C03_grid.pos_floats -> C03_grid.chk_pos v = true) /\
  (forall t, In t C03_grid.dms_triples -> C03_grid.chk_dms t = true) /\
  (forall x, In x C03_grid.ra_floats -> C03_grid.chk_ra x = true).
Proof. exact C03_grid.grid_b64. Qed.

(* binary64 instance, EVERY finite float (proof by w-C11 on lib/B64Verified.v, Flocq bridge):
   reduce_deg returns a finite float whose real value RV r = B2R (Prim2B r) is EXACTLY red360 of the
   value of x - no rounding - hence strictly inside (-360, 360) with the sign of x *)
Theorem C03_reduce_deg_b64 : forall x : PrimFloat.float, B64Verified.fin x ->
  exists r, Angle_reduce_deg B64.B0 (VFloat x) = VFloat r /\ B64Verified.fin r /\
            B64Verified.RV r = red360 (B64Verified.RV x) /\
            Rabs (B64Verified.RV r) < 360 /\
            (0 <= B64Verified.RV x -> 0 <= B64Verified.RV r) /\
            (B64Verified.RV x <= 0 -> B64Verified.RV r <= 0).
Proof.
  intros x Fx. destruct (C03_reduce_b64.reduce_deg_b64_exact x Fx) as (r & E & Fr & Hr).
  destruct (C03_reduce_b64.reduce_deg_b64_range x Fx) as (r' & E' & _ & Hb & Hp & Hn).
  assert (r' = r) by congruence. subst r'.
  exists r. repeat split; assumption.
Qed.

(* binary64 instance, EVERY finite float x: the constructor Angle(x) stores reduce_deg(x), whose real
   value is exactly red360 (value of x): strictly inside (-360, 360), sign of x (tol64 = 1e-10) *)
Theorem C03_construct_b64 : forall x : PrimFloat.float, B64Verified.fin x ->
  exists r, Angle___init__ B64.B0 (VObj cAngle [VNone; VNone]) (VTuple [VFloat x]) (VDict [])
              = C03_b64.angb r C03_b64.tol64 /\
            B64Verified.fin r /\ B64Verified.RV r = red360 (B64Verified.RV x) /\
            Rabs (B64Verified.RV r) < 360 /\
            (0 <= B64Verified.RV x -> 0 <= B64Verified.RV r) /\
            (B64Verified.RV x <= 0 -> B64Verified.RV r <= 0).
Proof. exact C03_b64.construct_b64. Qed.

(* binary64 instance, EVERY finite stored value d in (-360, 360): to_positive returns the angle holding r
   with 0 <= r < 360; d >= 0 is kept; for d < 0, r is the correctly rounded 360 + d, except that a
   rounding up to 360.0 (only for -2^-45 <= d < 0, e.g. -1e-20) is clamped to 0.0; so r is congruent to
   d modulo 360 up to half an ulp of 360 (2^-45 = 2.8e-14 degree) *)
Theorem C03_to_positive_b64 : forall d t0 : PrimFloat.float, B64Verified.fin d ->
  -360 < B64Verified.RV d < 360 ->
  exists r, Angle_to_positive B64.B0 (C03_b64.angb d t0) = VTuple [C03_b64.angb r t0; C03_b64.angb r t0] /\
            B64Verified.fin r /\ 0 <= B64Verified.RV r < 360 /\
            (0 <= B64Verified.RV d -> r = d) /\
            (B64Verified.RV d < 0 ->
               ((B64Verified.RV r = B64Verified.RN (360 + B64Verified.RV d) /\ B64Verified.RN (360 + B64Verified.RV d) < 360) \/
                (B64Verified.RV r = 0 /\ B64Verified.RN (360 + B64Verified.RV d) = 360 /\
                 - Raux.bpow Zaux.radix2 (-45) <= B64Verified.RV d)) /\
               (Rabs (B64Verified.RV r - (B64Verified.RV d + 360)) <= Raux.bpow Zaux.radix2 (-45) \/
                Rabs (B64Verified.RV r - B64Verified.RV d) <= Raux.bpow Zaux.radix2 (-45))).
Proof. exact C03_b64.to_positive_b64. Qed.

(* binary64 instance, EVERY finite float x (hours): set_ra(x) stores red360 of the ONE rounded product
   RN(red360(x) * 15): both reductions are exact, the only rounding is the multiplication by 15, whose
   error is at most 2^-41 degree (4.5e-13) *)
Theorem C03_set_ra_b64 : forall x d0 t0 : PrimFloat.float, B64Verified.fin x ->
  exists r, Angle_set_ra B64.B0 (C03_b64.angb d0 t0) (VTuple [VFloat x]) = VTuple [C03_b64.angb r t0; VNone] /\
            B64Verified.fin r /\
            B64Verified.RV r = red360 (B64Verified.RN (red360 (B64Verified.RV x) * 15)) /\
            Rabs (B64Verified.RV r) < 360 /\
            Rabs (B64Verified.RN (red360 (B64Verified.RV x) * 15) - red360 (B64Verified.RV x) * 15)
              <= Raux.bpow Zaux.radix2 (-41).
Proof. exact C03_ra_b64.set_ra_b64. Qed.

(* binary64 instance, EVERY pair of finite floats a, b stored in Angles (|a|, |b| < 360, any
   tolerances ta tb): Angle + Angle, Angle - Angle and their in-place forms return a NEW Angle with
   the default tolerance holding r with  RV r = red360 (RN v),  v the exact real sum / difference:
   ONE IEEE rounding (never an overflow), then the exact reduction; r is finite, strictly inside
   (-360, 360), has the sign of the rounded result, and is congruent modulo 360 to the EXACT real v
   within 2^-44 degree < 1e-9 degree (the property's tolerance).  The operators are pure functions of
   immutable values in the model, so the operands cannot change. *)
Theorem C03_addsub_b64 : forall a ta b tb : PrimFloat.float,
  B64Verified.fin a -> B64Verified.fin b ->
  Rabs (B64Verified.RV a) < 360 -> Rabs (B64Verified.RV b) < 360 ->
  let A := C03_b64.angb a ta in let B := C03_b64.angb b tb in
  let good (res : val PrimFloat.float) (v : R) :=
    exists (r : PrimFloat.float) (k : Z),
      res = C03_b64.angb r C03_b64.tol64 /\ B64Verified.fin r /\ Rabs (B64Verified.RV r) < 360 /\
      B64Verified.RV r = red360 (B64Verified.RN v) /\
      (0 <= B64Verified.RN v -> 0 <= B64Verified.RV r) /\ (B64Verified.RN v <= 0 -> B64Verified.RV r <= 0) /\
      Rabs (B64Verified.RV r - (v + 360 * IZR k)) <= Raux.bpow Zaux.radix2 (-44) in
  good (Angle___add__ B64.B0 A B) (B64Verified.RV a + B64Verified.RV b) /\
  good (Angle___iadd__ B64.B0 A B) (B64Verified.RV a + B64Verified.RV b) /\
  good (Angle___sub__ B64.B0 A B) (B64Verified.RV a - B64Verified.RV b) /\
  good (Angle___isub__ B64.B0 A B) (B64Verified.RV a - B64Verified.RV b) /\
  Raux.bpow Zaux.radix2 (-44) < 1 / 1000000000.
Proof.
  intros a ta b tb Fa Fb Ha Hb A B good.
  destruct (C03_ops_b64.addsub_AA_b64 a ta b tb Fa Fb Ha Hb) as (H1 & H2 & H3 & H4).
  exact (conj H1 (conj H2 (conj H3 (conj H4 C03_ops_b64.bpow_m44_small)))).
Qed.

(* binary64 instance, every finite Angle value a (any tolerance) and every finite scalar: float y,
   int z with |z| <= 2^53, or a second Angle b.  ok res v  (C03_ops_b64.op_ok) says:
     res = a NEW Angle, default tolerance, holding a finite r with RV r = red360 (RN v), |RV r| < 360,
     sign of RN v  -  one IEEE rounding of the exact real operation v, then the exact reduction -
     AND there is an integer k with |RV r - (v + 360 k)| <= 1e-9 * max(1, |v|): congruent modulo 360
     to the EXACT real result within the property's tolerance (|RN v - v| <= 2^-53 |v| + 2^-1075).
   Hypothesis nov v (C03_ops_b64.no_overflow): |RN v| < 2^1024, i.e. the IEEE operation does not
   overflow.  If it does overflow, the operator raises OverflowError (last two conjuncts; Angle(inf)
   calls int(inf)); a non-finite value is never stored.  Division by zero: C03_division_by_zero_b64. *)
Theorem C03_operators_b64 : forall a ta : PrimFloat.float, B64Verified.fin a ->
  let ok := C03_ops_b64.op_ok in let nov := C03_ops_b64.no_overflow in
  let RV := B64Verified.RV in let fin := B64Verified.fin in let A := C03_b64.angb a ta in
  (forall y, fin y -> nov (RV a + RV y) ->
     ok (Angle___add__ B64.B0 A (VFloat y)) (RV a + RV y) /\ ok (Angle___radd__ B64.B0 A (VFloat y)) (RV a + RV y) /\
     ok (Angle___iadd__ B64.B0 A (VFloat y)) (RV a + RV y)) /\
  (forall z, (Z.abs z <= 9007199254740992)%Z -> nov (RV a + IZR z) ->
     ok (Angle___add__ B64.B0 A (VInt z)) (RV a + IZR z) /\ ok (Angle___radd__ B64.B0 A (VInt z)) (RV a + IZR z) /\
     ok (Angle___iadd__ B64.B0 A (VInt z)) (RV a + IZR z)) /\
  (forall y, fin y -> nov (RV a - RV y) ->
     ok (Angle___sub__ B64.B0 A (VFloat y)) (RV a - RV y) /\ ok (Angle___isub__ B64.B0 A (VFloat y)) (RV a - RV y)) /\
  (* y - a = -(a - y): the stored float is the negation of the one for a - y *)
  (forall y, fin y -> nov (RV a - RV y) ->
     exists r, Angle___rsub__ B64.B0 A (VFloat y) = C03_b64.angb (PrimFloat.opp r) C03_b64.tol64 /\ fin (PrimFloat.opp r) /\
               RV (PrimFloat.opp r) = - red360 (B64Verified.RN (RV a - RV y)) /\ Rabs (RV (PrimFloat.opp r)) < 360) /\
  (forall b tb, fin b -> nov (RV a * RV b) ->
     ok (Angle___mul__ B64.B0 A (C03_b64.angb b tb)) (RV a * RV b) /\ ok (Angle___imul__ B64.B0 A (C03_b64.angb b tb)) (RV a * RV b)) /\
  (forall y, fin y -> nov (RV a * RV y) ->
     ok (Angle___mul__ B64.B0 A (VFloat y)) (RV a * RV y) /\ ok (Angle___rmul__ B64.B0 A (VFloat y)) (RV a * RV y) /\
     ok (Angle___imul__ B64.B0 A (VFloat y)) (RV a * RV y)) /\
  (forall z, (Z.abs z <= 9007199254740992)%Z -> nov (RV a * IZR z) ->
     ok (Angle___mul__ B64.B0 A (VInt z)) (RV a * IZR z) /\ ok (Angle___rmul__ B64.B0 A (VInt z)) (RV a * IZR z) /\
     ok (Angle___imul__ B64.B0 A (VInt z)) (RV a * IZR z)) /\
  (forall y, fin y -> RV y <> 0 -> nov (RV a / RV y) ->
     ok (Angle___truediv__ B64.B0 A (VFloat y)) (RV a / RV y) /\ ok (Angle___itruediv__ B64.B0 A (VFloat y)) (RV a / RV y)) /\
  (forall b tb, fin b -> fin tb -> RV tb <= Rabs (RV b) -> RV b <> 0 -> nov (RV a / RV b) ->
     ok (Angle___truediv__ B64.B0 A (C03_b64.angb b tb)) (RV a / RV b) /\
     ok (Angle___itruediv__ B64.B0 A (C03_b64.angb b tb)) (RV a / RV b)) /\
  (forall y, fin y -> fin ta -> RV ta <= Rabs (RV a) -> RV a <> 0 -> nov (RV y / RV a) ->
     ok (Angle___rtruediv__ B64.B0 A (VFloat y)) (RV y / RV a)) /\
  (forall y, (PrimFloat.mul a y = PrimFloat.infinity \/ PrimFloat.mul a y = PrimFloat.neg_infinity) ->
     Angle___mul__ B64.B0 A (VFloat y) = VErr OverflowError) /\
  (forall y, PrimFloat.eqb y PrimFloat.zero = false -> (PrimFloat.div a y = PrimFloat.infinity \/ PrimFloat.div a y = PrimFloat.neg_infinity) ->
     Angle___truediv__ B64.B0 A (VFloat y) = VErr OverflowError).
Proof.
  intros a ta Fa ok nov RV fin A.
  split; [exact (C03_ops_b64.add_AF_real a ta Fa)|].
  split; [exact (C03_ops_b64.add_AI_real a ta Fa)|].
  split; [exact (C03_ops_b64.sub_AF_real a ta Fa)|].
  split; [exact (C03_ops_b64.rsub_AF_real a ta Fa)|].
  split; [exact (C03_ops_b64.mul_AA_real a ta Fa)|].
  split; [exact (C03_ops_b64.mul_AF_real a ta Fa)|].
  split; [exact (C03_ops_b64.mul_AI_real a ta Fa)|].
  split; [exact (C03_ops_b64.div_AF_real a ta Fa)|].
  split; [exact (C03_ops_b64.div_AA_real a ta Fa)|].
  split; [exact (C03_ops_b64.rdiv_AF_real a ta Fa)|].
  split; [exact (C03_ops_b64.mul_AF_overflow a ta) | exact (C03_ops_b64.div_AF_overflow a ta)].
Qed.

(* binary64, zero divisors: a float equal to 0 (+0.0 or -0.0), an Angle whose |value| is below its
   tolerance; reflected: the Angle itself below its tolerance; unary - and abs return the same float
   negated / absolute (bit for bit) *)
Theorem C03_division_by_zero_b64 : forall a ta y b tb : PrimFloat.float, B64Verified.fin a ->
  (B64Verified.fin y -> B64Verified.RV y = 0 ->
     Angle___truediv__ B64.B0 (C03_b64.angb a ta) (VFloat y) = VErr ZeroDivisionError) /\
  (B64Verified.fin b -> B64Verified.fin tb -> Rabs (B64Verified.RV b) < B64Verified.RV tb ->
     Angle___truediv__ B64.B0 (C03_b64.angb a ta) (C03_b64.angb b tb) = VErr ZeroDivisionError) /\
  (B64Verified.fin ta -> Rabs (B64Verified.RV a) < B64Verified.RV ta ->
     Angle___rtruediv__ B64.B0 (C03_b64.angb a ta) (VFloat y) = VErr ZeroDivisionError) /\
  (Rabs (B64Verified.RV a) < 360 ->
     Angle___neg__ B64.B0 (C03_b64.angb a ta) = C03_b64.angb (PrimFloat.opp a) C03_b64.tol64 /\
     Angle___abs__ B64.B0 (C03_b64.angb a ta) = C03_b64.angb (PrimFloat.abs a) C03_b64.tol64).
Proof.
  intros a ta y b tb Fa.
  destruct (C03_ops_b64.div_zero_real a ta Fa y b tb) as (H1 & H2 & H3).
  split; [exact H1|]. split; [exact H2|]. split; [exact H3|].
  intro Ha. split; [exact (C03_ops_b64.neg_A_b64 a ta Fa Ha) | exact (C03_ops_b64.abs_A_b64 a ta Fa Ha)].
Qed.

Redirect "C03_reduce_deg_ideal.assumptions" Print Assumptions C03_reduce_deg_ideal.
Redirect "C03_reduction_spec.assumptions" Print Assumptions C03_reduction_spec.
Redirect "C03_construct_ideal.assumptions" Print Assumptions C03_construct_ideal.
Redirect "C03_sexagesimal_ideal.assumptions" Print Assumptions C03_sexagesimal_ideal.
Redirect "C03_operators_ideal.assumptions" Print Assumptions C03_operators_ideal.
Redirect "C03_division_by_zero_ideal.assumptions" Print Assumptions C03_division_by_zero_ideal.
Redirect "C03_unary_compare_ideal.assumptions" Print Assumptions C03_unary_compare_ideal.
Redirect "C03_views_ideal.assumptions" Print Assumptions C03_views_ideal.
Redirect "C03_grid_b64.assumptions" Print Assumptions C03_grid_b64.
Redirect "C03_reduce_deg_b64.assumptions" Print Assumptions C03_reduce_deg_b64.
Redirect "C03_construct_b64.assumptions" Print Assumptions C03_construct_b64.
Redirect "C03_to_positive_b64.assumptions" Print Assumptions C03_to_positive_b64.
Redirect "C03_sexagesimal_canonical_ideal.assumptions" Print Assumptions C03_sexagesimal_canonical_ideal.
Redirect "C03_operators_more_ideal.assumptions" Print Assumptions C03_operators_more_ideal.
Redirect "C03_set_ra_b64.assumptions" Print Assumptions C03_set_ra_b64.
Redirect "C03_addsub_b64.assumptions" Print Assumptions C03_addsub_b64.
Redirect "C03_operators_b64.assumptions" Print Assumptions C03_operators_b64.
Redirect "C03_division_by_zero_b64.assumptions" Print Assumptions C03_division_by_zero_b64.
