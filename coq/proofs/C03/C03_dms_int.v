(* C03: dms2deg on INTEGER degrees/minutes (canonical pieces: |m| < 60, |s| < 60; seconds float or int)
   = +-(|d| + |m|/60 + |s|/3600) reduced (AngleSpec.red360), negative iff any piece is negative.
   This is Angle(12, 30, 15), Angle(0, -30, 0), Angle(12, 30, 15.5).  Ideal instance. *)
From Coq Require Import Reals ZArith List Bool Lra Lia String.
From PyLib Require Import PyVal PyBuiltins Ideal IdealFacts Whnf PyEval.
From Spec Require Import AngleSpec.
From Gen Require Import M_base M_Angle.
From Proofs.C03 Require Import C03_defs C03_tac C03_reduce C03_dmsi C03_dms.
Import ListNotations.
Open Scope R_scope.

(* reduce_dms and reduce_deg abstracted (block list inherited from C03_dms / C03_construct style) *)
Ltac pyA_hook s tac ::=
  lazymatch s with
  | Angle_reduce_deg Rops (VFloat ?x) => rewrite (reduce_deg_float x)
  end.

Lemma dms2deg_from_tuple_IIF d m s D M c sg :
  Angle_reduce_dms Rops (VInt d) (VInt m) (VFloat s) = VTuple [VInt D; VInt M; VFloat c; VFloat sg] ->
  Angle_dms2deg Rops (VInt d) (VInt m) (VFloat s) = VFloat (red360 (sg * (IZR D + IZR M / 60 + c / 3600))).
Proof.
  intros H. pyrunA. Rlit_norm.
  replace (IZR D + IZR M / (600 / 10) + c / (36000 / 10)) with (IZR D + IZR M / 60 + c / 3600) by field.
  reflexivity.
Qed.
Lemma dms2deg_from_tuple_III d m s D M S sg :
  Angle_reduce_dms Rops (VInt d) (VInt m) (VInt s) = VTuple [VInt D; VInt M; VInt S; VFloat sg] ->
  Angle_dms2deg Rops (VInt d) (VInt m) (VInt s) = VFloat (red360 (sg * (IZR D + IZR M / 60 + IZR S / 3600))).
Proof.
  intros H. pyrunA. Rlit_norm.
  replace (IZR D + IZR M / (600 / 10) + IZR S / (36000 / 10)) with (IZR D + IZR M / 60 + IZR S / 3600) by field.
  reflexivity.
Qed.

Lemma neg3_pm d m s : neg3 d m s = 1 \/ neg3 d m s = -1.
Proof. unfold neg3. destruct (d <? 0)%Z, (m <? 0)%Z, (Rlt_dec s 0); auto. Qed.
Lemma neg3Z_pm d m s : neg3Z d m s = 1 \/ neg3Z d m s = -1.
Proof. unfold neg3Z. destruct (d <? 0)%Z, (m <? 0)%Z, (s <? 0)%Z; auto. Qed.

(* Angle.dms2deg(d, m, s), ints d m, float s *)
Theorem dms2deg_int_float d m s : (Z.abs m < 60)%Z -> Rabs s < 60 ->
  Angle_dms2deg Rops (VInt d) (VInt m) (VFloat s) =
  VFloat (red360 (neg3 d m s * (IZR (Z.abs d) + IZR (Z.abs m) / 60 + Rabs s / 3600))).
Proof.
  intros Hm Hs. pose proof (Rabs_pos s).
  rewrite (dms2deg_from_tuple_IIF _ _ _ _ _ _ _ (reduce_dms_IIF d m s Hm Hs)).
  f_equal. apply red360_canonical; [apply neg3_pm | lia | lia | lra].
Qed.

(* ... all ints *)
Theorem dms2deg_int_int d m s : (Z.abs m < 60)%Z -> (Z.abs s < 60)%Z ->
  Angle_dms2deg Rops (VInt d) (VInt m) (VInt s) =
  VFloat (red360 (neg3Z d m s * (IZR (Z.abs d) + IZR (Z.abs m) / 60 + IZR (Z.abs s) / 3600))).
Proof.
  intros Hm Hs.
  rewrite (dms2deg_from_tuple_III _ _ _ _ _ _ _ (reduce_dms_III d m s Hm Hs)).
  f_equal. apply red360_canonical; [apply neg3Z_pm | lia | lia |].
  split; [apply IZR_le; lia | apply IZR_lt; lia].
Qed.
