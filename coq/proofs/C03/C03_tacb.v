(* C03_tacb: B64Eval.b64run (copied) with one more step: the not yet evaluated arguments of a blocked
   (abstracted) callee are evaluated first; the hypothesis giving its value is then matched syntactically (conversion only as a last resort).  Only
   ordinary proofs are built. *)
From Coq Require Import ZArith Bool List.
From Coq Require Import Uint63 Floats.
From PyLib Require Import PyVal PyBuiltins B64 Whnf PyEval B64Eval.
Import ListNotations.

(* expose the primitive float operations behind the FloatOps projections of B0 *)
Ltac expose_B :=
  cbn [f_of_Z f_add f_sub f_mul f_div f_neg f_abs f_sqrt f_ltb f_leb f_eqb f_floor f_trunc
       f_fmod f_finite f_isnan f_lit f_round f_round_nd f_signbit f_pi f_deg2rad
       f_rad2deg B0 B64ops B64opsC zf f0].

Ltac b64runA :=
  whnf_lhs;
  lazymatch goal with
  | |- ?l = _ =>
    tryif is_canon l then expose_B else
    first [
      lazymatch l with
      | bind ?e ?k =>
          tryif is_canon e then
            lazymatch e with
            | VErr _ => rewrite (bind_err _ k)
            | _ => rewrite (bind_ok e k) by reflexivity; cbv beta
            end
          else
            (* call-by-value below the bind: innermost operator applications with canonical arguments
               first (the generated dispatch wrappers mention their arguments twice: plain weak-head
               evaluation of a nested Python expression of depth n costs 2^n) *)
            first [ progress (repeat (lazymatch goal with |- bind ?E _ = _ =>
                      match E with
                      | context [?f ?o ?a ?b] =>
                          lazymatch type of o with FloatOps _ => idtac end;
                          is_canon a; is_canon b;
                          lazymatch type of (f o a b) with val _ => idtac end;
                          let H := fresh "Hin" in
                          eassert (H : f o a b = _) by (b64runA; py_canon_refl); rewrite H; clear H
                      | context [?f ?o ?a (?g ?o)] =>       (* a module-level constant g_NAME O as operand *)
                          lazymatch type of o with FloatOps _ => idtac end;
                          lazymatch type of (g o) with val _ => idtac end;
                          let H := fresh "Hin" in
                          eassert (H : g o = _) by (b64runA; py_canon_refl); rewrite H; clear H
                      | context [?f ?o (?g ?o) ?b] =>
                          lazymatch type of o with FloatOps _ => idtac end;
                          lazymatch type of (g o) with val _ => idtac end;
                          let H := fresh "Hin" in
                          eassert (H : g o = _) by (b64runA; py_canon_refl); rewrite H; clear H
                      end end))
                  | let H := fresh "Hev" in
                    eassert (H : e = _) by (b64runA; py_canon_refl);
                    rewrite H; clear H ]
      | VTuple ?xs => first_noncanon xs ltac:(fun x =>
            let H := fresh "Hev" in
            eassert (H : x = _) by (b64runA; py_canon_refl); rewrite H; clear H)
      | VList ?xs => first_noncanon xs ltac:(fun x =>
            let H := fresh "Hev" in
            eassert (H : x = _) by (b64runA; py_canon_refl); rewrite H; clear H)
      | VObj _ ?xs => first_noncanon xs ltac:(fun x =>
            let H := fresh "Hev" in
            eassert (H : x = _) by (b64runA; py_canon_refl); rewrite H; clear H)
      | _ =>
          pose_stuck;
          lazymatch goal with
          | py_stuck := ?s |- _ =>
              clear py_stuck;
              lazymatch s with
              | bind ?e ?k =>
                  let H := fresh "Hev" in
                  eassert (H : bind e k = _) by (b64runA; py_canon_refl);
                  rewrite H; clear H
              | _ => lazymatch type of s with
                     | bool => b64_decide s
                     | _ => first [ match goal with H : s = _ |- _ => rewrite H end
                                  | b64A_eval_arg s
                                  | progress (autorewrite with b64run)
                                  | match goal with H : ?l = _ |- _ =>
                                      lazymatch type of l with val _ => idtac end;
                                      unify l s; change s with l; rewrite H end
                                  | idtac "b64runA: stuck on" s; fail ]
                     end
              end
          end
      end;
      b64runA
    | idtac ]
  end
(* s = f a1 .. an, a blocked call: evaluate its first argument of type val that is not canonical *)
with b64A_eval_arg s :=
  lazymatch s with
  | ?g ?a =>
      first [ b64A_eval_arg g
            | lazymatch type of a with
              | val _ =>
                  tryif is_canon a then fail else
                  (let H := fresh "Harg" in
                   eassert (H : a = _) by (b64runA; py_canon_refl);
                   rewrite H; clear H)
              end ]
  end.
