(* C03_ops_b64: binary64 instance, EVERY finite float: the operators + - * / of Angle (reflected and
   in-place forms included).  Each returns a NEW Angle (default tolerance) holding reduce_deg of the
   ONE IEEE-rounded operation on the stored values, i.e. exactly red360 (RN (a op b)): one rounding,
   then an exact reduction (C03_reduce_b64) - strictly inside (-360, 360), sign of the rounded result.
   RV x = real value of the float x, fin x = x is finite (PyLib.B64Verified), RN = round to nearest even.
   The operators are pure functions of immutable values in the model: operands cannot change. *)
From Coq Require Import ZArith Reals Lra Lia Bool List.
From Coq Require Import Uint63 Floats.
From Flocq Require Import Core BinarySingleNaN PrimFloat Relative.
From PyLib Require Import PyVal PyBuiltins B64 B64Verified B64Mono Whnf PyEval B64Eval.
From Spec Require Import AngleSpec.
From Gen Require Import M_base M_Angle.
From Proofs.C03 Require Import C03_tacb C03_reduce_b64 C03_opsb_a C03_b64.
Import ListNotations.
Open Scope R_scope.

Definition blankb : val PrimFloat.float := VObj cAngle [VNone; VNone].
Definition newA (x : PrimFloat.float) : val PrimFloat.float :=
  Angle___init__ B0 blankb (VTuple [VFloat x]) (VDict []).

(* Angle(x) for |x| < 360 stores x itself (same bits) *)
Lemma construct_small_b64 x : fin x -> Rabs (RV x) < 360 -> newA x = angb x tol64.
Proof.
  intros Fx Hx. pose proof (reduce_deg_small_b64 x Fx Hx) as H.
  unfold newA, blankb, Angle___init__. b64run. reflexivity.
Qed.

(* what every operator result satisfies, x being the rounded operation *)
Definition holds_red (r x : PrimFloat.float) : Prop :=
  fin r /\ RV r = red360 (RV x) /\ Rabs (RV r) < 360 /\
  (0 <= RV x -> 0 <= RV r) /\ (RV x <= 0 -> RV r <= 0).

Lemma newA_fin x : fin x -> exists r, newA x = angb r tol64 /\ holds_red r x.
Proof. intro F. destruct (construct_b64 x F) as (r & E & P). exists r. split; [exact E | exact P]. Qed.

(* Angle(+-inf) raises OverflowError (int(inf)); Angle(nan) stores nan - neither is reachable from
   finite operands through + - (|values| < 360) and only the infinities through * and / (overflow) *)
Lemma newA_inf : newA infinity = VErr OverflowError /\ newA neg_infinity = VErr OverflowError.
Proof. split; vm_compute; reflexivity. Qed.

From Ltac2 Require Ltac2.
Ltac2 Set Whnf.is_blocked as old := fun c =>
  Ltac2.Bool.or (old c) (Ltac2.Constr.equal c '@Angle___init__).

Ltac op_b64 F :=
  let r := fresh "r" in let E := fresh "E" in let P := fresh "P" in
  destruct (newA_fin _ F) as (r & E & P); unfold newA, blankb in E;
  exists r; split; [unfold angb; b64runA; reflexivity | exact P].

Lemma add_AA_b64 a ta b tb : fin (a + b)%float ->
  exists r, Angle___add__ B0 (angb a ta) (angb b tb) = angb r tol64 /\ holds_red r (a + b)%float.
Proof. intro F. op_b64 F. Qed.
Lemma add_AF_b64 a ta y : fin (a + y)%float ->
  exists r, Angle___add__ B0 (angb a ta) (VFloat y) = angb r tol64 /\ holds_red r (a + y)%float.
Proof. intro F. op_b64 F. Qed.
Lemma add_AI_b64 a ta z : fin (a + b64_of_Z z)%float ->
  exists r, Angle___add__ B0 (angb a ta) (VInt z) = angb r tol64 /\ holds_red r (a + b64_of_Z z)%float.
Proof. intro F. op_b64 F. Qed.
Lemma radd_AF_b64 a ta y : fin (a + y)%float ->
  exists r, Angle___radd__ B0 (angb a ta) (VFloat y) = angb r tol64 /\ holds_red r (a + y)%float.
Proof. intro F. op_b64 F. Qed.
Lemma radd_AI_b64 a ta z : fin (a + b64_of_Z z)%float ->
  exists r, Angle___radd__ B0 (angb a ta) (VInt z) = angb r tol64 /\ holds_red r (a + b64_of_Z z)%float.
Proof. intro F. op_b64 F. Qed.
Lemma iadd_AA_b64 a ta b tb : fin (a + b)%float ->
  exists r, Angle___iadd__ B0 (angb a ta) (angb b tb) = angb r tol64 /\ holds_red r (a + b)%float.
Proof. intro F. op_b64 F. Qed.
Lemma iadd_AF_b64 a ta y : fin (a + y)%float ->
  exists r, Angle___iadd__ B0 (angb a ta) (VFloat y) = angb r tol64 /\ holds_red r (a + y)%float.
Proof. intro F. op_b64 F. Qed.
Lemma iadd_AI_b64 a ta z : fin (a + b64_of_Z z)%float ->
  exists r, Angle___iadd__ B0 (angb a ta) (VInt z) = angb r tol64 /\ holds_red r (a + b64_of_Z z)%float.
Proof. intro F. op_b64 F. Qed.

(* multiplication *)
Lemma mul_AA_b64 a ta b tb : fin (a * b)%float ->
  exists r, Angle___mul__ B0 (angb a ta) (angb b tb) = angb r tol64 /\ holds_red r (a * b)%float.
Proof. intro F. op_b64 F. Qed.
Lemma mul_AF_b64 a ta y : fin (a * y)%float ->
  exists r, Angle___mul__ B0 (angb a ta) (VFloat y) = angb r tol64 /\ holds_red r (a * y)%float.
Proof. intro F. op_b64 F. Qed.
Lemma mul_AI_b64 a ta z : fin (a * b64_of_Z z)%float ->
  exists r, Angle___mul__ B0 (angb a ta) (VInt z) = angb r tol64 /\ holds_red r (a * b64_of_Z z)%float.
Proof. intro F. op_b64 F. Qed.
Lemma rmul_AF_b64 a ta y : fin (a * y)%float ->
  exists r, Angle___rmul__ B0 (angb a ta) (VFloat y) = angb r tol64 /\ holds_red r (a * y)%float.
Proof. intro F. op_b64 F. Qed.
Lemma rmul_AI_b64 a ta z : fin (a * b64_of_Z z)%float ->
  exists r, Angle___rmul__ B0 (angb a ta) (VInt z) = angb r tol64 /\ holds_red r (a * b64_of_Z z)%float.
Proof. intro F. op_b64 F. Qed.
Lemma imul_AA_b64 a ta b tb : fin (a * b)%float ->
  exists r, Angle___imul__ B0 (angb a ta) (angb b tb) = angb r tol64 /\ holds_red r (a * b)%float.
Proof. intro F. op_b64 F. Qed.
Lemma imul_AF_b64 a ta y : fin (a * y)%float ->
  exists r, Angle___imul__ B0 (angb a ta) (VFloat y) = angb r tol64 /\ holds_red r (a * y)%float.
Proof. intro F. op_b64 F. Qed.
Lemma imul_AI_b64 a ta z : fin (a * b64_of_Z z)%float ->
  exists r, Angle___imul__ B0 (angb a ta) (VInt z) = angb r tol64 /\ holds_red r (a * b64_of_Z z)%float.
Proof. intro F. op_b64 F. Qed.

(* subtraction with a number: a + (-y) *)
Lemma sub_AF_b64 a ta y : fin (a + - y)%float ->
  exists r, Angle___sub__ B0 (angb a ta) (VFloat y) = angb r tol64 /\ holds_red r (a + - y)%float.
Proof. intro F. op_b64 F. Qed.
Lemma sub_AI_b64 a ta z : fin (a + b64_of_Z (- z))%float ->
  exists r, Angle___sub__ B0 (angb a ta) (VInt z) = angb r tol64 /\ holds_red r (a + b64_of_Z (- z))%float.
Proof. intro F. op_b64 F. Qed.
Lemma isub_AF_b64 a ta y : fin (a + - y)%float ->
  exists r, Angle___isub__ B0 (angb a ta) (VFloat y) = angb r tol64 /\ holds_red r (a + - y)%float.
Proof. intro F. op_b64 F. Qed.

(* division by a float y, (y =? 0) false *)
Lemma div_AF_b64 a ta y : (y =? 0)%float = false -> fin (a / y)%float ->
  exists r, Angle___truediv__ B0 (angb a ta) (VFloat y) = angb r tol64 /\ holds_red r (a / y)%float.
Proof. intros Hy F. op_b64 F. Qed.
Lemma div_AA_b64 a ta b tb : (abs (b - 0) <? tb)%float = false -> (b =? 0)%float = false -> fin (a / b)%float ->
  exists r, Angle___truediv__ B0 (angb a ta) (angb b tb) = angb r tol64 /\ holds_red r (a / b)%float.
Proof. intros Hz Hb F. op_b64 F. Qed.
Lemma div_AI_b64 a ta z : (b64_of_Z z =? 0)%float = false -> fin (a / b64_of_Z z)%float ->
  exists r, Angle___truediv__ B0 (angb a ta) (VInt z) = angb r tol64 /\ holds_red r (a / b64_of_Z z)%float.
Proof. intros Hz F. op_b64 F. Qed.
Lemma idiv_AF_b64 a ta y : (y =? 0)%float = false -> fin (a / y)%float ->
  exists r, Angle___itruediv__ B0 (angb a ta) (VFloat y) = angb r tol64 /\ holds_red r (a / y)%float.
Proof. intros Hy F. op_b64 F. Qed.
Lemma idiv_AA_b64 a ta b tb : (abs (b - 0) <? tb)%float = false -> (b =? 0)%float = false -> fin (a / b)%float ->
  exists r, Angle___itruediv__ B0 (angb a ta) (angb b tb) = angb r tol64 /\ holds_red r (a / b)%float.
Proof. intros Hz Hb F. op_b64 F. Qed.
(* reflected: y / a, the Angle a not zero within its tolerance *)
Lemma rdiv_AF_b64 a ta y : (abs (a - 0) <? ta)%float = false -> (a =? 0)%float = false -> fin (y / a)%float ->
  exists r, Angle___rtruediv__ B0 (angb a ta) (VFloat y) = angb r tol64 /\ holds_red r (y / a)%float.
Proof. intros Hz Hb F. op_b64 F. Qed.
Lemma rdiv_AI_b64 a ta z : (abs (a - 0) <? ta)%float = false -> (a =? 0)%float = false -> fin (b64_of_Z z / a)%float ->
  exists r, Angle___rtruediv__ B0 (angb a ta) (VInt z) = angb r tol64 /\ holds_red r (b64_of_Z z / a)%float.
Proof. intros Hz Hb F. op_b64 F. Qed.
(* zero divisors *)
Lemma div_AF_zero_b64 a ta y : (y =? 0)%float = true ->
  Angle___truediv__ B0 (angb a ta) (VFloat y) = VErr ZeroDivisionError.
Proof. intros Hy. unfold angb. b64runA. reflexivity. Qed.
Lemma div_AA_zero_b64 a ta b tb : (abs (b - 0) <? tb)%float = true ->
  Angle___truediv__ B0 (angb a ta) (angb b tb) = VErr ZeroDivisionError.
Proof. intros Hy. unfold angb. b64runA. reflexivity. Qed.
Lemma rdiv_zero_b64 a ta y : (abs (a - 0) <? ta)%float = true ->
  Angle___rtruediv__ B0 (angb a ta) (VFloat y) = VErr ZeroDivisionError.
Proof. intros Hy. unfold angb. b64runA. reflexivity. Qed.

(* Angle - Angle: a + (-b), where -b is the new Angle(-b) = -b itself for |b| < 360 *)
Lemma sub_AA_b64 a ta b tb : fin b -> Rabs (RV b) < 360 -> fin (a + - b)%float ->
  exists r, Angle___sub__ B0 (angb a ta) (angb b tb) = angb r tol64 /\ holds_red r (a + - b)%float.
Proof.
  intros Fb Hb F.
  assert (newA (- b) = angb (- b) tol64) as N
    by (apply construct_small_b64; [apply opp_fin; exact Fb | rewrite opp_R, Rabs_Ropp; exact Hb]).
  unfold newA, blankb, angb in N. op_b64 F.
Qed.
Lemma isub_AA_b64 a ta b tb : fin b -> Rabs (RV b) < 360 -> fin (a + - b)%float ->
  exists r, Angle___isub__ B0 (angb a ta) (angb b tb) = angb r tol64 /\ holds_red r (a + - b)%float.
Proof.
  intros Fb Hb F.
  assert (newA (- b) = angb (- b) tol64) as N
    by (apply construct_small_b64; [apply opp_fin; exact Fb | rewrite opp_R, Rabs_Ropp; exact Hb]).
  unfold newA, blankb, angb in N. op_b64 F.
Qed.
(* y - a = -(a - y): the negation of the Angle holding reduce(a + (-y)) *)
Lemma rsub_AF_b64 a ta y : fin (a + - y)%float ->
  exists r, Angle___rsub__ B0 (angb a ta) (VFloat y) = angb (- r) tol64 /\ holds_red r (a + - y)%float.
Proof.
  intros F. destruct (newA_fin _ F) as (r & E & P). unfold newA, blankb in E.
  assert (newA (- r) = angb (- r) tol64) as N.
  { destruct P as (Fr & _ & Hr & _). apply construct_small_b64; [apply opp_fin; exact Fr | rewrite opp_R, Rabs_Ropp; exact Hr]. }
  unfold newA, blankb, angb in N, E.
  exists r. split; [unfold angb; b64runA; reflexivity | exact P].
Qed.
Lemma rsub_AI_b64 a ta z : fin (a + b64_of_Z (- z))%float ->
  exists r, Angle___rsub__ B0 (angb a ta) (VInt z) = angb (- r) tol64 /\ holds_red r (a + b64_of_Z (- z))%float.
Proof.
  intros F. destruct (newA_fin _ F) as (r & E & P). unfold newA, blankb in E.
  assert (newA (- r) = angb (- r) tol64) as N.
  { destruct P as (Fr & _ & Hr & _). apply construct_small_b64; [apply opp_fin; exact Fr | rewrite opp_R, Rabs_Ropp; exact Hr]. }
  unfold newA, blankb, angb in N, E.
  exists r. split; [unfold angb; b64runA; reflexivity | exact P].
Qed.
(* unary minus and abs of an Angle with |a| < 360: the same float negated / absolute *)
Lemma neg_A_b64 a ta : fin a -> Rabs (RV a) < 360 -> Angle___neg__ B0 (angb a ta) = angb (- a) tol64.
Proof.
  intros Fa Ha.
  assert (newA (- a) = angb (- a) tol64) as N
    by (apply construct_small_b64; [apply opp_fin; exact Fa | rewrite opp_R, Rabs_Ropp; exact Ha]).
  unfold newA, blankb, angb in *. b64runA. reflexivity.
Qed.
Lemma abs_A_b64 a ta : fin a -> Rabs (RV a) < 360 -> Angle___abs__ B0 (angb a ta) = angb (abs a) tol64.
Proof.
  intros Fa Ha.
  assert (newA (abs a) = angb (abs a) tol64) as N
    by (apply construct_small_b64; [apply abs_fin; exact Fa | rewrite abs_R, Rabs_Rabsolu; exact Ha]).
  unfold newA, blankb, angb in *. b64runA. reflexivity.
Qed.

(* =========================================================================================
   Real-value reading: the result holds exactly red360 (RN v), v the real operation. *)
(* one rounding: |RN v - v| <= 2^-53 |v| + 2^-1075 (Flocq error_N_FLT), which is below the property's
   tolerance 1e-9 * max(1, |v|) *)
Lemma RN_rel v : Rabs (RN v - v) <= bpow radix2 (-53) * Rabs v + bpow radix2 (-1075).
Proof.
  destruct (error_N_FLT radix2 (3 - emax - prec) prec Hprec (fun x => negb (Z.even x)) v)
    as (eps & eta & He & Ht & _ & E).
  change (round radix2 (FLT_exp (3 - emax - prec) prec) (Znearest (fun x => negb (Z.even x))) v) with (RN v) in E.
  rewrite E. replace (v * (1 + eps) + eta - v) with (v * eps + eta) by ring.
  eapply Rle_trans; [apply Rabs_triang|]. rewrite Rabs_mult.
  assert (bpow radix2 (-53) = / 2 * bpow radix2 (- prec + 1)) as E1
    by (change (-53)%Z with (-1 + (- prec + 1))%Z; rewrite (bpow_plus radix2 (-1) (- prec + 1)); reflexivity).
  assert (bpow radix2 (-1075) = / 2 * bpow radix2 (3 - emax - prec)) as E2
    by (change (-1075)%Z with (-1 + (3 - emax - prec))%Z; rewrite (bpow_plus radix2 (-1) (3 - emax - prec)); reflexivity).
  rewrite <- E1 in He. rewrite <- E2 in Ht.
  apply Rplus_le_compat; [|exact Ht].
  rewrite Rmult_comm. apply Rmult_le_compat_r; [apply Rabs_pos | exact He].
Qed.

Lemma bpow_m53_small : bpow radix2 (-53) <= 5 / 10000000000.
Proof.
  change (bpow radix2 (-53)) with (/ IZR (Z.pow_pos 2 53)). simpl.
  apply Rmult_le_reg_r with 9007199254740992; [lra|]. rewrite Rinv_l by lra. lra.
Qed.

Lemma RN_tol v : Rabs (RN v - v) <= 1 / 1000000000 * Rmax 1 (Rabs v).
Proof.
  eapply Rle_trans; [apply RN_rel|].
  pose proof bpow_m53_small as B1.
  assert (bpow radix2 (-1075) <= bpow radix2 (-53)) as B2 by (apply bpow_le; lia).
  pose proof (Rmax_l 1 (Rabs v)) as M1. pose proof (Rmax_r 1 (Rabs v)) as M2. pose proof (Rabs_pos v) as P.
  assert (bpow radix2 (-53) * Rabs v <= 5 / 10000000000 * Rabs v) by (apply Rmult_le_compat_r; assumption).
  lra.
Qed.

Definition op_ok (res : val PrimFloat.float) (v : R) : Prop :=
  exists r, res = angb r tol64 /\ fin r /\ RV r = red360 (RN v) /\ Rabs (RV r) < 360 /\
            (0 <= RN v -> 0 <= RV r) /\ (RN v <= 0 -> RV r <= 0) /\
            (* congruent modulo 360 to the EXACT real v within the property's tolerance *)
            exists k : Z, Rabs (RV r - (v + 360 * IZR k)) <= 1 / 1000000000 * Rmax 1 (Rabs v).
Definition no_overflow (v : R) : Prop := Rabs (RN v) < bpow radix2 emax.

Lemma holds_ok res r x v : res = angb r tol64 -> holds_red r x -> RV x = RN v -> op_ok res v.
Proof.
  intros E (Fr & Hr & Hb & Hp & Hn) Ex. rewrite Ex in *. exists r.
  split; [exact E|]. split; [exact Fr|]. split; [exact Hr|]. split; [exact Hb|]. split; [exact Hp|].
  split; [exact Hn|]. destruct (red360_cong (RN v)) as [k Hk]. exists (- k)%Z.
  rewrite opp_IZR, Hr. replace (red360 (RN v) - (v + 360 * - IZR k)) with (RN v - v) by lra.
  apply RN_tol.
Qed.

Ltac by_op L A :=
  let r := fresh "r" in let E := fresh "E" in let P := fresh "P" in
  destruct A as [Ax Fx]; destruct (L Fx) as (r & E & P); exact (holds_ok _ r _ _ E P Ax).

(* values of magnitude <= 720 never overflow, and rounding them moves them by <= 2^-44 *)
Lemma small_no_overflow v : Rabs v <= 720 -> no_overflow v.
Proof.
  intro H. apply RN_lt_emax. apply Rle_trans with (bpow radix2 10); [change (bpow radix2 10) with 1024; lra|].
  apply bpow_le. lia.
Qed.

Lemma RN_err_720 v : Rabs v <= 720 -> Rabs (RN v - v) <= bpow radix2 (-44).
Proof.
  intro Hv. eapply Rle_trans; [apply error_le_half_ulp; apply fexp64_valid|].
  assert (ulp radix2 fexp64 v <= bpow radix2 (-43)) as Hu.
  { apply Rle_trans with (ulp radix2 fexp64 720).
    { apply ulp_le; [apply fexp64_valid | apply fexp64_mono |]. rewrite (Rabs_pos_eq 720) by lra. exact Hv. }
    rewrite ulp_neq_0 by lra. unfold cexp.
    assert (mag radix2 720 = 10%Z :> Z) as ->.
    { apply mag_unique. rewrite Rabs_pos_eq by lra. change (bpow radix2 (10 - 1)) with 512. change (bpow radix2 10) with 1024. lra. }
    change (fexp64 10) with (-43)%Z. lra. }
  assert (bpow radix2 (-44) = / 2 * bpow radix2 (-43)) as ->
    by (change (-44)%Z with (-1 + -43)%Z; rewrite bpow_plus; reflexivity).
  pose proof (bpow_gt_0 radix2 (-43)). lra.
Qed.

(* 2^-44 degree is far below the property's 1e-9 degree *)
Lemma bpow_m44_small : bpow radix2 (-44) < 1 / 1000000000.
Proof.
  change (bpow radix2 (-44)) with (/ IZR (Z.pow_pos 2 44)). simpl.
  apply Rmult_lt_reg_r with 17592186044416; [lra|]. rewrite Rinv_l by lra. lra.
Qed.

(* congruence clause: the stored value is congruent mod 360 to the exact real v up to |RN v - v| *)
Lemma op_ok_cong res v : op_ok res v ->
  exists r k, res = angb r tol64 /\ RV r = v + (RN v - v) + 360 * IZR k.
Proof.
  intros (r & E & _ & Hr & _). destruct (red360_cong (RN v)) as [k Hk].
  exists r, (- k)%Z. split; [exact E|]. rewrite opp_IZR, Hr. lra.
Qed.

(* ---- float scalars and Angles: v = the real operation; hypothesis: no overflow *)
Section RealReading.
Variables a ta : PrimFloat.float.
Hypothesis Fa : fin a.

Lemma sub0 b : fin b -> RV (b - 0) = RV b /\ fin (b - 0).
Proof.
  intro Fb. destruct (sub_R b 0 Fb fin_zero) as [A B].
  { rewrite RV_zero, Rminus_0_r, RN_id. apply RV_lt_emax. }
  rewrite RV_zero, Rminus_0_r, RN_id in A. split; assumption.
Qed.
Lemma not_zero_tol b tb : fin b -> fin tb -> RV tb <= Rabs (RV b) -> (abs (b - 0) <? tb)%float = false.
Proof.
  intros Fb Ft H. destruct (sub0 b Fb) as [A B].
  rewrite (ltb_R _ _ (proj2 (abs_fin _) B) Ft), abs_R, A. apply Rlt_bool_false. exact H.
Qed.
Lemma zero_tol b tb : fin b -> fin tb -> Rabs (RV b) < RV tb -> (abs (b - 0) <? tb)%float = true.
Proof.
  intros Fb Ft H. destruct (sub0 b Fb) as [A B].
  rewrite (ltb_R _ _ (proj2 (abs_fin _) B) Ft), abs_R, A. apply Rlt_bool_true. exact H.
Qed.
Lemma eqb0_false y : fin y -> RV y <> 0 -> (y =? 0)%float = false.
Proof. intros Fy H. rewrite (eqb_R y 0 Fy fin_zero), RV_zero. apply Req_bool_false. exact H. Qed.
Lemma eqb0_true y : fin y -> RV y = 0 -> (y =? 0)%float = true.
Proof. intros Fy H. rewrite (eqb_R y 0 Fy fin_zero), RV_zero. apply Req_bool_true. exact H. Qed.

(* + *)
Lemma add_AA_real b tb : fin b -> no_overflow (RV a + RV b) ->
  op_ok (Angle___add__ B0 (angb a ta) (angb b tb)) (RV a + RV b) /\
  op_ok (Angle___iadd__ B0 (angb a ta) (angb b tb)) (RV a + RV b).
Proof.
  intros Fb H. split.
  - by_op (add_AA_b64 a ta b tb) (add_R a b Fa Fb H).
  - by_op (iadd_AA_b64 a ta b tb) (add_R a b Fa Fb H).
Qed.
Lemma add_AF_real y : fin y -> no_overflow (RV a + RV y) ->
  op_ok (Angle___add__ B0 (angb a ta) (VFloat y)) (RV a + RV y) /\
  op_ok (Angle___radd__ B0 (angb a ta) (VFloat y)) (RV a + RV y) /\
  op_ok (Angle___iadd__ B0 (angb a ta) (VFloat y)) (RV a + RV y).
Proof.
  intros Fy H. split; [|split].
  - by_op (add_AF_b64 a ta y) (add_R a y Fa Fy H).
  - by_op (radd_AF_b64 a ta y) (add_R a y Fa Fy H).
  - by_op (iadd_AF_b64 a ta y) (add_R a y Fa Fy H).
Qed.
Lemma add_AI_real z : (Z.abs z <= 9007199254740992)%Z -> no_overflow (RV a + IZR z) ->
  op_ok (Angle___add__ B0 (angb a ta) (VInt z)) (RV a + IZR z) /\
  op_ok (Angle___radd__ B0 (angb a ta) (VInt z)) (RV a + IZR z) /\
  op_ok (Angle___iadd__ B0 (angb a ta) (VInt z)) (RV a + IZR z).
Proof.
  intros Hz H. destruct (b64_of_Z_exact z Hz) as [Ez Fz]. rewrite <- Ez in H |- *. split; [|split].
  - by_op (add_AI_b64 a ta z) (add_R a _ Fa Fz H).
  - by_op (radd_AI_b64 a ta z) (add_R a _ Fa Fz H).
  - by_op (iadd_AI_b64 a ta z) (add_R a _ Fa Fz H).
Qed.

(* - *)
Lemma sub_AA_real b tb : fin b -> Rabs (RV b) < 360 -> no_overflow (RV a - RV b) ->
  op_ok (Angle___sub__ B0 (angb a ta) (angb b tb)) (RV a - RV b) /\
  op_ok (Angle___isub__ B0 (angb a ta) (angb b tb)) (RV a - RV b).
Proof.
  intros Fb Hb H. assert (fin (- b)) as Fn by (apply opp_fin; exact Fb).
  assert (RV a - RV b = RV a + RV (- b)) as Ev by (rewrite opp_R; reflexivity). rewrite Ev in H |- *.
  split.
  - by_op (sub_AA_b64 a ta b tb Fb Hb) (add_R a _ Fa Fn H).
  - by_op (isub_AA_b64 a ta b tb Fb Hb) (add_R a _ Fa Fn H).
Qed.
Lemma sub_AF_real y : fin y -> no_overflow (RV a - RV y) ->
  op_ok (Angle___sub__ B0 (angb a ta) (VFloat y)) (RV a - RV y) /\
  op_ok (Angle___isub__ B0 (angb a ta) (VFloat y)) (RV a - RV y).
Proof.
  intros Fy H. assert (fin (- y)) as Fn by (apply opp_fin; exact Fy).
  assert (RV a - RV y = RV a + RV (- y)) as Ev by (rewrite opp_R; reflexivity). rewrite Ev in H |- *.
  split.
  - by_op (sub_AF_b64 a ta y) (add_R a _ Fa Fn H).
  - by_op (isub_AF_b64 a ta y) (add_R a _ Fa Fn H).
Qed.
(* y - a: the negated Angle of a - y *)
Lemma rsub_AF_real y : fin y -> no_overflow (RV a - RV y) ->
  exists r, Angle___rsub__ B0 (angb a ta) (VFloat y) = angb (- r) tol64 /\ fin (- r) /\
            RV (- r) = - red360 (RN (RV a - RV y)) /\ Rabs (RV (- r)) < 360.
Proof.
  intros Fy H. assert (fin (- y)) as Fn by (apply opp_fin; exact Fy).
  assert (RV a - RV y = RV a + RV (- y)) as Ev by (rewrite opp_R; reflexivity). rewrite Ev in H |- *.
  destruct (add_R a _ Fa Fn H) as [Ax Fx]. destruct (rsub_AF_b64 a ta y Fx) as (r & E & Fr & Hr & Hb & _).
  exists r. split; [exact E|]. split; [apply opp_fin; exact Fr|]. rewrite opp_R, Hr, Ax, Rabs_Ropp.
  split; [reflexivity|]. rewrite <- Ax, <- Hr. exact Hb.
Qed.

(* * *)
Lemma mul_AA_real b tb : fin b -> no_overflow (RV a * RV b) ->
  op_ok (Angle___mul__ B0 (angb a ta) (angb b tb)) (RV a * RV b) /\
  op_ok (Angle___imul__ B0 (angb a ta) (angb b tb)) (RV a * RV b).
Proof.
  intros Fb H. split.
  - by_op (mul_AA_b64 a ta b tb) (mul_R a b Fa Fb H).
  - by_op (imul_AA_b64 a ta b tb) (mul_R a b Fa Fb H).
Qed.
Lemma mul_AF_real y : fin y -> no_overflow (RV a * RV y) ->
  op_ok (Angle___mul__ B0 (angb a ta) (VFloat y)) (RV a * RV y) /\
  op_ok (Angle___rmul__ B0 (angb a ta) (VFloat y)) (RV a * RV y) /\
  op_ok (Angle___imul__ B0 (angb a ta) (VFloat y)) (RV a * RV y).
Proof.
  intros Fy H. split; [|split].
  - by_op (mul_AF_b64 a ta y) (mul_R a y Fa Fy H).
  - by_op (rmul_AF_b64 a ta y) (mul_R a y Fa Fy H).
  - by_op (imul_AF_b64 a ta y) (mul_R a y Fa Fy H).
Qed.
Lemma mul_AI_real z : (Z.abs z <= 9007199254740992)%Z -> no_overflow (RV a * IZR z) ->
  op_ok (Angle___mul__ B0 (angb a ta) (VInt z)) (RV a * IZR z) /\
  op_ok (Angle___rmul__ B0 (angb a ta) (VInt z)) (RV a * IZR z) /\
  op_ok (Angle___imul__ B0 (angb a ta) (VInt z)) (RV a * IZR z).
Proof.
  intros Hz H. destruct (b64_of_Z_exact z Hz) as [Ez Fz]. rewrite <- Ez in H |- *. split; [|split].
  - by_op (mul_AI_b64 a ta z) (mul_R a _ Fa Fz H).
  - by_op (rmul_AI_b64 a ta z) (mul_R a _ Fa Fz H).
  - by_op (imul_AI_b64 a ta z) (mul_R a _ Fa Fz H).
Qed.

(* / *)
Lemma div_AF_real y : fin y -> RV y <> 0 -> no_overflow (RV a / RV y) ->
  op_ok (Angle___truediv__ B0 (angb a ta) (VFloat y)) (RV a / RV y) /\
  op_ok (Angle___itruediv__ B0 (angb a ta) (VFloat y)) (RV a / RV y).
Proof.
  intros Fy Hy H. pose proof (eqb0_false y Fy Hy) as C. split.
  - by_op (div_AF_b64 a ta y C) (div_R a y Fa Fy Hy H).
  - by_op (idiv_AF_b64 a ta y C) (div_R a y Fa Fy Hy H).
Qed.
Lemma div_AA_real b tb : fin b -> fin tb -> RV tb <= Rabs (RV b) -> RV b <> 0 -> no_overflow (RV a / RV b) ->
  op_ok (Angle___truediv__ B0 (angb a ta) (angb b tb)) (RV a / RV b) /\
  op_ok (Angle___itruediv__ B0 (angb a ta) (angb b tb)) (RV a / RV b).
Proof.
  intros Fb Ft Ht Hb H. pose proof (eqb0_false b Fb Hb) as C. pose proof (not_zero_tol b tb Fb Ft Ht) as C'. split.
  - by_op (div_AA_b64 a ta b tb C' C) (div_R a b Fa Fb Hb H).
  - by_op (idiv_AA_b64 a ta b tb C' C) (div_R a b Fa Fb Hb H).
Qed.
Lemma rdiv_AF_real y : fin y -> fin ta -> RV ta <= Rabs (RV a) -> RV a <> 0 -> no_overflow (RV y / RV a) ->
  op_ok (Angle___rtruediv__ B0 (angb a ta) (VFloat y)) (RV y / RV a).
Proof.
  intros Fy Ft Ht Ha H. pose proof (eqb0_false a Fa Ha) as C. pose proof (not_zero_tol a ta Fa Ft Ht) as C'.
  by_op (rdiv_AF_b64 a ta y C' C) (div_R y a Fy Fa Ha H).
Qed.
Lemma div_zero_real y b tb : 
  (fin y -> RV y = 0 -> Angle___truediv__ B0 (angb a ta) (VFloat y) = VErr ZeroDivisionError) /\
  (fin b -> fin tb -> Rabs (RV b) < RV tb -> Angle___truediv__ B0 (angb a ta) (angb b tb) = VErr ZeroDivisionError) /\
  (fin ta -> Rabs (RV a) < RV ta -> Angle___rtruediv__ B0 (angb a ta) (VFloat y) = VErr ZeroDivisionError).
Proof.
  split; [|split].
  - intros Fy Hy. apply div_AF_zero_b64. apply eqb0_true; assumption.
  - intros Fb Ft H. apply div_AA_zero_b64. apply zero_tol; assumption.
  - intros Ft H. apply rdiv_zero_b64. apply zero_tol; assumption.
Qed.
End RealReading.

(* overflow, stated explicitly: when the IEEE product / quotient is an infinity the operator raises
   OverflowError (reduce_deg calls int(inf)); nothing non-finite is ever stored *)
Lemma mul_AF_overflow a ta y : (a * y)%float = infinity \/ (a * y)%float = neg_infinity ->
  Angle___mul__ B0 (angb a ta) (VFloat y) = VErr OverflowError.
Proof.
  intros H. assert (newA (a * y) = VErr OverflowError) as N by (destruct H as [-> | ->]; [exact (proj1 newA_inf) | exact (proj2 newA_inf)]).
  unfold newA, blankb in N. unfold angb. b64runA. reflexivity.
Qed.
Lemma div_AF_overflow a ta y : (y =? 0)%float = false -> (a / y)%float = infinity \/ (a / y)%float = neg_infinity ->
  Angle___truediv__ B0 (angb a ta) (VFloat y) = VErr OverflowError.
Proof.
  intros Hy H. assert (newA (a / y) = VErr OverflowError) as N by (destruct H as [-> | ->]; [exact (proj1 newA_inf) | exact (proj2 newA_inf)]).
  unfold newA, blankb in N. unfold angb. b64runA. reflexivity.
Qed.

(* + and - of two Angles (stored values in (-360, 360)): never overflow; the result is congruent
   modulo 360 to the exact real sum / difference up to ONE rounding error <= 2^-44 degree
   (< 1e-9 degree: bpow_m44_small) *)
Definition op_ok_err (res : val PrimFloat.float) (v eps : R) : Prop :=
  exists r k, res = angb r tol64 /\ fin r /\ Rabs (RV r) < 360 /\ RV r = red360 (RN v) /\
              (0 <= RN v -> 0 <= RV r) /\ (RN v <= 0 -> RV r <= 0) /\
              Rabs (RV r - (v + 360 * IZR k)) <= eps.

Lemma ok_err res v : Rabs v <= 720 -> op_ok res v -> op_ok_err res v (bpow radix2 (-44)).
Proof.
  intros Hv (r & E & Fr & Hr & Hb & Hp & Hn & _). destruct (red360_cong (RN v)) as [k Hk].
  exists r, (- k)%Z. repeat split; try assumption.
  rewrite opp_IZR, Hr. replace (red360 (RN v) - (v + 360 * - IZR k)) with (RN v - v) by lra.
  apply RN_err_720. exact Hv.
Qed.

Theorem addsub_AA_b64 a ta b tb : fin a -> fin b -> Rabs (RV a) < 360 -> Rabs (RV b) < 360 ->
  op_ok_err (Angle___add__ B0 (angb a ta) (angb b tb)) (RV a + RV b) (bpow radix2 (-44)) /\
  op_ok_err (Angle___iadd__ B0 (angb a ta) (angb b tb)) (RV a + RV b) (bpow radix2 (-44)) /\
  op_ok_err (Angle___sub__ B0 (angb a ta) (angb b tb)) (RV a - RV b) (bpow radix2 (-44)) /\
  op_ok_err (Angle___isub__ B0 (angb a ta) (angb b tb)) (RV a - RV b) (bpow radix2 (-44)).
Proof.
  intros Fa Fb Ha Hb.
  assert (Rabs (RV a + RV b) <= 720) as H1 by (apply Rabs_le; apply Rabs_lt_inv in Ha, Hb; lra).
  assert (Rabs (RV a - RV b) <= 720) as H2 by (apply Rabs_le; apply Rabs_lt_inv in Ha, Hb; lra).
  destruct (add_AA_real a ta Fa b tb Fb (small_no_overflow _ H1)) as [A1 A2].
  destruct (sub_AA_real a ta Fa b tb Fb Hb (small_no_overflow _ H2)) as [S1 S2].
  repeat split; apply ok_err; assumption.
Qed.
