(* C03: binary64, every finite float with |x| < 360: reduce_deg returns the SAME float (bit for bit) *)
From Coq Require Import ZArith Reals Lra Lia Bool List.
From Coq Require Import Uint63 Floats.
From Flocq Require Import Core BinarySingleNaN PrimFloat.
From PyLib Require Import PyVal PyBuiltins B64 B64Verified Whnf PyEval B64Eval.
From Spec Require Import AngleSpec.
From Gen Require Import M_base M_Angle.
From Proofs.C03 Require Import C03_reduce_b64.
Import ListNotations.
Open Scope R_scope.

Lemma reduce_deg_small_b64 x : fin x -> Rabs (RV x) < 360 ->
  Angle_reduce_deg B0 (VFloat x) = VFloat x.
Proof.
  intros Fx Hx. assert (fin (abs x)) as Fa by (apply abs_fin; exact Fx).
  pose proof (self_eqb (abs x) Fa) as C6. pose proof (not_inf (abs x) Fa) as C7.
  assert ((0x1.68p+8 <=? abs x)%float = false) as C1.
  { rewrite (leb_R _ _ fin_360 Fa), RV_360, abs_R. apply Rle_bool_false. exact Hx. }
  b64run. reflexivity.
Qed.
