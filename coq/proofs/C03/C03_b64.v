(* C03_b64: binary64 instance, EVERY finite float: Angle.to_positive and the constructor Angle(x).
   RV x = B2R (Prim2B x) is the real value of the float x, fin x its finiteness (PyLib.B64Verified). *)
From Coq Require Import ZArith Reals Lra Lia Bool List.
From Coq Require Import Uint63 Floats.
From Flocq Require Import Core BinarySingleNaN PrimFloat.
From PyLib Require Import PyVal PyBuiltins B64 B64Verified Whnf PyEval B64Eval.
From Spec Require Import AngleSpec.
From Gen Require Import M_base M_Angle.
From Proofs.C03 Require Import C03_reduce_b64.
Import ListNotations.
Open Scope R_scope.

Definition angb (d t : PrimFloat.float) : val PrimFloat.float := VObj cAngle [VFloat d; VFloat t].

Lemma RN_0 : RN 0 = 0.
Proof. apply round_0. apply valid_rnd_N. Qed.
Lemma RN_360 : RN 360 = 360.
Proof. apply (RN_int 360). lia. Qed.
Lemma RN_le a b : a <= b -> RN a <= RN b.
Proof. apply round_le; [apply fexp64_valid | apply valid_rnd_N]. Qed.

(* half an ulp, up to 360 *)
Lemma RN_err_360 v : Rabs v <= 360 -> Rabs (RN v - v) <= bpow radix2 (-45).
Proof.
  intro Hv. eapply Rle_trans; [apply error_le_half_ulp; apply fexp64_valid|].
  assert (ulp radix2 fexp64 v <= bpow radix2 (-44)) as Hu.
  { apply Rle_trans with (ulp radix2 fexp64 360).
    { apply ulp_le; [apply fexp64_valid | apply fexp64_mono |]. rewrite (Rabs_pos_eq 360) by lra. exact Hv. }
    rewrite ulp_neq_0 by lra. unfold cexp.
    assert (mag radix2 360 = 9%Z :> Z) as ->.
    { apply mag_unique. rewrite Rabs_pos_eq by lra. change (bpow radix2 (9 - 1)) with 256. change (bpow radix2 9) with 512. lra. }
    change (fexp64 9) with (-44)%Z. lra. }
  assert (bpow radix2 (-45) = / 2 * bpow radix2 (-44)) as ->
    by (change (-45)%Z with (-1 + -44)%Z; rewrite bpow_plus; reflexivity).
  pose proof (bpow_gt_0 radix2 (-44)). lra.
Qed.

(* to_positive, every finite stored value in (-360, 360) *)
Theorem to_positive_b64 d t0 : fin d -> -360 < RV d < 360 ->
  exists r, Angle_to_positive B0 (angb d t0) = VTuple [angb r t0; angb r t0] /\ fin r /\
            0 <= RV r < 360 /\
            (0 <= RV d -> r = d) /\
            (RV d < 0 ->
               ((RV r = RN (360 + RV d) /\ RN (360 + RV d) < 360) \/
                (RV r = 0 /\ RN (360 + RV d) = 360 /\ - bpow radix2 (-45) <= RV d)) /\
               (Rabs (RV r - (RV d + 360)) <= bpow radix2 (-45) \/ Rabs (RV r - RV d) <= bpow radix2 (-45))).
Proof.
  intros Fd Hd. unfold angb.
  assert ((d <? b64_of_Z 0)%float = Rlt_bool (RV d) 0) as C1
    by (change (b64_of_Z 0) with 0%float; rewrite (ltb_R d 0 Fd fin_zero), RV_zero; reflexivity).
  destruct (Rlt_bool_spec (RV d) 0) as [Hn | Hp].
  2:{ exists d. split; [b64run; reflexivity|]. split; [exact Fd|]. split; [lra|]. split; [reflexivity | lra]. }
  assert (fin (abs d)) as Fa by (apply abs_fin; exact Fd).
  assert (RV (abs d) = - RV d) as Ha by (rewrite abs_R; apply Rabs_left; exact Hn).
  set (v := 360 + RV d). assert (0 < v < 360) as Hv by (unfold v; lra).
  assert (0 <= RN v <= 360) as Hr.
  { split; [rewrite <- RN_0 | rewrite <- RN_360]; apply RN_le; lra. }
  destruct (sub_R 0x1.68p+8 (abs d) fin_360 Fa) as [A B].
  { rewrite RV_360, Ha. replace (360 - - RV d) with v by (unfold v; ring). apply small_lt_emax. rewrite Rabs_pos_eq; lra. }
  rewrite RV_360, Ha in A. replace (360 - - RV d) with v in A by (unfold v; ring).
  set (r := (0x1.68p+8 - abs d)%float) in *.
  assert ((0x1.68p+8 <=? r)%float = Rle_bool 360 (RN v)) as C2
    by (rewrite (leb_R _ r fin_360 B), RV_360, A; reflexivity).
  pose proof (RN_err_360 v ltac:(rewrite Rabs_pos_eq; lra)) as Herr.
  destruct (Rle_bool_spec 360 (RN v)) as [Hge | Hlt].
  - (* rounds up to 360: clamped to 0.0 *)
    assert (RN v = 360) as E by lra.
    exists 0%float. split; [b64run; reflexivity|]. split; [exact fin_zero|]. rewrite RV_zero.
    assert (- bpow radix2 (-45) <= RV d) as Hsmall.
    { rewrite E in Herr. unfold v in Herr. apply Rabs_le_inv in Herr. lra. }
    split; [lra|]. split; [intro; lra|]. intros _. split.
    + right. repeat split; [exact E | exact Hsmall].
    + right. rewrite Rabs_pos_eq by lra. lra.
  - exists r. split; [b64run; reflexivity|]. split; [exact B|]. rewrite A.
    split; [lra|]. split; [intro; lra|]. intros _. split.
    + left. split; [reflexivity | exact Hlt].
    + left. replace (RV d + 360) with v by (unfold v; ring). exact Herr.
Qed.

(* ------------------------------------------------------------ the constructor *)
From Ltac2 Require Ltac2.
Ltac2 Set Whnf.is_blocked as old := fun c =>
  Ltac2.Bool.or (old c) (Ltac2.Constr.equal c '@Angle_reduce_deg).

Definition tol64 : PrimFloat.float := 0x1.b7cdfd9d7bdbbp-34%float.

(* Angle(x), every finite float x: the stored value is reduce_deg(x), which is exactly red360 of
   the value of x; so it lies strictly inside (-360, 360) and has the sign of x *)
Theorem construct_b64 x : fin x ->
  exists r, Angle___init__ B0 (VObj cAngle [VNone; VNone]) (VTuple [VFloat x]) (VDict []) = angb r tol64 /\
            fin r /\ RV r = red360 (RV x) /\ Rabs (RV r) < 360 /\
            (0 <= RV x -> 0 <= RV r) /\ (RV x <= 0 -> RV r <= 0).
Proof.
  intro Fx. destruct (reduce_deg_b64_exact x Fx) as (r & E & Fr & Hr).
  exists r. split; [unfold Angle___init__; b64run; reflexivity|]. split; [exact Fr|]. split; [exact Hr|].
  rewrite Hr. pose proof (red360_range (RV x)). pose proof (red360_sign (RV x)) as [S1 S2].
  split; [apply Rabs_def1; lra|]. split; assumption.
Qed.

(* Angle(x).to_positive(), every finite float: in [0, 360) *)
Corollary construct_to_positive_b64 x : fin x ->
  exists r p, Angle___init__ B0 (VObj cAngle [VNone; VNone]) (VTuple [VFloat x]) (VDict []) = angb r tol64 /\
              Angle_to_positive B0 (angb r tol64) = VTuple [angb p tol64; angb p tol64] /\
              fin p /\ 0 <= RV p < 360.
Proof.
  intro Fx. destruct (construct_b64 x Fx) as (r & E & Fr & _ & Hb & _).
  apply Rabs_lt_inv in Hb.
  destruct (to_positive_b64 r tol64 Fr Hb) as (p & Ep & Fp & Hp & _).
  exists r, p. repeat split; try assumption; lra.
Qed.
