(* C03: sexagesimal input (reduce_dms / dms2deg) in the ideal instance. *)
From Coq Require Import Reals ZArith List Bool Lra Lia String.
From PyLib Require Import PyVal PyBuiltins Ideal IdealFacts Whnf PyEval.
From Spec Require Import AngleSpec.
From Gen Require Import M_base M_Angle.
From Proofs.C03 Require Import C03_defs C03_tac C03_reduce.
Import ListNotations.
Open Scope R_scope.

Ltac2 Set Whnf.is_blocked as old := fun c =>
  Ltac2.Bool.or (old c)
    (Ltac2.Bool.or (Ltac2.Constr.equal c '@Angle_reduce_deg) (Ltac2.Constr.equal c '@fmod_py)).

Ltac pyA_hook s tac ::=
  lazymatch s with
  | Angle_reduce_deg Rops (VFloat ?x) => rewrite (reduce_deg_float x)
  | fmod_py Rops ?x ?y => rewrite (fmod_py_nonneg x y) by (expose_R; tac)
  end.

(* decision tactic: hypotheses (also negated ones) + bounds of the % results *)
Ltac dms_tac :=
  first [ assumption
        | Rlit_norm_all; lra
        | Rlit_norm_all;
          repeat match goal with
          | |- context [Rfmod ?a 1] =>
              lazymatch goal with
              | _ : 0 <= Rfmod a 1 < 1 |- _ => fail
              | _ => assert (0 <= Rfmod a 1 < 1) by (apply Rfmod_1_bounds; dms_tac)
              end
          end; lra ].

(* when evaluation stops at an undecided comparison at the top of the goal: split on it *)
Ltac split_top :=
  match goal with
  | |- context [if Rltb ?x ?y then _ else _] =>
      let H := fresh "Hc" in destruct (Rlt_dec x y) as [H|H]; expose_R_in H; Rlit_norm_in H
  | |- context [if Rleb ?x ?y then _ else _] =>
      let H := fresh "Hc" in destruct (Rle_dec x y) as [H|H]; expose_R_in H; Rlit_norm_in H
  end.

Ltac dms_go fin := pyrunA_using dms_tac; first [ split_top; [ dms_go fin | dms_go fin ] | fin ].

(* the sign returned by reduce_dms: -1 iff any piece is negative *)
Definition sign_of_pieces (d m s : R) : R :=
  if Rlt_dec d 0 then -1 else if Rlt_dec m 0 then -1 else if Rlt_dec s 0 then -1 else 1.

(* reduce_dms as an explicit function of the absolute values a = |d|, b = |m|, c = |s|
   (c60 is the literal 60.0).  This is a TRANSCRIPTION of the branches of the code, not an
   independent specification: the theorem reduce_dms_ideal "model = dms_spec" pins the code
   (a changed branch breaks it) and yields shape + sign rule; the independent value statements
   are dms2deg_canonical below and C03_dms_int.v (canonical pieces). *)
Definition c60 : R := Rlit 600 (-1).
Definition dms_spec (a b c : R) : Z * Z * R :=
  let f1 := Rfmod a 1 in
  let b1 := if Rltb 0 f1 then b + f1 * c60 else b in
  let D0 := Rtrunc a in
  let f2 := Rfmod b1 1 in
  let c1 := if Rltb 0 f2 then c + f2 * c60 else c in
  let M0 := Rtrunc b1 in
  let M1 := if Rleb c60 c1 then (M0 + Rtrunc (c1 / c60))%Z else M0 in
  let c2 := if Rleb c60 c1 then Rfmod c1 60 else c1 in
  let D1 := if Rleb c60 (IZR M1) then (D0 + Rtrunc (IZR M1 / c60))%Z else D0 in
  let M2 := if Rleb c60 (IZR M1) then (M1 mod 60)%Z else M1 in
  ((D1 mod 360)%Z, M2, c2).

Definition dms_tuple (d m s : R) : rval :=
  let '(D, M, c) := dms_spec (Rabs d) (Rabs m) (Rabs s) in
  VTuple [VInt D; VInt M; VFloat c; VFloat (sign_of_pieces d m s)].

Ltac decide_rhs :=
  repeat match goal with
  | |- context [Rltb ?x ?y] =>
      first [ rewrite (proj2 (Rltb_true x y)) by dms_tac | rewrite (proj2 (Rltb_false x y)) by dms_tac ]
  | |- context [Rleb ?x ?y] =>
      first [ rewrite (proj2 (Rleb_true x y)) by dms_tac | rewrite (proj2 (Rleb_false x y)) by dms_tac ]
  end.

Ltac dms_fin :=
  unfold dms_tuple, dms_spec, sign_of_pieces, c60;
  repeat match goal with |- context [Rlt_dec ?x 0] => destruct (Rlt_dec x 0); try lra end;
  cbv zeta; decide_rhs; Rlit_norm;
  try (replace (10 / 10) with 1 by lra); try (replace (-10 / 10) with (-1) by lra); reflexivity.

(* reduce_dms on float pieces = the explicit function, for ALL real pieces (64 branches) *)
Theorem reduce_dms_ideal d m s :
  Angle_reduce_dms Rops (VFloat d) (VFloat m) (VFloat s) = dms_tuple d m s.
Proof.
  pose proof (Rabs_pos d). pose proof (Rabs_pos m). pose proof (Rabs_pos s).
  destruct (Rlt_dec d 0) as [Nd|Nd]; [| destruct (Rlt_dec m 0) as [Nm|Nm]; [| destruct (Rlt_dec s 0) as [Ns|Ns]]].
  - dms_go dms_fin.
  - dms_go dms_fin.
  - dms_go dms_fin.
  - dms_go dms_fin.
Qed.

(* ------------------------------------------------------------------ dms2deg *)
Ltac2 Set Whnf.is_blocked as old := fun c =>
  Ltac2.Bool.or (old c) (Ltac2.Constr.equal c '@Angle_reduce_dms).

(* dms2deg = reduce_deg (sign * (D + M/60 + c/3600)) on whatever reduce_dms returns *)
Lemma dms2deg_from_tuple d m s D M c sg :
  Angle_reduce_dms Rops (VFloat d) (VFloat m) (VFloat s) = VTuple [VInt D; VInt M; VFloat c; VFloat sg] ->
  Angle_dms2deg Rops (VFloat d) (VFloat m) (VFloat s) = VFloat (red360 (sg * (IZR D + IZR M / 60 + c / 3600))).
Proof.
  intros H. pyrunA. Rlit_norm.
  replace (IZR D + IZR M / (600 / 10) + c / (36000 / 10)) with (IZR D + IZR M / 60 + c / 3600) by (field).
  reflexivity.
Qed.

(* canonical pieces: whole degrees, whole minutes below 60, seconds below 60 *)
Lemma dms_spec_canonical n k c : (0 <= n)%Z -> (0 <= k < 60)%Z -> 0 <= c < 60 ->
  dms_spec (IZR n) (IZR k) c = ((n mod 360)%Z, k, c).
Proof.
  intros Hn Hk Hc.
  assert (0 <= IZR n) by (apply IZR_le; lia). assert (0 <= IZR k) by (apply IZR_le; lia).
  assert (IZR k < 60) by (apply IZR_lt; lia).
  assert (Rfmod (IZR n) 1 = 0) as F1 by (rewrite Rfmod_1 by assumption; rewrite Rfloor_IZR; lra).
  assert (Rfmod (IZR k) 1 = 0) as F2 by (rewrite Rfmod_1 by assumption; rewrite Rfloor_IZR; lra).
  assert (c60 = 60) as E60 by (unfold c60, Rlit; simpl; lra).
  unfold dms_spec. rewrite F1.
  rewrite (proj2 (Rltb_false 0 0)) by lra. rewrite F2. rewrite (proj2 (Rltb_false 0 0)) by lra.
  rewrite (proj2 (Rleb_false c60 c)) by lra.
  rewrite !Rtrunc_IZR. rewrite (proj2 (Rleb_false c60 (IZR k))) by lra. reflexivity.
Qed.

Lemma red360_canonical sg n k c : (sg = 1 \/ sg = -1) -> (0 <= n)%Z -> (0 <= k < 60)%Z -> 0 <= c < 60 ->
  red360 (sg * (IZR (n mod 360) + IZR k / 60 + c / 3600)) = red360 (sg * (IZR n + IZR k / 60 + c / 3600)).
Proof.
  intros Hsg Hn Hk Hc.
  assert (0 <= IZR k) by (apply IZR_le; lia). assert (IZR k <= 59) by (apply IZR_le; lia).
  pose proof (Z.mod_pos_bound n 360 ltac:(lia)) as Hm.
  assert (0 <= IZR (n mod 360)) by (apply IZR_le; lia). assert (IZR (n mod 360) <= 359) by (apply IZR_le; lia).
  assert (0 <= IZR n) by (apply IZR_le; lia).
  assert (IZR n = IZR (n mod 360) + 360 * IZR (n / 360)) as En.
  { rewrite Z.mod_eq by lia. rewrite minus_IZR, mult_IZR. lra. }
  assert (0 <= IZR (n / 360)) by (apply IZR_le; apply Z.div_pos; lia).
  set (v := sg * (IZR (n mod 360) + IZR k / 60 + c / 3600)).
  assert (-360 < v < 360) as Hv by (unfold v; destruct Hsg; subst sg; lra).
  rewrite (red360_small v) by (unfold Rabs; destruct (Rcase_abs v); lra).
  apply red360_unique; [assumption | | |].
  - destruct Hsg; subst sg.
    + exists (n / 360)%Z. unfold v. lra.
    + exists (- (n / 360))%Z. rewrite opp_IZR. unfold v. lra.
  - intro P. unfold v. destruct Hsg; subst sg; [lra|].
    assert (IZR n + IZR k / 60 + c / 3600 = 0) by lra. lra.
  - intro P. unfold v. destruct Hsg; subst sg; [|lra].
    assert (IZR n + IZR k / 60 + c / 3600 = 0) by lra. lra.
Qed.

Lemma sign_of_pieces_pm d m s : sign_of_pieces d m s = 1 \/ sign_of_pieces d m s = -1.
Proof. unfold sign_of_pieces. repeat destruct (Rlt_dec _ 0); auto. Qed.

(* the value for canonical pieces, the sign carried by ANY piece (e.g. (0, -m, s)) *)
Theorem dms2deg_canonical d m s n k :
  Rabs d = IZR n -> Rabs m = IZR k -> (k < 60)%Z -> Rabs s < 60 ->
  Angle_dms2deg Rops (VFloat d) (VFloat m) (VFloat s) =
  VFloat (red360 (sign_of_pieces d m s * dms_abs d m s)).
Proof.
  intros Hd Hm Hk Hs.
  assert (0 <= n)%Z as Hn by (apply le_IZR; rewrite <- Hd; apply Rabs_pos).
  assert (0 <= k)%Z as Hk0 by (apply le_IZR; rewrite <- Hm; apply Rabs_pos).
  pose proof (Rabs_pos s).
  pose proof (reduce_dms_ideal d m s) as HR. unfold dms_tuple in HR.
  rewrite Hd, Hm, dms_spec_canonical in HR by (try lia; lra).
  rewrite (dms2deg_from_tuple _ _ _ _ _ _ _ HR).
  rewrite red360_canonical by (try apply sign_of_pieces_pm; try lia; lra).
  unfold dms_abs. rewrite Hd, Hm. reflexivity.
Qed.

