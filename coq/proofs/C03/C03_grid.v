(* C03: binary64 instance of the generated Angle model evaluated by the Coq kernel on an
   explicit FINITE boundary grid (not all floats): range, sign and agreement with the exact
   rational reduction computed in Z from mantissa/exponent (B64.b64_parts). *)
From Coq Require Import ZArith NArith List Bool String PrimFloat.
From PyLib Require Import PyVal PyBuiltins B64 B64Facts Range.
From Gen Require Import M_base M_Angle.
Import ListNotations.
Open Scope Z_scope.

Definition fval := val float.
Definition mkF (args : list fval) : fval :=
  Angle___init__ B0 (VObj cAngle [VNone; VNone]) (VTuple args) (VDict []).
Definition mkF_kw (args : list fval) (k : string) : fval :=
  Angle___init__ B0 (VObj cAngle [VNone; VNone]) (VTuple args) (VDict [(VStr k, VBool true)]).
Definition deg_of (v : fval) : option float :=
  match v with
  | VObj c [VFloat d; VFloat _] => if Pos.eqb c cAngle then Some d else None
  | _ => None
  end.

(* exact value of a finite float as a fraction n/d, d = 2^k > 0 *)
Definition q_of (x : float) : option (Z * Z) :=
  match b64_parts x with
  | Some (m, e) => if 0 <=? e then Some (Z.shiftl m e, 1) else Some (m, Z.shiftl 1 (- e))
  | None => None
  end.

(* sign(n) * (|n|/d mod 360) as a fraction over d *)
Definition red_q (n d : Z) : Z := Z.sgn n * (Z.abs n mod (360 * d)).

(* strictly inside (-360, 360), as a float comparison *)
Definition in_open (y : float) : bool := ((-360) <? y)%float && (y <? 360)%float.
Definition same_sign (n : Z) (y : float) : bool :=
  if 0 <? n then (0 <=? y)%float else if n <? 0 then (y <=? 0)%float else (y =? 0)%float.

(* y = n/d exactly *)
Definition is_exact (y : float) (n d : Z) : bool :=
  match q_of y with Some (ny, dy) => ny * d =? n * dy | None => false end.

(* y is congruent to n/d modulo 360 within 2^-k *)
Definition near_cong (y : float) (n d k : Z) : bool :=
  match q_of y with
  | Some (ny, dy) =>
      let D := d * dy in
      let A := (ny * d - n * dy) mod (360 * D) in           (* 0 <= A < 360 D *)
      let A' := if 2 * A <? 360 * D then A else 360 * D - A in
      Z.shiftl A' k <=? D
  | None => false
  end.

(* reduce_deg and Angle(x) on a float: in range, sign of x, EXACTLY sign(x)(|x| mod 360) *)
Definition chk_float (x : float) : bool :=
  match q_of x, Angle_reduce_deg B0 (VFloat x), deg_of (mkF [VFloat x]) with
  | Some (n, d), VFloat y, Some y' =>
      in_open y && same_sign n y && is_exact y (red_q n d) d && feq y y'
  | _, _, _ => false
  end.

(* ... on an int *)
Definition chk_int (z : Z) : bool :=
  match Angle_reduce_deg B0 (VInt z), deg_of (mkF [VInt z]) with
  | VFloat y, Some y' => in_open y && same_sign z y && is_exact y (red_q z 1) 1 && feq y y'
  | _, _ => false
  end.

(* positive form of the Angle built from v: in [0, 360), congruent to v within 2^-44 *)
Definition chk_pos (v : float) : bool :=
  match q_of v, Angle_to_positive B0 (mkF [VFloat v]) with
  | Some (n, d), VTuple [VObj _ [VFloat p; _]; VObj _ [VFloat p'; _]] =>
      (0 <=? p)%float && (p <? 360)%float && near_cong p n d 44 && feq p p'
  | _, _ => false
  end.

(* sexagesimal pieces given as floats: in range, sign (negative iff a piece is negative, or zero),
   congruent to +-(|d| + |m|/60 + |s|/3600) within 2^-36; tuple and list forms identical *)
Definition dms_q (d m s : float) : option (Z * Z * bool) :=
  match q_of d, q_of m, q_of s with
  | Some (nd, dd), Some (nm, dm), Some (ns, ds) =>
      let neg := (d <? 0)%float || (m <? 0)%float || (s <? 0)%float in
      let N := Z.abs nd * dm * ds * 3600 + Z.abs nm * dd * ds * 60 + Z.abs ns * dd * dm in
      Some (if neg then - N else N, dd * dm * ds * 3600, neg)
  | _, _, _ => None
  end.
Definition chk_dms (t : float * float * float) : bool :=
  let '(d, m, s) := t in
  match dms_q d m s, deg_of (mkF [VFloat d; VFloat m; VFloat s]),
        deg_of (mkF [VTuple [VFloat d; VFloat m; VFloat s]]),
        deg_of (mkF [VList [VFloat d; VFloat m; VFloat s]]) with
  | Some (N, D, neg), Some y, Some y2, Some y3 =>
      in_open y && (if neg then (y <=? 0)%float else (0 <=? y)%float)
      && near_cong y N D 36 && feq y y2 && feq y y3
  | _, _, _, _ => false
  end.

(* right ascension in hours (one float): in range, congruent to 15 x within 2^-36 *)
Definition chk_ra (x : float) : bool :=
  match q_of x, deg_of (mkF_kw [VFloat x] "ra") with
  | Some (n, d), Some y => in_open y && same_sign n y && near_cong y (15 * n) d 36
  | _, _ => false
  end.

(* ------------------------------------------------------------------ the grid *)
Fixpoint iter_f (n : nat) (f : float -> float) (x : float) : float :=
  match n with O => x | S n' => iter_f n' f (f x) end.
(* k * 360 and its neighbours at distance 1 and 2 ulps *)
Definition around (k : Z) : list float :=
  let c := b64_of_Z (360 * k) in
  [iter_f 2 next_down c; next_down c; c; next_up c; iter_f 2 next_up c].
Definition chk_k (k : Z) : bool :=
  forallb chk_float (around k) &&
  chk_int (360 * k - 1) && chk_int (360 * k) && chk_int (360 * k + 1).

Definition misc_floats : list float :=
  [(0x0.0000000000001p-1022)%float; (-0x0.0000000000001p-1022)%float; (0x0.00000000007e8p-1022)%float; (-0x0.00000000007e8p-1022)%float; (0x1.0000000000000p-1022)%float; (-0x1.0000000000000p-1022)%float; (0x1.56e1fc2f8f359p-997)%float; (-0x1.56e1fc2f8f359p-997)%float; (0x1.79ca10c924223p-67)%float; (-0x1.79ca10c924223p-67)%float; (0x1.5fd7fe1796495p-37)%float; (-0x1.5fd7fe1796495p-37)%float; (0x1.0000000000000p-1)%float; (-0x1.0000000000000p-1)%float; (0x1.0000000000000p+0)%float; (-0x1.0000000000000p+0)%float; (0x1.67fffffffffffp+8)%float; (-0x1.67fffffffffffp+8)%float; (0x1.c6bf526340000p+49)%float; (-0x1.c6bf526340000p+49)%float; (0x1.c6bf52633ffffp+49)%float; (-0x1.c6bf52633ffffp+49)%float; (0x1.0000000000002p+49)%float; (-0x1.0000000000002p+49)%float; (0x1.c12218377de6bp+46)%float; (-0x1.c12218377de6bp+46)%float; (0x1.6bcc41e900001p+46)%float; (0x1.476b081e80000p+48)%float; (-0x1.476b081e80000p+48)%float; (0x1.476b081e80001p+48)%float; (0x1.fffffffffffffp+48)%float; (0x1.824cccccccccdp+8)%float; (-0x1.7380000000000p+9)%float; (0x1.e848000000009p+19)%float; (0x1.5180000000001p+16)%float; (0x1.12a8800000001p+25)%float; (0x0.0p+0)%float; (-0x0.0p+0)%float].

Definition misc_ints : list Z :=
  [0; 1; -1; 359; -359; 360; -360; 361; -361; 719; 720; -720; 1000000000000000; -1000000000000000;
   999999999999999; -999999999999999; 999999999999720; 360000000000000; -360000000000000; 360000000000001;
   123456789012345; -123456789012345; 9007199254740991].

Definition pos_floats : list float :=
  [(-0x1.79ca10c924223p-67)%float; (-0x0.0000000000001p-1022)%float; (-0x1.56e1fc2f8f359p-997)%float; (-0x1.6849b86a12b9bp-47)%float; (-0x1.f86735614d6a6p-46)%float; (-0x1.0000000000000p-45)%float; (-0x1.00b48698608abp-44)%float; (-0x1.0000000000000p-46)%float; (-0x1.67fffffffffffp+8)%float; (-0x1.0000000000000p+0)%float; (-0x1.6800000000000p+7)%float; (-0x1.12e0be826d695p-30)%float; (-0x1.999999999999ap-4)%float; (-0x1.5d47ae147ae14p+6)%float; (0x0.0p+0)%float; (-0x0.0p+0)%float; (0x0.0000000000001p-1022)%float; (0x1.0000000000000p+0)%float; (0x1.67fffffffffffp+8)%float; (0x1.10ae147ae147bp+8)%float;
   (-360)%float; 360%float; (-0x1.6800000000001p+8)%float; (-720)%float].

Definition dms_triples : list (float * float * float) :=
  [(359, 59, 0x1.dffffffffffffp+5); (-359, 59, 0x1.dffffffffffffp+5); (0, -30, 0); (0, 30, -5); (0, 0, -0x1.12e0be826d695p-30);
   (23, 26, 0x1.87fff7ef4c3c0p+5); (-743, 26, 0x1.8cccccccccccdp+5); (10, 60, 60); (10, 59.5, 59.5); (10.5, 30.5, 30.5);
   (359, 60, 0); (359, 59, 60); (0x1.67ffbe76c8b44p+8, 0x1.eb851eb851eb8p-5, 0); (720, 0, 0); (-720, 0, 0); (1, 6000, 360000);
   (0, 0, 0x1.3c67fffffffffp+20); (0, 21600, 0); (0, 0x1.517ffffffffffp+14, 0); (12, -13, -14); (1000000000, 1000000000, 1000000000);
   (0x1.c6bf526340000p+49, 0, 0); (0, 0x1.c6bf526340000p+49, 0); (0, 0, 0x1.c6bf526340000p+49); (25, 0, 0);
   (23, 59, 0x1.dffffffffffffp+5); (24, 0, 0); (9, 14, 0x1.be66666666666p+5); (0, 0, 0); (-0, 5, 0)]%float.

Definition ra_floats : list float :=
  [25; 24; (-25); 0x1.7ffffffffffffp+4; 12; 0.5; (-0x1.79ca10c924223p-67); 0x1.c6bf526340000p+49; 0x1.7ffbe76c8b439p+4; 48; 1000000.5; 0]%float.

(* ------------------------------------------------- kernel evaluation of the grid *)
Lemma grid_k : all_range (-40) 81%N chk_k = true.
Proof. vm_cast_no_check (@eq_refl bool true). Qed.
Lemma grid_misc : forallb chk_float misc_floats = true.
Proof. vm_cast_no_check (@eq_refl bool true). Qed.
Lemma grid_ints : forallb chk_int misc_ints = true.
Proof. vm_cast_no_check (@eq_refl bool true). Qed.
Lemma grid_pos : forallb chk_pos pos_floats = true.
Proof. vm_cast_no_check (@eq_refl bool true). Qed.
Lemma grid_dms : forallb chk_dms dms_triples = true.
Proof. vm_cast_no_check (@eq_refl bool true). Qed.
Lemma grid_ra : forallb chk_ra ra_floats = true.
Proof. vm_cast_no_check (@eq_refl bool true). Qed.

Theorem grid_b64 :
  (forall k, -40 <= k <= 40 -> chk_k k = true) /\
  (forall x, In x misc_floats -> chk_float x = true) /\
  (forall z, In z misc_ints -> chk_int z = true) /\
  (forall v, In v pos_floats -> chk_pos v = true) /\
  (forall t, In t dms_triples -> chk_dms t = true) /\
  (forall x, In x ra_floats -> chk_ra x = true).
Proof.
  repeat split.
  - intros k Hk. apply (all_range_spec _ _ _ grid_k). simpl. Lia.lia.
  - apply forallb_forall, grid_misc.
  - apply forallb_forall, grid_ints.
  - apply forallb_forall, grid_pos.
  - apply forallb_forall, grid_dms.
  - apply forallb_forall, grid_ra.
Qed.
