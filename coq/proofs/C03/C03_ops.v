(* C03: every operator of Angle in the ideal instance.  The constructor call
   Angle(<number>) inside each operator is abstracted and replaced by its
   characterisation C03_construct.init_float_raw; Python's float % by
   IdealFacts.fmod_py_nonneg. *)
From Coq Require Import Reals ZArith List Bool Lra Lia String.
From PyLib Require Import PyVal PyBuiltins Ideal IdealFacts Whnf PyEval.
From Spec Require Import AngleSpec.
From Gen Require Import M_base M_Angle.
From Proofs.C03 Require Import C03_defs C03_tac C03_reduce C03_construct.
Import ListNotations.
Open Scope R_scope.

Ltac2 Set Whnf.is_blocked as old := fun c =>
  Ltac2.Bool.or (old c)
    (Ltac2.Bool.or (Ltac2.Constr.equal c '@Angle___init__) (Ltac2.Constr.equal c '@fmod_py)).

(* an exception raised while computing the argument of Angle(...) propagates *)
Lemma init_err_raw e :
  Angle___init__ Rops (VObj cAngle [VNone; VNone]) (VErr e) (VDict []) = VErr e.
Proof. reflexivity. Qed.

Ltac pyA_hook s tac ::=
  lazymatch s with
  | Angle___init__ Rops (VObj cAngle [VNone; VNone]) (VErr ?e) (VDict []) => rewrite (init_err_raw e)
  | Angle___init__ Rops (VObj cAngle [VNone; VNone]) (VTuple [VFloat ?r]) (VDict []) =>
      rewrite (init_float_raw r)
  | Angle___init__ Rops (VObj cAngle [VNone; VNone]) (VTuple [VInt ?z]) (VDict []) =>
      rewrite (init_int_raw z)
  | fmod_py Rops ?x ?y =>
      first [ rewrite (fmod_py_nonneg x y) by (expose_R; tac)
            | rewrite (fmod_py_zero x y) by (expose_R; tac) ]
  end.

(* both sides are Angle objects holding red360 of two real expressions equal by lra *)
Ltac fin_lra :=
  Rlit_norm; unfold ang, angT;
  match goal with
  | |- VObj _ [VFloat (red360 ?x); _] = VObj _ [VFloat (red360 ?y); _] => replace x with y by lra
  end; reflexivity.

Ltac op_solve := unfold angT; pyrunA; try reflexivity.

(* ------------------------------------------------------------------ addition *)
Lemma add_AA a ta b tb : Angle___add__ Rops (angT a ta) (angT b tb) = ang (red360 (a + b)).
Proof. op_solve. Qed.
Lemma add_AF a ta y : Angle___add__ Rops (angT a ta) (VFloat y) = ang (red360 (a + y)).
Proof. op_solve. Qed.
Lemma add_AI a ta z : Angle___add__ Rops (angT a ta) (VInt z) = ang (red360 (a + IZR z)).
Proof. op_solve. Qed.
Lemma radd_AF a ta y : Angle___radd__ Rops (angT a ta) (VFloat y) = ang (red360 (a + y)).
Proof. op_solve. Qed.
Lemma radd_AI a ta z : Angle___radd__ Rops (angT a ta) (VInt z) = ang (red360 (a + IZR z)).
Proof. op_solve. Qed.
Lemma iadd_AA a ta b tb : Angle___iadd__ Rops (angT a ta) (angT b tb) = ang (red360 (a + b)).
Proof. op_solve. Qed.
Lemma iadd_AF a ta y : Angle___iadd__ Rops (angT a ta) (VFloat y) = ang (red360 (a + y)).
Proof. op_solve. Qed.
Lemma iadd_AI a ta z : Angle___iadd__ Rops (angT a ta) (VInt z) = ang (red360 (a + IZR z)).
Proof. op_solve. Qed.

(* --------------------------------------------------------------- subtraction *)
(* a - b is a.__add__(-b); for an Angle b, -b is the new Angle(-b) *)
Lemma sub_AA a ta b tb : Angle___sub__ Rops (angT a ta) (angT b tb) = ang (red360 (a + red360 (- b))).
Proof. op_solve. Qed.
Lemma sub_AF a ta y : Angle___sub__ Rops (angT a ta) (VFloat y) = ang (red360 (a + - y)).
Proof. op_solve. Qed.
Lemma sub_AI a ta z : Angle___sub__ Rops (angT a ta) (VInt z) = ang (red360 (a + IZR (- z))).
Proof. op_solve. Qed.
Lemma isub_AA a ta b tb : Angle___isub__ Rops (angT a ta) (angT b tb) = ang (red360 (a + red360 (- b))).
Proof. op_solve. Qed.
Lemma isub_AF a ta y : Angle___isub__ Rops (angT a ta) (VFloat y) = ang (red360 (a + - y)).
Proof. op_solve. Qed.
Lemma isub_AI a ta z : Angle___isub__ Rops (angT a ta) (VInt z) = ang (red360 (a + IZR (- z))).
Proof. op_solve. Qed.
(* y - a is -(a - y) *)
Lemma rsub_AF a ta y : Angle___rsub__ Rops (angT a ta) (VFloat y) = ang (red360 (- red360 (a + - y))).
Proof. op_solve. Qed.
Lemma rsub_AI a ta z : Angle___rsub__ Rops (angT a ta) (VInt z) = ang (red360 (- red360 (a + IZR (- z)))).
Proof. op_solve. Qed.

(* ------------------------------------------------------------ multiplication *)
Lemma mul_AA a ta b tb : Angle___mul__ Rops (angT a ta) (angT b tb) = ang (red360 (a * b)).
Proof. op_solve. Qed.
Lemma mul_AF a ta y : Angle___mul__ Rops (angT a ta) (VFloat y) = ang (red360 (a * y)).
Proof. op_solve. Qed.
Lemma mul_AI a ta z : Angle___mul__ Rops (angT a ta) (VInt z) = ang (red360 (a * IZR z)).
Proof. op_solve. Qed.
Lemma rmul_AF a ta y : Angle___rmul__ Rops (angT a ta) (VFloat y) = ang (red360 (a * y)).
Proof. op_solve. Qed.
Lemma rmul_AI a ta z : Angle___rmul__ Rops (angT a ta) (VInt z) = ang (red360 (a * IZR z)).
Proof. op_solve. Qed.
Lemma imul_AA a ta b tb : Angle___imul__ Rops (angT a ta) (angT b tb) = ang (red360 (a * b)).
Proof. op_solve. Qed.
Lemma imul_AF a ta y : Angle___imul__ Rops (angT a ta) (VFloat y) = ang (red360 (a * y)).
Proof. op_solve. Qed.
Lemma imul_AI a ta z : Angle___imul__ Rops (angT a ta) (VInt z) = ang (red360 (a * IZR z)).
Proof. op_solve. Qed.

(* ------------------------------------------------------------------ division *)
(* an Angle divisor counts as zero when |b| < its tolerance; a number when it is 0 *)
Lemma div_AA a ta b tb : tb <= Rabs b -> b <> 0 ->
  Angle___truediv__ Rops (angT a ta) (angT b tb) = ang (red360 (a / b)).
Proof. intros H1 H2. assert (tb <= Rabs (b - 0)) by (replace (b - 0) with b by lra; lra). op_solve. Qed.
Lemma div_AA_zero a ta b tb : Rabs b < tb ->
  Angle___truediv__ Rops (angT a ta) (angT b tb) = VErr ZeroDivisionError.
Proof. intros H1. assert (Rabs (b - 0) < tb) by (replace (b - 0) with b by lra; lra). op_solve. Qed.
Lemma div_AF a ta y : y <> 0 -> Angle___truediv__ Rops (angT a ta) (VFloat y) = ang (red360 (a / y)).
Proof. intros H. op_solve. Qed.
Lemma div_AF_zero a ta : Angle___truediv__ Rops (angT a ta) (VFloat 0) = VErr ZeroDivisionError.
Proof. op_solve. Qed.
Lemma div_AI a ta z : z <> 0%Z -> Angle___truediv__ Rops (angT a ta) (VInt z) = ang (red360 (a / IZR z)).
Proof.
  intros H. assert (IZR z <> 0) by (intro E; apply eq_IZR in E; contradiction).
  assert ((z =? 0)%Z = false) as Hz by (apply Z.eqb_neq; assumption).
  destruct z as [|p|p]; [contradiction | |].
  - op_solve.
  - op_solve.
Qed.
Lemma div_AI_zero a ta : Angle___truediv__ Rops (angT a ta) (VInt 0) = VErr ZeroDivisionError.
Proof. op_solve. Qed.
Lemma div_old_AF a ta y : y <> 0 -> Angle___div__ Rops (angT a ta) (VFloat y) = ang (red360 (a / y)).
Proof. intros H. op_solve. Qed.
(* in-place *)
Lemma idiv_AA a ta b tb : tb <= Rabs b -> b <> 0 ->
  Angle___itruediv__ Rops (angT a ta) (angT b tb) = ang (red360 (a / b)).
Proof. intros H1 H2. assert (tb <= Rabs (b - 0)) by (replace (b - 0) with b by lra; lra). op_solve. Qed.
Lemma idiv_AA_zero a ta b tb : Rabs b < tb ->
  Angle___itruediv__ Rops (angT a ta) (angT b tb) = VErr ZeroDivisionError.
Proof. intros H1. assert (Rabs (b - 0) < tb) by (replace (b - 0) with b by lra; lra). op_solve. Qed.
Lemma idiv_AF a ta y : y <> 0 -> Angle___itruediv__ Rops (angT a ta) (VFloat y) = ang (red360 (a / y)).
Proof. intros H. op_solve. Qed.
Lemma idiv_AF_zero a ta : Angle___itruediv__ Rops (angT a ta) (VFloat 0) = VErr ZeroDivisionError.
Proof. op_solve. Qed.
(* reflected: y / a; the Angle a counts as zero when |a| < its tolerance *)
Lemma rdiv_AF a ta y : ta <= Rabs a -> a <> 0 ->
  Angle___rtruediv__ Rops (angT a ta) (VFloat y) = ang (red360 (y / a)).
Proof. intros H1 H2. assert (ta <= Rabs (a - 0)) by (replace (a - 0) with a by lra; lra). op_solve. Qed.
Lemma rdiv_AI a ta z : ta <= Rabs a -> a <> 0 ->
  Angle___rtruediv__ Rops (angT a ta) (VInt z) = ang (red360 (IZR z / a)).
Proof. intros H1 H2. assert (ta <= Rabs (a - 0)) by (replace (a - 0) with a by lra; lra). op_solve. Qed.
Lemma rdiv_AF_zero a ta y : Rabs a < ta ->
  Angle___rtruediv__ Rops (angT a ta) (VFloat y) = VErr ZeroDivisionError.
Proof. intros H1. assert (Rabs (a - 0) < ta) by (replace (a - 0) with a by lra; lra). op_solve. Qed.
Lemma rdiv_AI_zero a ta z : Rabs a < ta ->
  Angle___rtruediv__ Rops (angT a ta) (VInt z) = VErr ZeroDivisionError.
Proof. intros H1. assert (Rabs (a - 0) < ta) by (replace (a - 0) with a by lra; lra). op_solve. Qed.

(* -------------------------------------------------------------------- modulo *)
(* documented reading: the sign of the left value times (|a| mod b) *)
Lemma mod_AF a ta y : 0 < y ->
  Angle___mod__ Rops (angT a ta) (VFloat y) = ang (red360 (sgn a * Rfmod (Rabs a) y)).
Proof.
  intros Hy. pose proof (Rabs_pos a). unfold sgn. destruct (Rle_dec 0 a).
  - op_solve. fin_lra.
  - op_solve. fin_lra.
Qed.
Lemma mod_AA a ta b tb : 0 < b ->
  Angle___mod__ Rops (angT a ta) (angT b tb) = ang (red360 (sgn a * Rfmod (Rabs a) b)).
Proof.
  intros Hy. pose proof (Rabs_pos a). unfold sgn. destruct (Rle_dec 0 a).
  - op_solve. fin_lra.
  - op_solve. fin_lra.
Qed.
Lemma imod_AF a ta y : 0 < y ->
  Angle___imod__ Rops (angT a ta) (VFloat y) = ang (red360 (sgn a * Rfmod (Rabs a) y)).
Proof.
  intros Hy. pose proof (Rabs_pos a). unfold sgn. destruct (Rle_dec 0 a).
  - op_solve. fin_lra.
  - op_solve. fin_lra.
Qed.
Lemma imod_AA a ta b tb : 0 < b ->
  Angle___imod__ Rops (angT a ta) (angT b tb) = ang (red360 (sgn a * Rfmod (Rabs a) b)).
Proof.
  intros Hy. pose proof (Rabs_pos a). unfold sgn. destruct (Rle_dec 0 a).
  - op_solve. fin_lra.
  - op_solve. fin_lra.
Qed.
Lemma mod_AF_zero a ta : Angle___mod__ Rops (angT a ta) (VFloat 0) = VErr ZeroDivisionError.
Proof. destruct (Rle_dec 0 a). - op_solve. - op_solve. Qed.
Lemma mod_AI a ta p :
  Angle___mod__ Rops (angT a ta) (VInt (Z.pos p)) = ang (red360 (sgn a * Rfmod (Rabs a) (IZR (Z.pos p)))).
Proof.
  pose proof (Rabs_pos a). assert (0 < IZR (Z.pos p)) by (apply IZR_lt; lia).
  unfold sgn. destruct (Rle_dec 0 a).
  - op_solve. fin_lra.
  - op_solve. fin_lra.
Qed.
(* reflected: the number is first converted to an Angle (i.e. reduced), then as above *)
Lemma rmod_AF a ta y : 0 < a ->
  Angle___rmod__ Rops (angT a ta) (VFloat y) = ang (red360 (sgn (red360 y) * Rfmod (Rabs (red360 y)) a)).
Proof.
  intros Ha. pose proof (Rabs_pos (red360 y)). unfold sgn. destruct (Rle_dec 0 (red360 y)).
  - op_solve. fin_lra.
  - op_solve. fin_lra.
Qed.
Lemma rmod_AI a ta z : 0 < a ->
  Angle___rmod__ Rops (angT a ta) (VInt z) =
  ang (red360 (sgn (red360 (IZR z)) * Rfmod (Rabs (red360 (IZR z))) a)).
Proof.
  intros Ha. pose proof (Rabs_pos (red360 (IZR z))). unfold sgn. destruct (Rle_dec 0 (red360 (IZR z))).
  - op_solve. fin_lra.
  - op_solve. fin_lra.
Qed.

(* --------------------------------------------------------------------- power *)
(* positive base: a ** y is the real power (1 for y = 0); the result is reduced like any other *)
Lemma pow_AF a ta y : 0 < a -> y <> 0 ->
  Angle___pow__ Rops (angT a ta) (VFloat y) = ang (red360 (Rpower a y)).
Proof. intros Ha Hy. unfold angT. pyrunA. unfold Rpow. destruct (Rlt_dec 0 a); [reflexivity | lra]. Qed.
Lemma pow_AA a ta b tb : 0 < a -> b <> 0 ->
  Angle___pow__ Rops (angT a ta) (angT b tb) = ang (red360 (Rpower a b)).
Proof. intros Ha Hy. unfold angT. pyrunA. unfold Rpow. destruct (Rlt_dec 0 a); [reflexivity | lra]. Qed.
Lemma pow_AF_zero_exp a ta : Angle___pow__ Rops (angT a ta) (VFloat 0) = ang (red360 1).
Proof. op_solve. Qed.
Lemma ipow_AF a ta y : 0 < a -> y <> 0 ->
  Angle___ipow__ Rops (angT a ta) (VFloat y) = ang (red360 (Rpower a y)).
Proof. intros Ha Hy. unfold angT. pyrunA. unfold Rpow. destruct (Rlt_dec 0 a); [reflexivity | lra]. Qed.
Lemma rpow_AF a ta y : 0 < y -> a <> 0 ->
  Angle___rpow__ Rops (angT a ta) (VFloat y) = ang (red360 (Rpower y a)).
Proof. intros Ha Hy. unfold angT. pyrunA. unfold Rpow. destruct (Rlt_dec 0 y); [reflexivity | lra]. Qed.

(* --------------------------------------------------------------------- unary *)
Lemma neg_A a ta : Angle___neg__ Rops (angT a ta) = ang (red360 (- a)).
Proof. op_solve. Qed.
Lemma abs_A a ta : Angle___abs__ Rops (angT a ta) = ang (red360 (Rabs a)).
Proof. op_solve. Qed.
Lemma round_A a ta n : Angle___round__ Rops (angT a ta) (VInt n) = ang (red360 (Rround_nd a n)).
Proof. op_solve. Qed.

(* --------------------------------------------------------------- comparisons *)
Lemma lt_AA a ta b tb : Angle___lt__ Rops (angT a ta) (angT b tb) = VBool (Rltb a b).
Proof. op_solve. Qed.
Lemma lt_AF a ta y : Angle___lt__ Rops (angT a ta) (VFloat y) = VBool (Rltb a y).
Proof. op_solve. Qed.
Lemma gt_AA a ta b tb : Angle___gt__ Rops (angT a ta) (angT b tb) = VBool (Rltb b a).
Proof. op_solve. Qed.
Lemma gt_AF a ta y : Angle___gt__ Rops (angT a ta) (VFloat y) = VBool (Rltb y a).
Proof. op_solve. Qed.
Ltac cmp_fin :=
  unfold angT; pyrunA;
  first [ reflexivity
        | rewrite (proj2 (Rltb_true _ _)) by lra; reflexivity
        | rewrite (proj2 (Rltb_false _ _)) by lra; reflexivity ].
Lemma ge_AA a ta b tb : Angle___ge__ Rops (angT a ta) (angT b tb) = VBool (negb (Rltb a b)).
Proof. destruct (Rlt_dec a b). - cmp_fin. - cmp_fin. Qed.
Lemma le_AA a ta b tb : Angle___le__ Rops (angT a ta) (angT b tb) = VBool (negb (Rltb b a)).
Proof. destruct (Rlt_dec b a). - cmp_fin. - cmp_fin. Qed.
(* equality: within the tolerance of the left operand *)
Lemma eq_AA a ta b tb : Angle___eq__ Rops (angT a ta) (angT b tb) = VBool (Rltb (Rabs (a - b)) ta).
Proof. op_solve. Qed.
Lemma eq_AF a ta y : Angle___eq__ Rops (angT a ta) (VFloat y) = VBool (Rltb (Rabs (a - y)) ta).
Proof. op_solve. Qed.
Lemma ne_AA a ta b tb : Angle___ne__ Rops (angT a ta) (angT b tb) = VBool (negb (Rltb (Rabs (a - b)) ta)).
Proof. destruct (Rlt_dec (Rabs (a - b)) ta). - cmp_fin. - cmp_fin. Qed.

(* ------------------------------------------------------ additions (audit follow-up) *)
(* zero modulus in every form: Angle % 0.0 (in-place too), % int 0, % Angle holding exactly 0,
   number % Angle holding exactly 0 *)
Lemma imod_AF_zero a ta : Angle___imod__ Rops (angT a ta) (VFloat 0) = VErr ZeroDivisionError.
Proof. destruct (Rle_dec 0 a). - op_solve. - op_solve. Qed.
Lemma mod_AI_zero a ta : Angle___mod__ Rops (angT a ta) (VInt 0) = VErr ZeroDivisionError.
Proof. destruct (Rle_dec 0 a). - op_solve. - op_solve. Qed.
Lemma mod_AA_zero a ta tb : Angle___mod__ Rops (angT a ta) (angT 0 tb) = VErr ZeroDivisionError.
Proof. destruct (Rle_dec 0 a). - op_solve. - op_solve. Qed.
Lemma rmod_AF_zero ta y : Angle___rmod__ Rops (angT 0 ta) (VFloat y) = VErr ZeroDivisionError.
Proof. destruct (Rle_dec 0 (red360 y)). - op_solve. - op_solve. Qed.

(* comparisons with a float on the right: <=, >=, != *)
Lemma ge_AF a ta y : Angle___ge__ Rops (angT a ta) (VFloat y) = VBool (negb (Rltb a y)).
Proof. destruct (Rlt_dec a y). - cmp_fin. - cmp_fin. Qed.
Lemma le_AF a ta y : Angle___le__ Rops (angT a ta) (VFloat y) = VBool (negb (Rltb y a)).
Proof. destruct (Rlt_dec y a). - cmp_fin. - cmp_fin. Qed.
Lemma ne_AF a ta y : Angle___ne__ Rops (angT a ta) (VFloat y) = VBool (negb (Rltb (Rabs (a - y)) ta)).
Proof. destruct (Rlt_dec (Rabs (a - y)) ta). - cmp_fin. - cmp_fin. Qed.
