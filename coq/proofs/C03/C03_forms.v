(* C03: the sexagesimal constructor forms all go through Angle.dms2deg on the same pieces:
   separate arguments = tuple = list; two pieces = seconds 0; with ra=True the result is
   multiplied by 15 and reduced again.  dms2deg and reduce_deg are abstracted here. *)
From Coq Require Import Reals ZArith List Bool Lra Lia String.
From PyLib Require Import PyVal PyBuiltins Ideal IdealFacts Whnf PyEval.
From Spec Require Import AngleSpec.
From Gen Require Import M_base M_Angle.
From Proofs.C03 Require Import C03_defs C03_tac C03_reduce.
Import ListNotations.
Open Scope R_scope.

Ltac2 Set Whnf.is_blocked as old := fun c =>
  Ltac2.Bool.or (old c)
    (Ltac2.Bool.or (Ltac2.Constr.equal c '@Angle_reduce_deg) (Ltac2.Constr.equal c '@Angle_dms2deg)).

Ltac pyA_hook s tac ::=
  lazymatch s with
  | Angle_reduce_deg Rops (VFloat ?x) => rewrite (reduce_deg_float x)
  | Angle_dms2deg Rops ?a ?b ?c =>
      (* the hypothesis about dms2deg may write the literal 0.0 differently (convertible) *)
      match goal with H : Angle_dms2deg Rops a b ?c' = _ |- _ =>
        change (Angle_dms2deg Rops a b c) with (Angle_dms2deg Rops a b c'); rewrite H end
  end.


(* pieces given as floats *)
Lemma forms3 d m s r :
  Angle_dms2deg Rops (VFloat d) (VFloat m) (VFloat s) = VFloat r ->
  mkA [VFloat d; VFloat m; VFloat s] = ang r /\
  mkA [VTuple [VFloat d; VFloat m; VFloat s]] = ang r /\
  mkA [VList [VFloat d; VFloat m; VFloat s]] = ang r /\
  mkA_kw [VFloat d; VFloat m; VFloat s] "ra" = ang (red360 (r * 15)).
Proof.
  intros H. unfold mkA, mkA_kw, blank, no_kw. repeat split.
  - pyrunA. reflexivity.
  - pyrunA. reflexivity.
  - pyrunA. reflexivity.
  - pyrunA. Rlit_norm. assert (150 / 10 = 15) as -> by lra. reflexivity.
Qed.

Lemma forms2 d m r :
  Angle_dms2deg Rops (VFloat d) (VFloat m) (VFloat (Rlit 0 (-1))) = VFloat r ->
  mkA [VFloat d; VFloat m] = ang r /\
  mkA [VTuple [VFloat d; VFloat m]] = ang r /\
  mkA [VList [VFloat d; VFloat m]] = ang r.
Proof.
  intros H. unfold mkA, blank, no_kw. repeat split.
  - pyrunA. reflexivity.
  - pyrunA. reflexivity.
  - pyrunA. reflexivity.
Qed.

(* integer pieces (Angle(12, 30, 15)) and int degrees/minutes with float seconds *)
Lemma forms3_III d m s r :
  Angle_dms2deg Rops (VInt d) (VInt m) (VInt s) = VFloat r ->
  mkA [VInt d; VInt m; VInt s] = ang r /\
  mkA [VTuple [VInt d; VInt m; VInt s]] = ang r /\
  mkA [VList [VInt d; VInt m; VInt s]] = ang r /\
  mkA_kw [VInt d; VInt m; VInt s] "ra" = ang (red360 (r * 15)).
Proof.
  intros H. unfold mkA, mkA_kw, blank, no_kw. repeat split.
  - pyrunA. reflexivity.
  - pyrunA. reflexivity.
  - pyrunA. reflexivity.
  - pyrunA. Rlit_norm. assert (150 / 10 = 15) as -> by lra. reflexivity.
Qed.
Lemma forms3_IIF d m s r :
  Angle_dms2deg Rops (VInt d) (VInt m) (VFloat s) = VFloat r ->
  mkA [VInt d; VInt m; VFloat s] = ang r /\
  mkA [VTuple [VInt d; VInt m; VFloat s]] = ang r /\
  mkA [VList [VInt d; VInt m; VFloat s]] = ang r /\
  mkA_kw [VInt d; VInt m; VFloat s] "ra" = ang (red360 (r * 15)).
Proof.
  intros H. unfold mkA, mkA_kw, blank, no_kw. repeat split.
  - pyrunA. reflexivity.
  - pyrunA. reflexivity.
  - pyrunA. reflexivity.
  - pyrunA. Rlit_norm. assert (150 / 10 = 15) as -> by lra. reflexivity.
Qed.
