(* C03_ra_b64: binary64 instance, EVERY finite float: Angle.set_ra(x) (hours -> degrees) and
   Angle.dms2deg on canonical sexagesimal pieces: the roundings involved, stated exactly. *)
From Coq Require Import ZArith Reals Lra Lia Bool List.
From Coq Require Import Uint63 Floats.
From Flocq Require Import Core BinarySingleNaN PrimFloat.
From PyLib Require Import PyVal PyBuiltins B64 B64Verified B64Mono Whnf PyEval B64Eval.
From Spec Require Import AngleSpec.
From Gen Require Import M_base M_Angle.
From Proofs.C03 Require Import C03_reduce_b64 C03_b64.
Import ListNotations.
Open Scope R_scope.

From Ltac2 Require Ltac2.
Ltac2 Set Whnf.is_blocked as old := fun c =>
  Ltac2.Bool.or (old c) (Ltac2.Constr.equal c '@Angle_reduce_deg).

Lemma RV_15 : RV 15%float = 15.
Proof. rewrite RV_SF. vm_compute Prim2SF. unfold SF2R, F2R. simpl. lra. Qed.
Lemma fin_15 : fin 15%float.
Proof. apply fin_prim. reflexivity. Qed.

(* set_ra(x), every finite float x (hours): the stored value is red360 of the ONE rounded product
   RN(red360(x) * 15): both reductions are exact, the only rounding is the multiplication by 15
   (relative error 2^-53, i.e. below 2^-41 = 4.5e-13 degree) *)
Theorem set_ra_b64 x d0 t0 : fin x ->
  exists r, Angle_set_ra B0 (angb d0 t0) (VTuple [VFloat x]) = VTuple [angb r t0; VNone] /\ fin r /\
            RV r = red360 (RN (red360 (RV x) * 15)) /\ Rabs (RV r) < 360 /\
            Rabs (RN (red360 (RV x) * 15) - red360 (RV x) * 15) <= bpow radix2 (-41).
Proof.
  intro Fx. destruct (reduce_deg_b64_exact x Fx) as (r1 & E1 & F1 & H1).
  pose proof (red360_range (RV x)) as Hr1.
  assert (Rabs (RV r1 * RV 15) <= 5400) as Hb by (rewrite RV_15, H1; apply Rabs_le; lra).
  destruct (mul_R r1 15 F1 fin_15) as [A B].
  { apply RN_lt_emax. eapply Rle_trans; [exact Hb|]. apply Rle_trans with (bpow radix2 13); [change (bpow radix2 13) with 8192; lra | apply bpow_le; discriminate]. }
  destruct (reduce_deg_b64_exact (r1 * 15)%float B) as (r2 & E2 & F2 & H2).
  exists r2. split; [unfold Angle_set_ra, angb; b64run; reflexivity|]. split; [exact F2|].
  rewrite A, RV_15, H1 in H2. split; [exact H2|]. split.
  - rewrite H2. pose proof (red360_range (RN (red360 (RV x) * 15))). apply Rabs_def1; lra.
  - eapply Rle_trans; [apply error_le_half_ulp; apply fexp64_valid|].
    set (v := red360 (RV x) * 15). assert (Rabs v <= 5400) as Hv by (unfold v; apply Rabs_le; lra).
    assert (ulp radix2 fexp64 v <= bpow radix2 (-40)) as Hu.
    { apply Rle_trans with (ulp radix2 fexp64 5400).
      { apply ulp_le; [apply fexp64_valid | apply fexp64_mono |]. rewrite (Rabs_pos_eq 5400) by lra. exact Hv. }
      rewrite ulp_neq_0 by lra. unfold cexp.
      assert (mag radix2 5400 = 13%Z :> Z) as ->.
      { apply mag_unique. rewrite Rabs_pos_eq by lra. change (bpow radix2 (13 - 1)) with 4096. change (bpow radix2 13) with 8192. lra. }
      change (fexp64 13) with (-40)%Z. lra. }
    assert (bpow radix2 (-41) = / 2 * bpow radix2 (-40)) as ->
      by (change (-41)%Z with (-1 + -40)%Z; rewrite bpow_plus; reflexivity).
    pose proof (bpow_gt_0 radix2 (-40)). lra.
Qed.
