(* C03: Angle.reduce_dms on INTEGER degrees and minutes (canonical: |m| < 60, |s| < 60), seconds a
   float or an int, every sign pattern - ideal instance. *)
From Coq Require Import Reals ZArith List Bool Lra Lia String.
From PyLib Require Import PyVal PyBuiltins Ideal IdealFacts Whnf PyEval.
From Spec Require Import AngleSpec.
From Gen Require Import M_base M_Angle.
From Proofs.C03 Require Import C03_defs C03_tac C03_reduce.
Import ListNotations.
Open Scope R_scope.

Ltac pyA_hook s tac ::=
  lazymatch s with
  | fmod_py Rops ?x ?y => rewrite (fmod_py_nonneg x y) by (expose_R; tac)
  end.

(* decisions: hypotheses, linear arithmetic, and  n mod 1 = 0  for the integer % 1 *)
Ltac dmsi_tac :=
  first [ assumption
        | Rlit_norm_all; lra
        | rewrite ?Z.mod_1_r; Rlit_norm_all; simpl; lra ].

(* -1 iff a piece is negative *)
Definition neg3 (d m : Z) (s : R) : R :=
  if (d <? 0)%Z then -1 else if (m <? 0)%Z then -1 else if Rlt_dec s 0 then -1 else 1.

Definition neg3Z (d m s : Z) : R :=
  if (d <? 0)%Z then -1 else if (m <? 0)%Z then -1 else if (s <? 0)%Z then -1 else 1.

Ltac leaf :=
  pyrunA_using dmsi_tac; unfold neg3, neg3Z; cbn [Z.ltb Z.compare];
  repeat (destruct (Rlt_dec _ 0); try lra);
  Rlit_norm; try (replace (10 / 10) with 1 by lra); try (replace (-10 / 10) with (-1) by lra);
  reflexivity.

(* int degrees, int minutes, float seconds *)
Lemma reduce_dms_IIF d m s : (Z.abs m < 60)%Z -> Rabs s < 60 ->
  Angle_reduce_dms Rops (VInt d) (VInt m) (VFloat s) =
  VTuple [VInt (Z.abs d mod 360); VInt (Z.abs m); VFloat (Rabs s); VFloat (neg3 d m s)].
Proof.
  intros Hm Hs. pose proof (Rabs_pos s) as Hs0.
  assert (IZR (Z.abs m) < 60) as Hm' by (apply IZR_lt; exact Hm).
  destruct d as [|p|p]; destruct m as [|q|q]; destruct (Rlt_dec s 0) as [Ns|Ns].
  1: leaf.
  1: leaf.
  1: leaf.
  1: leaf.
  1: leaf.
  1: leaf.
  1: leaf.
  1: leaf.
  1: leaf.
  1: leaf.
  1: leaf.
  1: leaf.
  1: leaf.
  1: leaf.
  1: leaf.
  1: leaf.
  1: leaf.
  1: leaf.
Qed.

(* all three pieces ints *)
Lemma reduce_dms_III d m s : (Z.abs m < 60)%Z -> (Z.abs s < 60)%Z ->
  Angle_reduce_dms Rops (VInt d) (VInt m) (VInt s) =
  VTuple [VInt (Z.abs d mod 360); VInt (Z.abs m); VInt (Z.abs s); VFloat (neg3Z d m s)].
Proof.
  intros Hm Hs.
  assert (IZR (Z.abs m) < 60) as Hm' by (apply IZR_lt; exact Hm).
  assert (IZR (Z.abs s) < 60) as Hs' by (apply IZR_lt; exact Hs).
  destruct d as [|p|p]; destruct m as [|q|q]; destruct s as [|r|r].
  1: leaf.
  1: leaf.
  1: leaf.
  1: leaf.
  1: leaf.
  1: leaf.
  1: leaf.
  1: leaf.
  1: leaf.
  1: leaf.
  1: leaf.
  1: leaf.
  1: leaf.
  1: leaf.
  1: leaf.
  1: leaf.
  1: leaf.
  1: leaf.
  1: leaf.
  1: leaf.
  1: leaf.
  1: leaf.
  1: leaf.
  1: leaf.
  1: leaf.
  1: leaf.
  1: leaf.
Qed.
