(* Property C13 -- planetary event finders: statements only; proofs in C13_f_*.v (one per finder,
   against the model regenerated from /repo), C13_main.v and Spec/Finder.v.
   Instance: ideal (real arithmetic) reading of the generated code; Epoch.year and the
   final constructor call Epoch(x) are not entered (hypotheses year_is / Epoch_of). *)
From Coq Require Import Reals ZArith List Bool Lra Lia String.
From PyLib Require Import PyVal PyBuiltins Ideal.
From Spec Require Import Finder.
From Gen Require Import M_base M_Angle M_Epoch M_Mercury M_Venus M_Mars M_Jupiter M_Saturn M_Uranus M_Neptune.
From Proofs.C13 Require Import C13_defs C13_main.
From Proofs.C13 Require C13_f_Jupiter_conjunction.
From Proofs.C13 Require C13_f_Jupiter_opposition.
From Proofs.C13 Require C13_f_Jupiter_station_longitude_1.
From Proofs.C13 Require C13_f_Jupiter_station_longitude_2.
From Proofs.C13 Require C13_f_Mars_conjunction.
From Proofs.C13 Require C13_f_Mars_opposition.
From Proofs.C13 Require C13_f_Mars_station_longitude_1.
From Proofs.C13 Require C13_f_Mars_station_longitude_2.
From Proofs.C13 Require C13_f_Mercury_eastern_elongation.
From Proofs.C13 Require C13_f_Mercury_inferior_conjunction.
From Proofs.C13 Require C13_f_Mercury_station_longitude_1.
From Proofs.C13 Require C13_f_Mercury_station_longitude_2.
From Proofs.C13 Require C13_f_Mercury_superior_conjunction.
From Proofs.C13 Require C13_f_Mercury_western_elongation.
From Proofs.C13 Require C13_f_Neptune_conjunction.
From Proofs.C13 Require C13_f_Neptune_opposition.
From Proofs.C13 Require C13_f_Saturn_conjunction.
From Proofs.C13 Require C13_f_Saturn_opposition.
From Proofs.C13 Require C13_f_Saturn_station_longitude_1.
From Proofs.C13 Require C13_f_Saturn_station_longitude_2.
From Proofs.C13 Require C13_f_Uranus_conjunction.
From Proofs.C13 Require C13_f_Uranus_opposition.
From Proofs.C13 Require C13_f_Venus_eastern_elongation.
From Proofs.C13 Require C13_f_Venus_inferior_conjunction.
From Proofs.C13 Require C13_f_Venus_station_longitude_1.
From Proofs.C13 Require C13_f_Venus_station_longitude_2.
From Proofs.C13 Require C13_f_Venus_superior_conjunction.
From Proofs.C13 Require C13_f_Venus_western_elongation.
Import ListNotations.
Open Scope R_scope.

(* 1. Each finder of the regenerated model: for a query whose Epoch.year is y in -2000..4000 it returns
   Epoch(A + k B + cr k) with k = round((365.2425 y + 1721060 - A)/B) and cr the periodic-term sum written
   out in C13_f_*.v (every coefficient), |cr k - c0| <= C, 2C < B <= 800; ValueError outside -2000..4000;
   TypeError for None/bool/int/float/str.  Elongation finders also return Angle(el k), 0 <= el k < 360. *)
Theorem C13_Jupiter_conjunction : finder_props (Jupiter_conjunction Rops) C13_f_Jupiter_conjunction.A C13_f_Jupiter_conjunction.B C13_f_Jupiter_conjunction.c0 C13_f_Jupiter_conjunction.C C13_f_Jupiter_conjunction.cr.
Proof. exact C13_f_Jupiter_conjunction.ok. Qed.
Theorem C13_Jupiter_opposition : finder_props (Jupiter_opposition Rops) C13_f_Jupiter_opposition.A C13_f_Jupiter_opposition.B C13_f_Jupiter_opposition.c0 C13_f_Jupiter_opposition.C C13_f_Jupiter_opposition.cr.
Proof. exact C13_f_Jupiter_opposition.ok. Qed.
Theorem C13_Jupiter_station_longitude_1 : finder_props (Jupiter_station_longitude_1 Rops) C13_f_Jupiter_station_longitude_1.A C13_f_Jupiter_station_longitude_1.B C13_f_Jupiter_station_longitude_1.c0 C13_f_Jupiter_station_longitude_1.C C13_f_Jupiter_station_longitude_1.cr.
Proof. exact C13_f_Jupiter_station_longitude_1.ok. Qed.
Theorem C13_Jupiter_station_longitude_2 : finder_props (Jupiter_station_longitude_2 Rops) C13_f_Jupiter_station_longitude_2.A C13_f_Jupiter_station_longitude_2.B C13_f_Jupiter_station_longitude_2.c0 C13_f_Jupiter_station_longitude_2.C C13_f_Jupiter_station_longitude_2.cr.
Proof. exact C13_f_Jupiter_station_longitude_2.ok. Qed.
Theorem C13_Mars_conjunction : finder_props (Mars_conjunction Rops) C13_f_Mars_conjunction.A C13_f_Mars_conjunction.B C13_f_Mars_conjunction.c0 C13_f_Mars_conjunction.C C13_f_Mars_conjunction.cr.
Proof. exact C13_f_Mars_conjunction.ok. Qed.
Theorem C13_Mars_opposition : finder_props (Mars_opposition Rops) C13_f_Mars_opposition.A C13_f_Mars_opposition.B C13_f_Mars_opposition.c0 C13_f_Mars_opposition.C C13_f_Mars_opposition.cr.
Proof. exact C13_f_Mars_opposition.ok. Qed.
Theorem C13_Mars_station_longitude_1 : finder_props (Mars_station_longitude_1 Rops) C13_f_Mars_station_longitude_1.A C13_f_Mars_station_longitude_1.B C13_f_Mars_station_longitude_1.c0 C13_f_Mars_station_longitude_1.C C13_f_Mars_station_longitude_1.cr.
Proof. exact C13_f_Mars_station_longitude_1.ok. Qed.
Theorem C13_Mars_station_longitude_2 : finder_props (Mars_station_longitude_2 Rops) C13_f_Mars_station_longitude_2.A C13_f_Mars_station_longitude_2.B C13_f_Mars_station_longitude_2.c0 C13_f_Mars_station_longitude_2.C C13_f_Mars_station_longitude_2.cr.
Proof. exact C13_f_Mars_station_longitude_2.ok. Qed.
Theorem C13_Mercury_eastern_elongation : finder_props2 (Mercury_eastern_elongation Rops) C13_f_Mercury_eastern_elongation.A C13_f_Mercury_eastern_elongation.B C13_f_Mercury_eastern_elongation.c0 C13_f_Mercury_eastern_elongation.C C13_f_Mercury_eastern_elongation.cr C13_f_Mercury_eastern_elongation.el.
Proof. exact C13_f_Mercury_eastern_elongation.ok. Qed.
Theorem C13_Mercury_inferior_conjunction : finder_props (Mercury_inferior_conjunction Rops) C13_f_Mercury_inferior_conjunction.A C13_f_Mercury_inferior_conjunction.B C13_f_Mercury_inferior_conjunction.c0 C13_f_Mercury_inferior_conjunction.C C13_f_Mercury_inferior_conjunction.cr.
Proof. exact C13_f_Mercury_inferior_conjunction.ok. Qed.
Theorem C13_Mercury_station_longitude_1 : finder_props (Mercury_station_longitude_1 Rops) C13_f_Mercury_station_longitude_1.A C13_f_Mercury_station_longitude_1.B C13_f_Mercury_station_longitude_1.c0 C13_f_Mercury_station_longitude_1.C C13_f_Mercury_station_longitude_1.cr.
Proof. exact C13_f_Mercury_station_longitude_1.ok. Qed.
Theorem C13_Mercury_station_longitude_2 : finder_props (Mercury_station_longitude_2 Rops) C13_f_Mercury_station_longitude_2.A C13_f_Mercury_station_longitude_2.B C13_f_Mercury_station_longitude_2.c0 C13_f_Mercury_station_longitude_2.C C13_f_Mercury_station_longitude_2.cr.
Proof. exact C13_f_Mercury_station_longitude_2.ok. Qed.
Theorem C13_Mercury_superior_conjunction : finder_props (Mercury_superior_conjunction Rops) C13_f_Mercury_superior_conjunction.A C13_f_Mercury_superior_conjunction.B C13_f_Mercury_superior_conjunction.c0 C13_f_Mercury_superior_conjunction.C C13_f_Mercury_superior_conjunction.cr.
Proof. exact C13_f_Mercury_superior_conjunction.ok. Qed.
Theorem C13_Mercury_western_elongation : finder_props2 (Mercury_western_elongation Rops) C13_f_Mercury_western_elongation.A C13_f_Mercury_western_elongation.B C13_f_Mercury_western_elongation.c0 C13_f_Mercury_western_elongation.C C13_f_Mercury_western_elongation.cr C13_f_Mercury_western_elongation.el.
Proof. exact C13_f_Mercury_western_elongation.ok. Qed.
Theorem C13_Neptune_conjunction : finder_props (Neptune_conjunction Rops) C13_f_Neptune_conjunction.A C13_f_Neptune_conjunction.B C13_f_Neptune_conjunction.c0 C13_f_Neptune_conjunction.C C13_f_Neptune_conjunction.cr.
Proof. exact C13_f_Neptune_conjunction.ok. Qed.
Theorem C13_Neptune_opposition : finder_props (Neptune_opposition Rops) C13_f_Neptune_opposition.A C13_f_Neptune_opposition.B C13_f_Neptune_opposition.c0 C13_f_Neptune_opposition.C C13_f_Neptune_opposition.cr.
Proof. exact C13_f_Neptune_opposition.ok. Qed.
Theorem C13_Saturn_conjunction : finder_props (Saturn_conjunction Rops) C13_f_Saturn_conjunction.A C13_f_Saturn_conjunction.B C13_f_Saturn_conjunction.c0 C13_f_Saturn_conjunction.C C13_f_Saturn_conjunction.cr.
Proof. exact C13_f_Saturn_conjunction.ok. Qed.
Theorem C13_Saturn_opposition : finder_props (Saturn_opposition Rops) C13_f_Saturn_opposition.A C13_f_Saturn_opposition.B C13_f_Saturn_opposition.c0 C13_f_Saturn_opposition.C C13_f_Saturn_opposition.cr.
Proof. exact C13_f_Saturn_opposition.ok. Qed.
Theorem C13_Saturn_station_longitude_1 : finder_props (Saturn_station_longitude_1 Rops) C13_f_Saturn_station_longitude_1.A C13_f_Saturn_station_longitude_1.B C13_f_Saturn_station_longitude_1.c0 C13_f_Saturn_station_longitude_1.C C13_f_Saturn_station_longitude_1.cr.
Proof. exact C13_f_Saturn_station_longitude_1.ok. Qed.
Theorem C13_Saturn_station_longitude_2 : finder_props (Saturn_station_longitude_2 Rops) C13_f_Saturn_station_longitude_2.A C13_f_Saturn_station_longitude_2.B C13_f_Saturn_station_longitude_2.c0 C13_f_Saturn_station_longitude_2.C C13_f_Saturn_station_longitude_2.cr.
Proof. exact C13_f_Saturn_station_longitude_2.ok. Qed.
Theorem C13_Uranus_conjunction : finder_props (Uranus_conjunction Rops) C13_f_Uranus_conjunction.A C13_f_Uranus_conjunction.B C13_f_Uranus_conjunction.c0 C13_f_Uranus_conjunction.C C13_f_Uranus_conjunction.cr.
Proof. exact C13_f_Uranus_conjunction.ok. Qed.
Theorem C13_Uranus_opposition : finder_props (Uranus_opposition Rops) C13_f_Uranus_opposition.A C13_f_Uranus_opposition.B C13_f_Uranus_opposition.c0 C13_f_Uranus_opposition.C C13_f_Uranus_opposition.cr.
Proof. exact C13_f_Uranus_opposition.ok. Qed.
Theorem C13_Venus_eastern_elongation : finder_props2 (Venus_eastern_elongation Rops) C13_f_Venus_eastern_elongation.A C13_f_Venus_eastern_elongation.B C13_f_Venus_eastern_elongation.c0 C13_f_Venus_eastern_elongation.C C13_f_Venus_eastern_elongation.cr C13_f_Venus_eastern_elongation.el.
Proof. exact C13_f_Venus_eastern_elongation.ok. Qed.
Theorem C13_Venus_inferior_conjunction : finder_props (Venus_inferior_conjunction Rops) C13_f_Venus_inferior_conjunction.A C13_f_Venus_inferior_conjunction.B C13_f_Venus_inferior_conjunction.c0 C13_f_Venus_inferior_conjunction.C C13_f_Venus_inferior_conjunction.cr.
Proof. exact C13_f_Venus_inferior_conjunction.ok. Qed.
Theorem C13_Venus_station_longitude_1 : finder_props (Venus_station_longitude_1 Rops) C13_f_Venus_station_longitude_1.A C13_f_Venus_station_longitude_1.B C13_f_Venus_station_longitude_1.c0 C13_f_Venus_station_longitude_1.C C13_f_Venus_station_longitude_1.cr.
Proof. exact C13_f_Venus_station_longitude_1.ok. Qed.
Theorem C13_Venus_station_longitude_2 : finder_props (Venus_station_longitude_2 Rops) C13_f_Venus_station_longitude_2.A C13_f_Venus_station_longitude_2.B C13_f_Venus_station_longitude_2.c0 C13_f_Venus_station_longitude_2.C C13_f_Venus_station_longitude_2.cr.
Proof. exact C13_f_Venus_station_longitude_2.ok. Qed.
Theorem C13_Venus_superior_conjunction : finder_props (Venus_superior_conjunction Rops) C13_f_Venus_superior_conjunction.A C13_f_Venus_superior_conjunction.B C13_f_Venus_superior_conjunction.c0 C13_f_Venus_superior_conjunction.C C13_f_Venus_superior_conjunction.cr.
Proof. exact C13_f_Venus_superior_conjunction.ok. Qed.
Theorem C13_Venus_western_elongation : finder_props2 (Venus_western_elongation Rops) C13_f_Venus_western_elongation.A C13_f_Venus_western_elongation.B C13_f_Venus_western_elongation.c0 C13_f_Venus_western_elongation.C C13_f_Venus_western_elongation.cr C13_f_Venus_western_elongation.el.
Proof. exact C13_f_Venus_western_elongation.ok. Qed.

(* 2. Consequences for every such finder (x = the instant handed to Epoch()): *)
(* as the query year advances the result never moves backwards; a different event is >= B - 2C later *)
Theorem C13_order : forall A B c0 C cr, timing A B c0 C cr -> forall y1 y2,
  -2000 <= y1 -> y1 <= y2 -> y2 <= 4000 ->
  found A B cr y1 <= found A B cr y2 /\
  (kof A B y1 = kof A B y2 \/ found A B cr y1 + (B - 2 * C) <= found A B cr y2).
Proof. exact order. Qed.
(* consecutive events are one period apart within +-2C *)
Theorem C13_spacing : forall A B c0 C cr, timing A B c0 C cr -> forall y1 y2,
  -2000 <= y1 <= 4000 -> -2000 <= y2 <= 4000 -> kof A B y2 = (kof A B y1 + 1)%Z ->
  B - 2 * C <= found A B cr y2 - found A B cr y1 <= B + 2 * C.
Proof. exact spacing. Qed.
(* the event index is non-decreasing in the query year, takes every integer, skips none *)
Theorem C13_index : forall A B, 0 < B ->
  (forall y1 y2, y1 <= y2 -> (kof A B y1 <= kof A B y2)%Z) /\
  (forall k, exists y, kof A B y = k) /\
  (forall y1 y2 k, (kof A B y1 < k < kof A B y2)%Z -> exists y, y1 < y < y2 /\ kof A B y = k).
Proof. intros A B HB. split; [exact (kof_mono A B HB) | split; [exact (kof_onto A B HB) | exact (kof_between A B HB)]]. Qed.
(* distance from the query instant J *)
Theorem C13_near : forall A B c0 C cr, timing A B c0 C cr -> forall y J D,
  -2000 <= y <= 4000 -> Rabs (yinst y - J) <= D ->
  Rabs (found A B cr y - J) <= B / 2 + D + Rabs c0 + C.
Proof. exact near. Qed.
(* every finder has the timing properties *)
Theorem C13_timing1 : forall f A B c0 C cr, finder_props f A B c0 C cr -> timing A B c0 C cr.
Proof. exact timing1. Qed.
Theorem C13_timing2 : forall f A B c0 C cr el, finder_props2 f A B c0 C cr el -> timing A B c0 C cr.
Proof. exact timing2. Qed.

Redirect "C13_Jupiter_conjunction.assumptions" Print Assumptions C13_Jupiter_conjunction.
Redirect "C13_Jupiter_opposition.assumptions" Print Assumptions C13_Jupiter_opposition.
Redirect "C13_Jupiter_station_longitude_1.assumptions" Print Assumptions C13_Jupiter_station_longitude_1.
Redirect "C13_Jupiter_station_longitude_2.assumptions" Print Assumptions C13_Jupiter_station_longitude_2.
Redirect "C13_Mars_conjunction.assumptions" Print Assumptions C13_Mars_conjunction.
Redirect "C13_Mars_opposition.assumptions" Print Assumptions C13_Mars_opposition.
Redirect "C13_Mars_station_longitude_1.assumptions" Print Assumptions C13_Mars_station_longitude_1.
Redirect "C13_Mars_station_longitude_2.assumptions" Print Assumptions C13_Mars_station_longitude_2.
Redirect "C13_Mercury_eastern_elongation.assumptions" Print Assumptions C13_Mercury_eastern_elongation.
Redirect "C13_Mercury_inferior_conjunction.assumptions" Print Assumptions C13_Mercury_inferior_conjunction.
Redirect "C13_Mercury_station_longitude_1.assumptions" Print Assumptions C13_Mercury_station_longitude_1.
Redirect "C13_Mercury_station_longitude_2.assumptions" Print Assumptions C13_Mercury_station_longitude_2.
Redirect "C13_Mercury_superior_conjunction.assumptions" Print Assumptions C13_Mercury_superior_conjunction.
Redirect "C13_Mercury_western_elongation.assumptions" Print Assumptions C13_Mercury_western_elongation.
Redirect "C13_Neptune_conjunction.assumptions" Print Assumptions C13_Neptune_conjunction.
Redirect "C13_Neptune_opposition.assumptions" Print Assumptions C13_Neptune_opposition.
Redirect "C13_Saturn_conjunction.assumptions" Print Assumptions C13_Saturn_conjunction.
Redirect "C13_Saturn_opposition.assumptions" Print Assumptions C13_Saturn_opposition.
Redirect "C13_Saturn_station_longitude_1.assumptions" Print Assumptions C13_Saturn_station_longitude_1.
Redirect "C13_Saturn_station_longitude_2.assumptions" Print Assumptions C13_Saturn_station_longitude_2.
Redirect "C13_Uranus_conjunction.assumptions" Print Assumptions C13_Uranus_conjunction.
Redirect "C13_Uranus_opposition.assumptions" Print Assumptions C13_Uranus_opposition.
Redirect "C13_Venus_eastern_elongation.assumptions" Print Assumptions C13_Venus_eastern_elongation.
Redirect "C13_Venus_inferior_conjunction.assumptions" Print Assumptions C13_Venus_inferior_conjunction.
Redirect "C13_Venus_station_longitude_1.assumptions" Print Assumptions C13_Venus_station_longitude_1.
Redirect "C13_Venus_station_longitude_2.assumptions" Print Assumptions C13_Venus_station_longitude_2.
Redirect "C13_Venus_superior_conjunction.assumptions" Print Assumptions C13_Venus_superior_conjunction.
Redirect "C13_Venus_western_elongation.assumptions" Print Assumptions C13_Venus_western_elongation.
Redirect "C13_order.assumptions" Print Assumptions C13_order.
Redirect "C13_spacing.assumptions" Print Assumptions C13_spacing.
Redirect "C13_index.assumptions" Print Assumptions C13_index.
Redirect "C13_near.assumptions" Print Assumptions C13_near.
Redirect "C13_timing1.assumptions" Print Assumptions C13_timing1.
Redirect "C13_timing2.assumptions" Print Assumptions C13_timing2.
