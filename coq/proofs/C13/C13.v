(* Property C13 -- planetary event finders: statements only; proofs in C13_f_*.v (one per finder,
   against the model regenerated from /repo), C13_main.v and Spec/Finder.v.
   Instance: ideal (real arithmetic) reading of the generated code; Epoch.year and the
   final constructor call Epoch(x) are not entered (hypotheses year_is / Epoch_of). *)
From Coq Require Import Reals ZArith List Bool Lra Lia String.
From PyLib Require Import PyVal PyBuiltins Ideal.
From Spec Require Import Finder.
From Gen Require Import M_base M_Angle M_Epoch.
From Proofs.C13 Require Import C13_defs C13_main.
Import ListNotations.
Open Scope R_scope.

(* 1. Each finder of the regenerated model: for a query whose Epoch.year is y in -2000..4000 it returns
   Epoch(A + k B + cr k) with k = round((365.2425 y + 1721060 - A)/B) and cr the periodic-term sum written
   out in C13_f_*.v (every coefficient), |cr k - c0| <= C, 2C < B <= 800; ValueError outside -2000..4000;
   TypeError for None/bool/int/float/str.  Elongation finders also return Angle(el k), 0 <= el k < 360.
   These 28 statements (C13_<Planet>_<finder>) are in C13_s_<Planet>.v. *)

(* 2. Consequences for every such finder (x = the instant handed to Epoch()): *)
(* as the query year advances the result never moves backwards; a different event is >= B - 2C later *)
Theorem C13_order : forall A B c0 C cr, timing A B c0 C cr -> forall y1 y2,
  -2000 <= y1 -> y1 <= y2 -> y2 <= 4000 ->
  found A B cr y1 <= found A B cr y2 /\
  (kof A B y1 = kof A B y2 \/ found A B cr y1 + (B - 2 * C) <= found A B cr y2).
Proof. exact order. Qed.
(* consecutive events are one period apart within +-2C *)
Theorem C13_spacing : forall A B c0 C cr, timing A B c0 C cr -> forall y1 y2,
  -2000 <= y1 <= 4000 -> -2000 <= y2 <= 4000 -> kof A B y2 = (kof A B y1 + 1)%Z ->
  B - 2 * C <= found A B cr y2 - found A B cr y1 <= B + 2 * C.
Proof. exact spacing. Qed.
(* the event index is non-decreasing in the query year, takes every integer, skips none *)
Theorem C13_index : forall A B, 0 < B ->
  (forall y1 y2, y1 <= y2 -> (kof A B y1 <= kof A B y2)%Z) /\
  (forall k, exists y, kof A B y = k) /\
  (forall y1 y2 k, (kof A B y1 < k < kof A B y2)%Z -> exists y, y1 < y < y2 /\ kof A B y = k).
Proof. intros A B HB. split; [exact (kof_mono A B HB) | split; [exact (kof_onto A B HB) | exact (kof_between A B HB)]]. Qed.
(* distance from the query instant J *)
Theorem C13_near : forall A B c0 C cr, timing A B c0 C cr -> forall y J D,
  -2000 <= y <= 4000 -> Rabs (yinst y - J) <= D ->
  Rabs (found A B cr y - J) <= B / 2 + D + Rabs c0 + C.
Proof. exact near. Qed.
(* every finder has the timing properties *)
Theorem C13_timing1 : forall f A B c0 C cr, finder_props f A B c0 C cr -> timing A B c0 C cr.
Proof. exact timing1. Qed.
Theorem C13_timing2 : forall f A B c0 C cr el, finder_props2 f A B c0 C cr el -> timing A B c0 C cr.
Proof. exact timing2. Qed.

Redirect "C13_order.assumptions" Print Assumptions C13_order.
Redirect "C13_spacing.assumptions" Print Assumptions C13_spacing.
Redirect "C13_index.assumptions" Print Assumptions C13_index.
Redirect "C13_near.assumptions" Print Assumptions C13_near.
Redirect "C13_timing1.assumptions" Print Assumptions C13_timing1.
Redirect "C13_timing2.assumptions" Print Assumptions C13_timing2.
