(* Property C13 -- statements for the Uranus finders (one statement file per planet so that the Print Assumptions
   traversals run in parallel); proofs in C13_f_Uranus_*.v against the model regenerated from /repo. *)
From Coq Require Import Reals ZArith List Bool Lra Lia String.
From PyLib Require Import PyVal PyBuiltins Ideal.
From Spec Require Import Finder.
From Gen Require Import M_base M_Angle M_Epoch M_Uranus.
From Proofs.C13 Require Import C13_defs.
From Proofs.C13 Require C13_f_Uranus_conjunction.
From Proofs.C13 Require C13_f_Uranus_opposition.
Import ListNotations.
Open Scope R_scope.

Theorem C13_Uranus_conjunction : finder_props (Uranus_conjunction Rops) C13_f_Uranus_conjunction.A C13_f_Uranus_conjunction.B C13_f_Uranus_conjunction.c0 C13_f_Uranus_conjunction.C C13_f_Uranus_conjunction.cr.
Proof. exact C13_f_Uranus_conjunction.ok. Qed.
Theorem C13_Uranus_opposition : finder_props (Uranus_opposition Rops) C13_f_Uranus_opposition.A C13_f_Uranus_opposition.B C13_f_Uranus_opposition.c0 C13_f_Uranus_opposition.C C13_f_Uranus_opposition.cr.
Proof. exact C13_f_Uranus_opposition.ok. Qed.

Redirect "C13_Uranus_conjunction.assumptions" Print Assumptions C13_Uranus_conjunction.
Redirect "C13_Uranus_opposition.assumptions" Print Assumptions C13_Uranus_opposition.
