(* C13, second version (perihelion/aphelion finders) -- pyrun with call-by-value evaluation of the arguments of every call.
   PyEval.pyrun is call-by-value only at [bind]; the periodic-term sums of the event
   finders are single expressions with ~100 nested operator calls, on which lazy
   weak-head normalisation re-traverses the whole pending expression at every step
   (minutes).  Here the [val]-typed arguments of an application are evaluated first
   (Python's own order), so every operator wrapper is unfolded on canonical values.
   Only rewriting with proved equalities is used: nothing is trusted. *)
From Coq Require Import Reals ZArith List Bool Lra Lia String.
From PyLib Require Import PyVal PyBuiltins Ideal Whnf PyEval.
Import ListNotations.
Open Scope R_scope.

Lemma ifv_true {F} (fo : FloatOps F) a b : ifv fo (VBool true) a b = a tt.
Proof. reflexivity. Qed.
Lemma ifv_false {F} (fo : FloatOps F) a b : ifv fo (VBool false) a b = b tt.
Proof. reflexivity. Qed.
Lemma ifv_bool {F} (fo : FloatOps F) c a b : ifv fo (VBool c) a b = if c then a tt else b tt.
Proof. destruct c; reflexivity. Qed.
Lemma ifv_err {F} (fo : FloatOps F) e a b : ifv fo (VErr e) a b = VErr e.
Proof. reflexivity. Qed.

(* [ifv] (truthiness test) must be in the client's block list: its condition is evaluated to a value
   first; unfolding it on an unevaluated condition exposes a match whose every branch holds a copy of
   the continuation, and each later step re-checks that whole term. *)
(* canonical values, as PyEval.is_canon, but an element of a value list may also be an application of a
   VARIABLE (an abstracted field of an object returned by a callee that is not entered) *)
Ltac head_is_var t :=
  lazymatch t with
  | ?f _ _ _ _ _ _ => is_var f
  | ?f _ _ _ _ _ => is_var f
  | ?f _ _ _ _ => is_var f
  | ?f _ _ _ => is_var f
  | ?f _ _ => is_var f
  | ?f _ => is_var f
  | _ => is_var t
  end.
Ltac is_canon2 v :=
  lazymatch v with
  | VNone => idtac | VBool _ => idtac | VInt _ => idtac | VFloat _ => idtac
  | VStr _ => idtac | VErr _ => idtac | VFun _ _ => idtac | VDict _ => idtac
  | VTuple ?l => canon_list2 l | VList ?l => canon_list2 l | VObj _ ?l => canon_list2 l
  end
with canon_list2 l :=
  lazymatch l with
  | nil => idtac
  | cons ?x ?r => first [ is_canon2 x | head_is_var x ]; canon_list2 r
  end.
Ltac first_noncanon2 l k :=
  lazymatch l with
  | cons ?x ?r => tryif first [ is_canon2 x | head_is_var x ] then first_noncanon2 r k else k x
  end.
Ltac py_canon_refl2 :=
  lazymatch goal with |- ?l = _ => is_canon2 l end; reflexivity.

Ltac has_noncanon_arg t :=
  lazymatch t with
  | ?g ?a =>
      first [ lazymatch type of a with
              | val R => tryif is_canon2 a then fail else idtac
              | _ => fail
              end
            | has_noncanon_arg g ]
  | _ => fail
  end.

Ltac pyrun2_using tac :=
  lazymatch goal with
  | |- ?l = _ =>
      lazymatch l with
      | bind _ _ => idtac
      | _ => cbv_args l tac
      end
  end;
  lazymatch goal with |- ?l = _ => tryif is_canon2 l then idtac else whnf_lhs end;
  lazymatch goal with
  | |- ?l = _ =>
    tryif is_canon2 l then expose_R else
    first [
      lazymatch l with
      | ifv ?fo ?c ?a ?b =>
          tryif is_canon2 c then
            lazymatch c with
            | VBool true => refine (eq_trans (ifv_true fo a b) _)
            | VBool false => refine (eq_trans (ifv_false fo a b) _)
            | VBool ?c0 => refine (eq_trans (ifv_bool fo c0 a b) _)
            | VErr ?e => refine (eq_trans (ifv_err fo e a b) _)
            end
          else
            let H := fresh "Hev" in
            eassert (H : c = _) by (pyrun2_using tac; py_canon_refl2);
            refine (eq_trans (f_equal (fun z => ifv fo z a b) H) _); clear H
      | bind ?e ?k =>
          tryif is_canon2 e then
            lazymatch e with
            | VErr _ => refine (eq_trans (bind_err _ k) _)
            | _ => refine (eq_trans (bind_ok e k eq_refl) _); cbv beta
            end
          else
            let H := fresh "Hev" in
            eassert (H : e = _) by (pyrun2_using tac; py_canon_refl2);
            refine (eq_trans (f_equal (fun z => bind z k) H) _); clear H
      | VTuple ?xs => first_noncanon2 xs ltac:(fun x =>
            let H := fresh "Hev" in
            eassert (H : x = _) by (pyrun2_using tac; py_canon_refl2); rewrite H; clear H)
      | VList ?xs => first_noncanon2 xs ltac:(fun x =>
            let H := fresh "Hev" in
            eassert (H : x = _) by (pyrun2_using tac; py_canon_refl2); rewrite H; clear H)
      | VObj _ ?xs => first_noncanon2 xs ltac:(fun x =>
            let H := fresh "Hev" in
            eassert (H : x = _) by (pyrun2_using tac; py_canon_refl2); rewrite H; clear H)
      | _ =>
          pose_stuck;
          lazymatch goal with
          | py_stuck := ?s |- _ =>
              clear py_stuck; py_trace s;
              lazymatch s with
              | bind ?e ?k =>
                  let H := fresh "Hev" in
                  eassert (H : bind e k = _) by (pyrun2_using tac; py_canon_refl2);
                  rewrite H; clear H
              | ifv _ _ _ _ =>
                  let H := fresh "Hev" in
                  eassert (H : s = _) by (pyrun2_using tac; py_canon_refl2);
                  rewrite H; clear H
              | Rltb _ _ => py_decide_at s tac
              | Rleb _ _ => py_decide_at s tac
              | Reqb _ _ => py_decide_at s tac
              | _ =>
                  first [ match goal with H : s = _ |- _ => rewrite H end
                        | match goal with H : forall _, _ |- _ => rewrite H end
                        | (* reached lazily (inside a tuple display): evaluate its arguments first *)
                          has_noncanon_arg s;
                          let H := fresh "Hev" in
                          eassert (H : s = _) by (pyrun2_using tac; py_canon_refl2);
                          rewrite H; clear H
                        | idtac "pyrun2: stuck on" s; fail 1 ]
              end
          end
      end;
      pyrun2_using tac
    | idtac ]
  end
with cbv_args t tac :=
  (* goal [t = r]; evaluates the val-typed arguments of the application t, left to right *)
  cbv_fun t tac ltac:(fun p => refine (eq_trans p _))
with cbv_fun g tac k :=
  (* calls k with a proof of [g = g'] where g' is g with its val arguments evaluated *)
  lazymatch g with
  | ?g1 ?a =>
      lazymatch type of a with
      | val R =>
          cbv_fun g1 tac ltac:(fun p1 =>
            tryif is_canon2 a then k constr:(f_equal (fun f => f a) p1) else
              (let H := fresh "Hev" in
               eassert (H : a = _) by (pyrun2_using tac; py_canon_refl2);
               k constr:(f_equal2 (fun f x => f x) p1 H); clear H))
      | FloatOps _ => k constr:(eq_refl g)
      | Type => k constr:(eq_refl g)
      | Set => k constr:(eq_refl g)
      | _ =>
          (* thunks, lists, numbers ...: left alone, but the arguments before them are evaluated
             (so the condition of ifv / py_and / py_or is a value before the match on it is exposed:
             a stuck condition under that match would carry a copy of the continuation per branch) *)
          first [ cbv_fun g1 tac ltac:(fun p1 => k constr:(f_equal (fun f => f a) p1))
                | k constr:(eq_refl g) ]
      end
  | _ => k constr:(eq_refl g)
  end.

Ltac pyrun2 := pyrun2_using pylra.
