(* Jupiter.station_longitude_2 (thorough tier) -- the closed form without the hypothesis about Epoch(x): the instant handed to Epoch()
   is in the range of C02's Epoch_ctor_exact_ideal, so the returned Epoch holds exactly A + k B + periodic terms.
   Written by mkfinders.py (checked in). *)
From Coq Require Import Reals ZArith List Bool Lra Lia String.
From PyLib Require Import PyVal PyBuiltins Ideal Whnf PyEval.
From Spec Require Import Finder.
From Gen Require Import M_base M_Angle M_Epoch M_Jupiter.
From Proofs.C02 Require Import C02_ctor_ideal.
From Proofs.C13 Require Import C13_angle C13_tac C13_defs C13_main C13_x_defs C13_f_Jupiter_station_longitude_2.
Import ListNotations.
Open Scope R_scope.
Ltac2 Set Whnf.is_blocked as old := fun c =>
  Ltac2.Bool.or (old c) (Ltac2.List.exist (Ltac2.Constr.equal c)
    ['@Epoch_year; '@Angle___init__; '@Angle_to_positive; '@Epoch___init__]).

Lemma amp : Rabs c0 + C <= 200.
Proof. unfold c0, C. lit_norm. unfold Rabs. destruct (Rcase_abs _); lra. Qed.
Lemma X_in_range y : -2000 <= y <= 4000 -> jde_in_range (j0 (kofy y) + cr (kofy y)).
Proof.
  intro Hy. rewrite <- found_spec. apply found_in_range with (c0 := c0) (C := C); [| exact amp | exact Hy].
  exact (timing1 _ _ _ _ _ _ ok).
Qed.

Section Run.
  Variables (j y : R).
  Hypothesis Hy : Epoch_year Rops (VObj cEpoch [VFloat j]) = VFloat y.
  Lemma closed_exact : -2000 <= y <= 4000 ->
    Jupiter_station_longitude_2 Rops (VObj cEpoch [VFloat j]) = VObj cEpoch [VFloat (j0 (kofy y) + cr (kofy y))].
  Proof.
    intros Hr.
    destruct (ang_init_mk (marg (kofy y))) as (n1 & Hr1 & H1).
    destruct (ang_to_positive_mk _ Hr1) as (n2 & Hr2 & H2).
    destruct (ang_init_mk (aux_aa (tt (kofy y)))) as (n_aa & Hr_aa & H_aa).
    pose proof (X_in_range y Hr) as HX. unfold cr in HX.
    rewrite <- (corr_turn_m (tt (kofy y)) (aux_aa (tt (kofy y)) * (PI / 180)) (marg (kofy y)) n1) in HX.
    rewrite <- (corr_turn_m (tt (kofy y)) (aux_aa (tt (kofy y)) * (PI / 180)) (marg (kofy y) - 360 * IZR n1) n2) in HX.
    rewrite <- (corr_turn_aa (tt (kofy y)) ((marg (kofy y) - 360 * IZR n1 - 360 * IZR n2) * (PI / 180)) (aux_aa (tt (kofy y))) n_aa) in HX.
    pose proof (Epoch_ctor_exact_ideal _ HX) as HE.
    unfold corr, marg, kofy, tt, j0, M0, M1, A, B, aux_aa in HE.
    unfold marg, kofy, tt, j0, M0, M1, A, B, aux_aa in H1, H2, H_aa.
    pyrun2.
    unfold cr.
    rewrite <- (corr_turn_m (tt (kofy y)) (aux_aa (tt (kofy y)) * (PI / 180)) (marg (kofy y)) n1).
    rewrite <- (corr_turn_m (tt (kofy y)) (aux_aa (tt (kofy y)) * (PI / 180)) (marg (kofy y) - 360 * IZR n1) n2).
    rewrite <- (corr_turn_aa (tt (kofy y)) ((marg (kofy y) - 360 * IZR n1 - 360 * IZR n2) * (PI / 180)) (aux_aa (tt (kofy y))) n_aa).
    unfold corr, marg, kofy, tt, j0, M0, M1, A, B, aux_aa.
    reflexivity.
  Qed.
End Run.

Theorem exact : finder_exact (Jupiter_station_longitude_2 Rops) A B cr.
Proof. intros j y Hy Hr. rewrite found_spec. exact (closed_exact j y Hy Hr). Qed.
