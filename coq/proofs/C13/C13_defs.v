(* C13 -- what is proved about each periodic-term event finder of the regenerated model
   (ideal = real-number instance), as one proposition [finder_props] / [finder_props2],
   and its consequences through the hand-written spec Spec.Finder. *)
From Coq Require Import Reals ZArith List Bool Lra Lia String.
From PyLib Require Import PyVal PyBuiltins Ideal.
From Spec Require Import Finder.
From Gen Require Import M_base M_Angle M_Epoch.
Import ListNotations.
Open Scope R_scope.

(* the query: an Epoch object whose decimal year (Epoch.year, not entered) is y *)
Definition year_is (j y : R) : Prop := Epoch_year Rops (VObj cEpoch [VFloat j]) = VFloat y.
(* the constructor call Epoch(x) at the end of every finder (not entered: it converts the
   JDE to a calendar date and back); E x is the JDE stored by Epoch(x) *)
Definition Epoch_of (E : R -> R) : Prop :=
  forall x, Epoch___init__ Rops (VObj cEpoch [VNone]) (VTuple [VFloat x]) (VDict [])
            = VObj cEpoch [VFloat (E x)].
(* a non-Epoch argument: None, a bool, an int, a float or a string *)
Definition not_object (v : val R) : Prop :=
  match v with VNone | VBool _ | VInt _ | VFloat _ | VStr _ => True | _ => False end.
Definition angle_val (d : R) : val R := VObj cAngle [VFloat d; VFloat (Rlit 1 (-10))].

(* a finder returning Epoch(A + kB + cr k) *)
Definition finder_props (f : val R -> val R) (A B c0 C : R) (cr : Z -> R) : Prop :=
  (0 < B <= 800 /\ 2 * C < B) /\
  (forall k, -41 <= tof A B k <= 21 -> Rabs (cr k - c0) <= C) /\
  (forall j y E, year_is j y -> -2000 <= y <= 4000 -> Epoch_of E ->
     f (VObj cEpoch [VFloat j]) = VObj cEpoch [VFloat (E (found A B cr y))]) /\
  (forall j y, year_is j y -> y < -2000 \/ 4000 < y -> f (VObj cEpoch [VFloat j]) = VErr ValueError) /\
  (forall v, not_object v -> f v = VErr TypeError).

(* a finder returning (Epoch(A + kB + cr k), Angle(el k)) *)
Definition finder_props2 (f : val R -> val R) (A B c0 C : R) (cr el : Z -> R) : Prop :=
  (0 < B <= 800 /\ 2 * C < B) /\
  (forall k, -41 <= tof A B k <= 21 -> Rabs (cr k - c0) <= C /\ 0 <= el k < 360) /\
  (forall j y E, year_is j y -> -2000 <= y <= 4000 -> Epoch_of E ->
     f (VObj cEpoch [VFloat j]) =
     VTuple [VObj cEpoch [VFloat (E (found A B cr y))]; angle_val (el (kof A B y))]) /\
  (forall j y, year_is j y -> y < -2000 \/ 4000 < y -> f (VObj cEpoch [VFloat j]) = VErr ValueError) /\
  (forall v, not_object v -> f v = VErr TypeError).

(* consequences, for any finder with these properties: the instant handed to Epoch() *)
Section Consequences.
  Variables (A B c0 C : R) (cr : Z -> R).
  Hypothesis HB : 0 < B <= 800 /\ 2 * C < B.
  Hypothesis Hcr : forall k, -41 <= tof A B k <= 21 -> Rabs (cr k - c0) <= C.

  (* never moves backwards as the query year advances; a different event is at least
     B - 2C later *)
  Lemma cons_monotone y1 y2 : -2000 <= y1 -> y1 <= y2 -> y2 <= 4000 ->
    found A B cr y1 <= found A B cr y2 /\
    (kof A B y1 = kof A B y2 \/ found A B cr y1 + (B - 2 * C) <= found A B cr y2).
  Proof. destruct HB as [[? ?] ?]. apply found_monotone with (c0 := c0); assumption. Qed.

  (* consecutive events are B - 2C .. B + 2C apart *)
  Lemma cons_next y1 y2 : -2000 <= y1 <= 4000 -> -2000 <= y2 <= 4000 ->
    kof A B y2 = (kof A B y1 + 1)%Z ->
    B - 2 * C <= found A B cr y2 - found A B cr y1 <= B + 2 * C.
  Proof. destruct HB as [[? ?] ?]. apply found_next with (c0 := c0); assumption. Qed.

  (* no event skipped between two queries *)
  Lemma cons_noskip y1 y2 k : (kof A B y1 < k < kof A B y2)%Z ->
    exists y, y1 < y < y2 /\ kof A B y = k.
  Proof. destruct HB as [[? ?] ?]. apply kof_between. assumption. Qed.

  (* within B/2 + D + |c0| + C of a query instant J that is within D of 365.2425 y + 1721060 *)
  Lemma cons_near y J D : -2000 <= y <= 4000 -> Rabs (yinst y - J) <= D ->
    Rabs (found A B cr y - J) <= B / 2 + D + Rabs c0 + C.
  Proof. destruct HB as [[? ?] ?]. apply found_near; assumption. Qed.
End Consequences.
