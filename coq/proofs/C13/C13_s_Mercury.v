(* Property C13 -- statements for the Mercury finders (one statement file per planet so that the Print Assumptions
   traversals run in parallel); proofs in C13_f_Mercury_*.v against the model regenerated from /repo. *)
From Coq Require Import Reals ZArith List Bool Lra Lia String.
From PyLib Require Import PyVal PyBuiltins Ideal.
From Spec Require Import Finder.
From Gen Require Import M_base M_Angle M_Epoch M_Mercury.
From Proofs.C13 Require Import C13_defs.
From Proofs.C13 Require C13_f_Mercury_eastern_elongation.
From Proofs.C13 Require C13_f_Mercury_inferior_conjunction.
From Proofs.C13 Require C13_f_Mercury_station_longitude_1.
From Proofs.C13 Require C13_f_Mercury_station_longitude_2.
From Proofs.C13 Require C13_f_Mercury_superior_conjunction.
From Proofs.C13 Require C13_f_Mercury_western_elongation.
Import ListNotations.
Open Scope R_scope.

Theorem C13_Mercury_eastern_elongation : finder_props2 (Mercury_eastern_elongation Rops) C13_f_Mercury_eastern_elongation.A C13_f_Mercury_eastern_elongation.B C13_f_Mercury_eastern_elongation.c0 C13_f_Mercury_eastern_elongation.C C13_f_Mercury_eastern_elongation.cr C13_f_Mercury_eastern_elongation.el.
Proof. exact C13_f_Mercury_eastern_elongation.ok. Qed.
Theorem C13_Mercury_inferior_conjunction : finder_props (Mercury_inferior_conjunction Rops) C13_f_Mercury_inferior_conjunction.A C13_f_Mercury_inferior_conjunction.B C13_f_Mercury_inferior_conjunction.c0 C13_f_Mercury_inferior_conjunction.C C13_f_Mercury_inferior_conjunction.cr.
Proof. exact C13_f_Mercury_inferior_conjunction.ok. Qed.
Theorem C13_Mercury_station_longitude_1 : finder_props (Mercury_station_longitude_1 Rops) C13_f_Mercury_station_longitude_1.A C13_f_Mercury_station_longitude_1.B C13_f_Mercury_station_longitude_1.c0 C13_f_Mercury_station_longitude_1.C C13_f_Mercury_station_longitude_1.cr.
Proof. exact C13_f_Mercury_station_longitude_1.ok. Qed.
Theorem C13_Mercury_station_longitude_2 : finder_props (Mercury_station_longitude_2 Rops) C13_f_Mercury_station_longitude_2.A C13_f_Mercury_station_longitude_2.B C13_f_Mercury_station_longitude_2.c0 C13_f_Mercury_station_longitude_2.C C13_f_Mercury_station_longitude_2.cr.
Proof. exact C13_f_Mercury_station_longitude_2.ok. Qed.
Theorem C13_Mercury_superior_conjunction : finder_props (Mercury_superior_conjunction Rops) C13_f_Mercury_superior_conjunction.A C13_f_Mercury_superior_conjunction.B C13_f_Mercury_superior_conjunction.c0 C13_f_Mercury_superior_conjunction.C C13_f_Mercury_superior_conjunction.cr.
Proof. exact C13_f_Mercury_superior_conjunction.ok. Qed.
Theorem C13_Mercury_western_elongation : finder_props2 (Mercury_western_elongation Rops) C13_f_Mercury_western_elongation.A C13_f_Mercury_western_elongation.B C13_f_Mercury_western_elongation.c0 C13_f_Mercury_western_elongation.C C13_f_Mercury_western_elongation.cr C13_f_Mercury_western_elongation.el.
Proof. exact C13_f_Mercury_western_elongation.ok. Qed.

Redirect "C13_Mercury_eastern_elongation.assumptions" Print Assumptions C13_Mercury_eastern_elongation.
Redirect "C13_Mercury_inferior_conjunction.assumptions" Print Assumptions C13_Mercury_inferior_conjunction.
Redirect "C13_Mercury_station_longitude_1.assumptions" Print Assumptions C13_Mercury_station_longitude_1.
Redirect "C13_Mercury_station_longitude_2.assumptions" Print Assumptions C13_Mercury_station_longitude_2.
Redirect "C13_Mercury_superior_conjunction.assumptions" Print Assumptions C13_Mercury_superior_conjunction.
Redirect "C13_Mercury_western_elongation.assumptions" Print Assumptions C13_Mercury_western_elongation.
