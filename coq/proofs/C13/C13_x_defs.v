(* C13 (thorough tier) -- the finder theorems without the hypothesis about Epoch(x): property C02 proves, in the ideal
   instance, that Epoch(x) holds exactly x for every real x with -1/2 <= x < 5399999.5 (Epoch_ctor_exact_ideal,
   coq/proofs/C02/C02_ctor_ideal.v).  Every instant a finder hands to Epoch() for a query in -2000..4000 lies in that
   range (proved here from the deviation bounds), so the result is the Epoch holding exactly the closed form. *)
From Coq Require Import Reals ZArith List Bool Lra Lia String.
From PyLib Require Import PyVal PyBuiltins Ideal.
From Spec Require Import Finder OrbitFinder.
From Gen Require Import M_base M_Angle M_Epoch.
From Proofs.C02 Require Import C02_ctor_ideal.
From Proofs.C13 Require Import C13_defs C13_main.
Import ListNotations.
Open Scope R_scope.

Lemma yinst_range y : -2000 <= y <= 4000 -> 990575 <= yinst y <= 3182030.
Proof. intro H. unfold yinst. lra. Qed.

(* the instant of a periodic-term finder: within B/2 + |c0| + C <= 600 days of 365.2425 y + 1721060 *)
Lemma found_in_range A B c0 C cr : timing A B c0 C cr -> Rabs c0 + C <= 200 ->
  forall y, -2000 <= y <= 4000 -> jde_in_range (found A B cr y).
Proof.
  intros [HB Hcr] Hamp y Hy.
  pose proof (cons_near A B c0 C cr HB Hcr y (yinst y) 0 Hy) as N.
  assert (H0 : Rabs (yinst y - yinst y) <= 0).
  { replace (yinst y - yinst y) with 0 by ring. rewrite Rabs_R0. lra. }
  specialize (N H0). pose proof (yinst_range y Hy) as Yr. destruct HB as [[HB1 HB2] HB3].
  assert (E : - 600 <= found A B cr y - yinst y <= 600).
  { pose proof (Rabs_le_inv _ _ N). lra. }
  unfold jde_in_range. lra.
Qed.

(* a periodic-term finder without the Epoch(x) hypothesis: the returned Epoch holds exactly the closed form *)
Definition finder_exact (f : val R -> val R) (A B : R) (cr : Z -> R) : Prop :=
  forall j y, year_is j y -> -2000 <= y <= 4000 ->
    f (VObj cEpoch [VFloat j]) = VObj cEpoch [VFloat (found A B cr y)].
Definition finder_exact2 (f : val R -> val R) (A B : R) (cr el : Z -> R) : Prop :=
  forall j y, year_is j y -> -2000 <= y <= 4000 ->
    f (VObj cEpoch [VFloat j]) = VTuple [VObj cEpoch [VFloat (found A B cr y)]; angle_val (el (kof A B y))].
