(* C13 -- perihelion / aphelion finders: what is abstracted (hypotheses about callees that are not
   entered) and the proposition proved for each planet. *)
From Coq Require Import Reals ZArith List Bool Lra Lia String.
From PyLib Require Import PyVal PyBuiltins Ideal.
From Spec Require Import Finder OrbitFinder.
From Gen Require Import M_base M_Angle M_Epoch M_Interpolation.
From Proofs.C13 Require Import C13_defs.
Import ListNotations.
Open Scope R_scope.

(* <Planet>.geometric_heliocentric_position(Epoch x, tofk5=True) (VSOP87, not entered) returns
   (Angle L x, Angle B x, R x) *)
Definition helio_is (ghp : val R -> val R -> val R) (Lf Bf Rf : R -> R) : Prop :=
  forall x, ghp (VObj cEpoch [VFloat x]) (VBool true)
            = VTuple [angle_val (Lf x); angle_val (Bf x); VFloat (Rf x)].
(* Interpolation([x1,x2,x3],[y1,y2,y3]) (not entered) builds an object with four fields, and its
   minmax() (not entered; assumed not to raise) returns MM x1 x2 x3 y1 y2 y3 *)
Definition interp_is (F1 F2 F3 F4 : R -> R -> R -> R -> R -> R -> val R)
                     (MM : R -> R -> R -> R -> R -> R -> R) : Prop :=
  (forall x1 x2 x3 y1 y2 y3,
     Interpolation___init__ Rops (VObj cInterpolation [VNone; VNone; VNone; VNone])
       (VTuple [VList [VFloat x1; VFloat x2; VFloat x3]; VList [VFloat y1; VFloat y2; VFloat y3]])
     = VObj cInterpolation [F1 x1 x2 x3 y1 y2 y3; F2 x1 x2 x3 y1 y2 y3; F3 x1 x2 x3 y1 y2 y3; F4 x1 x2 x3 y1 y2 y3]) /\
  (forall x1 x2 x3 y1 y2 y3,
     Interpolation_minmax Rops
       (VObj cInterpolation [F1 x1 x2 x3 y1 y2 y3; F2 x1 x2 x3 y1 y2 y3; F3 x1 x2 x3 y1 y2 y3; F4 x1 x2 x3 y1 y2 y3])
       (VInt 0) (VInt 0) (VInt 1000)
     = VFloat (MM x1 x2 x3 y1 y2 y3)).

(* the instant handed to the final Epoch(): extremum of the interpolation of the radius vector at
   m - h, m, m + h (each evaluated at the Epoch built from that JDE) *)
Definition sol (E Rf : R -> R) (MM : R -> R -> R -> R -> R -> R -> R) (h m : R) : R :=
  MM (m - h) m (m + h) (Rf (E (m - h))) (Rf (E m)) (Rf (E (m + h))).

(* a finder  f(epoch, perihelion)  with mean instants  mean J0 P c k + corr k,  index rules kper / kaph of
   Spec.OrbitFinder with rate a and origin y0, interpolation half-width h *)
Definition peri_props (f ghp : val R -> val R -> val R) (J0 P c a y0 h : R) (corr : bool -> R -> R) : Prop :=
  (forall j y E Lf Bf Rf F1 F2 F3 F4 MM, year_is j y -> Epoch_of E -> helio_is ghp Lf Bf Rf ->
     interp_is F1 F2 F3 F4 MM ->
     f (VObj cEpoch [VFloat j]) (VBool true)
       = VObj cEpoch [VFloat (E (sol E Rf MM h (mean J0 P c (kper a y0 y) + corr true (kper a y0 y))))] /\
     f (VObj cEpoch [VFloat j]) (VBool false)
       = VObj cEpoch [VFloat (E (sol E Rf MM h (mean J0 P c (kaph a y0 y) + corr false (kaph a y0 y))))]) /\
  (forall v b, not_object v -> f v (VBool b) = VErr TypeError).

(* numbers of one planet: Kb bounds |a (y - y0)| + 1 on -2000..4000, d bounds |c x| for |x| <= 2Kb + 2, and
   perihelia / aphelia stay apart: 2h + d < P/2 *)
Definition orbit_numbers (P c a y0 h Kb d : R) : Prop :=
  0 < a /\ 0 <= Kb /\ d < P /\ 2 * h + d < P / 2 /\
  (forall x, - (2 * Kb + 2) <= x <= 2 * Kb + 2 -> - d <= c * x <= d) /\
  (forall y, -2000 <= y <= 4000 -> - Kb <= kappa a y0 y <= Kb).
