(* Property C13 (thorough tier) -- Earth: the finder theorems with Epoch(x) = the Epoch holding exactly x (property C02's
   Epoch_ctor_exact_ideal) instead of a hypothesis.  Remaining hypotheses: the value of Epoch.year; for perihelion_aphelion also
   the VSOP87 positions, Interpolation()/minmax() and that the interpolated extremum lies inside its window.  T13_* obligations:
   compiled in the thorough tier, not listed in THEOREMS. *)
From Coq Require Import Reals ZArith List Bool Lra Lia String.
From PyLib Require Import PyVal PyBuiltins Ideal.
From Spec Require Import Finder OrbitFinder.
From Gen Require Import M_base M_Angle M_Epoch M_Interpolation M_Earth.
From Proofs.C13 Require Import C13_defs C13_pdefs C13_x_defs C13_xp_defs.
From Proofs.C13 Require C13_p_Earth C13_xp_Earth.
Import ListNotations.
Open Scope R_scope.
Theorem T13_Earth_perihelion_aphelion_exact :
  peri_exact (Earth_perihelion_aphelion Rops) (Earth_geometric_heliocentric_position Rops) C13_p_Earth.J0 C13_p_Earth.P C13_p_Earth.c C13_p_Earth.a C13_p_Earth.y0 C13_p_Earth.h C13_p_Earth.corr.
Proof. exact C13_xp_Earth.exact. Qed.
Redirect "T13_Earth_perihelion_aphelion_exact.assumptions" Print Assumptions T13_Earth_perihelion_aphelion_exact.
