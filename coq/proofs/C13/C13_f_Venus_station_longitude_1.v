(* Venus.station_longitude_1 -- closed form of the regenerated model in the ideal instance, amplitude bound,
   link to Spec.Finder.  Written by mkfinders.py from the source coefficients (checked in);
   re-proved against the regenerated model on every run. *)
From Coq Require Import Reals ZArith List Bool Lra Lia String.
From Interval Require Import Tactic.
From PyLib Require Import PyVal PyBuiltins Ideal Whnf PyEval.
From Spec Require Import Finder.
From Gen Require Import M_base M_Angle M_Epoch M_Venus.
From Proofs.C13 Require Import C13_angle C13_tac C13_defs.
Import ListNotations.
Open Scope R_scope.
Ltac2 Set Whnf.is_blocked as old := fun c =>
  Ltac2.Bool.or (old c) (Ltac2.List.exist (Ltac2.Constr.equal c)
    ['@Epoch_year; '@Angle___init__; '@Angle_to_positive; '@Epoch___init__]).

Definition A : R := Rlit 2451996706 (-3).
Definition B : R := Rlit 583921361 (-6).
Definition M0 : R := Rlit 827311 (-4).
Definition M1 : R := Rlit 215513058 (-6).
Definition kofy (y : R) : Z := Rround ((Rlit 3652425 (-4) * y + Rlit 17210600 (-1) - A) / B).
Definition j0 (k : Z) : R := A + IZR k * B.
Definition tt (k : Z) : R := (j0 k - Rlit 24515450 (-1)) / Rlit 365250 (-1).
Definition marg (k : Z) : R := M0 + IZR k * M1.
Definition corr (t m : R) : R :=
  ((((((((Rlit (-210672) (-4)) + (t * ((Rlit 2 (-4)) - (t * (Rlit 1 (-5)))))) + ((sin m) * ((Rlit 19396 (-4)) + (t * ((Rlit (-29) (-4)) - (t * (Rlit 1 (-5)))))))) + ((cos m) * ((Rlit 10727 (-4)) - (t * (Rlit 102 (-4)))))) + ((sin ((Rlit 20 (-1)) * m)) * ((Rlit 404 (-4)) + (t * ((Rlit (-23) (-4)) - (t * (Rlit 1 (-5)))))))) + ((cos ((Rlit 20 (-1)) * m)) * ((Rlit 1305 (-4)) + (t * ((Rlit (-4) (-4)) - (t * (Rlit 3 (-5)))))))) + ((sin ((Rlit 30 (-1)) * m)) * ((Rlit (-7) (-4)) - (t * (Rlit 2 (-4)))))) + ((cos ((Rlit 30 (-1)) * m)) * (Rlit 98 (-4)))).
Definition c0 : R := Rlit (-210672) (-4).
Definition C : R := Rlit 3871 (-3).
Definition cr (k : Z) : R := corr (tt k) (marg k * (PI / 180)).

Ltac lit_norm := repeat match goal with |- context [Rlit ?m ?e] =>
  let r := eval cbv -[IZR Rdiv Rmult Rinv Rplus Ropp] in (Rlit m e) in change (Rlit m e) with r end.
Ltac red_trig :=
  repeat first [ rewrite sin_red1 | rewrite cos_red1
               | rewrite (sin_red _ 2) by (lit_norm; lra) | rewrite (cos_red _ 2) by (lit_norm; lra)
               | rewrite (sin_red _ 3) by (lit_norm; lra) | rewrite (cos_red _ 3) by (lit_norm; lra)
               | rewrite (sin_red _ 4) by (lit_norm; lra) | rewrite (cos_red _ 4) by (lit_norm; lra)
               | rewrite (sin_red _ 5) by (lit_norm; lra) | rewrite (cos_red _ 5) by (lit_norm; lra) ].

(* whole turns taken off an angle (what Angle() / to_positive() do) change nothing *)
Lemma corr_turn_m (t x : R) (n : Z) :
  corr t  ((x - 360 * IZR n) * (PI / 180))  = corr t  (x * (PI / 180)) .
Proof. unfold corr. red_trig. reflexivity. Qed.

(* amplitude: |sin|,|cos| <= 1, coefficients bounded over -41 <= T <= 21 by interval arithmetic *)
Lemma corr_bound (t m : R) : -41 <= t <= 21 -> Rabs (corr t m - c0) <= C.
Proof. intro Ht. unfold corr, c0, C. lit_norm. interval with (i_bisect t, i_depth 8). Qed.

(* the constants as the spec writes them *)
Lemma B_range : 0 < B <= 800 /\ 2 * C < B.
Proof. unfold B, C. lit_norm. lra. Qed.
Lemma kofy_spec y : kofy y = kof A B y.
Proof. unfold kofy, kof, yinst. apply f_equal. apply (f_equal (fun z => z / B)). lit_norm. lra. Qed.
Lemma tt_spec k : tt k = tof A B k.
Proof. unfold tt, tof, j0, jde0. lit_norm. field. Qed.
Lemma found_spec y : found A B cr y = j0 (kofy y) + cr (kofy y).
Proof. unfold found, res, jde0, j0. rewrite kofy_spec. reflexivity. Qed.
Lemma tt_range y : -2000 <= y <= 4000 -> -41 <= tt (kofy y) <= 21.
Proof. intro Hy. rewrite tt_spec, kofy_spec. apply tof_range; [apply B_range | apply B_range | exact Hy]. Qed.

Section Run.
  Variables (j y : R) (E : R -> R).
  Hypothesis Hy : Epoch_year Rops (VObj cEpoch [VFloat j]) = VFloat y.

  Lemma closed : -2000 <= y <= 4000 -> Epoch_of E ->
    Venus_station_longitude_1 Rops (VObj cEpoch [VFloat j]) = VObj cEpoch [VFloat (E (j0 (kofy y) + cr (kofy y)))].
  Proof.
    intros Hr HE. unfold Epoch_of in HE.
    destruct (ang_init_mk (marg (kofy y))) as (n1 & Hr1 & H1).
    destruct (ang_to_positive_mk _ Hr1) as (n2 & Hr2 & H2).
    unfold marg, kofy, tt, j0, M0, M1, A, B in H1, H2.
    pyrun2.
    unfold cr.
    rewrite <- (corr_turn_m (tt (kofy y))  (marg (kofy y)) n1).
    rewrite <- (corr_turn_m (tt (kofy y))  (marg (kofy y) - 360 * IZR n1) n2).
    unfold corr, marg, kofy, tt, j0, M0, M1, A, B.
    reflexivity.
  Qed.

  Lemma out_of_range : y < -2000 \/ 4000 < y -> Venus_station_longitude_1 Rops (VObj cEpoch [VFloat j]) = VErr ValueError.
  Proof. intros [H | H]; (match goal with |- _ => pyrun2; reflexivity end). Qed.
End Run.

Lemma wrong_type v : not_object v -> Venus_station_longitude_1 Rops v = VErr TypeError.
Proof. destruct v; simpl; intro H; try contradiction; (match goal with |- _ => pyrun2; reflexivity end). Qed.

Theorem ok : finder_props (Venus_station_longitude_1 Rops) A B c0 C cr.
Proof.
  split; [exact B_range |]. split; [| split; [| split]].
  - intros k Hk. rewrite <- tt_spec in Hk. apply corr_bound. exact Hk.
  - intros j y E Hy Hr HE. rewrite found_spec. exact (closed j y E Hy Hr HE).
  - intros j y Hy Hr. exact (out_of_range j y Hy Hr).
  - exact wrong_type.
Qed.
