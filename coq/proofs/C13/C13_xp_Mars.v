(* Mars.perihelion_aphelion (thorough tier) -- the closed form without the hypothesis about Epoch(x): the three
   instants m - h, m, m + h and the interpolated extremum (assumed inside the window) are in the range of C02's
   Epoch_ctor_exact_ideal.  Written by mkperi.py (checked in). *)
From Coq Require Import Reals ZArith List Bool Lra Lia String.
From Interval Require Import Tactic.
From PyLib Require Import PyVal PyBuiltins Ideal Whnf PyEval.
From Spec Require Import Finder OrbitFinder.
From Gen Require Import M_base M_Angle M_Epoch M_Interpolation M_Mars.
From Proofs.C02 Require Import C02_ctor_ideal.
From Proofs.C13 Require Import C13_angle C13_tac2 C13_defs C13_pdefs C13_xp_defs C13_p_Mars.
Import ListNotations.
Open Scope R_scope.
Ltac2 Set Whnf.is_blocked as old := fun c =>
  Ltac2.Bool.or (old c) (Ltac2.List.exist (Ltac2.Constr.equal c)
    ['@Epoch_year; '@Epoch___init__; '@Mars_geometric_heliocentric_position; '@Interpolation___init__;
     '@Interpolation_minmax; '@Angle___init__; '@ifv]).

Lemma kappa_mean_range y : -2000 <= y <= 4000 -> 970000 <= mean J0 P c (kappa a y0 y) <= 3200000.
Proof. intro Hy. unfold mean, kappa, J0, P, c, a, y0. lit_norm. split; interval. Qed.
Lemma corr_abs b k : Rabs (corr b k) <= 0.
Proof. unfold corr. rewrite Rabs_R0. lra. Qed.
Lemma m_range k y : -2000 <= y <= 4000 -> Rabs (k - kappa a y0 y) <= 1 / 2 -> forall b,
  950000 <= meanc k + corr b k <= 3220000.
Proof.
  intros Hy Hk b. rewrite mean_spec.
  destruct numbers as (Ha & HK & HdP & Hh & Hd & Hkr). pose proof (Hkr y Hy) as Kr.
  pose proof (Rabs_inv _ _ Hk) as Hk'.
  assert (N : Rabs (mean J0 P c k - mean J0 P c (kappa a y0 y)) <= (P + d) / 2).
  { eapply (near_bounds J0 P c Kb d); [eassumption .. | | |]; first [eassumption | lra]. }
  pose proof (Rabs_inv _ _ N) as N'. pose proof (Rabs_inv _ _ (corr_abs b k)) as C'.
  pose proof (kappa_mean_range y Hy) as M.
  assert (Hp : (P + d) / 2 + 0 <= 15500) by (unfold P, d; lit_norm; lra).
  lra.
Qed.
Lemma h_small : 0 < h <= 400. Proof. unfold h. lit_norm. lra. Qed.

Section Run.
  Variables (j y : R) (Lf Bf Rf : R -> R) (F1 F2 F3 F4 : R -> R -> R -> R -> R -> R -> val R)
            (MM : R -> R -> R -> R -> R -> R -> R).
  Hypothesis Hy : year_is j y.
  Hypothesis Hyr : -2000 <= y <= 4000.
  Hypothesis HG : helio_is (Mars_geometric_heliocentric_position Rops) Lf Bf Rf.
  Hypothesis HI : interp_is F1 F2 F3 F4 MM.

  Lemma exact_true : in_window Rf MM h (meanc (kP y) + corr true (kP y)) ->
    Mars_perihelion_aphelion Rops (VObj cEpoch [VFloat j]) (VBool true) =
    VObj cEpoch [VFloat (sol (fun x => x) Rf MM h (meanc (kP y) + corr true (kP y)))].
  Proof.
    intro Hw. unfold in_window, sol in Hw.
    pose proof Hy as Hy'. pose proof HG as HG'. destruct HI as [HI1 HI2].
    unfold year_is in Hy'. unfold helio_is, angle_val in HG'.
    assert (Hk : Rabs (kP y - kappa a y0 y) <= 1 / 2) by (rewrite kP_spec; apply kper_near).
    pose proof (m_range (kP y) y Hyr Hk true) as Mr. pose proof h_small as Hh.
    set (m := meanc (kP y) + corr true (kP y)) in *.
    assert (R1 : jde_in_range (m - h)) by (unfold jde_in_range; lra).
    assert (R2 : jde_in_range m) by (unfold jde_in_range; lra).
    assert (R3 : jde_in_range (m + h)) by (unfold jde_in_range; lra).
    assert (R4 : jde_in_range (MM (m - h) m (m + h) (Rf (m - h)) (Rf m) (Rf (m + h)))) by (unfold jde_in_range; lra).
    pose proof (Epoch_ctor_exact_ideal _ R1) as E1. pose proof (Epoch_ctor_exact_ideal _ R2) as E2.
    pose proof (Epoch_ctor_exact_ideal _ R3) as E3. pose proof (Epoch_ctor_exact_ideal _ R4) as E4.
    clear Hy HG HI Hw Mr Hk R1 R2 R3 R4 Hh. subst m.
    unfold corr in E1, E2, E3, E4. rewrite !Rplus_0_r in E1, E2, E3, E4.
    unfold meanc, kP, a, y0, J0, P, h in E1, E2, E3, E4.
    pyrun2.
    unfold sol, corr.
    rewrite !Rplus_0_r.
    unfold meanc, kP, a, y0, J0, P, h. reflexivity.
  Qed.

  Lemma exact_false : in_window Rf MM h (meanc (kA y) + corr false (kA y)) ->
    Mars_perihelion_aphelion Rops (VObj cEpoch [VFloat j]) (VBool false) =
    VObj cEpoch [VFloat (sol (fun x => x) Rf MM h (meanc (kA y) + corr false (kA y)))].
  Proof.
    intro Hw. unfold in_window, sol in Hw.
    pose proof Hy as Hy'. pose proof HG as HG'. destruct HI as [HI1 HI2].
    unfold year_is in Hy'. unfold helio_is, angle_val in HG'.
    assert (Hk : Rabs (kA y - kappa a y0 y) <= 1 / 2) by (rewrite kA_spec; apply kaph_near).
    pose proof (m_range (kA y) y Hyr Hk false) as Mr. pose proof h_small as Hh.
    set (m := meanc (kA y) + corr false (kA y)) in *.
    assert (R1 : jde_in_range (m - h)) by (unfold jde_in_range; lra).
    assert (R2 : jde_in_range m) by (unfold jde_in_range; lra).
    assert (R3 : jde_in_range (m + h)) by (unfold jde_in_range; lra).
    assert (R4 : jde_in_range (MM (m - h) m (m + h) (Rf (m - h)) (Rf m) (Rf (m + h)))) by (unfold jde_in_range; lra).
    pose proof (Epoch_ctor_exact_ideal _ R1) as E1. pose proof (Epoch_ctor_exact_ideal _ R2) as E2.
    pose proof (Epoch_ctor_exact_ideal _ R3) as E3. pose proof (Epoch_ctor_exact_ideal _ R4) as E4.
    clear Hy HG HI Hw Mr Hk R1 R2 R3 R4 Hh. subst m.
    unfold corr in E1, E2, E3, E4. rewrite !Rplus_0_r in E1, E2, E3, E4.
    unfold meanc, kA, a, y0, J0, P, h in E1, E2, E3, E4.
    pyrun2.
    unfold sol, corr.
    rewrite !Rplus_0_r.
    unfold meanc, kA, a, y0, J0, P, h. reflexivity.
  Qed.
End Run.

Theorem exact : peri_exact (Mars_perihelion_aphelion Rops) (Mars_geometric_heliocentric_position Rops) J0 P c a y0 h corr.
Proof.
  intros j y Lf Bf Rf F1 F2 F3 F4 MM Hy Hyr HG HI. split; intro Hw.
  - rewrite <- kP_spec, <- mean_spec in *. exact (exact_true j y Lf Bf Rf F1 F2 F3 F4 MM Hy Hyr HG HI Hw).
  - rewrite <- kA_spec, <- mean_spec in *. exact (exact_false j y Lf Bf Rf F1 F2 F3 F4 MM Hy Hyr HG HI Hw).
Qed.
