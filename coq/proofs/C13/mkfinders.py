#!/venv/bin/python
"""mkfinders.py -- writes the per-finder proof files C13_f_<Planet>_<finder>.v.

Run ONCE by the author (python mkfinders.py [/repo]) and the output is checked in: the
check never runs this script.  It reads the coefficients of each Meeus ch.36 finder from
the Python source and writes them down as a Coq closed form (Rlit m e = m*10^e, same
expression shape as the source); the proof script in the file then shows that the
REGENERATED model computes exactly that closed form -- so a later change of any
coefficient / sign / rounding rule in /repo breaks the proof.
"""
import ast, os, sys
from decimal import Decimal
from fractions import Fraction

REPO = sys.argv[1] if len(sys.argv) > 1 else "/repo"
OUT = os.path.dirname(os.path.abspath(__file__))

FINDERS = {
    "Mercury": ["inferior_conjunction", "superior_conjunction", "western_elongation", "eastern_elongation",
                "station_longitude_1", "station_longitude_2"],
    "Venus": ["inferior_conjunction", "superior_conjunction", "western_elongation", "eastern_elongation",
              "station_longitude_1", "station_longitude_2"],
    "Mars": ["conjunction", "opposition", "station_longitude_1", "station_longitude_2"],
    "Jupiter": ["conjunction", "opposition", "station_longitude_1", "station_longitude_2"],
    "Saturn": ["conjunction", "opposition", "station_longitude_1", "station_longitude_2"],
    "Uranus": ["conjunction", "opposition"],
    "Neptune": ["conjunction", "opposition"],
}


class Bad(Exception):
    pass


def lit(text, neg=False):
    d = Decimal(text)
    sign, digits, exp = d.as_tuple()
    m = int("".join(map(str, digits))) if digits else 0
    if sign: m = -m
    if neg: m = -m
    zm = str(m) if m >= 0 else "(%d)" % m
    ze = str(exp) if exp >= 0 else "(%d)" % exp
    return "Rlit %s %s" % (zm, ze), (Fraction(d) * (-1 if neg else 1))


class Expr:
    """translate a Python arithmetic expression over given names to (a) Coq text in the
    shape pyrun produces, (b) an interval evaluator"""
    _lines = {}
    def __init__(self, src, names):
        self.src, self.names = src, names
        if src not in Expr._lines:
            Expr._lines[src] = src.splitlines()
        self.lines = Expr._lines[src]

    def seg(self, n):
        """source text of a one-line literal (ast.get_source_segment is slow on big files)"""
        if n.lineno != n.end_lineno: raise Bad("multi-line literal")
        return self.lines[n.lineno - 1].encode()[n.col_offset:n.end_col_offset].decode()

    def coq(self, n):
        if isinstance(n, ast.Constant):
            if isinstance(n.value, float):
                return "(%s)" % lit(self.seg(n))[0]
            if isinstance(n.value, int) and not isinstance(n.value, bool):
                return "(IZR %s)" % (n.value if n.value >= 0 else "(%d)" % n.value)
            raise Bad("constant %r" % (n.value,))
        if isinstance(n, ast.UnaryOp) and isinstance(n.op, ast.USub):
            if isinstance(n.operand, ast.Constant) and isinstance(n.operand.value, float):
                return "(%s)" % lit(self.seg(n.operand), True)[0]
            return "(- %s)" % self.coq(n.operand)
        if isinstance(n, ast.BinOp):
            op = {ast.Add: "+", ast.Sub: "-", ast.Mult: "*", ast.Div: "/"}.get(type(n.op))
            if not op: raise Bad("operator")
            return "(%s %s %s)" % (self.coq(n.left), op, self.coq(n.right))
        if isinstance(n, ast.Name):
            if n.id not in self.names: raise Bad("name " + n.id)
            return self.names[n.id]
        if isinstance(n, ast.Call) and isinstance(n.func, ast.Name) and n.func.id in ("sin", "cos") and len(n.args) == 1:
            return "(%s %s)" % (n.func.id, self.coq(n.args[0]))
        raise Bad("expression " + ast.dump(n)[:80])

    def ival(self, n, env):
        """interval (lo, hi) in Fractions; sin/cos -> [-1,1]; env: name -> (lo,hi)"""
        if isinstance(n, ast.Constant):
            if isinstance(n.value, float):
                v = lit(self.seg(n))[1]
            else:
                v = Fraction(n.value)
            return (v, v)
        if isinstance(n, ast.UnaryOp):
            lo, hi = self.ival(n.operand, env)
            return (-hi, -lo)
        if isinstance(n, ast.BinOp):
            a, b = self.ival(n.left, env), self.ival(n.right, env)
            if isinstance(n.op, ast.Add): return (a[0] + b[0], a[1] + b[1])
            if isinstance(n.op, ast.Sub): return (a[0] - b[1], a[1] - b[0])
            if isinstance(n.op, ast.Mult):
                ps = [a[0] * b[0], a[0] * b[1], a[1] * b[0], a[1] * b[1]]
                return (min(ps), max(ps))
            raise Bad("div in bound")
        if isinstance(n, ast.Name):
            return env[n.id]
        if isinstance(n, ast.Call):
            return env.get("_trig", (Fraction(-1), Fraction(1)))
        raise Bad("ival")


def analyse(planet, fname):
    src = open(os.path.join(REPO, "pymeeus", planet + ".py")).read()
    tree = ast.parse(src)
    cls = [n for n in tree.body if isinstance(n, ast.ClassDef) and n.name == planet][0]
    fn = [n for n in cls.body if isinstance(n, ast.FunctionDef) and n.name == fname][0]
    asg = {}
    order = []
    for st in fn.body:
        if isinstance(st, ast.Assign) and len(st.targets) == 1 and isinstance(st.targets[0], ast.Name):
            asg.setdefault(st.targets[0].id, []).append(st.value)
            order.append(st.targets[0].id)
    def const(name):
        v = asg[name][0]
        if isinstance(v, ast.Constant) and isinstance(v.value, float):
            return lit(Expr(src, {}).seg(v))
        raise Bad("constant " + name)
    info = {"planet": planet, "fname": fname, "src": src}
    for c in ("a", "b", "m0", "m1"):
        info[c] = const(c)
    if ast.unparse(asg["k"][0]) != "round((365.2425 * y + 1721060.0 - a) / b)": raise Bad("k formula")
    if ast.unparse(asg["jde0"][0]) != "a + k * b": raise Bad("jde0")
    if [ast.unparse(v) for v in asg["m"]] != ["m0 + k * m1", "Angle(m).to_positive()", "m.rad()"]: raise Bad("m")
    if ast.unparse(asg["t"][0]) != "(jde0 - 2451545.0) / 36525.0": raise Bad("t")
    if ast.unparse(asg["to_return"][0]) != "jde0 + corr": raise Bad("to_return")
    aux = []
    for nm in ("aa", "bb", "cc", "dd", "ee", "ff", "gg"):
        if nm in asg:
            if len(asg[nm]) != 2 or ast.unparse(asg[nm][1]) != "Angle(%s).rad()" % nm: raise Bad("aux " + nm)
            aux.append((nm, asg[nm][0]))
    info["aux"] = aux
    info["corr"] = asg["corr"][0]
    info["elon"] = None
    if "elon" in asg:
        if len(asg["elon"]) != 2 or ast.unparse(asg["elon"][1]) != "Angle(elon).to_positive()": raise Bad("elon")
        info["elon"] = asg["elon"][0]
    ret = [st for st in fn.body if isinstance(st, ast.Return)][0]
    want = "(Epoch(to_return), elon)" if info["elon"] is not None else "Epoch(to_return)"
    if ast.unparse(ret.value) != want: raise Bad("return " + ast.unparse(ret.value))
    return info


def bound(ex, node, pieces=248):
    """(c0, C): c0 = value with t=0 and sin=cos=0; C >= sup |expr - c0| over t in [-41,21], trig free"""
    z = (Fraction(0), Fraction(0))
    angs = ("m", "aa", "bb", "cc", "dd", "ee", "ff", "gg")
    env0 = {a: z for a in angs}; env0.update({"t": z, "_trig": z})
    c0 = ex.ival(node, env0)[0]
    lo, hi = None, None
    for i in range(pieces):
        a = Fraction(-41) + Fraction(62 * i, pieces)
        b = Fraction(-41) + Fraction(62 * (i + 1), pieces)
        free = (Fraction(-10**9), Fraction(10**9))
        env = {x: free for x in angs}; env["t"] = (a, b)
        l, h = ex.ival(node, env)
        lo = l if lo is None else min(lo, l)
        hi = h if hi is None else max(hi, h)
    return c0, lo, hi


def dec_up(x, places=3):
    """smallest decimal with `places` digits >= x, as (text for Rlit, Fraction)"""
    q = 10 ** places
    n = -((-x.numerator * q) // x.denominator)
    return "Rlit %s (-%d)" % (n if n >= 0 else "(%d)" % n, places), Fraction(n, q)


def frac_lit(x):
    """exact decimal Fraction -> Rlit text"""
    e = 0
    while (x * 10 ** e).denominator != 1: e += 1
    n = int(x * 10 ** e)
    return "Rlit %s %s" % (n if n >= 0 else "(%d)" % n, "(-%d)" % e if e else "0")


def emit(info):
    planet, fname, src = info["planet"], info["fname"], info["src"]
    aux = info["aux"]
    auxn = [a for a, _ in aux]
    names = {"t": "t", "m": "m"}
    for a in auxn: names[a] = a
    ex = Expr(src, names)
    corr = ex.coq(info["corr"])
    c0, lo, hi = bound(ex, info["corr"])
    Cnat = max(hi - c0, c0 - lo)
    Ctxt, C = dec_up(Cnat * Fraction(102, 100) + Fraction(1, 200))
    if 2 * C >= info["b"][1]: raise Bad("2C >= B")
    two = info["elon"] is not None
    params = "(t m%s : R)" % "".join(" " + a for a in auxn)
    args_generic = "t m" + "".join(" " + a for a in auxn)
    L = []
    w = L.append
    mod = "C13_f_%s_%s" % (planet, fname)
    w("(* %s.%s -- closed form of the regenerated model in the ideal instance, amplitude bound," % (planet, fname))
    w("   link to Spec.Finder.  Written by mkfinders.py from the source coefficients (checked in);")
    w("   re-proved against the regenerated model on every run. *)")
    w("From Coq Require Import Reals ZArith List Bool Lra Lia String.")
    w("From Interval Require Import Tactic.")
    w("From PyLib Require Import PyVal PyBuiltins Ideal Whnf PyEval.")
    w("From Spec Require Import Finder.")
    w("From Gen Require Import M_base M_Angle M_Epoch M_%s." % planet)
    w("From Proofs.C13 Require Import C13_angle C13_tac C13_defs.")
    w("Import ListNotations.")
    w("Open Scope R_scope.")
    w("Ltac2 Set Whnf.is_blocked as old := fun c =>")
    w("  Ltac2.Bool.or (old c) (Ltac2.List.exist (Ltac2.Constr.equal c)")
    w("    ['@Epoch_year; '@Angle___init__; '@Angle_to_positive; '@Epoch___init__]).")
    w("")
    w("Definition A : R := %s." % info["a"][0])
    w("Definition B : R := %s." % info["b"][0])
    w("Definition M0 : R := %s." % info["m0"][0])
    w("Definition M1 : R := %s." % info["m1"][0])
    w("Definition kofy (y : R) : Z := Rround ((Rlit 3652425 (-4) * y + Rlit 17210600 (-1) - A) / B).")
    w("Definition j0 (k : Z) : R := A + IZR k * B.")
    w("Definition tt (k : Z) : R := (j0 k - Rlit 24515450 (-1)) / Rlit 365250 (-1).")
    w("Definition marg (k : Z) : R := M0 + IZR k * M1.")
    exa = Expr(src, {"t": "t"})
    for a, node in aux:
        w("Definition aux_%s (t : R) : R := %s." % (a, exa.coq(node)))
    w("Definition corr %s : R :=\n  %s." % (params, corr))
    if two:
        elon = ex.coq(info["elon"])
        e0, elo, ehi = bound(ex, info["elon"])
        if not (elo >= 0 and ehi < 360): raise Bad("elon range")
        w("Definition elon %s : R :=\n  %s." % (params, elon))
    w("Definition c0 : R := %s." % frac_lit(c0))
    w("Definition C : R := %s." % Ctxt)
    rad = lambda x: "(%s * (PI / 180))" % x
    kargs = "(tt k) %s%s" % (rad("marg k"), "".join(" " + rad("aux_%s (tt k)" % a) for a in auxn))
    w("Definition cr (k : Z) : R := corr %s." % kargs)
    if two:
        w("Definition el (k : Z) : R := elon %s." % kargs)
    w("")
    w("Ltac lit_norm := repeat match goal with |- context [Rlit ?m ?e] =>")
    w("  let r := eval cbv -[IZR Rdiv Rmult Rinv Rplus Ropp] in (Rlit m e) in change (Rlit m e) with r end.")
    w("Ltac red_trig :=")
    w("  repeat first [ rewrite sin_red1 | rewrite cos_red1")
    w("               | rewrite (sin_red _ 2) by (lit_norm; lra) | rewrite (cos_red _ 2) by (lit_norm; lra)")
    w("               | rewrite (sin_red _ 3) by (lit_norm; lra) | rewrite (cos_red _ 3) by (lit_norm; lra)")
    w("               | rewrite (sin_red _ 4) by (lit_norm; lra) | rewrite (cos_red _ 4) by (lit_norm; lra)")
    w("               | rewrite (sin_red _ 5) by (lit_norm; lra) | rewrite (cos_red _ 5) by (lit_norm; lra) ].")
    w("")
    w("(* whole turns taken off an angle (what Angle() / to_positive() do) change nothing *)")
    funs = ["corr"] + (["elon"] if two else [])
    allang = ["m"] + auxn
    for f in funs:
        for i, an in enumerate(allang):
            before = " ".join(allang[:i]); after = " ".join(allang[i + 1:])
            vs = "t " + " ".join(x for x in allang if x != an)
            w("Lemma %s_turn_%s (%s x : R) (n : Z) :" % (f, an, vs.strip()))
            w("  %s t %s ((x - 360 * IZR n) * (PI / 180)) %s = %s t %s (x * (PI / 180)) %s." % (f, before, after, f, before, after))
            w("Proof. unfold %s. red_trig. reflexivity. Qed." % f)
    w("")
    w("(* amplitude: |sin|,|cos| <= 1, coefficients bounded over -41 <= T <= 21 by interval arithmetic *)")
    w("Lemma corr_bound %s : -41 <= t <= 21 -> Rabs (corr %s - c0) <= C." % (params, args_generic))
    w("Proof. intro Ht. unfold corr, c0, C. lit_norm. interval with (i_bisect t, i_depth 8). Qed.")
    if two:
        w("Lemma elon_bound %s : -41 <= t <= 21 -> 0 <= elon %s < 360." % (params, args_generic))
        w("Proof. intro Ht. unfold elon. lit_norm. split; interval. Qed.")
    w("")
    w("(* the constants as the spec writes them *)")
    w("Lemma B_range : 0 < B <= 800 /\\ 2 * C < B.")
    w("Proof. unfold B, C. lit_norm. lra. Qed.")
    w("Lemma kofy_spec y : kofy y = kof A B y.")
    w("Proof. unfold kofy, kof, yinst. apply f_equal. apply (f_equal (fun z => z / B)). lit_norm. lra. Qed.")
    w("Lemma tt_spec k : tt k = tof A B k.")
    w("Proof. unfold tt, tof, j0, jde0. lit_norm. field. Qed.")
    w("Lemma found_spec y : found A B cr y = j0 (kofy y) + cr (kofy y).")
    w("Proof. unfold found, res, jde0, j0. rewrite kofy_spec. reflexivity. Qed.")
    w("Lemma tt_range y : -2000 <= y <= 4000 -> -41 <= tt (kofy y) <= 21.")
    w("Proof. intro Hy. rewrite tt_spec, kofy_spec. apply tof_range; [apply B_range | apply B_range | exact Hy]. Qed.")
    w("")
    fun = "%s_%s" % (planet, fname)
    w("Section Run.")
    w("  Variables (j y : R) (E : R -> R).")
    w("  Hypothesis Hy : Epoch_year Rops (VObj cEpoch [VFloat j]) = VFloat y.")
    w("")
    w("  Lemma closed : -2000 <= y <= 4000 -> Epoch_of E ->")
    if two:
        w("    %s Rops (VObj cEpoch [VFloat j]) =" % fun)
        w("    VTuple [VObj cEpoch [VFloat (E (j0 (kofy y) + cr (kofy y)))]; angle_val (el (kofy y))].")
    else:
        w("    %s Rops (VObj cEpoch [VFloat j]) = VObj cEpoch [VFloat (E (j0 (kofy y) + cr (kofy y)))]." % fun)
    w("  Proof.")
    w("    intros Hr HE. unfold Epoch_of in HE.")
    w("    destruct (ang_init_mk (marg (kofy y))) as (n1 & Hr1 & H1).")
    w("    destruct (ang_to_positive_mk _ Hr1) as (n2 & Hr2 & H2).")
    hyps = ["H1", "H2"]
    for a in auxn:
        w("    destruct (ang_init_mk (aux_%s (tt (kofy y)))) as (n_%s & Hr_%s & H_%s)." % (a, a, a, a))
        hyps.append("H_" + a)
    redm = "(marg (kofy y) - 360 * IZR n1 - 360 * IZR n2)"
    redargs = "(tt (kofy y)) %s%s" % (rad(redm), "".join(" " + rad("(aux_%s (tt (kofy y)) - 360 * IZR n_%s)" % (a, a)) for a in auxn))
    if two:
        w("    pose proof (elon_bound %s (tt_range y Hr)) as Hel." % redargs)
        w("    pose proof (ang_init_small_mk _ (conj (Rlt_le_trans (-360) 0 _ ltac:(lra) (proj1 Hel)) (proj2 Hel))) as H3.")
        w("    pose proof (ang_to_positive_id_mk _ Hel) as H4.")
        hyps += ["H3", "H4"]
    unf = "marg, kofy, tt, j0, M0, M1, A, B" + "".join(", aux_" + a for a in auxn) + (", elon" if two else "")
    w("    unfold %s in %s." % (unf, ", ".join(hyps)))
    w("    pyrun2.")
    # fold back: state the evaluated form with the reduced angles, then remove the turns
    w("    unfold cr%s." % (", el, angle_val" if two else ""))
    for f in funs:
        w("    rewrite <- (%s_turn_m (tt (kofy y)) %s (marg (kofy y)) n1)." % (f, " ".join(rad("aux_%s (tt (kofy y))" % a) for a in auxn)))
        w("    rewrite <- (%s_turn_m (tt (kofy y)) %s (marg (kofy y) - 360 * IZR n1) n2)." % (f, " ".join(rad("aux_%s (tt (kofy y))" % a) for a in auxn)))
        for i, a in enumerate(auxn):
            # arguments: t, then all angles except this one, in order (m first, already reduced)
            others = [rad(redm)] + [rad("(aux_%s (tt (kofy y)) - 360 * IZR n_%s)" % (b, b)) if k < i else rad("aux_%s (tt (kofy y))" % b)
                                    for k, b in enumerate(auxn) if b != a]
            w("    rewrite <- (%s_turn_%s (tt (kofy y)) %s (aux_%s (tt (kofy y))) n_%s)." % (f, a, " ".join(others), a, a))
    w("    unfold corr, %s." % unf)
    w("    reflexivity.")
    w("  Qed.")
    w("")
    w("  Lemma out_of_range : y < -2000 \\/ 4000 < y -> %s Rops (VObj cEpoch [VFloat j]) = VErr ValueError." % fun)
    w("  Proof. intros [H | H]; (match goal with |- _ => pyrun2; reflexivity end). Qed.")
    w("End Run.")
    w("")
    w("Lemma wrong_type v : not_object v -> %s Rops v = VErr TypeError." % fun)
    w("Proof. destruct v; simpl; intro H; try contradiction; (match goal with |- _ => pyrun2; reflexivity end). Qed.")
    w("")
    if two:
        w("Theorem ok : finder_props2 (%s Rops) A B c0 C cr el." % fun)
        w("Proof.")
        w("  split; [exact B_range |]. split; [| split; [| split]].")
        w("  - intros k Hk. rewrite <- tt_spec in Hk. split; [apply corr_bound | apply elon_bound]; exact Hk.")
        w("  - intros j y E Hy Hr HE. rewrite found_spec, <- kofy_spec. exact (closed j y E Hy Hr HE).")
    else:
        w("Theorem ok : finder_props (%s Rops) A B c0 C cr." % fun)
        w("Proof.")
        w("  split; [exact B_range |]. split; [| split; [| split]].")
        w("  - intros k Hk. rewrite <- tt_spec in Hk. apply corr_bound. exact Hk.")
        w("  - intros j y E Hy Hr HE. rewrite found_spec. exact (closed j y E Hy Hr HE).")
    w("  - intros j y Hy Hr. exact (out_of_range j y Hy Hr).")
    w("  - exact wrong_type.")
    w("Qed.")
    open(os.path.join(OUT, mod + ".v"), "w").write("\n".join(L) + "\n")
    emit_exact(planet, fname, mod, fun, two, auxn, funs, unf, redm, redargs, rad)
    return mod, {"A": float(info["a"][1]), "B": float(info["b"][1]), "c0": float(c0), "C": float(C), "two": two,
                 "aux": auxn}



def emit_exact(planet, fname, mod, fun, two, auxn, funs, unf, redm, redargs, rad):
    """C13_x_<finder>.v (thorough tier): the same evaluation with Epoch(x) = the Epoch holding x (C02's theorem)"""
    L = []
    w = L.append
    w("(* %s.%s (thorough tier) -- the closed form without the hypothesis about Epoch(x): the instant handed to Epoch()" % (planet, fname))
    w("   is in the range of C02's Epoch_ctor_exact_ideal, so the returned Epoch holds exactly A + k B + periodic terms.")
    w("   Written by mkfinders.py (checked in). *)")
    w("From Coq Require Import Reals ZArith List Bool Lra Lia String.")
    w("From PyLib Require Import PyVal PyBuiltins Ideal Whnf PyEval.")
    w("From Spec Require Import Finder.")
    w("From Gen Require Import M_base M_Angle M_Epoch M_%s." % planet)
    w("From Proofs.C02 Require Import C02_ctor_ideal.")
    w("From Proofs.C13 Require Import C13_angle C13_tac C13_defs C13_main C13_x_defs %s." % mod)
    w("Import ListNotations.")
    w("Open Scope R_scope.")
    w("Ltac2 Set Whnf.is_blocked as old := fun c =>")
    w("  Ltac2.Bool.or (old c) (Ltac2.List.exist (Ltac2.Constr.equal c)")
    w("    ['@Epoch_year; '@Angle___init__; '@Angle_to_positive; '@Epoch___init__]).")
    w("")
    w("Lemma amp : Rabs c0 + C <= 200.")
    w("Proof. unfold c0, C. lit_norm. unfold Rabs. destruct (Rcase_abs _); lra. Qed.")
    w("Lemma X_in_range y : -2000 <= y <= 4000 -> jde_in_range (j0 (kofy y) + cr (kofy y)).")
    w("Proof.")
    w("  intro Hy. rewrite <- found_spec. apply found_in_range with (c0 := c0) (C := C); [| exact amp | exact Hy].")
    w("  exact (%s _ _ _ _ _ _ %sok)." % ("timing2" if two else "timing1", "_ " if two else ""))
    w("Qed.")
    w("")
    w("Section Run.")
    w("  Variables (j y : R).")
    w("  Hypothesis Hy : Epoch_year Rops (VObj cEpoch [VFloat j]) = VFloat y.")
    w("  Lemma closed_exact : -2000 <= y <= 4000 ->")
    if two:
        w("    %s Rops (VObj cEpoch [VFloat j]) =" % fun)
        w("    VTuple [VObj cEpoch [VFloat (j0 (kofy y) + cr (kofy y))]; angle_val (el (kofy y))].")
    else:
        w("    %s Rops (VObj cEpoch [VFloat j]) = VObj cEpoch [VFloat (j0 (kofy y) + cr (kofy y))]." % fun)
    w("  Proof.")
    w("    intros Hr.")
    w("    destruct (ang_init_mk (marg (kofy y))) as (n1 & Hr1 & H1).")
    w("    destruct (ang_to_positive_mk _ Hr1) as (n2 & Hr2 & H2).")
    hyps = ["H1", "H2"]
    for a in auxn:
        w("    destruct (ang_init_mk (aux_%s (tt (kofy y)))) as (n_%s & Hr_%s & H_%s)." % (a, a, a, a))
        hyps.append("H_" + a)
    if two:
        w("    pose proof (elon_bound %s (tt_range y Hr)) as Hel." % redargs)
        w("    pose proof (ang_init_small_mk _ (conj (Rlt_le_trans (-360) 0 _ ltac:(lra) (proj1 Hel)) (proj2 Hel))) as H3.")
        w("    pose proof (ang_to_positive_id_mk _ Hel) as H4.")
        hyps += ["H3", "H4"]
    def turns(where):
        out = []
        fs = ["corr"] if where else funs
        for f in fs:
            out.append("    rewrite <- (%s_turn_m (tt (kofy y)) %s (marg (kofy y)) n1)%s." % (f, " ".join(rad("aux_%s (tt (kofy y))" % a) for a in auxn), where))
            out.append("    rewrite <- (%s_turn_m (tt (kofy y)) %s (marg (kofy y) - 360 * IZR n1) n2)%s." % (f, " ".join(rad("aux_%s (tt (kofy y))" % a) for a in auxn), where))
            for i, a in enumerate(auxn):
                others = [rad(redm)] + [rad("(aux_%s (tt (kofy y)) - 360 * IZR n_%s)" % (b, b)) if k < i else rad("aux_%s (tt (kofy y))" % b)
                                        for k, b in enumerate(auxn) if b != a]
                out.append("    rewrite <- (%s_turn_%s (tt (kofy y)) %s (aux_%s (tt (kofy y))) n_%s)%s." % (f, a, " ".join(others), a, a, where))
        return out
    w("    pose proof (X_in_range y Hr) as HX. unfold cr in HX.")
    for l in turns(" in HX"): w(l)
    w("    pose proof (Epoch_ctor_exact_ideal _ HX) as HE.")
    w("    unfold corr, %s in HE." % unf)
    w("    unfold %s in %s." % (unf, ", ".join(hyps)))
    w("    pyrun2.")
    w("    unfold cr%s." % (", el, angle_val" if two else ""))
    for l in turns(""): w(l)
    w("    unfold corr, %s." % unf)
    w("    reflexivity.")
    w("  Qed.")
    w("End Run.")
    w("")
    if two:
        w("Theorem exact : finder_exact2 (%s Rops) A B cr el." % fun)
        w("Proof. intros j y Hy Hr. rewrite found_spec, <- kofy_spec. exact (closed_exact j y Hy Hr). Qed.")
    else:
        w("Theorem exact : finder_exact (%s Rops) A B cr." % fun)
        w("Proof. intros j y Hy Hr. rewrite found_spec. exact (closed_exact j y Hy Hr). Qed.")
    open(os.path.join(OUT, mod.replace("C13_f_", "C13_x_") + ".v"), "w").write("\n".join(L) + "\n")

if __name__ == "__main__":
    only = sys.argv[2:] if len(sys.argv) > 2 else None
    table = {}
    for planet, fs in FINDERS.items():
        for f in fs:
            if only and "%s_%s" % (planet, f) not in only: continue
            try:
                mod, meta = emit(analyse(planet, f))
                table["%s.%s" % (planet, f)] = meta
                print("%-34s B=%-12.7f c0=%-9.4f C=%-7.3f %s" % (mod, meta["B"], meta["c0"], meta["C"], "elongation" if meta["two"] else ""))
            except Bad as e:
                print("SKIP %s.%s: %s" % (planet, f, e))
    import json
    json.dump(table, open(os.path.join(OUT, "finders.json"), "w"), indent=1, sort_keys=True)
    if not only:

        # thorough-tier statement files: the finder theorems without the Epoch(x) hypothesis
        ORB = ["Mercury", "Venus", "Earth", "Mars", "Jupiter", "Saturn", "Uranus"]
        for planet in list(FINDERS) + ["Earth"]:
            ks = [k for k in sorted(table) if k.startswith(planet + ".")]
            L = []
            w = L.append
            w("(* Property C13 (thorough tier) -- %s: the finder theorems with Epoch(x) = the Epoch holding exactly x (property C02's" % planet)
            w("   Epoch_ctor_exact_ideal) instead of a hypothesis.  Remaining hypotheses: the value of Epoch.year; for perihelion_aphelion also")
            w("   the VSOP87 positions, Interpolation()/minmax() and that the interpolated extremum lies inside its window.  T13_* obligations:")
            w("   compiled in the thorough tier, not listed in THEOREMS. *)")
            w("From Coq Require Import Reals ZArith List Bool Lra Lia String.")
            w("From PyLib Require Import PyVal PyBuiltins Ideal.")
            w("From Spec Require Import Finder OrbitFinder.")
            w("From Gen Require Import M_base M_Angle M_Epoch M_Interpolation M_%s." % planet)
            w("From Proofs.C13 Require Import C13_defs C13_pdefs C13_x_defs C13_xp_defs.")
            for k in ks:
                n = k.replace(".", "_")
                w("From Proofs.C13 Require C13_f_%s C13_x_%s." % (n, n))
            if planet in ORB: w("From Proofs.C13 Require C13_p_%s C13_xp_%s." % (planet, planet))
            w("Import ListNotations.")
            w("Open Scope R_scope.")
            names = []
            for k in ks:
                n = k.replace(".", "_"); m = "C13_f_" + n
                if table[k]["two"]:
                    w("Theorem T13_%s_exact : finder_exact2 (%s Rops) %s.A %s.B %s.cr %s.el." % (n, n, m, m, m, m))
                else:
                    w("Theorem T13_%s_exact : finder_exact (%s Rops) %s.A %s.B %s.cr." % (n, n, m, m, m))
                w("Proof. exact C13_x_%s.exact. Qed." % n)
                names.append("T13_%s_exact" % n)
            if planet in ORB:
                m = "C13_p_" + planet
                w("Theorem T13_%s_perihelion_aphelion_exact :" % planet)
                w("  peri_exact (%s_perihelion_aphelion Rops) (%s_geometric_heliocentric_position Rops) %s.J0 %s.P %s.c %s.a %s.y0 %s.h %s.corr." % (planet, planet, m, m, m, m, m, m, m))
                w("Proof. exact C13_xp_%s.exact. Qed." % planet)
                names.append("T13_%s_perihelion_aphelion_exact" % planet)
            for nme in names:
                w('Redirect "%s.assumptions" Print Assumptions %s.' % (nme, nme))
            open(os.path.join(OUT, "C13_sx_%s.v" % planet), "w").write("\n".join(L) + "\n")
