(* C13 -- what the generated Angle(x), .to_positive() and .rad() compute in the ideal
   (real-number) instance, for EVERY real x: a reduction by a whole number of turns.
   Used by the finder closed forms (C13_f_*.v), where these callees are blocked. *)
From Coq Require Import Reals ZArith List Bool Lra Lia String.
From PyLib Require Import PyVal PyBuiltins Ideal Whnf PyEval.
From Gen Require Import M_base M_Angle.
Import ListNotations.
Open Scope R_scope.

Definition tol0 : R := Rlit 1 (-10).
Definition ang (d : R) : val R := VObj cAngle [VFloat d; VFloat tol0].
Definition blankA : val R := VObj cAngle [VNone; VNone].

Lemma ang_ext a b : a = b -> VObj cAngle [VFloat a; VFloat (Rlit 1 (-10))] = ang b.
Proof. intros ->. reflexivity. Qed.

Lemma Rtrunc_nonneg a : 0 <= a -> Rtrunc a = Rfloor a.
Proof. intro H. unfold Rtrunc. destruct (Rlt_dec a 0); [lra | reflexivity]. Qed.

Lemma Rfmod_1 a : 0 <= a -> Rfmod a 1 = a - IZR (Rfloor a).
Proof.
  intro H. unfold Rfmod. replace (a / 1) with a by field.
  rewrite Rtrunc_nonneg by assumption. ring.
Qed.

(* the reduction for a non-negative magnitude a >= 360 *)
Lemma mag_reduce a : 0 <= a ->
  let q := Rfloor a in
  IZR (q mod 360) + (a - IZR q) = a - 360 * IZR (q / 360) /\
  0 <= IZR (q mod 360) + (a - IZR q) < 360.
Proof.
  intros Ha q. destruct (Rfloor_spec a) as [H1 H2]. fold q in H1, H2.
  assert (Hq : (q = 360 * (q / 360) + q mod 360)%Z) by (apply Z.div_mod; lia).
  assert (Hm : (0 <= q mod 360 < 360)%Z) by (apply Z.mod_pos_bound; lia).
  assert (E : IZR q = 360 * IZR (q / 360) + IZR (q mod 360)).
  { rewrite Hq at 1. rewrite plus_IZR, mult_IZR. reflexivity. }
  destruct Hm as [Hm1 Hm2].
  assert (Hm3 : (q mod 360 <= 359)%Z) by lia.
  apply IZR_le in Hm1, Hm3. split; lra.
Qed.

(* Angle(x) for one float argument: x minus a whole number of turns, sign kept *)
Lemma ang_init x : exists n : Z, -360 < x - 360 * IZR n < 360 /\
  Angle___init__ Rops blankA (VTuple [VFloat x]) (VDict []) = ang (x - 360 * IZR n).
Proof.
  unfold blankA.
  destruct (Rlt_dec (Rabs x) 360) as [Hs | Hb].
  - exists 0%Z. assert (-360 < x < 360) by (unfold Rabs in Hs; destruct (Rcase_abs x); lra).
    split; [lra |]. pyrun. unfold ang, tol0. replace (x - 360 * 0) with x by ring. reflexivity.
  - assert (Ha : 360 <= Rabs x) by lra.
    assert (Ha0 : 0 <= Rabs x) by apply Rabs_pos.
    pose proof (Rfmod_1 (Rabs x) Ha0) as Hfm.
    pose proof (mag_reduce (Rabs x) Ha0) as [Hred Hrng]. cbv zeta in Hred, Hrng.
    rewrite <- (Rtrunc_nonneg _ Ha0) in Hred, Hrng, Hfm.
    rewrite <- Hfm in Hred, Hrng.
    destruct (Rfloor_spec (Rabs x)) as [Hf1 Hf2]. rewrite <- (Rtrunc_nonneg _ Ha0) in Hf1, Hf2.
    assert (Hfr : 0 <= Rfmod (Rabs x) 1 < 1) by lra.
    destruct (Rle_dec 0 x) as [Hx | Hx].
    + exists (Rtrunc (Rabs x) / 360)%Z.
      assert (Ex : Rabs x = x) by (apply Rabs_right; lra).
      destruct (Req_EM_T (Rfmod (Rabs x) 1) 0) as [Hz | Hz].
      * split; [rewrite Ex in *; lra |]. pyrun. apply ang_ext. Rlit_norm.
        replace (if Rltb 1 0 then - 0 else 0) with 0 by (destruct (Rltb 1 0); ring).
        rewrite Hz in Hred. rewrite Ex in *. lra.
      * split; [rewrite Ex in *; lra |]. pyrun. apply ang_ext. Rlit_norm.
        rewrite Ex in *. lra.
    + exists (- (Rtrunc (Rabs x) / 360))%Z. rewrite opp_IZR.
      assert (Ex : Rabs x = - x) by (apply Rabs_left; lra).
      destruct (Req_EM_T (Rfmod (Rabs x) 1) 0) as [Hz | Hz].
      * split; [rewrite Ex in *; lra |]. pyrun. apply ang_ext. Rlit_norm.
        replace (if Rltb 1 0 then - 0 else 0) with 0 by (destruct (Rltb 1 0); ring).
        rewrite Hz in Hred. rewrite Ex in *. lra.
      * split; [rewrite Ex in *; lra |]. pyrun. apply ang_ext. Rlit_norm.
        rewrite Ex in *. lra.
Qed.

Lemma ang_init_small x : -360 < x < 360 ->
  Angle___init__ Rops blankA (VTuple [VFloat x]) (VDict []) = ang x.
Proof. intro H. unfold blankA. pyrun. reflexivity. Qed.

(* to_positive: one more turn for a negative value *)
Lemma ang_to_positive r0 : -360 < r0 < 360 -> exists n : Z,
  0 <= r0 - 360 * IZR n < 360 /\
  Angle_to_positive Rops (ang r0) = VTuple [ang (r0 - 360 * IZR n); ang (r0 - 360 * IZR n)].
Proof.
  intro H. destruct (Rlt_dec r0 0) as [Hn | Hp].
  - exists (-1)%Z. split; [lra |]. unfold ang. pyrun. Rlit_norm. unfold tol0.
    assert (3600 / 10 - Rabs r0 = r0 - 360 * -1) as -> by (rewrite Rabs_left by lra; lra).
    reflexivity.
  - exists 0%Z. split; [lra |]. unfold ang. pyrun. unfold tol0.
    replace (r0 - 360 * 0) with r0 by ring. reflexivity.
Qed.

Lemma ang_to_positive_id r : 0 <= r < 360 ->
  Angle_to_positive Rops (ang r) = VTuple [ang r; ang r].
Proof. intro H. unfold ang. pyrun. reflexivity. Qed.

Lemma ang_rad r : Angle_rad Rops (ang r) = VFloat (r * (PI / 180)).
Proof. unfold ang. pyrun. reflexivity. Qed.

(* whole turns do not change sin / cos of any integer multiple *)
Lemma sin_Zperiod x (z : Z) : sin (x + 2 * IZR z * PI) = sin x.
Proof.
  destruct z as [| p | p].
  - f_equal. ring.
  - replace (IZR (Z.pos p)) with (INR (Pos.to_nat p)) by (rewrite INR_IZR_INZ, positive_nat_Z; reflexivity).
    apply sin_period.
  - rewrite <- (sin_period (x + 2 * IZR (Z.neg p) * PI) (Pos.to_nat p)). f_equal.
    replace (INR (Pos.to_nat p)) with (IZR (Z.pos p)) by (rewrite INR_IZR_INZ, positive_nat_Z; reflexivity).
    change (Z.neg p) with (- Z.pos p)%Z. rewrite opp_IZR. ring.
Qed.
Lemma cos_Zperiod x (z : Z) : cos (x + 2 * IZR z * PI) = cos x.
Proof.
  destruct z as [| p | p].
  - f_equal. ring.
  - replace (IZR (Z.pos p)) with (INR (Pos.to_nat p)) by (rewrite INR_IZR_INZ, positive_nat_Z; reflexivity).
    apply cos_period.
  - rewrite <- (cos_period (x + 2 * IZR (Z.neg p) * PI) (Pos.to_nat p)). f_equal.
    replace (INR (Pos.to_nat p)) with (IZR (Z.pos p)) by (rewrite INR_IZR_INZ, positive_nat_Z; reflexivity).
    change (Z.neg p) with (- Z.pos p)%Z. rewrite opp_IZR. ring.
Qed.

(* c is a whole number j: c * (reduced angle in radians) has the same sin / cos *)
Lemma sin_red c (j : Z) x (n : Z) : c = IZR j ->
  sin (c * ((x - 360 * IZR n) * (PI / 180))) = sin (c * (x * (PI / 180))).
Proof.
  intros ->. rewrite <- (sin_Zperiod (IZR j * (x * (PI / 180))) (- (j * n))).
  f_equal. rewrite opp_IZR, mult_IZR. field.
Qed.
Lemma cos_red c (j : Z) x (n : Z) : c = IZR j ->
  cos (c * ((x - 360 * IZR n) * (PI / 180))) = cos (c * (x * (PI / 180))).
Proof.
  intros ->. rewrite <- (cos_Zperiod (IZR j * (x * (PI / 180))) (- (j * n))).
  f_equal. rewrite opp_IZR, mult_IZR. field.
Qed.
Lemma sin_red1 x (n : Z) : sin ((x - 360 * IZR n) * (PI / 180)) = sin (x * (PI / 180)).
Proof.
  rewrite <- (sin_Zperiod (x * (PI / 180)) (- n)). f_equal. rewrite opp_IZR. field.
Qed.
Lemma cos_red1 x (n : Z) : cos ((x - 360 * IZR n) * (PI / 180)) = cos (x * (PI / 180)).
Proof.
  rewrite <- (cos_Zperiod (x * (PI / 180)) (- n)). f_equal. rewrite opp_IZR. field.
Qed.

(* the same facts in the syntactic form in which pyrun meets the calls *)
Lemma ang_init_mk x : exists n : Z, -360 < x - 360 * IZR n < 360 /\
  Angle___init__ Rops (VObj cAngle [VNone; VNone]) (VTuple [VFloat x]) (VDict [])
  = VObj cAngle [VFloat (x - 360 * IZR n); VFloat (Rlit 1 (-10))].
Proof. exact (ang_init x). Qed.
Lemma ang_init_small_mk x : -360 < x < 360 ->
  Angle___init__ Rops (VObj cAngle [VNone; VNone]) (VTuple [VFloat x]) (VDict [])
  = VObj cAngle [VFloat x; VFloat (Rlit 1 (-10))].
Proof. exact (ang_init_small x). Qed.
Lemma ang_to_positive_mk r0 : -360 < r0 < 360 -> exists n : Z,
  0 <= r0 - 360 * IZR n < 360 /\
  Angle_to_positive Rops (VObj cAngle [VFloat r0; VFloat (Rlit 1 (-10))])
  = VTuple [VObj cAngle [VFloat (r0 - 360 * IZR n); VFloat (Rlit 1 (-10))];
            VObj cAngle [VFloat (r0 - 360 * IZR n); VFloat (Rlit 1 (-10))]].
Proof. exact (ang_to_positive r0). Qed.
Lemma ang_to_positive_id_mk r : 0 <= r < 360 ->
  Angle_to_positive Rops (VObj cAngle [VFloat r; VFloat (Rlit 1 (-10))])
  = VTuple [VObj cAngle [VFloat r; VFloat (Rlit 1 (-10))]; VObj cAngle [VFloat r; VFloat (Rlit 1 (-10))]].
Proof. exact (ang_to_positive_id r). Qed.
