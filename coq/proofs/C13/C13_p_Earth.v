(* Earth.perihelion_aphelion -- closed form of the regenerated model (ideal instance): index rules, mean instant,
   window of the 3-point interpolation; numbers for Spec.OrbitFinder.  Written by mkperi.py (checked in);
   re-proved against the regenerated model on every run. *)
From Coq Require Import Reals ZArith List Bool Lra Lia String.
From Interval Require Import Tactic.
From PyLib Require Import PyVal PyBuiltins Ideal Whnf PyEval.
From Spec Require Import Finder OrbitFinder.
From Gen Require Import M_base M_Angle M_Epoch M_Interpolation M_Earth.
From Proofs.C13 Require Import C13_angle C13_tac2 C13_defs C13_pdefs.
Import ListNotations.
Open Scope R_scope.
Ltac2 Set Whnf.is_blocked as old := fun c =>
  Ltac2.Bool.or (old c) (Ltac2.List.exist (Ltac2.Constr.equal c)
    ['@Epoch_year; '@Epoch___init__; '@Earth_geometric_heliocentric_position; '@Interpolation___init__;
     '@Interpolation_minmax; '@Angle___init__; '@ifv]).
Ltac lit_norm := repeat match goal with |- context [Rlit ?m ?e] =>
  let r := eval cbv -[IZR Rdiv Rmult Rinv Rplus Ropp] in (Rlit m e) in change (Rlit m e) with r end.

Definition a : R := Rlit 99997 (-5).
Definition y0 : R := Rlit 200001 (-2).
Definition J0 : R := Rlit 2451547507 (-3).
Definition P : R := Rlit 3652596358 (-7).
Definition c : R := (- Rlit 156 (-10)).
Definition h : R := Rlit 5 (-1).
Definition Kb : R := 4001.
Definition d : R := Rlit 2 (-3).
(* the index and the mean instant as the code writes them *)
Definition kP (y : R) : R := IZR (Rround (a * (y - y0))).
Definition kA (y : R) : R := IZR (Rround (a * (y - y0) + Rlit 5 (-1))) - Rlit 5 (-1).
Definition meanc (k : R) : R := J0 + k * (P + k * Rlit 156 (-10)).
Definition arg_a1 (k : R) : R := Rlit 32841 (-2) + Rlit 132788585 (-6) * k.
Definition arg_a2 (k : R) : R := Rlit 31613 (-2) + Rlit 584903153 (-6) * k.
Definition arg_a3 (k : R) : R := Rlit 34620 (-2) + Rlit 450380738 (-6) * k.
Definition arg_a4 (k : R) : R := Rlit 13695 (-2) + Rlit 659306737 (-6) * k.
Definition arg_a5 (k : R) : R := Rlit 24952 (-2) + Rlit 329653368 (-6) * k.
Definition corrP (r_a1 r_a2 r_a3 r_a4 r_a5 : R) : R :=
  ((((((Rlit 1278 (-3)) * (sin r_a1)) - ((Rlit 55 (-3)) * (sin r_a2))) - ((Rlit 91 (-3)) * (sin r_a3))) - ((Rlit 56 (-3)) * (sin r_a4))) - ((Rlit 45 (-3)) * (sin r_a5))).
Definition corrA (r_a1 r_a2 r_a3 r_a4 r_a5 : R) : R :=
  ((((((Rlit (-1352) (-3)) * (sin r_a1)) + ((Rlit 61 (-3)) * (sin r_a2))) + ((Rlit 62 (-3)) * (sin r_a3))) + ((Rlit 29 (-3)) * (sin r_a4))) + ((Rlit 31 (-3)) * (sin r_a5))).
Definition corr (b : bool) (k : R) : R := if b then corrP (arg_a1 k * (PI / 180)) (arg_a2 k * (PI / 180)) (arg_a3 k * (PI / 180)) (arg_a4 k * (PI / 180)) (arg_a5 k * (PI / 180)) else corrA (arg_a1 k * (PI / 180)) (arg_a2 k * (PI / 180)) (arg_a3 k * (PI / 180)) (arg_a4 k * (PI / 180)) (arg_a5 k * (PI / 180)).
Definition CB : R := Rlit 156 (-2).

Lemma half_lit : Rlit 5 (-1) = 1 / 2. Proof. lit_norm. lra. Qed.
Lemma kP_spec y : kP y = kper a y0 y. Proof. reflexivity. Qed.
Lemma kA_spec y : kA y = kaph a y0 y.
Proof. unfold kA, kaph, kappa. rewrite half_lit. reflexivity. Qed.
Lemma mean_spec k : meanc k = mean J0 P c k.
Proof. unfold meanc, mean, c. ring. Qed.
(* whole turns taken off an angle by Angle() change nothing *)
Ltac red_trig := repeat first [ rewrite sin_red1 | rewrite cos_red1 ].
Lemma corrP_turn_0 (v1 v2 v3 v4 x : R) (n : Z) : corrP ((x - 360 * IZR n) * (PI / 180)) v1 v2 v3 v4 = corrP (x * (PI / 180)) v1 v2 v3 v4.
Proof. unfold corrP. red_trig. reflexivity. Qed.
Lemma corrP_turn_1 (v0 v2 v3 v4 x : R) (n : Z) : corrP v0 ((x - 360 * IZR n) * (PI / 180)) v2 v3 v4 = corrP v0 (x * (PI / 180)) v2 v3 v4.
Proof. unfold corrP. red_trig. reflexivity. Qed.
Lemma corrP_turn_2 (v0 v1 v3 v4 x : R) (n : Z) : corrP v0 v1 ((x - 360 * IZR n) * (PI / 180)) v3 v4 = corrP v0 v1 (x * (PI / 180)) v3 v4.
Proof. unfold corrP. red_trig. reflexivity. Qed.
Lemma corrP_turn_3 (v0 v1 v2 v4 x : R) (n : Z) : corrP v0 v1 v2 ((x - 360 * IZR n) * (PI / 180)) v4 = corrP v0 v1 v2 (x * (PI / 180)) v4.
Proof. unfold corrP. red_trig. reflexivity. Qed.
Lemma corrP_turn_4 (v0 v1 v2 v3 x : R) (n : Z) : corrP v0 v1 v2 v3 ((x - 360 * IZR n) * (PI / 180)) = corrP v0 v1 v2 v3 (x * (PI / 180)).
Proof. unfold corrP. red_trig. reflexivity. Qed.
Lemma corrA_turn_0 (v1 v2 v3 v4 x : R) (n : Z) : corrA ((x - 360 * IZR n) * (PI / 180)) v1 v2 v3 v4 = corrA (x * (PI / 180)) v1 v2 v3 v4.
Proof. unfold corrA. red_trig. reflexivity. Qed.
Lemma corrA_turn_1 (v0 v2 v3 v4 x : R) (n : Z) : corrA v0 ((x - 360 * IZR n) * (PI / 180)) v2 v3 v4 = corrA v0 (x * (PI / 180)) v2 v3 v4.
Proof. unfold corrA. red_trig. reflexivity. Qed.
Lemma corrA_turn_2 (v0 v1 v3 v4 x : R) (n : Z) : corrA v0 v1 ((x - 360 * IZR n) * (PI / 180)) v3 v4 = corrA v0 v1 (x * (PI / 180)) v3 v4.
Proof. unfold corrA. red_trig. reflexivity. Qed.
Lemma corrA_turn_3 (v0 v1 v2 v4 x : R) (n : Z) : corrA v0 v1 v2 ((x - 360 * IZR n) * (PI / 180)) v4 = corrA v0 v1 v2 (x * (PI / 180)) v4.
Proof. unfold corrA. red_trig. reflexivity. Qed.
Lemma corrA_turn_4 (v0 v1 v2 v3 x : R) (n : Z) : corrA v0 v1 v2 v3 ((x - 360 * IZR n) * (PI / 180)) = corrA v0 v1 v2 v3 (x * (PI / 180)).
Proof. unfold corrA. red_trig. reflexivity. Qed.

Section Run.
  Variables (j y : R) (E Lf Bf Rf : R -> R) (F1 F2 F3 F4 : R -> R -> R -> R -> R -> R -> val R)
            (MM : R -> R -> R -> R -> R -> R -> R).
  Hypothesis Hy : year_is j y.
  Hypothesis HE : Epoch_of E.
  Hypothesis HG : helio_is (Earth_geometric_heliocentric_position Rops) Lf Bf Rf.
  Hypothesis HI : interp_is F1 F2 F3 F4 MM.

  Lemma closed_true : Earth_perihelion_aphelion Rops (VObj cEpoch [VFloat j]) (VBool true) =
    VObj cEpoch [VFloat (E (sol E Rf MM h (meanc (kP y) + corr true (kP y))))].
  Proof.
    pose proof Hy as Hy'. pose proof HE as HE'. pose proof HG as HG'. destruct HI as [HI1 HI2].
    unfold year_is in Hy'. unfold Epoch_of in HE'. unfold helio_is, angle_val in HG'.
    clear Hy HE HG HI.
    destruct (ang_init_mk (arg_a1 (kP y))) as (n0 & Hr0 & Ha0).
    destruct (ang_init_mk (arg_a2 (kP y))) as (n1 & Hr1 & Ha1).
    destruct (ang_init_mk (arg_a3 (kP y))) as (n2 & Hr2 & Ha2).
    destruct (ang_init_mk (arg_a4 (kP y))) as (n3 & Hr3 & Ha3).
    destruct (ang_init_mk (arg_a5 (kP y))) as (n4 & Hr4 & Ha4).
    unfold arg_a1, arg_a2, arg_a3, arg_a4, arg_a5, kP, a, y0 in Ha0, Ha1, Ha2, Ha3, Ha4.
    pyrun2.
    unfold sol, corr.
    rewrite <- (corrP_turn_0 (arg_a2 (kP y) * (PI / 180)) (arg_a3 (kP y) * (PI / 180)) (arg_a4 (kP y) * (PI / 180)) (arg_a5 (kP y) * (PI / 180)) (arg_a1 (kP y)) n0).
    rewrite <- (corrP_turn_1 ((arg_a1 (kP y) - 360 * IZR n0) * (PI / 180)) (arg_a3 (kP y) * (PI / 180)) (arg_a4 (kP y) * (PI / 180)) (arg_a5 (kP y) * (PI / 180)) (arg_a2 (kP y)) n1).
    rewrite <- (corrP_turn_2 ((arg_a1 (kP y) - 360 * IZR n0) * (PI / 180)) ((arg_a2 (kP y) - 360 * IZR n1) * (PI / 180)) (arg_a4 (kP y) * (PI / 180)) (arg_a5 (kP y) * (PI / 180)) (arg_a3 (kP y)) n2).
    rewrite <- (corrP_turn_3 ((arg_a1 (kP y) - 360 * IZR n0) * (PI / 180)) ((arg_a2 (kP y) - 360 * IZR n1) * (PI / 180)) ((arg_a3 (kP y) - 360 * IZR n2) * (PI / 180)) (arg_a5 (kP y) * (PI / 180)) (arg_a4 (kP y)) n3).
    rewrite <- (corrP_turn_4 ((arg_a1 (kP y) - 360 * IZR n0) * (PI / 180)) ((arg_a2 (kP y) - 360 * IZR n1) * (PI / 180)) ((arg_a3 (kP y) - 360 * IZR n2) * (PI / 180)) ((arg_a4 (kP y) - 360 * IZR n3) * (PI / 180)) (arg_a5 (kP y)) n4).
    unfold corrP, arg_a1, arg_a2, arg_a3, arg_a4, arg_a5.
    unfold meanc, kP, a, y0, J0, P, h. reflexivity.
  Qed.

  Lemma closed_false : Earth_perihelion_aphelion Rops (VObj cEpoch [VFloat j]) (VBool false) =
    VObj cEpoch [VFloat (E (sol E Rf MM h (meanc (kA y) + corr false (kA y))))].
  Proof.
    pose proof Hy as Hy'. pose proof HE as HE'. pose proof HG as HG'. destruct HI as [HI1 HI2].
    unfold year_is in Hy'. unfold Epoch_of in HE'. unfold helio_is, angle_val in HG'.
    clear Hy HE HG HI.
    destruct (ang_init_mk (arg_a1 (kA y))) as (n0 & Hr0 & Ha0).
    destruct (ang_init_mk (arg_a2 (kA y))) as (n1 & Hr1 & Ha1).
    destruct (ang_init_mk (arg_a3 (kA y))) as (n2 & Hr2 & Ha2).
    destruct (ang_init_mk (arg_a4 (kA y))) as (n3 & Hr3 & Ha3).
    destruct (ang_init_mk (arg_a5 (kA y))) as (n4 & Hr4 & Ha4).
    unfold arg_a1, arg_a2, arg_a3, arg_a4, arg_a5, kA, a, y0 in Ha0, Ha1, Ha2, Ha3, Ha4.
    pyrun2.
    unfold sol, corr.
    rewrite <- (corrA_turn_0 (arg_a2 (kA y) * (PI / 180)) (arg_a3 (kA y) * (PI / 180)) (arg_a4 (kA y) * (PI / 180)) (arg_a5 (kA y) * (PI / 180)) (arg_a1 (kA y)) n0).
    rewrite <- (corrA_turn_1 ((arg_a1 (kA y) - 360 * IZR n0) * (PI / 180)) (arg_a3 (kA y) * (PI / 180)) (arg_a4 (kA y) * (PI / 180)) (arg_a5 (kA y) * (PI / 180)) (arg_a2 (kA y)) n1).
    rewrite <- (corrA_turn_2 ((arg_a1 (kA y) - 360 * IZR n0) * (PI / 180)) ((arg_a2 (kA y) - 360 * IZR n1) * (PI / 180)) (arg_a4 (kA y) * (PI / 180)) (arg_a5 (kA y) * (PI / 180)) (arg_a3 (kA y)) n2).
    rewrite <- (corrA_turn_3 ((arg_a1 (kA y) - 360 * IZR n0) * (PI / 180)) ((arg_a2 (kA y) - 360 * IZR n1) * (PI / 180)) ((arg_a3 (kA y) - 360 * IZR n2) * (PI / 180)) (arg_a5 (kA y) * (PI / 180)) (arg_a4 (kA y)) n3).
    rewrite <- (corrA_turn_4 ((arg_a1 (kA y) - 360 * IZR n0) * (PI / 180)) ((arg_a2 (kA y) - 360 * IZR n1) * (PI / 180)) ((arg_a3 (kA y) - 360 * IZR n2) * (PI / 180)) ((arg_a4 (kA y) - 360 * IZR n3) * (PI / 180)) (arg_a5 (kA y)) n4).
    unfold corrA, arg_a1, arg_a2, arg_a3, arg_a4, arg_a5.
    unfold meanc, kA, a, y0, J0, P, h. reflexivity.
  Qed.
End Run.

Lemma wrong_type v b : not_object v -> Earth_perihelion_aphelion Rops v (VBool b) = VErr TypeError.
Proof. destruct v, b; simpl; intro H; try contradiction; (match goal with |- _ => pyrun2; reflexivity end). Qed.

Theorem ok : peri_props (Earth_perihelion_aphelion Rops) (Earth_geometric_heliocentric_position Rops) J0 P c a y0 h corr.
Proof.
  split; [| exact wrong_type].
  intros j y E Lf Bf Rf F1 F2 F3 F4 MM Hy HE HG HI. split.
  - rewrite <- kP_spec, <- mean_spec. exact (closed_true j y E Lf Bf Rf F1 F2 F3 F4 MM Hy HE HG HI).
  - rewrite <- kA_spec, <- mean_spec. exact (closed_false j y E Lf Bf Rf F1 F2 F3 F4 MM Hy HE HG HI).
Qed.

(* the correction added to the mean instant before the interpolation stays small *)
Lemma corr_bound b k : Rabs (corr b k) <= CB.
Proof. unfold corr, CB. destruct b; [unfold corrP | unfold corrA]; lit_norm; interval. Qed.
(* the instant handed to the interpolation is mean k + corr k, |corr| <= CB: half-width h + CB around mean k *)
Theorem numbers : orbit_numbers P c a y0 (h + CB) Kb d.
Proof.
  unfold orbit_numbers, P, c, a, y0, h, Kb, d, kappa, CB. lit_norm.
  repeat split; try lra; intros; lra.
Qed.
