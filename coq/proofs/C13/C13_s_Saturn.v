(* Property C13 -- statements for the Saturn finders (one statement file per planet so that the Print Assumptions
   traversals run in parallel); proofs in C13_f_Saturn_*.v against the model regenerated from /repo. *)
From Coq Require Import Reals ZArith List Bool Lra Lia String.
From PyLib Require Import PyVal PyBuiltins Ideal.
From Spec Require Import Finder.
From Gen Require Import M_base M_Angle M_Epoch M_Saturn.
From Proofs.C13 Require Import C13_defs.
From Proofs.C13 Require C13_f_Saturn_conjunction.
From Proofs.C13 Require C13_f_Saturn_opposition.
From Proofs.C13 Require C13_f_Saturn_station_longitude_1.
From Proofs.C13 Require C13_f_Saturn_station_longitude_2.
Import ListNotations.
Open Scope R_scope.

Theorem C13_Saturn_conjunction : finder_props (Saturn_conjunction Rops) C13_f_Saturn_conjunction.A C13_f_Saturn_conjunction.B C13_f_Saturn_conjunction.c0 C13_f_Saturn_conjunction.C C13_f_Saturn_conjunction.cr.
Proof. exact C13_f_Saturn_conjunction.ok. Qed.
Theorem C13_Saturn_opposition : finder_props (Saturn_opposition Rops) C13_f_Saturn_opposition.A C13_f_Saturn_opposition.B C13_f_Saturn_opposition.c0 C13_f_Saturn_opposition.C C13_f_Saturn_opposition.cr.
Proof. exact C13_f_Saturn_opposition.ok. Qed.
Theorem C13_Saturn_station_longitude_1 : finder_props (Saturn_station_longitude_1 Rops) C13_f_Saturn_station_longitude_1.A C13_f_Saturn_station_longitude_1.B C13_f_Saturn_station_longitude_1.c0 C13_f_Saturn_station_longitude_1.C C13_f_Saturn_station_longitude_1.cr.
Proof. exact C13_f_Saturn_station_longitude_1.ok. Qed.
Theorem C13_Saturn_station_longitude_2 : finder_props (Saturn_station_longitude_2 Rops) C13_f_Saturn_station_longitude_2.A C13_f_Saturn_station_longitude_2.B C13_f_Saturn_station_longitude_2.c0 C13_f_Saturn_station_longitude_2.C C13_f_Saturn_station_longitude_2.cr.
Proof. exact C13_f_Saturn_station_longitude_2.ok. Qed.

Redirect "C13_Saturn_conjunction.assumptions" Print Assumptions C13_Saturn_conjunction.
Redirect "C13_Saturn_opposition.assumptions" Print Assumptions C13_Saturn_opposition.
Redirect "C13_Saturn_station_longitude_1.assumptions" Print Assumptions C13_Saturn_station_longitude_1.
Redirect "C13_Saturn_station_longitude_2.assumptions" Print Assumptions C13_Saturn_station_longitude_2.
