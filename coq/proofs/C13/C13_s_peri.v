(* Property C13 -- perihelion / aphelion finders: statements.  Proofs in C13_p_<Planet>.v (closed form of the
   regenerated model, ideal instance) and Spec/OrbitFinder.v (hand-written).  Not entered, hypotheses: Epoch.year,
   Epoch(x), <Planet>.geometric_heliocentric_position (VSOP87), Interpolation(...) and its minmax() (assumed not to raise). *)
From Coq Require Import Reals ZArith List Bool Lra Lia String.
From PyLib Require Import PyVal PyBuiltins Ideal.
From Spec Require Import Finder OrbitFinder.
From Gen Require Import M_base M_Angle M_Epoch M_Interpolation M_Mercury M_Venus M_Earth M_Mars M_Jupiter M_Saturn M_Uranus.
From Proofs.C13 Require Import C13_defs C13_pdefs.
From Proofs.C13 Require C13_p_Mercury.
From Proofs.C13 Require C13_p_Venus.
From Proofs.C13 Require C13_p_Earth.
From Proofs.C13 Require C13_p_Mars.
From Proofs.C13 Require C13_p_Jupiter.
From Proofs.C13 Require C13_p_Saturn.
From Proofs.C13 Require C13_p_Uranus.
Import ListNotations.
Open Scope R_scope.

(* 1. <Planet>.perihelion_aphelion(epoch, perihelion) returns Epoch(sol) where sol is the minmax() of the interpolation of the
   radius vector at m - h, m, m + h, m = J0 + k (P - k c) [+ corr k for the Earth], k = round(a (y - y0)) for a perihelion and
   round(a (y - y0) + 1/2) - 1/2 for an aphelion (y = Epoch.year of the query); TypeError for a None/bool/int/float/str epoch;
   and the planet's numbers satisfy the side conditions of Spec.OrbitFinder (2h + d < P/2 ...). *)
Theorem C13_Mercury_perihelion_aphelion :
  peri_props (Mercury_perihelion_aphelion Rops) (Mercury_geometric_heliocentric_position Rops) C13_p_Mercury.J0 C13_p_Mercury.P C13_p_Mercury.c C13_p_Mercury.a C13_p_Mercury.y0 C13_p_Mercury.h C13_p_Mercury.corr /\
  orbit_numbers C13_p_Mercury.P C13_p_Mercury.c C13_p_Mercury.a C13_p_Mercury.y0 C13_p_Mercury.h C13_p_Mercury.Kb C13_p_Mercury.d.
Proof. exact (conj C13_p_Mercury.ok C13_p_Mercury.numbers). Qed.
Theorem C13_Venus_perihelion_aphelion :
  peri_props (Venus_perihelion_aphelion Rops) (Venus_geometric_heliocentric_position Rops) C13_p_Venus.J0 C13_p_Venus.P C13_p_Venus.c C13_p_Venus.a C13_p_Venus.y0 C13_p_Venus.h C13_p_Venus.corr /\
  orbit_numbers C13_p_Venus.P C13_p_Venus.c C13_p_Venus.a C13_p_Venus.y0 C13_p_Venus.h C13_p_Venus.Kb C13_p_Venus.d.
Proof. exact (conj C13_p_Venus.ok C13_p_Venus.numbers). Qed.
Theorem C13_Earth_perihelion_aphelion :
  peri_props (Earth_perihelion_aphelion Rops) (Earth_geometric_heliocentric_position Rops) C13_p_Earth.J0 C13_p_Earth.P C13_p_Earth.c C13_p_Earth.a C13_p_Earth.y0 C13_p_Earth.h C13_p_Earth.corr /\
  orbit_numbers C13_p_Earth.P C13_p_Earth.c C13_p_Earth.a C13_p_Earth.y0 (C13_p_Earth.h + C13_p_Earth.CB) C13_p_Earth.Kb C13_p_Earth.d.
Proof. exact (conj C13_p_Earth.ok C13_p_Earth.numbers). Qed.
Theorem C13_Mars_perihelion_aphelion :
  peri_props (Mars_perihelion_aphelion Rops) (Mars_geometric_heliocentric_position Rops) C13_p_Mars.J0 C13_p_Mars.P C13_p_Mars.c C13_p_Mars.a C13_p_Mars.y0 C13_p_Mars.h C13_p_Mars.corr /\
  orbit_numbers C13_p_Mars.P C13_p_Mars.c C13_p_Mars.a C13_p_Mars.y0 C13_p_Mars.h C13_p_Mars.Kb C13_p_Mars.d.
Proof. exact (conj C13_p_Mars.ok C13_p_Mars.numbers). Qed.
Theorem C13_Jupiter_perihelion_aphelion :
  peri_props (Jupiter_perihelion_aphelion Rops) (Jupiter_geometric_heliocentric_position Rops) C13_p_Jupiter.J0 C13_p_Jupiter.P C13_p_Jupiter.c C13_p_Jupiter.a C13_p_Jupiter.y0 C13_p_Jupiter.h C13_p_Jupiter.corr /\
  orbit_numbers C13_p_Jupiter.P C13_p_Jupiter.c C13_p_Jupiter.a C13_p_Jupiter.y0 C13_p_Jupiter.h C13_p_Jupiter.Kb C13_p_Jupiter.d.
Proof. exact (conj C13_p_Jupiter.ok C13_p_Jupiter.numbers). Qed.
Theorem C13_Saturn_perihelion_aphelion :
  peri_props (Saturn_perihelion_aphelion Rops) (Saturn_geometric_heliocentric_position Rops) C13_p_Saturn.J0 C13_p_Saturn.P C13_p_Saturn.c C13_p_Saturn.a C13_p_Saturn.y0 C13_p_Saturn.h C13_p_Saturn.corr /\
  orbit_numbers C13_p_Saturn.P C13_p_Saturn.c C13_p_Saturn.a C13_p_Saturn.y0 C13_p_Saturn.h C13_p_Saturn.Kb C13_p_Saturn.d.
Proof. exact (conj C13_p_Saturn.ok C13_p_Saturn.numbers). Qed.
Theorem C13_Uranus_perihelion_aphelion :
  peri_props (Uranus_perihelion_aphelion Rops) (Uranus_geometric_heliocentric_position Rops) C13_p_Uranus.J0 C13_p_Uranus.P C13_p_Uranus.c C13_p_Uranus.a C13_p_Uranus.y0 C13_p_Uranus.h C13_p_Uranus.corr /\
  orbit_numbers C13_p_Uranus.P C13_p_Uranus.c C13_p_Uranus.a C13_p_Uranus.y0 C13_p_Uranus.h C13_p_Uranus.Kb C13_p_Uranus.d.
Proof. exact (conj C13_p_Uranus.ok C13_p_Uranus.numbers). Qed.
(* the Earth's correction sum (added to the mean instant before the interpolation) is bounded *)
Theorem C13_Earth_perihelion_correction : forall b k, Rabs (C13_p_Earth.corr b k) <= C13_p_Earth.CB.
Proof. exact C13_p_Earth.corr_bound. Qed.

(* 2. Consequences (Spec.OrbitFinder) for any planet with such numbers and any result function r that stays within h of
   the mean instant (the extremum found by the interpolation lies inside its window: C12's clause, hypothesis here). *)
(* perihelion k, aphelion k + 1/2, perihelion k + 1 come strictly in this order: perihelia and aphelia alternate *)
Theorem C13_orbit_alternate : forall J0 P c a y0 h Kb d (r : R -> R), orbit_numbers P c a y0 h Kb d ->
  (forall k, - Kb - 1 <= k <= Kb + 1 -> Rabs (r k - mean J0 P c k) <= h) ->
  forall k, - Kb <= k <= Kb -> r k < r (k + 1 / 2) /\ r (k + 1 / 2) < r (k + 1).
Proof. intros J0 P c a y0 h Kb d r (Ha & HK & HdP & Hh & Hd & Hy) Hr. eapply (alternate J0 P c Kb d); eassumption. Qed.
(* successive events of one kind are one period apart within d + 2h *)
Theorem C13_orbit_spacing : forall J0 P c a y0 h Kb d (r : R -> R), orbit_numbers P c a y0 h Kb d ->
  (forall k, - Kb - 1 <= k <= Kb + 1 -> Rabs (r k - mean J0 P c k) <= h) ->
  forall k, - Kb <= k <= Kb -> P - d - 2 * h <= r (k + 1) - r k <= P + d + 2 * h.
Proof. intros J0 P c a y0 h Kb d r (Ha & HK & HdP & Hh & Hd & Hy) Hr. eapply (spacing J0 P c Kb d); eassumption. Qed.
(* the chosen index is within 1/2 of kappa = a (y - y0), an integer (perihelion) or an integer + 1/2 (aphelion), non-decreasing
   in the query year; the result is within (P + d)/2 + h of the mean instant of the query's own kappa *)
Theorem C13_orbit_near : forall J0 P c a y0 h Kb d (r : R -> R), orbit_numbers P c a y0 h Kb d ->
  (forall k, - Kb - 1 <= k <= Kb + 1 -> Rabs (r k - mean J0 P c k) <= h) ->
  forall y, -2000 <= y <= 4000 ->
  Rabs (r (kper a y0 y) - mean J0 P c (kappa a y0 y)) <= (P + d) / 2 + h /\
  Rabs (r (kaph a y0 y) - mean J0 P c (kappa a y0 y)) <= (P + d) / 2 + h.
Proof.
  intros J0 P c a y0 h Kb d r (Ha & HK & HdP & Hh & Hd & Hy) Hr y Hyr.
  pose proof (Hy y Hyr) as Hk. pose proof (kper_near a y0 y) as N1. pose proof (kaph_near a y0 y) as N2.
  pose proof (Rabs_inv _ _ N1). pose proof (Rabs_inv _ _ N2).
  split; (eapply (near_query J0 P c Kb d); [eassumption .. | |]; first [eassumption | lra]).
Qed.
Theorem C13_orbit_index : forall a y0, 0 < a ->
  (forall y, Rabs (kper a y0 y - kappa a y0 y) <= 1 / 2 /\ Rabs (kaph a y0 y - kappa a y0 y) <= 1 / 2) /\
  (forall y, (exists n : Z, kper a y0 y = IZR n) /\ (exists n : Z, kaph a y0 y = IZR n + 1 / 2)) /\
  (forall y1 y2, y1 <= y2 -> kper a y0 y1 <= kper a y0 y2 /\ kaph a y0 y1 <= kaph a y0 y2).
Proof.
  intros a y0 Ha. split; [| split].
  - intro y. split; [apply kper_near | apply kaph_near].
  - intro y. split; [apply kper_int | apply kaph_half].
  - intros y1 y2 H. split; [apply kper_mono | apply kaph_mono]; assumption.
Qed.

Redirect "C13_Mercury_perihelion_aphelion.assumptions" Print Assumptions C13_Mercury_perihelion_aphelion.
Redirect "C13_Venus_perihelion_aphelion.assumptions" Print Assumptions C13_Venus_perihelion_aphelion.
Redirect "C13_Earth_perihelion_aphelion.assumptions" Print Assumptions C13_Earth_perihelion_aphelion.
Redirect "C13_Mars_perihelion_aphelion.assumptions" Print Assumptions C13_Mars_perihelion_aphelion.
Redirect "C13_Jupiter_perihelion_aphelion.assumptions" Print Assumptions C13_Jupiter_perihelion_aphelion.
Redirect "C13_Saturn_perihelion_aphelion.assumptions" Print Assumptions C13_Saturn_perihelion_aphelion.
Redirect "C13_Uranus_perihelion_aphelion.assumptions" Print Assumptions C13_Uranus_perihelion_aphelion.
Redirect "C13_Earth_perihelion_correction.assumptions" Print Assumptions C13_Earth_perihelion_correction.
Redirect "C13_orbit_alternate.assumptions" Print Assumptions C13_orbit_alternate.
Redirect "C13_orbit_spacing.assumptions" Print Assumptions C13_orbit_spacing.
Redirect "C13_orbit_near.assumptions" Print Assumptions C13_orbit_near.
Redirect "C13_orbit_index.assumptions" Print Assumptions C13_orbit_index.
