(* Property C13 (thorough tier) -- Neptune: the finder theorems with Epoch(x) = the Epoch holding exactly x (property C02's
   Epoch_ctor_exact_ideal) instead of a hypothesis.  Remaining hypotheses: the value of Epoch.year; for perihelion_aphelion also
   the VSOP87 positions, Interpolation()/minmax() and that the interpolated extremum lies inside its window.  T13_* obligations:
   compiled in the thorough tier, not listed in THEOREMS. *)
From Coq Require Import Reals ZArith List Bool Lra Lia String.
From PyLib Require Import PyVal PyBuiltins Ideal.
From Spec Require Import Finder OrbitFinder.
From Gen Require Import M_base M_Angle M_Epoch M_Interpolation M_Neptune.
From Proofs.C13 Require Import C13_defs C13_pdefs C13_x_defs C13_xp_defs.
From Proofs.C13 Require C13_f_Neptune_conjunction C13_x_Neptune_conjunction.
From Proofs.C13 Require C13_f_Neptune_opposition C13_x_Neptune_opposition.
Import ListNotations.
Open Scope R_scope.
Theorem T13_Neptune_conjunction_exact : finder_exact (Neptune_conjunction Rops) C13_f_Neptune_conjunction.A C13_f_Neptune_conjunction.B C13_f_Neptune_conjunction.cr.
Proof. exact C13_x_Neptune_conjunction.exact. Qed.
Theorem T13_Neptune_opposition_exact : finder_exact (Neptune_opposition Rops) C13_f_Neptune_opposition.A C13_f_Neptune_opposition.B C13_f_Neptune_opposition.cr.
Proof. exact C13_x_Neptune_opposition.exact. Qed.
Redirect "T13_Neptune_conjunction_exact.assumptions" Print Assumptions T13_Neptune_conjunction_exact.
Redirect "T13_Neptune_opposition_exact.assumptions" Print Assumptions T13_Neptune_opposition_exact.
