(* Property C13 (thorough tier) -- Mars: the finder theorems with Epoch(x) = the Epoch holding exactly x (property C02's
   Epoch_ctor_exact_ideal) instead of a hypothesis.  Remaining hypotheses: the value of Epoch.year; for perihelion_aphelion also
   the VSOP87 positions, Interpolation()/minmax() and that the interpolated extremum lies inside its window.  T13_* obligations:
   compiled in the thorough tier, not listed in THEOREMS. *)
From Coq Require Import Reals ZArith List Bool Lra Lia String.
From PyLib Require Import PyVal PyBuiltins Ideal.
From Spec Require Import Finder OrbitFinder.
From Gen Require Import M_base M_Angle M_Epoch M_Interpolation M_Mars.
From Proofs.C13 Require Import C13_defs C13_pdefs C13_x_defs C13_xp_defs.
From Proofs.C13 Require C13_f_Mars_conjunction C13_x_Mars_conjunction.
From Proofs.C13 Require C13_f_Mars_opposition C13_x_Mars_opposition.
From Proofs.C13 Require C13_f_Mars_station_longitude_1 C13_x_Mars_station_longitude_1.
From Proofs.C13 Require C13_f_Mars_station_longitude_2 C13_x_Mars_station_longitude_2.
From Proofs.C13 Require C13_p_Mars C13_xp_Mars.
Import ListNotations.
Open Scope R_scope.
Theorem T13_Mars_conjunction_exact : finder_exact (Mars_conjunction Rops) C13_f_Mars_conjunction.A C13_f_Mars_conjunction.B C13_f_Mars_conjunction.cr.
Proof. exact C13_x_Mars_conjunction.exact. Qed.
Theorem T13_Mars_opposition_exact : finder_exact (Mars_opposition Rops) C13_f_Mars_opposition.A C13_f_Mars_opposition.B C13_f_Mars_opposition.cr.
Proof. exact C13_x_Mars_opposition.exact. Qed.
Theorem T13_Mars_station_longitude_1_exact : finder_exact (Mars_station_longitude_1 Rops) C13_f_Mars_station_longitude_1.A C13_f_Mars_station_longitude_1.B C13_f_Mars_station_longitude_1.cr.
Proof. exact C13_x_Mars_station_longitude_1.exact. Qed.
Theorem T13_Mars_station_longitude_2_exact : finder_exact (Mars_station_longitude_2 Rops) C13_f_Mars_station_longitude_2.A C13_f_Mars_station_longitude_2.B C13_f_Mars_station_longitude_2.cr.
Proof. exact C13_x_Mars_station_longitude_2.exact. Qed.
Theorem T13_Mars_perihelion_aphelion_exact :
  peri_exact (Mars_perihelion_aphelion Rops) (Mars_geometric_heliocentric_position Rops) C13_p_Mars.J0 C13_p_Mars.P C13_p_Mars.c C13_p_Mars.a C13_p_Mars.y0 C13_p_Mars.h C13_p_Mars.corr.
Proof. exact C13_xp_Mars.exact. Qed.
Redirect "T13_Mars_conjunction_exact.assumptions" Print Assumptions T13_Mars_conjunction_exact.
Redirect "T13_Mars_opposition_exact.assumptions" Print Assumptions T13_Mars_opposition_exact.
Redirect "T13_Mars_station_longitude_1_exact.assumptions" Print Assumptions T13_Mars_station_longitude_1_exact.
Redirect "T13_Mars_station_longitude_2_exact.assumptions" Print Assumptions T13_Mars_station_longitude_2_exact.
Redirect "T13_Mars_perihelion_aphelion_exact.assumptions" Print Assumptions T13_Mars_perihelion_aphelion_exact.
