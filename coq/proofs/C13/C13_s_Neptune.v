(* Property C13 -- statements for the Neptune finders (one statement file per planet so that the Print Assumptions
   traversals run in parallel); proofs in C13_f_Neptune_*.v against the model regenerated from /repo. *)
From Coq Require Import Reals ZArith List Bool Lra Lia String.
From PyLib Require Import PyVal PyBuiltins Ideal.
From Spec Require Import Finder.
From Gen Require Import M_base M_Angle M_Epoch M_Neptune.
From Proofs.C13 Require Import C13_defs.
From Proofs.C13 Require C13_f_Neptune_conjunction.
From Proofs.C13 Require C13_f_Neptune_opposition.
Import ListNotations.
Open Scope R_scope.

Theorem C13_Neptune_conjunction : finder_props (Neptune_conjunction Rops) C13_f_Neptune_conjunction.A C13_f_Neptune_conjunction.B C13_f_Neptune_conjunction.c0 C13_f_Neptune_conjunction.C C13_f_Neptune_conjunction.cr.
Proof. exact C13_f_Neptune_conjunction.ok. Qed.
Theorem C13_Neptune_opposition : finder_props (Neptune_opposition Rops) C13_f_Neptune_opposition.A C13_f_Neptune_opposition.B C13_f_Neptune_opposition.c0 C13_f_Neptune_opposition.C C13_f_Neptune_opposition.cr.
Proof. exact C13_f_Neptune_opposition.ok. Qed.

Redirect "C13_Neptune_conjunction.assumptions" Print Assumptions C13_Neptune_conjunction.
Redirect "C13_Neptune_opposition.assumptions" Print Assumptions C13_Neptune_opposition.
