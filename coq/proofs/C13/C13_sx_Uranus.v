(* Property C13 (thorough tier) -- Uranus: the finder theorems with Epoch(x) = the Epoch holding exactly x (property C02's
   Epoch_ctor_exact_ideal) instead of a hypothesis.  Remaining hypotheses: the value of Epoch.year; for perihelion_aphelion also
   the VSOP87 positions, Interpolation()/minmax() and that the interpolated extremum lies inside its window.  T13_* obligations:
   compiled in the thorough tier, not listed in THEOREMS. *)
From Coq Require Import Reals ZArith List Bool Lra Lia String.
From PyLib Require Import PyVal PyBuiltins Ideal.
From Spec Require Import Finder OrbitFinder.
From Gen Require Import M_base M_Angle M_Epoch M_Interpolation M_Uranus.
From Proofs.C13 Require Import C13_defs C13_pdefs C13_x_defs C13_xp_defs.
From Proofs.C13 Require C13_f_Uranus_conjunction C13_x_Uranus_conjunction.
From Proofs.C13 Require C13_f_Uranus_opposition C13_x_Uranus_opposition.
From Proofs.C13 Require C13_p_Uranus C13_xp_Uranus.
Import ListNotations.
Open Scope R_scope.
Theorem T13_Uranus_conjunction_exact : finder_exact (Uranus_conjunction Rops) C13_f_Uranus_conjunction.A C13_f_Uranus_conjunction.B C13_f_Uranus_conjunction.cr.
Proof. exact C13_x_Uranus_conjunction.exact. Qed.
Theorem T13_Uranus_opposition_exact : finder_exact (Uranus_opposition Rops) C13_f_Uranus_opposition.A C13_f_Uranus_opposition.B C13_f_Uranus_opposition.cr.
Proof. exact C13_x_Uranus_opposition.exact. Qed.
Theorem T13_Uranus_perihelion_aphelion_exact :
  peri_exact (Uranus_perihelion_aphelion Rops) (Uranus_geometric_heliocentric_position Rops) C13_p_Uranus.J0 C13_p_Uranus.P C13_p_Uranus.c C13_p_Uranus.a C13_p_Uranus.y0 C13_p_Uranus.h C13_p_Uranus.corr.
Proof. exact C13_xp_Uranus.exact. Qed.
Redirect "T13_Uranus_conjunction_exact.assumptions" Print Assumptions T13_Uranus_conjunction_exact.
Redirect "T13_Uranus_opposition_exact.assumptions" Print Assumptions T13_Uranus_opposition_exact.
Redirect "T13_Uranus_perihelion_aphelion_exact.assumptions" Print Assumptions T13_Uranus_perihelion_aphelion_exact.
