(* C13 -- consequences that hold for EVERY finder satisfying finder_props / finder_props2
   (each of the 28 periodic-term finders does: files C13_f_*.v). *)
From Coq Require Import Reals ZArith List Bool Lra Lia String.
From PyLib Require Import PyVal PyBuiltins Ideal.
From Spec Require Import Finder.
From Gen Require Import M_base M_Angle M_Epoch.
From Proofs.C13 Require Import C13_defs.
Import ListNotations.
Open Scope R_scope.

(* the part of finder_props2 that finder_props also has *)
Definition timing (A B c0 C : R) (cr : Z -> R) : Prop :=
  (0 < B <= 800 /\ 2 * C < B) /\ (forall k, -41 <= tof A B k <= 21 -> Rabs (cr k - c0) <= C).

Lemma timing1 f A B c0 C cr : finder_props f A B c0 C cr -> timing A B c0 C cr.
Proof. intros (H1 & H2 & _). split; assumption. Qed.
Lemma timing2 f A B c0 C cr el : finder_props2 f A B c0 C cr el -> timing A B c0 C cr.
Proof. intros (H1 & H2 & _). split; [assumption |]. intros k Hk. apply (H2 k Hk). Qed.

Section Any.
  Variables (A B c0 C : R) (cr : Z -> R).
  Hypothesis HT : timing A B c0 C cr.

  Lemma order y1 y2 : -2000 <= y1 -> y1 <= y2 -> y2 <= 4000 ->
    found A B cr y1 <= found A B cr y2 /\
    (kof A B y1 = kof A B y2 \/ found A B cr y1 + (B - 2 * C) <= found A B cr y2).
  Proof. destruct HT as [H1 H2]. exact (cons_monotone A B c0 C cr H1 H2 y1 y2). Qed.

  Lemma spacing y1 y2 : -2000 <= y1 <= 4000 -> -2000 <= y2 <= 4000 ->
    kof A B y2 = (kof A B y1 + 1)%Z ->
    B - 2 * C <= found A B cr y2 - found A B cr y1 <= B + 2 * C.
  Proof. destruct HT as [H1 H2]. exact (cons_next A B c0 C cr H1 H2 y1 y2). Qed.

  Lemma noskip y1 y2 k : (kof A B y1 < k < kof A B y2)%Z -> exists y, y1 < y < y2 /\ kof A B y = k.
  Proof. destruct HT as [H1 H2]. exact (cons_noskip A B C H1 y1 y2 k). Qed.

  Lemma near y J D : -2000 <= y <= 4000 -> Rabs (yinst y - J) <= D ->
    Rabs (found A B cr y - J) <= B / 2 + D + Rabs c0 + C.
  Proof. destruct HT as [H1 H2]. exact (cons_near A B c0 C cr H1 H2 y J D). Qed.

  (* with D = 20 (searched: |365.2425 year(J) + 1721060 - J| <= 20 on -2000..4000) the result
     is less than one period from the query as soon as 20 + |c0| + C < B/2 *)
  Lemma within_period y J : -2000 <= y <= 4000 -> Rabs (yinst y - J) <= 20 ->
    20 + Rabs c0 + C < B / 2 -> Rabs (found A B cr y - J) < B.
  Proof. intros Hy HJ Hs. pose proof (near y J 20 Hy HJ). lra. Qed.
End Any.
