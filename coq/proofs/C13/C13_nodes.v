(* C13 -- <Planet>.passage_nodes(epoch, ascending), 7 planets, ideal instance of the regenerated model:
   it returns exactly what Coordinates.passage_nodes_elliptic(arg, e, a, T, ascending) returns, where (l, a, e, i, ome, arg) =
   <Planet>.orbital_elements_mean_equinox(epoch) and T = <Planet>.perihelion_aphelion(epoch) (perihelion) -- the three callees
   are not entered (hypotheses with their values).  The closed form of passage_nodes_elliptic itself (v = -omega or 180 - omega,
   E from tan(E/2), M, t = T + M/n, r) is C11's theorem C11_nodes_elliptic about the same term
   f_passage_nodes_elliptic Rops (angle w) (VFloat e) (VFloat a) (epoch T) (VBool asc): it is not repeated here. *)
From Coq Require Import Reals ZArith List Bool Lra Lia String.
From PyLib Require Import PyVal PyBuiltins Ideal Whnf PyEval.
From Gen Require Import M_base M_Angle M_Epoch M_Coordinates M_Mercury M_Venus M_Earth M_Mars M_Jupiter M_Saturn M_Uranus.
From Proofs.C13 Require Import C13_tac2 C13_defs.
Import ListNotations.
Open Scope R_scope.
Ltac2 Set Whnf.is_blocked as old := fun c =>
  Ltac2.Bool.or (old c) (Ltac2.List.exist (Ltac2.Constr.equal c)
    ['@f_passage_nodes_elliptic; '@ifv; '@Mercury_orbital_elements_mean_equinox; '@Mercury_perihelion_aphelion; '@Venus_orbital_elements_mean_equinox; '@Venus_perihelion_aphelion; '@Earth_orbital_elements_mean_equinox; '@Earth_perihelion_aphelion; '@Mars_orbital_elements_mean_equinox; '@Mars_perihelion_aphelion; '@Jupiter_orbital_elements_mean_equinox; '@Jupiter_perihelion_aphelion; '@Saturn_orbital_elements_mean_equinox; '@Saturn_perihelion_aphelion; '@Uranus_orbital_elements_mean_equinox; '@Uranus_perihelion_aphelion]).

Definition epo (x : R) : val R := VObj cEpoch [VFloat x].
(* the values of the three callees for the query epoch j *)
Definition nodes_callees (oe : val R -> val R) (pa : val R -> val R -> val R) (j l a e i ome w T : R) (asc : bool) (tn rn : R) : Prop :=
  oe (epo j) = VTuple [angle_val l; VFloat a; VFloat e; angle_val i; angle_val ome; angle_val w] /\
  pa (epo j) (VBool true) = epo T /\
  f_passage_nodes_elliptic Rops (angle_val w) (VFloat e) (VFloat a) (epo T) (VBool asc) = VTuple [epo tn; VFloat rn].
Definition nodes_props (f : val R -> val R -> val R) (oe : val R -> val R) (pa : val R -> val R -> val R) : Prop :=
  (forall j l a e i ome w T asc tn rn, nodes_callees oe pa j l a e i ome w T asc tn rn ->
     f (epo j) (VBool asc) = VTuple [epo tn; VFloat rn]) /\
  (forall v b, not_object v -> f v (VBool b) = VErr TypeError).

Theorem nodes_Mercury : nodes_props (Mercury_passage_nodes Rops) (Mercury_orbital_elements_mean_equinox Rops) (Mercury_perihelion_aphelion Rops).
Proof.
  split.
  - intros j l a e i ome w T asc tn rn (Ho & Hp & Hn). unfold epo, angle_val in *.
    destruct asc; (match goal with |- _ => pyrun2; reflexivity end).
  - intros v b. destruct v, b; simpl; intro H; try contradiction; (match goal with |- _ => pyrun2; reflexivity end).
Qed.
Theorem nodes_Venus : nodes_props (Venus_passage_nodes Rops) (Venus_orbital_elements_mean_equinox Rops) (Venus_perihelion_aphelion Rops).
Proof.
  split.
  - intros j l a e i ome w T asc tn rn (Ho & Hp & Hn). unfold epo, angle_val in *.
    destruct asc; (match goal with |- _ => pyrun2; reflexivity end).
  - intros v b. destruct v, b; simpl; intro H; try contradiction; (match goal with |- _ => pyrun2; reflexivity end).
Qed.
Theorem nodes_Earth : nodes_props (Earth_passage_nodes Rops) (Earth_orbital_elements_mean_equinox Rops) (Earth_perihelion_aphelion Rops).
Proof.
  split.
  - intros j l a e i ome w T asc tn rn (Ho & Hp & Hn). unfold epo, angle_val in *.
    destruct asc; (match goal with |- _ => pyrun2; reflexivity end).
  - intros v b. destruct v, b; simpl; intro H; try contradiction; (match goal with |- _ => pyrun2; reflexivity end).
Qed.
Theorem nodes_Mars : nodes_props (Mars_passage_nodes Rops) (Mars_orbital_elements_mean_equinox Rops) (Mars_perihelion_aphelion Rops).
Proof.
  split.
  - intros j l a e i ome w T asc tn rn (Ho & Hp & Hn). unfold epo, angle_val in *.
    destruct asc; (match goal with |- _ => pyrun2; reflexivity end).
  - intros v b. destruct v, b; simpl; intro H; try contradiction; (match goal with |- _ => pyrun2; reflexivity end).
Qed.
Theorem nodes_Jupiter : nodes_props (Jupiter_passage_nodes Rops) (Jupiter_orbital_elements_mean_equinox Rops) (Jupiter_perihelion_aphelion Rops).
Proof.
  split.
  - intros j l a e i ome w T asc tn rn (Ho & Hp & Hn). unfold epo, angle_val in *.
    destruct asc; (match goal with |- _ => pyrun2; reflexivity end).
  - intros v b. destruct v, b; simpl; intro H; try contradiction; (match goal with |- _ => pyrun2; reflexivity end).
Qed.
Theorem nodes_Saturn : nodes_props (Saturn_passage_nodes Rops) (Saturn_orbital_elements_mean_equinox Rops) (Saturn_perihelion_aphelion Rops).
Proof.
  split.
  - intros j l a e i ome w T asc tn rn (Ho & Hp & Hn). unfold epo, angle_val in *.
    destruct asc; (match goal with |- _ => pyrun2; reflexivity end).
  - intros v b. destruct v, b; simpl; intro H; try contradiction; (match goal with |- _ => pyrun2; reflexivity end).
Qed.
Theorem nodes_Uranus : nodes_props (Uranus_passage_nodes Rops) (Uranus_orbital_elements_mean_equinox Rops) (Uranus_perihelion_aphelion Rops).
Proof.
  split.
  - intros j l a e i ome w T asc tn rn (Ho & Hp & Hn). unfold epo, angle_val in *.
    destruct asc; (match goal with |- _ => pyrun2; reflexivity end).
  - intros v b. destruct v, b; simpl; intro H; try contradiction; (match goal with |- _ => pyrun2; reflexivity end).
Qed.
