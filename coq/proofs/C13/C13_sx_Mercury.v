(* Property C13 (thorough tier) -- Mercury: the finder theorems with Epoch(x) = the Epoch holding exactly x (property C02's
   Epoch_ctor_exact_ideal) instead of a hypothesis.  Remaining hypotheses: the value of Epoch.year; for perihelion_aphelion also
   the VSOP87 positions, Interpolation()/minmax() and that the interpolated extremum lies inside its window.  T13_* obligations:
   compiled in the thorough tier, not listed in THEOREMS. *)
From Coq Require Import Reals ZArith List Bool Lra Lia String.
From PyLib Require Import PyVal PyBuiltins Ideal.
From Spec Require Import Finder OrbitFinder.
From Gen Require Import M_base M_Angle M_Epoch M_Interpolation M_Mercury.
From Proofs.C13 Require Import C13_defs C13_pdefs C13_x_defs C13_xp_defs.
From Proofs.C13 Require C13_f_Mercury_eastern_elongation C13_x_Mercury_eastern_elongation.
From Proofs.C13 Require C13_f_Mercury_inferior_conjunction C13_x_Mercury_inferior_conjunction.
From Proofs.C13 Require C13_f_Mercury_station_longitude_1 C13_x_Mercury_station_longitude_1.
From Proofs.C13 Require C13_f_Mercury_station_longitude_2 C13_x_Mercury_station_longitude_2.
From Proofs.C13 Require C13_f_Mercury_superior_conjunction C13_x_Mercury_superior_conjunction.
From Proofs.C13 Require C13_f_Mercury_western_elongation C13_x_Mercury_western_elongation.
From Proofs.C13 Require C13_p_Mercury C13_xp_Mercury.
Import ListNotations.
Open Scope R_scope.
Theorem T13_Mercury_eastern_elongation_exact : finder_exact2 (Mercury_eastern_elongation Rops) C13_f_Mercury_eastern_elongation.A C13_f_Mercury_eastern_elongation.B C13_f_Mercury_eastern_elongation.cr C13_f_Mercury_eastern_elongation.el.
Proof. exact C13_x_Mercury_eastern_elongation.exact. Qed.
Theorem T13_Mercury_inferior_conjunction_exact : finder_exact (Mercury_inferior_conjunction Rops) C13_f_Mercury_inferior_conjunction.A C13_f_Mercury_inferior_conjunction.B C13_f_Mercury_inferior_conjunction.cr.
Proof. exact C13_x_Mercury_inferior_conjunction.exact. Qed.
Theorem T13_Mercury_station_longitude_1_exact : finder_exact (Mercury_station_longitude_1 Rops) C13_f_Mercury_station_longitude_1.A C13_f_Mercury_station_longitude_1.B C13_f_Mercury_station_longitude_1.cr.
Proof. exact C13_x_Mercury_station_longitude_1.exact. Qed.
Theorem T13_Mercury_station_longitude_2_exact : finder_exact (Mercury_station_longitude_2 Rops) C13_f_Mercury_station_longitude_2.A C13_f_Mercury_station_longitude_2.B C13_f_Mercury_station_longitude_2.cr.
Proof. exact C13_x_Mercury_station_longitude_2.exact. Qed.
Theorem T13_Mercury_superior_conjunction_exact : finder_exact (Mercury_superior_conjunction Rops) C13_f_Mercury_superior_conjunction.A C13_f_Mercury_superior_conjunction.B C13_f_Mercury_superior_conjunction.cr.
Proof. exact C13_x_Mercury_superior_conjunction.exact. Qed.
Theorem T13_Mercury_western_elongation_exact : finder_exact2 (Mercury_western_elongation Rops) C13_f_Mercury_western_elongation.A C13_f_Mercury_western_elongation.B C13_f_Mercury_western_elongation.cr C13_f_Mercury_western_elongation.el.
Proof. exact C13_x_Mercury_western_elongation.exact. Qed.
Theorem T13_Mercury_perihelion_aphelion_exact :
  peri_exact (Mercury_perihelion_aphelion Rops) (Mercury_geometric_heliocentric_position Rops) C13_p_Mercury.J0 C13_p_Mercury.P C13_p_Mercury.c C13_p_Mercury.a C13_p_Mercury.y0 C13_p_Mercury.h C13_p_Mercury.corr.
Proof. exact C13_xp_Mercury.exact. Qed.
Redirect "T13_Mercury_eastern_elongation_exact.assumptions" Print Assumptions T13_Mercury_eastern_elongation_exact.
Redirect "T13_Mercury_inferior_conjunction_exact.assumptions" Print Assumptions T13_Mercury_inferior_conjunction_exact.
Redirect "T13_Mercury_station_longitude_1_exact.assumptions" Print Assumptions T13_Mercury_station_longitude_1_exact.
Redirect "T13_Mercury_station_longitude_2_exact.assumptions" Print Assumptions T13_Mercury_station_longitude_2_exact.
Redirect "T13_Mercury_superior_conjunction_exact.assumptions" Print Assumptions T13_Mercury_superior_conjunction_exact.
Redirect "T13_Mercury_western_elongation_exact.assumptions" Print Assumptions T13_Mercury_western_elongation_exact.
Redirect "T13_Mercury_perihelion_aphelion_exact.assumptions" Print Assumptions T13_Mercury_perihelion_aphelion_exact.
