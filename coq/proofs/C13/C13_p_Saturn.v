(* Saturn.perihelion_aphelion -- closed form of the regenerated model (ideal instance): index rules, mean instant,
   window of the 3-point interpolation; numbers for Spec.OrbitFinder.  Written by mkperi.py (checked in);
   re-proved against the regenerated model on every run. *)
From Coq Require Import Reals ZArith List Bool Lra Lia String.
From Interval Require Import Tactic.
From PyLib Require Import PyVal PyBuiltins Ideal Whnf PyEval.
From Spec Require Import Finder OrbitFinder.
From Gen Require Import M_base M_Angle M_Epoch M_Interpolation M_Saturn.
From Proofs.C13 Require Import C13_angle C13_tac2 C13_defs C13_pdefs.
Import ListNotations.
Open Scope R_scope.
Ltac2 Set Whnf.is_blocked as old := fun c =>
  Ltac2.Bool.or (old c) (Ltac2.List.exist (Ltac2.Constr.equal c)
    ['@Epoch_year; '@Epoch___init__; '@Saturn_geometric_heliocentric_position; '@Interpolation___init__;
     '@Interpolation_minmax; '@Angle___init__; '@ifv]).
Ltac lit_norm := repeat match goal with |- context [Rlit ?m ?e] =>
  let r := eval cbv -[IZR Rdiv Rmult Rinv Rplus Ropp] in (Rlit m e) in change (Rlit m e) with r end.

Definition a : R := Rlit 3393 (-5).
Definition y0 : R := Rlit 200352 (-2).
Definition J0 : R := Rlit 245283012 (-2).
Definition P : R := Rlit 1076421676 (-5).
Definition c : R := Rlit 827 (-6).
Definition h : R := Rlit 900 (-1).
Definition Kb : R := 137.
Definition d : R := Rlit 230 (-3).
(* the index and the mean instant as the code writes them *)
Definition kP (y : R) : R := IZR (Rround (a * (y - y0))).
Definition kA (y : R) : R := IZR (Rround (a * (y - y0) + Rlit 5 (-1))) - Rlit 5 (-1).
Definition meanc (k : R) : R := J0 + k * (P - k * Rlit 827 (-6)).
Definition corr (b : bool) (k : R) : R := 0.

Lemma half_lit : Rlit 5 (-1) = 1 / 2. Proof. lit_norm. lra. Qed.
Lemma kP_spec y : kP y = kper a y0 y. Proof. reflexivity. Qed.
Lemma kA_spec y : kA y = kaph a y0 y.
Proof. unfold kA, kaph, kappa. rewrite half_lit. reflexivity. Qed.
Lemma mean_spec k : meanc k = mean J0 P c k.
Proof. unfold meanc, mean, c. ring. Qed.

Section Run.
  Variables (j y : R) (E Lf Bf Rf : R -> R) (F1 F2 F3 F4 : R -> R -> R -> R -> R -> R -> val R)
            (MM : R -> R -> R -> R -> R -> R -> R).
  Hypothesis Hy : year_is j y.
  Hypothesis HE : Epoch_of E.
  Hypothesis HG : helio_is (Saturn_geometric_heliocentric_position Rops) Lf Bf Rf.
  Hypothesis HI : interp_is F1 F2 F3 F4 MM.

  Lemma closed_true : Saturn_perihelion_aphelion Rops (VObj cEpoch [VFloat j]) (VBool true) =
    VObj cEpoch [VFloat (E (sol E Rf MM h (meanc (kP y) + corr true (kP y))))].
  Proof.
    pose proof Hy as Hy'. pose proof HE as HE'. pose proof HG as HG'. destruct HI as [HI1 HI2].
    unfold year_is in Hy'. unfold Epoch_of in HE'. unfold helio_is, angle_val in HG'.
    clear Hy HE HG HI.
    pyrun2.
    unfold sol, corr.
    rewrite !Rplus_0_r.
    unfold meanc, kP, a, y0, J0, P, h. reflexivity.
  Qed.

  Lemma closed_false : Saturn_perihelion_aphelion Rops (VObj cEpoch [VFloat j]) (VBool false) =
    VObj cEpoch [VFloat (E (sol E Rf MM h (meanc (kA y) + corr false (kA y))))].
  Proof.
    pose proof Hy as Hy'. pose proof HE as HE'. pose proof HG as HG'. destruct HI as [HI1 HI2].
    unfold year_is in Hy'. unfold Epoch_of in HE'. unfold helio_is, angle_val in HG'.
    clear Hy HE HG HI.
    pyrun2.
    unfold sol, corr.
    rewrite !Rplus_0_r.
    unfold meanc, kA, a, y0, J0, P, h. reflexivity.
  Qed.
End Run.

Lemma wrong_type v b : not_object v -> Saturn_perihelion_aphelion Rops v (VBool b) = VErr TypeError.
Proof. destruct v, b; simpl; intro H; try contradiction; (match goal with |- _ => pyrun2; reflexivity end). Qed.

Theorem ok : peri_props (Saturn_perihelion_aphelion Rops) (Saturn_geometric_heliocentric_position Rops) J0 P c a y0 h corr.
Proof.
  split; [| exact wrong_type].
  intros j y E Lf Bf Rf F1 F2 F3 F4 MM Hy HE HG HI. split.
  - rewrite <- kP_spec, <- mean_spec. exact (closed_true j y E Lf Bf Rf F1 F2 F3 F4 MM Hy HE HG HI).
  - rewrite <- kA_spec, <- mean_spec. exact (closed_false j y E Lf Bf Rf F1 F2 F3 F4 MM Hy HE HG HI).
Qed.

Theorem numbers : orbit_numbers P c a y0 h Kb d.
Proof.
  unfold orbit_numbers, P, c, a, y0, h, Kb, d, kappa. lit_norm.
  repeat split; try lra; intros; lra.
Qed.
