#!/venv/bin/python
"""mkperi.py -- writes C13_p_<Planet>.v: closed form of <Planet>.perihelion_aphelion in the ideal instance.

Run ONCE by the author (python mkperi.py [/repo]); output checked in; the check never runs this script.
It reads the constants of each perihelion_aphelion (index rate and origin, mean-instant quadratic,
interpolation half-width, Earth's correction sums) from the Python source and writes them down as Coq
definitions; the proof in the file shows that the REGENERATED model computes exactly that.
"""
import ast, os, sys, json, math
from decimal import Decimal
from fractions import Fraction

REPO = sys.argv[1] if len(sys.argv) > 1 else "/repo"
OUT = os.path.dirname(os.path.abspath(__file__))
PLANETS = ["Mercury", "Venus", "Earth", "Mars", "Jupiter", "Saturn", "Uranus"]


class Bad(Exception):
    pass


def rlit(m, e):
    return "Rlit %s %s" % (m if m >= 0 else "(%d)" % m, e if e >= 0 else "(%d)" % e)


class Src:
    def __init__(self, src):
        self.lines = src.splitlines()

    def seg(self, n):
        if n.lineno != n.end_lineno: raise Bad("multi-line literal")
        return self.lines[n.lineno - 1].encode()[n.col_offset:n.end_col_offset].decode()

    def const(self, n):
        neg = False
        if isinstance(n, ast.UnaryOp) and isinstance(n.op, ast.USub):
            neg, n = True, n.operand
        if not (isinstance(n, ast.Constant) and isinstance(n.value, float)): return None
        d = Decimal(self.seg(n))
        sign, digits, exp = d.as_tuple()
        m = int("".join(map(str, digits))) if digits else 0
        if sign: m = -m
        if neg: m = -m
        return (m, exp, Fraction(d) * (-1 if neg else 1))

    def coq(self, n, names):
        c = self.const(n)
        if c is not None: return "(%s)" % rlit(c[0], c[1])
        if isinstance(n, ast.UnaryOp) and isinstance(n.op, ast.USub): return "(- %s)" % self.coq(n.operand, names)
        if isinstance(n, ast.BinOp):
            op = {ast.Add: "+", ast.Sub: "-", ast.Mult: "*", ast.Div: "/"}[type(n.op)]
            return "(%s %s %s)" % (self.coq(n.left, names), op, self.coq(n.right, names))
        if isinstance(n, ast.Name): return names[n.id]
        if isinstance(n, ast.Call) and isinstance(n.func, ast.Name) and n.func.id in ("sin", "cos"):
            return "(%s %s)" % (n.func.id, self.coq(n.args[0], names))
        if isinstance(n, ast.Call) and isinstance(n.func, ast.Attribute) and n.func.attr == "rad" and isinstance(n.func.value, ast.Name):
            return names[n.func.value.id + ".rad"]
        raise Bad("expr " + ast.dump(n)[:60])


def analyse(planet):
    src = open(os.path.join(REPO, "pymeeus", planet + ".py")).read()
    S = Src(src)
    tree = ast.parse(src)
    cls = [n for n in tree.body if isinstance(n, ast.ClassDef) and n.name == planet][0]
    fn = [n for n in cls.body if isinstance(n, ast.FunctionDef) and n.name == "perihelion_aphelion"][0]
    body = [s for s in fn.body if not (isinstance(s, ast.Expr) and isinstance(s.value, ast.Constant))]
    u = [ast.unparse(s) for s in body]
    info = {"planet": planet, "S": S}
    if not u[0].startswith("if not isinstance(epoch, Epoch):"): raise Bad("type check")
    # k = a * (epoch.year() - y0)
    kst = body[1].value
    if not (isinstance(kst, ast.BinOp) and isinstance(kst.op, ast.Mult) and ast.unparse(kst.right.left) == "epoch.year()"
            and isinstance(kst.right.op, ast.Sub)): raise Bad("k")
    info["a"], info["y0"] = S.const(kst.left), S.const(kst.right.right)
    if u[2] != "if perihelion:\n    k = round(k)\nelse:\n    k = round(k + 0.5) - 0.5": raise Bad("rounding rule: " + u[2])
    jst = body[3].value          # J0 + k * P   |  J0 + k * (P -/+ k * c)
    if not (ast.unparse(body[3].targets[0]) == "jde" and isinstance(jst, ast.BinOp) and isinstance(jst.op, ast.Add)
            and ast.unparse(jst.right.left) == "k"): raise Bad("jde")
    info["J0"] = S.const(jst.left)
    inner = jst.right.right
    if S.const(inner) is not None:
        info["P"], info["c"], info["cshape"] = S.const(inner), None, "none"
    else:
        if not (isinstance(inner, ast.BinOp) and ast.unparse(inner.right.left) == "k"): raise Bad("quadratic")
        info["P"], info["c"] = S.const(inner.left), S.const(inner.right.right)
        info["cshape"] = "minus" if isinstance(inner.op, ast.Sub) else "plus"
    i = 4
    info["angles"], info["corr"] = [], None
    while ast.unparse(body[i]).startswith("a") and "Angle(" in ast.unparse(body[i]):
        st = body[i]
        arg = st.value.args[0]       # const + rate * k
        info["angles"].append((st.targets[0].id, S.const(arg.left), S.const(arg.right.left)))
        i += 1
    if isinstance(body[i], ast.If) and ast.unparse(body[i].test) == "perihelion":
        info["corr"] = (body[i].body[0].value, body[i].orelse[0].value)
        i += 1
        if ast.unparse(body[i]) != "jde += corr": raise Bad("jde += corr")
        i += 1
    rest = [ast.unparse(s) for s in body[i:]]
    hb = body[i].value
    if not (rest[0].startswith("jde_before = jde - ") and rest[1].startswith("jde_after = jde + ")): raise Bad("window")
    info["h"] = S.const(hb.right)
    if S.const(body[i + 1].value.right)[2] != info["h"][2]: raise Bad("asymmetric window")
    want = ["(l, b, r_b) = %s.geometric_heliocentric_position(Epoch(jde_before))" % planet,
            "(l, b, r) = %s.geometric_heliocentric_position(Epoch(jde))" % planet,
            "(l, b, r_a) = %s.geometric_heliocentric_position(Epoch(jde_after))" % planet,
            "m = Interpolation([jde_before, jde, jde_after], [r_b, r, r_a])", "sol = m.minmax()", "return Epoch(sol)"]
    got = [r.replace("l, b, r_b =", "(l, b, r_b) =").replace("l, b, r =", "(l, b, r) =").replace("l, b, r_a =", "(l, b, r_a) =") for r in rest[2:]]
    if got != want: raise Bad("tail: %r" % got)
    return info


def dec_up(x, places):
    q = 10 ** places
    n = -((-x.numerator * q) // x.denominator)
    return rlit(n, -places), Fraction(n, q)


def emit(info):
    p, S = info["planet"], info["S"]
    a, y0, J0, P, c, h = info["a"], info["y0"], info["J0"], info["P"], info["c"], info["h"]
    cval = Fraction(0) if c is None else (c[2] if info["cshape"] == "minus" else -c[2])
    ctxt = "0" if c is None else (rlit(c[0], c[1]) if info["cshape"] == "minus" else "(- %s)" % rlit(c[0], c[1]))
    kb = max(abs(a[2] * (-2000 - y0[2])), abs(a[2] * (4000 - y0[2])))
    Kb = Fraction(math.ceil(kb) + 1)
    dtxt, d = dec_up(abs(cval) * (2 * Kb + 2) + Fraction(1, 1000), 3)
    has_corr = info["corr"] is not None
    camp = Fraction(0)
    L = []
    w = L.append
    w("(* %s.perihelion_aphelion -- closed form of the regenerated model (ideal instance): index rules, mean instant," % p)
    w("   window of the 3-point interpolation; numbers for Spec.OrbitFinder.  Written by mkperi.py (checked in);")
    w("   re-proved against the regenerated model on every run. *)")
    w("From Coq Require Import Reals ZArith List Bool Lra Lia String.")
    w("From Interval Require Import Tactic.")
    w("From PyLib Require Import PyVal PyBuiltins Ideal Whnf PyEval.")
    w("From Spec Require Import Finder OrbitFinder.")
    w("From Gen Require Import M_base M_Angle M_Epoch M_Interpolation M_%s." % p)
    w("From Proofs.C13 Require Import C13_angle C13_tac2 C13_defs C13_pdefs.")
    w("Import ListNotations.")
    w("Open Scope R_scope.")
    w("Ltac2 Set Whnf.is_blocked as old := fun c =>")
    w("  Ltac2.Bool.or (old c) (Ltac2.List.exist (Ltac2.Constr.equal c)")
    w("    ['@Epoch_year; '@Epoch___init__; '@%s_geometric_heliocentric_position; '@Interpolation___init__;" % p)
    w("     '@Interpolation_minmax; '@Angle___init__; '@ifv]).")
    w("Ltac lit_norm := repeat match goal with |- context [Rlit ?m ?e] =>")
    w("  let r := eval cbv -[IZR Rdiv Rmult Rinv Rplus Ropp] in (Rlit m e) in change (Rlit m e) with r end.")
    w("")
    w("Definition a : R := %s." % rlit(a[0], a[1]))
    w("Definition y0 : R := %s." % rlit(y0[0], y0[1]))
    w("Definition J0 : R := %s." % rlit(J0[0], J0[1]))
    w("Definition P : R := %s." % rlit(P[0], P[1]))
    w("Definition c : R := %s." % ctxt)
    w("Definition h : R := %s." % rlit(h[0], h[1]))
    w("Definition Kb : R := %d." % Kb)
    w("Definition d : R := %s." % dtxt)
    w("(* the index and the mean instant as the code writes them *)")
    w("Definition kP (y : R) : R := IZR (Rround (a * (y - y0))).")
    w("Definition kA (y : R) : R := IZR (Rround (a * (y - y0) + Rlit 5 (-1))) - Rlit 5 (-1).")
    if c is None:
        w("Definition meanc (k : R) : R := J0 + k * P.")
    else:
        w("Definition meanc (k : R) : R := J0 + k * (P %s k * %s)." % ("-" if info["cshape"] == "minus" else "+", rlit(c[0], c[1])))
    names = {"k": "k"}
    if has_corr:
        for nm, c0, c1 in info["angles"]:
            w("Definition arg_%s (k : R) : R := %s + %s * k." % (nm, rlit(c0[0], c0[1]), rlit(c1[0], c1[1])))
        rn = {nm + ".rad": "r_" + nm for nm, _, _ in info["angles"]}
        params = " ".join("r_" + nm for nm, _, _ in info["angles"])
        w("Definition corrP (%s : R) : R :=\n  %s." % (params, S.coq(info["corr"][0], rn)))
        w("Definition corrA (%s : R) : R :=\n  %s." % (params, S.coq(info["corr"][1], rn)))
        radargs = " ".join("(arg_%s k * (PI / 180))" % nm for nm, _, _ in info["angles"])
        w("Definition corr (b : bool) (k : R) : R := if b then corrP %s else corrA %s." % (radargs, radargs))
        def amp(n):
            if isinstance(n, ast.BinOp) and isinstance(n.op, (ast.Add, ast.Sub)): return amp(n.left) + amp(n.right)
            if isinstance(n, ast.BinOp) and isinstance(n.op, ast.Mult) and S.const(n.left) is not None: return abs(S.const(n.left)[2])
            raise Bad("corr term")
        cb = max(amp(info["corr"][0]), amp(info["corr"][1]))
        w("Definition CB : R := %s." % dec_up(cb * Fraction(101, 100), 2)[0])
    else:
        w("Definition corr (b : bool) (k : R) : R := 0.")
    w("")
    w("Lemma half_lit : Rlit 5 (-1) = 1 / 2. Proof. lit_norm. lra. Qed.")
    w("Lemma kP_spec y : kP y = kper a y0 y. Proof. reflexivity. Qed.")
    w("Lemma kA_spec y : kA y = kaph a y0 y.")
    w("Proof. unfold kA, kaph, kappa. rewrite half_lit. reflexivity. Qed.")
    w("Lemma mean_spec k : meanc k = mean J0 P c k.")
    w("Proof. unfold meanc, mean, c. ring. Qed.")
    if has_corr:
        w("(* whole turns taken off an angle by Angle() change nothing *)")
        w("Ltac red_trig := repeat first [ rewrite sin_red1 | rewrite cos_red1 ].")
        n = len(info["angles"])
        for f in ("corrP", "corrA"):
            for i, (nm, _, _) in enumerate(info["angles"]):
                vs = ["v%d" % j for j in range(n)]
                lhs = list(vs); rhs = list(vs)
                lhs[i] = "((x - 360 * IZR n) * (PI / 180))"; rhs[i] = "(x * (PI / 180))"
                others = " ".join(v for j, v in enumerate(vs) if j != i)
                w("Lemma %s_turn_%d (%s x : R) (n : Z) : %s %s = %s %s." % (f, i, others, f, " ".join(lhs), f, " ".join(rhs)))
                w("Proof. unfold %s. red_trig. reflexivity. Qed." % f)
    w("")
    w("Section Run.")
    w("  Variables (j y : R) (E Lf Bf Rf : R -> R) (F1 F2 F3 F4 : R -> R -> R -> R -> R -> R -> val R)")
    w("            (MM : R -> R -> R -> R -> R -> R -> R).")
    w("  Hypothesis Hy : year_is j y.")
    w("  Hypothesis HE : Epoch_of E.")
    w("  Hypothesis HG : helio_is (%s_geometric_heliocentric_position Rops) Lf Bf Rf." % p)
    w("  Hypothesis HI : interp_is F1 F2 F3 F4 MM.")
    for b, kf in (("true", "kP"), ("false", "kA")):
        w("")
        w("  Lemma closed_%s : %s_perihelion_aphelion Rops (VObj cEpoch [VFloat j]) (VBool %s) =" % (b, p, b))
        w("    VObj cEpoch [VFloat (E (sol E Rf MM h (meanc (%s y) + corr %s (%s y))))]." % (kf, b, kf))
        w("  Proof.")
        w("    pose proof Hy as Hy'. pose proof HE as HE'. pose proof HG as HG'. destruct HI as [HI1 HI2].")
        w("    unfold year_is in Hy'. unfold Epoch_of in HE'. unfold helio_is, angle_val in HG'.")
        w("    clear Hy HE HG HI.")
        hyps = []
        if has_corr:
            for i, (nm, _, _) in enumerate(info["angles"]):
                w("    destruct (ang_init_mk (arg_%s (%s y))) as (n%d & Hr%d & Ha%d)." % (nm, kf, i, i, i))
                hyps.append("Ha%d" % i)
            w("    unfold %s, %s, a, y0 in %s." % (", ".join("arg_" + nm for nm, _, _ in info["angles"]), kf, ", ".join(hyps)))
        w("    pyrun2.")
        w("    unfold sol, corr.")
        if not has_corr:
            w("    rewrite !Rplus_0_r.")
        if has_corr:
            f = "corrP" if b == "true" else "corrA"
            n = len(info["angles"])
            for i, (nm, _, _) in enumerate(info["angles"]):
                args = []
                for jx, (nm2, _, _) in enumerate(info["angles"]):
                    if jx == i: continue
                    if jx < i: args.append("((arg_%s (%s y) - 360 * IZR n%d) * (PI / 180))" % (nm2, kf, jx))
                    else: args.append("(arg_%s (%s y) * (PI / 180))" % (nm2, kf))
                w("    rewrite <- (%s_turn_%d %s (arg_%s (%s y)) n%d)." % (f, i, " ".join(args), nm, kf, i))
            w("    unfold %s, %s." % (f, ", ".join("arg_" + nm for nm, _, _ in info["angles"])))
            w("    unfold meanc, %s, a, y0, J0, P, h. reflexivity." % kf)
        else:
            w("    unfold meanc, %s, a, y0, J0, P, h. reflexivity." % kf)
        w("  Qed.")
    w("End Run.")
    w("")
    w("Lemma wrong_type v b : not_object v -> %s_perihelion_aphelion Rops v (VBool b) = VErr TypeError." % p)
    w("Proof. destruct v, b; simpl; intro H; try contradiction; (match goal with |- _ => pyrun2; reflexivity end). Qed.")
    w("")
    w("Theorem ok : peri_props (%s_perihelion_aphelion Rops) (%s_geometric_heliocentric_position Rops) J0 P c a y0 h corr." % (p, p))
    w("Proof.")
    w("  split; [| exact wrong_type].")
    w("  intros j y E Lf Bf Rf F1 F2 F3 F4 MM Hy HE HG HI. split.")
    w("  - rewrite <- kP_spec, <- mean_spec. exact (closed_true j y E Lf Bf Rf F1 F2 F3 F4 MM Hy HE HG HI).")
    w("  - rewrite <- kA_spec, <- mean_spec. exact (closed_false j y E Lf Bf Rf F1 F2 F3 F4 MM Hy HE HG HI).")
    w("Qed.")
    w("")
    if has_corr:
        # amplitude of the correction sum
        w("(* the correction added to the mean instant before the interpolation stays small *)")
        w("Lemma corr_bound b k : Rabs (corr b k) <= CB.")
        w("Proof. unfold corr, CB. destruct b; [unfold corrP | unfold corrA]; lit_norm; interval. Qed.")
    if has_corr:
        w("(* the instant handed to the interpolation is mean k + corr k, |corr| <= CB: half-width h + CB around mean k *)")
    w("Theorem numbers : orbit_numbers P c a y0 %s Kb d." % ("(h + CB)" if has_corr else "h"))
    w("Proof.")
    w("  unfold orbit_numbers, P, c, a, y0, h, Kb, d, kappa%s. lit_norm." % (", CB" if has_corr else ""))
    w("  repeat split; try lra; intros; lra.")
    w("Qed.")
    open(os.path.join(OUT, "C13_p_%s.v" % p), "w").write("\n".join(L) + "\n")
    emit_exact(info, has_corr)
    return {"a": float(a[2]), "y0": float(y0[2]), "J0": float(J0[2]), "P": float(P[2]), "c": float(cval), "h": float(h[2]),
            "Kb": float(Kb), "d": float(d), "corr": has_corr}



def emit_exact(info, has_corr):
    """C13_xp_<Planet>.v (thorough tier): perihelion_aphelion with Epoch(x) = the Epoch holding x (C02's theorem)"""
    p = info["planet"]
    L = []
    w = L.append
    w("(* %s.perihelion_aphelion (thorough tier) -- the closed form without the hypothesis about Epoch(x): the three" % p)
    w("   instants m - h, m, m + h and the interpolated extremum (assumed inside the window) are in the range of C02's")
    w("   Epoch_ctor_exact_ideal.  Written by mkperi.py (checked in). *)")
    w("From Coq Require Import Reals ZArith List Bool Lra Lia String.")
    w("From Interval Require Import Tactic.")
    w("From PyLib Require Import PyVal PyBuiltins Ideal Whnf PyEval.")
    w("From Spec Require Import Finder OrbitFinder.")
    w("From Gen Require Import M_base M_Angle M_Epoch M_Interpolation M_%s." % p)
    w("From Proofs.C02 Require Import C02_ctor_ideal.")
    w("From Proofs.C13 Require Import C13_angle C13_tac2 C13_defs C13_pdefs C13_xp_defs C13_p_%s." % p)
    w("Import ListNotations.")
    w("Open Scope R_scope.")
    w("Ltac2 Set Whnf.is_blocked as old := fun c =>")
    w("  Ltac2.Bool.or (old c) (Ltac2.List.exist (Ltac2.Constr.equal c)")
    w("    ['@Epoch_year; '@Epoch___init__; '@%s_geometric_heliocentric_position; '@Interpolation___init__;" % p)
    w("     '@Interpolation_minmax; '@Angle___init__; '@ifv]).")
    w("")
    w("Lemma kappa_mean_range y : -2000 <= y <= 4000 -> 970000 <= mean J0 P c (kappa a y0 y) <= 3200000.")
    w("Proof. intro Hy. unfold mean, kappa, J0, P, c, a, y0. lit_norm. split; interval. Qed.")
    cb = "CB" if has_corr else "0"
    w("Lemma corr_abs b k : Rabs (corr b k) <= %s." % cb)
    if has_corr:
        w("Proof. exact (corr_bound b k). Qed.")
    else:
        w("Proof. unfold corr. rewrite Rabs_R0. lra. Qed.")
    w("Lemma m_range k y : -2000 <= y <= 4000 -> Rabs (k - kappa a y0 y) <= 1 / 2 -> forall b,")
    w("  950000 <= meanc k + corr b k <= 3220000.")
    w("Proof.")
    w("  intros Hy Hk b. rewrite mean_spec.")
    w("  destruct numbers as (Ha & HK & HdP & Hh & Hd & Hkr). pose proof (Hkr y Hy) as Kr.")
    w("  pose proof (Rabs_inv _ _ Hk) as Hk'.")
    w("  assert (N : Rabs (mean J0 P c k - mean J0 P c (kappa a y0 y)) <= (P + d) / 2).")
    w("  { eapply (near_bounds J0 P c Kb d); [eassumption .. | | |]; first [eassumption | lra]. }")
    w("  pose proof (Rabs_inv _ _ N) as N'. pose proof (Rabs_inv _ _ (corr_abs b k)) as C'.")
    w("  pose proof (kappa_mean_range y Hy) as M.")
    w("  assert (Hp : (P + d) / 2 + %s <= 15500) by (unfold P, d%s; lit_norm; lra)." % (cb, ", CB" if has_corr else ""))
    w("  lra.")
    w("Qed.")
    w("Lemma h_small : 0 < h <= 400. Proof. unfold h. lit_norm. lra. Qed.")
    w("")
    w("Section Run.")
    w("  Variables (j y : R) (Lf Bf Rf : R -> R) (F1 F2 F3 F4 : R -> R -> R -> R -> R -> R -> val R)")
    w("            (MM : R -> R -> R -> R -> R -> R -> R).")
    w("  Hypothesis Hy : year_is j y.")
    w("  Hypothesis Hyr : -2000 <= y <= 4000.")
    w("  Hypothesis HG : helio_is (%s_geometric_heliocentric_position Rops) Lf Bf Rf." % p)
    w("  Hypothesis HI : interp_is F1 F2 F3 F4 MM.")
    for b, kf, near in (("true", "kP", "kper_near"), ("false", "kA", "kaph_near")):
        w("")
        w("  Lemma exact_%s : in_window Rf MM h (meanc (%s y) + corr %s (%s y)) ->" % (b, kf, b, kf))
        w("    %s_perihelion_aphelion Rops (VObj cEpoch [VFloat j]) (VBool %s) =" % (p, b))
        w("    VObj cEpoch [VFloat (sol (fun x => x) Rf MM h (meanc (%s y) + corr %s (%s y)))]." % (kf, b, kf))
        w("  Proof.")
        w("    intro Hw. unfold in_window, sol in Hw.")
        w("    pose proof Hy as Hy'. pose proof HG as HG'. destruct HI as [HI1 HI2].")
        w("    unfold year_is in Hy'. unfold helio_is, angle_val in HG'.")
        w("    assert (Hk : Rabs (%s y - kappa a y0 y) <= 1 / 2) by (rewrite %s_spec; apply %s)." % (kf, kf, near))
        w("    pose proof (m_range (%s y) y Hyr Hk %s) as Mr. pose proof h_small as Hh." % (kf, b))
        w("    set (m := meanc (%s y) + corr %s (%s y)) in *." % (kf, b, kf))
        w("    assert (R1 : jde_in_range (m - h)) by (unfold jde_in_range; lra).")
        w("    assert (R2 : jde_in_range m) by (unfold jde_in_range; lra).")
        w("    assert (R3 : jde_in_range (m + h)) by (unfold jde_in_range; lra).")
        w("    assert (R4 : jde_in_range (MM (m - h) m (m + h) (Rf (m - h)) (Rf m) (Rf (m + h)))) by (unfold jde_in_range; lra).")
        w("    pose proof (Epoch_ctor_exact_ideal _ R1) as E1. pose proof (Epoch_ctor_exact_ideal _ R2) as E2.")
        w("    pose proof (Epoch_ctor_exact_ideal _ R3) as E3. pose proof (Epoch_ctor_exact_ideal _ R4) as E4.")
        w("    clear Hy HG HI Hw Mr Hk R1 R2 R3 R4 Hh. subst m.")
        hyps = []
        if has_corr:
            for i, (nm, _, _) in enumerate(info["angles"]):
                w("    destruct (ang_init_mk (arg_%s (%s y))) as (n%d & Hr%d & Ha%d)." % (nm, kf, i, i, i))
                hyps.append("Ha%d" % i)
            w("    unfold %s, %s, a, y0 in %s." % (", ".join("arg_" + nm for nm, _, _ in info["angles"]), kf, ", ".join(hyps)))
            f = "corrP" if b == "true" else "corrA"
            # the instants as the evaluation meets them: corr with the reduced angles
            w("    unfold corr in E1, E2, E3, E4.")
            for i, (nm, _, _) in enumerate(info["angles"]):
                args = []
                for jx, (nm2, _, _) in enumerate(info["angles"]):
                    if jx == i: continue
                    if jx < i: args.append("((arg_%s (%s y) - 360 * IZR n%d) * (PI / 180))" % (nm2, kf, jx))
                    else: args.append("(arg_%s (%s y) * (PI / 180))" % (nm2, kf))
                w("    rewrite <- (%s_turn_%d %s (arg_%s (%s y)) n%d) in E1, E2, E3, E4." % (f, i, " ".join(args), nm, kf, i))
            w("    unfold %s, %s in E1, E2, E3, E4." % (f, ", ".join("arg_" + nm for nm, _, _ in info["angles"])))
            w("    unfold meanc, %s, a, y0, J0, P, h in E1, E2, E3, E4." % kf)
        else:
            w("    unfold corr in E1, E2, E3, E4. rewrite !Rplus_0_r in E1, E2, E3, E4.")
            w("    unfold meanc, %s, a, y0, J0, P, h in E1, E2, E3, E4." % kf)
        w("    pyrun2.")
        w("    unfold sol, corr.")
        if not has_corr:
            w("    rewrite !Rplus_0_r.")
            w("    unfold meanc, %s, a, y0, J0, P, h. reflexivity." % kf)
        else:
            for i, (nm, _, _) in enumerate(info["angles"]):
                args = []
                for jx, (nm2, _, _) in enumerate(info["angles"]):
                    if jx == i: continue
                    if jx < i: args.append("((arg_%s (%s y) - 360 * IZR n%d) * (PI / 180))" % (nm2, kf, jx))
                    else: args.append("(arg_%s (%s y) * (PI / 180))" % (nm2, kf))
                w("    rewrite <- (%s_turn_%d %s (arg_%s (%s y)) n%d)." % (f, i, " ".join(args), nm, kf, i))
            w("    unfold %s, %s." % (f, ", ".join("arg_" + nm for nm, _, _ in info["angles"])))
            w("    unfold meanc, %s, a, y0, J0, P, h. reflexivity." % kf)
        w("  Qed.")
    w("End Run.")
    w("")
    w("Theorem exact : peri_exact (%s_perihelion_aphelion Rops) (%s_geometric_heliocentric_position Rops) J0 P c a y0 h corr." % (p, p))
    w("Proof.")
    w("  intros j y Lf Bf Rf F1 F2 F3 F4 MM Hy Hyr HG HI. split; intro Hw.")
    w("  - rewrite <- kP_spec, <- mean_spec in *. exact (exact_true j y Lf Bf Rf F1 F2 F3 F4 MM Hy Hyr HG HI Hw).")
    w("  - rewrite <- kA_spec, <- mean_spec in *. exact (exact_false j y Lf Bf Rf F1 F2 F3 F4 MM Hy Hyr HG HI Hw).")
    w("Qed.")
    open(os.path.join(OUT, "C13_xp_%s.v" % p), "w").write("\n".join(L) + "\n")

if __name__ == "__main__":
    table = {}
    only = sys.argv[2:]
    for p in PLANETS:
        if only and p not in only: continue
        try:
            table[p] = emit(analyse(p))
            print(p, table[p])
        except Bad as e:
            print("SKIP", p, e)
    json.dump(table, open(os.path.join(OUT, "perihelion.json"), "w"), indent=1, sort_keys=True)
