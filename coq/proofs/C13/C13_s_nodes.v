(* Property C13 -- node passages: statements (proofs in C13_nodes.v).  <Planet>.passage_nodes(epoch, ascending) returns what
   Coordinates.passage_nodes_elliptic(arg, e, a, T, ascending) returns for the planet's mean elements at the query and the
   perihelion passage T = <Planet>.perihelion_aphelion(epoch); TypeError for a None/bool/int/float/str epoch.  Closed form of
   passage_nodes_elliptic: theorem C11_nodes_elliptic (property C11) about the same term. *)
From Coq Require Import Reals ZArith List Bool String.
From PyLib Require Import PyVal PyBuiltins Ideal.
From Gen Require Import M_base M_Angle M_Epoch M_Coordinates M_Mercury M_Venus M_Earth M_Mars M_Jupiter M_Saturn M_Uranus.
From Proofs.C13 Require Import C13_defs C13_nodes.
Open Scope R_scope.
Theorem C13_Mercury_passage_nodes : nodes_props (Mercury_passage_nodes Rops) (Mercury_orbital_elements_mean_equinox Rops) (Mercury_perihelion_aphelion Rops).
Proof. exact nodes_Mercury. Qed.
Theorem C13_Venus_passage_nodes : nodes_props (Venus_passage_nodes Rops) (Venus_orbital_elements_mean_equinox Rops) (Venus_perihelion_aphelion Rops).
Proof. exact nodes_Venus. Qed.
Theorem C13_Earth_passage_nodes : nodes_props (Earth_passage_nodes Rops) (Earth_orbital_elements_mean_equinox Rops) (Earth_perihelion_aphelion Rops).
Proof. exact nodes_Earth. Qed.
Theorem C13_Mars_passage_nodes : nodes_props (Mars_passage_nodes Rops) (Mars_orbital_elements_mean_equinox Rops) (Mars_perihelion_aphelion Rops).
Proof. exact nodes_Mars. Qed.
Theorem C13_Jupiter_passage_nodes : nodes_props (Jupiter_passage_nodes Rops) (Jupiter_orbital_elements_mean_equinox Rops) (Jupiter_perihelion_aphelion Rops).
Proof. exact nodes_Jupiter. Qed.
Theorem C13_Saturn_passage_nodes : nodes_props (Saturn_passage_nodes Rops) (Saturn_orbital_elements_mean_equinox Rops) (Saturn_perihelion_aphelion Rops).
Proof. exact nodes_Saturn. Qed.
Theorem C13_Uranus_passage_nodes : nodes_props (Uranus_passage_nodes Rops) (Uranus_orbital_elements_mean_equinox Rops) (Uranus_perihelion_aphelion Rops).
Proof. exact nodes_Uranus. Qed.
Redirect "C13_Mercury_passage_nodes.assumptions" Print Assumptions C13_Mercury_passage_nodes.
Redirect "C13_Venus_passage_nodes.assumptions" Print Assumptions C13_Venus_passage_nodes.
Redirect "C13_Earth_passage_nodes.assumptions" Print Assumptions C13_Earth_passage_nodes.
Redirect "C13_Mars_passage_nodes.assumptions" Print Assumptions C13_Mars_passage_nodes.
Redirect "C13_Jupiter_passage_nodes.assumptions" Print Assumptions C13_Jupiter_passage_nodes.
Redirect "C13_Saturn_passage_nodes.assumptions" Print Assumptions C13_Saturn_passage_nodes.
Redirect "C13_Uranus_passage_nodes.assumptions" Print Assumptions C13_Uranus_passage_nodes.
