(* Property C13 -- statements for the Jupiter finders (one statement file per planet so that the Print Assumptions
   traversals run in parallel); proofs in C13_f_Jupiter_*.v against the model regenerated from /repo. *)
From Coq Require Import Reals ZArith List Bool Lra Lia String.
From PyLib Require Import PyVal PyBuiltins Ideal.
From Spec Require Import Finder.
From Gen Require Import M_base M_Angle M_Epoch M_Jupiter.
From Proofs.C13 Require Import C13_defs.
From Proofs.C13 Require C13_f_Jupiter_conjunction.
From Proofs.C13 Require C13_f_Jupiter_opposition.
From Proofs.C13 Require C13_f_Jupiter_station_longitude_1.
From Proofs.C13 Require C13_f_Jupiter_station_longitude_2.
Import ListNotations.
Open Scope R_scope.

Theorem C13_Jupiter_conjunction : finder_props (Jupiter_conjunction Rops) C13_f_Jupiter_conjunction.A C13_f_Jupiter_conjunction.B C13_f_Jupiter_conjunction.c0 C13_f_Jupiter_conjunction.C C13_f_Jupiter_conjunction.cr.
Proof. exact C13_f_Jupiter_conjunction.ok. Qed.
Theorem C13_Jupiter_opposition : finder_props (Jupiter_opposition Rops) C13_f_Jupiter_opposition.A C13_f_Jupiter_opposition.B C13_f_Jupiter_opposition.c0 C13_f_Jupiter_opposition.C C13_f_Jupiter_opposition.cr.
Proof. exact C13_f_Jupiter_opposition.ok. Qed.
Theorem C13_Jupiter_station_longitude_1 : finder_props (Jupiter_station_longitude_1 Rops) C13_f_Jupiter_station_longitude_1.A C13_f_Jupiter_station_longitude_1.B C13_f_Jupiter_station_longitude_1.c0 C13_f_Jupiter_station_longitude_1.C C13_f_Jupiter_station_longitude_1.cr.
Proof. exact C13_f_Jupiter_station_longitude_1.ok. Qed.
Theorem C13_Jupiter_station_longitude_2 : finder_props (Jupiter_station_longitude_2 Rops) C13_f_Jupiter_station_longitude_2.A C13_f_Jupiter_station_longitude_2.B C13_f_Jupiter_station_longitude_2.c0 C13_f_Jupiter_station_longitude_2.C C13_f_Jupiter_station_longitude_2.cr.
Proof. exact C13_f_Jupiter_station_longitude_2.ok. Qed.

Redirect "C13_Jupiter_conjunction.assumptions" Print Assumptions C13_Jupiter_conjunction.
Redirect "C13_Jupiter_opposition.assumptions" Print Assumptions C13_Jupiter_opposition.
Redirect "C13_Jupiter_station_longitude_1.assumptions" Print Assumptions C13_Jupiter_station_longitude_1.
Redirect "C13_Jupiter_station_longitude_2.assumptions" Print Assumptions C13_Jupiter_station_longitude_2.
