(* C13 (thorough tier) -- perihelion / aphelion finders without the hypothesis about Epoch(x) (C02's
   Epoch_ctor_exact_ideal).  What remains assumed: the values of Epoch.year, the VSOP87 positions, Interpolation() and
   its minmax(), and that the interpolated extremum lies inside the interpolation window (C12's clause). *)
From Coq Require Import Reals ZArith List Bool Lra Lia String.
From PyLib Require Import PyVal PyBuiltins Ideal.
From Spec Require Import Finder OrbitFinder.
From Gen Require Import M_base M_Angle M_Epoch M_Interpolation.
From Proofs.C13 Require Import C13_defs C13_pdefs.
Import ListNotations.
Open Scope R_scope.

(* the extremum found by minmax() lies between the outer abscissae *)
Definition in_window (Rf : R -> R) (MM : R -> R -> R -> R -> R -> R -> R) (h m : R) : Prop :=
  m - h <= sol (fun x => x) Rf MM h m <= m + h.

Definition peri_exact (f ghp : val R -> val R -> val R) (J0 P c a y0 h : R) (corr : bool -> R -> R) : Prop :=
  forall j y Lf Bf Rf F1 F2 F3 F4 MM, year_is j y -> -2000 <= y <= 4000 -> helio_is ghp Lf Bf Rf ->
    interp_is F1 F2 F3 F4 MM ->
    (in_window Rf MM h (mean J0 P c (kper a y0 y) + corr true (kper a y0 y)) ->
     f (VObj cEpoch [VFloat j]) (VBool true)
       = VObj cEpoch [VFloat (sol (fun x => x) Rf MM h (mean J0 P c (kper a y0 y) + corr true (kper a y0 y)))]) /\
    (in_window Rf MM h (mean J0 P c (kaph a y0 y) + corr false (kaph a y0 y)) ->
     f (VObj cEpoch [VFloat j]) (VBool false)
       = VObj cEpoch [VFloat (sol (fun x => x) Rf MM h (mean J0 P c (kaph a y0 y) + corr false (kaph a y0 y)))]).
