(* C08: Print Assumptions of the theorems of C08.v, part 3 of 10 *)
From Proofs.C08 Require Import C08.
Redirect "C08_mean_obliquity_vs_IAU.assumptions" Print Assumptions C08_mean_obliquity_vs_IAU.
Redirect "C08_rectangular_equinox_closed_form.assumptions" Print Assumptions C08_rectangular_equinox_closed_form.
Redirect "C08_true_obliquity_structure.assumptions" Print Assumptions C08_true_obliquity_structure.
Redirect "C08_earth_callee_shape.assumptions" Print Assumptions C08_earth_callee_shape.
