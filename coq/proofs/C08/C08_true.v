(* C08, ideal instance: true obliquity = mean obliquity + nutation in obliquity, UNCONDITIONALLY
   for an Epoch within 20 centuries of J2000.0: the two callee results assumed by
   C08_obliquity.true_obliquity_sum are supplied by their own characterisation theorems
   (mean_obliquity_poly, C08_nut_bound.nutation_obliquity_clause), so that theorem's premises are
   jointly satisfiable by what the model really returns. *)
From Coq Require Import Reals ZArith List Bool Lra Lia.
From Interval Require Import Tactic.
From PyLib Require Import PyVal PyBuiltins Ideal PyEval.
From Gen Require Import M_base M_Angle M_Epoch M_Interpolation M_Coordinates.
From Proofs.C08 Require Import C08_base C08_obliquity.
From Proofs.C08 Require C08_nut_main C08_nut_bound.
Import ListNotations.
Open Scope R_scope.

Lemma Tc_uj j : C08_nut_main.Tc j = 100 * uj j.
Proof. unfold C08_nut_main.Tc, uj. Rlit_norm. field. Qed.

Theorem true_obliquity_closed j : Rabs (C08_nut_main.Tc j) <= 20 ->
  exists deps,
    f_nutation_obliquity Rops (VTuple [epo j]) (VDict []) = ang (deps / 3600) /\
    f_mean_obliquity Rops (VTuple [epo j]) (VDict []) = ang (eps0 + laskar (uj j) / 3600) /\
    f_true_obliquity Rops (VTuple [epo j]) (VDict []) = ang (eps0 + laskar (uj j) / 3600 + deps / 3600) /\
    Rabs deps <= 11.
Proof.
  intros HT.
  assert (Hu : Rabs (uj j) <= 0.2).
  { rewrite Tc_uj in HT. rewrite Rabs_mult, (Rabs_right 100) in HT by lra. lra. }
  destruct (C08_nut_bound.nutation_obliquity_clause j HT) as (deps & Hn & _ & Hb).
  assert (Hd : Rabs deps <= 11).
  { assert (Hm : Rabs (C08_nut_bound.main_eps (C08_nut_main.Tc j)
                         (C08_node.node_moon (C08_nut_main.Tc j))) <= 95 / 10).
    { unfold C08_nut_bound.main_eps. apply Rabs_le_bounds in HT.
      set (T := C08_nut_main.Tc j) in *. set (w := C08_node.node_moon T).
      pose proof (COS_bound (w * (PI / 180))) as Hc.
      apply Rabs_le. split; nra. }
    apply Rabs_le_bounds in Hb. apply Rabs_le_bounds in Hm. apply Rabs_le. lra. }
  assert (Hu4 : Rabs (uj j) <= 0.4) by lra.
  exists deps. pose proof (mean_obliquity_poly j Hu4) as Hm.
  pose proof (laskar_small _ Hu4) as Hl. apply Rabs_def2 in Hl. apply Rabs_le_bounds in Hd.
  repeat split; try assumption.
  - apply true_obliquity_sum; try assumption. unfold eps0. lra.
  - apply Rabs_le. lra.
Qed.

(* size of the difference: |true - mean| = |deps| <= 9.2025 + 0.00089 |T| + 0.89 arc seconds
   (main term amplitude of the extracted cosine table + proved remainder), |T| <= 20 *)
Theorem true_minus_mean_bound j : Rabs (C08_nut_main.Tc j) <= 20 ->
  exists e0 deps,
    f_mean_obliquity Rops (VTuple [epo j]) (VDict []) = ang e0 /\
    f_true_obliquity Rops (VTuple [epo j]) (VDict []) = ang (e0 + deps / 3600) /\
    Rabs deps <= 92025 / 10000 + 89 / 100000 * Rabs (C08_nut_main.Tc j) + 89 / 100.
Proof.
  intros HT.
  destruct (true_obliquity_closed j HT) as (deps & Hn & Hm & Ht & _).
  destruct (C08_nut_bound.nutation_obliquity_clause j HT) as (deps' & Hn' & Hd' & _).
  assert (Heq : deps' = deps).
  { assert (E : ang (deps' / 3600) = ang (deps / 3600)) by (rewrite <- Hn'; exact Hn).
    injection E. intros E'. lra. }
  rewrite Heq in Hd'. clear Hn' Heq deps'. exists (eps0 + laskar (uj j) / 3600), deps. split; [exact Hm|]. split; [exact Ht|].
  set (T := C08_nut_main.Tc j) in *.
  pose proof (C08_nut_bound.nutation_obliquity_remainder T HT) as H1. rewrite <- Hd' in H1.
  assert (H2 : Rabs (C08_nut_bound.main_eps T (C08_nut_main.polyO T)) <= 92025 / 10000 + 89 / 100000 * Rabs T).
  { unfold C08_nut_bound.main_eps. set (w := C08_nut_main.polyO T).
    pose proof (COS_bound (w * (PI / 180))) as Hc. set (c := cos _) in *.
    pose proof (Rabs_pos T) as HT0.
    assert (HTT : - Rabs T <= T <= Rabs T) by (unfold Rabs; destruct (Rcase_abs T); lra).
    apply Rabs_le. split; nra. }
  apply Rabs_le_bounds in H1. apply Rabs_le_bounds in H2. apply Rabs_le. lra.
Qed.
