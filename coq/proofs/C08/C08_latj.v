(* C08, ideal instance: the J2000 Earth callee (Earth.geometric_heliocentric_position_j2000) of the
   J2000 / B1950 / arbitrary-equinox rectangular theorems really returns the shape those theorems
   assume: (Angle in [0,360), Angle with |latitude| <= 1 degree, float), for every epoch in years
   -2000 .. 6000.  Property C07's theorems (VSOP87 evaluator = direct sum over any tables, FK5
   correction, amplitude envelope read from the regenerated J2000 tables) are imported. *)
From Coq Require Import Reals ZArith List Bool Lra Lia.
From Interval Require Import Tactic.
From PyLib Require Import PyVal PyBuiltins Ideal Whnf PyEval.
From Spec Require AngleSpec.
From Gen Require Import M_base M_Angle M_Epoch M_Interpolation M_Coordinates M_Earth M_Sun.
From Proofs.C07 Require C07_defs C07_lib C07_angle C07_series C07_corr C07_mono C07_dec C07_mono_code.
From Proofs.C08 Require Import C08_base C08_obliquity.
Import ListNotations.
Open Scope R_scope.

Definition tLJ : list (list C07_dec.dterm3) := Eval vm_compute in C07_dec.the_table (g_VSOP87_L_J2000 C07_dec.Dops).
Definition tBJ : list (list C07_dec.dterm3) := Eval vm_compute in C07_dec.the_table (g_VSOP87_B_J2000 C07_dec.Dops).
Definition tRJ : list (list C07_dec.dterm3) := Eval vm_compute in C07_dec.the_table (g_VSOP87_R C07_dec.Dops).

Lemma tLJ_enc : g_VSOP87_L_J2000 Rops = C07_lib.enc_table (C07_dec.Rtable tLJ).
Proof. lazy -[Rlit]. reflexivity. Qed.
Lemma tBJ_enc : g_VSOP87_B_J2000 Rops = C07_lib.enc_table (C07_dec.Rtable tBJ).
Proof. lazy -[Rlit]. reflexivity. Qed.
Lemma tRJ_enc : g_VSOP87_R Rops = C07_lib.enc_table (C07_dec.Rtable tRJ).
Proof. lazy -[Rlit]. reflexivity. Qed.

Definition nBJ : Z := Eval vm_compute in C07_dec.zabound 15 4 0 tBJ.
Definition nRJ : Z := Eval vm_compute in C07_dec.zabound 15 4 0 (C07_dec.tail_table tRJ).

Theorem earth_j2000_envelope :
  C07_mono_code.series_envelope (g_VSOP87_L_J2000 Rops) (g_VSOP87_B_J2000 Rops) (g_VSOP87_R Rops) nBJ nRJ.
Proof.
  apply (C07_mono_code.planet_envelope _ _ _ tLJ tBJ tRJ tLJ_enc tBJ_enc tRJ_enc); try discriminate;
    vm_compute; reflexivity.
Qed.

Lemma earth_j2000_wrapper jde flag :
  Earth_geometric_heliocentric_position_j2000 Rops (VObj cEpoch [VFloat jde]) (VBool flag) =
  f_geometric_vsop_pos Rops (VObj cEpoch [VFloat jde]) (g_VSOP87_L_J2000 Rops) (g_VSOP87_B_J2000 Rops)
    (g_VSOP87_R Rops) (VBool flag).
Proof. reflexivity. Qed.

(* amplitude sum of the J2000 latitude series for |t| <= 4 millennia, below 0.0175 rad = 1 degree *)
Lemma nBJ_small : IZR nBJ / IZR (10 ^ 23) <= 175 / 10000.
Proof.
  apply Rmult_le_reg_r with (IZR (10 ^ 23)); [apply IZR_lt; reflexivity|].
  unfold Rdiv. rewrite Rmult_assoc, Rinv_l by (apply not_0_IZR; discriminate).
  rewrite Rmult_1_r.
  replace (175 * / 10000 * IZR (10 ^ 23)) with (IZR (175 * 10 ^ 19)).
  - apply IZR_le. vm_compute. discriminate.
  - rewrite mult_IZR. change (10 ^ 23)%Z with (10 ^ 19 * 10000)%Z. rewrite (mult_IZR (10 ^ 19)). field.
Qed.

Theorem earth_j2000_shape jde : C07_mono_code.jde_lo <= jde <= C07_mono_code.jde_hi ->
  exists L B R,
    Earth_geometric_heliocentric_position_j2000 Rops (VObj cEpoch [VFloat jde]) (VBool true) =
      VTuple [ang L; ang B; VFloat R] /\
    0 <= L < 360 /\ Rabs B <= 101 / 100.
Proof.
  intros Hj.
  destruct earth_j2000_envelope as (TL & TB & TR & Hv & Hb).
  destruct (Hb jde Hj) as [HB _]. specialize (Hv jde).
  set (b := C07_mono_code.useries TB jde) in *.
  set (lon := AngleSpec.pos360 (AngleSpec.red360 (C07_mono_code.ulon TL jde))) in *.
  set (r := C07_mono_code.useries TR jde) in *.
  assert (Hb1 : Rabs b <= 175 / 10000) by (eapply Rle_trans; [exact HB | exact nBJ_small]).
  apply Rabs_le_bounds in Hb1.
  assert (Hdeg : -1003 / 1000 <= b * (180 / PI) <= 1003 / 1000) by (split; interval).
  assert (Hred : AngleSpec.red360 (b * (180 / PI)) = b * (180 / PI)).
  { apply AngleSpec.red360_small. apply Rabs_def1; lra. }
  rewrite Hred in Hv.
  assert (Hlat : Rabs (tan (b * (180 / PI) * (PI / 180))) <= 500).
  { replace (b * (180 / PI) * (PI / 180)) with b by (field; apply PI_neq0).
    apply Rabs_le. split; interval. }
  pose proof (C07_corr.fk5_size jde lon (b * (180 / PI))) as [_ Hd].
  assert (Hs2 : sqrt 2 <= 15 / 10) by interval.
  assert (Hd' : Rabs (C07_corr.fk5_dlat jde lon) <= 2 / 100000).
  { replace (C07_corr.fk5_dlat jde lon) with (C07_corr.fk5_dlat jde lon * 3600 / 3600) by field.
    unfold Rdiv at 1. rewrite Rabs_mult, (Rabs_right (/ 3600)) by lra.
    apply Rabs_le_bounds in Hd. apply Rle_trans with (3916 / 100000 * sqrt 2 * / 3600).
    - apply Rmult_le_compat_r; [lra|]. apply Rabs_le. lra.
    - nra. }
  apply Rabs_le_bounds in Hd'.
  assert (Hred2 : AngleSpec.red360 (b * (180 / PI) + C07_corr.fk5_dlat jde lon)
                  = b * (180 / PI) + C07_corr.fk5_dlat jde lon).
  { apply AngleSpec.red360_small. apply Rabs_def1; lra. }
  exists (AngleSpec.pos360 (AngleSpec.red360 (lon + C07_corr.fk5_dlon jde lon (b * (180 / PI))))),
         (b * (180 / PI) + C07_corr.fk5_dlat jde lon), r.
  split; [|split].
  - rewrite earth_j2000_wrapper.
    unfold C07_lib.enc_table in Hv.
    pose proof (C07_corr.geometric_fk5 jde lon (b * (180 / PI)) r _ _ _ Hv Hlat) as G.
    rewrite Hred2 in G. exact G.
  - apply AngleSpec.pos360_range. apply AngleSpec.red360_range.
  - apply Rabs_le. lra.
Qed.
