(* C08: Print Assumptions of the theorems of C08.v, part 7 of 10 *)
From Proofs.C08 Require Import C08.
Redirect "C08_reflected_longitude.assumptions" Print Assumptions C08_reflected_longitude.
Redirect "C08_true_longitude_coarse_closed_form.assumptions" Print Assumptions C08_true_longitude_coarse_closed_form.
Redirect "C08_nutation_longitude_structure.assumptions" Print Assumptions C08_nutation_longitude_structure.
Redirect "C08_rectangular_j2000_norm_unconditional.assumptions" Print Assumptions C08_rectangular_j2000_norm_unconditional.
