(* C08: Print Assumptions of the theorems of C08.v, part 9 of 10 *)
From Proofs.C08 Require Import C08.
Redirect "C08_latitude_term_small.assumptions" Print Assumptions C08_latitude_term_small.
Redirect "C08_apparent_longitude_coarse_closed_form.assumptions" Print Assumptions C08_apparent_longitude_coarse_closed_form.
Redirect "C08_nutation_remainders.assumptions" Print Assumptions C08_nutation_remainders.
Redirect "C08_true_minus_mean_bound.assumptions" Print Assumptions C08_true_minus_mean_bound.
