(* C08, ideal instance: closed form of Moon.longitude_mean_ascending_node on the generated code, and
   its agreement with the node polynomial used inside nutation_longitude / nutation_obliquity. *)
From Coq Require Import Reals ZArith List Bool Lra Lia String.
From Interval Require Import Tactic.
From PyLib Require Import PyVal PyBuiltins Ideal Whnf PyEval.
From Gen Require Import M_base M_Angle M_Epoch M_Interpolation M_Coordinates M_Earth M_Sun M_Moon.
From Proofs.C08 Require Import C08_base C08_angle2.
Import ListNotations.
Open Scope R_scope.

Lemma new_red_obj x :
  Angle___init__ Rops (VObj cAngle [VNone; VNone]) (VTuple [VFloat x]) (VDict []) =
  VObj cAngle [VFloat (red360 x); VFloat tol0].
Proof. exact (Angle_new_red x). Qed.
Lemma to_pos_red_obj a : -360 < a < 360 ->
  Angle_to_positive Rops (VObj cAngle [VFloat a; VFloat tol0]) =
  VTuple [VObj cAngle [VFloat (pos360 a); VFloat tol0]; VObj cAngle [VFloat (pos360 a); VFloat tol0]].
Proof. exact (Angle_to_positive_red a). Qed.

Ltac2 Set Whnf.is_blocked as old := fun c =>
  Ltac2.Bool.or (old c) (Ltac2.List.exist (Ltac2.Constr.equal c)
    ['@Angle___init__; '@Angle_to_positive; '@g_JDE2000]).

Ltac pyrunv_hook s tac ::=
  lazymatch s with
  | g_JDE2000 _ => rewrite JDE2000_val
  | Angle___init__ _ _ (VTuple [VFloat ?x]) (VDict []) => rewrite (new_red_obj x)
  | Angle_to_positive _ (VObj _ [VFloat ?a; _]) => rewrite (to_pos_red_obj a) by apply red360_range
  end.

Definition tc (jde : R) : R := (jde - Rlit 24515450 (-1)) / Rlit 365250 (-1).

(* the Moon module's node polynomial, constants as in the source (Rlit m e = m * 10^e) *)
Definition node_moon (t : R) : R :=
  Rlit 1250445479 (-7)
  + (Rlit (-19341362891) (-7)
     + (Rlit 20754 (-7) + (Rlit 10 (-1) / Rlit 4764410 (-1) - t / Rlit 606160000 (-1)) * t) * t) * t.

Lemma node_moon_eq t : node_moon t =
  125.0445479 + (-1934.1362891 + (0.0020754 + (1 / 476441 - t / 60616000) * t) * t) * t.
Proof. unfold node_moon. Rlit_norm. unfold Q2R; cbn [QArith_base.Qnum QArith_base.Qden]. field. Qed.

Theorem moon_node_closed jde :
  Moon_longitude_mean_ascending_node Rops (VObj cEpoch [VFloat jde]) =
  ang (pos360 (red360 (node_moon (tc jde)))).
Proof. pyrunv. try reflexivity. Qed.

(* the node polynomial written inside nutation_longitude / nutation_obliquity (Coordinates.py:398,
   :473), with the literals as the translator renders them.  NOT tied to f_nutation_longitude by a
   proof in this file: it is the fifth fundamental argument (polyO) of the structure theorem of the
   nutation series (C08_nut_main.v), syntactically the same term. *)
Definition node_nutation (t : R) : R :=
  Rlit 12504452 (-5) + t * (Rlit (-1934136261) (-6) + t * (Rlit 20708 (-7) + t / Rlit 4500000 (-1))).
Lemma node_nutation_eq t : node_nutation t =
  125.04452 + t * (-1934.136261 + t * (0.0020708 + t / 450000)).
Proof. unfold node_nutation. Rlit_norm. unfold Q2R; cbn [QArith_base.Qnum QArith_base.Qden]. field. Qed.

(* both polynomials agree to 0.0024 degree within 20 centuries of J2000.0: the main nutation terms
   17.20 sin / 9.20 cos of the two nodes differ by less than 0.001 arcsec *)
Theorem node_agreement t : -20 <= t <= 20 -> Rabs (node_nutation t - node_moon t) <= 24 / 10000.
Proof.
  intros H. rewrite node_moon_eq, node_nutation_eq.
  interval with (i_bisect t, i_taylor t, i_degree 6).
Qed.
