(* C08: Print Assumptions of the theorems of C08.v, part 1 of 10 *)
From Proofs.C08 Require Import C08.
Redirect "C08_rectangular_j2000_norm.assumptions" Print Assumptions C08_rectangular_j2000_norm.
Redirect "C08_rectangular_b1950_closed_form.assumptions" Print Assumptions C08_rectangular_b1950_closed_form.
Redirect "C08_moon_node_constants.assumptions" Print Assumptions C08_moon_node_constants.
Redirect "C08_nutation_obliquity_main_term.assumptions" Print Assumptions C08_nutation_obliquity_main_term.
Redirect "C08_nutation_shapes_wide.assumptions" Print Assumptions C08_nutation_shapes_wide.
