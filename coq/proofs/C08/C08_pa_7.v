(* C08: Print Assumptions of the theorems of C08.v, part 8 of 10 *)
From Proofs.C08 Require Import C08.
Redirect "C08_rectangular_of_date_norm.assumptions" Print Assumptions C08_rectangular_of_date_norm.
Redirect "C08_coarse_constants.assumptions" Print Assumptions C08_coarse_constants.
Redirect "C08_nutation_obliquity_structure.assumptions" Print Assumptions C08_nutation_obliquity_structure.
Redirect "C08_rectangular_equinox_norm_unconditional.assumptions" Print Assumptions C08_rectangular_equinox_norm_unconditional.
