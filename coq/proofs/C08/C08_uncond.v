(* C08, ideal instance: the J2000 and arbitrary-equinox norm clauses with the hypothesis on the
   J2000 Earth callee discharged (C08_latj.earth_j2000_shape): no assumption left. *)
From Coq Require Import Reals ZArith List Bool Lra Lia.
From PyLib Require Import PyVal PyBuiltins Ideal.
From Gen Require Import M_base M_Angle M_Epoch M_Interpolation M_Coordinates M_Earth M_Sun.
From Proofs.C07 Require C07_mono_code.
From Proofs.C08 Require Import C08_base.
From Proofs.C08 Require C08_sun C08_j2000 C08_equinox C08_latj.
Import ListNotations.
Open Scope R_scope.

Theorem j2000_norm_unconditional jde : C07_mono_code.jde_lo <= jde <= C07_mono_code.jde_hi ->
  exists L B R x y z,
    Earth_geometric_heliocentric_position_j2000 Rops (VObj cEpoch [VFloat jde]) (VBool true) =
      VTuple [ang L; ang B; VFloat R] /\
    Sun_rectangular_coordinates_j2000 Rops (VObj cEpoch [VFloat jde]) = VTuple [VFloat x; VFloat y; VFloat z] /\
    Rabs ((x * x + y * y + z * z) - R * R) <= 2 / 1000000000000 * (R * R).
Proof.
  intros Hj. destruct (C08_latj.earth_j2000_shape jde Hj) as (L & B & R & He & HL & HB).
  assert (HB' : -360 < B < 360).
  { unfold Rabs in HB. destruct (Rcase_abs B); lra. }
  destruct (C08_j2000.sun_rect_j2000_norm jde L B R ltac:(lra) HB' He) as (x & y & z & Hr & Hn).
  exists L, B, R, x, y, z. repeat split; assumption.
Qed.

Theorem equinox_norm_unconditional jde jq :
  2451545 - 110000 <= jq <= 2451545 + 110000 -> 2000000 <= jde <= 2900000 ->
  exists R x y z,
    (exists L B, Earth_geometric_heliocentric_position_j2000 Rops (VObj cEpoch [VFloat jde]) (VBool true) =
                 VTuple [ang L; ang B; VFloat R]) /\
    Sun_rectangular_coordinates_equinox Rops (VObj cEpoch [VFloat jde]) (VObj cEpoch [VFloat jq]) =
      VTuple [VFloat x; VFloat y; VFloat z] /\
    Rabs ((x * x + y * y + z * z) - R * R) <= 2 / 1000000000000 * (R * R).
Proof.
  intros Hq Hj.
  assert (Hj' : C07_mono_code.jde_lo <= jde <= C07_mono_code.jde_hi).
  { unfold C07_mono_code.jde_lo, C07_mono_code.jde_hi. lra. }
  destruct (j2000_norm_unconditional jde Hj') as (L & B & R & x0 & y0 & z0 & He & Hr & Hn).
  pose proof (C08_equinox.sun_rect_equinox_closed jde jq x0 y0 z0 Hq Hj Hr) as Hc.
  eexists R, _, _, _. split; [exists L, B; exact He|]. split; [exact Hc|].
  rewrite C08_equinox.rot_norm. exact Hn.
Qed.
