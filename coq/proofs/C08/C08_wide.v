(* C08, ideal instance: result SHAPES of nutation_longitude / nutation_obliquity / true_obliquity
   over the wider range |T| <= 40 centuries (years -2000 .. 6000), for clients that only need
   "an Angle of so many arc seconds" (the 3.5 / 1.5 arcsec clauses are for |T| <= 20, C08_nut_bound):
   |dpsi| <= 21 arcsec, |deps| <= 11 arcsec from the amplitude sums of the extracted tables. *)
From Coq Require Import Reals ZArith List Bool Lra Lia.
From Interval Require Import Tactic.
From PyLib Require Import PyVal PyBuiltins Ideal PyEval.
From Gen Require Import M_base M_Angle M_Epoch M_Interpolation M_Coordinates.
From Proofs.C08 Require Import C08_base C08_obliquity.
From Proofs.C08 Require Import C08_nut_main C08_nut_bound.
Import ListNotations.
Open Scope R_scope.

Definition amp40 (CT : list (R * R)) (i : nat) : R :=
  (Rabs (coefA CT i) + Rabs (coefB CT i) * 40) / 10000.

Lemma term_le_amp40 (g : R -> R) CT t i : (forall x, Rabs (g x) <= 1) -> Rabs t <= 40 ->
  Rabs (nut_term g CT t i) <= amp40 CT i.
Proof.
  intros Hg Ht. unfold nut_term, amp40.
  unfold Rdiv. rewrite Rabs_mult, (Rabs_right (/ 10000)) by lra.
  apply Rmult_le_compat_r; [lra|].
  rewrite Rabs_mult.
  assert (Rabs (coefA CT i + coefB CT i * t) <= Rabs (coefA CT i) + Rabs (coefB CT i) * 40) as H1.
  { eapply Rle_trans; [apply Rabs_triang|]. apply Rplus_le_compat_l.
    rewrite Rabs_mult. apply Rmult_le_compat_l; [apply Rabs_pos | exact Ht]. }
  pose proof (Hg (dotrow t i * (PI * / 180))) as H2.
  pose proof (Rabs_pos (coefA CT i + coefB CT i * t)). pose proof (Rabs_pos (g (dotrow t i * (PI * / 180)))).
  nra.
Qed.

Ltac table_num := lazy -[Rlit Rabs Rplus Rmult Rdiv Rinv Rminus Ropp Rle IZR]; Rlit_norm; interval.

Lemma sine_amp40 : bigsum (amp40 SCT) 0 63 <= 21.
Proof. table_num. Qed.
Lemma cosine_amp40 : bigsum (amp40 CCT) 0 49 <= 11.
Proof. table_num. Qed.

Lemma nut_raw_sin_40 t : Rabs t <= 40 -> Rabs (nut_raw sin SCT t) <= 21.
Proof.
  intros Ht. rewrite nut_raw_sin_closed, SCT_length.
  eapply Rle_trans; [|exact sine_amp40].
  apply bigsum_abs_le. intros i _. apply term_le_amp40; [exact abs_sin_1 | exact Ht].
Qed.
Lemma nut_raw_cos_40 t : Rabs t <= 40 -> Rabs (nut_raw cos CCT t) <= 11.
Proof.
  intros Ht. rewrite nut_raw_cos_closed, CCT_length.
  eapply Rle_trans; [|exact cosine_amp40].
  apply bigsum_abs_le. intros i _. apply term_le_amp40; [exact abs_cos_1 | exact Ht].
Qed.

Theorem nutation_longitude_shape40 j : Rabs (Tc j) <= 40 ->
  exists dpsi, f_nutation_longitude Rops (VTuple [C08_nut_main.epo j]) (VDict []) = ang (dpsi / 3600) /\
               dpsi = nut_raw sin SCT (Tc j) /\ Rabs dpsi <= 21.
Proof.
  intros HT. exists (nut_raw sin SCT (Tc j)). pose proof (nut_raw_sin_40 _ HT) as Hb.
  split; [|split; [reflexivity | exact Hb]].
  rewrite nutation_longitude_struct. apply Angle_dms_sec. lra.
Qed.
Theorem nutation_obliquity_shape40 j : Rabs (Tc j) <= 40 ->
  exists deps, f_nutation_obliquity Rops (VTuple [C08_nut_main.epo j]) (VDict []) = ang (deps / 3600) /\
               deps = nut_raw cos CCT (Tc j) /\ Rabs deps <= 11.
Proof.
  intros HT. exists (nut_raw cos CCT (Tc j)). pose proof (nut_raw_cos_40 _ HT) as Hb.
  split; [|split; [reflexivity | exact Hb]].
  rewrite nutation_obliquity_struct. apply Angle_dms_sec. lra.
Qed.

Lemma Tc_uj j : Tc j = 100 * uj j.
Proof. unfold Tc, uj. Rlit_norm. field. Qed.

Lemma laskar_1900 u : -0.4 <= u <= 0.4 -> -1900 <= laskar u <= 1900.
Proof. intros H. unfold laskar. split; interval with (i_bisect u). Qed.

(* true obliquity = mean + nutation, |T| <= 40, no assumption; 22.9 < value < 24.9 degrees *)
Theorem true_obliquity_closed40 j : Rabs (Tc j) <= 40 ->
  exists deps,
    f_true_obliquity Rops (VTuple [C08_obliquity.epo j]) (VDict []) =
      ang (eps0 + laskar (uj j) / 3600 + deps / 3600) /\
    deps = nut_raw cos CCT (Tc j) /\ Rabs deps <= 11 /\
    22 < eps0 + laskar (uj j) / 3600 + deps / 3600 < 25.
Proof.
  intros HT.
  assert (Hu : Rabs (uj j) <= 0.4).
  { rewrite Tc_uj in HT. rewrite Rabs_mult, (Rabs_right 100) in HT by lra. lra. }
  destruct (nutation_obliquity_shape40 j HT) as (deps & Hn & Hd & Hb).
  exists deps. pose proof (mean_obliquity_poly j Hu) as Hm.
  assert (Hl : -1900 <= laskar (uj j) <= 1900).
  { apply laskar_1900. apply Rabs_le_bounds in Hu. lra. }
  apply Rabs_le_bounds in Hb.
  assert (Hr : 22 < eps0 + laskar (uj j) / 3600 + deps / 3600 < 25) by (unfold eps0; lra).
  split; [|split; [exact Hd | split; [apply Rabs_le; lra | exact Hr]]].
  apply true_obliquity_sum; [exact Hm | exact Hn | lra].
Qed.
