(* C08: Print Assumptions of the theorems of C08.v, part 2 of 10 *)
From Proofs.C08 Require Import C08.
Redirect "C08_mean_obliquity_polynomial.assumptions" Print Assumptions C08_mean_obliquity_polynomial.
Redirect "C08_b1950_refuted.assumptions" Print Assumptions C08_b1950_refuted.
Redirect "C08_node_agreement.assumptions" Print Assumptions C08_node_agreement.
Redirect "C08_true_obliquity_closed.assumptions" Print Assumptions C08_true_obliquity_closed.
