(* C08, ideal instance: closed forms of Sun.rectangular_coordinates_j2000 and _b1950 on the
   generated code (the J2000 VSOP87 callee is abstracted), and the B1950 known finding made
   precise: the generated body feeds the already rotated x into y and the rotated x, y into z,
   so the result does not have norm r. *)
From Coq Require Import Reals ZArith List Bool Lra Lia String.
From Interval Require Import Tactic.
From PyLib Require Import PyVal PyBuiltins Ideal Whnf PyEval.
From Gen Require Import M_base M_Angle M_Epoch M_Interpolation M_Coordinates M_Earth M_Sun.
From Proofs.C08 Require Import C08_base C08_sun.
Import ListNotations.
Open Scope R_scope.

(* object-level forms of the Angle lemmas (what the evaluator meets) *)
Lemma to_pos_obj a : -360 < a < 360 ->
  Angle_to_positive Rops (VObj cAngle [VFloat a; VFloat tol0]) =
  VTuple [VObj cAngle [VFloat (topos a); VFloat tol0]; VObj cAngle [VFloat (topos a); VFloat tol0]].
Proof. exact (Angle_to_positive_ang a). Qed.

Definition wrap180 (p : R) : R := if Rlt_dec (p + 180) 360 then p + 180 else p + 180 - 360.

Lemma add180_obj p x : x = Rlit 1800 (-1) -> 0 <= p < 360 ->
  Angle___add__ Rops (VObj cAngle [VFloat p; VFloat tol0]) (VFloat x) =
  VObj cAngle [VFloat (wrap180 p); VFloat tol0].
Proof. intros ->. exact (Angle_add_180 p). Qed.

Lemma neg_obj b : -360 < b < 360 ->
  Angle___neg__ Rops (VObj cAngle [VFloat b; VFloat tol0]) = VObj cAngle [VFloat (- b); VFloat tol0].
Proof. exact (Angle_neg_ang b). Qed.

Lemma wrap180_topos L : wrap180 (topos L) = reflect_lon L.
Proof. reflexivity. Qed.

Ltac2 Set Whnf.is_blocked as old := fun c =>
  Ltac2.Bool.or (old c) (Ltac2.List.exist (Ltac2.Constr.equal c)
    ['@Earth_geometric_heliocentric_position_j2000;
     '@Angle_to_positive; '@Angle___add__; '@Angle___neg__]).

Ltac pyrunv_hook s tac ::=
  lazymatch s with
  | Angle_to_positive _ (VObj _ [VFloat ?a; _]) => rewrite (to_pos_obj a) by assumption
  | Angle___add__ _ (VObj _ [VFloat ?p; _]) (VFloat ?x) =>
      rewrite (add180_obj p x) by first [ reflexivity | apply topos_range; assumption ]
  | Angle___neg__ _ (VObj _ [VFloat ?b; _]) => rewrite (neg_obj b) by assumption
  end.

Lemma vt3 a b c a' b' c' : a = a' -> b = b' -> c = c' ->
  VTuple [VFloat a; VFloat b; VFloat c] = VTuple [VFloat a'; VFloat b'; VFloat c'] :> val R.
Proof. intros -> -> ->. reflexivity. Qed.

Definition rad (d : R) : R := d * (PI / 180).

(* the Sun's geocentric J2000 ecliptical direction as a vector *)
Definition sx (L B r : R) : R := r * cos (rad (- B)) * cos (rad (reflect_lon L)).
Definition sy (L B r : R) : R := r * cos (rad (- B)) * sin (rad (reflect_lon L)).
Definition sz (L B r : R) : R := r * sin (rad (- B)).

(* FK5 J2000 rotation: the literal constants of the code *)
Definition j2000_x (x y z : R) : R := x + 44036 / 100000000000 * y - 190919 / 1000000000000 * z.
Definition j2000_y (x y z : R) : R :=
  -479966 / 1000000000000 * x + 917482137087 / 1000000000000 * y - 397776982902 / 1000000000000 * z.
Definition j2000_z (x y z : R) : R :=
  397776982902 / 1000000000000 * y + 917482137087 / 1000000000000 * z.

(* B1950 matrix: the literal constants of the code *)
Definition b11 : R := 999925702634 / 1000000000000.
Definition b12 : R := 12189716217 / 1000000000000.
Definition b13 : R := 11134016 / 1000000000000.
Definition b21 : R := -11179418036 / 1000000000000.
Definition b22 : R := 917413998946 / 1000000000000.
Definition b23 : R := -397777041885 / 1000000000000.
Definition b31 : R := -4859003787 / 1000000000000.
Definition b32 : R := 397747363646 / 1000000000000.
Definition b33 : R := 917482111428 / 1000000000000.
(* what the generated code computes: x1 from (x, y, z), y1 from (x1, y, z), z1 from (x1, y1, z) *)
Definition b1950_x (x y z : R) : R := b11 * x + b12 * y + b13 * z.
Definition b1950_y (x y z : R) : R := b21 * b1950_x x y z + b22 * y + b23 * z.
Definition b1950_z (x y z : R) : R := b31 * b1950_x x y z + b32 * b1950_y x y z + b33 * z.

Section Frames.
Variables (jde L B R : R).
Hypothesis HL : -360 < L < 360.
Hypothesis HB : -360 < B < 360.
Hypothesis Hearth :
  Earth_geometric_heliocentric_position_j2000 Rops (VObj cEpoch [VFloat jde]) (VBool true)
  = VTuple [VObj cAngle [VFloat L; VFloat tol0]; VObj cAngle [VFloat B; VFloat tol0]; VFloat R].

Theorem sun_rect_j2000_closed :
  Sun_rectangular_coordinates_j2000 Rops (VObj cEpoch [VFloat jde]) =
  VTuple [VFloat (j2000_x (sx L B R) (sy L B R) (sz L B R));
          VFloat (j2000_y (sx L B R) (sy L B R) (sz L B R));
          VFloat (j2000_z (sx L B R) (sy L B R) (sz L B R))].
Proof.
  pyrunv. rewrite wrap180_topos.
  apply vt3; unfold j2000_x, j2000_y, j2000_z, sx, sy, sz, rad; Rlit_norm; field.
Qed.

Theorem sun_rect_b1950_closed :
  Sun_rectangular_coordinates_b1950 Rops (VObj cEpoch [VFloat jde]) =
  VTuple [VFloat (b1950_x (sx L B R) (sy L B R) (sz L B R));
          VFloat (b1950_y (sx L B R) (sy L B R) (sz L B R));
          VFloat (b1950_z (sx L B R) (sy L B R) (sz L B R))].
Proof.
  pyrunv. rewrite wrap180_topos.
  apply vt3; unfold b1950_z, b1950_y, b1950_x, b11, b12, b13, b21, b22, b23, b31, b32, b33,
    sx, sy, sz, rad; Rlit_norm; field.
Qed.
End Frames.

(* The clause "the B1950 coordinates have norm r" (to 1e-7 relative, the oracle's tolerance)
   for the generated body, and its refutation: lon = 90, lat = 0, r = 1 (Sun at longitude 270). *)
Definition b1950_norm_full : Prop :=
  forall L B r, -360 < L < 360 -> -360 < B < 360 -> 0 < r ->
    let x := b1950_x (sx L B r) (sy L B r) (sz L B r) in
    let y := b1950_y (sx L B r) (sy L B r) (sz L B r) in
    let z := b1950_z (sx L B r) (sy L B r) (sz L B r) in
    Rabs (x * x + y * y + z * z - r * r) <= 2 / 10000000 * (r * r).

Lemma reflect_lon_90 : reflect_lon 90 = 270.
Proof.
  unfold reflect_lon, topos. destruct (Rlt_dec 90 0); [lra|].
  destruct (Rlt_dec (90 + 180) 360); lra.
Qed.

Theorem b1950_norm_refuted : ~ b1950_norm_full.
Proof.
  intros H. specialize (H 90 0 1 ltac:(lra) ltac:(lra) ltac:(lra)). cbv zeta in H.
  unfold b1950_z, b1950_y, b1950_x, sx, sy, sz in H. rewrite reflect_lon_90 in H.
  unfold rad, b11, b12, b13, b21, b22, b23, b31, b32, b33 in H.
  apply Rle_not_lt in H. apply H. clear H.
  interval.
Qed.
