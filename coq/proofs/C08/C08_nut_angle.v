(* C08 (nutation): the pieces of the generated Angle class that nutation_longitude / nutation_obliquity
   use, in the ideal instance and for EVERY real argument: Angle(x) = red360 x (AngleSpec), Angle() = 0,
   n * Angle, Angle += Angle; and the periodicity of sin / cos under the reduction.
   (Same construction as coq/proofs/C07/C07_angle.v; every property compiles only its own directory.) *)
From Coq Require Import Reals ZArith List Bool Lra Lia String.
From PyLib Require Import PyVal PyBuiltins Ideal IdealFacts Whnf PyEval.
From Spec Require Import AngleSpec.
From Gen Require Import M_base M_Angle.
From Proofs.C08 Require Import C08_base.
Import ListNotations.
Open Scope R_scope.

Notation rval := (val R).

(* pyrun variant: a blocked (abstracted) callee is rewritten with a hypothesis giving its
   value, after its arguments have been evaluated; [py_user_rw] can be extended with lemmas *)
Ltac py_user_rw tac := fail.
Ltac pyrunA_using tac :=
  whnf_lhs;
  lazymatch goal with
  | |- ?l = _ =>
    tryif is_canon l then expose_R else
    first [
      lazymatch l with
      | bind ?e ?k =>
          tryif is_canon e then
            lazymatch e with
            | VErr _ => rewrite (bind_err _ k)
            | _ => rewrite (bind_ok e k) by reflexivity; cbv beta
            end
          else
            let H := fresh "Hev" in
            eassert (H : e = _) by (pyrunA_using tac; py_canon_refl);
            rewrite H; clear H
      | VTuple ?xs => first_noncanon xs ltac:(fun x =>
            let H := fresh "Hev" in
            eassert (H : x = _) by (pyrunA_using tac; py_canon_refl); rewrite H; clear H)
      | VList ?xs => first_noncanon xs ltac:(fun x =>
            let H := fresh "Hev" in
            eassert (H : x = _) by (pyrunA_using tac; py_canon_refl); rewrite H; clear H)
      | VObj _ ?xs => first_noncanon xs ltac:(fun x =>
            let H := fresh "Hev" in
            eassert (H : x = _) by (pyrunA_using tac; py_canon_refl); rewrite H; clear H)
      | _ =>
          pose_stuck;
          lazymatch goal with
          | py_stuck := ?s |- _ =>
              clear py_stuck;
              lazymatch s with
              | bind ?e ?k =>
                  let H := fresh "Hev" in
                  eassert (H : bind e k = _) by (pyrunA_using tac; py_canon_refl);
                  rewrite H; clear H
              | Rltb _ _ => py_decide_at s tac
              | Rleb _ _ => py_decide_at s tac
              | Reqb _ _ => py_decide_at s tac
              | _ =>
                  first [ match goal with H : s = _ |- _ => rewrite H end
                        | pyA_eval_arg s tac
                        | py_user_rw tac
                        | idtac "pyrunA: stuck on" s; fail 1 ]
              end
          end
      end;
      pyrunA_using tac
    | idtac ]
  end
with pyA_eval_arg s tac :=
  lazymatch s with
  | ?g ?a =>
      first [ pyA_eval_arg g tac
            | lazymatch type of a with
              | val _ =>
                  tryif is_canon a then fail else
                  (let H := fresh "Harg" in
                   eassert (H : a = _) by (pyrunA_using tac; py_canon_refl);
                   rewrite H; clear H)
              end ]
  end.
Ltac pyrunA := pyrunA_using pylra.
(* decision tactic that first computes closed integer subterms (0 mod 1 ...) *)
Ltac zcomp :=
  repeat match goal with
  | |- context [IZR ?z] =>
      lazymatch z with
      | Z0 => fail | Zpos _ => fail | Zneg _ => fail
      | _ => let z' := eval vm_compute in z in progress change z with z'
      end
  end.
Ltac pylraZ := first [ pylra | zcomp; pylra ].
Ltac pyrunZ := pyrunA_using pylraZ.


(* the same evaluator with call-by-value at every bind (used for long straight-line arithmetic) *)
Ltac pyrunC_using tac :=
  whnf_lhs;
  lazymatch goal with
  | |- ?l = _ =>
    tryif is_canon l then expose_R else
    first [
      lazymatch l with
      | bind ?e ?k =>
          tryif is_canon e then
            lazymatch e with
            | VErr _ => rewrite (bind_err _ k)
            | _ => rewrite (bind_ok e k) by reflexivity; cbv beta
            end
          else
            let H := fresh "Hev" in
            eassert (H : e = _) by (pyV_using tac; py_canon_refl);
            rewrite H; clear H
      | VTuple ?xs => first_noncanon xs ltac:(fun x =>
            let H := fresh "Hev" in
            eassert (H : x = _) by (pyrunC_using tac; py_canon_refl); rewrite H; clear H)
      | VList ?xs => first_noncanon xs ltac:(fun x =>
            let H := fresh "Hev" in
            eassert (H : x = _) by (pyrunC_using tac; py_canon_refl); rewrite H; clear H)
      | VObj _ ?xs => first_noncanon xs ltac:(fun x =>
            let H := fresh "Hev" in
            eassert (H : x = _) by (pyrunC_using tac; py_canon_refl); rewrite H; clear H)
      | _ =>
          pose_stuck;
          lazymatch goal with
          | py_stuck := ?s |- _ =>
              clear py_stuck;
              lazymatch s with
              | bind ?e ?k =>
                  let H := fresh "Hev" in
                  eassert (H : bind e k = _) by (pyrunC_using tac; py_canon_refl);
                  rewrite H; clear H
              | Rltb _ _ => py_decide_at s tac
              | Rleb _ _ => py_decide_at s tac
              | Reqb _ _ => py_decide_at s tac
              | _ =>
                  first [ match goal with H : s = _ |- _ => rewrite H end
                        | pyC_eval_arg s tac
                        | py_user_rw tac
                        | idtac "pyrunC: stuck on" s; fail 1 ]
              end
          end
      end;
      pyrunC_using tac
    | idtac ]
  end
with pyC_eval_arg s tac :=
  lazymatch s with
  | ?g ?a =>
      first [ pyC_eval_arg g tac
            | lazymatch type of a with
              | val _ =>
                  tryif is_canon a then fail else
                  (let H := fresh "Harg" in
                   eassert (H : a = _) by (pyrunC_using tac; py_canon_refl);
                   rewrite H; clear H)
              end ]
  end
(* call-by-value evaluation of [e] in a goal [e = ?v]: arguments of type val first (innermost
   first), then the call itself; nested arithmetic is linear instead of quadratic this way *)
with pyV_using tac :=
  lazymatch goal with
  | |- ?e = _ =>
      tryif is_canon e then idtac else
      first [ pyV_arg e tac; pyV_using tac | pyrunC_using tac ]
  end
with pyV_arg s tac :=
  lazymatch s with
  | ?g ?a =>
      first [ pyV_arg g tac
            | lazymatch type of a with
              | val _ =>
                  tryif is_canon a then fail else
                  (let H := fresh "Harg" in
                   eassert (H : a = _) by (pyV_using tac; py_canon_refl);
                   rewrite H; clear H)
              end ]
  end.
Ltac pyrunC := pyrunC_using pylra.

(* ---------------------------------------------------------------- reduce_deg *)
Ltac2 Set Whnf.is_blocked as old := fun c =>
  Ltac2.Bool.or (old c) (Ltac2.Constr.equal c '@fmod_py).

Lemma fl_Rfloor x : fl x = Rfloor x.
Proof. reflexivity. Qed.

Lemma reduce_deg_small x : Rabs x < 360 -> Angle_reduce_deg Rops (VFloat x) = VFloat x.
Proof. intros H. pyrun. reflexivity. Qed.

Lemma reduce_deg_big_abs x : 360 <= Rabs x ->
  Angle_reduce_deg Rops (VFloat x) =
  VFloat (sgn x * (Rabs x - 360 * IZR (Rfloor (Rabs x / 360)))).
Proof.
  intros H.
  assert (0 <= Rabs x) as Ha by lra.
  pose proof (fmod_py_nonneg (Rabs x) 1 Ha ltac:(lra)) as Hm.
  change (Rabs x) with (f_abs Rops x) in Hm at 1. change 1 with (zf Rops 1) in Hm at 1.
  unfold sgn. destruct (Rle_dec 0 x) as [P|P].
  - pyrunA. rewrite Rtrunc_nonneg by lra. rewrite Rfmod_1 by lra.
    rewrite (int_frac_mod (Rabs x) 360) by lia. Rlit_norm. f_equal. field.
  - pyrunA. rewrite Rtrunc_nonneg by lra. rewrite Rfmod_1 by lra.
    rewrite (int_frac_mod (Rabs x) 360) by lia. Rlit_norm. f_equal. field.
Qed.

Theorem reduce_deg_float x : Angle_reduce_deg Rops (VFloat x) = VFloat (red360 x).
Proof.
  unfold red360. destruct (Rlt_dec (Rabs x) 360) as [H|H].
  - apply reduce_deg_small; assumption.
  - rewrite fl_Rfloor. apply reduce_deg_big_abs. lra.
Qed.

(* ---------------------------------------------------------------- constructors, operators *)
Ltac2 Set Whnf.is_blocked as old := fun c =>
  Ltac2.Bool.or (old c) (Ltac2.Constr.equal c '@Angle_reduce_deg).
Ltac py_user_rw tac ::= rewrite reduce_deg_float.

Lemma init_float_obj x :
  Angle___init__ Rops (VObj cAngle [VNone; VNone]) (VTuple [VFloat x]) (VDict []) = ang (red360 x).
Proof. unfold ang, tol0. pyrunA. reflexivity. Qed.

Lemma init_empty_obj :
  Angle___init__ Rops (VObj cAngle [VNone; VNone]) (VTuple []) (VDict []) = ang (Rlit 0 (-1)).
Proof. unfold ang, tol0. pyrunA. reflexivity. Qed.

(* n * Angle (int on the left: Angle.__rmul__) *)
Lemma rmul_int_obj f t n :
  Angle___rmul__ Rops (VObj cAngle [VFloat f; VFloat t]) (VInt n) = ang (red360 (f * IZR n)).
Proof. unfold ang, tol0. pyrunA. reflexivity. Qed.

Lemma iadd_obj a t b t' :
  Angle___iadd__ Rops (VObj cAngle [VFloat a; VFloat t]) (VObj cAngle [VFloat b; VFloat t'])
  = ang (red360 (a + b)).
Proof. unfold ang, tol0. pyrunA. reflexivity. Qed.

Lemma rad_obj v t : Angle_rad Rops (VObj cAngle [VFloat v; VFloat t]) = VFloat (v * (PI / 180)).
Proof. pyrun. reflexivity. Qed.

(* ---------------------------------------------------------------- periodicity *)
Lemma sin_shift x (k : Z) : sin (x + 2 * IZR k * PI) = sin x.
Proof.
  destruct k as [|p|p].
  - replace (x + 2 * 0 * PI) with x by ring. reflexivity.
  - rewrite <- (positive_nat_Z p), <- INR_IZR_INZ. apply sin_period.
  - rewrite <- (sin_period (x + 2 * IZR (Z.neg p) * PI) (Pos.to_nat p)).
    f_equal. rewrite INR_IZR_INZ, positive_nat_Z.
    change (Z.neg p) with (- Z.pos p)%Z. rewrite opp_IZR. ring.
Qed.
Lemma cos_shift x (k : Z) : cos (x + 2 * IZR k * PI) = cos x.
Proof.
  destruct k as [|p|p].
  - replace (x + 2 * 0 * PI) with x by ring. reflexivity.
  - rewrite <- (positive_nat_Z p), <- INR_IZR_INZ. apply cos_period.
  - rewrite <- (cos_period (x + 2 * IZR (Z.neg p) * PI) (Pos.to_nat p)).
    f_equal. rewrite INR_IZR_INZ, positive_nat_Z.
    change (Z.neg p) with (- Z.pos p)%Z. rewrite opp_IZR. ring.
Qed.

(* angles in degrees that differ by whole turns have the same sine and cosine *)
Lemma sin_cong x y : AngleSpec.cong360 x y -> sin (x * (PI / 180)) = sin (y * (PI / 180)).
Proof.
  intros [k ->]. rewrite <- (sin_shift (y * (PI / 180)) k). f_equal. field.
Qed.
Lemma cos_cong x y : AngleSpec.cong360 x y -> cos (x * (PI / 180)) = cos (y * (PI / 180)).
Proof.
  intros [k ->]. rewrite <- (cos_shift (y * (PI / 180)) k). f_equal. field.
Qed.
