(* C08: Print Assumptions of the theorems of C08.v, part 5 of 10 *)
From Proofs.C08 Require Import C08.
Redirect "C08_sun_geometric_is_earth_reflected.assumptions" Print Assumptions C08_sun_geometric_is_earth_reflected.
Redirect "C08_rectangular_equinox_norm.assumptions" Print Assumptions C08_rectangular_equinox_norm.
Redirect "C08_equinox_frame_refuted.assumptions" Print Assumptions C08_equinox_frame_refuted.
Redirect "C08_rectangular_of_date_norm_unconditional.assumptions" Print Assumptions C08_rectangular_of_date_norm_unconditional.
