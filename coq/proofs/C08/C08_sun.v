(* C08, ideal instance: the Sun's geocentric position is the Earth's heliocentric position
   reflected, whatever the (VSOP87) Earth callee returns; rectangular coordinates have norm r. *)
From Coq Require Import Reals ZArith List Bool Lra Lia String.
From Coq Require Import PrimFloat.
From Interval Require Import Tactic.
From PyLib Require Import PyVal PyBuiltins Ideal Whnf PyEval.
From Gen Require Import M_base M_Angle M_Epoch M_Interpolation M_Coordinates M_Earth M_Sun.
From Proofs.C08 Require Import C08_base.
Import ListNotations.
Close Scope float_scope.
Open Scope R_scope.

Definition epo (j : R) : val R := VObj cEpoch [VFloat j].

(* Angle + float and -Angle, for the ranges met here *)
Lemma Angle_add_float_small a x : -360 < a + x < 360 ->
  Angle___add__ Rops (ang a) (VFloat x) = ang (a + x).
Proof. intros H. pyrun. reflexivity. Qed.

Lemma Angle_new_wrap a : 360 <= a < 720 ->
  Angle___init__ Rops blank (VTuple [VFloat a]) (VDict []) = ang (a - 360).
Proof.
  intros Ha.
  assert (Hab : Rabs a = a) by (apply Rabs_right; lra).
  assert (Hq : Rabs a / 1 = Rabs a) by field.
  assert (HT : Rtrunc (Rabs a) = Rfloor (Rabs a)) by (apply Rtrunc_nonneg; lra).
  assert (HF : Rfmod (Rabs a) 1 = Rabs a - IZR (Rfloor (Rabs a))).
  { unfold Rfmod. rewrite Hq, Rtrunc_nonneg by lra. ring. }
  destruct (Rfloor_spec (Rabs a)) as [Hf1 Hf2].
  assert (HF1 : 0 <= Rfmod (Rabs a) 1 < 1) by (rewrite HF; lra).
  assert (Hfl : (360 <= Rfloor (Rabs a) < 720)%Z).
  { split.
    - apply Zlt_succ_le. apply lt_IZR. rewrite succ_IZR. lra.
    - apply lt_IZR. lra. }
  assert (Hmod : IZR (Rfloor (Rabs a) mod 360) = IZR (Rfloor (Rabs a)) - 360).
  { replace (Rfloor (Rabs a) mod 360)%Z with (Rfloor (Rabs a) - 360)%Z.
    - rewrite minus_IZR. reflexivity.
    - apply Z.mod_unique with (q := 1%Z); lia. }
  destruct (Req_dec (Rfmod (Rabs a) 1) 0) as [H0|H0].
  - myrun. apply ang_ext. rewrite HT. ifclosed. Rlit_norm. rewrite Hmod. rewrite H0 in HF. lra.
  - assert (0 < Rfmod (Rabs a) 1) by lra. myrun. apply ang_ext. rewrite HT. Rlit_norm.
    rewrite Hmod, HF. lra.
Qed.

Lemma Angle_neg_ang b : -360 < b < 360 -> Angle___neg__ Rops (ang b) = ang (- b).
Proof. intros H. pyrun. reflexivity. Qed.

(* longitude + 180 degrees, reduced to [0, 360) *)
Definition reflect_lon (l : R) : R :=
  if Rlt_dec (topos l + 180) 360 then topos l + 180 else topos l + 180 - 360.

Lemma reflect_lon_range l : -360 < l < 360 -> 0 <= reflect_lon l < 360.
Proof.
  intros H. pose proof (topos_range l H). unfold reflect_lon.
  destruct (Rlt_dec (topos l + 180) 360); lra.
Qed.

Lemma reflect_lon_cong l : cong360 (reflect_lon l) (l + 180).
Proof.
  unfold reflect_lon, topos. destruct (Rlt_dec l 0).
  - destruct (Rlt_dec (360 + l + 180) 360); [exists 1%Z | exists 0%Z]; lra.
  - destruct (Rlt_dec (l + 180) 360); [exists 0%Z | exists (-1)%Z]; lra.
Qed.

Lemma Angle_add_180 p : 0 <= p < 360 ->
  Angle___add__ Rops (ang p) (VFloat (Rlit 1800 (-1))) =
  ang (if Rlt_dec (p + 180) 360 then p + 180 else p + 180 - 360).
Proof.
  intros Hp. assert (H180 : Rlit 1800 (-1) = 180) by (Rlit_norm; lra).
  destruct (Rlt_dec (p + 180) 360) as [Hs|Hs].
  - rewrite Angle_add_float_small by (rewrite H180; lra). rewrite H180. reflexivity.
  - transitivity (Angle___init__ Rops blank (VTuple [VFloat (p + Rlit 1800 (-1))]) (VDict [])).
    + whnf_lhs. reflexivity.
    + rewrite Angle_new_wrap by (rewrite H180; lra). rewrite H180. reflexivity.
Qed.

(* from here on the Earth callees and the Angle operations are opaque to the evaluator *)
Ltac2 Set Whnf.is_blocked as old := fun c =>
  Ltac2.Bool.or (old c) (Ltac2.List.exist (Ltac2.Constr.equal c)
    ['@Earth_geometric_heliocentric_position; '@Earth_apparent_heliocentric_position;
     '@Earth_geometric_heliocentric_position_j2000;
     '@Angle_to_positive; '@Angle___add__; '@Angle___neg__]).

(* a blocked call whose arguments are not yet in normal form: replace it by the value a
   hypothesis gives (checked by conversion) *)
Ltac use_eq H :=
  lazymatch type of H with
  | ?f Rops ?a ?b = ?r =>
      match goal with |- context [f Rops ?a' ?b'] =>
        replace (f Rops a' b') with r by (symmetry; exact H) end
  | ?f Rops ?a = ?r =>
      match goal with |- context [f Rops ?a'] =>
        replace (f Rops a') with r by (symmetry; exact H) end
  end.

Section Reflection.
Variables (jde L B R : R) (flag : bool).
Hypothesis HL : -360 < L < 360.
Hypothesis HB : -360 < B < 360.

Lemma sun_geometric_reflected :
  Earth_geometric_heliocentric_position Rops (epo jde) (VBool flag) = VTuple [ang L; ang B; VFloat R] ->
  Sun_geometric_geocentric_position Rops (epo jde) (VBool flag) =
  VTuple [ang (reflect_lon L); ang (- B); VFloat R].
Proof.
  intros Hearth.
  pose proof (Angle_to_positive_ang L HL) as H1.
  assert (H2 : Angle___add__ Rops (item (VTuple [ang (topos L); ang (topos L)]) 1)
                 (VFloat (f_lit Rops 1800 (-1) 0x1.68p+7%float)) = ang (reflect_lon L))
    by exact (Angle_add_180 (topos L) (topos_range L HL)).
  assert (H3 : Angle___neg__ Rops (item (VTuple [ang L; ang B; VFloat R]) 1) = ang (- B))
    by exact (Angle_neg_ang B HB).
  unfold epo, ang in *. pyrun. reflexivity.
Qed.

Lemma sun_apparent_reflected :
  Earth_apparent_heliocentric_position Rops (epo jde) (VBool flag) = VTuple [ang L; ang B; VFloat R] ->
  Sun_apparent_geocentric_position Rops (epo jde) (VBool flag) =
  VTuple [ang (reflect_lon L); ang (- B); VFloat R].
Proof.
  intros Hearth.
  pose proof (Angle_to_positive_ang L HL) as H1.
  assert (H2 : Angle___add__ Rops (item (VTuple [ang (topos L); ang (topos L)]) 1)
                 (VFloat (f_lit Rops 1800 (-1) 0x1.68p+7%float)) = ang (reflect_lon L))
    by exact (Angle_add_180 (topos L) (topos_range L HL)).
  assert (H3 : Angle___neg__ Rops (item (VTuple [ang L; ang B; VFloat R]) 1) = ang (- B))
    by exact (Angle_neg_ang B HB).
  unfold epo, ang in *. pyrun. reflexivity.
Qed.
(* partial correctness made explicit: if the Earth callee fails, the same error comes out *)
Lemma sun_geometric_error x :
  Earth_geometric_heliocentric_position Rops (epo jde) (VBool flag) = VErr x ->
  Sun_geometric_geocentric_position Rops (epo jde) (VBool flag) = VErr x.
Proof. intros Hearth. unfold epo in *. pyrun. reflexivity. Qed.

Lemma sun_apparent_error x :
  Earth_apparent_heliocentric_position Rops (epo jde) (VBool flag) = VErr x ->
  Sun_apparent_geocentric_position Rops (epo jde) (VBool flag) = VErr x.
Proof. intros Hearth. unfold epo in *. pyrun. reflexivity. Qed.
End Reflection.

(* ---------------------------------------------------------------- rectangular coordinates *)
(* the generated formulas (the code leaves out the factor cos(lat) of Meeus (26.1)) *)
Lemma rect_norm_identity r l b e :
  let x := r * cos l in
  let y := r * (sin l * cos e - sin b * sin e) in
  let z := r * (sin l * sin e + sin b * cos e) in
  x * x + y * y + z * z = r * r * (1 + sin b * sin b).
Proof.
  intros x y z. unfold x, y, z.
  pose proof (sin2_cos2 l) as Hl. pose proof (sin2_cos2 e) as He. unfold Rsqr in Hl, He.
  transitivity (r * r * ((sin l * sin l + cos l * cos l)
                         + (sin l * sin l + sin b * sin b) * ((sin e * sin e + cos e * cos e) - 1)
                         + sin b * sin b)); [ring | rewrite Hl, He; ring].
Qed.

Ltac2 Set Whnf.is_blocked as old := fun c =>
  Ltac2.Bool.or (old c) (Ltac2.List.exist (Ltac2.Constr.equal c)
    ['@Sun_geometric_geocentric_position; '@f_mean_obliquity]).

Ltac bind_step tac :=
  lazymatch goal with
  | |- bind ?e ?k = _ => let H := fresh "Hs" in eassert (H : e = _) by tac; rewrite H; clear H
  end.

Lemma sun_rect_of_date j L B R e :
  Sun_geometric_geocentric_position Rops (epo j) (VBool true) = VTuple [ang L; ang B; VFloat R] ->
  f_mean_obliquity Rops (VTuple [epo j]) (VDict []) = ang e ->
  exists x y z,
    Sun_rectangular_coordinates_mean_equinox Rops (epo j) = VTuple [VFloat x; VFloat y; VFloat z] /\
    x * x + y * y + z * z = R * R * (1 + sin (B * (PI / 180)) * sin (B * (PI / 180))).
Proof.
  intros Hg Hm. do 3 eexists. split.
  - unfold epo, ang in *. pyrun. bind_step ltac:(exact Hm). pyrun. reflexivity.
  - apply (rect_norm_identity R (L * (PI / 180)) (B * (PI / 180)) (e * (PI / 180))).
Qed.

(* |lat| <= 0.001 degree (the Sun's latitude never exceeds 1.2 arcsec): the norm is r to 2e-10 *)
Lemma sin_sq_small b : -1 / 1000 <= b <= 1 / 1000 ->
  sin (b * (PI / 180)) * sin (b * (PI / 180)) <= 4 / 10000000000.
Proof. intros H. interval with (i_bisect b). Qed.
