(* C08, ideal instance: closed form of Sun.rectangular_coordinates_equinox on the generated
   code (the J2000 rectangular callee is abstracted), and the known finding frame-equinox made
   precise: the precession angles zeta, z, theta are evaluated with Meeus' T = (epoch - equinox)/36525
   although the starting frame is J2000 (T = 0). *)
From Coq Require Import Reals ZArith List Bool Lra Lia String.
From Interval Require Import Tactic.
From PyLib Require Import PyVal PyBuiltins Ideal Whnf PyEval.
From Gen Require Import M_base M_Angle M_Epoch M_Interpolation M_Coordinates M_Earth M_Sun.
From Proofs.C08 Require Import C08_base C08_angle2.
Import ListNotations.
Open Scope R_scope.

Lemma dms_obj s : Rabs s < 1296000 ->
  Angle___init__ Rops (VObj cAngle [VNone; VNone]) (VTuple [VInt 0; VInt 0; VFloat s]) (VDict []) =
  VObj cAngle [VFloat (s / 3600); VFloat tol0].
Proof. exact (Angle_dms_any s). Qed.

Ltac2 Set Whnf.is_blocked as old := fun c =>
  Ltac2.Bool.or (old c) (Ltac2.List.exist (Ltac2.Constr.equal c)
    ['@Angle___init__; '@g_JDE2000; '@Sun_rectangular_coordinates_j2000]).

Ltac pyrunv_hook s tac ::=
  lazymatch s with
  | g_JDE2000 _ => rewrite JDE2000_val
  | Angle___init__ _ _ (VTuple [VInt 0; VInt 0; VFloat ?x]) (VDict []) =>
      rewrite (dms_obj x) by (expose_R; Rlit_norm; interval)
  end.

Definition rad (d : R) : R := d * (PI / 180).

(* t: centuries from J2000.0 to the target equinox; tt: centuries from the equinox to the epoch *)
Definition t_c (jq : R) : R := (jq - Rlit 24515450 (-1)) / Rlit 365250 (-1).
Definition tt_c (jde jq : R) : R := (jde - jq) / Rlit 365250 (-1).

(* the three precession angles in arc seconds, constants exactly as in the source *)
Definition zeta_c (t tt : R) : R :=
  t * (Rlit 23062181 (-4) + tt * (Rlit 139656 (-5) - Rlit 139 (-6) * tt)
       + t * (Rlit 30188 (-5) - Rlit 344 (-6) * tt + Rlit 17998 (-6) * t)).
Definition z_c (t tt : R) : R :=
  t * (Rlit 23062181 (-4) + tt * (Rlit 139656 (-5) - Rlit 139 (-6) * tt)
       + t * (Rlit 109468 (-5) + Rlit 66 (-6) * tt + Rlit 18203 (-6) * t)).
Definition theta_c (t tt : R) : R :=
  t * (Rlit 20043109 (-4) + tt * (Rlit (-85330) (-5) - Rlit 217 (-6) * tt)
       + t * (- (Rlit 42665 (-5) + Rlit 217 (-6) * tt) - Rlit 41833 (-6) * t)).

Lemma zeta_c_eq t tt : zeta_c t tt =
  t * (2306.2181 + tt * (1.39656 - 0.000139 * tt) + t * (0.30188 - 0.000344 * tt + 0.017998 * t)).
Proof. unfold zeta_c. Rlit_norm. unfold Q2R; cbn [QArith_base.Qnum QArith_base.Qden]. field. Qed.
Lemma z_c_eq t tt : z_c t tt =
  t * (2306.2181 + tt * (1.39656 - 0.000139 * tt) + t * (1.09468 + 0.000066 * tt + 0.018203 * t)).
Proof. unfold z_c. Rlit_norm. unfold Q2R; cbn [QArith_base.Qnum QArith_base.Qden]. field. Qed.
Lemma theta_c_eq t tt : theta_c t tt =
  t * (2004.3109 + tt * (-0.85330 - 0.000217 * tt) + t * (- (0.42665 + 0.000217 * tt) - 0.041833 * t)).
Proof. unfold theta_c. Rlit_norm. unfold Q2R; cbn [QArith_base.Qnum QArith_base.Qden]. field. Qed.

(* rotation applied to the J2000 vector (zeta, z, theta in radians) *)
Definition rot_x (ze z th x0 y0 z0 : R) : R :=
  (cos ze * cos z * cos th - sin ze * sin z) * x0
  + (- cos ze * sin z - sin ze * cos z * cos th) * y0 + (- cos z * sin th) * z0.
Definition rot_y (ze z th x0 y0 z0 : R) : R :=
  (sin ze * cos z + cos ze * sin z * cos th) * x0
  + (cos ze * cos z - sin ze * sin z * cos th) * y0 + (- sin z * sin th) * z0.
Definition rot_z (ze z th x0 y0 z0 : R) : R :=
  cos ze * sin th * x0 + (- sin ze * sin th) * y0 + cos th * z0.

Section Equinox.
Variables (jde jq x0 y0 z0 : R).
(* equinox within 3 centuries of J2000.0, epoch within years 764..3227 *)
Hypothesis Hq : 2451545 - 110000 <= jq <= 2451545 + 110000.
Hypothesis Hj : 2000000 <= jde <= 2900000.
Hypothesis Hj2000 :
  Sun_rectangular_coordinates_j2000 Rops (VObj cEpoch [VFloat jde]) = VTuple [VFloat x0; VFloat y0; VFloat z0].

Let ze := rad (zeta_c (t_c jq) (tt_c jde jq) / 3600).
Let zz := rad (z_c (t_c jq) (tt_c jde jq) / 3600).
Let th := rad (theta_c (t_c jq) (tt_c jde jq) / 3600).

Theorem sun_rect_equinox_closed :
  Sun_rectangular_coordinates_equinox Rops (VObj cEpoch [VFloat jde]) (VObj cEpoch [VFloat jq]) =
  VTuple [VFloat (rot_x ze zz th x0 y0 z0); VFloat (rot_y ze zz th x0 y0 z0);
          VFloat (rot_z ze zz th x0 y0 z0)].
Proof.
  pyrunv. try reflexivity.
Qed.
End Equinox.

(* Meeus (21.2) for a start at J2000.0: T = 0 *)
Definition zeta_meeus (t : R) : R := t * (2306.2181 + t * (0.30188 + 0.017998 * t)).

(* "the code evaluates zeta as (21.2) with T = 0" - the clause behind the frame-equinox finding *)
Definition equinox_T_full : Prop := forall t tt, zeta_c t tt = zeta_meeus t.

Lemma zeta_c_T0 t : zeta_c t 0 = zeta_meeus t.
Proof. rewrite zeta_c_eq. unfold zeta_meeus. field. Qed.

(* epoch 13 centuries before an equinox 3 centuries after J2000.0: zeta is off by 54 arcsec *)
Lemma zeta_T_gap : zeta_c 3 (-13) - zeta_meeus 3 < -54.
Proof. rewrite zeta_c_eq. unfold zeta_meeus. interval. Qed.

Theorem equinox_T_refuted : ~ equinox_T_full.
Proof. intros H. pose proof zeta_T_gap as G. rewrite (H 3 (-13)) in G. lra. Qed.

(* the rotation is orthogonal: the arbitrary-equinox coordinates have exactly the norm of the
   J2000 ones (three plane rotations: about z by zeta, about y by theta, about z by z) *)
Lemma plane_rot c s a b : s * s + c * c = 1 ->
  (c * a - s * b) * (c * a - s * b) + (s * a + c * b) * (s * a + c * b) = a * a + b * b.
Proof.
  intros H.
  replace ((c * a - s * b) * (c * a - s * b) + (s * a + c * b) * (s * a + c * b))
    with ((s * s + c * c) * (a * a + b * b)) by ring.
  rewrite H. ring.
Qed.

Theorem rot_norm ze z th x0 y0 z0 :
  rot_x ze z th x0 y0 z0 * rot_x ze z th x0 y0 z0 + rot_y ze z th x0 y0 z0 * rot_y ze z th x0 y0 z0
  + rot_z ze z th x0 y0 z0 * rot_z ze z th x0 y0 z0 = x0 * x0 + y0 * y0 + z0 * z0.
Proof.
  pose proof (sin2_cos2 ze) as H1. pose proof (sin2_cos2 z) as H2. pose proof (sin2_cos2 th) as H3.
  unfold Rsqr in H1, H2, H3.
  set (u1 := cos ze * x0 - sin ze * y0). set (u2 := sin ze * x0 + cos ze * y0).
  set (w1 := cos th * u1 - sin th * z0). set (w3 := sin th * u1 + cos th * z0).
  replace (rot_x ze z th x0 y0 z0) with (cos z * w1 - sin z * u2)
    by (unfold rot_x, w1, u1, u2; ring).
  replace (rot_y ze z th x0 y0 z0) with (sin z * w1 + cos z * u2)
    by (unfold rot_y, w1, u1, u2; ring).
  replace (rot_z ze z th x0 y0 z0) with w3 by (unfold rot_z, w3, u1; ring).
  rewrite (plane_rot _ _ w1 u2 H2).
  replace (w1 * w1 + u2 * u2 + w3 * w3) with (w1 * w1 + w3 * w3 + u2 * u2) by ring.
  unfold w1, w3. rewrite (plane_rot _ _ u1 z0 H3).
  replace (u1 * u1 + z0 * z0 + u2 * u2) with (u1 * u1 + u2 * u2 + z0 * z0) by ring.
  unfold u1, u2. rewrite (plane_rot _ _ x0 y0 H1). reflexivity.
Qed.

(* The 2 arcsec clause itself, for the generated body against the rotation Meeus prescribes
   (same polynomials with T = 0): distance between the two images of a unit vector, in radians
   (2 arcsec = 9.7e-6 rad).  Refuted at t = 3, T = -13 (epoch 1000, equinox 2300) on the x axis. *)
Definition img (t tt x0 y0 z0 : R) : R * R * R :=
  let ze := rad (zeta_c t tt / 3600) in let zz := rad (z_c t tt / 3600) in
  let th := rad (theta_c t tt / 3600) in
  (rot_x ze zz th x0 y0 z0, rot_y ze zz th x0 y0 z0, rot_z ze zz th x0 y0 z0).
Definition dist2 (p q : R * R * R) : R :=
  let '(a, b, c) := p in let '(a', b', c') := q in
  (a - a') * (a - a') + (b - b') * (b - b') + (c - c') * (c - c').
Definition equinox_frame_full : Prop :=
  forall t tt x0 y0 z0, -3 <= t <= 3 -> -13 <= tt <= 13 -> x0 * x0 + y0 * y0 + z0 * z0 = 1 ->
    dist2 (img t tt x0 y0 z0) (img t 0 x0 y0 z0) <= (97 / 10000000) * (97 / 10000000).

Theorem equinox_frame_refuted : ~ equinox_frame_full.
Proof.
  intros H. specialize (H 3 (-13) 1 0 0 ltac:(lra) ltac:(lra) ltac:(lra)).
  apply Rle_not_lt in H. apply H. clear H.
  unfold dist2, img, rot_x, rot_y, rot_z, rad. rewrite !zeta_c_eq, !z_c_eq, !theta_c_eq.
  interval with (i_prec 80).
Qed.

