(* C08 (nutation): closed form of the sums computed by nutation_longitude / nutation_obliquity and
   the amplitude bounds of the property, from the tables extracted from the source:
     nut_raw sin SCT T = sum_i (a_i + b_i T) sin(sum_j n_ij F_j(T)) / 10^4     (arc seconds)
     |nut_raw sin SCT T - (a_0 + b_0 T) sin(Omega(T)) / 10^4| <= sum_{i>=1} (|a_i| + 20 |b_i|) / 10^4 <= 3.5
   and the same with cos / CCT / 1.5, for |T| <= 20 centuries; Omega(T) is the code's own node
   polynomial, which stays within 0.01 degree of Moon.longitude_mean_ascending_node's polynomial. *)
From Coq Require Import Reals ZArith List Bool Lra Lia.
From Interval Require Import Tactic.
From PyLib Require Import PyVal PyBuiltins Ideal PyEval.
From Spec Require Import AngleSpec.
From Gen Require Import M_base M_Angle M_Epoch M_Interpolation M_Coordinates.
From Proofs.C08 Require Import C08_base C08_nut_angle C08_nut_loop C08_nut_main C08_node.
Import ListNotations.
Open Scope R_scope.

(* ------------------------------------------------------------------ sums over an index range *)
Fixpoint bigsum (x : nat -> R) (k n : nat) : R :=
  match n with O => 0 | S n' => x k + bigsum x (S k) n' end.

Lemma fold_acc_bigsum (g : R -> R) (c a : nat -> R) : forall n k d0,
  fold_left (fun d i => acc_of g d (c i) (a i)) (seq k n) d0
  = d0 + bigsum (fun i => c i * g (a i * (PI / 180)) / Rlit 100000 (-1)) k n.
Proof.
  induction n as [|n IH]; intros k d0; simpl.
  - lra.
  - rewrite IH. unfold acc_of. lra.
Qed.

Lemma bigsum_ext x y : forall n k, (forall i, (k <= i < k + n)%nat -> x i = y i) -> bigsum x k n = bigsum y k n.
Proof.
  induction n as [|n IH]; intros k H; simpl; [reflexivity|].
  rewrite (H k) by lia. f_equal. apply IH. intros i Hi. apply H. lia.
Qed.

Lemma bigsum_abs_le x y : forall n k, (forall i, (k <= i < k + n)%nat -> Rabs (x i) <= y i) ->
  Rabs (bigsum x k n) <= bigsum y k n.
Proof.
  induction n as [|n IH]; intros k H; simpl.
  - rewrite Rabs_R0. lra.
  - eapply Rle_trans; [apply Rabs_triang|]. apply Rplus_le_compat.
    + apply H. lia.
    + apply IH. intros i Hi. apply H. lia.
Qed.

(* ------------------------------------------------------------------ the argument of a row *)
(* sum_j n_ij F_j(T), with the unreduced polynomials F = (D, M, M', F, Omega) *)
Definition dotrow (t : R) (i : nat) : R :=
  IZR (Nij i 0) * polyD t + IZR (Nij i 1) * polyM t + IZR (Nij i 2) * polyM' t
  + IZR (Nij i 3) * polyF t + IZR (Nij i 4) * polyO t.

Lemma c360_refl x : AngleSpec.cong360 x x.
Proof. apply cong360_refl. Qed.
Lemma c360_red x y : AngleSpec.cong360 x y -> AngleSpec.cong360 (red360 x) y.
Proof. intro H. eapply cong360_trans; [apply cong360_sym; apply red360_cong | exact H]. Qed.
Lemma c360_add a b c d : AngleSpec.cong360 a b -> AngleSpec.cong360 c d -> AngleSpec.cong360 (a + c) (b + d).
Proof. intros [n Hn] [m Hm]. exists (n + m)%Z. rewrite plus_IZR. lra. Qed.
Lemma c360_mulZ k a b : AngleSpec.cong360 a b -> AngleSpec.cong360 (a * IZR k) (IZR k * b).
Proof. intros [n Hn]. exists (k * n)%Z. rewrite mult_IZR, Hn. ring. Qed.

(* one step: skipped (multiplier 0) or  a := red(a + red(red(F_j) * n)) *)
Lemma arg_step_cong t i jj a a' F : nth jj (FL t) 0 = red360 F ->
  AngleSpec.cong360 a a' ->
  AngleSpec.cong360 (arg_step (Nij i) (Uij t i) a jj) (a' + IZR (Nij i jj) * F).
Proof.
  intros HF Ha. unfold arg_step. destruct (Z.eqb_spec (Nij i jj) 0) as [E|E].
  - rewrite E. replace (a' + 0 * F) with a' by ring. exact Ha.
  - unfold Uij. rewrite HF.
    apply c360_red. apply c360_add; [exact Ha|]. apply c360_red. apply c360_mulZ.
    apply c360_red. apply c360_refl.
Qed.

Lemma argrow_cong t i : AngleSpec.cong360 (argrow t i) (dotrow t i).
Proof.
  unfold argrow, row_arg, dotrow. simpl seq. simpl fold_left.
  assert (AngleSpec.cong360 (Rlit 0 (-1)) 0) as H0.
  { replace (Rlit 0 (-1)) with 0 by (unfold Rlit; simpl; lra). apply c360_refl. }
  pose proof (arg_step_cong t i 0 _ _ _ eq_refl H0) as H1.
  pose proof (arg_step_cong t i 1 _ _ _ eq_refl H1) as H2.
  pose proof (arg_step_cong t i 2 _ _ _ eq_refl H2) as H3.
  pose proof (arg_step_cong t i 3 _ _ _ eq_refl H3) as H4.
  pose proof (arg_step_cong t i 4 _ _ _ eq_refl H4) as H5.
  simpl nth in H5.
  replace (IZR (Nij i 0) * polyD t + IZR (Nij i 1) * polyM t + IZR (Nij i 2) * polyM' t +
           IZR (Nij i 3) * polyF t + IZR (Nij i 4) * polyO t)
    with (0 + IZR (Nij i 0) * polyD t + IZR (Nij i 1) * polyM t + IZR (Nij i 2) * polyM' t +
          IZR (Nij i 3) * polyF t + IZR (Nij i 4) * polyO t) by ring.
  exact H5.
Qed.

(* ------------------------------------------------------------------ closed form *)
Definition nut_term (g : R -> R) (CT : list (R * R)) (t : R) (i : nat) : R :=
  (coefA CT i + coefB CT i * t) * g (dotrow t i * (PI / 180)) / 10000.

Lemma lit10000 : Rlit 100000 (-1) = 10000.
Proof. unfold Rlit. simpl. lra. Qed.
Lemma lit0' : Rlit 0 (-1) = 0.
Proof. unfold Rlit. simpl. lra. Qed.

Theorem nut_raw_sin_closed t : nut_raw sin SCT t = bigsum (nut_term sin SCT t) 0 (length SCT).
Proof.
  unfold nut_raw.
  rewrite (fold_acc_bigsum sin (fun i => coefA SCT i + coefB SCT i * t) (argrow t)), lit0', Rplus_0_l.
  apply bigsum_ext. intros i _. unfold nut_term. rewrite lit10000.
  rewrite (sin_cong _ _ (argrow_cong t i)). reflexivity.
Qed.
Theorem nut_raw_cos_closed t : nut_raw cos CCT t = bigsum (nut_term cos CCT t) 0 (length CCT).
Proof.
  unfold nut_raw.
  rewrite (fold_acc_bigsum cos (fun i => coefA CCT i + coefB CCT i * t) (argrow t)), lit0', Rplus_0_l.
  apply bigsum_ext. intros i _. unfold nut_term. rewrite lit10000.
  rewrite (cos_cong _ _ (argrow_cong t i)). reflexivity.
Qed.

(* ------------------------------------------------------------------ amplitude bounds *)
Lemma SCT_length : length SCT = 63%nat.
Proof. lazy -[Rlit]. reflexivity. Qed.
Lemma CCT_length : length CCT = 49%nat.
Proof. lazy -[Rlit]. reflexivity. Qed.

(* row 0 of the argument table is (0, 0, 0, 0, 1): its argument is the node polynomial *)
Lemma dotrow_0 t : dotrow t 0 = polyO t.
Proof.
  unfold dotrow.
  change (Nij 0 0) with 0%Z. change (Nij 0 1) with 0%Z. change (Nij 0 2) with 0%Z.
  change (Nij 0 3) with 0%Z. change (Nij 0 4) with 1%Z. ring.
Qed.

Definition rest_bound (CT : list (R * R)) (i : nat) : R :=
  (Rabs (coefA CT i) + Rabs (coefB CT i) * 20) / 10000.

Lemma term_le_bound (g : R -> R) CT t i : (forall x, Rabs (g x) <= 1) -> Rabs t <= 20 ->
  Rabs (nut_term g CT t i) <= rest_bound CT i.
Proof.
  intros Hg Ht. unfold nut_term, rest_bound.
  unfold Rdiv. rewrite Rabs_mult, (Rabs_right (/ 10000)) by lra.
  apply Rmult_le_compat_r; [lra|].
  rewrite Rabs_mult.
  assert (Rabs (coefA CT i + coefB CT i * t) <= Rabs (coefA CT i) + Rabs (coefB CT i) * 20) as H1.
  { eapply Rle_trans; [apply Rabs_triang|]. apply Rplus_le_compat_l.
    rewrite Rabs_mult. apply Rmult_le_compat_l; [apply Rabs_pos | exact Ht]. }
  pose proof (Hg (dotrow t i * (PI * / 180))) as H2.
  pose proof (Rabs_pos (coefA CT i + coefB CT i * t)). pose proof (Rabs_pos (g (dotrow t i * (PI * / 180)))).
  nra.
Qed.

Ltac table_num := lazy -[Rlit Rabs Rplus Rmult Rdiv Rinv Rminus Ropp Rle IZR]; Rlit_norm; interval.

Lemma sine_rest_bound : bigsum (rest_bound SCT) 1 62 <= 225 / 100.
Proof. Time table_num. Qed.
Lemma cosine_rest_bound : bigsum (rest_bound CCT) 1 48 <= 89 / 100.
Proof. Time table_num. Qed.

(* ------------------------------------------------------------------ main term + remainder *)
Lemma bigsum_head x k n : bigsum x k (S n) = x k + bigsum x (S k) n.
Proof. reflexivity. Qed.

Definition main_psi (t omega : R) : R := (-171996 - 1742 / 10 * t) * sin (omega * (PI / 180)) / 10000.
Definition main_eps (t omega : R) : R := (92025 + 89 / 10 * t) * cos (omega * (PI / 180)) / 10000.

Lemma sine_row0 : coefA SCT 0 = -171996 /\ coefB SCT 0 = - (1742 / 10).
Proof. split; lazy -[Rlit Rplus Rmult Rdiv Rinv Rminus Ropp IZR]; Rlit_norm; lra. Qed.
Lemma cosine_row0 : coefA CCT 0 = 92025 /\ coefB CCT 0 = 89 / 10.
Proof. split; lazy -[Rlit Rplus Rmult Rdiv Rinv Rminus Ropp IZR]; Rlit_norm; lra. Qed.

Lemma abs_sin_1 x : Rabs (sin x) <= 1.
Proof. pose proof (SIN_bound x). unfold Rabs. destruct (Rcase_abs _); lra. Qed.
Lemma abs_cos_1 x : Rabs (cos x) <= 1.
Proof. pose proof (COS_bound x). unfold Rabs. destruct (Rcase_abs _); lra. Qed.

(* the series minus its first row is bounded by the sum of the remaining amplitudes *)
Theorem nutation_longitude_remainder t : Rabs t <= 20 ->
  Rabs (nut_raw sin SCT t - main_psi t (polyO t)) <= 225 / 100.
Proof.
  intro Ht. rewrite nut_raw_sin_closed, SCT_length, bigsum_head.
  assert (nut_term sin SCT t 0 = main_psi t (polyO t)) as ->.
  { unfold nut_term, main_psi. destruct sine_row0 as [-> ->]. rewrite dotrow_0. lra. }
  match goal with |- Rabs (?a + ?b - ?a) <= _ => replace (a + b - a) with b by ring end.
  eapply Rle_trans; [|exact sine_rest_bound].
  apply bigsum_abs_le. intros i _. apply term_le_bound; [exact abs_sin_1 | exact Ht].
Qed.
Theorem nutation_obliquity_remainder t : Rabs t <= 20 ->
  Rabs (nut_raw cos CCT t - main_eps t (polyO t)) <= 89 / 100.
Proof.
  intro Ht. rewrite nut_raw_cos_closed, CCT_length, bigsum_head.
  assert (nut_term cos CCT t 0 = main_eps t (polyO t)) as ->.
  { unfold nut_term, main_eps. destruct cosine_row0 as [-> ->]. rewrite dotrow_0. lra. }
  match goal with |- Rabs (?a + ?b - ?a) <= _ => replace (a + b - a) with b by ring end.
  eapply Rle_trans; [|exact cosine_rest_bound].
  apply bigsum_abs_le. intros i _. apply term_le_bound; [exact abs_cos_1 | exact Ht].
Qed.

(* ------------------------------------------------------------------ the Moon module's node *)
(* the node polynomial inside the nutation functions is C08_node.node_nutation (same term) *)
Lemma polyO_is_node_nutation t : polyO t = node_nutation t.
Proof. reflexivity. Qed.

Lemma abs_sin_le z : Rabs (sin z) <= Rabs z.
Proof.
  assert (forall u, 0 < u -> Rabs (sin u) <= u) as Hpos.
  { intros u Hu. destruct (Rle_dec 1 u) as [H1|H1].
    - eapply Rle_trans; [apply abs_sin_1 | exact H1].
    - assert (0 < sin u) by (apply sin_gt_0; [lra | pose proof PI2_3_2; lra]).
      rewrite Rabs_right by lra. left. apply sin_lt_x. exact Hu. }
  destruct (Rtotal_order z 0) as [N|[Z|P]].
  - rewrite <- (Ropp_involutive z) at 1. rewrite sin_neg, Rabs_Ropp, (Rabs_left z) by lra. apply Hpos. lra.
  - subst. rewrite sin_0, Rabs_R0. lra.
  - rewrite (Rabs_right z) by lra. apply Hpos. exact P.
Qed.
Lemma sin_lip x y : Rabs (sin x - sin y) <= Rabs (x - y).
Proof.
  rewrite form4. rewrite !Rabs_mult, (Rabs_right 2) by lra.
  pose proof (abs_cos_1 ((x + y) / 2)). pose proof (abs_sin_le ((x - y) / 2)) as H2.
  replace (Rabs ((x - y) / 2)) with (Rabs (x - y) / 2) in H2
    by (unfold Rdiv; rewrite Rabs_mult, (Rabs_right (/ 2)) by lra; reflexivity).
  pose proof (Rabs_pos (sin ((x - y) / 2))). pose proof (Rabs_pos (cos ((x + y) / 2))). nra.
Qed.
Lemma cos_lip x y : Rabs (cos x - cos y) <= Rabs (x - y).
Proof.
  rewrite form2. rewrite !Rabs_mult. assert (Rabs (-2) = 2) as -> by (rewrite Rabs_left; lra).
  pose proof (abs_sin_1 ((x + y) / 2)). pose proof (abs_sin_le ((x - y) / 2)) as H2.
  replace (Rabs ((x - y) / 2)) with (Rabs (x - y) / 2) in H2
    by (unfold Rdiv; rewrite Rabs_mult, (Rabs_right (/ 2)) by lra; reflexivity).
  pose proof (Rabs_pos (sin ((x - y) / 2))). pose proof (Rabs_pos (sin ((x + y) / 2))). nra.
Qed.

Lemma Rabs_le_iff x b : Rabs x <= b <-> - b <= x <= b.
Proof. unfold Rabs. destruct (Rcase_abs x); split; intros; lra. Qed.

(* replacing the code's node by the Moon module's node moves the main terms by < 0.001 arcsec *)
Lemma main_psi_nodes t : Rabs t <= 20 ->
  Rabs (main_psi t (polyO t) - main_psi t (node_moon t)) <= 1 / 1000.
Proof.
  intro Ht. pose proof (proj1 (Rabs_le_iff _ _) Ht) as Hb.
  pose proof (node_agreement t Hb) as Hn. rewrite <- polyO_is_node_nutation in Hn.
  pose proof (sin_lip (polyO t * (PI / 180)) (node_moon t * (PI / 180))) as HL.
  replace (polyO t * (PI / 180) - node_moon t * (PI / 180)) with ((polyO t - node_moon t) * (PI / 180)) in HL by ring.
  rewrite Rabs_mult, (Rabs_right (PI / 180)) in HL by (pose proof PI_RGT_0; lra).
  unfold main_psi.
  set (sa := sin (polyO t * (PI / 180))) in *. set (sb := sin (node_moon t * (PI / 180))) in *.
  replace ((-171996 - 1742 / 10 * t) * sa / 10000 - (-171996 - 1742 / 10 * t) * sb / 10000)
    with ((-171996 - 1742 / 10 * t) / 10000 * (sa - sb)) by field.
  rewrite Rabs_mult.
  assert (Rabs ((-171996 - 1742 / 10 * t) / 10000) <= 18) as Hc by (apply Rabs_le_iff; lra).
  assert (Rabs (sa - sb) <= 24 / 10000 * (4 / 180)) as Hs.
  { eapply Rle_trans; [exact HL|]. pose proof PI_4. pose proof PI_RGT_0.
    pose proof (Rabs_pos (polyO t - node_moon t)). nra. }
  pose proof (Rabs_pos (sa - sb)). pose proof (Rabs_pos ((-171996 - 1742 / 10 * t) / 10000)). nra.
Qed.
Lemma main_eps_nodes t : Rabs t <= 20 ->
  Rabs (main_eps t (polyO t) - main_eps t (node_moon t)) <= 1 / 1000.
Proof.
  intro Ht. pose proof (proj1 (Rabs_le_iff _ _) Ht) as Hb.
  pose proof (node_agreement t Hb) as Hn. rewrite <- polyO_is_node_nutation in Hn.
  pose proof (cos_lip (polyO t * (PI / 180)) (node_moon t * (PI / 180))) as HL.
  replace (polyO t * (PI / 180) - node_moon t * (PI / 180)) with ((polyO t - node_moon t) * (PI / 180)) in HL by ring.
  rewrite Rabs_mult, (Rabs_right (PI / 180)) in HL by (pose proof PI_RGT_0; lra).
  unfold main_eps.
  set (sa := cos (polyO t * (PI / 180))) in *. set (sb := cos (node_moon t * (PI / 180))) in *.
  replace ((92025 + 89 / 10 * t) * sa / 10000 - (92025 + 89 / 10 * t) * sb / 10000)
    with ((92025 + 89 / 10 * t) / 10000 * (sa - sb)) by field.
  rewrite Rabs_mult.
  assert (Rabs ((92025 + 89 / 10 * t) / 10000) <= 10) as Hc by (apply Rabs_le_iff; lra).
  assert (Rabs (sa - sb) <= 24 / 10000 * (4 / 180)) as Hs.
  { eapply Rle_trans; [exact HL|]. pose proof PI_4. pose proof PI_RGT_0.
    pose proof (Rabs_pos (polyO t - node_moon t)). nra. }
  pose proof (Rabs_pos (sa - sb)). pose proof (Rabs_pos ((92025 + 89 / 10 * t) / 10000)). nra.
Qed.

(* ------------------------------------------------------------------ the property's clauses *)
Lemma main_psi_abs t om : Rabs t <= 20 -> Rabs (main_psi t om) <= 18.
Proof.
  intro Ht. apply Rabs_le_iff in Ht. unfold main_psi. pose proof (SIN_bound (om * (PI / 180))).
  set (s := sin _) in *. apply Rabs_le_iff. split; nra.
Qed.
Lemma main_eps_abs t om : Rabs t <= 20 -> Rabs (main_eps t om) <= 10.
Proof.
  intro Ht. apply Rabs_le_iff in Ht. unfold main_eps. pose proof (COS_bound (om * (PI / 180))).
  set (s := cos _) in *. apply Rabs_le_iff. split; nra.
Qed.

(* nutation in longitude: an Angle of dpsi arc seconds, within 3.5'' (in fact 2.26'') of the
   18.6-year main term built on the Moon module's mean node, for |T| <= 20 centuries *)
Theorem nutation_longitude_clause j : Rabs (Tc j) <= 20 ->
  exists dpsi, f_nutation_longitude Rops (VTuple [epo j]) (VDict []) = ang (dpsi / 3600) /\
               dpsi = nut_raw sin SCT (Tc j) /\
               Rabs (dpsi - main_psi (Tc j) (node_moon (Tc j))) <= 35 / 10.
Proof.
  intro Ht. exists (nut_raw sin SCT (Tc j)).
  pose proof (nutation_longitude_remainder _ Ht) as H1. pose proof (main_psi_nodes _ Ht) as H2.
  pose proof (main_psi_abs _ (polyO (Tc j)) Ht) as H3.
  apply Rabs_le_iff in H1. apply Rabs_le_iff in H2. apply Rabs_le_iff in H3.
  split; [|split; [reflexivity | apply Rabs_le_iff; lra]].
  rewrite nutation_longitude_struct. apply Angle_dms_sec.
  apply Rabs_def1; lra.
Qed.
Theorem nutation_obliquity_clause j : Rabs (Tc j) <= 20 ->
  exists deps, f_nutation_obliquity Rops (VTuple [epo j]) (VDict []) = ang (deps / 3600) /\
               deps = nut_raw cos CCT (Tc j) /\
               Rabs (deps - main_eps (Tc j) (node_moon (Tc j))) <= 15 / 10.
Proof.
  intro Ht. exists (nut_raw cos CCT (Tc j)).
  pose proof (nutation_obliquity_remainder _ Ht) as H1. pose proof (main_eps_nodes _ Ht) as H2.
  pose proof (main_eps_abs _ (polyO (Tc j)) Ht) as H3.
  apply Rabs_le_iff in H1. apply Rabs_le_iff in H2. apply Rabs_le_iff in H3.
  split; [|split; [reflexivity | apply Rabs_le_iff; lra]].
  rewrite nutation_obliquity_struct. apply Angle_dms_sec.
  apply Rabs_def1; lra.
Qed.
