(* C08, ideal instance: the Earth callee of the reflection / rectangular theorems, characterised
   from property C07's theorems (imported: VSOP87 evaluator = direct sum over any tables, FK5
   correction, amplitude envelope of the Earth's latitude series read from the regenerated
   table).  Consequences:
   - the hypothesis "Earth.geometric_heliocentric_position returns (Angle, Angle, float) with
     stored degrees in (-360, 360)" of the reflection theorems is satisfied by what the model
     really returns, for every epoch in years -2000 .. 6000, with |latitude| <= 0.00065 degree;
   - the of-date rectangular coordinates have norm r to 2e-10 (relative), unconditionally. *)
From Coq Require Import Reals ZArith List Bool Lra Lia.
From Interval Require Import Tactic.
From PyLib Require Import PyVal PyBuiltins Ideal Whnf PyEval.
From Spec Require AngleSpec.
From Gen Require Import M_base M_Angle M_Epoch M_Interpolation M_Coordinates M_Earth M_Sun.
From Proofs.C07 Require C07_defs C07_lib C07_angle C07_series C07_corr C07_mono C07_dec
  C07_mono_code C07_mono_earth.
From Proofs.C08 Require Import C08_base C08_obliquity C08_sun.
Import ListNotations.
Open Scope R_scope.

(* the wrapper: Earth.geometric_heliocentric_position = geometric_vsop_pos on the Earth's tables *)
Lemma earth_wrapper jde flag :
  Earth_geometric_heliocentric_position Rops (VObj cEpoch [VFloat jde]) (VBool flag) =
  f_geometric_vsop_pos Rops (VObj cEpoch [VFloat jde]) (g_VSOP87_L Rops) (g_VSOP87_B Rops)
    (g_VSOP87_R Rops) (VBool flag).
Proof. reflexivity. Qed.

(* amplitude sum of the Earth's latitude series, |t| <= 4 millennia: 1.08671e-5 rad = 2.24 arcsec *)
Lemma nB_small : IZR C07_mono_earth.nB / IZR (10 ^ 23) <= 11 / 1000000.
Proof.
  apply Rmult_le_reg_r with (IZR (10 ^ 23)); [apply IZR_lt; reflexivity|].
  unfold Rdiv. rewrite Rmult_assoc, Rinv_l by (apply not_0_IZR; discriminate).
  rewrite Rmult_1_r.
  replace (11 * / 1000000 * IZR (10 ^ 23)) with (IZR (11 * 10 ^ 17)).
  - apply IZR_le. vm_compute. discriminate.
  - rewrite mult_IZR. change (10 ^ 23)%Z with (10 ^ 17 * 1000000)%Z. rewrite (mult_IZR (10 ^ 17)). field.
Qed.

Definition jde_lo : R := C07_mono_code.jde_lo.   (* 2451545 - 1461000: year -2000 *)
Definition jde_hi : R := C07_mono_code.jde_hi.   (* 2451545 + 1461000: year  6000 *)

Theorem earth_geometric_shape jde : jde_lo <= jde <= jde_hi ->
  exists L B R,
    Earth_geometric_heliocentric_position Rops (VObj cEpoch [VFloat jde]) (VBool true) =
      VTuple [ang L; ang B; VFloat R] /\
    0 <= L < 360 /\ Rabs B <= 65 / 100000.
Proof.
  intros Hj.
  destruct C07_mono_earth.earth_envelope_partial as (TL & TB & TR & Hv & Hb).
  destruct (Hb jde Hj) as [HB _]. specialize (Hv jde).
  set (b := C07_mono_code.useries TB jde) in *.
  set (lon := AngleSpec.pos360 (AngleSpec.red360 (C07_mono_code.ulon TL jde))) in *.
  set (r := C07_mono_code.useries TR jde) in *.
  assert (Hb1 : Rabs b <= 11 / 1000000) by (eapply Rle_trans; [exact HB | exact nB_small]).
  apply Rabs_le_bounds in Hb1.
  assert (Hdeg : -63 / 100000 <= b * (180 / PI) <= 63 / 100000) by (split; interval).
  assert (Hred : AngleSpec.red360 (b * (180 / PI)) = b * (180 / PI)).
  { apply AngleSpec.red360_small. apply Rabs_def1; lra. }
  rewrite Hred in Hv.
  (* the tables as lists of values, as C07_corr states its theorems *)
  assert (Hlat : Rabs (tan (b * (180 / PI) * (PI / 180))) <= 500).
  { replace (b * (180 / PI) * (PI / 180)) with b by (field; apply PI_neq0).
    apply Rabs_le. split; interval. }
  pose proof (C07_corr.fk5_size jde lon (b * (180 / PI))) as [_ Hd].
  assert (Hs2 : sqrt 2 <= 15 / 10) by interval.
  assert (Hd' : Rabs (C07_corr.fk5_dlat jde lon) <= 2 / 100000).
  { replace (C07_corr.fk5_dlat jde lon) with (C07_corr.fk5_dlat jde lon * 3600 / 3600) by field.
    unfold Rdiv at 1. rewrite Rabs_mult, (Rabs_right (/ 3600)) by lra.
    apply Rabs_le_bounds in Hd. apply Rle_trans with (3916 / 100000 * sqrt 2 * / 3600).
    - apply Rmult_le_compat_r; [lra|]. apply Rabs_le. lra.
    - nra. }
  apply Rabs_le_bounds in Hd'.
  assert (Hred2 : AngleSpec.red360 (b * (180 / PI) + C07_corr.fk5_dlat jde lon)
                  = b * (180 / PI) + C07_corr.fk5_dlat jde lon).
  { apply AngleSpec.red360_small. apply Rabs_def1; lra. }
  exists (AngleSpec.pos360 (AngleSpec.red360 (lon + C07_corr.fk5_dlon jde lon (b * (180 / PI))))),
         (b * (180 / PI) + C07_corr.fk5_dlat jde lon), r.
  split; [|split].
  - rewrite earth_wrapper.
    unfold C07_lib.enc_table in Hv.
    pose proof (C07_corr.geometric_fk5 jde lon (b * (180 / PI)) r _ _ _ Hv Hlat) as G.
    rewrite Hred2 in G. exact G.
  - apply AngleSpec.pos360_range. apply AngleSpec.red360_range.
  - apply Rabs_le. lra.
Qed.

(* the reflection theorem with its hypothesis discharged (geometric position, FK5 correction on) *)
Theorem sun_geometric_unconditional jde : jde_lo <= jde <= jde_hi ->
  exists L B R,
    Earth_geometric_heliocentric_position Rops (VObj cEpoch [VFloat jde]) (VBool true) =
      VTuple [ang L; ang B; VFloat R] /\
    Sun_geometric_geocentric_position Rops (VObj cEpoch [VFloat jde]) (VBool true) =
      VTuple [ang (reflect_lon L); ang (- B); VFloat R] /\
    0 <= L < 360 /\ Rabs B <= 65 / 100000.
Proof.
  intros Hj. destruct (earth_geometric_shape jde Hj) as (L & B & R & He & HL & HB).
  exists L, B, R. split; [exact He|]. split; [|split; assumption].
  apply Rabs_le_bounds in HB.
  apply (sun_geometric_reflected jde L B R true); [lra | lra | exact He].
Qed.

(* of-date rectangular coordinates: the norm is the radius vector to 2e-10 (relative), with no
   assumption (years -2000 .. 6000) *)
Theorem sun_rect_of_date_norm_unconditional jde : Rabs (uj jde) <= 0.4 ->
  exists lon lat R x y z,
    Sun_geometric_geocentric_position Rops (VObj cEpoch [VFloat jde]) (VBool true) =
      VTuple [ang lon; ang lat; VFloat R] /\
    Sun_rectangular_coordinates_mean_equinox Rops (VObj cEpoch [VFloat jde]) =
      VTuple [VFloat x; VFloat y; VFloat z] /\
    R * R <= x * x + y * y + z * z <= R * R * (1 + 4 / 10000000000).
Proof.
  intros Hu.
  assert (Hj : jde_lo <= jde <= jde_hi).
  { apply Rabs_le_bounds in Hu. unfold uj in Hu.
    unfold jde_lo, jde_hi, C07_mono_code.jde_lo, C07_mono_code.jde_hi.
    assert (-1461000 <= jde - 2451545 <= 1461000).
    { replace (jde - 2451545) with ((jde - 2451545) / 3652500 * 3652500) by field. split; nra. }
    lra. }
  destruct (sun_geometric_unconditional jde Hj) as (L & B & R & _ & Hs & _ & HB).
  pose proof (mean_obliquity_poly jde Hu) as Hm.
  destruct (sun_rect_of_date jde (reflect_lon L) (- B) R _ Hs Hm) as (x & y & z & Hr & Hn).
  exists (reflect_lon L), (- B), R, x, y, z. split; [exact Hs|]. split; [exact Hr|].
  rewrite Hn. apply Rabs_le_bounds in HB.
  pose proof (sin_sq_small (- B) ltac:(lra)) as Hsq.
  set (q := sin (- B * (PI / 180)) * sin (- B * (PI / 180))) in *.
  assert (0 <= q) by (unfold q; apply Rle_0_sqr).
  assert (0 <= R * R) by apply Rle_0_sqr.
  split; nra.
Qed.
