(* C08, ideal (real-number) instance: facts about the generated Angle class used by the
   obliquity / nutation / Sun lemmas.  Everything is proved by symbolic evaluation of the
   generated text (pyrun) followed by real arithmetic. *)
From Coq Require Import Reals ZArith List Bool Lra Lia String.
From PyLib Require Import PyVal PyBuiltins Ideal PyEval.
From Gen Require Import M_base M_Angle.
Import ListNotations.
Open Scope R_scope.

Definition tol0 : R := Rlit 1 (-10).
Definition ang (d : R) : val R := VObj cAngle [VFloat d; VFloat tol0].
Definition blank : val R := VObj cAngle [VNone; VNone].

Lemma ang_ext a b : a = b -> VObj cAngle [VFloat a; VFloat (Rlit 1 (-10))] = ang b.
Proof. intros ->. reflexivity. Qed.

(* decision tactic for pyrun: closed integer sub-terms are computed, closed real tests folded *)
Ltac zclosed :=
  repeat match goal with
  | |- context [IZR ?z] =>
      lazymatch z with Z0 => fail | Zpos _ => fail | Zneg _ => fail | _ => idtac end;
      let z' := eval vm_compute in z in
      lazymatch z' with Z0 => idtac | Zpos _ => idtac | Zneg _ => idtac end;
      change z with z'
  end.
Ltac ifclosed :=
  repeat match goal with
  | |- context [Rltb ?a ?b] =>
      first [ rewrite (proj2 (Rltb_false a b)) by lra | rewrite (proj2 (Rltb_true a b)) by lra ]
  end.
Ltac mylra := first [ assumption | zclosed; ifclosed; pylra ].
Ltac myrun := pyrunv_using mylra.

Lemma Rtrunc_nonneg x : 0 <= x -> Rtrunc x = Rfloor x.
Proof. intro H. unfold Rtrunc. destruct (Rlt_dec x 0); [lra | reflexivity]. Qed.

Lemma Rfloor_nonneg x : 0 <= x -> 0 <= IZR (Rfloor x).
Proof.
  intro H. destruct (Rfloor_spec x). apply IZR_le. apply Zlt_succ_le. apply lt_IZR.
  rewrite succ_IZR. lra.
Qed.

(* Angle(a) for a already in (-360, 360) *)
Lemma Angle_new_small a : -360 < a < 360 ->
  Angle___init__ Rops blank (VTuple [VFloat a]) (VDict []) = ang a.
Proof. intros Ha. pyrun. reflexivity. Qed.

(* congruence modulo a full turn *)
Definition cong360 (a b : R) : Prop := exists n : Z, a = b + 360 * IZR n.

Lemma cong360_refl a : cong360 a a.
Proof. exists 0%Z. lra. Qed.
Lemma cong360_trans a b c : cong360 a b -> cong360 b c -> cong360 a c.
Proof. intros [n Hn] [m Hm]. exists (n + m)%Z. rewrite plus_IZR. lra. Qed.
Lemma cong360_sym a b : cong360 a b -> cong360 b a.
Proof. intros [n Hn]. exists (- n)%Z. rewrite opp_IZR. lra. Qed.
Lemma cong360_add a b c d : cong360 a b -> cong360 c d -> cong360 (a + c) (b + d).
Proof. intros [n Hn] [m Hm]. exists (n + m)%Z. rewrite plus_IZR. lra. Qed.
Lemma cong360_mulZ k a b : cong360 a b -> cong360 (IZR k * a) (IZR k * b).
Proof. intros [n Hn]. exists (k * n)%Z. rewrite mult_IZR. rewrite Hn. ring. Qed.
Lemma cong360_opp a b : cong360 a b -> cong360 (- a) (- b).
Proof. intros [n Hn]. exists (- n)%Z. rewrite opp_IZR. lra. Qed.

(* Angle(0, 0, s): s arc seconds, |s| < 3600 *)
Lemma Angle_dms_sec s : Rabs s < 3600 ->
  Angle___init__ Rops blank (VTuple [VInt 0; VInt 0; VFloat s]) (VDict []) = ang (s / 3600).
Proof.
  intros Hs. destruct (Rlt_dec (Rabs s) 60) as [Ha|Ha].
  - destruct (Rlt_dec s 0).
    + myrun. apply ang_ext. zclosed. Rlit_norm. rewrite Rabs_left by lra. field.
    + myrun. apply ang_ext. zclosed. Rlit_norm. rewrite Rabs_right by lra. field.
  - assert (Ha' : 60 <= Rabs s < 3600) by lra. clear Ha Hs.
    assert (Hq : Rabs s / Rlit 600 (-1) = Rabs s / 60) by (Rlit_norm; field).
    assert (Hz : (Z.abs 0 + Rtrunc (Rabs s / Rlit 600 (-1)) = Rfloor (Rabs s / 60))%Z).
    { rewrite Hq. rewrite Rtrunc_nonneg by lra. reflexivity. }
    destruct (Rfloor_spec (Rabs s / 60)) as [Hf1 Hf2].
    assert (Hm : IZR (Z.abs 0 + Rtrunc (Rabs s / Rlit 600 (-1))) < Rlit 600 (-1)).
    { rewrite Hz. Rlit_norm. lra. }
    assert (Hm0 : 0 <= IZR (Z.abs 0 + Rtrunc (Rabs s / Rlit 600 (-1)))).
    { rewrite Hz. apply Rfloor_nonneg. lra. }
    assert (HF : Rfmod (Rabs s) 60 = Rabs s - 60 * IZR (Rfloor (Rabs s / 60))).
    { unfold Rfmod. rewrite Rtrunc_nonneg by lra. reflexivity. }
    assert (HF1 : 0 <= Rfmod (Rabs s) 60 < 60) by (rewrite HF; lra).
    destruct (Rlt_dec s 0); destruct (Req_dec (Rfmod (Rabs s) 60) 0) as [H0|H0].
    + myrun. apply ang_ext. rewrite Hz. ifclosed. zclosed. Rlit_norm. rewrite H0 in HF.
      rewrite Rabs_left in HF |- * by lra. lra.
    + assert (0 < Rfmod (Rabs s) 60) by lra. myrun. apply ang_ext. rewrite Hz. zclosed. Rlit_norm.
      rewrite HF. rewrite Rabs_left by lra. lra.
    + myrun. apply ang_ext. rewrite Hz. ifclosed. zclosed. Rlit_norm. rewrite H0 in HF.
      rewrite Rabs_right in HF |- * by lra. lra.
    + assert (0 < Rfmod (Rabs s) 60) by lra. myrun. apply ang_ext. rewrite Hz. zclosed. Rlit_norm.
      rewrite HF. rewrite Rabs_right by lra. lra.
Qed.

Lemma Angle_rad_ang d : Angle_rad Rops (ang d) = VFloat (d * (PI / 180)).
Proof. pyrun. reflexivity. Qed.

Lemma Angle_to_positive_nonneg a : 0 <= a ->
  Angle_to_positive Rops (ang a) = VTuple [ang a; ang a].
Proof. intros Ha. pyrun. reflexivity. Qed.

Lemma Angle_to_positive_neg a : -360 < a < 0 ->
  Angle_to_positive Rops (ang a) = VTuple [ang (360 + a); ang (360 + a)].
Proof.
  intros Ha. pyrun. Rlit_norm. unfold ang, tol0.
  assert (3600 / 10 - Rabs a = 360 + a) as -> by (rewrite Rabs_left by lra; lra).
  reflexivity.
Qed.

(* the positive representative of an angle in (-360, 360) *)
Definition topos (a : R) : R := if Rlt_dec a 0 then 360 + a else a.

Lemma Angle_to_positive_ang a : -360 < a < 360 ->
  Angle_to_positive Rops (ang a) = VTuple [ang (topos a); ang (topos a)].
Proof.
  intros Ha. unfold topos. destruct (Rlt_dec a 0).
  - apply Angle_to_positive_neg. lra.
  - apply Angle_to_positive_nonneg. lra.
Qed.

Lemma topos_range a : -360 < a < 360 -> 0 <= topos a < 360.
Proof. intros Ha. unfold topos. destruct (Rlt_dec a 0); lra. Qed.
