(* C08: Print Assumptions of the theorems of C08.v, part 6 of 10 *)
From Proofs.C08 Require Import C08.
Redirect "C08_sun_apparent_is_earth_reflected.assumptions" Print Assumptions C08_sun_apparent_is_earth_reflected.
Redirect "C08_equinox_T_refuted.assumptions" Print Assumptions C08_equinox_T_refuted.
Redirect "C08_node_nutation_constants.assumptions" Print Assumptions C08_node_nutation_constants.
Redirect "C08_earth_j2000_callee_shape.assumptions" Print Assumptions C08_earth_j2000_callee_shape.
