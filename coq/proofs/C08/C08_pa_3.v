(* C08: Print Assumptions of the theorems of C08.v, part 4 of 10 *)
From Proofs.C08 Require Import C08.
Redirect "C08_true_obliquity_is_sum.assumptions" Print Assumptions C08_true_obliquity_is_sum.
Redirect "C08_equinox_angles.assumptions" Print Assumptions C08_equinox_angles.
Redirect "C08_sun_errors_propagate.assumptions" Print Assumptions C08_sun_errors_propagate.
Redirect "C08_sun_geometric_unconditional.assumptions" Print Assumptions C08_sun_geometric_unconditional.
