(* C08, ideal instance: the generated Angle constructor for ANY real argument (result: the
   symmetric reduction red360 of Spec.AngleSpec), Angle + float / Angle + Angle, and
   Angle(0, 0, s) for any |s| < 360 degrees' worth of arc seconds. *)
From Coq Require Import Reals ZArith List Bool Lra Lia String.
From PyLib Require Import PyVal PyBuiltins Ideal PyEval.
From PyLib Require IdealFacts.
From Spec Require AngleSpec.
From Gen Require Import M_base M_Angle M_Epoch.
From Proofs.C08 Require Import C08_base.
Import ListNotations.
Open Scope R_scope.

Notation red360 := AngleSpec.red360.
Notation pos360 := AngleSpec.pos360.

Lemma red360_small a : -360 < a < 360 -> red360 a = a.
Proof. intros H. apply AngleSpec.red360_small. unfold Rabs. destruct (Rcase_abs a); lra. Qed.

Lemma Angle_new_red a :
  Angle___init__ Rops blank (VTuple [VFloat a]) (VDict []) = ang (red360 a).
Proof.
  destruct (Rlt_dec (Rabs a) 360) as [Hs|Hb].
  - rewrite AngleSpec.red360_small by exact Hs.
    apply Angle_new_small. unfold Rabs in Hs. destruct (Rcase_abs a); lra.
  - assert (Hb' : 360 <= Rabs a) by lra.
    assert (Hq : Rabs a / 1 = Rabs a) by field.
    assert (HF : Rfmod (Rabs a) 1 = Rabs a - IZR (Rfloor (Rabs a))).
    { unfold Rfmod. rewrite Hq, Rtrunc_nonneg by lra. ring. }
    assert (HT : Rtrunc (Rabs a) = Rfloor (Rabs a)) by (apply Rtrunc_nonneg; lra).
    destruct (Rfloor_spec (Rabs a)) as [Hf1 Hf2].
    assert (HF1 : 0 <= Rfmod (Rabs a) 1 < 1) by (rewrite HF; lra).
    assert (Hmod : IZR (Rfloor (Rabs a) mod 360) =
                   IZR (Rfloor (Rabs a)) - 360 * IZR (AngleSpec.fl (Rabs a / 360))).
    { change (AngleSpec.fl (Rabs a / 360)) with (Rfloor (Rabs a / IZR 360)).
      rewrite IdealFacts.Rfloor_div_Z by lia.
      rewrite Z.mod_eq by lia. rewrite minus_IZR, mult_IZR. reflexivity. }
    assert (Hm1 : 0 <= IZR (Rfloor (Rabs a) mod 360) <= 359).
    { pose proof (Z.mod_pos_bound (Rfloor (Rabs a)) 360 ltac:(lia)) as [H1 H2].
      split; apply IZR_le; lia. }
    unfold AngleSpec.red360. destruct (Rlt_dec (Rabs a) 360) as [?|_]; [lra|].
    unfold AngleSpec.sgn.
    destruct (Rle_dec 0 a) as [Hpos|Hneg].
    + assert (Ha : Rabs a = a) by (apply Rabs_right; lra).
      destruct (Req_dec (Rfmod (Rabs a) 1) 0) as [H0|H0].
      * myrun. apply ang_ext. rewrite HT. ifclosed. Rlit_norm. rewrite Hmod. rewrite H0 in HF. lra.
      * assert (0 < Rfmod (Rabs a) 1) by lra. myrun. apply ang_ext. rewrite HT. Rlit_norm.
        rewrite Hmod, HF. lra.
    + assert (Ha : Rabs a = - a) by (apply Rabs_left; lra).
      assert (Hlt : a < 0) by lra.
      destruct (Req_dec (Rfmod (Rabs a) 1) 0) as [H0|H0].
      * myrun. apply ang_ext. rewrite HT. ifclosed. Rlit_norm. rewrite Hmod. rewrite H0 in HF. lra.
      * assert (0 < Rfmod (Rabs a) 1) by lra. myrun. apply ang_ext. rewrite HT. Rlit_norm.
        rewrite Hmod, HF. lra.
Qed.

Lemma red360_range a : -360 < red360 a < 360.
Proof. exact (AngleSpec.red360_range a). Qed.

(* Angle op float / Angle op Angle: one construction from the sum *)
Lemma Angle_add_float_red a x :
  Angle___add__ Rops (ang a) (VFloat x) = ang (red360 (a + x)).
Proof.
  transitivity (Angle___init__ Rops blank (VTuple [VFloat (a + x)]) (VDict [])).
  - whnf_lhs. reflexivity.
  - apply Angle_new_red.
Qed.

Lemma Angle_add_ang_red a b :
  Angle___add__ Rops (ang a) (ang b) = ang (red360 (a + b)).
Proof.
  transitivity (Angle___init__ Rops blank (VTuple [VFloat (a + b)]) (VDict [])).
  - whnf_lhs. reflexivity.
  - apply Angle_new_red.
Qed.

Lemma Angle_to_positive_red a : -360 < a < 360 ->
  Angle_to_positive Rops (ang a) = VTuple [ang (pos360 a); ang (pos360 a)].
Proof. exact (Angle_to_positive_ang a). Qed.

(* Angle(0, 0, s) for 1 degree <= |s|/3600 < 360 degrees: the seconds overflow into minutes and
   the minutes into degrees; together with Angle_dms_sec: Angle(0,0,s) = s/3600 degrees *)
Lemma Angle_dms_sec_big s : 3600 <= Rabs s < 1296000 ->
  Angle___init__ Rops blank (VTuple [VInt 0; VInt 0; VFloat s]) (VDict []) = ang (s / 3600).
Proof.
  intros Ha.
  assert (Hq : Rabs s / Rlit 600 (-1) = Rabs s / 60) by (Rlit_norm; field).
  set (m := Rfloor (Rabs s / 60)).
  assert (Hz : (Z.abs 0 + Rtrunc (Rabs s / Rlit 600 (-1)) = m)%Z).
  { rewrite Hq. rewrite Rtrunc_nonneg by lra. reflexivity. }
  destruct (Rfloor_spec (Rabs s / 60)) as [Hf1 Hf2]. fold m in Hf1, Hf2.
  assert (Hm0 : (60 <= m < 21600)%Z).
  { split.
    - apply Zlt_succ_le. apply lt_IZR. rewrite succ_IZR. lra.
    - apply lt_IZR. lra. }
  assert (Hq2 : IZR m / Rlit 600 (-1) = IZR m / IZR 60) by (Rlit_norm; field).
  assert (HzD : (Z.abs 0 + Rtrunc (IZR m / Rlit 600 (-1)) = m / 60)%Z).
  { rewrite Hq2. rewrite Rtrunc_nonneg.
    - rewrite IdealFacts.Rfloor_div_Z by lia. rewrite Rfloor_IZR. reflexivity.
    - assert (0 <= IZR m) by (apply IZR_le; lia). apply Rmult_le_pos; [lra|].
      apply Rlt_le, Rinv_0_lt_compat. lra. }
  assert (HD : (0 <= m / 60 < 360)%Z).
  { split; [apply Z.div_pos; lia | apply Z.div_lt_upper_bound; lia]. }
  assert (HDmod : ((m / 60) mod 360 = m / 60)%Z) by (apply Z.mod_small; lia).
  assert (Hmmod : IZR (m mod 60) = IZR m - 60 * IZR (m / 60)).
  { rewrite Z.mod_eq by lia. rewrite minus_IZR, mult_IZR. reflexivity. }
  assert (Hmm : (0 <= m mod 60 < 60)%Z) by (apply Z.mod_pos_bound; lia).
  assert (HF : Rfmod (Rabs s) 60 = Rabs s - 60 * IZR m).
  { unfold Rfmod. rewrite Rtrunc_nonneg by lra. reflexivity. }
  assert (HF1 : 0 <= Rfmod (Rabs s) 60 < 60) by (rewrite HF; lra).
  (* the facts in the shape the evaluator meets them *)
  assert (Hm60 : Rlit 600 (-1) <= IZR (Z.abs 0 + Rtrunc (Rabs s / Rlit 600 (-1)))).
  { rewrite Hz. Rlit_norm. replace (600 / 10) with (IZR 60) by lra. apply IZR_le. lia. }
  assert (A1 : 0 <= IZR ((Z.abs 0 + Rtrunc (IZR (Z.abs 0 + Rtrunc (Rabs s / Rlit 600 (-1))) / Rlit 600 (-1))) mod 360) <= 359).
  { rewrite Hz, HzD, HDmod. split; apply IZR_le; lia. }
  assert (A2 : 0 <= IZR ((Z.abs 0 + Rtrunc (Rabs s / Rlit 600 (-1))) mod 60) <= 59).
  { rewrite Hz. split; apply IZR_le; lia. }
  assert (Fin : IZR (m / 60) + (IZR m - 60 * IZR (m / 60)) / 60 + (Rabs s - 60 * IZR m) / 3600 = Rabs s / 3600)
    by field.
  destruct (Rlt_dec s 0); destruct (Req_dec (Rfmod (Rabs s) 60) 0) as [H0|H0].
  - pyrunv_using mylra. apply ang_ext. rewrite Hz, HzD, HDmod, Hmmod. ifclosed. Rlit_norm.
    rewrite H0 in HF. rewrite Rabs_left in Fin, HF by lra. lra.
  - assert (0 < Rfmod (Rabs s) 60) by lra. pyrunv_using mylra. apply ang_ext.
    rewrite Hz, HzD, HDmod, Hmmod, HF. Rlit_norm. rewrite Rabs_left in Fin |- * by lra. lra.
  - pyrunv_using mylra. apply ang_ext. rewrite Hz, HzD, HDmod, Hmmod. ifclosed. Rlit_norm.
    rewrite H0 in HF. rewrite Rabs_right in Fin, HF by lra. lra.
  - assert (0 < Rfmod (Rabs s) 60) by lra. pyrunv_using mylra. apply ang_ext.
    rewrite Hz, HzD, HDmod, Hmmod, HF. Rlit_norm. rewrite Rabs_right in Fin |- * by lra. lra.
Qed.

Lemma Angle_dms_any s : Rabs s < 1296000 ->
  Angle___init__ Rops blank (VTuple [VInt 0; VInt 0; VFloat s]) (VDict []) = ang (s / 3600).
Proof.
  intros H. destruct (Rlt_dec (Rabs s) 3600).
  - apply Angle_dms_sec. assumption.
  - apply Angle_dms_sec_big. lra.
Qed.

(* the module constant JDE2000 = Epoch(2000, 1, 1.5) *)
Lemma JDE2000_val : g_JDE2000 Rops = VObj cEpoch [VFloat (Rlit 24515450 (-1))].
Proof.
  pyrunv_using mylra.
  repeat match goal with |- context [Rfloor ?x] =>
    first [ rewrite (Rfloor_unique x 2452653) by (zclosed; Rlit_norm; lra)
          | rewrite (Rfloor_unique x 428) by (zclosed; Rlit_norm; lra)
          | rewrite (Rfloor_unique x 19) by (zclosed; Rlit_norm; lra)
          | rewrite (Rfloor_unique x 4) by (zclosed; Rlit_norm; lra) ]
  end.
  apply (f_equal (fun v => VObj cEpoch [VFloat v])). zclosed. Rlit_norm. lra.
Qed.

