(* C08 (nutation): nutation_longitude / nutation_obliquity of the regenerated model, ideal instance.
   The generated double loop is an instance of C08_nut_loop.nut_fix (unification with the generated
   text); the generic theorem then gives, for the tables extracted from the source,
     Angle(0, 0, sum_i (a_i + b_i T) sin(arg_i) / 10^4)
   where arg_i is congruent modulo 360 to sum_j n_ij F_j(T), F = (D, M, M', F, Omega). *)
From Coq Require Import Reals ZArith List Bool Lra Lia.
From PyLib Require Import PyVal PyBuiltins Ideal IdealFacts Whnf PyEval.
From Spec Require Import AngleSpec.
From Gen Require Import M_base M_Angle M_Epoch M_Interpolation M_Coordinates.
From Proofs.C08 Require Import C08_base C08_nut_angle C08_nut_loop.
Import ListNotations.
Open Scope R_scope.

Definition epo (j : R) : rval := VObj cEpoch [VFloat j].

(* the date argument: an Epoch object is passed through *)
Lemma check_input_epoch j :
  Epoch_check_input_date Rops (VTuple [VObj cEpoch [VFloat j]]) (VDict []) = VObj cEpoch [VFloat j].
Proof. pyrun. reflexivity. Qed.

(* ------------------------------------------------------------------ the tables, decoded *)
Definition dec_arg (v : rval) : list (list Z) :=
  match v with
  | VList l => map (fun r => match r with
                             | VList ns => map (fun x => match x with VInt n => n | _ => 0%Z end) ns
                             | _ => [] end) l
  | _ => []
  end.
Definition enc_argrow (r : list Z) : rval := VList (map (@VInt R) r).
Definition dec_coef (v : rval) : list (R * R) :=
  match v with
  | VList l => map (fun r => match r with
                             | VList [VFloat a; VFloat b] => (a, b)
                             | _ => (0, 0) end) l
  | _ => []
  end.
Definition enc_coefrow (p : R * R) : rval := VList [VFloat (fst p); VFloat (snd p)].

Definition AT : list (list Z) := Eval vm_compute in dec_arg (g_NUTATION_ARG_TABLE Rops).
Definition SCT : list (R * R) := dec_coef (g_NUTATION_SINE_COEF_TABLE Rops).
Definition CCT : list (R * R) := dec_coef (g_NUTATION_COSINE_COEF_TABLE Rops).

Ltac table_lazy := lazy -[Rlit Rplus Rminus Rmult Rdiv Rinv Ropp IZR PI]; reflexivity.

Lemma arg_table_enc : g_NUTATION_ARG_TABLE Rops = VList (map enc_argrow AT).
Proof. vm_compute. reflexivity. Qed.
Lemma sine_table_enc : g_NUTATION_SINE_COEF_TABLE Rops = VList (map enc_coefrow SCT).
Proof. table_lazy. Qed.
Lemma cosine_table_enc : g_NUTATION_COSINE_COEF_TABLE Rops = VList (map enc_coefrow CCT).
Proof. table_lazy. Qed.

Lemma AT_rows : forall r, In r AT -> length r = 5%nat.
Proof.
  assert (forallb (fun r => Nat.eqb (length r) 5) AT = true) as H by (vm_compute; reflexivity).
  rewrite forallb_forall in H. intros r Hr. apply Nat.eqb_eq. apply H. exact Hr.
Qed.
Lemma SCT_len : (length SCT <= length AT)%nat.
Proof. lazy -[Rlit]. lia. Qed.
Lemma CCT_len : (length CCT <= length AT)%nat.
Proof. lazy -[Rlit]. lia. Qed.

(* ------------------------------------------------------------------ list / getitem helpers *)
Lemma nth_val_nth' (l : list rval) i d : (i < length l)%nat -> nth_val l (Z.of_nat i) = nth i l d.
Proof.
  intro Hi.
  assert ((Z.of_nat i <? 0)%Z = false) as E1 by (apply Z.ltb_ge; lia).
  assert ((Z.of_nat (length l) <=? Z.of_nat i)%Z = false) as E2 by (apply Z.leb_gt; lia).
  unfold nth_val. cbv zeta. rewrite E1. cbv iota. rewrite E1, E2. simpl orb. cbv iota.
  rewrite Nat2Z.id. apply nth_indep. exact Hi.
Qed.
Lemma getitem_map_nth {A} (f : A -> rval) l i d : (i < length l)%nat ->
  py_getitem Rops (VList (map f l)) (VInt (Z.of_nat i)) = f (nth i l d).
Proof.
  intro Hi. simpl. rewrite (nth_val_nth' _ _ (f d)) by (rewrite map_length; exact Hi).
  apply map_nth.
Qed.

Lemma enum_from_map {A} (f : A -> rval) (d : A) l k :
  enum_from (Z.of_nat k) (map f l) =
  map (fun i => VTuple [VInt (Z.of_nat i); f (nth (i - k) l d)]) (seq k (length l)).
Proof.
  revert k. induction l as [|x l IH]; intro k; simpl.
  - reflexivity.
  - rewrite Nat.sub_diag. f_equal.
    replace (Z.of_nat k + 1)%Z with (Z.of_nat (S k)) by lia. rewrite IH.
    apply map_ext_in. intros i Hi. apply in_seq in Hi.
    replace (i - k)%nat with (S (i - S k)) by lia. reflexivity.
Qed.
Lemma enumerate_table {A} (f : A -> rval) (d : A) l :
  py_iter (py_enumerate (VList (map f l))) =
  VList (map (urow (fun i => f (nth i l d))) (seq 0 (length l))).
Proof.
  change (py_iter (py_enumerate (VList (map f l)))) with (@VList R (enum_from (Z.of_nat 0) (map f l))).
  rewrite (enum_from_map f d). f_equal. apply map_ext. intro i. rewrite Nat.sub_0_r. reflexivity.
Qed.
Lemma bind_VList' (l : list rval) (k : rval -> rval) : bind (VList l) k = k (VList l).
Proof. reflexivity. Qed.

(* ------------------------------------------------------------------ the fundamental arguments *)
(* Julian centuries from J2000.0 and the five polynomials (degrees), with the code's literals *)
Definition Tc (j : R) : R := (j - Rlit 24515450 (-1)) / Rlit 365250 (-1).
Definition polyD (t : R) : R := Rlit 29785036 (-5) + t * (Rlit 445267111480 (-6) + t * (Rlit (-19142) (-7) + t / Rlit 1894740 (-1))).
Definition polyM (t : R) : R := Rlit 35752772 (-5) + t * (Rlit 35999050340 (-6) + t * (Rlit (-1603) (-7) - t / Rlit 3000000 (-1))).
Definition polyM' (t : R) : R := Rlit 13496298 (-5) + t * (Rlit 477198867398 (-6) + t * (Rlit 86972 (-7) + t / Rlit 562500 (-1))).
Definition polyF (t : R) : R := Rlit 9327191 (-5) + t * (Rlit 483202017538 (-6) + t * (Rlit (-36825) (-7) + t / Rlit 3272700 (-1))).
Definition polyO (t : R) : R := Rlit 12504452 (-5) + t * (Rlit (-1934136261) (-6) + t * (Rlit 20708 (-7) + t / Rlit 4500000 (-1))).
Definition fund (t : R) : list R := [polyD t; polyM t; polyM' t; polyF t; polyO t].

(* ------------------------------------------------------------------ evaluation up to the loop *)
Ltac2 Set Whnf.is_blocked as old := fun c =>
  Ltac2.Bool.or (old c) (Ltac2.List.exist (Ltac2.Constr.equal c)
    ['@py_getitem; '@Angle___init__; '@g_NUTATION_ARG_TABLE; '@g_NUTATION_SINE_COEF_TABLE;
     '@g_NUTATION_COSINE_COEF_TABLE; '@py_enumerate; '@Epoch_check_input_date;
     '@Angle___rmul__; '@Angle___iadd__]).
Ltac py_user_rw tac ::=
  first [ rewrite check_input_epoch | rewrite init_float_obj | rewrite init_empty_obj
        | rewrite rmul_int_obj | rewrite iadd_obj ].

(* what the loops compute *)
Definition FL (t : R) : list R := map red360 (fund t).          (* the five Angle objects' stored degrees *)
Definition Nij (i jj : nat) : Z := nth jj (nth i AT []) 0%Z.       (* multiplier n_ij *)
Definition Uij (t : R) (i jj : nat) (a : R) : R := red360 (a + red360 (nth jj (FL t) 0 * IZR (Nij i jj))).
Definition acc_of (g : R -> R) (d c a : R) : R := d + c * g (a * (PI / 180)) / Rlit 100000 (-1).
(* stored argument (degrees) of row i, and the accumulated sum in units of 1e-4 arcsec / 1e4 *)
Definition argrow (t : R) (i : nat) : R := row_arg 5 (Rlit 0 (-1)) Nij (Uij t) i.
Definition coefrow (CT : list (R * R)) (i : nat) : rval := enc_coefrow (nth i CT (0, 0)).
Definition coefA (CT : list (R * R)) (i : nat) : R := fst (nth i CT (0, 0)).
Definition coefB (CT : list (R * R)) (i : nat) : R := snd (nth i CT (0, 0)).
Definition nut_raw (g : R -> R) (CT : list (R * R)) (t : R) : R :=
  fold_left (fun d i => acc_of g d (coefA CT i + coefB CT i * t) (row_arg 5 (Rlit 0 (-1)) Nij (Uij t) i))
            (seq 0 (length CT)) (Rlit 0 (-1)).
Lemma enumerate_coef CT :
  py_iter (py_enumerate (VList (map enc_coefrow CT))) = VList (map (urow (coefrow CT)) (seq 0 (length CT))).
Proof. exact (enumerate_table enc_coefrow (0, 0) CT). Qed.

Lemma Nij_getitem i jj : (i < length AT)%nat -> (jj < 5)%nat ->
  py_getitem Rops (py_getitem Rops (VList (map enc_argrow AT)) (VInt (Z.of_nat i))) (VInt (Z.of_nat jj))
  = VInt (Nij i jj).
Proof.
  intros Hi Hj. rewrite (getitem_map_nth enc_argrow AT i []) by exact Hi.
  unfold enc_argrow. rewrite (getitem_map_nth (@VInt R) _ jj 0%Z).
  - reflexivity.
  - rewrite (AT_rows (nth i AT [])); [exact Hj | apply nth_In; exact Hi].
Qed.

Lemma FL_getitem t jj : (jj < 5)%nat ->
  py_getitem Rops (VList (map ang (FL t))) (VInt (Z.of_nat jj)) = ang (nth jj (FL t) 0).
Proof. intro Hj. apply getitem_map_nth. exact Hj. Qed.

(* one pass of the generic theorem; [tbl_enc] : g_TABLE Rops = VList (map enc_coefrow CT).
   Until the list of rows is abstracted ([remember]) only lemma rewriting is used on the goal: a
   conversion step there would make the kernel execute the loop on the concrete table at Qed. *)
Ltac nut_tac j tbl_enc CT trig Hlen :=
  unfold epo; pyrunC;
  fold (Tc j); fold (polyD (Tc j)) (polyM (Tc j)) (polyM' (Tc j)) (polyF (Tc j)) (polyO (Tc j));
  cbv beta zeta;
  rewrite tbl_enc; rewrite (enumerate_coef CT);
  let rows := fresh "rows" in let Hrows := fresh "Hrows" in
  remember (map (urow (coefrow CT)) (seq 0 (length CT))) as rows eqn:Hrows;
  rewrite bind_VList'; cbv beta;
  match goal with |- context [seq_of (VList ?l)] => change (seq_of (VList l)) with l end;
  expose_R;
  (* the generated loop is an instance of nut_fix: unification finds the ten parameters; the kernel is
     given the beta-delta-normal form of the instance (syntactically the generated text) and the
     unfolding equation separately - a direct [change] makes its conversion check run away *)
  match goal with |- ?f _ _ _ _ _ _ _ = _ =>
     let g := open_constr:(nut_fix _ _ _ _ _ _ _ _ _ _) in unify f g;
     let g' := eval cbv beta delta [nut_fix] in g in
     change f with g';
     let HH := fresh "HH" in
     assert (HH : g' = g) by abstract (cbv beta delta [nut_fix]; reflexivity);
     rewrite HH; clear HH end;
  lazymatch goal with
  | |- nut_fix ?KK ?IA ?IC ?RNG ?CC0 ?CC1 ?CCADD ?AACC ?CCOND ?UUPD _ ?aa ?cc (VFloat ?dd) ?ii ?jj0 ?vv = _ =>
    assert (HIA : IA = angv (Rlit 0 (-1))) by exact init_empty_obj;
    assert (HIC : IC = VFloat (Rlit 0 (-1))) by reflexivity;
    assert (HRNG : RNG = VList (zrange_nat 0 5)) by reflexivity;
    assert (HC0 : forall i, (i < length CT)%nat -> CC0 (urow (coefrow CT) i) = VFloat (coefA CT i)) by (intros; reflexivity);
    assert (HC1 : forall i, (i < length CT)%nat -> CC1 (urow (coefrow CT) i) = VFloat (coefB CT i)) by (intros; reflexivity);
    assert (HCADD : forall i c, (i < length CT)%nat ->
                    CCADD (VFloat c) (urow (coefrow CT) i) = VFloat (c + coefB CT i * Tc j));
    [ intros i c _; cbv beta;
      change (py_getitem Rops (item (urow (coefrow CT) i) 1) (VInt 1)) with (@VFloat R (coefB CT i)); pyrun; reflexivity | ];
    assert (HACC : forall d c a, AACC (VFloat d) (VFloat c) (angv a) = VFloat (acc_of trig d c a));
    [ intros d c a; cbv beta; unfold angv; pyrunC; reflexivity | ];
    assert (HCOND : forall i jj, (i < length CT)%nat -> (jj < 5)%nat ->
                    CCOND (urow (coefrow CT) i) (VInt (Z.of_nat jj)) = VInt (Nij i jj));
    [ intros i jj Hi Hjj; cbv beta; change (item (urow (coefrow CT) i) 0) with (@VInt R (Z.of_nat i));
      rewrite arg_table_enc; apply Nij_getitem; [ pose proof Hlen; lia | exact Hjj ] | ];
    assert (HUPD : forall i jj a, (i < length CT)%nat -> (jj < 5)%nat ->
                   UUPD (urow (coefrow CT) i) (VInt (Z.of_nat jj)) (angv a) = angv (Uij (Tc j) i jj a));
    [ intros i jj a Hi Hjj; cbv beta; change (item (urow (coefrow CT) i) 0) with (@VInt R (Z.of_nat i));
      rewrite arg_table_enc; rewrite Nij_getitem by (first [ exact Hjj | pose proof Hlen; lia ]);
      lazymatch goal with |- context [py_getitem Rops (VList ?l) (VInt (Z.of_nat jj))] =>
        change l with (map ang (FL (Tc j))) end;
      rewrite (FL_getitem (Tc j) jj Hjj);
      unfold angv, ang; pyrunA; reflexivity | ];
    let E := fresh "E" in
    destruct (nut_fix_spec KK IA IC RNG CC0 CC1 CCADD AACC CCOND UUPD (coefrow CT) (length CT) 5 (Rlit 0 (-1)) (Rlit 0 (-1))
                (Tc j) (coefA CT) (coefB CT) Nij (Uij (Tc j)) (acc_of trig) HIA HIC HRNG HC0 HC1 HCADD HACC HCOND HUPD
                (length CT) 0%nat aa cc dd ii jj0 vv (le_n _)) as (?a' & ?c' & ?i' & ?j' & ?v' & E);
    rewrite <- Hrows in E; rewrite E; clear E;
    lazymatch goal with |- Angle___init__ _ _ (mk_tuple [_; _; VFloat ?S1]) _ = _ =>
      let HS := fresh "HS" in
      assert (HS : S1 = nut_raw trig CT (Tc j)) by (unfold nut_raw; reflexivity);
      rewrite HS; clear HS;
      generalize (nut_raw trig CT (Tc j)); intro; reflexivity
    end
  end.

Theorem nutation_longitude_struct j :
  f_nutation_longitude Rops (VTuple [epo j]) (VDict []) =
  Angle___init__ Rops (VObj cAngle [VNone; VNone]) (VTuple [VInt 0; VInt 0; VFloat (nut_raw sin SCT (Tc j))]) (VDict []).
Proof. nut_tac j sine_table_enc SCT sin SCT_len. Qed.

Theorem nutation_obliquity_struct j :
  f_nutation_obliquity Rops (VTuple [epo j]) (VDict []) =
  Angle___init__ Rops (VObj cAngle [VNone; VNone]) (VTuple [VInt 0; VInt 0; VFloat (nut_raw cos CCT (Tc j))]) (VDict []).
Proof. nut_tac j cosine_table_enc CCT cos CCT_len. Qed.
