(* C08 (nutation): nutation_longitude / nutation_obliquity of the regenerated model, ideal instance.
   The generated double loop is an instance of C08_nut_loop.nut_fix (unification with the generated
   text); the generic theorem then gives, for the tables extracted from the source,
     Angle(0, 0, sum_i (a_i + b_i T) sin(arg_i) / 10^4)
   where arg_i is congruent modulo 360 to sum_j n_ij F_j(T), F = (D, M, M', F, Omega). *)
From Coq Require Import Reals ZArith List Bool Lra Lia.
From PyLib Require Import PyVal PyBuiltins Ideal IdealFacts Whnf PyEval.
From Spec Require Import AngleSpec.
From Gen Require Import M_base M_Angle M_Epoch M_Interpolation M_Coordinates.
From Proofs.C08 Require Import C08_base C08_nut_angle C08_nut_loop.
Import ListNotations.
Open Scope R_scope.

Definition epo (j : R) : rval := VObj cEpoch [VFloat j].

(* the date argument: an Epoch object is passed through *)
Lemma check_input_epoch j :
  Epoch_check_input_date Rops (VTuple [VObj cEpoch [VFloat j]]) (VDict []) = VObj cEpoch [VFloat j].
Proof. pyrun. reflexivity. Qed.

(* ------------------------------------------------------------------ the tables, decoded *)
Definition dec_arg (v : rval) : list (list Z) :=
  match v with
  | VList l => map (fun r => match r with
                             | VList ns => map (fun x => match x with VInt n => n | _ => 0%Z end) ns
                             | _ => [] end) l
  | _ => []
  end.
Definition enc_argrow (r : list Z) : rval := VList (map (@VInt R) r).
Definition dec_coef (v : rval) : list (R * R) :=
  match v with
  | VList l => map (fun r => match r with
                             | VList [VFloat a; VFloat b] => (a, b)
                             | _ => (0, 0) end) l
  | _ => []
  end.
Definition enc_coefrow (p : R * R) : rval := VList [VFloat (fst p); VFloat (snd p)].

Definition AT : list (list Z) := Eval vm_compute in dec_arg (g_NUTATION_ARG_TABLE Rops).
Definition SCT : list (R * R) := dec_coef (g_NUTATION_SINE_COEF_TABLE Rops).
Definition CCT : list (R * R) := dec_coef (g_NUTATION_COSINE_COEF_TABLE Rops).

Ltac table_lazy := lazy -[Rlit Rplus Rminus Rmult Rdiv Rinv Ropp IZR PI]; reflexivity.

Lemma arg_table_enc : g_NUTATION_ARG_TABLE Rops = VList (map enc_argrow AT).
Proof. vm_compute. reflexivity. Qed.
Lemma sine_table_enc : g_NUTATION_SINE_COEF_TABLE Rops = VList (map enc_coefrow SCT).
Proof. table_lazy. Qed.
Lemma cosine_table_enc : g_NUTATION_COSINE_COEF_TABLE Rops = VList (map enc_coefrow CCT).
Proof. table_lazy. Qed.

Lemma AT_rows : forall r, In r AT -> length r = 5%nat.
Proof.
  assert (forallb (fun r => Nat.eqb (length r) 5) AT = true) as H by (vm_compute; reflexivity).
  rewrite forallb_forall in H. intros r Hr. apply Nat.eqb_eq. apply H. exact Hr.
Qed.
Lemma SCT_len : (length SCT <= length AT)%nat.
Proof. lazy -[Rlit]. lia. Qed.
Lemma CCT_len : (length CCT <= length AT)%nat.
Proof. lazy -[Rlit]. lia. Qed.

(* ------------------------------------------------------------------ list / getitem helpers *)
Lemma nth_val_nth' (l : list rval) i d : (i < length l)%nat -> nth_val l (Z.of_nat i) = nth i l d.
Proof.
  intro Hi.
  assert ((Z.of_nat i <? 0)%Z = false) as E1 by (apply Z.ltb_ge; lia).
  assert ((Z.of_nat (length l) <=? Z.of_nat i)%Z = false) as E2 by (apply Z.leb_gt; lia).
  unfold nth_val. cbv zeta. rewrite E1. cbv iota. rewrite E1, E2. simpl orb. cbv iota.
  rewrite Nat2Z.id. apply nth_indep. exact Hi.
Qed.
Lemma getitem_map_nth {A} (f : A -> rval) l i d : (i < length l)%nat ->
  py_getitem Rops (VList (map f l)) (VInt (Z.of_nat i)) = f (nth i l d).
Proof.
  intro Hi. simpl. rewrite (nth_val_nth' _ _ (f d)) by (rewrite map_length; exact Hi).
  apply map_nth.
Qed.

Lemma enum_from_map {A} (f : A -> rval) (d : A) l k :
  enum_from (Z.of_nat k) (map f l) =
  map (fun i => VTuple [VInt (Z.of_nat i); f (nth (i - k) l d)]) (seq k (length l)).
Proof.
  revert k. induction l as [|x l IH]; intro k; simpl.
  - reflexivity.
  - rewrite Nat.sub_diag. f_equal.
    replace (Z.of_nat k + 1)%Z with (Z.of_nat (S k)) by lia. rewrite IH.
    apply map_ext_in. intros i Hi. apply in_seq in Hi.
    replace (i - k)%nat with (S (i - S k)) by lia. reflexivity.
Qed.
Lemma enumerate_table {A} (f : A -> rval) (d : A) l :
  py_iter (py_enumerate (VList (map f l))) =
  VList (map (fun i => VTuple [VInt (Z.of_nat i); f (nth i l d)]) (seq 0 (length l))).
Proof.
  change (py_iter (py_enumerate (VList (map f l)))) with (@VList R (enum_from (Z.of_nat 0) (map f l))).
  rewrite (enum_from_map f d). f_equal. apply map_ext. intro i. rewrite Nat.sub_0_r. reflexivity.
Qed.

(* ------------------------------------------------------------------ the fundamental arguments *)
(* Julian centuries from J2000.0 and the five polynomials (degrees), with the code's literals *)
Definition Tc (j : R) : R := (j - Rlit 24515450 (-1)) / Rlit 365250 (-1).
Definition polyD (t : R) : R := Rlit 29785036 (-5) + t * (Rlit 445267111480 (-6) + t * (Rlit (-19142) (-7) + t / Rlit 1894740 (-1))).
Definition polyM (t : R) : R := Rlit 35752772 (-5) + t * (Rlit 35999050340 (-6) + t * (Rlit (-1603) (-7) - t / Rlit 3000000 (-1))).
Definition polyM' (t : R) : R := Rlit 13496298 (-5) + t * (Rlit 477198867398 (-6) + t * (Rlit 86972 (-7) + t / Rlit 562500 (-1))).
Definition polyF (t : R) : R := Rlit 9327191 (-5) + t * (Rlit 483202017538 (-6) + t * (Rlit (-36825) (-7) + t / Rlit 3272700 (-1))).
Definition polyO (t : R) : R := Rlit 12504452 (-5) + t * (Rlit (-1934136261) (-6) + t * (Rlit 20708 (-7) + t / Rlit 4500000 (-1))).
Definition fund (t : R) : list R := [polyD t; polyM t; polyM' t; polyF t; polyO t].

(* ------------------------------------------------------------------ evaluation up to the loop *)
Ltac2 Set Whnf.is_blocked as old := fun c =>
  Ltac2.Bool.or (old c) (Ltac2.List.exist (Ltac2.Constr.equal c)
    ['@py_getitem; '@Angle___init__; '@g_NUTATION_ARG_TABLE; '@g_NUTATION_SINE_COEF_TABLE;
     '@g_NUTATION_COSINE_COEF_TABLE; '@py_enumerate; '@Epoch_check_input_date;
     '@Angle___rmul__; '@Angle___iadd__]).
Ltac py_user_rw tac ::=
  first [ rewrite check_input_epoch | rewrite init_float_obj | rewrite init_empty_obj
        | rewrite rmul_int_obj | rewrite iadd_obj ].

Goal forall j, f_nutation_longitude Rops (VTuple [epo j]) (VDict []) = VNone.
Proof.
  intros. unfold epo. Time pyrunA.
  fold (Tc j). fold (polyD (Tc j)) (polyM (Tc j)) (polyM' (Tc j)) (polyF (Tc j)) (polyO (Tc j)).
  cbv beta zeta.
  rewrite sine_table_enc. rewrite (enumerate_table enc_coefrow (0, 0)).
  unfold bind at 1. cbv beta.
  match goal with |- context [seq_of (VList ?l)] => change (seq_of (VList l)) with l end.
  match goal with |- ?f _ _ _ _ _ _ _ = _ =>
     let g := open_constr:(nut_fix _ _ _ _ _ _ _ _ _ _) in unify f g; change f with g end.
  Show.
Abort.
