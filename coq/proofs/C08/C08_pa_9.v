(* C08: Print Assumptions of the theorems of C08.v, part 10 of 10 *)
From Proofs.C08 Require Import C08.
Redirect "C08_rectangular_j2000_closed_form.assumptions" Print Assumptions C08_rectangular_j2000_closed_form.
Redirect "C08_moon_node_closed_form.assumptions" Print Assumptions C08_moon_node_closed_form.
Redirect "C08_nutation_longitude_main_term.assumptions" Print Assumptions C08_nutation_longitude_main_term.
Redirect "C08_sun_apparent_unconditional.assumptions" Print Assumptions C08_sun_apparent_unconditional.
