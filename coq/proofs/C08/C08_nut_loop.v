(* C08 (nutation): the loop shape the translator produces for
       for i, value in enumerate(COEF_TABLE):
           argument = Angle(); coeff = 0.0
           for j in range(5):
               if ARG_TABLE[i][j]: argument += ARG_TABLE[i][j] * arguments[j]
           coeff = value[0]
           if value[1]: coeff += value[1] * t
           delta += (coeff * trig(argument.rad())) / 10000.0
   as a combinator [nut_fix] over abstract pieces, and a theorem about it for tables of ANY
   length (induction over the list of rows and over the inner range).  Nothing here mentions the
   generated model; C08_nut_main.v shows by unification that the generated loops of
   nutation_longitude / nutation_obliquity ARE instances of [nut_fix]. *)
From Coq Require Import Reals ZArith List Bool Lra Lia.
From PyLib Require Import PyVal PyBuiltins Ideal.
Import ListNotations.
Open Scope R_scope.

Notation rval := (val R).
Definition tol0' : R := Rlit 1 (-10).
Definition angv (d : R) : rval := VObj cAngle [VFloat d; VFloat tol0'].

Definition nut_fix (K : rval -> rval -> rval -> rval -> rval -> rval -> rval) (IA IC RNG : rval)
    (C0 C1 : rval -> rval) (CADD : rval -> rval -> rval) (ACC : rval -> rval -> rval -> rval)
    (COND : rval -> rval -> rval) (UPD : rval -> rval -> rval -> rval) :=
  fix loop3 (l5 : list rval) (argument_ coeff_ deltapsi_ i_ j_ value_ : rval) {struct l5} : rval :=
    match l5 with
    | [] => K argument_ coeff_ deltapsi_ i_ j_ value_
    | x4 :: l5' =>
        bind (unpack 2 x4) (fun u13 =>
        bind IA (fun argument_0 =>
        bind IC (fun _ =>
        bind RNG (fun l110 =>
          (fix loop9 (l11 : list rval) (argument_1 j_0 : rval) {struct l11} : rval :=
             match l11 with
             | [] =>
                 bind (C0 u13) (fun coeff_1 =>
                 ifv Rops (C1 u13)
                   (fun _ => bind (CADD coeff_1 u13) (fun coeff_2 =>
                             bind (ACC deltapsi_ coeff_2 argument_1) (fun deltapsi_1 =>
                             loop3 l5' argument_1 coeff_2 deltapsi_1 (item u13 0) j_0 (item u13 1))))
                   (fun _ => bind (ACC deltapsi_ coeff_1 argument_1) (fun deltapsi_1 =>
                             loop3 l5' argument_1 coeff_1 deltapsi_1 (item u13 0) j_0 (item u13 1))))
             | x10 :: l11' =>
                 ifv Rops (COND u13 x10)
                   (fun _ => bind (UPD u13 x10 argument_1) (fun argument_2 => loop9 l11' argument_2 x10))
                   (fun _ => loop9 l11' argument_1 x10)
             end) (seq_of l110) argument_0 j_))))
    end.

Lemma nut_fix_cons K IA IC RNG C0 C1 CADD ACC COND UPD x4 l5' a c d i j v :
  nut_fix K IA IC RNG C0 C1 CADD ACC COND UPD (x4 :: l5') a c d i j v =
  bind (unpack 2 x4) (fun u13 =>
  bind IA (fun argument_0 =>
  bind IC (fun _ =>
  bind RNG (fun l110 =>
    (fix loop9 (l11 : list rval) (argument_1 j_0 : rval) {struct l11} : rval :=
       match l11 with
       | [] =>
           bind (C0 u13) (fun coeff_1 =>
           ifv Rops (C1 u13)
             (fun _ => bind (CADD coeff_1 u13) (fun coeff_2 =>
                       bind (ACC d coeff_2 argument_1) (fun deltapsi_1 =>
                       nut_fix K IA IC RNG C0 C1 CADD ACC COND UPD l5' argument_1 coeff_2 deltapsi_1 (item u13 0) j_0 (item u13 1))))
             (fun _ => bind (ACC d coeff_1 argument_1) (fun deltapsi_1 =>
                       nut_fix K IA IC RNG C0 C1 CADD ACC COND UPD l5' argument_1 coeff_1 deltapsi_1 (item u13 0) j_0 (item u13 1))))
       | x10 :: l11' =>
           ifv Rops (COND u13 x10)
             (fun _ => bind (UPD u13 x10 argument_1) (fun argument_2 => loop9 l11' argument_2 x10))
             (fun _ => loop9 l11' argument_1 x10)
       end) (seq_of l110) argument_0 j)))).
Proof. reflexivity. Qed.

Lemma zrange_nat_S' a n : zrange_nat a (S n) = VInt a :: @zrange_nat R (a + 1) n.
Proof. reflexivity. Qed.

(* one step of the argument: skipped when the multiplier is 0 *)
Definition arg_step (N : nat -> Z) (U : nat -> R -> R) (a : R) (j : nat) : R :=
  if (N j =? 0)%Z then a else U j a.

(* the inner loop over j = k .. k+rest-1 *)
Lemma nut_inner (COND : rval -> rval -> rval) (UPD : rval -> rval -> rval -> rval) (u : rval)
    (Kin : rval -> rval -> rval) (N : nat -> Z) (U : nat -> R -> R) (m : nat) :
  (forall j, (j < m)%nat -> COND u (VInt (Z.of_nat j)) = VInt (N j)) ->
  (forall j a, (j < m)%nat -> UPD u (VInt (Z.of_nat j)) (angv a) = angv (U j a)) ->
  forall rest k a jst, (k + rest = m)%nat ->
  exists j',
  (fix loop9 (l11 : list rval) (argument_1 j_0 : rval) {struct l11} : rval :=
     match l11 with
     | [] => Kin argument_1 j_0
     | x10 :: l11' =>
         ifv Rops (COND u x10)
           (fun _ => bind (UPD u x10 argument_1) (fun argument_2 => loop9 l11' argument_2 x10))
           (fun _ => loop9 l11' argument_1 x10)
     end) (zrange_nat (Z.of_nat k) rest) (angv a) jst
  = Kin (angv (fold_left (arg_step N U) (seq k rest) a)) j'.
Proof.
  intros HC HU. induction rest as [|rest IH]; intros k a jst Hk.
  - exists jst. reflexivity.
  - rewrite zrange_nat_S'. cbv beta iota.
    rewrite (HC k) by lia. unfold ifv at 1.
    replace (Z.of_nat k + 1)%Z with (Z.of_nat (S k)) by lia.
    simpl seq. simpl fold_left. unfold arg_step at 2.
    destruct (N k =? 0)%Z.
    + destruct (IH (S k) a (VInt (Z.of_nat k))) as [j' E]; [lia|]. exists j'. exact E.
    + rewrite (HU k a) by lia. unfold bind at 1. unfold angv at 1.
      destruct (IH (S k) (U k a) (VInt (Z.of_nat k))) as [j' E]; [lia|]. exists j'. exact E.
Qed.

Section Outer.
Variables (K : rval -> rval -> rval -> rval -> rval -> rval -> rval) (IA IC RNG : rval)
          (C0 C1 : rval -> rval) (CADD : rval -> rval -> rval) (ACC : rval -> rval -> rval -> rval)
          (COND : rval -> rval -> rval) (UPD : rval -> rval -> rval -> rval).
Variables (ROW : nat -> rval) (ntot m : nat) (a0 c0 t : R).
Variables (ca cb : nat -> R) (N : nat -> nat -> Z) (U : nat -> nat -> R -> R) (acc : R -> R -> R -> R).

Definition urow (i : nat) : rval := VTuple [VInt (Z.of_nat i); ROW i].
(* the argument (degrees, as stored in the Angle object) of row i *)
Definition row_arg (i : nat) : R := fold_left (arg_step (N i) (U i)) (seq 0 m) a0.

Hypothesis HIA : IA = angv a0.
Hypothesis HIC : IC = VFloat c0.
Hypothesis HRNG : RNG = VList (zrange_nat 0 m).
Hypothesis HC0 : forall i, (i < ntot)%nat -> C0 (urow i) = VFloat (ca i).
Hypothesis HC1 : forall i, (i < ntot)%nat -> C1 (urow i) = VFloat (cb i).
Hypothesis HCADD : forall i c, (i < ntot)%nat -> CADD (VFloat c) (urow i) = VFloat (c + cb i * t).
Hypothesis HACC : forall d c a, ACC (VFloat d) (VFloat c) (angv a) = VFloat (acc d c a).
Hypothesis HCOND : forall i j, (i < ntot)%nat -> (j < m)%nat ->
  COND (urow i) (VInt (Z.of_nat j)) = VInt (N i j).
Hypothesis HUPD : forall i j a, (i < ntot)%nat -> (j < m)%nat ->
  UPD (urow i) (VInt (Z.of_nat j)) (angv a) = angv (U i j a).

Theorem nut_fix_spec : forall n k arg coeff d i j v, (k + n <= ntot)%nat ->
  exists arg' coeff' i' j' v',
  nut_fix K IA IC RNG C0 C1 CADD ACC COND UPD (map urow (seq k n)) arg coeff (VFloat d) i j v =
  K arg' coeff' (VFloat (fold_left (fun d i => acc d (ca i + cb i * t) (row_arg i)) (seq k n) d)) i' j' v'.
Proof.
  rewrite HIA, HIC, HRNG.
  induction n as [|n IH]; intros k arg coeff d i j v Hk.
  - exists arg, coeff, i, j, v. reflexivity.
  - simpl seq. simpl map. rewrite nut_fix_cons.
    change (unpack 2 (urow k)) with (urow k). unfold bind at 1. unfold urow at 1.
    unfold bind at 1. unfold angv at 1.
    unfold bind at 1. unfold bind at 1.
    change (seq_of (VList (zrange_nat 0 m))) with (@zrange_nat R 0 m).
    fold (angv a0). fold (urow k).
    destruct (nut_inner COND UPD (urow k)
      (fun argument_1 j_0 =>
         bind (C0 (urow k)) (fun coeff_1 =>
         ifv Rops (C1 (urow k))
           (fun _ => bind (CADD coeff_1 (urow k)) (fun coeff_2 =>
                     bind (ACC (VFloat d) coeff_2 argument_1) (fun deltapsi_1 =>
                     nut_fix K (angv a0) (VFloat c0) (VList (zrange_nat 0 m)) C0 C1 CADD ACC COND UPD (map urow (seq (S k) n)) argument_1 coeff_2 deltapsi_1 (item (urow k) 0) j_0 (item (urow k) 1))))
           (fun _ => bind (ACC (VFloat d) coeff_1 argument_1) (fun deltapsi_1 =>
                     nut_fix K (angv a0) (VFloat c0) (VList (zrange_nat 0 m)) C0 C1 CADD ACC COND UPD (map urow (seq (S k) n)) argument_1 coeff_1 deltapsi_1 (item (urow k) 0) j_0 (item (urow k) 1)))))
      (N k) (U k) m (fun jj Hj => HCOND k jj ltac:(lia) Hj) (fun jj a Hj => HUPD k jj a ltac:(lia) Hj)
      m 0%nat a0 j eq_refl) as [j' E].
    change (Z.of_nat 0) with 0%Z in E. rewrite E. clear E.
    fold (row_arg k).
    rewrite (HC0 k) by lia. unfold bind at 1. rewrite (HC1 k) by lia. unfold ifv at 1.
    change (f_eqb Rops (cb k) (f0 Rops)) with (Reqb (cb k) 0).
    simpl fold_left.
    destruct (Req_EM_T (cb k) 0) as [Z0|NZ].
    + rewrite (proj2 (Reqb_true _ _) Z0).
      rewrite HACC. unfold bind at 1.
      destruct (IH (S k) (angv (row_arg k)) (VFloat (ca k)) (acc d (ca k) (row_arg k))
                   (item (urow k) 0) j' (item (urow k) 1)) as (a' & c' & i' & j'' & v' & E); [lia|].
      exists a', c', i', j'', v'. rewrite E.
      replace (ca k + cb k * t) with (ca k) by (rewrite Z0; ring). reflexivity.
    + rewrite (proj2 (Reqb_false _ _) NZ).
      rewrite (HCADD k) by lia. unfold bind at 1. rewrite HACC. unfold bind at 1.
      destruct (IH (S k) (angv (row_arg k)) (VFloat (ca k + cb k * t)) (acc d (ca k + cb k * t) (row_arg k))
                   (item (urow k) 0) j' (item (urow k) 1)) as (a' & c' & i' & j'' & v' & E); [lia|].
      exists a', c', i', j'', v'. rewrite E. reflexivity.
Qed.
End Outer.
