(* C08, ideal instance: closed forms of the low-accuracy solar formulas
   Sun.true_longitude_coarse and Sun.apparent_longitude_coarse on the generated code:
   explicit polynomials in t, equation of the centre, radius vector; every reduction to
   (-360, 360) that the Angle class performs is visible as red360 (Spec.AngleSpec). *)
From Coq Require Import Reals ZArith List Bool Lra Lia String.
From Interval Require Import Tactic.
From PyLib Require Import PyVal PyBuiltins Ideal Whnf PyEval.
From Spec Require AngleSpec.
From Gen Require Import M_base M_Angle M_Epoch M_Interpolation M_Coordinates M_Earth M_Sun.
From Proofs.C08 Require Import C08_base C08_angle2.
Import ListNotations.
Open Scope R_scope.

(* object-level forms of the Angle lemmas *)
Lemma new_red_obj x :
  Angle___init__ Rops (VObj cAngle [VNone; VNone]) (VTuple [VFloat x]) (VDict []) =
  VObj cAngle [VFloat (red360 x); VFloat tol0].
Proof. exact (Angle_new_red x). Qed.
Lemma to_pos_red_obj a : -360 < a < 360 ->
  Angle_to_positive Rops (VObj cAngle [VFloat a; VFloat tol0]) =
  VTuple [VObj cAngle [VFloat (pos360 a); VFloat tol0]; VObj cAngle [VFloat (pos360 a); VFloat tol0]].
Proof. exact (Angle_to_positive_red a). Qed.
Lemma add_ang_red_obj a b :
  Angle___add__ Rops (VObj cAngle [VFloat a; VFloat tol0]) (VObj cAngle [VFloat b; VFloat tol0]) =
  VObj cAngle [VFloat (red360 (a + b)); VFloat tol0].
Proof. exact (Angle_add_ang_red a b). Qed.
Lemma sub_float_red_obj a x :
  Angle___sub__ Rops (VObj cAngle [VFloat a; VFloat tol0]) (VFloat x) =
  VObj cAngle [VFloat (red360 (a + - x)); VFloat tol0].
Proof.
  transitivity (Angle___init__ Rops blank (VTuple [VFloat (a + - x)]) (VDict [])).
  - whnf_lhs. reflexivity.
  - apply Angle_new_red.
Qed.

Ltac2 Set Whnf.is_blocked as old := fun c =>
  Ltac2.Bool.or (old c) (Ltac2.List.exist (Ltac2.Constr.equal c)
    ['@Angle___init__; '@Angle_to_positive; '@Angle___add__; '@Angle___sub__; '@g_JDE2000]).

Ltac pyrunv_hook s tac ::=
  lazymatch s with
  | g_JDE2000 _ => rewrite JDE2000_val
  | Angle___init__ _ _ (VTuple [VFloat ?x]) (VDict []) => rewrite (new_red_obj x)
  | Angle_to_positive _ (VObj _ [VFloat ?a; _]) => rewrite (to_pos_red_obj a) by apply red360_range
  | Angle___add__ _ (VObj _ [VFloat ?a; _]) (VObj _ [VFloat ?b; _]) => rewrite (add_ang_red_obj a b)
  | Angle___sub__ _ (VObj _ [VFloat ?a; _]) (VFloat ?x) => rewrite (sub_float_red_obj a x)
  end.

Ltac ivdec := first [ assumption | solve [Rlit_norm_all; lra] | solve [Rlit_norm_all; interval] ].

(* ---- the formulas, constants exactly as in the source (Rlit m e = m * 10^e) ---- *)
Definition rad (d : R) : R := d * (PI / 180).
(* Julian centuries from J2000.0 *)
Definition tc (jde : R) : R := (jde - Rlit 24515450 (-1)) / Rlit 365250 (-1).
Lemma tc_eq jde : tc jde = (jde - 2451545) / 36525.
Proof. unfold tc. Rlit_norm. field. Qed.

(* geometric mean longitude 280.46646 + t (36000.76983 + 0.0003032 t) *)
Definition L0c (t : R) : R := Rlit 28046646 (-5) + t * (Rlit 3600076983 (-5) + t * Rlit 3032 (-7)).
(* mean anomaly 357.52911 + t (35999.05029 - 0.0001537 t) *)
Definition Mc (t : R) : R := Rlit 35752911 (-5) + t * (Rlit 3599905029 (-5) - t * Rlit 1537 (-7)).
(* eccentricity 0.016708634 - t (0.000042037 + 0.0000001267 t) *)
Definition ec (t : R) : R := Rlit 16708634 (-9) - t * (Rlit 42037 (-9) + t * Rlit 1267 (-10)).
(* equation of the centre, m in radians *)
Definition Cc (t m : R) : R :=
  (Rlit 1914602 (-6) - t * (Rlit 4817 (-6) + t * Rlit 14 (-6))) * sin m
  + (Rlit 19993 (-6) - t * Rlit 101 (-6)) * sin (Rlit 20 (-1) * m)
  + Rlit 289 (-6) * sin (Rlit 30 (-1) * m).

Definition Mred (t : R) : R := red360 (Mc t).
Definition Cred (t : R) : R := red360 (Cc t (rad (Mred t))).
Definition true_lon_c (t : R) : R := red360 (pos360 (red360 (L0c t)) + Cred t).
Definition true_anom_c (t : R) : R := red360 (Mred t + Cred t).
Definition radius_c (t : R) : R :=
  Rlit 1000001018 (-9) * (Rlit 10 (-1) - ec t * ec t)
  / (Rlit 10 (-1) + ec t * cos (rad (true_anom_c t))).

(* readable values of the constants *)
Lemma L0c_eq t : L0c t = 280.46646 + t * (36000.76983 + t * 0.0003032).
Proof. unfold L0c. Rlit_norm. unfold Q2R; cbn [QArith_base.Qnum QArith_base.Qden]. field. Qed.
Lemma Mc_eq t : Mc t = 357.52911 + t * (35999.05029 - t * 0.0001537).
Proof. unfold Mc. Rlit_norm. unfold Q2R; cbn [QArith_base.Qnum QArith_base.Qden]. field. Qed.
Lemma ec_eq t : ec t = 0.016708634 - t * (0.000042037 + t * 0.0000001267).
Proof. unfold ec. Rlit_norm. unfold Q2R; cbn [QArith_base.Qnum QArith_base.Qden]. field. Qed.
Lemma Cc_eq t m : Cc t m =
  (1.914602 - t * (0.004817 + t * 0.000014)) * sin m + (0.019993 - t * 0.000101) * sin (2 * m)
  + 0.000289 * sin (3 * m).
Proof.
  unfold Cc. replace (Rlit 20 (-1) * m) with (2 * m) by (Rlit_norm; field).
  replace (Rlit 30 (-1) * m) with (3 * m) by (Rlit_norm; field).
  Rlit_norm. unfold Q2R; cbn [QArith_base.Qnum QArith_base.Qden]. field.
Qed.

Lemma ec_range t : -10 <= t <= 10 -> 0.016 < ec t < 0.0172.
Proof. intros H. rewrite ec_eq. split; interval. Qed.

Lemma denom_pos t x : -10 <= t <= 10 -> Rlit 10 (-1) + ec t * cos x <> 0.
Proof.
  intros H. pose proof (ec_range t H) as He. pose proof (COS_bound x) as Hc.
  assert (Rlit 10 (-1) = 1) as -> by (Rlit_norm; lra).
  assert (- 0.0172 < ec t * cos x) by nra. lra.
Qed.

Section Coarse.
Variable jde : R.
Hypothesis Ht : -10 <= tc jde <= 10.

Theorem true_longitude_coarse_closed :
  Sun_true_longitude_coarse Rops (VObj cEpoch [VFloat jde]) =
  VTuple [ang (true_lon_c (tc jde)); VFloat (radius_c (tc jde))].
Proof.
  pose proof (fun x => denom_pos (tc jde) x Ht) as Hden. unfold ec, tc in Hden.
  pyrunv_using ltac:(first [ apply Hden | ivdec ]).
  try reflexivity.
Qed.
End Coarse.

(* ---- apparent longitude: true longitude - 0.00569 - 0.00478 sin(125.04 - 1934.136 t) ---- *)
Ltac2 Set Whnf.is_blocked as old := fun c =>
  Ltac2.Bool.or (old c) (Ltac2.Constr.equal c '@Sun_true_longitude_coarse).

Definition omega_c (t : R) : R := red360 (Rlit 12504 (-2) - Rlit 1934136 (-3) * t).
Definition app_lon_c (t tl : R) : R :=
  red360 (red360 (tl + - Rlit 569 (-5)) + - (Rlit 478 (-5) * sin (rad (omega_c t)))).

Lemma omega_c_eq t : omega_c t = red360 (125.04 - 1934.136 * t).
Proof.
  unfold omega_c. f_equal; try (Rlit_norm; unfold Q2R; cbn [QArith_base.Qnum QArith_base.Qden]; field).
Qed.

Theorem apparent_longitude_coarse_closed jde tl r :
  Sun_true_longitude_coarse Rops (VObj cEpoch [VFloat jde]) =
    VTuple [VObj cAngle [VFloat tl; VFloat tol0]; VFloat r] ->
  Sun_apparent_longitude_coarse Rops (VObj cEpoch [VFloat jde]) =
  VTuple [ang (app_lon_c (tc jde) tl); VFloat r].
Proof.
  intros Htrue. pyrunv. try reflexivity.
Qed.
