(* Property C08 - Sun/Earth positions agree across frames; obliquity and nutation are sane.
   Statements only; proofs are in C08_base.v, C08_obliquity.v, C08_sun.v, C08_j2000.v, C08_angle2.v,
   C08_frames.v, C08_equinox.v, C08_coarse.v, C08_node.v.  All theorems are about
   the real-number (ideal) instance Rops of the model regenerated from /repo on every run.
   ang d = the Angle object holding d degrees; an Epoch object is VObj cEpoch [VFloat jde]. *)
From Coq Require Import Reals ZArith List Bool Lra.
From PyLib Require Import PyVal PyBuiltins Ideal.
From Gen Require Import M_base M_Angle M_Epoch M_Interpolation M_Coordinates M_Earth M_Sun.
From Proofs.C08 Require Import C08_base C08_obliquity C08_sun C08_j2000.
From Proofs.C08 Require C08_angle2 C08_frames C08_equinox C08_coarse C08_node.
From Proofs.C08 Require C08_nut_angle C08_nut_loop C08_nut_main C08_nut_bound.
From Proofs.C08 Require C08_true C08_lat C08_latj C08_uncond C08_app C08_wide.
From Proofs.C07 Require C07_mono_code.
From Gen Require Import M_Moon.
Import ListNotations.
Open Scope R_scope.

Local Notation epoch j := (VObj cEpoch [VFloat j]).

(* mean_obliquity(epoch) is Laskar's degree-10 polynomial in u = (JDE - 2451545)/3652500 added to
   23 deg 26 min 21.448 s, for |u| <= 0.4 (years -2000..6000) *)
Theorem C08_mean_obliquity_polynomial : forall j, Rabs (uj j) <= 0.4 ->
  f_mean_obliquity Rops (VTuple [epoch j]) (VDict []) = ang (eps0 + laskar (uj j) / 3600).
Proof. exact mean_obliquity_poly. Qed.

(* ... and stays within 3 arcsec of the IAU cubic within 20 centuries of J2000 *)
Theorem C08_mean_obliquity_vs_IAU : forall j, Rabs ((j - 2451545) / 36525) <= 20 ->
  exists e, f_mean_obliquity Rops (VTuple [epoch j]) (VDict []) = ang e /\
            Rabs (e - iau_cubic ((j - 2451545) / 36525)) <= 3 / 3600.
Proof. exact mean_obliquity_vs_iau. Qed.

(* true obliquity = mean obliquity + nutation in obliquity, whatever the two callees return *)
Theorem C08_true_obliquity_is_sum : forall j e0 de,
  f_mean_obliquity Rops (VTuple [epoch j]) (VDict []) = ang e0 ->
  f_nutation_obliquity Rops (VTuple [epoch j]) (VDict []) = ang de ->
  -360 < e0 + de < 360 ->
  f_true_obliquity Rops (VTuple [epoch j]) (VDict []) = ang (e0 + de).
Proof. exact true_obliquity_sum. Qed.

(* the Sun's geometric geocentric position is the Earth's heliocentric one reflected: longitude + 180
   degrees reduced to [0, 360), latitude negated, same radius vector - for every result (L, B, R) of
   the VSOP87 callee, with or without the FK5 correction *)
Theorem C08_sun_geometric_is_earth_reflected : forall jde L B R flag,
  -360 < L < 360 -> -360 < B < 360 ->
  Earth_geometric_heliocentric_position Rops (epoch jde) (VBool flag) = VTuple [ang L; ang B; VFloat R] ->
  Sun_geometric_geocentric_position Rops (epoch jde) (VBool flag) =
  VTuple [ang (reflect_lon L); ang (- B); VFloat R].
Proof. exact sun_geometric_reflected. Qed.

Theorem C08_sun_apparent_is_earth_reflected : forall jde L B R flag,
  -360 < L < 360 -> -360 < B < 360 ->
  Earth_apparent_heliocentric_position Rops (epoch jde) (VBool flag) = VTuple [ang L; ang B; VFloat R] ->
  Sun_apparent_geocentric_position Rops (epoch jde) (VBool flag) =
  VTuple [ang (reflect_lon L); ang (- B); VFloat R].
Proof. exact sun_apparent_reflected. Qed.

(* reflect_lon L is L + 180 modulo 360, in [0, 360) *)
Theorem C08_reflected_longitude : forall L, -360 < L < 360 ->
  0 <= reflect_lon L < 360 /\ exists n : Z, reflect_lon L = L + 180 + 360 * IZR n.
Proof. intros L H. split; [exact (reflect_lon_range L H) | exact (reflect_lon_cong L)]. Qed.

(* rectangular coordinates of date: norm^2 = r^2 (1 + sin^2 lat) exactly (the code omits Meeus'
   factor cos lat), i.e. the norm is r to 2e-10 for |lat| <= 0.001 degree *)
Theorem C08_rectangular_of_date_norm : forall j L B R e,
  Sun_geometric_geocentric_position Rops (epoch j) (VBool true) = VTuple [ang L; ang B; VFloat R] ->
  f_mean_obliquity Rops (VTuple [epoch j]) (VDict []) = ang e ->
  exists x y z,
    Sun_rectangular_coordinates_mean_equinox Rops (epoch j) = VTuple [VFloat x; VFloat y; VFloat z] /\
    x * x + y * y + z * z = R * R * (1 + sin (B * (PI / 180)) * sin (B * (PI / 180))).
Proof. exact sun_rect_of_date. Qed.

Theorem C08_latitude_term_small : forall b, -1 / 1000 <= b <= 1 / 1000 ->
  sin (b * (PI / 180)) * sin (b * (PI / 180)) <= 4 / 10000000000.
Proof. exact sin_sq_small. Qed.

(* J2000 rectangular coordinates: the spherical vector of norm r times a constant matrix that is
   orthogonal to 2e-12, for every result (L, B, R) of the J2000 VSOP87 callee *)
Theorem C08_rectangular_j2000_norm : forall jde L B R,
  -360 < L < 360 -> -360 < B < 360 ->
  Earth_geometric_heliocentric_position_j2000 Rops (epoch jde) (VBool true) = VTuple [ang L; ang B; VFloat R] ->
  exists x y z,
    Sun_rectangular_coordinates_j2000 Rops (epoch jde) = VTuple [VFloat x; VFloat y; VFloat z] /\
    Rabs ((x * x + y * y + z * z) - R * R) <= 2 / 1000000000000 * (R * R).
Proof. exact sun_rect_j2000_norm. Qed.

(* ------------------------------------------------------------------------------------------
   Closed forms of the frame functions and of the coarse solar formulas (round 2).
   red360 = the Angle class's reduction to (-360, 360), pos360 = to_positive (Spec.AngleSpec);
   Rlit m e = the decimal literal m * 10^e of the source. *)

(* J2000: spherical vector of (lon + 180, -lat, r) of the J2000 VSOP87 callee, times the FK5 matrix
   with the literal constants *)
Theorem C08_rectangular_j2000_closed_form : forall jde L B R,
  -360 < L < 360 -> -360 < B < 360 ->
  Earth_geometric_heliocentric_position_j2000 Rops (epoch jde) (VBool true) = VTuple [ang L; ang B; VFloat R] ->
  Sun_rectangular_coordinates_j2000 Rops (epoch jde) =
  VTuple [VFloat (C08_frames.j2000_x (C08_frames.sx L B R) (C08_frames.sy L B R) (C08_frames.sz L B R));
          VFloat (C08_frames.j2000_y (C08_frames.sx L B R) (C08_frames.sy L B R) (C08_frames.sz L B R));
          VFloat (C08_frames.j2000_z (C08_frames.sx L B R) (C08_frames.sy L B R) (C08_frames.sz L B R))].
Proof. exact C08_frames.sun_rect_j2000_closed. Qed.

(* B1950 as generated: x1 = row1 . (x,y,z), y1 = row2 . (x1,y,z), z1 = row3 . (x1,y1,z) *)
Theorem C08_rectangular_b1950_closed_form : forall jde L B R,
  -360 < L < 360 -> -360 < B < 360 ->
  Earth_geometric_heliocentric_position_j2000 Rops (epoch jde) (VBool true) = VTuple [ang L; ang B; VFloat R] ->
  Sun_rectangular_coordinates_b1950 Rops (epoch jde) =
  VTuple [VFloat (C08_frames.b1950_x (C08_frames.sx L B R) (C08_frames.sy L B R) (C08_frames.sz L B R));
          VFloat (C08_frames.b1950_y (C08_frames.sx L B R) (C08_frames.sy L B R) (C08_frames.sz L B R));
          VFloat (C08_frames.b1950_z (C08_frames.sx L B R) (C08_frames.sy L B R) (C08_frames.sz L B R))].
Proof. exact C08_frames.sun_rect_b1950_closed. Qed.

(* the clause "B1950 coordinates have norm r (to 1e-7)" for that body, and its refutation
   (known finding norm-b1950 / frame-b1950): witness lon = 90, lat = 0, r = 1 *)
Definition C08_b1950_norm_full : Prop := C08_frames.b1950_norm_full.
Theorem C08_b1950_refuted : ~ C08_b1950_norm_full.
Proof. exact C08_frames.b1950_norm_refuted. Qed.

(* arbitrary equinox: rotation by zeta, z, theta of the J2000 vector, the three polynomials evaluated
   with t = (equinox - J2000)/36525 and T = tt = (epoch - equinox)/36525 *)
Theorem C08_rectangular_equinox_closed_form : forall jde jq x0 y0 z0,
  2451545 - 110000 <= jq <= 2451545 + 110000 -> 2000000 <= jde <= 2900000 ->
  Sun_rectangular_coordinates_j2000 Rops (epoch jde) = VTuple [VFloat x0; VFloat y0; VFloat z0] ->
  let t := C08_equinox.t_c jq in let tt := C08_equinox.tt_c jde jq in
  let ze := C08_equinox.rad (C08_equinox.zeta_c t tt / 3600) in
  let zz := C08_equinox.rad (C08_equinox.z_c t tt / 3600) in
  let th := C08_equinox.rad (C08_equinox.theta_c t tt / 3600) in
  Sun_rectangular_coordinates_equinox Rops (epoch jde) (epoch jq) =
  VTuple [VFloat (C08_equinox.rot_x ze zz th x0 y0 z0); VFloat (C08_equinox.rot_y ze zz th x0 y0 z0);
          VFloat (C08_equinox.rot_z ze zz th x0 y0 z0)].
Proof. intros jde jq x0 y0 z0 Hq Hj H. exact (C08_equinox.sun_rect_equinox_closed jde jq x0 y0 z0 Hq Hj H). Qed.

(* the polynomials with the constants of Meeus (21.2) *)
Theorem C08_equinox_angles : forall t tt,
  C08_equinox.zeta_c t tt =
    t * (2306.2181 + tt * (1.39656 - 0.000139 * tt) + t * (0.30188 - 0.000344 * tt + 0.017998 * t)) /\
  C08_equinox.z_c t tt =
    t * (2306.2181 + tt * (1.39656 - 0.000139 * tt) + t * (1.09468 + 0.000066 * tt + 0.018203 * t)) /\
  C08_equinox.theta_c t tt =
    t * (2004.3109 + tt * (-0.85330 - 0.000217 * tt) + t * (- (0.42665 + 0.000217 * tt) - 0.041833 * t)).
Proof. intros t tt. exact (conj (C08_equinox.zeta_c_eq t tt) (conj (C08_equinox.z_c_eq t tt) (C08_equinox.theta_c_eq t tt))). Qed.

(* the rotation is exactly orthogonal: the equinox coordinates have the norm of the J2000 ones *)
Theorem C08_rectangular_equinox_norm : forall ze z th x0 y0 z0,
  C08_equinox.rot_x ze z th x0 y0 z0 * C08_equinox.rot_x ze z th x0 y0 z0
  + C08_equinox.rot_y ze z th x0 y0 z0 * C08_equinox.rot_y ze z th x0 y0 z0
  + C08_equinox.rot_z ze z th x0 y0 z0 * C08_equinox.rot_z ze z th x0 y0 z0
  = x0 * x0 + y0 * y0 + z0 * z0.
Proof. exact C08_equinox.rot_norm. Qed.

(* "zeta is Meeus (21.2) started at J2000.0, i.e. T = 0" - refuted (known finding frame-equinox):
   the generated zeta depends on tt; at t = 3, tt = -13 it is more than 54 arcsec off *)
Definition C08_equinox_T_full : Prop := C08_equinox.equinox_T_full.
Theorem C08_equinox_T_refuted : ~ C08_equinox_T_full.
Proof. exact C08_equinox.equinox_T_refuted. Qed.

(* coarse true longitude and radius vector: explicit polynomials + equation of the centre, for
   epochs within 10 centuries of J2000.0 *)
Theorem C08_true_longitude_coarse_closed_form : forall jde,
  -10 <= C08_coarse.tc jde <= 10 ->
  Sun_true_longitude_coarse Rops (epoch jde) =
  VTuple [ang (C08_coarse.true_lon_c (C08_coarse.tc jde)); VFloat (C08_coarse.radius_c (C08_coarse.tc jde))].
Proof. exact C08_coarse.true_longitude_coarse_closed. Qed.

(* the constants of those polynomials *)
Theorem C08_coarse_constants : forall jde t m,
  C08_coarse.tc jde = (jde - 2451545) / 36525 /\
  C08_coarse.L0c t = 280.46646 + t * (36000.76983 + t * 0.0003032) /\
  C08_coarse.Mc t = 357.52911 + t * (35999.05029 - t * 0.0001537) /\
  C08_coarse.ec t = 0.016708634 - t * (0.000042037 + t * 0.0000001267) /\
  C08_coarse.Cc t m = (1.914602 - t * (0.004817 + t * 0.000014)) * sin m
                      + (0.019993 - t * 0.000101) * sin (2 * m) + 0.000289 * sin (3 * m) /\
  C08_coarse.omega_c t = C08_angle2.red360 (125.04 - 1934.136 * t).
Proof.
  intros jde t m.
  exact (conj (C08_coarse.tc_eq jde) (conj (C08_coarse.L0c_eq t) (conj (C08_coarse.Mc_eq t)
        (conj (C08_coarse.ec_eq t) (conj (C08_coarse.Cc_eq t m) (C08_coarse.omega_c_eq t)))))).
Qed.

(* coarse apparent longitude = true longitude - 0.00569 - 0.00478 sin(Omega), each step reduced *)
Theorem C08_apparent_longitude_coarse_closed_form : forall jde tl r,
  Sun_true_longitude_coarse Rops (epoch jde) = VTuple [ang tl; VFloat r] ->
  Sun_apparent_longitude_coarse Rops (epoch jde) =
  VTuple [ang (C08_coarse.app_lon_c (C08_coarse.tc jde) tl); VFloat r].
Proof. exact C08_coarse.apparent_longitude_coarse_closed. Qed.

(* Moon.longitude_mean_ascending_node: the node polynomial of the Moon module, reduced and made positive *)
Theorem C08_moon_node_closed_form : forall jde,
  Moon_longitude_mean_ascending_node Rops (epoch jde) =
  ang (C08_angle2.pos360 (C08_angle2.red360 (C08_node.node_moon (C08_node.tc jde)))).
Proof. exact C08_node.moon_node_closed. Qed.

Theorem C08_moon_node_constants : forall t, C08_node.node_moon t =
  125.0445479 + (-1934.1362891 + (0.0020754 + (1 / 476441 - t / 60616000) * t) * t) * t.
Proof. exact C08_node.node_moon_eq. Qed.

(* node_nutation is the node polynomial written inside nutation_longitude / nutation_obliquity
   (Coordinates.py:398, :473) with the translator's literals.  Both sides are tied to the generated
   code: the Moon side by C08_moon_node_closed_form, the nutation side because node_nutation is the
   fifth fundamental argument polyO of the structure theorems of the generated nutation series
   (C08_nutation_longitude/obliquity_structure; C08_nutation_remainders states polyO = node_nutation).
   The two polynomials agree to 0.0024 degree within 20 centuries of J2000.0 *)
Theorem C08_node_agreement : forall t, -20 <= t <= 20 ->
  Rabs (C08_node.node_nutation t - C08_node.node_moon t) <= 24 / 10000.
Proof. exact C08_node.node_agreement. Qed.
Theorem C08_node_nutation_constants : forall t, C08_node.node_nutation t =
  125.04452 + t * (-1934.136261 + t * (0.0020708 + t / 450000)).
Proof. exact C08_node.node_nutation_eq. Qed.

(* true obliquity without any assumption on nutation_obliquity: whatever it returns is handed to
   Angle.__add__ together with the mean obliquity (an error - OutOfFuel included - propagates) *)
Theorem C08_true_obliquity_structure : forall j, Rabs (uj j) <= 0.4 ->
  f_true_obliquity Rops (VTuple [epoch j]) (VDict []) =
  bind (f_nutation_obliquity Rops (VTuple [epoch j]) (VDict []))
       (fun de => Angle___add__ Rops (ang (eps0 + laskar (uj j) / 3600)) de).
Proof. exact true_obliquity_structure. Qed.

(* the reflection theorems are conditional on the documented result shape of the Earth callee; the
   other case: an error of the callee comes out unchanged *)
Theorem C08_sun_errors_propagate : forall jde flag x,
  (Earth_geometric_heliocentric_position Rops (epoch jde) (VBool flag) = VErr x ->
   Sun_geometric_geocentric_position Rops (epoch jde) (VBool flag) = VErr x) /\
  (Earth_apparent_heliocentric_position Rops (epoch jde) (VBool flag) = VErr x ->
   Sun_apparent_geocentric_position Rops (epoch jde) (VBool flag) = VErr x).
Proof. intros jde flag x. exact (conj (sun_geometric_error jde flag x) (sun_apparent_error jde flag x)). Qed.

(* the 2 arcsec clause for the generated equinox rotation against the rotation Meeus prescribes
   (same polynomials, T = 0), and its refutation: epoch 1000, equinox 2300, x axis *)
Definition C08_equinox_frame_full : Prop := C08_equinox.equinox_frame_full.
Theorem C08_equinox_frame_refuted : ~ C08_equinox_frame_full.
Proof. exact C08_equinox.equinox_frame_refuted. Qed.

(* ---- nutation (C08_nut_loop.v: generic theorem about the translated double loop, any table length;
   C08_nut_main.v: the generated loops are instances of it; C08_nut_bound.v: closed form and bounds).
   SCT / CCT / AT are the coefficient and argument tables decoded from the regenerated model;
   nut_term g CT T i = (a_i + b_i T) g(sum_j n_ij F_j(T) deg) / 10^4 with F = (D, M, M', F, Omega) the five
   polynomials written in the code (polyD .. polyO), T = (JDE - 2451545)/36525. *)

(* structure: nutation_longitude(epoch) = Angle(0, 0, sum_i (a_i + b_i T) sin(arg_i) / 10^4), every epoch *)
Theorem C08_nutation_longitude_structure : forall j,
  f_nutation_longitude Rops (VTuple [epoch j]) (VDict []) =
    Angle___init__ Rops (VObj cAngle [VNone; VNone])
      (VTuple [VInt 0; VInt 0; VFloat (C08_nut_main.nut_raw sin C08_nut_main.SCT (C08_nut_main.Tc j))]) (VDict []) /\
  C08_nut_main.nut_raw sin C08_nut_main.SCT (C08_nut_main.Tc j) =
    C08_nut_bound.bigsum (C08_nut_bound.nut_term sin C08_nut_main.SCT (C08_nut_main.Tc j)) 0 (length C08_nut_main.SCT).
Proof.
  intro j. split; [exact (C08_nut_main.nutation_longitude_struct j) | apply C08_nut_bound.nut_raw_sin_closed].
Qed.

Theorem C08_nutation_obliquity_structure : forall j,
  f_nutation_obliquity Rops (VTuple [epoch j]) (VDict []) =
    Angle___init__ Rops (VObj cAngle [VNone; VNone])
      (VTuple [VInt 0; VInt 0; VFloat (C08_nut_main.nut_raw cos C08_nut_main.CCT (C08_nut_main.Tc j))]) (VDict []) /\
  C08_nut_main.nut_raw cos C08_nut_main.CCT (C08_nut_main.Tc j) =
    C08_nut_bound.bigsum (C08_nut_bound.nut_term cos C08_nut_main.CCT (C08_nut_main.Tc j)) 0 (length C08_nut_main.CCT).
Proof.
  intro j. split; [exact (C08_nut_main.nutation_obliquity_struct j) | apply C08_nut_bound.nut_raw_cos_closed].
Qed.

(* amplitude: the series minus its first row (-171996 - 174.2 T) sin(Omega) / 10^4, resp.
   (92025 + 8.9 T) cos(Omega) / 10^4, Omega = the code's own node polynomial, is bounded by the sum of
   the other rows' amplitudes read from the extracted tables: 2.25'' and 0.89'' for |T| <= 20 *)
Theorem C08_nutation_remainders : forall t, Rabs t <= 20 ->
  Rabs (C08_nut_main.nut_raw sin C08_nut_main.SCT t - C08_nut_bound.main_psi t (C08_nut_main.polyO t)) <= 225 / 100 /\
  Rabs (C08_nut_main.nut_raw cos C08_nut_main.CCT t - C08_nut_bound.main_eps t (C08_nut_main.polyO t)) <= 89 / 100 /\
  C08_nut_main.polyO t = C08_node.node_nutation t.
Proof.
  intros t Ht. split; [apply C08_nut_bound.nutation_longitude_remainder; exact Ht|].
  split; [apply C08_nut_bound.nutation_obliquity_remainder; exact Ht | reflexivity].
Qed.

(* the property's clauses: nutation in longitude / obliquity is an Angle of dpsi / deps arc seconds within
   3.5'' / 1.5'' of the 18.6-year main term built on the MOON module's mean node (C08_node.node_moon,
   = Moon.longitude_mean_ascending_node by C08_moon_node_closed_form), for |T| <= 20 centuries *)
Theorem C08_nutation_longitude_main_term : forall j, Rabs (C08_nut_main.Tc j) <= 20 ->
  exists dpsi, f_nutation_longitude Rops (VTuple [epoch j]) (VDict []) = ang (dpsi / 3600) /\
    dpsi = C08_nut_main.nut_raw sin C08_nut_main.SCT (C08_nut_main.Tc j) /\
    Rabs (dpsi - (-171996 - 1742 / 10 * C08_nut_main.Tc j)
                 * sin (C08_node.node_moon (C08_nut_main.Tc j) * (PI / 180)) / 10000) <= 35 / 10.
Proof. exact C08_nut_bound.nutation_longitude_clause. Qed.

Theorem C08_nutation_obliquity_main_term : forall j, Rabs (C08_nut_main.Tc j) <= 20 ->
  exists deps, f_nutation_obliquity Rops (VTuple [epoch j]) (VDict []) = ang (deps / 3600) /\
    deps = C08_nut_main.nut_raw cos C08_nut_main.CCT (C08_nut_main.Tc j) /\
    Rabs (deps - (92025 + 89 / 10 * C08_nut_main.Tc j)
                 * cos (C08_node.node_moon (C08_nut_main.Tc j) * (PI / 180)) / 10000) <= 15 / 10.
Proof. exact C08_nut_bound.nutation_obliquity_clause. Qed.

(* true obliquity for an Epoch within 20 centuries of J2000.0, with NO assumption on the callees: both
   results are supplied by their own characterisation theorems, so the premises of
   C08_true_obliquity_is_sum are jointly satisfiable by what the model really returns *)
Theorem C08_true_obliquity_closed : forall j, Rabs (C08_nut_main.Tc j) <= 20 ->
  exists deps,
    f_nutation_obliquity Rops (VTuple [epoch j]) (VDict []) = ang (deps / 3600) /\
    f_mean_obliquity Rops (VTuple [epoch j]) (VDict []) = ang (eps0 + laskar (uj j) / 3600) /\
    f_true_obliquity Rops (VTuple [epoch j]) (VDict []) = ang (eps0 + laskar (uj j) / 3600 + deps / 3600) /\
    Rabs deps <= 11.
Proof. exact C08_true.true_obliquity_closed. Qed.

(* ------------------------------------------------------------------------------------------
   Round 4: the callee hypotheses discharged.  Property C07's theorems about the VSOP87 evaluator
   (direct sum over any tables, FK5 correction, amplitude envelopes read from the regenerated tables)
   are imported (coq/proofs/C07, compiled inside this property's build). *)

(* Earth.geometric_heliocentric_position really returns the shape the reflection theorems assume,
   for every epoch in years -2000 .. 6000, and the Earth's latitude stays below 0.00065 degree
   (2.34 arcsec: amplitude sum 2.24 arcsec of the latitude series + FK5 term) *)
Theorem C08_earth_callee_shape : forall jde, C07_mono_code.jde_lo <= jde <= C07_mono_code.jde_hi ->
  exists L B R,
    Earth_geometric_heliocentric_position Rops (epoch jde) (VBool true) = VTuple [ang L; ang B; VFloat R] /\
    0 <= L < 360 /\ Rabs B <= 65 / 100000.
Proof. exact C08_lat.earth_geometric_shape. Qed.

(* hence, with no assumption: the Sun's geometric position is the Earth's reflected *)
Theorem C08_sun_geometric_unconditional : forall jde, C07_mono_code.jde_lo <= jde <= C07_mono_code.jde_hi ->
  exists L B R,
    Earth_geometric_heliocentric_position Rops (epoch jde) (VBool true) = VTuple [ang L; ang B; VFloat R] /\
    Sun_geometric_geocentric_position Rops (epoch jde) (VBool true) =
      VTuple [ang (reflect_lon L); ang (- B); VFloat R] /\
    0 <= L < 360 /\ Rabs B <= 65 / 100000.
Proof. exact C08_lat.sun_geometric_unconditional. Qed.

(* ... and the of-date rectangular coordinates have norm r to 2e-10 relative (norm^2 within
   [r^2, r^2 (1 + 4e-10)]): the code follows Meeus in taking cos(lat) = 1; years -2000 .. 6000 *)
Theorem C08_rectangular_of_date_norm_unconditional : forall jde, Rabs (uj jde) <= 0.4 ->
  exists lon lat R x y z,
    Sun_geometric_geocentric_position Rops (epoch jde) (VBool true) = VTuple [ang lon; ang lat; VFloat R] /\
    Sun_rectangular_coordinates_mean_equinox Rops (epoch jde) = VTuple [VFloat x; VFloat y; VFloat z] /\
    R * R <= x * x + y * y + z * z <= R * R * (1 + 4 / 10000000000).
Proof. exact C08_lat.sun_rect_of_date_norm_unconditional. Qed.

(* the J2000 callee returns the assumed shape too (years -2000 .. 6000) *)
Theorem C08_earth_j2000_callee_shape : forall jde, C07_mono_code.jde_lo <= jde <= C07_mono_code.jde_hi ->
  exists L B R,
    Earth_geometric_heliocentric_position_j2000 Rops (epoch jde) (VBool true) = VTuple [ang L; ang B; VFloat R] /\
    0 <= L < 360 /\ Rabs B <= 101 / 100.
Proof. exact C08_latj.earth_j2000_shape. Qed.

(* hence the J2000 and arbitrary-equinox rectangular coordinates have norm r to 2e-12, unconditionally *)
Theorem C08_rectangular_j2000_norm_unconditional : forall jde, C07_mono_code.jde_lo <= jde <= C07_mono_code.jde_hi ->
  exists L B R x y z,
    Earth_geometric_heliocentric_position_j2000 Rops (epoch jde) (VBool true) = VTuple [ang L; ang B; VFloat R] /\
    Sun_rectangular_coordinates_j2000 Rops (epoch jde) = VTuple [VFloat x; VFloat y; VFloat z] /\
    Rabs ((x * x + y * y + z * z) - R * R) <= 2 / 1000000000000 * (R * R).
Proof. exact C08_uncond.j2000_norm_unconditional. Qed.

Theorem C08_rectangular_equinox_norm_unconditional : forall jde jq,
  2451545 - 110000 <= jq <= 2451545 + 110000 -> 2000000 <= jde <= 2900000 ->
  exists R x y z,
    (exists L B, Earth_geometric_heliocentric_position_j2000 Rops (epoch jde) (VBool true) =
                 VTuple [ang L; ang B; VFloat R]) /\
    Sun_rectangular_coordinates_equinox Rops (epoch jde) (epoch jq) = VTuple [VFloat x; VFloat y; VFloat z] /\
    Rabs ((x * x + y * y + z * z) - R * R) <= 2 / 1000000000000 * (R * R).
Proof. exact C08_uncond.equinox_norm_unconditional. Qed.

(* |true obliquity - mean obliquity| <= 9.2025 + 0.00089 |T| + 0.89 arc seconds, |T| <= 20 *)
Theorem C08_true_minus_mean_bound : forall j, Rabs (C08_nut_main.Tc j) <= 20 ->
  exists e0 deps,
    f_mean_obliquity Rops (VTuple [epoch j]) (VDict []) = ang e0 /\
    f_true_obliquity Rops (VTuple [epoch j]) (VDict []) = ang (e0 + deps / 3600) /\
    Rabs deps <= 92025 / 10000 + 89 / 100000 * Rabs (C08_nut_main.Tc j) + 89 / 100.
Proof. exact C08_true.true_minus_mean_bound. Qed.

(* the apparent variant (nutation on) with its callee hypothesis discharged, years -2000 .. 6000:
   apparent_vsop_pos on the Earth's tables = vsop_pos + FK5 + nutation (this property's structure
   theorem) + aberration (property C07's theorems), radius vector within 0.97 .. 1.03 AU *)
Theorem C08_sun_apparent_unconditional : forall jde, Rabs (C08_nut_main.Tc jde) <= 40 ->
  exists L B R,
    Earth_apparent_heliocentric_position Rops (epoch jde) (VBool true) = VTuple [ang L; ang B; VFloat R] /\
    Sun_apparent_geocentric_position Rops (epoch jde) (VBool true) =
      VTuple [ang (reflect_lon L); ang (- B); VFloat R] /\
    0 <= L < 360 /\ Rabs B <= 65 / 100000 /\ 97 / 100 <= R <= 103 / 100.
Proof. exact C08_app.sun_apparent_unconditional. Qed.

(* result shapes over the wider range |T| <= 40 centuries (years -2000 .. 6000), for clients (C09, C14):
   nutation in longitude / obliquity are Angles of at most 21 / 11 arc seconds (amplitude sums of the
   extracted tables), true obliquity = mean + nutation lies in (22, 25) degrees - no assumption *)
Theorem C08_nutation_shapes_wide : forall j, Rabs (C08_nut_main.Tc j) <= 40 ->
  (exists dpsi, f_nutation_longitude Rops (VTuple [epoch j]) (VDict []) = ang (dpsi / 3600) /\ Rabs dpsi <= 21) /\
  (exists deps, f_nutation_obliquity Rops (VTuple [epoch j]) (VDict []) = ang (deps / 3600) /\ Rabs deps <= 11) /\
  (exists deps, f_true_obliquity Rops (VTuple [epoch j]) (VDict []) = ang (eps0 + laskar (uj j) / 3600 + deps / 3600) /\
                Rabs deps <= 11 /\ 22 < eps0 + laskar (uj j) / 3600 + deps / 3600 < 25).
Proof.
  intros j HT. split; [|split].
  - destruct (C08_wide.nutation_longitude_shape40 j HT) as (d & H1 & _ & H2). exists d. split; assumption.
  - destruct (C08_wide.nutation_obliquity_shape40 j HT) as (d & H1 & _ & H2). exists d. split; assumption.
  - destruct (C08_wide.true_obliquity_closed40 j HT) as (d & H1 & _ & H2 & H3). exists d. repeat split; try assumption; apply H3.
Qed.

(* Print Assumptions of every theorem: C08_pa_0.v .. C08_pa_9.v (compiled in parallel) *)
