(* Property C08 - Sun/Earth positions agree across frames; obliquity and nutation are sane.
   Statements only; proofs are in C08_base.v, C08_obliquity.v, C08_sun.v, C08_j2000.v.  All theorems are about
   the real-number (ideal) instance Rops of the model regenerated from /repo on every run.
   ang d = the Angle object holding d degrees; an Epoch object is VObj cEpoch [VFloat jde]. *)
From Coq Require Import Reals ZArith List Bool Lra.
From PyLib Require Import PyVal PyBuiltins Ideal.
From Gen Require Import M_base M_Angle M_Epoch M_Interpolation M_Coordinates M_Earth M_Sun.
From Proofs.C08 Require Import C08_base C08_obliquity C08_sun C08_j2000.
Import ListNotations.
Open Scope R_scope.

Local Notation epoch j := (VObj cEpoch [VFloat j]).

(* mean_obliquity(epoch) is Laskar's degree-10 polynomial in u = (JDE - 2451545)/3652500 added to
   23 deg 26 min 21.448 s, for |u| <= 0.2 (years 0..4000) *)
Theorem C08_mean_obliquity_polynomial : forall j, Rabs (uj j) <= 0.2 ->
  f_mean_obliquity Rops (VTuple [epoch j]) (VDict []) = ang (eps0 + laskar (uj j) / 3600).
Proof. exact mean_obliquity_poly. Qed.

(* ... and stays within 3 arcsec of the IAU cubic within 20 centuries of J2000 *)
Theorem C08_mean_obliquity_vs_IAU : forall j, Rabs ((j - 2451545) / 36525) <= 20 ->
  exists e, f_mean_obliquity Rops (VTuple [epoch j]) (VDict []) = ang e /\
            Rabs (e - iau_cubic ((j - 2451545) / 36525)) <= 3 / 3600.
Proof. exact mean_obliquity_vs_iau. Qed.

(* true obliquity = mean obliquity + nutation in obliquity, whatever the two callees return *)
Theorem C08_true_obliquity_is_sum : forall j e0 de,
  f_mean_obliquity Rops (VTuple [epoch j]) (VDict []) = ang e0 ->
  f_nutation_obliquity Rops (VTuple [epoch j]) (VDict []) = ang de ->
  -360 < e0 + de < 360 ->
  f_true_obliquity Rops (VTuple [epoch j]) (VDict []) = ang (e0 + de).
Proof. exact true_obliquity_sum. Qed.

(* the Sun's geometric geocentric position is the Earth's heliocentric one reflected: longitude + 180
   degrees reduced to [0, 360), latitude negated, same radius vector - for every result (L, B, R) of
   the VSOP87 callee, with or without the FK5 correction *)
Theorem C08_sun_geometric_is_earth_reflected : forall jde L B R flag,
  -360 < L < 360 -> -360 < B < 360 ->
  Earth_geometric_heliocentric_position Rops (epoch jde) (VBool flag) = VTuple [ang L; ang B; VFloat R] ->
  Sun_geometric_geocentric_position Rops (epoch jde) (VBool flag) =
  VTuple [ang (reflect_lon L); ang (- B); VFloat R].
Proof. exact sun_geometric_reflected. Qed.

Theorem C08_sun_apparent_is_earth_reflected : forall jde L B R flag,
  -360 < L < 360 -> -360 < B < 360 ->
  Earth_apparent_heliocentric_position Rops (epoch jde) (VBool flag) = VTuple [ang L; ang B; VFloat R] ->
  Sun_apparent_geocentric_position Rops (epoch jde) (VBool flag) =
  VTuple [ang (reflect_lon L); ang (- B); VFloat R].
Proof. exact sun_apparent_reflected. Qed.

(* reflect_lon L is L + 180 modulo 360, in [0, 360) *)
Theorem C08_reflected_longitude : forall L, -360 < L < 360 ->
  0 <= reflect_lon L < 360 /\ exists n : Z, reflect_lon L = L + 180 + 360 * IZR n.
Proof. intros L H. split; [exact (reflect_lon_range L H) | exact (reflect_lon_cong L)]. Qed.

(* rectangular coordinates of date: norm^2 = r^2 (1 + sin^2 lat) exactly (the code omits Meeus'
   factor cos lat), i.e. the norm is r to 2e-10 for |lat| <= 0.001 degree *)
Theorem C08_rectangular_of_date_norm : forall j L B R e,
  Sun_geometric_geocentric_position Rops (epoch j) (VBool true) = VTuple [ang L; ang B; VFloat R] ->
  f_mean_obliquity Rops (VTuple [epoch j]) (VDict []) = ang e ->
  exists x y z,
    Sun_rectangular_coordinates_mean_equinox Rops (epoch j) = VTuple [VFloat x; VFloat y; VFloat z] /\
    x * x + y * y + z * z = R * R * (1 + sin (B * (PI / 180)) * sin (B * (PI / 180))).
Proof. exact sun_rect_of_date. Qed.

Theorem C08_latitude_term_small : forall b, -1 / 1000 <= b <= 1 / 1000 ->
  sin (b * (PI / 180)) * sin (b * (PI / 180)) <= 4 / 10000000000.
Proof. exact sin_sq_small. Qed.

(* J2000 rectangular coordinates: the spherical vector of norm r times a constant matrix that is
   orthogonal to 2e-12, for every result (L, B, R) of the J2000 VSOP87 callee *)
Theorem C08_rectangular_j2000_norm : forall jde L B R,
  -360 < L < 360 -> -360 < B < 360 ->
  Earth_geometric_heliocentric_position_j2000 Rops (epoch jde) (VBool true) = VTuple [ang L; ang B; VFloat R] ->
  exists x y z,
    Sun_rectangular_coordinates_j2000 Rops (epoch jde) = VTuple [VFloat x; VFloat y; VFloat z] /\
    Rabs ((x * x + y * y + z * z) - R * R) <= 2 / 1000000000000 * (R * R).
Proof. exact sun_rect_j2000_norm. Qed.

Redirect "C08_rectangular_j2000_norm.assumptions" Print Assumptions C08_rectangular_j2000_norm.
Redirect "C08_mean_obliquity_polynomial.assumptions" Print Assumptions C08_mean_obliquity_polynomial.
Redirect "C08_mean_obliquity_vs_IAU.assumptions" Print Assumptions C08_mean_obliquity_vs_IAU.
Redirect "C08_true_obliquity_is_sum.assumptions" Print Assumptions C08_true_obliquity_is_sum.
Redirect "C08_sun_geometric_is_earth_reflected.assumptions" Print Assumptions C08_sun_geometric_is_earth_reflected.
Redirect "C08_sun_apparent_is_earth_reflected.assumptions" Print Assumptions C08_sun_apparent_is_earth_reflected.
Redirect "C08_reflected_longitude.assumptions" Print Assumptions C08_reflected_longitude.
Redirect "C08_rectangular_of_date_norm.assumptions" Print Assumptions C08_rectangular_of_date_norm.
Redirect "C08_latitude_term_small.assumptions" Print Assumptions C08_latitude_term_small.
