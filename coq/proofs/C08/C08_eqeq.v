(* C08 / C16: the equation of the equinoxes on the generated code, fully linked.
   Epoch.apparent_sidereal_time(true_obliquity(e), nutation_longitude(e)) - Epoch.mean_sidereal_time()
   is below 1.2 s for T = (JDE - 2451545)/36525 in [-10.5, 8.5] centuries (years 950 .. 2850), ideal
   instance: the two arguments are the values the generated Coordinates.true_obliquity and
   Coordinates.nutation_longitude return (C08_true, C08_nut_bound), the sidereal-time formula is the
   generated Epoch.apparent_sidereal_time.  The range is what the worst-case amplitude bound
   |dpsi| <= 17.1996 + 0.01742 |T| + 2.25 arc seconds allows (1.2001 s at T = -11, 1.2003 s at T = 9). *)
From Coq Require Import Reals ZArith List Bool Lra Lia.
From Interval Require Import Tactic.
From PyLib Require Import PyVal PyBuiltins Ideal IdealFacts Whnf PyEval.
From Gen Require Import M_base M_Angle M_Epoch M_Interpolation M_Coordinates.
From Proofs.C08 Require Import C08_base C08_obliquity C08_nut_angle C08_nut_main C08_nut_bound C08_true.
Import ListNotations.
Open Scope R_scope.

(* ---- the generated Epoch.apparent_sidereal_time: mean + (dpsi * 3600 * cos eps) / 15 / 86400 ---- *)
Ltac2 Set Whnf.is_blocked as old := fun c =>
  Ltac2.Bool.or (old c) (Ltac2.Constr.equal c '@Epoch_mean_sidereal_time).

Lemma apparent_sidereal_angles j s eps te dpsi tp :
  Epoch_mean_sidereal_time Rops (VObj cEpoch [VFloat j]) = VFloat s ->
  Epoch_apparent_sidereal_time Rops (VObj cEpoch [VFloat j])
    (VObj cAngle [VFloat eps; VFloat te]) (VObj cAngle [VFloat dpsi; VFloat tp]) =
  VFloat (s + dpsi * 3600 * cos (eps * (PI / 180)) / 15 / 86400).
Proof.
  intros H. pyrunA. Rlit_norm. f_equal. field.
Qed.

(* ---- amplitude of the nutation in longitude ---- *)
Lemma main_psi_amp t om : Rabs (main_psi t om) <= 17.1996 + 0.01742 * Rabs t.
Proof.
  unfold main_psi. pose proof (SIN_bound (om * (PI / 180))) as Hs. set (sn := sin _) in *.
  unfold Rdiv. rewrite !Rabs_mult, (Rabs_right (/ 10000)) by lra.
  assert (Rabs (-171996 - 1742 / 10 * t) <= 171996 + 1742 / 10 * Rabs t) as H1.
  { replace (-171996 - 1742 / 10 * t) with (- (171996 + 1742 / 10 * t)) by ring. rewrite Rabs_Ropp.
    eapply Rle_trans; [apply Rabs_triang|]. rewrite (Rabs_right 171996) by lra.
    rewrite Rabs_mult, (Rabs_right (1742 / 10)) by lra. lra. }
  assert (Rabs sn <= 1) as H2 by (unfold Rabs; destruct (Rcase_abs sn); lra).
  pose proof (Rabs_pos sn). pose proof (Rabs_pos (-171996 - 1742 / 10 * t)). pose proof (Rabs_pos t). nra.
Qed.

Lemma dpsi_amp t : Rabs t <= 20 -> Rabs (nut_raw sin SCT t) <= 17.1996 + 0.01742 * Rabs t + 2.25.
Proof.
  intro Ht. pose proof (nutation_longitude_remainder t Ht) as H1.
  pose proof (main_psi_amp t (polyO t)) as H2.
  replace (nut_raw sin SCT t) with ((nut_raw sin SCT t - main_psi t (polyO t)) + main_psi t (polyO t)) by ring.
  eapply Rle_trans; [apply Rabs_triang|]. lra.
Qed.

(* ---- |dpsi cos(eps) / 15| < 1.2 s (same statement as coq/proofs/C16/C16_eqeq.v) ---- *)
Definition eps_true (T deps : R) : R := eps0 + laskar (T / 100) / 3600 + deps / 3600.

Lemma eqeq_pos T e : 0 <= T <= 8.5 -> -11 <= e <= 11 ->
  0 < cos (eps_true T e * (PI / 180)) /\
  (17.1996 + 0.01742 * T + 2.25) * cos (eps_true T e * (PI / 180)) / 15 < 1.2.
Proof.
  intros HT He. unfold eps_true, eps0, laskar. split.
  - interval.
  - interval with (i_bisect T, i_depth 12).
Qed.
Lemma eqeq_neg T e : -10.5 <= T <= 0 -> -11 <= e <= 11 ->
  0 < cos (eps_true T e * (PI / 180)) /\
  (17.1996 + 0.01742 * - T + 2.25) * cos (eps_true T e * (PI / 180)) / 15 < 1.2.
Proof.
  intros HT He. unfold eps_true, eps0, laskar. split.
  - interval.
  - interval with (i_bisect T, i_depth 12).
Qed.
Lemma eqeq_real T dpsi deps : -10.5 <= T <= 8.5 ->
  Rabs dpsi <= 17.1996 + 0.01742 * Rabs T + 2.25 -> Rabs deps <= 11 ->
  Rabs (dpsi * cos (eps_true T deps * (PI / 180)) / 15) < 1.2.
Proof.
  intros HT Hd He.
  assert (-11 <= deps <= 11) as He' by (unfold Rabs in He; destruct (Rcase_abs deps); lra).
  assert (0 < cos (eps_true T deps * (PI / 180)) /\
          (17.1996 + 0.01742 * Rabs T + 2.25) * cos (eps_true T deps * (PI / 180)) / 15 < 1.2) as [Hc Hb].
  { destruct (Rle_dec 0 T) as [P|N].
    - rewrite Rabs_right by lra. apply eqeq_pos; lra.
    - rewrite Rabs_left by lra. apply eqeq_neg; lra. }
  set (c := cos (eps_true T deps * (PI / 180))) in *.
  unfold Rdiv. rewrite !Rabs_mult, (Rabs_right c), (Rabs_right (/ 15)) by lra.
  pose proof (Rabs_pos dpsi). nra.
Qed.

(* ---- the linked statement ---- *)
Theorem equation_of_equinoxes j s :
  -10.5 <= (j - 2451545) / 36525 <= 8.5 ->
  Epoch_mean_sidereal_time Rops (epo j) = VFloat s ->
  exists eps dpsi a,
    f_true_obliquity Rops (VTuple [epo j]) (VDict []) = ang eps /\
    f_nutation_longitude Rops (VTuple [epo j]) (VDict []) = ang dpsi /\
    Epoch_apparent_sidereal_time Rops (epo j) (ang eps) (ang dpsi) = VFloat a /\
    Rabs ((a - s) * 86400) < 1.2.
Proof.
  intros HT Hs. set (T := (j - 2451545) / 36525) in *.
  assert (C08_nut_main.Tc j = T) as ET by (unfold C08_nut_main.Tc, T; Rlit_norm; field).
  assert (Rabs (C08_nut_main.Tc j) <= 20) as H20 by (rewrite ET; unfold Rabs; destruct (Rcase_abs T); lra).
  destruct (true_obliquity_closed j H20) as (deps & _ & _ & Ht & Hde).
  destruct (nutation_longitude_clause j H20) as (dpsi & Hn & Hdp & _).
  exists (eps0 + laskar (uj j) / 3600 + deps / 3600), (dpsi / 3600),
         (s + dpsi / 3600 * 3600 * cos ((eps0 + laskar (uj j) / 3600 + deps / 3600) * (PI / 180)) / 15 / 86400).
  split; [exact Ht|]. split; [exact Hn|].
  split; [exact (apparent_sidereal_angles j s _ _ _ _ Hs)|].
  assert (uj j = T / 100) as -> by (unfold uj, T; field).
  assert (Rabs dpsi <= 17.1996 + 0.01742 * Rabs T + 2.25) as Hd.
  { rewrite Hdp, ET. apply dpsi_amp. rewrite <- ET. exact H20. }
  pose proof (eqeq_real T dpsi deps HT Hd Hde) as H. unfold eps_true in H.
  match goal with |- Rabs ?x < _ =>
    replace x with (dpsi * cos ((eps0 + laskar (T / 100) / 3600 + deps / 3600) * (PI / 180)) / 15) by field end.
  exact H.
Qed.

(* ---- statement (kept in this file so that C08.v is not touched) ---- *)
Theorem C08_equation_of_equinoxes : forall j s : R,
  -10.5 <= (j - 2451545) / 36525 <= 8.5 ->
  Epoch_mean_sidereal_time Rops (VObj cEpoch [VFloat j]) = VFloat s ->
  exists eps dpsi a,
    f_true_obliquity Rops (VTuple [VObj cEpoch [VFloat j]]) (VDict []) = ang eps /\
    f_nutation_longitude Rops (VTuple [VObj cEpoch [VFloat j]]) (VDict []) = ang dpsi /\
    Epoch_apparent_sidereal_time Rops (VObj cEpoch [VFloat j]) (ang eps) (ang dpsi) = VFloat a /\
    Rabs ((a - s) * 86400) < 1.2.
Proof. exact equation_of_equinoxes. Qed.

Redirect "C08_equation_of_equinoxes.assumptions" Print Assumptions C08_equation_of_equinoxes.
