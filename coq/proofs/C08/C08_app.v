(* C08, ideal instance: the apparent variant with its callee hypothesis discharged.
   Earth.apparent_heliocentric_position = apparent_vsop_pos on the Earth's tables; property C07's
   theorems (imported) give vsop_pos as the direct sum over the regenerated tables, the FK5
   correction, the nutation/aberration step; the nutation in longitude comes from this property's
   own structure theorem.  Radius vector: |r - 1.00014| <= 0.022 AU from the amplitude sum of the
   R series, so 20.4898''/r stays in the range the Angle constructor lemmas cover. *)
From Coq Require Import Reals ZArith List Bool Lra Lia.
From Interval Require Import Tactic.
From PyLib Require Import PyVal PyBuiltins Ideal Whnf PyEval.
From Spec Require AngleSpec.
From Gen Require Import M_base M_Angle M_Epoch M_Interpolation M_Coordinates M_Earth M_Sun.
From Proofs.C07 Require C07_defs C07_lib C07_angle C07_series C07_corr C07_mono C07_dec
  C07_mono_code C07_mono_earth.
From Proofs.C08 Require Import C08_base C08_obliquity C08_sun.
From Proofs.C08 Require C08_nut_main C08_nut_bound C08_wide.
Import ListNotations.
Open Scope R_scope.

Lemma earth_apparent_wrapper jde flag :
  Earth_apparent_heliocentric_position Rops (VObj cEpoch [VFloat jde]) (VBool flag) =
  f_apparent_vsop_pos Rops (VObj cEpoch [VFloat jde]) (g_VSOP87_L Rops) (g_VSOP87_B Rops)
    (g_VSOP87_R Rops) (VBool flag).
Proof. reflexivity. Qed.

Lemma tB_env : C07_dec.env_check 15 4 C07_mono_earth.tB = true.
Proof. vm_compute. reflexivity. Qed.
Lemma tR_envc : C07_dec.envc_check 15 4 C07_mono_earth.tR = true.
Proof. vm_compute. reflexivity. Qed.

(* vsop_pos on the Earth's tables, with numeric bounds on latitude (rad) and radius (AU) *)
Lemma earth_vsop jde : C07_mono_code.jde_lo <= jde <= C07_mono_code.jde_hi ->
  exists lon b r,
    f_vsop_pos Rops (VObj cEpoch [VFloat jde]) (g_VSOP87_L Rops) (g_VSOP87_B Rops) (g_VSOP87_R Rops) =
      VTuple [ang lon; ang (b * (180 / PI)); VFloat r] /\
    0 <= lon < 360 /\ Rabs b <= 1087 / 100000000 /\ 97 / 100 <= r <= 103 / 100.
Proof.
  intros Hj. pose proof (C07_mono_code.tmill_range jde Hj) as Ht.
  pose proof (C07_series.vsop_pos_direct_sum jde (C07_dec.Rtable C07_mono_earth.tL)
                (C07_dec.Rtable C07_mono_earth.tB) (C07_dec.Rtable C07_mono_earth.tR)
                ltac:(discriminate) ltac:(discriminate) ltac:(discriminate)) as Hv.
  cbv zeta in Hv.
  rewrite <- C07_mono_earth.tL_enc, <- C07_mono_earth.tB_enc, <- C07_mono_earth.tR_enc in Hv.
  change ((jde - 2451545) / 365250) with (C07_mono_code.tmill jde) in Hv.
  pose proof (C07_dec.env_check_bound 15 4 _ tB_env _ Ht) as HB.
  pose proof (C07_dec.envc_check_bound 15 4 _ tR_envc _ Ht) as HR.
  set (SB := C07_lib.direct_sum (C07_mono_code.tmill jde) (C07_dec.Rtable C07_mono_earth.tB)) in *.
  set (SR := C07_lib.direct_sum (C07_mono_code.tmill jde) (C07_dec.Rtable C07_mono_earth.tR)) in *.
  assert (HB' : Rabs (SB / 100000000) <= 1087 / 100000000).
  { apply Rabs_le_bounds in HB. apply Rabs_le.
    assert (IZR (C07_dec.zabound 15 4 0 C07_mono_earth.tB) / IZR (10 ^ 15) <= 1087)
      by (apply Rmult_le_reg_r with (IZR (10 ^ 15)); [apply IZR_lt; reflexivity|];
          unfold Rdiv; rewrite Rmult_assoc, Rinv_l by (apply not_0_IZR; discriminate);
          rewrite Rmult_1_r, <- mult_IZR; apply IZR_le; vm_compute; discriminate).
    lra. }
  assert (HR' : 97 / 100 <= SR / 100000000 <= 103 / 100).
  { apply Rabs_le_bounds in HR.
    assert (Hc : 100013988 <= C07_dec.const_term C07_mono_earth.tR <= 100013989).
    { unfold C07_dec.const_term, C07_mono_earth.tR, C07_dec.rlit. cbn [fst snd]. Rlit_norm. lra. }
    assert (IZR (C07_dec.zabound 15 4 0 (C07_dec.tail_table C07_mono_earth.tR)) / IZR (10 ^ 15) <= 2300000)
      by (apply Rmult_le_reg_r with (IZR (10 ^ 15)); [apply IZR_lt; reflexivity|];
          unfold Rdiv; rewrite Rmult_assoc, Rinv_l by (apply not_0_IZR; discriminate);
          rewrite Rmult_1_r, <- mult_IZR; apply IZR_le; vm_compute; discriminate).
    lra. }
  assert (Hdeg : Rabs (SB / 100000000 * (180 / PI)) < 360).
  { apply Rabs_le_bounds in HB'. generalize dependent (SB / 100000000). intros b _ Hbb. apply Rabs_def1; interval. }
  rewrite (AngleSpec.red360_small _ Hdeg) in Hv.
  eexists _, (SB / 100000000), (SR / 100000000). split; [exact Hv|].
  split; [apply AngleSpec.pos360_range; apply AngleSpec.red360_range|]. split; assumption.
Qed.

Theorem earth_apparent_shape jde : Rabs (C08_nut_main.Tc jde) <= 40 ->
  exists L B R,
    Earth_apparent_heliocentric_position Rops (VObj cEpoch [VFloat jde]) (VBool true) =
      VTuple [ang L; ang B; VFloat R] /\
    0 <= L < 360 /\ Rabs B <= 65 / 100000 /\ 97 / 100 <= R <= 103 / 100.
Proof.
  intros HT.
  assert (Hj : C07_mono_code.jde_lo <= jde <= C07_mono_code.jde_hi).
  { apply Rabs_le_bounds in HT. unfold C08_nut_main.Tc in HT.
    unfold C07_mono_code.jde_lo, C07_mono_code.jde_hi.
    assert (E : jde - 2451545 = (jde - Rlit 24515450 (-1)) / Rlit 365250 (-1) * 36525) by (Rlit_norm; field).
    lra. }
  destruct (earth_vsop jde Hj) as (lon & b & r & Hv & Hlon & Hb & Hr).
  apply Rabs_le_bounds in Hb.
  assert (Hdeg : -63 / 100000 <= b * (180 / PI) <= 63 / 100000) by (split; interval).
  assert (Hlat : Rabs (tan (b * (180 / PI) * (PI / 180))) <= 500).
  { replace (b * (180 / PI) * (PI / 180)) with b by (field; apply PI_neq0).
    apply Rabs_le. split; interval. }
  pose proof (C07_corr.fk5_size jde lon (b * (180 / PI))) as [_ Hd].
  assert (Hs2 : sqrt 2 <= 15 / 10) by interval.
  assert (Hd' : Rabs (C07_corr.fk5_dlat jde lon) <= 2 / 100000).
  { replace (C07_corr.fk5_dlat jde lon) with (C07_corr.fk5_dlat jde lon * 3600 / 3600) by field.
    unfold Rdiv at 1. rewrite Rabs_mult, (Rabs_right (/ 3600)) by lra.
    apply Rabs_le_bounds in Hd. apply Rle_trans with (3916 / 100000 * sqrt 2 * / 3600).
    - apply Rmult_le_compat_r; [lra|]. apply Rabs_le. lra.
    - nra. }
  apply Rabs_le_bounds in Hd'.
  assert (Hred2 : AngleSpec.red360 (b * (180 / PI) + C07_corr.fk5_dlat jde lon)
                  = b * (180 / PI) + C07_corr.fk5_dlat jde lon).
  { apply AngleSpec.red360_small. apply Rabs_def1; lra. }
  pose proof (C07_corr.geometric_fk5 jde lon (b * (180 / PI)) r _ _ _ Hv Hlat) as G.
  rewrite Hred2 in G.
  destruct (C08_wide.nutation_longitude_shape40 jde HT) as (dpsi & Hn & _ & _).
  pose proof (C07_corr.apparent_nutation jde _ _ r (dpsi / 3600) _ _ _ G Hn ltac:(lra)) as A.
  eexists _, _, r. split; [rewrite earth_apparent_wrapper; exact A|].
  split; [apply C07_corr.corrected_range|]. split; [apply Rabs_le; lra | exact Hr].
Qed.

(* the reflection theorem, apparent variant with nutation, hypothesis discharged (|T| <= 40 centuries: years -2000 .. 6000) *)
Theorem sun_apparent_unconditional jde : Rabs (C08_nut_main.Tc jde) <= 40 ->
  exists L B R,
    Earth_apparent_heliocentric_position Rops (VObj cEpoch [VFloat jde]) (VBool true) =
      VTuple [ang L; ang B; VFloat R] /\
    Sun_apparent_geocentric_position Rops (VObj cEpoch [VFloat jde]) (VBool true) =
      VTuple [ang (reflect_lon L); ang (- B); VFloat R] /\
    0 <= L < 360 /\ Rabs B <= 65 / 100000 /\ 97 / 100 <= R <= 103 / 100.
Proof.
  intros HT. destruct (earth_apparent_shape jde HT) as (L & B & R & He & HL & HB & HR).
  exists L, B, R. split; [exact He|]. split; [|repeat split; try assumption; lra].
  apply Rabs_le_bounds in HB.
  apply (sun_apparent_reflected jde L B R true); [lra | lra | exact He].
Qed.
