(* C08, ideal instance: mean obliquity is Laskar's polynomial and stays within 3 arcsec of the
   IAU cubic for |T| <= 20 centuries; true obliquity = mean obliquity + nutation in obliquity. *)
From Coq Require Import Reals ZArith List Bool Lra Lia String.
From Interval Require Import Tactic.
From PyLib Require Import PyVal PyBuiltins Ideal Whnf PyEval.
From Gen Require Import M_base M_Angle M_Epoch M_Interpolation M_Coordinates.
From Proofs.C08 Require Import C08_base.
Import ListNotations.
Open Scope R_scope.

Definition epo (j : R) : val R := VObj cEpoch [VFloat j].

Lemma Rabs_le_bounds x b : Rabs x <= b -> - b <= x <= b.
Proof. intro H. unfold Rabs in H. destruct (Rcase_abs x); lra. Qed.

(* Laskar's polynomial (arc seconds) in u = T / 100, and the constants of the property *)
Definition laskar (u : R) : R :=
  u * (-4680.93 + u * (-1.55 + u * (1999.25 + u * (-51.38 + u * (-249.67
    + u * (-39.05 + u * (7.12 + u * (27.87 + u * (5.79 + u * 2.45))))))))).
Definition eps0 : R := 23 + 26 / 60 + 21.448 / 3600.
Definition iau_cubic (T : R) : R :=
  eps0 + (-46.8150 * T - 0.00059 * T * T + 0.001813 * T * T * T) / 3600.
Definition uj (j : R) : R := (j - 2451545) / 3652500.

Lemma laskar_small u : Rabs u <= 0.4 -> Rabs (laskar u) < 3600.
Proof. intros H. apply Rabs_le_bounds in H. unfold laskar. interval. Qed.

Lemma laskar_vs_iau T : Rabs T <= 20 ->
  Rabs ((eps0 + laskar (T / 100) / 3600) - iau_cubic T) <= 3 / 3600.
Proof.
  intros H. apply Rabs_le_bounds in H. unfold laskar, iau_cubic, eps0.
  interval with (i_bisect T, i_taylor T, i_degree 12).
Qed.

(* Angle(23, 26, 21.448) *)
Lemma Angle_eps0 :
  Angle___init__ Rops blank (VTuple [VInt 23; VInt 26; VFloat (Rlit 21448 (-3))]) (VDict []) = ang eps0.
Proof.
  myrun. apply ang_ext. zclosed. Rlit_norm. rewrite Rabs_right by lra. unfold eps0. lra.
Qed.

Lemma Angle_iadd_ang a b : -360 < a + b < 360 ->
  Angle___iadd__ Rops (ang a) (ang b) = ang (a + b).
Proof. intros H. pyrun. reflexivity. Qed.

Lemma Angle_add_ang a b : -360 < a + b < 360 ->
  Angle___add__ Rops (ang a) (ang b) = ang (a + b).
Proof. intros H. pyrun. reflexivity. Qed.

(* from here on Angle construction is opaque to the evaluator: its three uses in
   mean_obliquity are discharged with the lemmas above *)
Ltac2 Set Whnf.is_blocked as old := fun c =>
  Ltac2.Bool.or (old c) (Ltac2.Constr.equal c '@Angle___init__).

Ltac bind_step tac :=
  lazymatch goal with
  | |- bind ?e ?k = _ => let H := fresh "Hs" in eassert (H : e = _) by tac; rewrite H; clear H
  end.

Ltac powfix := unfold Q2R; cbn [QArith_base.Qnum QArith_base.Qden].
Ltac next_bind := rewrite bind_ok by reflexivity; cbv beta.

Lemma mean_obliquity_poly j : Rabs (uj j) <= 0.4 ->
  f_mean_obliquity Rops (VTuple [epo j]) (VDict []) = ang (eps0 + laskar (uj j) / 3600).
Proof.
  intros Hu. pose proof (laskar_small _ Hu) as Hl.
  pyrun.
  bind_step ltac:(exact Angle_eps0). next_bind.
  (* the nested Horner expression: plain call-by-value normalisation (no real comparison inside) *)
  bind_step ltac:(ideal_cbv; reflexivity). next_bind.
  bind_step ltac:(idtac;
    lazymatch goal with |- context [VFloat (?a * ?b)] =>
      let HD := fresh "HD" in
      assert (HD : a * b = laskar (uj j)) by (unfold laskar, uj; Rlit_norm; powfix; field);
      rewrite HD; apply Angle_dms_sec; exact Hl
    end). next_bind.
  bind_step ltac:(idtac;
    transitivity (Angle___iadd__ Rops (ang eps0) (ang (laskar (uj j) / 3600)));
    [ reflexivity
    | apply Angle_iadd_ang; apply Rabs_def2 in Hl; unfold eps0; lra ]).
  pyrun. reflexivity.
Qed.

(* the property's clause, on the generated function *)
Lemma mean_obliquity_vs_iau j : Rabs ((j - 2451545) / 36525) <= 20 ->
  exists e, f_mean_obliquity Rops (VTuple [epo j]) (VDict []) = ang e /\
            Rabs (e - iau_cubic ((j - 2451545) / 36525)) <= 3 / 3600.
Proof.
  intros HT. set (T := (j - 2451545) / 36525) in *.
  assert (Hu : uj j = T / 100) by (unfold uj, T; field).
  exists (eps0 + laskar (uj j) / 3600). split.
  - apply mean_obliquity_poly. rewrite Hu. apply Rabs_le_bounds in HT.
    unfold Rabs. destruct (Rcase_abs (T / 100)); lra.
  - rewrite Hu. apply laskar_vs_iau. exact HT.
Qed.

(* true obliquity: the two callees are opaque *)
Ltac2 Set Whnf.is_blocked as old := fun c =>
  Ltac2.Bool.or (old c) (Ltac2.List.exist (Ltac2.Constr.equal c)
    ['@f_mean_obliquity; '@f_nutation_obliquity]).

Lemma true_obliquity_sum j e0 de :
  f_mean_obliquity Rops (VTuple [epo j]) (VDict []) = ang e0 ->
  f_nutation_obliquity Rops (VTuple [epo j]) (VDict []) = ang de ->
  -360 < e0 + de < 360 ->
  f_true_obliquity Rops (VTuple [epo j]) (VDict []) = ang (e0 + de).
Proof.
  intros Hm Hn Hs.
  pyrun. bind_step ltac:(exact Hm). pyrun. bind_step ltac:(exact Hn). pyrun.
  transitivity (Angle___add__ Rops (ang e0) (ang de));
  [ reflexivity | apply Angle_add_ang; exact Hs ].
Qed.

(* unconditional form: no assumption on what nutation_obliquity returns (an error, OutOfFuel
   included, propagates through bind; a non-Angle value is refused by Angle.__add__ itself) *)
Lemma true_obliquity_structure j : Rabs (uj j) <= 0.4 ->
  f_true_obliquity Rops (VTuple [epo j]) (VDict []) =
  bind (f_nutation_obliquity Rops (VTuple [epo j]) (VDict []))
       (fun de => Angle___add__ Rops (ang (eps0 + laskar (uj j) / 3600)) de).
Proof.
  intros Hu. pyrun. bind_step ltac:(apply mean_obliquity_poly; exact Hu). next_bind.
  change (py_tuple (VTuple [epo j])) with (VTuple [epo j] : val R).
  generalize (f_nutation_obliquity Rops (VTuple [epo j]) (VDict [])). intros v.
  destruct v; try (rewrite !bind_ok by reflexivity; reflexivity).
  rewrite !bind_err. reflexivity.
Qed.

