(* C08, ideal instance: Sun.rectangular_coordinates_j2000 multiplies the spherical vector of
   norm r by a constant matrix M with |M^T M - I| <= 2e-12 (row sums), hence the norm is r to 2e-12. *)
From Coq Require Import Reals ZArith List Bool Lra Lia String.
From Coq Require Import PrimFloat.
From Interval Require Import Tactic.
From PyLib Require Import PyVal PyBuiltins Ideal Whnf PyEval.
From Gen Require Import M_base M_Angle M_Epoch M_Interpolation M_Coordinates M_Earth M_Sun.
From Proofs.C08 Require Import C08_base C08_sun.
Import ListNotations.
Close Scope float_scope.
Open Scope R_scope.

Lemma cross_bound k x y : Rabs (2 * k * x * y) <= Rabs k * (x * x + y * y).
Proof.
  assert (H : Rabs (2 * x * y) <= x * x + y * y).
  { pose proof (Rle_0_sqr (x + y)) as P1. pose proof (Rle_0_sqr (x - y)) as P2. unfold Rsqr in P1, P2.
    replace ((x + y) * (x + y)) with (x * x + y * y + 2 * x * y) in P1 by ring.
    replace ((x - y) * (x - y)) with (x * x + y * y - 2 * x * y) in P2 by ring.
    unfold Rabs. destruct (Rcase_abs (2 * x * y)); lra. }
  replace (2 * k * x * y) with (k * (2 * x * y)) by ring.
  rewrite Rabs_mult. apply Rmult_le_compat_l; [apply Rabs_pos | exact H].
Qed.

Lemma square_bound k x : Rabs (k * (x * x)) = Rabs k * (x * x).
Proof. rewrite Rabs_mult. f_equal. apply Rabs_right. apply Rle_ge. apply Rle_0_sqr. Qed.

Lemma quad_bound e11 e22 e33 e12 e13 e23 d x y z :
  Rabs e11 + Rabs e12 + Rabs e13 <= d ->
  Rabs e22 + Rabs e12 + Rabs e23 <= d ->
  Rabs e33 + Rabs e13 + Rabs e23 <= d ->
  Rabs (e11 * (x * x) + e22 * (y * y) + e33 * (z * z)
        + 2 * e12 * x * y + 2 * e13 * x * z + 2 * e23 * y * z) <= d * (x * x + y * y + z * z).
Proof.
  intros H1 H2 H3.
  pose proof (cross_bound e12 x y) as C12. pose proof (cross_bound e13 x z) as C13.
  pose proof (cross_bound e23 y z) as C23.
  pose proof (square_bound e11 x) as S1. pose proof (square_bound e22 y) as S2.
  pose proof (square_bound e33 z) as S3.
  assert (T : Rabs (e11 * (x * x) + e22 * (y * y) + e33 * (z * z)
                    + 2 * e12 * x * y + 2 * e13 * x * z + 2 * e23 * y * z)
              <= Rabs (e11 * (x * x)) + Rabs (e22 * (y * y)) + Rabs (e33 * (z * z))
                 + Rabs (2 * e12 * x * y) + Rabs (2 * e13 * x * z) + Rabs (2 * e23 * y * z)).
  { repeat (eapply Rle_trans; [apply Rabs_triang | apply Rplus_le_compat_r]). apply Rle_refl. }
  rewrite S1, S2, S3 in T. clear S1 S2 S3.
  pose proof (Rabs_pos e11). pose proof (Rabs_pos e22). pose proof (Rabs_pos e33).
  pose proof (Rabs_pos e12). pose proof (Rabs_pos e13). pose proof (Rabs_pos e23).
  set (X := x * x) in *. set (Y := y * y) in *. set (Z := z * z) in *.
  assert (0 <= X) by apply Rle_0_sqr. assert (0 <= Y) by apply Rle_0_sqr. assert (0 <= Z) by apply Rle_0_sqr.
  set (a11 := Rabs e11) in *. set (a22 := Rabs e22) in *. set (a33 := Rabs e33) in *.
  set (a12 := Rabs e12) in *. set (a13 := Rabs e13) in *. set (a23 := Rabs e23) in *.
  assert (Q1 : (a11 + a12 + a13) * X <= d * X) by (apply Rmult_le_compat_r; assumption).
  assert (Q2 : (a22 + a12 + a23) * Y <= d * Y) by (apply Rmult_le_compat_r; assumption).
  assert (Q3 : (a33 + a13 + a23) * Z <= d * Z) by (apply Rmult_le_compat_r; assumption).
  lra.
Qed.

(* the constants of Sun.rectangular_coordinates_j2000 *)
Definition ma : R := 44036 / 100000000000.
Definition mb : R := 190919 / 1000000000000.
Definition mc : R := 479966 / 1000000000000.
Definition md : R := 917482137087 / 1000000000000.
Definition me : R := 397776982902 / 1000000000000.

Lemma j2000_matrix_norm x y z :
  let x0 := x + ma * y - mb * z in
  let y0 := - mc * x + md * y - me * z in
  let z0 := me * y + md * z in
  Rabs ((x0 * x0 + y0 * y0 + z0 * z0) - (x * x + y * y + z * z))
  <= 2 / 1000000000000 * (x * x + y * y + z * z).
Proof.
  intros x0 y0 z0.
  replace ((x0 * x0 + y0 * y0 + z0 * z0) - (x * x + y * y + z * z)) with
    ((mc * mc) * (x * x) + (ma * ma + md * md + me * me - 1) * (y * y)
     + (mb * mb + me * me + md * md - 1) * (z * z)
     + 2 * (ma - mc * md) * x * y + 2 * (mc * me - mb) * x * z + 2 * (- ma * mb) * y * z)
    by (unfold x0, y0, z0; ring).
  apply quad_bound; unfold ma, mb, mc, md, me; interval.
Qed.

Lemma sphere_norm r l b :
  let x := r * cos b * cos l in let y := r * cos b * sin l in let z := r * sin b in
  x * x + y * y + z * z = r * r.
Proof.
  intros x y z. unfold x, y, z.
  pose proof (sin2_cos2 l) as Hl. pose proof (sin2_cos2 b) as Hb. unfold Rsqr in Hl, Hb.
  transitivity (r * r * (cos b * cos b * (sin l * sin l + cos l * cos l) + sin b * sin b)); [ring|].
  rewrite Hl. replace (cos b * cos b * 1 + sin b * sin b) with (sin b * sin b + cos b * cos b) by ring.
  rewrite Hb. ring.
Qed.

Section J2000.
Variables (jde L B R : R).
Hypothesis HL : -360 < L < 360.
Hypothesis HB : -360 < B < 360.

Lemma sun_rect_j2000_norm :
  Earth_geometric_heliocentric_position_j2000 Rops (epo jde) (VBool true) = VTuple [ang L; ang B; VFloat R] ->
  exists x y z,
    Sun_rectangular_coordinates_j2000 Rops (epo jde) = VTuple [VFloat x; VFloat y; VFloat z] /\
    Rabs ((x * x + y * y + z * z) - R * R) <= 2 / 1000000000000 * (R * R).
Proof.
  intros Hearth.
  pose proof (Angle_to_positive_ang L HL) as H1.
  assert (H2 : Angle___add__ Rops (item (VTuple [ang (topos L); ang (topos L)]) 1)
                 (VFloat (f_lit Rops 1800 (-1) 0x1.68p+7%float)) = ang (reflect_lon L))
    by exact (Angle_add_180 (topos L) (topos_range L HL)).
  assert (H3 : Angle___neg__ Rops (item (VTuple [ang L; ang B; VFloat R]) 1) = ang (- B))
    by exact (Angle_neg_ang B HB).
  do 3 eexists. split.
  - unfold epo, ang in *. pyrun. reflexivity.
  - set (l := reflect_lon L * (PI / 180)). set (b := - B * (PI / 180)).
    pose proof (j2000_matrix_norm (R * cos b * cos l) (R * cos b * sin l) (R * sin b)) as Hm.
    cbv zeta in Hm. rewrite (sphere_norm R l b) in Hm.
    unfold ma, mb, mc, md, me in Hm. Rlit_norm.
    match goal with |- Rabs (?u - _) <= _ =>
      match type of Hm with Rabs (?v - _) <= _ => replace u with v by (unfold b, l; field) end end.
    exact Hm.
Qed.
End J2000.
