(* C04: deg2dms / dms_tuple / ra_tuple / dms2deg in the ideal (real-arithmetic) instance,
   for every real value in (-360, 360). *)
From Coq Require Import Reals ZArith List Bool Lra Lia String.
From PyLib Require Import PyVal PyBuiltins Ideal IdealFacts Whnf PyEval.
From Gen Require Import M_base M_Angle.
From Proofs.C04 Require Import C04_tac.
Import ListNotations.
Open Scope R_scope.

Ltac2 Set Whnf.is_blocked as old := fun c =>
  Ltac2.Bool.or (old c) (Ltac2.Constr.equal c '@fmod_py).

Lemma reduce_deg_small x : Rabs x < 360 -> Angle_reduce_deg Rops (VFloat x) = VFloat x.
Proof. intros H. pyrun. reflexivity. Qed.

Ltac2 Set Whnf.is_blocked as old := fun c =>
  Ltac2.Bool.or (old c) (Ltac2.Constr.equal c '@Angle_reduce_deg).

Ltac pyA_hook s tac ::=
  lazymatch s with
  | Angle_reduce_deg Rops (VFloat ?x) => rewrite (reduce_deg_small x) by tac
  | fmod_py Rops ?x ?y => rewrite (fmod_py_nonneg x y) by (expose_R; tac)
  end.

Ltac c04_tac :=
  first [ assumption
        | Rlit_norm_all; lra
        | Rlit_norm_all;
          repeat match goal with
          | |- context [Rfmod ?a 1] =>
              lazymatch goal with
              | _ : 0 <= Rfmod a 1 < 1 |- _ => fail
              | _ => assert (0 <= Rfmod a 1 < 1) by (apply Rfmod_1_bounds; c04_tac)
              end
          end; lra ].

(* ------------------------------------------------------------------ the decomposition, independent of the code *)
Definition sx_d (a : R) : Z := Rfloor a.
Definition sx_mi (a : R) : R := (a - IZR (Rfloor a)) * 60.
Definition sx_m (a : R) : Z := Rfloor (sx_mi a).
Definition sx_s (a : R) : R := (sx_mi a - IZR (sx_m a)) * 60.
Definition sgn1 (x : R) : R := if Rle_dec 0 x then 1 else -1.
Definition sexa (x : R) : val R :=
  VTuple [VInt (sx_d (Rabs x)); VInt (sx_m (Rabs x)); VFloat (sx_s (Rabs x)); VFloat (sgn1 x)].

(* integer degrees in [0,T), integer minutes in [0,60), seconds in [0,60), exact recombination *)
Theorem sexa_spec a T : (0 < T)%Z -> 0 <= a < IZR T ->
  (0 <= sx_d a < T)%Z /\ (0 <= sx_m a < 60)%Z /\ 0 <= sx_s a < 60 /\
  IZR (sx_d a) + IZR (sx_m a) / 60 + sx_s a / 3600 = a.
Proof.
  intros HT Ha. unfold sx_s, sx_m, sx_mi, sx_d.
  pose proof (Rfloor_le a) as L1. pose proof (Rfloor_lt a) as L2.
  set (d := Rfloor a) in *.
  set (mi := (a - IZR d) * 60).
  assert (0 <= mi < 60) as Hmi by (unfold mi; lra).
  pose proof (Rfloor_le mi) as M1. pose proof (Rfloor_lt mi) as M2.
  set (m := Rfloor mi) in *.
  assert (0 <= d)%Z as D0 by (apply Rfloor_nonneg; lra).
  assert (d < T)%Z as D1.
  { apply lt_IZR. lra. }
  assert (0 <= m)%Z as M0 by (apply Rfloor_nonneg; lra).
  assert (m < 60)%Z as M3.
  { apply lt_IZR. lra. }
  repeat split; try lia; try lra.
  unfold mi. field.
Qed.

Lemma sgn1_pm x : sgn1 x = 1 \/ sgn1 x = -1.
Proof. unfold sgn1. destruct (Rle_dec 0 x); auto. Qed.
Lemma sgn1_abs x : sgn1 x * Rabs x = x.
Proof.
  unfold sgn1. destruct (Rle_dec 0 x).
  - rewrite Rabs_right by lra. lra.
  - rewrite Rabs_left by lra. lra.
Qed.

(* ------------------------------------------------------------------ deg2dms *)
Lemma deg2dms_raw x : -360 < x < 360 ->
  Angle_deg2dms Rops (VFloat x) =
  VTuple [VInt (Rtrunc (Rabs x));
          VInt (Rtrunc (Rfmod (Rabs x) 1 * 60));
          VFloat (Rfmod (Rfmod (Rabs x) 1 * 60) 1 * 60);
          VFloat (sgn1 x)].
Proof.
  intros H. pose proof (Rabs_pos x) as Hp.
  assert (Rabs x < 360) as Ha by (unfold Rabs; destruct (Rcase_abs x); lra).
  unfold sgn1. destruct (Rle_dec 0 x) as [P|P].
  - pyrunA_using c04_tac. Rlit_norm.
    replace (600 / 10) with 60 by lra. replace (10 / 10) with 1 by lra. reflexivity.
  - pyrunA_using c04_tac. Rlit_norm.
    replace (600 / 10) with 60 by lra. replace (-10 / 10) with (-1) by lra. reflexivity.
Qed.

Theorem deg2dms_ideal x : -360 < x < 360 -> Angle_deg2dms Rops (VFloat x) = sexa x.
Proof.
  intros H. rewrite (deg2dms_raw x H). pose proof (Rabs_pos x) as Hp.
  unfold sexa, sx_s, sx_m, sx_mi, sx_d.
  set (a := Rabs x) in *.
  pose proof (Rfmod_1_bounds a Hp) as B1.
  rewrite (Rtrunc_nonneg a Hp).
  rewrite (Rfmod_1 a Hp) in *.
  set (mi := (a - IZR (Rfloor a)) * 60) in *.
  assert (0 <= mi) as Hmi by (unfold mi; lra).
  rewrite (Rtrunc_nonneg mi Hmi). rewrite (Rfmod_1 mi Hmi). reflexivity.
Qed.

(* ------------------------------------------------------------------ the two views of an Angle *)
Definition tol0 : R := Rlit 1 (-10).
Definition ang (d : R) : val R := VObj cAngle [VFloat d; VFloat tol0].

Ltac2 Set Whnf.is_blocked as old := fun c =>
  Ltac2.Bool.or (old c) (Ltac2.Constr.equal c '@Angle_deg2dms).

Theorem dms_tuple_ideal x : -360 < x < 360 -> Angle_dms_tuple Rops (ang x) = sexa x.
Proof.
  intros H. pose proof (deg2dms_ideal x H) as Hd.
  pyrunA_using c04_tac. reflexivity.
Qed.

Theorem ra_tuple_ideal x : -360 < x < 360 -> Angle_ra_tuple Rops (ang x) = sexa (x / 15).
Proof.
  intros H. assert (-360 < x / 15 < 360) as H15 by lra.
  pose proof (deg2dms_ideal (x / 15) H15) as Hd.
  assert (x / Rlit 150 (-1) = x / 15) as E by (Rlit_norm; field).
  rewrite <- E in Hd at 1.
  pyrunA_using c04_tac. reflexivity.
Qed.

(* ------------------------------------------------------------------ d/m/s -> decimal *)
Ltac2 Set Whnf.is_blocked as old := fun c =>
  Ltac2.Bool.or (old c) (Ltac2.Constr.equal c '@Z.ltb).

Lemma reduce_dms_canonical d m s : (0 <= d < 360)%Z -> (0 <= m < 60)%Z -> 0 <= s < 60 ->
  Angle_reduce_dms Rops (VInt d) (VInt m) (VFloat s) = VTuple [VInt d; VInt m; VFloat s; VFloat 1].
Proof.
  intros Hd Hm Hs.
  assert ((d <? 0)%Z = false) as E1 by (apply Z.ltb_ge; lia).
  assert ((m <? 0)%Z = false) as E2 by (apply Z.ltb_ge; lia).
  assert (Z.abs d = d) as E3 by lia. assert (Z.abs m = m) as E4 by lia.
  assert (0 <= IZR m < 60) as Bm by (split; [apply IZR_le | apply IZR_lt]; lia).
  assert (0 <= IZR d < 360) as Bd by (split; [apply IZR_le | apply IZR_lt]; lia).
  assert (Rabs s = s) as E5 by (apply Rabs_right; lra).
  pyrunA_using ltac:(first [ c04_tac | rewrite ?E3, ?E4, ?E5, ?Z.mod_1_r; expose_R; Rlit_norm_all; simpl; lra ]).
  rewrite E3, E4, E5, Z.mod_small by lia. Rlit_norm. replace (10 / 10) with 1 by lra. reflexivity.
Qed.

Ltac2 Set Whnf.is_blocked as old := fun c =>
  Ltac2.Bool.or (old c) (Ltac2.Constr.equal c '@Angle_reduce_dms).

(* canonical pieces: dms2deg is the plain recombination *)
Theorem dms2deg_canonical d m s : (0 <= d < 360)%Z -> (0 <= m < 60)%Z -> 0 <= s < 60 ->
  IZR d + IZR m / 60 + s / 3600 < 360 ->
  Angle_dms2deg Rops (VInt d) (VInt m) (VFloat s) = VFloat (IZR d + IZR m / 60 + s / 3600).
Proof.
  intros Hd Hm Hs Hlt.
  pose proof (reduce_dms_canonical d m s Hd Hm Hs) as HR.
  assert (0 <= IZR m < 60) as Bm by (split; [apply IZR_le | apply IZR_lt]; lia).
  assert (0 <= IZR d < 360) as Bd by (split; [apply IZR_le | apply IZR_lt]; lia).
  set (v := IZR d + IZR m / 60 + s / 3600) in *.
  assert (0 <= v) as Hv by (unfold v; lra).
  assert (1 * (IZR d + IZR m / Rlit 600 (-1) + s / Rlit 36000 (-1)) = v) as Ev by (unfold v; Rlit_norm; field).
  pyrunA_using ltac:(first [ c04_tac | expose_R; rewrite ?Ev; unfold Rabs; destruct (Rcase_abs v); lra ]).
  rewrite Ev. reflexivity.
Qed.

(* the decomposition followed by dms2deg gives the absolute value back; with the sign: the value *)
Theorem inverse_ideal x : -360 < x < 360 ->
  Angle_dms2deg Rops (VInt (sx_d (Rabs x))) (VInt (sx_m (Rabs x))) (VFloat (sx_s (Rabs x))) = VFloat (Rabs x)
  /\ sgn1 x * Rabs x = x.
Proof.
  intros H. split; [| apply sgn1_abs].
  pose proof (Rabs_pos x) as Hp.
  assert (Rabs x < 360) as Ha by (unfold Rabs; destruct (Rcase_abs x); lra).
  destruct (sexa_spec (Rabs x) 360 ltac:(lia) ltac:(lra)) as (Hd & Hm & Hs & Hr).
  rewrite dms2deg_canonical by (try assumption; rewrite Hr; assumption).
  rewrite Hr. reflexivity.
Qed.
