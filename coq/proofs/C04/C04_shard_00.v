(* C04 shard 0: grid points 0 .. 292, by kernel computation *)
From Coq Require Import ZArith NArith.
From PyLib Require Import Range.
From Proofs.C04 Require Import C04_defs.
Lemma shard : all_range 0 293%N chk_point = true.
Proof. vm_cast_no_check (@eq_refl bool true). Qed.
