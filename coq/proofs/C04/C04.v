(* Property C04 — sexagesimal and right-ascension decomposition and printing are canonical.
   Statements only; proofs are in C04_ideal.v (real-arithmetic instance, every real value in
   (-360,360)) and C04_grid.v (binary64 instance, kernel computation over the explicit grid
   C04_defs.grid: 4678 Angle values = 4224 whole seconds/minutes/degrees (and hours/RA minutes/
   RA seconds times 15) perturbed by 0, +-1, +-2 ulp, +-1e-12, +-5e-13, +-1e-13, both signs;
   54 values around 0 and +-360; 400 pseudo-random values).  The model is regenerated from
   /repo on every run. *)
From Coq Require Import Reals ZArith List String QArith PrimFloat.
From PyLib Require Import PyVal PyBuiltins Ideal B64 B64Facts.
From Gen Require Import M_base M_Angle.
From Proofs.C04 Require Import C04_defs C04_grid C04_ideal.
From PyLib Require B64Verified.
From Spec Require AngleSpec.
From Proofs.C04 Require C04_b64.
Import ListNotations.

(* [ideal] deg2dms of any real value in (-360,360) is (floor|x|, floor(frac|x| * 60), rest * 60, sign) ... *)
Theorem C04_deg2dms_ideal : forall x : R, (-360 < x < 360)%R ->
  Angle_deg2dms Rops (VFloat x) = sexa x.
Proof. exact deg2dms_ideal. Qed.

(* ... and that tuple has integer degrees in [0,T) (T = 360, or 24 for hours), integer minutes in
   [0,60), seconds in [0,60), sign +-1, and recombines to |x| EXACTLY *)
Theorem C04_tuples_ideal :
  (forall x : R, (-360 < x < 360)%R -> Angle_dms_tuple Rops (ang x) = sexa x) /\
  (forall x : R, (-360 < x < 360)%R -> Angle_ra_tuple Rops (ang x) = sexa (x / 15)) /\
  (forall (a : R) (T : Z), (0 < T)%Z -> (0 <= a < IZR T)%R ->
     (0 <= sx_d a < T)%Z /\ (0 <= sx_m a < 60)%Z /\ (0 <= sx_s a < 60)%R /\
     (IZR (sx_d a) + IZR (sx_m a) / 60 + sx_s a / 3600 = a)%R) /\
  (forall x : R, sgn1 x = 1%R \/ sgn1 x = (-1)%R).
Proof. exact (conj dms_tuple_ideal (conj ra_tuple_ideal (conj sexa_spec sgn1_pm))). Qed.

(* [ideal] d/m/s -> decimal inverts the decomposition: dms2deg of the pieces is |x|, times the sign is x *)
Theorem C04_inverse_ideal : forall x : R, (-360 < x < 360)%R ->
  Angle_dms2deg Rops (VInt (sx_d (Rabs x))) (VInt (sx_m (Rabs x))) (VFloat (sx_s (Rabs x))) = VFloat (Rabs x)
  /\ (sgn1 x * Rabs x = x)%R.
Proof. exact inverse_ideal. Qed.

Open Scope Z_scope.

(* [B64] printed forms on the grid, n_dec -1..12, fancy and colon, angle and RA: the string produced
   by the generated dms_str / ra_str (with Python's repr(float)) parses into fields p such that
   minutes and seconds are below 60, the leading field is below 360 degrees / 24 h or the print is
   exactly the whole turn (e.g. 24h 0' 0.0'', which reads back to 0 modulo 24 h),
   the sign sits exactly once on the leading non-zero field, the seconds are a multiple of
   10^-n_dec, and the string reads back to the value within half a unit of that decimal
   (+ 4 ulps of the double |x|*3600, resp. |x|*240 for RA seconds, + 1e-300 s) modulo 360 degrees / 24 h *)
Theorem C04_print_grid_b64 : forall i (ra fancy : bool) nd, 0 <= i < 4678 -> -1 <= nd <= 12 ->
  in_range (grid i) = true /\
  exists p, printed_of (grid i) ra fancy nd = Some p /\
    chk_no60 p = true /\ chk_lead ra p = true /\ chk_sign (grid i) p = true /\
    chk_decimals nd p = true /\ chk_readback (grid i) ra nd p = true.
Proof. intros i ra fancy nd Hi Hn. split; [exact (grid_in_range i Hi) | exact (print_grid i ra fancy nd Hi Hn)]. Qed.

(* [B64] dms_tuple / ra_tuple on the grid: integer degrees in [0,360) (hours in [0,24)), integer
   minutes in [0,60), 0 <= seconds < 60, sign +-1, recombination within 1e-9 degree (exact rationals) *)
Theorem C04_tuple_grid_b64 : forall i (ra : bool), 0 <= i < 4678 -> chk_tuple (grid i) ra = true.
Proof. exact tuple_grid. Qed.

(* [B64, EVERY finite float x] (RV = real value of a float, fin = finite, RN = round to nearest even;
   a = |red360 x| is the reduced magnitude, which reduce_deg computes exactly):
   deg2dms(x) = (floor a, floor p, RN((p - floor p) 60), +-1.0) with p = RN((a - floor a) 60);
   degrees in 0..359, minutes in 0..59, 0 <= seconds < 60 (the products cannot round up to 60.0) *)
Theorem C04_deg2dms_b64 : forall x : float, B64Verified.fin x ->
  let a := Rabs (AngleSpec.red360 (B64Verified.RV x)) in
  let de := Raux.Zfloor a in
  let p := B64Verified.RN ((a - IZR de) * 60)%R in
  let mi := Raux.Zfloor p in
  exists se sg,
    Angle_deg2dms B0 (VFloat x) = VTuple [VInt de; VInt mi; VFloat se; VFloat sg] /\
    (0 <= de <= 359)%Z /\ (0 <= mi <= 59)%Z /\
    B64Verified.fin se /\ B64Verified.RV se = B64Verified.RN ((p - IZR mi) * 60)%R /\
    (0 <= B64Verified.RV se < 60)%R /\
    ((0 <= AngleSpec.red360 (B64Verified.RV x))%R /\ sg = 1%float \/
     (AngleSpec.red360 (B64Verified.RV x) < 0)%R /\ sg = (-1)%float).
Proof. exact C04_b64.deg2dms_b64. Qed.

Redirect "C04_deg2dms_ideal.assumptions" Print Assumptions C04_deg2dms_ideal.
Redirect "C04_tuples_ideal.assumptions" Print Assumptions C04_tuples_ideal.
Redirect "C04_inverse_ideal.assumptions" Print Assumptions C04_inverse_ideal.
Redirect "C04_print_grid_b64.assumptions" Print Assumptions C04_print_grid_b64.
Redirect "C04_tuple_grid_b64.assumptions" Print Assumptions C04_tuple_grid_b64.
Redirect "C04_deg2dms_b64.assumptions" Print Assumptions C04_deg2dms_b64.
