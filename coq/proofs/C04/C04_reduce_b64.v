(* C04_reduce_b64 (verbatim copy of proofs/C03/C03_reduce_b64.v, each check compiles only its own directory): Angle.reduce_deg in the BINARY64 instance, every finite float (kernel lemma
   of DESIGN 8/C03).  The generated function is evaluated symbolically with an abstract primitive
   float (tactic b64run below); the arithmetic facts come from PyLib.B64Verified (floor / trunc /
   fmod(x,1) / int->float of B64.v proved against Flocq's semantics of binary64).
   Result: reduce_deg is EXACT in binary64: the returned float has the real value
   Spec.AngleSpec.red360 of the argument -- no rounding error at all; hence |r| < 360 and the
   sign of x.  Needs the modules base, Angle only. *)
From Coq Require Import ZArith Reals Lra Lia Bool List.
From Coq Require Import Uint63 Floats.
From Flocq Require Import Core BinarySingleNaN PrimFloat.
From PyLib Require Import PyVal PyBuiltins B64 B64Verified Whnf PyEval B64Eval.
From Spec Require Import AngleSpec.
From Gen Require Import M_base M_Angle.
Import ListNotations.

(* symbolic evaluation of the generated model in the binary64 instance with an abstract float:
   weak-head steps (Whnf), binds call-by-value; a stuck primitive comparison is normalised and
   decided by a hypothesis of the context, or computed if it is closed *)
Open Scope R_scope.

Lemma RV_360 : RV 0x1.68p+8%float = 360.
Proof. rewrite RV_SF. vm_compute Prim2SF. unfold SF2R, F2R. simpl. lra. Qed.
Lemma fin_360 : fin 0x1.68p+8%float.
Proof. apply fin_prim. reflexivity. Qed.

Lemma self_eqb a : fin a -> (a =? a)%float = true.
Proof. intro Fa. rewrite (eqb_R a a Fa Fa). apply Req_bool_true. reflexivity. Qed.
Lemma not_inf a : fin a -> (abs a =? infinity)%float = false.
Proof.
  intro Fa. pose proof (self_eqb a Fa) as E. destruct (fin_prim a) as [Hf _]. specialize (Hf Fa).
  unfold PrimFloat.is_finite, PrimFloat.is_nan, PrimFloat.is_infinity in Hf. rewrite E in Hf. simpl in Hf.
  destruct (abs a =? infinity)%float; [discriminate | reflexivity].
Qed.

(* Angle.reduce_deg in binary64 is EXACT: for every finite float x the generated function returns
   the float whose value is the real-number reduction red360 of x (no rounding anywhere) *)
Theorem reduce_deg_b64_exact x : fin x ->
  exists r, Angle_reduce_deg B0 (VFloat x) = VFloat r /\ fin r /\ RV r = red360 (RV x).
Proof.
  intro Fx. assert (fin (abs x)) as Fa by (apply abs_fin; exact Fx).
  pose proof (self_eqb (abs x) Fa) as C6. pose proof (not_inf (abs x) Fa) as C7.
  destruct (0x1.68p+8 <=? abs x)%float eqn:C1.
  2:{ (* |x| < 360: returned unchanged *)
    exists x. split; [b64run; reflexivity|]. split; [exact Fx|].
    rewrite (leb_R _ _ fin_360 Fa), RV_360, abs_R in C1.
    destruct (Rle_bool_spec 360 (Rabs (RV x))) as [|L]; [discriminate|].
    symmetry. apply red360_small. exact L. }
  assert (360 <= Rabs (RV x)) as H360.
  { rewrite (leb_R _ _ fin_360 Fa), RV_360, abs_R in C1.
    destruct (Rle_bool_spec 360 (Rabs (RV x))) as [L|]; [exact L | discriminate]. }
  assert (0 <= RV (abs x)) as Ha0 by (rewrite abs_R; apply Rabs_pos).
  destruct (b64_fmod_1_value (abs x) Fa) as [Hm Fm].
  change (b64_fmod (abs x) 1) with (b64_fmod (abs x) (b64_of_Z 1)) in Hm, Fm.
  set (m := b64_fmod (abs x) (b64_of_Z 1)) in *.
  assert (0 <= RV m) as Hm0.
  { rewrite Hm. unfold Ztrunc. rewrite Rlt_bool_false by exact Ha0. pose proof (Zfloor_lb (RV (abs x))). lra. }
  assert ((m <? b64_of_Z 0)%float = false) as C5.
  { change (b64_of_Z 0) with 0%float. rewrite (ltb_R m 0 Fm fin_zero), RV_zero. apply Rlt_bool_false. exact Hm0. }
  (* the fractional part handed to the sum: m, or +0.0 when m is a zero *)
  assert (exists fr, fin fr /\ RV fr = RV (abs x) - IZR (Ztrunc (RV (abs x))) /\
            forall sg, fin sg ->
            Angle_reduce_deg B0 (VFloat x) =
              VFloat ((if (b64_of_Z 0 <=? x)%float then 1 else -1) * (b64_of_Z (b64_trunc (abs x) mod 360) + fr))%float)
    as (fr & Ffr & Hfr & Hrun).
  { destruct (m =? b64_of_Z 0)%float eqn:C4.
    - exists 0%float. split; [exact fin_zero|]. split.
      + rewrite RV_zero, <- Hm. change (b64_of_Z 0) with 0%float in C4.
        rewrite (eqb_R m 0 Fm fin_zero), RV_zero in C4.
        destruct (Req_bool_spec (RV m) 0) as [E|]; [symmetry; exact E | discriminate].
      + intros _ _. destruct (b64_of_Z 0 <=? x)%float eqn:C2.
        * b64run. reflexivity.
        * b64run. reflexivity.
    - exists m. split; [exact Fm|]. split; [exact Hm|].
      intros _ _. destruct (b64_of_Z 0 <=? x)%float eqn:C2.
      + b64run. reflexivity.
      + b64run. reflexivity. }
  rewrite (Hrun 1%float fin_one). clear Hrun.
  destruct (reduce_kernel_gen (abs x) fr Fa Ha0 Ffr Hfr) as (Hs & Fs & Hrange).
  set (s := (b64_of_Z (b64_trunc (abs x) mod 360) + fr)%float) in *.
  change (b64_of_Z 0) with 0%float. rewrite (leb_R 0 x fin_zero Fx), RV_zero.
  unfold red360. destruct (Rlt_dec (Rabs (RV x)) 360) as [Bad|_]; [lra|].
  change (fl (Rabs (RV x) / 360)) with (Zfloor (Rabs (RV x) / 360)).
  rewrite abs_R in Hs. unfold sgn.
  destruct (Rle_bool_spec 0 (RV x)) as [Hp | Hn].
  - destruct (mul_one_l s Fs) as [A B]. eexists. split; [reflexivity|]. split; [exact B|].
    rewrite A, Hs. destruct (Rle_dec 0 (RV x)); [ring | lra].
  - destruct (mul_mone_l s Fs) as [A B]. eexists. split; [reflexivity|]. split; [exact B|].
    rewrite A, Hs. destruct (Rle_dec 0 (RV x)); [lra | ring].
Qed.

(* consequences: |result| < 360, sign of x *)
Corollary reduce_deg_b64_range x : fin x ->
  exists r, Angle_reduce_deg B0 (VFloat x) = VFloat r /\ fin r /\ Rabs (RV r) < 360 /\
            (0 <= RV x -> 0 <= RV r) /\ (RV x <= 0 -> RV r <= 0).
Proof.
  intro Fx. destruct (reduce_deg_b64_exact x Fx) as (r & E & Fr & Hr).
  exists r. split; [exact E|]. split; [exact Fr|]. rewrite Hr.
  pose proof (red360_range (RV x)). pose proof (red360_sign (RV x)) as [S1 S2].
  split; [apply Rabs_def1; lra|]. split; assumption.
Qed.

Print Assumptions reduce_deg_b64_exact.
