(* C04: the explicit binary64 grid, a parser for the strings printed by the
   generated dms_str / ra_str, and the boolean checkers run by the kernel.
   Everything is compared in exact rational arithmetic (QArith). *)
From Coq Require Import ZArith NArith List Bool String Ascii QArith Qabs Qround PrimFloat.
From PyLib Require Import PyVal PyBuiltins B64 B64Facts Range.
From Gen Require Import M_base M_Angle.
Import ListNotations.
Open Scope Z_scope.

(* ------------------------------------------------------------------ the grid *)
Fixpoint up_n (n : nat) (x : float) : float := match n with O => x | S k => up_n k (next_up x) end.
Fixpoint down_n (n : nat) (x : float) : float := match n with O => x | S k => down_n k (next_down x) end.

(* perturbations: 0, +-1, +-2 ulp, +-1e-12, +-5e-13, +-1e-13 *)
Definition perturb (j : Z) (x : float) : float :=
  match j with
  | 0 => x | 1 => up_n 1 x | 2 => up_n 2 x | 3 => down_n 1 x | 4 => down_n 2 x
  | 5 => (x + 0x1.19799812dea11p-40)%float | 6 => (x - 0x1.19799812dea11p-40)%float
  | 7 => (x + 0x1.19799812dea11p-41)%float | 8 => (x - 0x1.19799812dea11p-41)%float
  | 9 => (x + 0x1.c25c268497682p-44)%float | _ => (x - 0x1.c25c268497682p-44)%float
  end.
Definition n_perturb : Z := 11.

Definition deg_choices : list Z := [0; 1; 13; 179; 358; 359].
Definition hour_choices : list Z := [0; 1; 7; 12; 22; 23].
Definition min_choices : list Z := [0; 1; 30; 59].
Definition sec_choices : list Z := [0; 1; 30; 59].
Definition pick (l : list Z) (i : Z) : Z := nth (Z.to_nat i) l 0.

(* family A, index 0 <= i < 4224: sign x RA? x leading field x minute x second x perturbation;
   the base value is the correctly rounded double of  D + M/60 + S/3600  (times 15 for RA) *)
Definition n_famA : Z := 2 * 2 * 6 * 4 * 4 * n_perturb.
Definition famA (i : Z) : float :=
  let j := i mod n_perturb in let i := i / n_perturb in
  let s := pick sec_choices (i mod 4) in let i := i / 4 in
  let m := pick min_choices (i mod 4) in let i := i / 4 in
  let dsel := i mod 6 in let i := i / 6 in
  let ra := i mod 2 in let neg := i / 2 in
  let secs := (if ra =? 1 then pick hour_choices dsel else pick deg_choices dsel) * 3600 + m * 60 + s in
  let x := b64_of_Q (if ra =? 1 then 15 * secs else secs) 3600 in
  let x := perturb j x in
  if neg =? 1 then (- x)%float else x.

(* family B: neighbourhoods of 0 and of +-360, former trouble spots *)
Definition famB_list : list float :=
  let pos := [0; 0x0.0000000000001p-1022; 0x1.56e1fc2f8f359p-997; 0x1.79ca10c924223p-67;
              0x1.c25c268497682p-44; 0x1.19799812dea11p-40; 0x1.5fd7fe1796495p-37; 0x1.12e0be826d695p-30;
              0x1.7315cdfce0816p-29; 0x1.74e1a3f0b2c5ap-29; 0x1.11111111110c6p-6; 0x1.0000000000000p-1;
              0x1.26e978d4fdf3bp-7; 0x1.ffffffffffc7bp-1; 0x1.bffffffffffc8p+3; 0x1.b06516db0dd83p+3;
              0x1.5600000000000p+5; 0x1.1580000000000p+7; 0x1.7726af368edd5p+4; 0x1.58fffffffffffp+8;
              0x1.5900000000000p+8; 0x1.67ffffffff921p+8; 0x1.67fffffffffeep+8; 0x1.67fffffffffffp+8;
              0x1.67ffffffffffep+8; 0x1.67ffffffffffdp+8; 0x1.67ffffffffffcp+8]%float in
  pos ++ map PrimFloat.opp pos.
Definition n_famB : Z := 54.

(* family C: 400 pseudo-random values in (-360, 360) from a linear congruential generator *)
Definition lcg (i : Z) : Z := (6364136223846793005 * (i + 1) * (i + 7) + 1442695040888963407 * (i + 3)) mod 18446744073709551616.
Definition n_famC : Z := 400.
Definition famC (i : Z) : float :=
  let r := lcg i / 2048 in                                   (* 53 bits *)
  (b64_of_Q (r * 720) 9007199254740992 - 360)%float.

Definition n_grid : Z := n_famA + n_famB + n_famC.
Definition grid (i : Z) : float :=
  if i <? n_famA then famA i
  else if i <? n_famA + n_famB then nth (Z.to_nat (i - n_famA)) famB_list 0%float
  else famC (i - n_famA - n_famB).

(* ------------------------------------------------------------------ exact values *)
Definition Qpow10 (k : Z) : Q := if 0 <=? k then inject_Z (10 ^ k) else 1 # Z.to_pos (10 ^ (- k)).
Definition Q_of_float (x : float) : Q :=
  match b64_parts x with
  | Some (m, e) => if 0 <=? e then inject_Z (Z.shiftl m e) else m # Z.to_pos (Z.shiftl 1 (- e))
  | None => 0
  end.
(* distance of q to the nearest multiple of per (per > 0) *)
Definition Qdist_mod (q per : Q) : Q :=
  let r := (q - inject_Z (Qfloor (q / per)) * per)%Q in
  if Qle_bool r (per - r) then r else (per - r)%Q.

(* ------------------------------------------------------------------ parser *)
Definition is_digit (c : ascii) : bool := let n := N_of_ascii c in (48 <=? n)%N && (n <=? 57)%N.
Definition digit_val (c : ascii) : Z := Z.of_N (N_of_ascii c) - 48.

Fixpoint read_digits (s : string) (acc : Z) (cnt : Z) : Z * Z * string :=
  match s with
  | String c r => if is_digit c then read_digits r (10 * acc + digit_val c) (cnt + 1) else (acc, cnt, s)
  | EmptyString => (acc, cnt, s)
  end.

(* a Python int or float literal at the head of s:
   (negative?, mantissa, decimal exponent, plain integer syntax?, rest) *)
Definition read_num (s : string) : option (bool * Z * Z * bool * string) :=
  let (neg, s1) := match s with String "-" r => (true, r) | _ => (false, s) end in
  let '(ip, n1, s2) := read_digits s1 0 0 in
  if n1 =? 0 then None else
  let '(mant, fexp, isint, s3) :=
    match s2 with
    | String "." r => let '(m2, n2, r2) := read_digits r ip 0 in (m2, - n2, false, r2)
    | _ => (ip, 0, true, s2)
    end in
  match s3 with
  | String "e" (String sg r) =>
      let '(ev, n3, r3) := read_digits r 0 0 in
      if n3 =? 0 then None else
      if Ascii.eqb sg "-" then Some (neg, mant, fexp - ev, false, r3)
      else if Ascii.eqb sg "+" then Some (neg, mant, fexp + ev, false, r3)
      else None
  | _ => Some (neg, mant, fexp, isint, s3)
  end.

Record printed := { p_dneg : bool; p_d : Z; p_mneg : bool; p_m : Z; p_sneg : bool; p_smant : Z; p_sexp : Z }.

Definition read_int (s : string) : option (bool * Z * string) :=
  match read_num s with
  | Some (neg, m, _, true, r) => Some (neg, m, r)
  | _ => None
  end.
Definition read_sec (s : string) : option (bool * Z * Z * string) :=
  match read_num s with
  | Some (neg, m, e, _, r) => Some (neg, m, e, r)
  | None => None
  end.

(* "Dd M' S''" | "M' S''" | "S''"   (unit letter u = d or h) *)
Definition parse_fancy (u : ascii) (s : string) : option printed :=
  match read_sec s with
  | None => None
  | Some (n1, m1, e1, r1) =>
    match r1 with
    | String "'" (String "'" EmptyString) => Some {| p_dneg := false; p_d := 0; p_mneg := false; p_m := 0; p_sneg := n1; p_smant := m1; p_sexp := e1 |}
    | String "'" (String " " r2) =>
        match read_int s, read_sec r2 with
        | Some (mn, mv, _), Some (n3, m3, e3, String "'" (String "'" EmptyString)) =>
            Some {| p_dneg := false; p_d := 0; p_mneg := mn; p_m := mv; p_sneg := n3; p_smant := m3; p_sexp := e3 |}
        | _, _ => None
        end
    | String c (String " " r2) =>
        if Ascii.eqb c u then
          match read_int s, read_int r2 with
          | Some (dn, dv, _), Some (mn, mv, String "'" (String " " r3)) =>
              match read_sec r3 with
              | Some (n3, m3, e3, String "'" (String "'" EmptyString)) =>
                  Some {| p_dneg := dn; p_d := dv; p_mneg := mn; p_m := mv; p_sneg := n3; p_smant := m3; p_sexp := e3 |}
              | _ => None
              end
          | _, _ => None
          end
        else None
    | _ => None
    end
  end.

(* "D:M:S" *)
Definition parse_colon (s : string) : option printed :=
  match read_int s with
  | Some (dn, dv, String ":" r1) =>
      match read_int r1 with
      | Some (mn, mv, String ":" r2) =>
          match read_sec r2 with
          | Some (n3, m3, e3, EmptyString) =>
              Some {| p_dneg := dn; p_d := dv; p_mneg := mn; p_m := mv; p_sneg := n3; p_smant := m3; p_sexp := e3 |}
          | _ => None
          end
      | _ => None
      end
  | _ => None
  end.

(* ------------------------------------------------------------------ clause checkers *)
Definition tol_deg : Q := 1 # 1000000000.        (* 1e-9 degree: the property's tolerance for the tuple recombination *)

(* the clauses of the property for one printed string, one boolean each *)
Definition sec_value (p : printed) : Q := (inject_Z p.(p_smant) * Qpow10 p.(p_sexp))%Q.

(* never 60 (or more) in minutes or seconds *)
Definition chk_no60 (p : printed) : bool := (p.(p_m) <? 60) && negb (Qle_bool 60 (sec_value p)).

(* the leading field is below a whole turn (360 degrees / 24 h), or the print is exactly the whole
   turn (minutes and seconds zero), which reads back to 0 modulo a turn *)
Definition chk_lead (ra : bool) (p : printed) : bool :=
  let top := if ra then 24 else 360 in
  (p.(p_d) <? top) || ((p.(p_d) =? top) && (p.(p_m) =? 0) && (p.(p_smant) =? 0)).

(* the sign exactly once, on the leading non-zero field (none for a positive value or an all-zero print) *)
Definition chk_sign (x : float) (p : printed) : bool :=
  let neg := (x <? 0)%float in
  if negb (p.(p_d) =? 0) then Bool.eqb p.(p_dneg) neg && negb p.(p_mneg) && negb p.(p_sneg)
  else if negb (p.(p_m) =? 0) then negb p.(p_dneg) && Bool.eqb p.(p_mneg) neg && negb p.(p_sneg)
  else if negb (p.(p_smant) =? 0) then negb p.(p_dneg) && negb p.(p_mneg) && Bool.eqb p.(p_sneg) neg
  else negb p.(p_dneg) && negb p.(p_mneg) && negb p.(p_sneg).

(* the seconds are a multiple of 10^-n_dec *)
Definition chk_decimals (nd : Z) (p : printed) : bool :=
  if nd <? 0 then true else
  let k := p.(p_sexp) + nd in (0 <=? k) || (p.(p_smant) mod 10 ^ (- k) =? 0).

(* what the string reads back to, in seconds of arc (of time for RA), signed *)
Definition read_back (p : printed) : Q :=
  let v := (inject_Z (p.(p_d) * 3600 + p.(p_m) * 60) + sec_value p)%Q in
  if p.(p_dneg) || p.(p_mneg) || p.(p_sneg) then (- v)%Q else v.

(* the binary64 resolution of the value expressed in seconds: one ulp of the double |x| * k *)
Definition ulp_of (y : float) : Q := Q_of_float (next_up y - y)%float.
Definition readback_ulps : Q := 4 # 1.
Definition underflow_floor : Q := Qpow10 (-300).

(* read-back: within half a unit of the requested decimal of the value, modulo a turn; on top of that
   half unit only 4 ulps of |x|*3600 (|x|*240 for RA seconds) are allowed, + 1e-300 s for the
   underflow of x/15 on denormals *)
Definition chk_readback (x : float) (ra : bool) (nd : Z) (p : printed) : bool :=
  let k := if ra then (240 # 1)%Q else (3600 # 1)%Q in       (* seconds per degree *)
  let kf := if ra then 240%float else 3600%float in
  let turn := inject_Z ((if ra then 24 else 360) * 3600) in
  let step := if nd <? 0 then 0%Q else (Qpow10 (- nd) * (1 # 2))%Q in
  let tol := (readback_ulps * ulp_of (abs x * kf)%float + underflow_floor)%Q in
  Qle_bool (Qdist_mod (read_back p - Q_of_float x * k) turn) (step + tol).

Definition chk_printed (x : float) (ra : bool) (nd : Z) (p : printed) : bool :=
  chk_no60 p && chk_lead ra p && chk_sign x p && chk_decimals nd p && chk_readback x ra nd p.

(* the model's string for Angle(x), parsed *)
Definition mk_angle (x : float) : val float :=
  Angle___init__ B0 (VObj cAngle [VNone; VNone]) (VTuple [VFloat x]) (VDict []).

Definition printed_of (x : float) (ra fancy : bool) (nd : Z) : option printed :=
  let a := mk_angle x in
  match (if ra then Angle_ra_str B0 a (VBool fancy) (VInt nd) else Angle_dms_str B0 a (VBool fancy) (VInt nd)) with
  | VStr s => if fancy then parse_fancy (if ra then "h" else "d")%char s else parse_colon s
  | _ => None
  end.

Definition chk_str (x : float) (ra fancy : bool) (nd : Z) : bool :=
  match printed_of x ra fancy nd with
  | Some p => chk_printed x ra nd p
  | None => false
  end.

(* the tuple clauses: integer fields in range, sign +-1, recombination within 1e-9 degree *)
Definition chk_tuple (x : float) (ra : bool) : bool :=
  let a := mk_angle x in
  match (if ra then Angle_ra_tuple B0 a else Angle_dms_tuple B0 a) with
  | VTuple [VInt d; VInt m; VFloat s; VFloat sg] =>
      (0 <=? d) && (d <? (if ra then 24 else 360)) && (0 <=? m) && (m <? 60) &&
      (0 <=? s)%float && (s <? 60)%float &&
      ((sg =? 1)%float || (sg =? -1)%float) &&
      (let v := (inject_Z d + inject_Z m * (1 # 60) + Q_of_float s * (1 # 3600))%Q in
       let v := if (sg <? 0)%float then (- v)%Q else v in
       let v := if ra then (v * (15 # 1))%Q else v in
       Qle_bool (Qabs (v - Q_of_float x)) tol_deg)
  | _ => false
  end.

Definition nd_list : list Z := zrange (-1) 14.      (* n_dec = -1 .. 12 *)

Definition chk_strings (x : float) : bool :=
  forallb (fun ra => forallb (fun fancy => forallb (chk_str x ra fancy) nd_list) [true; false]) [false; true].
Definition chk_tuples (x : float) : bool := chk_tuple x false && chk_tuple x true.

Definition in_range (x : float) : bool := (-360 <? x)%float && (x <? 360)%float.

Definition chk_point (i : Z) : bool :=
  let x := grid i in in_range x && chk_strings x && chk_tuples x.
