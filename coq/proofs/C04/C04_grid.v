(* C04: lifting the sharded kernel computations to quantified statements over the grid *)
From Coq Require Import ZArith NArith List Bool String QArith Lia PrimFloat.
From PyLib Require Import PyVal PyBuiltins B64 B64Facts Range.
From Gen Require Import M_base M_Angle.
From Proofs.C04 Require Import C04_defs.
From Proofs.C04 Require C04_shard_00.
From Proofs.C04 Require C04_shard_01.
From Proofs.C04 Require C04_shard_02.
From Proofs.C04 Require C04_shard_03.
From Proofs.C04 Require C04_shard_04.
From Proofs.C04 Require C04_shard_05.
From Proofs.C04 Require C04_shard_06.
From Proofs.C04 Require C04_shard_07.
From Proofs.C04 Require C04_shard_08.
From Proofs.C04 Require C04_shard_09.
From Proofs.C04 Require C04_shard_10.
From Proofs.C04 Require C04_shard_11.
From Proofs.C04 Require C04_shard_12.
From Proofs.C04 Require C04_shard_13.
From Proofs.C04 Require C04_shard_14.
From Proofs.C04 Require C04_shard_15.
Import ListNotations.
Open Scope Z_scope.

Lemma n_grid_val : n_grid = 4678.
Proof. reflexivity. Qed.

Lemma all_points : forall i, 0 <= i < 4678 -> chk_point i = true.
Proof.
  intros i Hi.
  destruct (Z_lt_ge_dec i 293) as [H0|H0]; [apply (all_range_spec _ _ _ C04_shard_00.shard); lia|].
  destruct (Z_lt_ge_dec i 586) as [H1|H1]; [apply (all_range_spec _ _ _ C04_shard_01.shard); lia|].
  destruct (Z_lt_ge_dec i 879) as [H2|H2]; [apply (all_range_spec _ _ _ C04_shard_02.shard); lia|].
  destruct (Z_lt_ge_dec i 1172) as [H3|H3]; [apply (all_range_spec _ _ _ C04_shard_03.shard); lia|].
  destruct (Z_lt_ge_dec i 1465) as [H4|H4]; [apply (all_range_spec _ _ _ C04_shard_04.shard); lia|].
  destruct (Z_lt_ge_dec i 1758) as [H5|H5]; [apply (all_range_spec _ _ _ C04_shard_05.shard); lia|].
  destruct (Z_lt_ge_dec i 2051) as [H6|H6]; [apply (all_range_spec _ _ _ C04_shard_06.shard); lia|].
  destruct (Z_lt_ge_dec i 2344) as [H7|H7]; [apply (all_range_spec _ _ _ C04_shard_07.shard); lia|].
  destruct (Z_lt_ge_dec i 2637) as [H8|H8]; [apply (all_range_spec _ _ _ C04_shard_08.shard); lia|].
  destruct (Z_lt_ge_dec i 2930) as [H9|H9]; [apply (all_range_spec _ _ _ C04_shard_09.shard); lia|].
  destruct (Z_lt_ge_dec i 3223) as [H10|H10]; [apply (all_range_spec _ _ _ C04_shard_10.shard); lia|].
  destruct (Z_lt_ge_dec i 3516) as [H11|H11]; [apply (all_range_spec _ _ _ C04_shard_11.shard); lia|].
  destruct (Z_lt_ge_dec i 3809) as [H12|H12]; [apply (all_range_spec _ _ _ C04_shard_12.shard); lia|].
  destruct (Z_lt_ge_dec i 4102) as [H13|H13]; [apply (all_range_spec _ _ _ C04_shard_13.shard); lia|].
  destruct (Z_lt_ge_dec i 4395) as [H14|H14]; [apply (all_range_spec _ _ _ C04_shard_14.shard); lia|].
  apply (all_range_spec _ _ _ C04_shard_15.shard); lia.
Qed.

Lemma nd_in k : -1 <= k <= 12 -> In k nd_list.
Proof. intro H. unfold nd_list. apply zrange_In. simpl. lia. Qed.

Lemma bool_in (b : bool) : In b [true; false].
Proof. destruct b; simpl; auto. Qed.
Lemma bool_in' (b : bool) : In b [false; true].
Proof. destruct b; simpl; auto. Qed.

(* every grid value is an Angle value *)
Lemma grid_in_range i : 0 <= i < 4678 -> in_range (grid i) = true.
Proof.
  intros Hi. pose proof (all_points i Hi) as H. unfold chk_point in H.
  apply andb_true_iff in H. destruct H as [H _]. apply andb_true_iff in H. exact (proj1 H).
Qed.

(* printed forms: the string of the generated dms_str / ra_str parses and satisfies every clause *)
Lemma print_grid i ra fancy nd : 0 <= i < 4678 -> -1 <= nd <= 12 ->
  exists p, printed_of (grid i) ra fancy nd = Some p /\
    chk_no60 p = true /\ chk_lead ra p = true /\ chk_sign (grid i) p = true /\
    chk_decimals nd p = true /\ chk_readback (grid i) ra nd p = true.
Proof.
  intros Hi Hn. pose proof (all_points i Hi) as H. unfold chk_point in H.
  apply andb_true_iff in H. destruct H as [H _]. apply andb_true_iff in H. destruct H as [_ H].
  unfold chk_strings in H. rewrite forallb_forall in H. specialize (H ra (bool_in' ra)).
  rewrite forallb_forall in H. specialize (H fancy (bool_in fancy)).
  rewrite forallb_forall in H. specialize (H nd (nd_in nd Hn)).
  unfold chk_str in H. destruct (printed_of (grid i) ra fancy nd) as [p|]; [|discriminate].
  exists p. split; [reflexivity|]. unfold chk_printed in H.
  do 4 (apply andb_true_iff in H; destruct H as [H ?]). repeat split; assumption.
Qed.

(* tuples: integer fields in range, sign +-1, recombination within 1e-9 degree *)
Lemma tuple_grid i ra : 0 <= i < 4678 -> chk_tuple (grid i) ra = true.
Proof.
  intros Hi. pose proof (all_points i Hi) as H. unfold chk_point in H.
  apply andb_true_iff in H. destruct H as [_ H]. unfold chk_tuples in H.
  apply andb_true_iff in H. destruct ra; tauto.
Qed.

(* the remark on hours: the whole-turn print really occurs (not excluded by the property text,
   which asks for the read-back modulo 24 h) *)
Lemma ra_prints_24h :
  Angle_ra_str B0 (mk_angle 0x1.67ffffffff921p+8%float) (VBool true) (VInt 2) = VStr "24h 0' 0.0''".
Proof. vm_compute. reflexivity. Qed.
