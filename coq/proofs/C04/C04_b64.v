(* C04_b64: Angle.deg2dms in the binary64 instance, EVERY finite float. *)
From Coq Require Import ZArith Reals Lra Lia Bool List.
From Coq Require Import Uint63 Floats.
From Flocq Require Import Core BinarySingleNaN PrimFloat.
From PyLib Require Import PyVal PyBuiltins B64 B64Verified Whnf PyEval B64Eval.
From Spec Require Import AngleSpec.
From Gen Require Import M_base M_Angle.
Import ListNotations.
Open Scope R_scope.

From Ltac2 Require Ltac2.
Ltac2 Set Whnf.is_blocked as old := fun c =>
  Ltac2.Bool.or (old c) (Ltac2.List.exist (Ltac2.Constr.equal c) ['@Angle_reduce_deg; '@fmod_py]).

(* reduce_deg is taken from its specification (proved in proofs/C03/C03_reduce_b64.v for every
   finite float; restated here as a hypothesis-free lemma would need that file: C04 re-proves nothing,
   the theorem below is parametrised by the reduce_deg fact and C04.v instantiates it) *)
Definition reduce_ok (x r : PrimFloat.float) : Prop :=
  Angle_reduce_deg B0 (VFloat x) = VFloat r /\ fin r /\ RV r = red360 (RV x).

Theorem deg2dms_b64_from_reduce x r : reduce_ok x r ->
  let a := Rabs (red360 (RV x)) in
  let de := Zfloor a in
  let p := RN ((a - IZR de) * 60) in
  let mi := Zfloor p in
  exists se sg,
    Angle_deg2dms B0 (VFloat x) = VTuple [VInt de; VInt mi; VFloat se; VFloat sg] /\
    (0 <= de <= 359)%Z /\ (0 <= mi <= 59)%Z /\
    fin se /\ RV se = RN ((p - IZR mi) * 60) /\ 0 <= RV se < 60 /\
    ((0 <= red360 (RV x) /\ sg = 1%float) \/ (red360 (RV x) < 0 /\ sg = (-1)%float)).
Proof.
  intros (E & Fr & Hr) a de p mi.
  pose proof (red360_range (RV x)) as Hrange.
  assert (fin (abs r)) as Fa by (apply abs_fin; exact Fr).
  assert (RV (abs r) = a) as Ha by (rewrite abs_R, Hr; reflexivity).
  assert (0 <= a < 360) as Ha360 by (unfold a; split; [apply Rabs_pos | apply Rabs_def1; lra]).
  (* degrees *)
  assert (b64_trunc (abs r) = de) as Hde.
  { rewrite b64_trunc_correct by exact Fa. rewrite Ha. unfold Ztrunc. rewrite Rlt_bool_false by lra. reflexivity. }
  assert (0 <= de <= 359)%Z as Hde_r.
  { unfold de. split.
    - apply Zfloor_lub. simpl. lra.
    - assert (Zfloor a < 360)%Z; [| lia]. apply lt_IZR. pose proof (Zfloor_lb a). lra. }
  (* minutes with decimals *)
  destruct (fmod_py_1_nonneg (abs r) Fa ltac:(rewrite Ha; lra)) as (f1 & H1 & Ff1 & Hf1 & Hf1r).
  rewrite Ha in Hf1. fold de in Hf1.
  destruct (frac_times_60 f1 Ff1 Hf1r) as (Hp1 & Fp1 & Hp1r).
  rewrite Hf1 in Hp1. fold p in Hp1.
  set (p1 := (f1 * 60)%float) in *.
  pose proof (bpow_gt_0 radix2 (-47)) as Hb47.
  assert (b64_trunc p1 = mi) as Hmi.
  { rewrite b64_trunc_correct by exact Fp1. rewrite Hp1. unfold Ztrunc. rewrite Rlt_bool_false by lra. reflexivity. }
  assert (0 <= mi <= 59)%Z as Hmi_r.
  { unfold mi. split.
    - apply Zfloor_lub. simpl. lra.
    - assert (Zfloor p < 60)%Z; [| lia]. apply lt_IZR. pose proof (Zfloor_lb p). lra. }
  (* seconds *)
  destruct (fmod_py_1_nonneg p1 Fp1 ltac:(lra)) as (f2 & H2 & Ff2 & Hf2 & Hf2r).
  rewrite Hp1 in Hf2. fold mi in Hf2.
  destruct (frac_times_60 f2 Ff2 Hf2r) as (Hse & Fse & Hser).
  rewrite Hf2 in Hse.
  pose proof (eqb_self_fin (abs r) Fa) as N1. pose proof (abs_not_inf (abs r) Fa) as N2.
  pose proof (eqb_self_fin p1 Fp1) as N3. pose proof (abs_not_inf p1 Fp1) as N4.
  assert ((b64_of_Z 0 <=? r)%float = Rle_bool 0 (red360 (RV x))) as C1
    by (change (b64_of_Z 0) with 0%float; rewrite (leb_R 0 r fin_zero Fr), RV_zero, Hr; reflexivity).
  destruct (Rle_bool_spec 0 (red360 (RV x))) as [Hp | Hn].
  - exists (f2 * 60)%float, 1%float. split.
    { unfold Angle_deg2dms. b64run. cbn [f_trunc f_abs f_mul f_lit B0 B64ops B64opsC]. fold p1. rewrite Hde, Hmi. reflexivity. }
    repeat split; try assumption; try lia; try lra. left. split; [exact Hp | reflexivity].
  - exists (f2 * 60)%float, (-1)%float. split.
    { unfold Angle_deg2dms. b64run. cbn [f_trunc f_abs f_mul f_lit B0 B64ops B64opsC]. fold p1. rewrite Hde, Hmi. reflexivity. }
    repeat split; try assumption; try lia; try lra. right. split; [exact Hn | reflexivity].
Qed.

From Proofs.C04 Require C04_reduce_b64.

(* deg2dms, EVERY finite float x (a = |red360 x| is the reduced magnitude):
   degrees = floor a in 0..359, minutes = floor p in 0..59 with p = RN((a - degrees) 60) the single
   rounded product, seconds = RN((p - minutes) 60) in [0, 60) -- never 60 --, sign +-1.0 *)
Theorem deg2dms_b64 x : fin x ->
  let a := Rabs (red360 (RV x)) in
  let de := Zfloor a in
  let p := RN ((a - IZR de) * 60) in
  let mi := Zfloor p in
  exists se sg,
    Angle_deg2dms B0 (VFloat x) = VTuple [VInt de; VInt mi; VFloat se; VFloat sg] /\
    (0 <= de <= 359)%Z /\ (0 <= mi <= 59)%Z /\
    fin se /\ RV se = RN ((p - IZR mi) * 60) /\ 0 <= RV se < 60 /\
    ((0 <= red360 (RV x) /\ sg = 1%float) \/ (red360 (RV x) < 0 /\ sg = (-1)%float)).
Proof.
  intro Fx. destruct (C04_reduce_b64.reduce_deg_b64_exact x Fx) as (r & E & Fr & Hr).
  apply (deg2dms_b64_from_reduce x r). split; [exact E|]. split; assumption.
Qed.
