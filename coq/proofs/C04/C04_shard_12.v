(* C04 shard 12: grid points 3516 .. 3808, by kernel computation *)
From Coq Require Import ZArith NArith.
From PyLib Require Import Range.
From Proofs.C04 Require Import C04_defs.
Lemma shard : all_range 3516 293%N chk_point = true.
Proof. vm_cast_no_check (@eq_refl bool true). Qed.
